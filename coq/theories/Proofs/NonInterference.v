(* C03 over WHOLE RUNS: non-interference of the deliveries the tracer must ignore.

   A delivery is QUIET in a state when it is "nothing received" (a timeout) or a response that is not genuine
   there ([pick] = the ground-truth test RoundHistory.ghost_pick, on the delivery alone).  Quiet responses fall
   into exactly four classes ([pick_none_classes]): not validated, foreign trace identifier, sequence not issued
   in the round in progress, slot not awaiting (duplicate / failed / abandoned).

   * one delivery: a quiet delivery is [Ok (s, None)] - the ENTIRE tracer state is returned unchanged, no field
     differs from the result of a timeout ([quiet_recv_noop]);
   * whole runs: two input histories that differ only in quiet deliveries (any of them replaced by a timeout, or
     by any other quiet delivery) give the same run: same events (sends and published rounds), same outcome, same
     final tracer state ([run_noninterference]); [scrub] replaces EVERY non-genuine response by a timeout, the
     scrubbed history contains genuine responses only, and it is the same run ([scrub_same_run]);
   * filters that do not look at the state: responses failing validation, responses carrying a foreign non-zero
     trace identifier, responses of the other tracers of the same process (identifiers of Tui/TraceId.v) can be
     deleted from any history without changing the run ([drop_if_same_run] and its instances). *)
From TV Require Import Base.Result Core.Types Core.TracerState Core.Strategy Core.Builder Tui.TraceId
  Proofs.ListLemmas Proofs.StrategyInv Proofs.StrategyProps Proofs.TraceIdProofs Proofs.RoundHistory
  Proofs.RunLog Proofs.RunLogProps Core.State Proofs.FlowAttr.
From Coq Require Import ZifyBool.

(* ------------------------------------------------------------------ deliveries *)
Definition set_recv (i : iter_in) (rc : recv_outcome) : iter_in :=
  {| i_clock := i_clock i; i_sends := i_sends i; i_recv := rc; i_update := i_update i; i_advance := i_advance i |}.

Definition it_of (rc : recv_outcome) : iter_in :=
  {| i_clock := []; i_sends := []; i_recv := rc; i_update := 0; i_advance := 0 |}.

(* the ground-truth test of RoundHistory.v as a function of the delivery alone *)
Definition pick (c : scfg) (s : tstate) (rc : recv_outcome) : option (probe * sresp) := ghost_pick c s (it_of rc).

Lemma pick_ghost c s i : ghost_pick c s i = pick c s (i_recv i).
Proof. reflexivity. Qed.

Definition quiet (c : scfg) (s : tstate) (rc : recv_outcome) : Prop :=
  match rc with
  | Timeout => True
  | Resp _ => pick c s rc = None
  | FatalR _ => False
  end.

(* the four classes of responses that are not genuine - and nothing else is *)
Definition not_awaiting (s : tstate) (q : Z) : Prop :=
  forall p, nth_error (buffer s) (Z.to_nat (q - round_sequence s)) <> Some (Awaited p).

Lemma pick_none_classes c s r :
  pick c s (Resp r) = None <->
  validate c (resp_data_of r) = false \/
  exists sr, strategy_resp c r = Ok sr /\
    (check_trace_id c (sr_trace_id sr) = false \/
     ~ (round_sequence s <= sr_sequence sr < sequence s) \/
     not_awaiting s (sr_sequence sr)).
Proof.
  unfold pick, ghost_pick, it_of, not_awaiting. cbn [i_recv].
  destruct (validate c (resp_data_of r)) eqn:Ev.
  2:{ split; [intros _; left; reflexivity|reflexivity]. }
  destruct (strategy_resp_ok c r) as [sr Hsr]. rewrite Hsr.
  destruct (check_trace_id c (sr_trace_id sr)) eqn:Et; cbn [andb].
  2:{ split; [intros _; right; exists sr; split; [reflexivity|left; exact Et]|reflexivity]. }
  destruct ((round_sequence s <=? sr_sequence sr) && (sr_sequence sr <? sequence s)) eqn:Er.
  2:{ split; [intros _; right; exists sr; split; [reflexivity|right; left; lia]|reflexivity]. }
  split.
  - intros H. right. exists sr. split; [reflexivity|]. right. right. intros p Hp. rewrite Hp in H. discriminate.
  - intros [H|(sr' & Hs' & H)]; [discriminate H|]. inversion Hs'; subst sr'.
    destruct H as [H|[H|H]]; [congruence|lia|].
    destruct (nth_error (buffer s) (Z.to_nat (sr_sequence sr - round_sequence s))) as [[| |?|p|?]|] eqn:En; try reflexivity.
    exfalso. exact (H p eq_refl).
Qed.

(* a genuine response names exactly one awaiting probe of the round in progress *)
Lemma pick_some_accepted c s r p sr : pick c s (Resp r) = Some (p, sr) <-> accepted c s r sr p.
Proof.
  split.
  - intros H. destruct (ghost_pick_accepted c s (it_of (Resp r)) p sr H) as (r' & Hr & Hacc).
    cbn [it_of i_recv] in Hr. inversion Hr; subst r'. exact Hacc.
  - intros Hacc. exact (accepted_ghost_pick c s (it_of (Resp r)) r sr p eq_refl Hacc).
Qed.

(* ------------------------------------------------------------------ one delivery *)
Lemma recv_response_only_recv c s i i' : i_recv i = i_recv i' -> recv_response c s i = recv_response c s i'.
Proof. intros H. unfold recv_response. rewrite H. reflexivity. Qed.

(* a quiet delivery returns the whole state unchanged and no error: exactly the result of a timeout *)
Lemma quiet_recv_noop c s i : Accept c -> Inv c s -> quiet c s (i_recv i) -> recv_response c s i = Ok (s, None).
Proof.
  intros HA HI Hq.
  destruct (recv_response_ok c s i HA HI) as (s' & e & H & _ & _ & _ & _ & _ & _ & He & Hcase).
  destruct (i_recv i) as [|r|x] eqn:Ei; cbn [quiet] in Hq; [| |contradiction].
  - unfold recv_response. rewrite Ei. reflexivity.
  - subst e. destruct Hcase as [->|(r0 & sr & p & Hr0 & Hacc & _)]; [exact H|].
    exfalso. inversion Hr0; subst r0. apply (pick_some_accepted c s r p sr) in Hacc. rewrite Hacc in Hq. discriminate.
Qed.

Lemma timeout_recv c s i : i_recv i = Timeout -> recv_response c s i = Ok (s, None).
Proof. intros H. unfold recv_response. rewrite H. reflexivity. Qed.

(* conversely: a delivery that is not quiet and not a fatal error changes the state (the slot becomes Complete) *)
Lemma genuine_recv_changes c s i r p sr s' e : Inv c s -> i_recv i = Resp r -> pick c s (Resp r) = Some (p, sr) ->
  recv_response c s i = Ok (s', e) -> s' <> s.
Proof.
  intros HI Hi Hp H Heq. subst s'. apply pick_some_accepted in Hp.
  pose proof (recv_accepted_applies c s i r sr p s e HI Hi Hp H) as Hx.
  destruct Hp as (_ & _ & _ & _ & Hn). rewrite Hn in Hx. discriminate.
Qed.

(* ------------------------------------------------------------------ one iteration *)
Definition same_env (i i' : iter_in) : Prop :=
  i_clock i = i_clock i' /\ i_sends i = i_sends i' /\ i_update i = i_update i' /\ i_advance i = i_advance i'.

Lemma same_env_refl i : same_env i i.
Proof. repeat split. Qed.

Lemma same_env_set_recv i rc : same_env i (set_recv i rc).
Proof. repeat split. Qed.

Lemma send_request_env c s i i' : same_env i i' -> send_request c s i = send_request c s i'.
Proof. intros (H1 & H2 & _). unfold send_request. rewrite H1, H2. reflexivity. Qed.

Lemma update_round_env c s i i' : same_env i i' -> update_round c s i = update_round c s i'.
Proof. intros (_ & _ & H3 & H4). unfold update_round. rewrite H3, H4. reflexivity. Qed.

(* i' is i with its delivery kept, or with a quiet delivery replaced by another quiet delivery; quietness is
   judged in the state reached after the send phase of the iteration (where the delivery is processed) *)
Definition recv_sim (c : scfg) (s : tstate) (i i' : iter_in) : Prop :=
  same_env i i' /\
  forall s1 ev, send_request c s i = Ok (s1, ev, None) ->
    i_recv i = i_recv i' \/ (quiet c s1 (i_recv i) /\ quiet c s1 (i_recv i')).

Lemma recv_sim_refl c s i : recv_sim c s i i.
Proof. split; [apply same_env_refl|]. intros; left; reflexivity. Qed.

Lemma step_sim c s i i' : Accept c -> Inv c s -> recv_sim c s i i' -> step c s i' = step c s i.
Proof.
  intros HA HI [He Hr]. unfold step. rewrite <- (send_request_env c s i i' He).
  destruct (send_request_ok c s i HA HI) as (s1 & ev1 & e1 & H1 & HI1 & _). rewrite H1. cbn [bind].
  destruct e1 as [e1|]; [reflexivity|].
  assert (Hrecv : recv_response c s1 i' = recv_response c s1 i).
  { destruct (Hr s1 ev1 H1) as [Heq|[Hq Hq']].
    - symmetry. apply recv_response_only_recv. exact Heq.
    - rewrite (quiet_recv_noop c s1 i HA HI1 Hq), (quiet_recv_noop c s1 i' HA HI1 Hq'). reflexivity. }
  rewrite Hrecv. destruct (recv_response c s1 i) as [[s2 e2]|?|?]; cbn [bind]; try reflexivity.
  destruct e2; [reflexivity|]. rewrite <- (update_round_env c s2 i i' He). reflexivity.
Qed.

(* ------------------------------------------------------------------ whole runs *)
Fixpoint run_sim (c : scfg) (s : tstate) (is is' : list iter_in) : Prop :=
  match is, is' with
  | [], [] => True
  | i :: rest, i' :: rest' =>
    recv_sim c s i i' /\ (forall s' ev, step c s i = Ok (s', ev, None) -> run_sim c s' rest rest')
  | _, _ => False
  end.

Lemma run_sim_refl c : forall is s, run_sim c s is is.
Proof. induction is as [|i rest IH]; intros s; cbn [run_sim]; [exact I|]. split; [apply recv_sim_refl|]. intros; apply IH. Qed.

(* NON-INTERFERENCE: the same events (sends, published rounds), the same outcome, the same final tracer state *)
Theorem run_noninterference c : Accept c -> forall is is' s, Inv c s -> run_sim c s is is' ->
  run_from c s is' = run_from c s is.
Proof.
  intros HA. induction is as [|i rest IH]; intros [|i' rest'] s HI Hs; cbn [run_sim] in Hs; try contradiction; [reflexivity|].
  destruct Hs as [Hi Hrest]. cbn [run_from].
  destruct (finished s (max_rounds c)); [reflexivity|].
  rewrite (step_sim c s i i' HA HI Hi).
  destruct (step_ok c s i HA HI) as (s' & ev & e & Hst & HI'). rewrite Hst.
  destruct e as [e|]; [reflexivity|].
  rewrite (IH rest' s' HI' (Hrest s' ev Hst)). reflexivity.
Qed.

(* ------------------------------------------------------------------ the harness oracle: scrub every non-genuine response *)
Definition scrub_iter (c : scfg) (s : tstate) (i : iter_in) : iter_in :=
  match send_request c s i with
  | Ok (s1, _, None) =>
    match i_recv i with
    | Resp r => match pick c s1 (Resp r) with None => set_recv i Timeout | Some _ => i end
    | _ => i
    end
  | _ => i
  end.

Fixpoint scrub (c : scfg) (s : tstate) (is : list iter_in) : list iter_in :=
  match is with
  | [] => []
  | i :: rest =>
    scrub_iter c s i :: match step c s i with Ok (s', _, None) => scrub c s' rest | _ => rest end
  end.

Lemma scrub_iter_sim c s i : recv_sim c s i (scrub_iter c s i).
Proof.
  unfold scrub_iter. destruct (send_request c s i) as [[[s1 ev1] [e1|]]|?|?] eqn:H1; try apply recv_sim_refl.
  destruct (i_recv i) as [|r|x] eqn:Ei; try apply recv_sim_refl.
  destruct (pick c s1 (Resp r)) as [a|] eqn:Ep; [apply recv_sim_refl|].
  split; [apply same_env_set_recv|]. intros s1' ev' H'. rewrite H1 in H'. inversion H'; subst s1' ev'.
  right. rewrite Ei. cbn [set_recv i_recv quiet]. split; [exact Ep|exact I].
Qed.

Lemma scrub_sim c : Accept c -> forall is s, Inv c s -> run_sim c s is (scrub c s is).
Proof.
  intros HA. induction is as [|i rest IH]; intros s HI; cbn [scrub run_sim]; [exact I|].
  split; [apply scrub_iter_sim|]. intros s' ev Hst. rewrite Hst.
  destruct (step_ok c s i HA HI) as (s2 & ev2 & e2 & Hst2 & HI2). rewrite Hst in Hst2. inversion Hst2; subst s2 ev2 e2.
  apply IH. exact HI2.
Qed.

Theorem scrub_same_run c s is : Accept c -> Inv c s -> run_from c s (scrub c s is) = run_from c s is.
Proof. intros HA HI. apply run_noninterference; [assumption|assumption|apply scrub_sim; assumption]. Qed.

(* every response left in the scrubbed history is genuine at the moment it is delivered *)
Fixpoint all_genuine (c : scfg) (s : tstate) (is : list iter_in) : Prop :=
  match is with
  | [] => True
  | i :: rest =>
    (forall s1 ev r, send_request c s i = Ok (s1, ev, None) -> i_recv i = Resp r -> pick c s1 (Resp r) <> None) /\
    (forall s' ev, step c s i = Ok (s', ev, None) -> all_genuine c s' rest)
  end.

Lemma scrub_all_genuine c : Accept c -> forall is s, Inv c s -> all_genuine c s (scrub c s is).
Proof.
  intros HA. induction is as [|i rest IH]; intros s HI; cbn [scrub all_genuine]; [exact I|].
  pose proof (scrub_iter_sim c s i) as Hsim. split.
  - intros s1 ev r H1 Hr. rewrite <- (send_request_env c s i _ (proj1 Hsim)) in H1.
    unfold scrub_iter in Hr. rewrite H1 in Hr.
    destruct (i_recv i) as [|r0|x] eqn:Ei; try congruence.
    destruct (pick c s1 (Resp r0)) as [a|] eqn:Ep; [|cbn [set_recv i_recv] in Hr; discriminate].
    rewrite Ei in Hr. inversion Hr; subst r0. congruence.
  - intros s' ev Hst. rewrite (step_sim c s i _ HA HI Hsim) in Hst. rewrite Hst.
    destruct (step_ok c s i HA HI) as (s2 & ev2 & e2 & Hst2 & HI2). rewrite Hst in Hst2. inversion Hst2; subst s2 ev2 e2.
    apply IH. exact HI2.
Qed.

(* scrubbing only ever turns a response into a timeout; everything else of the history is kept *)
Lemma scrub_shape c : forall is s, Forall2 (fun i i' => i' = i \/ (exists r, i_recv i = Resp r) /\ i' = set_recv i Timeout) is (scrub c s is).
Proof.
  induction is as [|i rest IH]; intros s; cbn [scrub]; constructor.
  - unfold scrub_iter. destruct (send_request c s i) as [[[s1 ev1] [e1|]]|?|?]; try (left; reflexivity).
    destruct (i_recv i) as [|r|x] eqn:Ei; try (left; reflexivity).
    destruct (pick c s1 (Resp r)); [left; reflexivity|]. right. split; [exists r; reflexivity|reflexivity].
  - destruct (step c s i) as [[[s' ev] [e|]]|?|?]; try apply IH.
    + clear. induction rest; constructor; [left; reflexivity|assumption].
    + clear. induction rest; constructor; [left; reflexivity|assumption].
    + clear. induction rest; constructor; [left; reflexivity|assumption].
Qed.

(* ------------------------------------------------------------------ filters that do not look at the state *)
Definition drop_if (f : response -> bool) (is : list iter_in) : list iter_in :=
  map (fun i => match i_recv i with Resp r => if f r then set_recv i Timeout else i | _ => i end) is.

(* f marks only responses that are never genuine, whatever the state *)
Definition never_genuine (c : scfg) (f : response -> bool) : Prop :=
  forall r s, f r = true -> pick c s (Resp r) = None.

Lemma drop_if_sim c f : never_genuine c f -> forall is s, run_sim c s is (drop_if f is).
Proof.
  intros Hf. induction is as [|i rest IH]; intros s; cbn [drop_if map run_sim]; [exact I|].
  split; [|intros; apply IH].
  destruct (i_recv i) as [|r|x] eqn:Ei; try apply recv_sim_refl.
  destruct (f r) eqn:Ef; [|apply recv_sim_refl].
  split; [apply same_env_set_recv|]. intros s1 ev _. right. rewrite Ei. cbn [set_recv i_recv quiet].
  split; [apply Hf; exact Ef|exact I].
Qed.

Theorem drop_if_same_run c f s is : Accept c -> Inv c s -> never_genuine c f ->
  run_from c s (drop_if f is) = run_from c s is.
Proof. intros HA HI Hf. apply run_noninterference; [assumption|assumption|apply drop_if_sim; assumption]. Qed.

(* class 1: responses that fail validation (other target, other ports, missing Dublin/IPv6 marker) *)
Definition invalid (c : scfg) (r : response) : bool := negb (validate c (resp_data_of r)).

Lemma invalid_never_genuine c : never_genuine c (invalid c).
Proof.
  intros r s H. apply pick_none_classes. left. unfold invalid in H. destruct (validate c (resp_data_of r)); [discriminate|reflexivity].
Qed.

(* class 2: responses whose derived trace identifier is neither ours nor the wildcard 0 *)
Definition foreign_id (c : scfg) (r : response) : bool :=
  match strategy_resp c r with Ok sr => negb (check_trace_id c (sr_trace_id sr)) | _ => false end.

Lemma foreign_id_never_genuine c : never_genuine c (foreign_id c).
Proof.
  intros r s H. apply pick_none_classes. right. unfold foreign_id in H.
  destruct (strategy_resp c r) as [sr|?|?]; try discriminate. exists sr. split; [reflexivity|]. left.
  destruct (check_trace_id c (sr_trace_id sr)); [discriminate|reflexivity].
Qed.

(* the trace identifier derived from a response: the ICMP identifier field, 0 for UDP and TCP *)
Lemma strategy_resp_trace_id c r sr : strategy_resp c r = Ok sr ->
  sr_trace_id sr = match r_proto (resp_data_of r) with PIcmp id _ _ => id | _ => 0 end.
Proof.
  intros H. unfold strategy_resp in H.
  destruct r as [d code e|d code e|d code|d|d]; cbn [resp_data_of];
    destruct (proto_sresp c (r_proto d)) as [[[[[tid q] tos] ex] ac]|?|?] eqn:Ep; cbn [bind] in H; try discriminate;
    inversion H; subst sr; cbn [sr_trace_id]; clear H;
    unfold proto_sresp in Ep; destruct (r_proto d) as [id sq t|id da sp dp t ex0 ac0 pl mg|da sp dp t];
    try (inversion Ep; reflexivity);
    destruct (match multipath c, port_direction c, is_v6 (target_addr c) with
              | Classic, FixedDest _, _ => Ok sp | Classic, _, _ => Ok dp | Paris, _, _ => Ok ac0
              | Dublin, _, false => Ok id | Dublin, _, true => Ok ((initial_sequence c + pl) mod 65536) end) as [q0|?|?];
    cbn [bind] in Ep; try discriminate;
    destruct (match multipath c, is_v6 (target_addr c) with Dublin, false => (Some ex0, Some ac0) | _, _ => (None, None) end);
    inversion Ep; reflexivity.
Qed.

(* class 3: the tracers of one process.  The tracer with index i of process pid ignores, over the whole run,
   every response that carries the identifier of another tracer j of that process *)
Definition from_other_tracer (c : scfg) (pid i : Z) (r : response) : Prop :=
  exists j sr, 0 <= j < 65535 /\ j <> i /\ strategy_resp c r = Ok sr /\ sr_trace_id sr = trace_identifier_for pid j.

Lemma other_tracer_never_genuine c pid i f : trace_identifier c = trace_identifier_for pid i -> 0 <= i < 65535 ->
  (forall r, f r = true -> from_other_tracer c pid i r) -> never_genuine c f.
Proof.
  intros Hc Hi Hf r s Hfr. destruct (Hf r Hfr) as (j & sr & Hj & Hne & Hs & Ht).
  apply pick_none_classes. right. exists sr. split; [exact Hs|]. left. rewrite Ht.
  apply (tid_isolation c pid i j Hc); lia.
Qed.

Theorem tracers_isolated_run c pid i f t0 is : Accept c ->
  trace_identifier c = trace_identifier_for pid i -> 0 <= i < 65535 ->
  (forall r, f r = true -> from_other_tracer c pid i r) ->
  run c t0 (drop_if f is) = run c t0 is.
Proof.
  intros HA Hc Hi Hf. unfold run. apply drop_if_same_run; [assumption|apply inv_new; assumption|].
  exact (other_tracer_never_genuine c pid i f Hc Hi Hf).
Qed.

(* two tracers on one network: each one's run is the run it would have had alone (the other's responses deleted) *)
Theorem two_tracers_alone ca cb pid i j fa fb ta tb isa isb : Accept ca -> Accept cb ->
  trace_identifier ca = trace_identifier_for pid i -> trace_identifier cb = trace_identifier_for pid j ->
  0 <= i < 65535 -> 0 <= j < 65535 -> i <> j ->
  (forall r, fa r = true -> exists sr, strategy_resp ca r = Ok sr /\ sr_trace_id sr = trace_identifier cb) ->
  (forall r, fb r = true -> exists sr, strategy_resp cb r = Ok sr /\ sr_trace_id sr = trace_identifier ca) ->
  run ca ta (drop_if fa isa) = run ca ta isa /\ run cb tb (drop_if fb isb) = run cb tb isb.
Proof.
  intros HAa HAb Ha Hb Hi Hj Hne Hfa Hfb. split.
  - apply (tracers_isolated_run ca pid i fa ta isa HAa Ha Hi). intros r Hr. destruct (Hfa r Hr) as (sr & Hs & Ht).
    exists j, sr. repeat split; try lia; try assumption; congruence.
  - apply (tracers_isolated_run cb pid j fb tb isb HAb Hb Hj). intros r Hr. destruct (Hfb r Hr) as (sr & Hs & Ht).
    exists i, sr. repeat split; try lia; try assumption; congruence.
Qed.

(* ------------------------------------------------------------------ consequences for the published rounds *)
Lemma run_sim_same_rounds c t0 is is' : Accept c -> run_sim c (ts_new c t0) is is' ->
  pubs (fst (fst (run c t0 is'))) = pubs (fst (fst (run c t0 is))) /\
  sends_of (fst (fst (run c t0 is'))) = sends_of (fst (fst (run c t0 is))) /\
  snd (run c t0 is') = snd (run c t0 is).
Proof.
  intros HA Hs. unfold run. rewrite (run_noninterference c HA is is' _ (inv_new c t0 HA) Hs). repeat split.
Qed.

(* ------------------------------------------------------------------ the same on the observation log, state-free
   [genuine] of RunLog.v decides genuineness on the log alone (the ghost of the log before the delivery); the log of
   the scrubbed history is the log of the original history with the deliveries that are not genuine deleted *)
Fixpoint drop_nongenuine (c : scfg) (g : ghost) (l : list obs) : list obs :=
  match l with
  | [] => []
  | o :: t =>
    match o with
    | ORecv r => match genuine c (g_S g) (g_A g) r with Some _ => [o] | None => [] end
    | _ => [o]
    end ++ drop_nongenuine c (gstep c g o) t
  end.

Lemma drop_app c l1 : forall g l2,
  drop_nongenuine c g (l1 ++ l2) = drop_nongenuine c g l1 ++ drop_nongenuine c (fold_left (gstep c) l1 g) l2.
Proof.
  induction l1 as [|o l1 IH]; intros g l2; cbn [app drop_nongenuine fold_left]; [reflexivity|].
  rewrite IH, app_assoc. reflexivity.
Qed.

Lemma drop_sends c ev g : drop_nongenuine c g (obs_sends ev) = obs_sends ev.
Proof.
  unfold obs_sends. generalize (sends_of ev). intros l. revert g.
  induction l as [|po l IH]; intros g; cbn [map drop_nongenuine app]; [reflexivity|]. f_equal. apply IH.
Qed.

(* deleting a delivery that is not genuine does not change the ghost *)
Lemma drop_ghost c l : forall g, fold_left (gstep c) (drop_nongenuine c g l) g = fold_left (gstep c) l g.
Proof.
  induction l as [|o l IH]; intros g; cbn [drop_nongenuine fold_left]; [reflexivity|].
  rewrite fold_left_app.
  assert (E : fold_left (gstep c) (match o with
            | ORecv r => match genuine c (g_S g) (g_A g) r with Some _ => [o] | None => [] end
            | _ => [o] end) g = gstep c g o).
  { destruct o as [p x|r|now|r now adv]; try reflexivity.
    cbn [gstep]. destruct (genuine c (g_S g) (g_A g) r) as [[p sr]|] eqn:E; cbn [fold_left gstep]; rewrite ?E; reflexivity. }
  rewrite E. apply IH.
Qed.

Lemma recv_sim_recv c s i i' s1 ev : Accept c -> Inv c s1 -> recv_sim c s i i' ->
  send_request c s i = Ok (s1, ev, None) -> recv_response c s1 i' = recv_response c s1 i.
Proof.
  intros HA HI1 [_ Hr] H1. destruct (Hr s1 ev H1) as [Heq|[Hq Hq']].
  - symmetry. apply recv_response_only_recv. exact Heq.
  - rewrite (quiet_recv_noop c s1 i HA HI1 Hq), (quiet_recv_noop c s1 i' HA HI1 Hq'). reflexivity.
Qed.

Theorem scrub_log c : Accept c -> forall is s g, Sim c s g ->
  run_obs c s (scrub c s is) = drop_nongenuine c g (run_obs c s is).
Proof.
  intros HA. induction is as [|i rest IH]; intros s g HS; cbn [scrub run_obs].
  - destruct (finished s (max_rounds c)); reflexivity.
  - destruct (finished s (max_rounds c)); [reflexivity|].
    pose proof (sim_inv c s g HS) as HI.
    pose proof (scrub_iter_sim c s i) as Hsim.
    rewrite <- (send_request_env c s i _ (proj1 Hsim)).
    destruct (send_request_ok c s i HA HI) as (s1 & ev1 & e1 & H1 & HI1 & _).
    unfold step. rewrite H1. cbn [bind].
    destruct (sim_send c s g i s1 ev1 e1 HA HS H1) as [_ HS1].
    destruct e1 as [e1|]; [rewrite drop_sends; reflexivity|]. specialize (HS1 eq_refl).
    rewrite drop_app, drop_sends. f_equal.
    set (g1 := fold_left (gstep c) (obs_sends ev1) g) in *.
    rewrite (recv_sim_recv c s i _ s1 ev1 HA HI1 Hsim H1).
    destruct (recv_response_ok c s1 i HA HI1) as (s2 & e2 & H2 & HI2 & _). rewrite H2. cbn [bind].
    destruct e2 as [e2|]; [reflexivity|].
    pose proof (sim_recv_phase c s1 g1 i s2 HA HS1 H2) as HS2.
    rewrite drop_app.
    assert (Hrecv : obs_recv (scrub_iter c s i) = drop_nongenuine c g1 (obs_recv i)).
    { unfold scrub_iter. rewrite H1. unfold obs_recv at 2.
      destruct (i_recv i) as [|r|x] eqn:Ei.
      - unfold obs_recv. rewrite Ei. reflexivity.
      - pose proof (genuine_ghost_pick c s1 i (g_S g1) (g_A g1) HI1 (sim_h c s1 g1 HS1) (sim_set c s1 g1 HS1)) as Hgp.
        rewrite pick_ghost, Ei in Hgp. rewrite Hgp. cbn [drop_nongenuine app].
        destruct (genuine c (g_S g1) (g_A g1) r) as [a|] eqn:Eg.
        + unfold obs_recv. rewrite Ei. reflexivity.
        + reflexivity.
      - unfold obs_recv. rewrite Ei. reflexivity. }
    rewrite Hrecv. f_equal.
    set (g2 := fold_left (gstep c) (obs_recv i) g1) in *.
    rewrite <- (update_round_env c s2 i _ (proj1 Hsim)).
    destruct Hsim as [(_ & _ & Hu & Hadv) _]. rewrite <- Hu, <- Hadv.
    destruct (update_round_ok c s2 i HA HI2) as (s3 & ev3 & H3 & HI3 & _). rewrite H3. cbn [bind].
    destruct (sim_update c s2 g2 i s3 ev3 HA HS2 H3) as [(-> & -> & _)|(r & -> & _ & _ & _ & HS3)].
    + cbn [drop_nongenuine app gstep]. f_equal. apply IH. exact HS2.
    + cbn [drop_nongenuine app]. f_equal. apply IH. exact HS3.
Qed.

(* the scrubbed run from the initial state, judged against the initial ghost *)
Theorem scrub_run_log c t0 is : Accept c ->
  run_log c t0 (scrub c (ts_new c t0) is) = drop_nongenuine c (g_init t0) (run_log c t0 is).
Proof. intros HA. unfold run_log. apply scrub_log; [assumption|apply sim_new; assumption]. Qed.

(* ------------------------------------------------------------------ statements used by Props/C03.v *)
Lemma quiet_delivery_is_timeout c s i : Accept c -> Inv c s -> quiet c s (i_recv i) ->
  recv_response c s i = Ok (s, None) /\ recv_response c s i = recv_response c s (set_recv i Timeout).
Proof.
  intros HA HI Hq. rewrite (quiet_recv_noop c s i HA HI Hq). split; [reflexivity|].
  symmetry. apply timeout_recv. reflexivity.
Qed.

Lemma scrub_run c t0 is : Accept c -> run c t0 (scrub c (ts_new c t0) is) = run c t0 is.
Proof. intros HA. unfold run. apply scrub_same_run; [assumption|apply inv_new; assumption]. Qed.

Lemma scrub_run_only_genuine c t0 is : Accept c ->
  all_genuine c (ts_new c t0) (scrub c (ts_new c t0) is) /\
  Forall2 (fun i i' => i' = i \/ (exists r, i_recv i = Resp r) /\ i' = set_recv i Timeout) is (scrub c (ts_new c t0) is).
Proof. intros HA. split; [apply scrub_all_genuine; [assumption|apply inv_new; assumption]|apply scrub_shape]. Qed.

Lemma drop_never_genuine_run c f t0 is : Accept c -> never_genuine c f -> run c t0 (drop_if f is) = run c t0 is.
Proof. intros HA Hf. unfold run. apply drop_if_same_run; [assumption|apply inv_new; assumption|assumption]. Qed.

Lemma invalid_responses_run c t0 is : Accept c -> run c t0 (drop_if (invalid c) is) = run c t0 is.
Proof. intros HA. apply drop_never_genuine_run; [assumption|apply invalid_never_genuine]. Qed.

Lemma foreign_id_responses_run c t0 is : Accept c -> run c t0 (drop_if (foreign_id c) is) = run c t0 is.
Proof. intros HA. apply drop_never_genuine_run; [assumption|apply foreign_id_never_genuine]. Qed.

(* histories that differ only in quiet deliveries give the same State *)
Lemma same_snapshot c t0 is is' ms mf : Accept c -> run_sim c (ts_new c t0) is is' ->
  st_run (state_new ms mf) (pubs (fst (fst (run c t0 is')))) = st_run (state_new ms mf) (pubs (fst (fst (run c t0 is)))).
Proof. intros HA H. destruct (run_sim_same_rounds c t0 is is' HA H) as [E _]. rewrite E. reflexivity. Qed.

(* identifier 0 is accepted whatever the protocol: witness for the ICMP example configuration of RunLogProps.v *)
Definition zero_id_response : response :=
  RTimeExceeded {| r_recv := 1; r_addr := [6;6;6;6]; r_proto := PIcmp 0 100 None |} 0 None.

Lemma any_other_identifier_refuted : exists c t0 i rest r,
  Accept c /\ proto c = Icmp /\ i_recv i = Resp r /\
  (exists sr, strategy_resp c r = Ok sr /\ sr_trace_id sr <> trace_identifier c) /\
  pubs (fst (fst (run c t0 (i :: rest)))) <> pubs (fst (fst (run c t0 (set_recv i Timeout :: rest)))).
Proof.
  exists rl_ex_cfg, 0, (rl_ex_it (Resp zero_id_response) 1), (tl rl_ex_ins), zero_id_response.
  split; [split; [reflexivity|unfold cfg_wf; cbn; unfold u8, u16; lia]|].
  split; [reflexivity|]. split; [reflexivity|]. split.
  - eexists. split; [reflexivity|]. cbn. discriminate.
  - intros H.
    apply (f_equal (map (fun r => map (fun st => match st with Complete cc => c_host cc | _ => [] end) (rr_probes r)))) in H.
    vm_compute in H. discriminate H.
Qed.
