(* Proofs/OptionsMutProofs.v - the mutable options window of an IPv4 packet lies exactly on the RFC 791 options
   field (octets 20 .. 4*IHL-1, cut at the end of the buffer), and a write through it changes nothing else. *)
From Coq Require Import ZifyBool.
From TV Require Import Base.Result Base.Bytes Base.Bits Packet.Fields Packet.Payload Packet.OptionsMut.
From TV Require Import Proofs.ListLemmas Proofs.FieldsProofs Proofs.PayloadProofs.

Lemma options_mut_bounds_ok buf : bytes buf -> (20 <= length buf)%nat ->
  ipv4_options_mut_bounds buf = Ok (20%nat, Nat.min (ipv4_payload_offset buf) (length buf)).
Proof.
  intros Hb Hm. unfold ipv4_options_mut_bounds. rewrite (sp_ipv4_options_length_ok buf Hb Hm). cbn [bind].
  unfold ipv4_minimum_packet_size. pose proof (ipv4_payload_offset_range buf) as R.
  replace (20 + (ipv4_payload_offset buf - 20))%nat with (ipv4_payload_offset buf) by lia.
  destruct (Nat.leb_spec 20 (Nat.min (ipv4_payload_offset buf) (length buf))); [reflexivity|lia].
Qed.

Lemma map_window_length g s e buf : (s <= e <= length buf)%nat -> length (map_window g s e buf) = length buf.
Proof.
  intros H. unfold map_window. rewrite !app_length, map_length, !firstn_length, !skipn_length. lia.
Qed.

Lemma map_window_out g s e buf i : (s <= e <= length buf)%nat -> (i < s \/ e <= i)%nat ->
  nth_error (map_window g s e buf) i = nth_error buf i.
Proof.
  intros H Hi. unfold map_window. destruct Hi as [Hi|Hi].
  - rewrite nth_error_app1 by (rewrite firstn_length; lia). rewrite <- nth_error_firstn_lt by lia. reflexivity.
  - rewrite nth_error_app2 by (rewrite firstn_length; lia). rewrite firstn_length.
    rewrite nth_error_app2 by (rewrite map_length, firstn_length, skipn_length; lia).
    rewrite map_length, firstn_length, skipn_length. rewrite nth_error_skipn'. f_equal. lia.
Qed.

Lemma map_window_in g s e buf i : (s <= e <= length buf)%nat -> (s <= i < e)%nat ->
  nth_error (map_window g s e buf) i = option_map g (nth_error buf i).
Proof.
  intros H Hi. unfold map_window.
  rewrite nth_error_app2 by (rewrite firstn_length; lia). rewrite firstn_length.
  rewrite nth_error_app1 by (rewrite map_length, firstn_length, skipn_length; lia).
  rewrite nth_error_map. rewrite <- nth_error_firstn_lt by lia. rewrite nth_error_skipn'. do 2 f_equal. lia.
Qed.

Lemma options_mut_map_spec g buf : bytes buf -> (20 <= length buf)%nat ->
  exists buf', ipv4_options_mut_map g buf = Ok buf' /\ length buf' = length buf /\
    (forall i, (i < 20 \/ Nat.min (ipv4_payload_offset buf) (length buf) <= i)%nat -> nth_error buf' i = nth_error buf i) /\
    (forall i, (20 <= i < Nat.min (ipv4_payload_offset buf) (length buf))%nat -> nth_error buf' i = option_map g (nth_error buf i)).
Proof.
  intros Hb Hm. unfold ipv4_options_mut_map. rewrite (options_mut_bounds_ok buf Hb Hm). cbn [bind].
  pose proof (ipv4_payload_offset_range buf) as R.
  assert (20 <= Nat.min (ipv4_payload_offset buf) (length buf) <= length buf)%nat as HB by lia.
  eexists; split; [reflexivity|]. split; [apply map_window_length; exact HB|]. split; intros i Hi.
  - apply map_window_out; [exact HB|exact Hi].
  - apply map_window_in; [exact HB|exact Hi].
Qed.
