(* Proofs/PayloadProofs.v - lemmas about the thirteen `set_payload` models of Packet/Payload.v (payload half of C12).

   Specification.  [splice off p buf] (Proofs/FieldsProofs.v) is buf with the octets off .. off+|p|-1 replaced by p.
   [payload_setter_ok min off setp]: for every byte buffer of at least the minimum size, the payload offset is
   inside the buffer's header-or-later part (min <= off buf), a payload that fits is spliced in at [off buf],
   and a payload that does not fit is the fault OutOfBounds (the Rust range index panics) - nothing else.
   The offsets are stated with the RFC bit-slice reader of Base/Bits.v, not with the model's getters:
     ipv4_payload_offset buf = max 20 (4 * IHL)          IHL         = rfc_get 4 4 buf    (RFC 791 3.1)
     tcp_payload_offset  buf = max 20 (4 * data offset)  data offset = rfc_get 96 4 buf   (RFC 9293 3.1)
   and the constants 40 (RFC 8200 3), 8 (RFC 768, RFC 792, RFC 4443), 4 (RFC 4884 7.1) elsewhere. *)
From Coq Require Import ZifyBool.
From TV Require Import Base.Result Base.Bytes Base.Bits Packet.Fields Packet.Payload.
From TV Require Import Packet.ByteOps Packet.IcmpExt Packet.Views.
From TV Require Import Proofs.FieldsProofs Proofs.IcmpExtProofs.

(* ---------------------------------------------------------------------------------------------- *)
(* (1) laws of [splice], for all offsets, payloads and buffers                                      *)

Lemma splice_head off p buf : (off + length p <= length buf)%nat ->
  firstn off (splice off p buf) = firstn off buf.
Proof. intros H. unfold splice. apply firstn_app_exact. rewrite firstn_length. lia. Qed.

Lemma splice_from off p buf : (off + length p <= length buf)%nat ->
  skipn off (splice off p buf) = p ++ skipn (off + length p) buf.
Proof.
  intros H. unfold splice. rewrite (skipn_app_exact _ _ off 0); [reflexivity|]. rewrite firstn_length. lia.
Qed.

Lemma splice_body off p buf : (off + length p <= length buf)%nat ->
  firstn (length p) (skipn off (splice off p buf)) = p.
Proof. intros H. rewrite splice_from by assumption. apply firstn_app_exact. reflexivity. Qed.

Lemma splice_tail off p buf : (off + length p <= length buf)%nat ->
  skipn (off + length p) (splice off p buf) = skipn (off + length p) buf.
Proof.
  intros H. rewrite <- skipn_skipn'. rewrite splice_from by assumption.
  apply (skipn_app_exact p _ (length p) 0). lia.
Qed.

(* octet by octet, without a default value *)
Lemma splice_nth_error_out off p buf i : (off + length p <= length buf)%nat ->
  (i < off \/ off + length p <= i)%nat -> nth_error (splice off p buf) i = nth_error buf i.
Proof.
  intros H Hi.
  assert (L : length (splice off p buf) = length buf) by (apply length_splice'; assumption).
  destruct (Nat.lt_ge_cases i (length buf)) as [Hlt|Hge].
  - rewrite (nth_error_nth' _ 0) by lia. rewrite (nth_error_nth' buf 0) by lia.
    f_equal. apply nth_splice_out; assumption.
  - rewrite (proj2 (nth_error_None _ _)) by lia. symmetry. apply nth_error_None. lia.
Qed.

Lemma splice_nth_error_in off p buf j : (off + length p <= length buf)%nat -> (j < length p)%nat ->
  nth_error (splice off p buf) (off + j) = nth_error p j.
Proof.
  intros H Hj.
  assert (L : length (splice off p buf) = length buf) by (apply length_splice'; assumption).
  rewrite (nth_error_nth' _ 0) by lia. rewrite (nth_error_nth' p 0) by lia.
  f_equal. apply nth_splice_in; assumption.
Qed.

(* writing back what is there changes nothing *)
Lemma splice_id off n buf : (off + n <= length buf)%nat -> splice off (firstn n (skipn off buf)) buf = buf.
Proof.
  intros H. unfold splice. rewrite firstn_length, skipn_length, Nat.min_l by lia.
  symmetry. apply split3.
Qed.

Lemma splice_idem off p buf : (off + length p <= length buf)%nat ->
  splice off p (splice off p buf) = splice off p buf.
Proof. intros H. apply splice_same; [reflexivity|assumption]. Qed.

(* the empty payload changes nothing *)
Lemma splice_nil off buf : splice off [] buf = buf.
Proof. unfold splice. cbn [app length]. rewrite Nat.add_0_r. apply firstn_skipn. Qed.

(* ---------------------------------------------------------------------------------------------- *)
(* (2) the same at the level of bits: the RFC slices of the header are untouched                   *)

Lemma bits_splice off p buf : (off + length p <= length buf)%nat ->
  bits_of_bytes (splice off p buf) =
  firstn (8 * off) (bits_of_bytes buf) ++ bits_of_bytes p ++ skipn (8 * (off + length p)) (bits_of_bytes buf).
Proof.
  intros H. unfold splice. rewrite !bits_app.
  rewrite (split3 off (length p) buf) at 3 4. rewrite !bits_app.
  set (A := bits_of_bytes (firstn off buf)).
  set (M := bits_of_bytes (firstn (length p) (skipn off buf))).
  set (C := bits_of_bytes (skipn (off + length p) buf)).
  assert (LA : length A = (8 * off)%nat) by (unfold A; rewrite length_bits, firstn_length; lia).
  assert (LM : length M = (8 * length p)%nat)
    by (unfold M; rewrite length_bits, firstn_length, skipn_length; lia).
  rewrite (firstn_app_exact A (M ++ C)) by lia.
  rewrite (app_assoc A M C).
  rewrite (skipn_app_exact (A ++ M) C _ 0) by (rewrite app_length; lia).
  reflexivity.
Qed.

Lemma splice_frame_bit off p buf i : (off + length p <= length buf)%nat ->
  (i < 8 * off \/ 8 * (off + length p) <= i)%nat ->
  nth i (bits_of_bytes (splice off p buf)) false = nth i (bits_of_bytes buf) false.
Proof.
  intros H Hi. rewrite bits_splice by assumption.
  set (B := bits_of_bytes buf).
  assert (LB : length B = (8 * length buf)%nat) by apply length_bits.
  assert (LF : length (firstn (8 * off) B) = (8 * off)%nat) by (rewrite firstn_length; lia).
  assert (LP : length (bits_of_bytes p) = (8 * length p)%nat) by apply length_bits.
  destruct Hi as [Hi|Hi].
  - rewrite app_nth1 by lia. rewrite <- (firstn_skipn (8 * off) B) at 2. rewrite app_nth1 by lia. reflexivity.
  - rewrite app_nth2 by lia. rewrite app_nth2 by lia. rewrite LF, LP.
    rewrite <- (firstn_skipn (8 * (off + length p)) B) at 2.
    rewrite app_nth2 by (rewrite firstn_length; lia). rewrite firstn_length. f_equal. lia.
Qed.

(* a slice of a buffer only depends on the octets up to its end *)
Lemma rfc_get_prefix o w a r1 r2 : (o + w <= 8 * length a)%nat -> rfc_get o w (a ++ r1) = rfc_get o w (a ++ r2).
Proof.
  intros H. unfold rfc_get. rewrite !bits_app.
  assert (LA : length (bits_of_bytes a) = (8 * length a)%nat) by apply length_bits.
  rewrite !skipn_app_le by lia. rewrite !firstn_app_le by (rewrite skipn_length; lia). reflexivity.
Qed.

Lemma rfc_get_firstn n o w x y : (n <= length x)%nat -> (n <= length y)%nat -> firstn n x = firstn n y ->
  (o + w <= 8 * n)%nat -> rfc_get o w x = rfc_get o w y.
Proof.
  intros Hx Hy E H. rewrite <- (firstn_skipn n x), <- (firstn_skipn n y). rewrite E.
  apply rfc_get_prefix. rewrite firstn_length. lia.
Qed.

Lemma splice_frame_slice off p buf o w : (off + length p <= length buf)%nat -> (o + w <= 8 * off)%nat ->
  rfc_get o w (splice off p buf) = rfc_get o w buf.
Proof.
  intros H Ho. apply (rfc_get_firstn off); try lia.
  - rewrite length_splice' by assumption. lia.
  - apply splice_head. assumption.
Qed.

(* the payload bits, in network byte order, are the payload *)
Lemma splice_payload_bits off p buf : bytes p -> (off + length p <= length buf)%nat ->
  rfc_get (8 * off) (8 * length p) (splice off p buf) = be_val p.
Proof.
  intros Hp H.
  assert (L : length (splice off p buf) = length buf) by (apply length_splice'; assumption).
  replace (8 * off)%nat with (8 * off + 0)%nat by lia.
  rewrite (rfc_get_local off (length p)) by lia.
  rewrite splice_body by assumption.
  unfold rfc_get. cbn [skipn]. rewrite <- (length_bits p), firstn_all. apply bval_bits. assumption.
Qed.

(* ---------------------------------------------------------------------------------------------- *)
(* (3) what it means for a set_payload to be exact                                                  *)

Definition payload_setter_ok (min : nat) (off : list Z -> nat)
    (setp : list Z -> list Z -> result (list Z)) : Prop :=
  forall buf p, bytes buf -> (min <= length buf)%nat ->
    (min <= off buf)%nat /\
    ((off buf + length p <= length buf)%nat -> setp buf p = Ok (splice (off buf) p buf)) /\
    ((length buf < off buf + length p)%nat -> setp buf p = Fault OutOfBounds).

(* a payload that fits: everything the property asks, in one statement *)
Lemma payload_setter_fits min off setp : payload_setter_ok min off setp ->
  forall buf p, bytes buf -> (min <= length buf)%nat -> (off buf + length p <= length buf)%nat ->
  exists buf', setp buf p = Ok buf' /\ length buf' = length buf /\ (bytes p -> bytes buf') /\
    firstn (off buf) buf' = firstn (off buf) buf /\
    firstn (length p) (skipn (off buf) buf') = p /\
    skipn (off buf + length p) buf' = skipn (off buf + length p) buf /\
    (forall i, (i < off buf \/ off buf + length p <= i)%nat -> nth_error buf' i = nth_error buf i) /\
    (forall j, (j < length p)%nat -> nth_error buf' (off buf + j) = nth_error p j) /\
    (forall o w, (o + w <= 8 * off buf)%nat -> rfc_get o w buf' = rfc_get o w buf) /\
    (forall i, (i < 8 * off buf \/ 8 * (off buf + length p) <= i)%nat ->
               nth i (bits_of_bytes buf') false = nth i (bits_of_bytes buf) false).
Proof.
  intros S buf p Hb Hm Hf. destruct (S buf p Hb Hm) as (_ & Hok & _).
  exists (splice (off buf) p buf). split; [apply Hok; assumption|].
  split; [apply length_splice'; assumption|].
  split; [intros Hp; apply bytes_splice; assumption|].
  split; [apply splice_head; assumption|].
  split; [apply splice_body; assumption|].
  split; [apply splice_tail; assumption|].
  split; [intros i Hi; apply splice_nth_error_out; assumption|].
  split; [intros j Hj; apply splice_nth_error_in; assumption|].
  split; [intros o w Ho; apply splice_frame_slice; assumption|].
  intros i Hi. apply splice_frame_bit; assumption.
Qed.

(* totality: Ok exactly when the payload fits, the fault OutOfBounds exactly when it does not, never an error
   value and never another fault *)
Lemma payload_setter_total min off setp : payload_setter_ok min off setp ->
  forall buf p, bytes buf -> (min <= length buf)%nat ->
    ((exists buf', setp buf p = Ok buf') <-> (off buf + length p <= length buf)%nat) /\
    (setp buf p = Fault OutOfBounds <-> (length buf < off buf + length p)%nat) /\
    (forall e, setp buf p <> Err e) /\
    (forall f, setp buf p = Fault f -> f = OutOfBounds).
Proof.
  intros S buf p Hb Hm. destruct (S buf p Hb Hm) as (_ & Hok & Hbad).
  destruct (Nat.le_gt_cases (off buf + length p) (length buf)) as [Hf|Hf].
  - rewrite (Hok Hf). repeat split; try (intros; discriminate); try lia.
    + intros _. eexists. reflexivity.
  - rewrite (Hbad Hf). repeat split; try (intros; discriminate); try lia.
    + intros [b' Hx]. discriminate.
    + intros f Hx. injection Hx as <-. reflexivity.
Qed.

(* frame: the getter of any header field that implements an RFC slice inside the fixed header reads the same *)
Lemma payload_setter_frame {A : Type} min foff w (valid : A -> Prop) enc dec get set off setp :
  field_ok min foff w valid enc dec get set -> payload_setter_ok min off setp ->
  forall buf p buf', bytes buf -> bytes p -> (min <= length buf)%nat -> setp buf p = Ok buf' ->
  get buf' = get buf.
Proof.
  intros [Hin F] S buf p buf' Hb Hp Hm Hs. destruct (S buf p Hb Hm) as (Hmo & Hok & Hbad).
  destruct (Nat.le_gt_cases (off buf + length p) (length buf)) as [Hf|Hf].
  2:{ rewrite (Hbad Hf) in Hs. discriminate. }
  rewrite (Hok Hf) in Hs. injection Hs as <-.
  destruct (F buf Hb Hm) as [[Hg _] _].
  destruct (F (splice (off buf) p buf)) as [[Hg' _] _].
  - apply bytes_splice; assumption.
  - rewrite length_splice' by assumption. assumption.
  - rewrite Hg, Hg'. rewrite splice_frame_slice by (try assumption; lia). reflexivity.
Qed.

(* independence: a header setter and the payload setter commute, as long as the header setter does not move
   the payload offset (IHL / data offset are the two fields that do) *)
Lemma rfc_set_head o w v a c : bytes c -> (o + w <= 8 * length a)%nat ->
  rfc_set o w v (a ++ c) = rfc_set o w v a ++ c.
Proof.
  intros Hc H. pose proof (rfc_set_app3 0 [] a c o w v eq_refl (Forall_nil _) Hc H) as E.
  cbn [app Nat.mul Nat.add] in E. exact E.
Qed.

Lemma splice_rfc_set_commute off p buf o w v : bytes buf -> bytes p -> (off + length p <= length buf)%nat ->
  (o + w <= 8 * off)%nat ->
  splice off p (rfc_set o w v buf) = rfc_set o w v (splice off p buf).
Proof.
  intros Hb Hp H Ho.
  assert (LF : length (firstn off buf) = off) by (rewrite firstn_length; lia).
  assert (E : rfc_set o w v buf = rfc_set o w v (firstn off buf) ++ skipn off buf).
  { rewrite <- (firstn_skipn off buf) at 1. apply rfc_set_head; [apply bytes_skipn; assumption|lia]. }
  assert (LS : length (rfc_set o w v (firstn off buf)) = off) by (rewrite rfc_set_length by lia; exact LF).
  unfold splice at 2. rewrite rfc_set_head.
  2:{ apply bytes_app. split; [assumption|apply bytes_skipn; assumption]. }
  2:{ lia. }
  unfold splice. rewrite E.
  rewrite (firstn_app_exact _ _ off) by (symmetry; exact LS).
  rewrite (skipn_app_exact _ _ (off + length p) (length p)) by lia.
  rewrite skipn_skipn'. reflexivity.
Qed.

Lemma payload_setter_commutes {A : Type} min foff w (valid : A -> Prop) enc dec get set off setp :
  field_ok min foff w valid enc dec get set -> payload_setter_ok min off setp ->
  forall buf p a b1 b2, bytes buf -> bytes p -> (min <= length buf)%nat -> valid a ->
  set a buf = Ok b1 -> off b1 = off buf -> setp buf p = Ok b2 ->
  exists r, setp b1 p = Ok r /\ set a b2 = Ok r.
Proof.
  intros [Hin F] S buf p a b1 b2 Hb Hp Hm Ha Hs1 Hoff Hs2.
  destruct (S buf p Hb Hm) as (Hmo & Hok & Hbad).
  destruct (Nat.le_gt_cases (off buf + length p) (length buf)) as [Hf|Hf].
  2:{ rewrite (Hbad Hf) in Hs2. discriminate. }
  rewrite (Hok Hf) in Hs2. injection Hs2 as <-.
  destruct (F buf Hb Hm) as [_ Hset]. rewrite (Hset a Ha) in Hs1. injection Hs1 as <-.
  assert (L1 : length (rfc_set foff w (enc a) buf) = length buf) by (apply rfc_set_length; lia).
  destruct (S (rfc_set foff w (enc a) buf) p (rfc_set_bytes _ _ _ _)) as (_ & Hok1 & _); [lia|].
  rewrite Hoff in Hok1. rewrite L1 in Hok1.
  destruct (F (splice (off buf) p buf)) as [_ Hset2].
  { apply bytes_splice; assumption. }
  { rewrite length_splice' by assumption. assumption. }
  exists (splice (off buf) p (rfc_set foff w (enc a) buf)). split; [apply Hok1; assumption|].
  rewrite (Hset2 a Ha). f_equal. symmetry. apply splice_rfc_set_commute; try assumption. lia.
Qed.

(* ---------------------------------------------------------------------------------------------- *)
(* (4) the thirteen setters are exact, at the RFC offsets                                           *)

Lemma copy_into_spec off p buf :
  ((off + length p <= length buf)%nat -> copy_into off p buf = Ok (splice off p buf)) /\
  ((length buf < off + length p)%nat -> copy_into off p buf = Fault OutOfBounds).
Proof.
  unfold copy_into. split; intros H.
  - apply set_bytes_ok. assumption.
  - unfold set_bytes. rewrite (proj2 (Nat.leb_gt _ _)) by lia. reflexivity.
Qed.

(* the types whose header has a fixed size *)
Lemma fixed_set_payload_ok n : payload_setter_ok n (fun _ => n) (fun buf p => copy_into n p buf).
Proof. intros buf p Hb Hm. split; [lia|]. apply copy_into_spec. Qed.

(* RFC 791: the payload starts IHL 32-bit words into the datagram; the code (saturating_sub) treats an IHL
   below 5 as 5 *)
Definition ipv4_payload_offset (buf : list Z) : nat := Nat.max 20 (4 * Z.to_nat (rfc_get 4 4 buf)).
(* RFC 9293: the data starts `data offset` 32-bit words into the segment; the code treats a data offset
   below 5 as 5 *)
Definition tcp_payload_offset (buf : list Z) : nat := Nat.max 20 (4 * Z.to_nat (rfc_get 96 4 buf)).

Lemma ipv4_ihl buf : bytes buf -> (20 <= length buf)%nat ->
  ipv4_get_header_length buf = Ok (rfc_get 4 4 buf) /\ 0 <= rfc_get 4 4 buf < 16.
Proof.
  intros Hb Hm. destruct ipv4_header_length_ok as [_ F]. destruct (F buf Hb Hm) as [[Hg _] _].
  split; [exact Hg|]. pose proof (rfc_get_range 4 4 buf) as R. change (2 ^ Z.of_nat 4) with 16 in R. exact R.
Qed.

Lemma sp_ipv4_options_length_ok buf : bytes buf -> (20 <= length buf)%nat ->
  sp_ipv4_options_length buf = Ok (ipv4_payload_offset buf - 20)%nat.
Proof.
  intros Hb Hm. destruct (ipv4_ihl buf Hb Hm) as [Hg R].
  unfold sp_ipv4_options_length, ipv4_payload_offset, ipv4_minimum_packet_size. rewrite Hg. cbn [bind].
  f_equal. lia.
Qed.

Lemma ipv4_payload_offset_range buf : (20 <= ipv4_payload_offset buf <= 60)%nat.
Proof.
  unfold ipv4_payload_offset. pose proof (rfc_get_range 4 4 buf) as R. change (2 ^ Z.of_nat 4) with 16 in R. lia.
Qed.

Lemma ipv4_set_payload_ok : payload_setter_ok 20 ipv4_payload_offset ipv4_set_payload.
Proof.
  intros buf p Hb Hm. pose proof (ipv4_payload_offset_range buf) as R. split; [lia|].
  unfold ipv4_set_payload. rewrite sp_ipv4_options_length_ok by assumption. cbn [bind].
  unfold ipv4_minimum_packet_size.
  replace (20 + (ipv4_payload_offset buf - 20))%nat with (ipv4_payload_offset buf) by lia.
  apply copy_into_spec.
Qed.

Lemma tcp_doff buf : bytes buf -> (20 <= length buf)%nat ->
  tcp_get_data_offset buf = Ok (rfc_get 96 4 buf) /\ 0 <= rfc_get 96 4 buf < 16.
Proof.
  intros Hb Hm.
  assert (F0 : uint_field_ok 256 20 96 4 tcp_get_data_offset tcp_set_data_offset)
    by (apply hi_nibble_ok; [reflexivity|lia]).
  destruct F0 as [_ F]. destruct (F buf Hb Hm) as [[Hg _] _].
  split; [exact Hg|]. pose proof (rfc_get_range 96 4 buf) as R. change (2 ^ Z.of_nat 4) with 16 in R. exact R.
Qed.

Lemma tcp_payload_offset_range buf : (20 <= tcp_payload_offset buf <= 60)%nat.
Proof.
  unfold tcp_payload_offset. pose proof (rfc_get_range 96 4 buf) as R. change (2 ^ Z.of_nat 4) with 16 in R. lia.
Qed.

(* the guarded subtraction `data_offset as usize * 4 - 20` never underflows *)
Lemma sp_tcp_options_length_ok buf : bytes buf -> (20 <= length buf)%nat ->
  sp_tcp_options_length buf = Ok (tcp_payload_offset buf - 20)%nat.
Proof.
  intros Hb Hm. destruct (tcp_doff buf Hb Hm) as [Hg R].
  unfold sp_tcp_options_length, tcp_payload_offset. rewrite Hg. cbn [bind].
  destruct (5 <? rfc_get 96 4 buf) eqn:E.
  - unfold sub_w. rewrite (proj2 (Z.leb_le _ _)) by lia. cbn [bind]. f_equal. lia.
  - f_equal. lia.
Qed.

Lemma tcp_set_payload_ok : payload_setter_ok 20 tcp_payload_offset tcp_set_payload.
Proof.
  intros buf p Hb Hm. pose proof (tcp_payload_offset_range buf) as R. split; [lia|].
  unfold tcp_set_payload. rewrite sp_tcp_options_length_ok by assumption. cbn [bind].
  unfold tcp_minimum_packet_size.
  replace (20 + (tcp_payload_offset buf - 20))%nat with (tcp_payload_offset buf) by lia.
  apply copy_into_spec.
Qed.

Lemma ip_set_payload_exact :
  payload_setter_ok 20 ipv4_payload_offset ipv4_set_payload /\
  payload_setter_ok 40 (fun _ => 40%nat) ipv6_set_payload.
Proof. split; [exact ipv4_set_payload_ok|exact (fixed_set_payload_ok 40)]. Qed.

Lemma transport_set_payload_exact :
  payload_setter_ok 8 (fun _ => 8%nat) udp_set_payload /\
  payload_setter_ok 20 tcp_payload_offset tcp_set_payload.
Proof. split; [exact (fixed_set_payload_ok 8)|exact tcp_set_payload_ok]. Qed.

Lemma icmp_set_payload_exact :
  payload_setter_ok 8 (fun _ => 8%nat) icmp4_echo_request_set_payload /\
  payload_setter_ok 8 (fun _ => 8%nat) icmp4_echo_reply_set_payload /\
  payload_setter_ok 8 (fun _ => 8%nat) icmp4_time_exceeded_set_payload /\
  payload_setter_ok 8 (fun _ => 8%nat) icmp4_dest_unreachable_set_payload /\
  payload_setter_ok 8 (fun _ => 8%nat) icmp6_echo_request_set_payload /\
  payload_setter_ok 8 (fun _ => 8%nat) icmp6_echo_reply_set_payload /\
  payload_setter_ok 8 (fun _ => 8%nat) icmp6_time_exceeded_set_payload /\
  payload_setter_ok 8 (fun _ => 8%nat) icmp6_dest_unreachable_set_payload /\
  payload_setter_ok 4 (fun _ => 4%nat) ext_object_set_payload.
Proof. c12_conj; first [exact (fixed_set_payload_ok 8)|exact (fixed_set_payload_ok 4)]. Qed.

(* ---------------------------------------------------------------------------------------------- *)
(* (5) the offset is the RFC position, said with the code's own getters                             *)

Lemma ipv4_payload_offset_rfc buf : bytes buf -> (20 <= length buf)%nat ->
  exists ihl, ipv4_get_header_length buf = Ok ihl /\ 0 <= ihl < 16 /\
    (5 <= ihl -> ipv4_payload_offset buf = Z.to_nat (ihl * 4)) /\
    (ihl < 5 -> ipv4_payload_offset buf = 20%nat) /\
    Z.of_nat (ipv4_payload_offset buf) = Z.max 20 (ihl * 4).
Proof.
  intros Hb Hm. destruct (ipv4_ihl buf Hb Hm) as [Hg R]. exists (rfc_get 4 4 buf).
  split; [exact Hg|]. split; [exact R|]. unfold ipv4_payload_offset. repeat split; lia.
Qed.

Lemma tcp_payload_offset_rfc buf : bytes buf -> (20 <= length buf)%nat ->
  exists d, tcp_get_data_offset buf = Ok d /\ 0 <= d < 16 /\
    (5 <= d -> tcp_payload_offset buf = Z.to_nat (d * 4)) /\
    (d < 5 -> tcp_payload_offset buf = 20%nat) /\
    Z.of_nat (tcp_payload_offset buf) = Z.max 20 (d * 4).
Proof.
  intros Hb Hm. destruct (tcp_doff buf Hb Hm) as [Hg R]. exists (rfc_get 96 4 buf).
  split; [exact Hg|]. split; [exact R|]. unfold tcp_payload_offset. repeat split; lia.
Qed.

(* writing a payload does not move the payload: the offset of the result is the offset of the input *)
Lemma payload_offset_stable buf p :
  ((ipv4_payload_offset buf + length p <= length buf)%nat ->
   ipv4_payload_offset (splice (ipv4_payload_offset buf) p buf) = ipv4_payload_offset buf) /\
  ((tcp_payload_offset buf + length p <= length buf)%nat ->
   tcp_payload_offset (splice (tcp_payload_offset buf) p buf) = tcp_payload_offset buf).
Proof.
  pose proof (ipv4_payload_offset_range buf). pose proof (tcp_payload_offset_range buf).
  split; intros Hf.
  - unfold ipv4_payload_offset at 1. rewrite splice_frame_slice by (try assumption; lia). reflexivity.
  - unfold tcp_payload_offset at 1. rewrite splice_frame_slice by (try assumption; lia). reflexivity.
Qed.

(* ---------------------------------------------------------------------------------------------- *)
(* (6) frame: every header-field getter of Packet/Fields.v reads the same after set_payload         *)

(* two buffers of the same length with the same first n octets *)
Definition agree (n : nat) (a b : list Z) : Prop := length a = length b /\ firstn n a = firstn n b.

Lemma nth_error_firstn_lt {A} n (l : list A) i : (i < n)%nat -> nth_error l i = nth_error (firstn n l) i.
Proof.
  intros Hi. rewrite <- (firstn_skipn n l) at 1.
  destruct (Nat.lt_ge_cases i (length (firstn n l))) as [H|H].
  - apply nth_error_app1. assumption.
  - rewrite (proj2 (nth_error_None (firstn n l) i)) by lia. apply nth_error_None.
    rewrite firstn_length in H. rewrite app_length, firstn_length, skipn_length. lia.
Qed.

Lemma index_agree n a b : agree n a b -> forall i, (i < n)%nat -> index i a = index i b.
Proof.
  intros [L E] i Hi. unfold index. rewrite (nth_error_firstn_lt n a), (nth_error_firstn_lt n b) by assumption.
  rewrite E. reflexivity.
Qed.

Lemma rd_agree n a b : agree n a b -> forall i, (i < n)%nat -> rd i a = rd i b.
Proof. intros H i Hi. unfold rd. apply (index_agree n); assumption. Qed.

Lemma nth_agree n a b : agree n a b -> forall i, (i < n)%nat -> nth i a 0 = nth i b 0.
Proof.
  intros [L E] i Hi.
  pose proof (nth_firstn_skipn 0 n 0 a i Hi) as Xa. pose proof (nth_firstn_skipn 0 n 0 b i Hi) as Xb.
  cbn [skipn Nat.add] in Xa, Xb. rewrite <- Xa, <- Xb, E. reflexivity.
Qed.

Lemma slice_agree n a b : agree n a b -> forall i j, (j <= n)%nat -> slice i j a = slice i j b.
Proof.
  intros H i j Hj. pose proof H as [L E]. unfold slice. rewrite L.
  destruct ((i <=? j)%nat && (j <=? length b)%nat) eqn:C; [|reflexivity]. f_equal.
  apply (firstn_skipn_ext 0); [assumption|]. intros k Hk. apply (nth_agree n); [assumption|].
  apply andb_prop in C. destruct C as [C1 C2]. apply Nat.leb_le in C1. lia.
Qed.

Lemma get_bytes_agree n a b : agree n a b -> forall i k, (i + k <= n)%nat -> get_bytes i k a = get_bytes i k b.
Proof. intros H i k Hk. unfold get_bytes. apply (slice_agree n); assumption. Qed.

Lemma buf_get_bytes_agree n a b : agree n a b -> forall k off, (off + k <= n)%nat ->
  buf_get_bytes k off a = buf_get_bytes k off b.
Proof.
  intros H k. induction k as [|k IH]; intros off Hk; [reflexivity|].
  cbn [buf_get_bytes]. unfold pv_buf_read. rewrite (index_agree n a b H) by lia. rewrite IH by lia. reflexivity.
Qed.

Lemma agree_le n m a b : (m <= n)%nat -> agree n a b -> agree m a b.
Proof.
  intros Hm [L E]. split; [assumption|].
  rewrite <- (Nat.min_l m n Hm). rewrite <- !firstn_firstn. rewrite E. reflexivity.
Qed.

Lemma splice_agree off p buf : (off + length p <= length buf)%nat -> agree off (splice off p buf) buf.
Proof. intros H. split; [apply length_splice'; assumption|apply splice_head; assumption]. Qed.

(* what a successful set_payload returns *)
Lemma payload_setter_inv min off setp : payload_setter_ok min off setp ->
  forall buf p buf', bytes buf -> (min <= length buf)%nat -> setp buf p = Ok buf' ->
  (min <= off buf)%nat /\ (off buf + length p <= length buf)%nat /\ buf' = splice (off buf) p buf.
Proof.
  intros S buf p buf' Hb Hm Hs. destruct (S buf p Hb Hm) as (Hmo & Hok & Hbad).
  destruct (Nat.le_gt_cases (off buf + length p) (length buf)) as [Hf|Hf].
  - rewrite (Hok Hf) in Hs. injection Hs as <-. auto.
  - rewrite (Hbad Hf) in Hs. discriminate.
Qed.

Lemma copy_into_inv off p buf buf' : copy_into off p buf = Ok buf' ->
  (off + length p <= length buf)%nat /\ buf' = splice off p buf.
Proof.
  intros Hs. destruct (copy_into_spec off p buf) as [Hok Hbad].
  destruct (Nat.le_gt_cases (off + length p) (length buf)) as [Hf|Hf].
  - rewrite (Hok Hf) in Hs. injection Hs as <-. auto.
  - rewrite (Hbad Hf) in Hs. discriminate.
Qed.

Lemma copy_into_agree off p buf buf' : copy_into off p buf = Ok buf' -> agree off buf' buf.
Proof. intros Hs. destruct (copy_into_inv _ _ _ _ Hs) as [Hf ->]. apply splice_agree. assumption. Qed.

Lemma payload_setter_agree min off setp : payload_setter_ok min off setp ->
  forall buf p buf', bytes buf -> (min <= length buf)%nat -> setp buf p = Ok buf' ->
  agree (off buf) buf' buf /\ agree min buf' buf.
Proof.
  intros S buf p buf' Hb Hm Hs. destruct (payload_setter_inv _ _ _ S _ _ _ Hb Hm Hs) as (Hmo & Hf & ->).
  pose proof (splice_agree (off buf) p buf Hf) as A. split; [exact A|]. apply (agree_le (off buf)); assumption.
Qed.

(* unfold the getters down to rd / get_bytes at literal indexes and rewrite with the agreement *)
Ltac frame_getters H :=
  let Hr := fresh "Hr" in let Hg := fresh "Hg" in
  pose proof (rd_agree _ _ _ H) as Hr; pose proof (get_bytes_agree _ _ _ H) as Hg;
  c12_conj;
  cbv delta [ipv4_get_version ipv4_get_header_length ipv4_get_dscp ipv4_get_ecn ipv4_get_tos ipv4_get_total_length
             ipv4_get_identification ipv4_get_flags_and_fragment_offset ipv4_get_ttl ipv4_get_protocol
             ipv4_get_checksum ipv4_get_source ipv4_get_destination
             ipv6_get_version ipv6_get_traffic_class ipv6_get_flow_label ipv6_get_payload_length
             ipv6_get_next_header ipv6_get_hop_limit ipv6_get_source_address ipv6_get_destination_address
             udp_get_source udp_get_destination udp_get_length udp_get_checksum
             tcp_get_source tcp_get_destination tcp_get_sequence tcp_get_acknowledgement tcp_get_data_offset
             tcp_get_reserved tcp_get_flags tcp_get_window_size tcp_get_checksum tcp_get_urgent_pointer
             icmp4_get_type_at0 icmp6_get_type_at0
             icmp4_echo_request_get_icmp_type icmp4_echo_request_get_icmp_code icmp4_echo_request_get_checksum
             icmp4_echo_request_get_identifier icmp4_echo_request_get_sequence
             icmp4_echo_reply_get_icmp_type icmp4_echo_reply_get_icmp_code icmp4_echo_reply_get_checksum
             icmp4_echo_reply_get_identifier icmp4_echo_reply_get_sequence
             icmp4_time_exceeded_get_icmp_type icmp4_time_exceeded_get_icmp_code icmp4_time_exceeded_get_checksum
             icmp4_time_exceeded_get_length
             icmp4_dest_unreachable_get_icmp_type icmp4_dest_unreachable_get_icmp_code
             icmp4_dest_unreachable_get_checksum icmp4_dest_unreachable_get_length
             icmp4_dest_unreachable_get_next_hop_mtu
             icmp6_echo_request_get_icmp_type icmp6_echo_request_get_icmp_code icmp6_echo_request_get_checksum
             icmp6_echo_request_get_identifier icmp6_echo_request_get_sequence
             icmp6_echo_reply_get_icmp_type icmp6_echo_reply_get_icmp_code icmp6_echo_reply_get_checksum
             icmp6_echo_reply_get_identifier icmp6_echo_reply_get_sequence
             icmp6_time_exceeded_get_icmp_type icmp6_time_exceeded_get_icmp_code icmp6_time_exceeded_get_checksum
             icmp6_time_exceeded_get_length
             icmp6_dest_unreachable_get_icmp_type icmp6_dest_unreachable_get_icmp_code
             icmp6_dest_unreachable_get_checksum icmp6_dest_unreachable_get_length
             icmp6_dest_unreachable_get_next_hop_mtu
             ext_object_get_length ext_object_get_class_num ext_object_get_class_subtype
             get_u8_at get_u16_at get_u32_at get_addr_at get_hi_nibble] beta;
  rewrite ?Hr, ?Hg by lia; reflexivity.

Definition ipv4_header_same (a b : list Z) : Prop :=
  ipv4_get_version a = ipv4_get_version b /\ ipv4_get_header_length a = ipv4_get_header_length b /\
  ipv4_get_dscp a = ipv4_get_dscp b /\ ipv4_get_ecn a = ipv4_get_ecn b /\ ipv4_get_tos a = ipv4_get_tos b /\
  ipv4_get_total_length a = ipv4_get_total_length b /\ ipv4_get_identification a = ipv4_get_identification b /\
  ipv4_get_flags_and_fragment_offset a = ipv4_get_flags_and_fragment_offset b /\
  ipv4_get_ttl a = ipv4_get_ttl b /\ ipv4_get_protocol a = ipv4_get_protocol b /\
  ipv4_get_checksum a = ipv4_get_checksum b /\ ipv4_get_source a = ipv4_get_source b /\
  ipv4_get_destination a = ipv4_get_destination b.

Definition ipv6_header_same (a b : list Z) : Prop :=
  ipv6_get_version a = ipv6_get_version b /\ ipv6_get_traffic_class a = ipv6_get_traffic_class b /\
  ipv6_get_flow_label a = ipv6_get_flow_label b /\ ipv6_get_payload_length a = ipv6_get_payload_length b /\
  ipv6_get_next_header a = ipv6_get_next_header b /\ ipv6_get_hop_limit a = ipv6_get_hop_limit b /\
  ipv6_get_source_address a = ipv6_get_source_address b /\
  ipv6_get_destination_address a = ipv6_get_destination_address b.

Definition udp_header_same (a b : list Z) : Prop :=
  udp_get_source a = udp_get_source b /\ udp_get_destination a = udp_get_destination b /\
  udp_get_length a = udp_get_length b /\ udp_get_checksum a = udp_get_checksum b.

Definition tcp_header_same (a b : list Z) : Prop :=
  tcp_get_source a = tcp_get_source b /\ tcp_get_destination a = tcp_get_destination b /\
  tcp_get_sequence a = tcp_get_sequence b /\ tcp_get_acknowledgement a = tcp_get_acknowledgement b /\
  tcp_get_data_offset a = tcp_get_data_offset b /\ tcp_get_reserved a = tcp_get_reserved b /\
  tcp_get_flags a = tcp_get_flags b /\ tcp_get_window_size a = tcp_get_window_size b /\
  tcp_get_checksum a = tcp_get_checksum b /\ tcp_get_urgent_pointer a = tcp_get_urgent_pointer b.

Lemma ipv4_header_same_agree a b : agree 20 a b -> ipv4_header_same a b.
Proof. intros H. unfold ipv4_header_same. frame_getters H. Qed.
Lemma ipv6_header_same_agree a b : agree 40 a b -> ipv6_header_same a b.
Proof. intros H. unfold ipv6_header_same. frame_getters H. Qed.
Lemma udp_header_same_agree a b : agree 8 a b -> udp_header_same a b.
Proof. intros H. unfold udp_header_same. frame_getters H. Qed.
Lemma tcp_header_same_agree a b : agree 20 a b -> tcp_header_same a b.
Proof. intros H. unfold tcp_header_same. frame_getters H. Qed.

(* the options (Packet/Views.v: get_options_raw) are part of the header: unchanged too *)
Lemma pv_ipv4_options_length_eq buf : pv_ipv4_options_length buf = sp_ipv4_options_length buf.
Proof. reflexivity. Qed.
Lemma tcp_options_length_eq buf : tcp_options_length buf = sp_tcp_options_length buf.
Proof. reflexivity. Qed.

Lemma ipv4_set_payload_frame buf p buf' : bytes buf -> (20 <= length buf)%nat -> ipv4_set_payload buf p = Ok buf' ->
  length buf' = length buf /\ firstn (ipv4_payload_offset buf) buf' = firstn (ipv4_payload_offset buf) buf /\
  ipv4_header_same buf' buf /\ ipv4_get_options_raw buf' = ipv4_get_options_raw buf /\
  ipv4_payload_offset buf' = ipv4_payload_offset buf.
Proof.
  intros Hb Hm Hs. destruct (payload_setter_agree _ _ _ ipv4_set_payload_ok _ _ _ Hb Hm Hs) as [A A20].
  destruct (payload_setter_inv _ _ _ ipv4_set_payload_ok _ _ _ Hb Hm Hs) as (Hmo & Hf & ->).
  split; [apply A|]. split; [apply A|]. split; [apply ipv4_header_same_agree; assumption|].
  split.
  - unfold ipv4_get_options_raw. change pv_ipv4_options_length with sp_ipv4_options_length.
    assert (E : sp_ipv4_options_length (splice (ipv4_payload_offset buf) p buf) = sp_ipv4_options_length buf).
    { unfold sp_ipv4_options_length, ipv4_get_header_length. rewrite (rd_agree _ _ _ A20) by lia. reflexivity. }
    rewrite E, sp_ipv4_options_length_ok by assumption. cbn [bind]. destruct A as [L _]. rewrite L.
    apply (slice_agree (ipv4_payload_offset buf)); [split; [exact L|apply splice_head; assumption]|]. lia.
  - apply payload_offset_stable. assumption.
Qed.

Lemma tcp_set_payload_frame buf p buf' : bytes buf -> (20 <= length buf)%nat -> tcp_set_payload buf p = Ok buf' ->
  length buf' = length buf /\ firstn (tcp_payload_offset buf) buf' = firstn (tcp_payload_offset buf) buf /\
  tcp_header_same buf' buf /\ tcp_get_options_raw buf' = tcp_get_options_raw buf /\
  tcp_payload_offset buf' = tcp_payload_offset buf.
Proof.
  intros Hb Hm Hs. destruct (payload_setter_agree _ _ _ tcp_set_payload_ok _ _ _ Hb Hm Hs) as [A A20].
  destruct (payload_setter_inv _ _ _ tcp_set_payload_ok _ _ _ Hb Hm Hs) as (Hmo & Hf & ->).
  split; [apply A|]. split; [apply A|]. split; [apply tcp_header_same_agree; assumption|].
  split.
  - unfold tcp_get_options_raw. change tcp_options_length with sp_tcp_options_length.
    assert (E : sp_tcp_options_length (splice (tcp_payload_offset buf) p buf) = sp_tcp_options_length buf).
    { unfold sp_tcp_options_length, tcp_get_data_offset, get_hi_nibble. rewrite (rd_agree _ _ _ A20) by lia. reflexivity. }
    rewrite E, sp_tcp_options_length_ok by assumption. cbn [bind]. destruct A as [L _]. rewrite L.
    apply (slice_agree (tcp_payload_offset buf)); [split; [exact L|apply splice_head; assumption]|]. lia.
  - apply payload_offset_stable. assumption.
Qed.

Lemma ipv6_set_payload_frame buf p buf' : ipv6_set_payload buf p = Ok buf' ->
  length buf' = length buf /\ firstn 40 buf' = firstn 40 buf /\ ipv6_header_same buf' buf.
Proof.
  intros Hs. pose proof (copy_into_agree 40%nat _ _ _ Hs) as A.
  split; [apply A|]. split; [apply A|]. apply ipv6_header_same_agree. exact A.
Qed.

Lemma udp_set_payload_frame buf p buf' : udp_set_payload buf p = Ok buf' ->
  length buf' = length buf /\ firstn 8 buf' = firstn 8 buf /\ udp_header_same buf' buf.
Proof.
  intros Hs. pose proof (copy_into_agree 8%nat _ _ _ Hs) as A.
  split; [apply A|]. split; [apply A|]. apply udp_header_same_agree. exact A.
Qed.

Lemma icmp4_set_payload_frame buf p buf' :
  (icmp4_echo_request_set_payload buf p = Ok buf' ->
   length buf' = length buf /\ firstn 8 buf' = firstn 8 buf /\
   icmp4_echo_request_get_icmp_type buf' = icmp4_echo_request_get_icmp_type buf /\
   icmp4_echo_request_get_icmp_code buf' = icmp4_echo_request_get_icmp_code buf /\
   icmp4_echo_request_get_checksum buf' = icmp4_echo_request_get_checksum buf /\
   icmp4_echo_request_get_identifier buf' = icmp4_echo_request_get_identifier buf /\
   icmp4_echo_request_get_sequence buf' = icmp4_echo_request_get_sequence buf) /\
  (icmp4_echo_reply_set_payload buf p = Ok buf' ->
   length buf' = length buf /\ firstn 8 buf' = firstn 8 buf /\
   icmp4_echo_reply_get_icmp_type buf' = icmp4_echo_reply_get_icmp_type buf /\
   icmp4_echo_reply_get_icmp_code buf' = icmp4_echo_reply_get_icmp_code buf /\
   icmp4_echo_reply_get_checksum buf' = icmp4_echo_reply_get_checksum buf /\
   icmp4_echo_reply_get_identifier buf' = icmp4_echo_reply_get_identifier buf /\
   icmp4_echo_reply_get_sequence buf' = icmp4_echo_reply_get_sequence buf) /\
  (icmp4_time_exceeded_set_payload buf p = Ok buf' ->
   length buf' = length buf /\ firstn 8 buf' = firstn 8 buf /\
   icmp4_time_exceeded_get_icmp_type buf' = icmp4_time_exceeded_get_icmp_type buf /\
   icmp4_time_exceeded_get_icmp_code buf' = icmp4_time_exceeded_get_icmp_code buf /\
   icmp4_time_exceeded_get_checksum buf' = icmp4_time_exceeded_get_checksum buf /\
   icmp4_time_exceeded_get_length buf' = icmp4_time_exceeded_get_length buf) /\
  (icmp4_dest_unreachable_set_payload buf p = Ok buf' ->
   length buf' = length buf /\ firstn 8 buf' = firstn 8 buf /\
   icmp4_dest_unreachable_get_icmp_type buf' = icmp4_dest_unreachable_get_icmp_type buf /\
   icmp4_dest_unreachable_get_icmp_code buf' = icmp4_dest_unreachable_get_icmp_code buf /\
   icmp4_dest_unreachable_get_checksum buf' = icmp4_dest_unreachable_get_checksum buf /\
   icmp4_dest_unreachable_get_length buf' = icmp4_dest_unreachable_get_length buf /\
   icmp4_dest_unreachable_get_next_hop_mtu buf' = icmp4_dest_unreachable_get_next_hop_mtu buf).
Proof.
  c12_conj; intros Hs; pose proof (copy_into_agree 8%nat _ _ _ Hs) as A;
    (split; [apply A|]); (split; [apply A|]); frame_getters A.
Qed.

Lemma icmp6_set_payload_frame buf p buf' :
  (icmp6_echo_request_set_payload buf p = Ok buf' ->
   length buf' = length buf /\ firstn 8 buf' = firstn 8 buf /\
   icmp6_echo_request_get_icmp_type buf' = icmp6_echo_request_get_icmp_type buf /\
   icmp6_echo_request_get_icmp_code buf' = icmp6_echo_request_get_icmp_code buf /\
   icmp6_echo_request_get_checksum buf' = icmp6_echo_request_get_checksum buf /\
   icmp6_echo_request_get_identifier buf' = icmp6_echo_request_get_identifier buf /\
   icmp6_echo_request_get_sequence buf' = icmp6_echo_request_get_sequence buf) /\
  (icmp6_echo_reply_set_payload buf p = Ok buf' ->
   length buf' = length buf /\ firstn 8 buf' = firstn 8 buf /\
   icmp6_echo_reply_get_icmp_type buf' = icmp6_echo_reply_get_icmp_type buf /\
   icmp6_echo_reply_get_icmp_code buf' = icmp6_echo_reply_get_icmp_code buf /\
   icmp6_echo_reply_get_checksum buf' = icmp6_echo_reply_get_checksum buf /\
   icmp6_echo_reply_get_identifier buf' = icmp6_echo_reply_get_identifier buf /\
   icmp6_echo_reply_get_sequence buf' = icmp6_echo_reply_get_sequence buf) /\
  (icmp6_time_exceeded_set_payload buf p = Ok buf' ->
   length buf' = length buf /\ firstn 8 buf' = firstn 8 buf /\
   icmp6_time_exceeded_get_icmp_type buf' = icmp6_time_exceeded_get_icmp_type buf /\
   icmp6_time_exceeded_get_icmp_code buf' = icmp6_time_exceeded_get_icmp_code buf /\
   icmp6_time_exceeded_get_checksum buf' = icmp6_time_exceeded_get_checksum buf /\
   icmp6_time_exceeded_get_length buf' = icmp6_time_exceeded_get_length buf) /\
  (icmp6_dest_unreachable_set_payload buf p = Ok buf' ->
   length buf' = length buf /\ firstn 8 buf' = firstn 8 buf /\
   icmp6_dest_unreachable_get_icmp_type buf' = icmp6_dest_unreachable_get_icmp_type buf /\
   icmp6_dest_unreachable_get_icmp_code buf' = icmp6_dest_unreachable_get_icmp_code buf /\
   icmp6_dest_unreachable_get_checksum buf' = icmp6_dest_unreachable_get_checksum buf /\
   icmp6_dest_unreachable_get_length buf' = icmp6_dest_unreachable_get_length buf /\
   icmp6_dest_unreachable_get_next_hop_mtu buf' = icmp6_dest_unreachable_get_next_hop_mtu buf).
Proof.
  c12_conj; intros Hs; pose proof (copy_into_agree 8%nat _ _ _ Hs) as A;
    (split; [apply A|]); (split; [apply A|]); frame_getters A.
Qed.

Lemma ext_object_set_payload_frame buf p buf' : ext_object_set_payload buf p = Ok buf' ->
  length buf' = length buf /\ firstn 4 buf' = firstn 4 buf /\
  ext_object_get_length buf' = ext_object_get_length buf /\
  ext_object_get_class_num buf' = ext_object_get_class_num buf /\
  ext_object_get_class_subtype buf' = ext_object_get_class_subtype buf.
Proof.
  intros Hs. pose proof (copy_into_agree 4%nat _ _ _ Hs) as A.
  split; [apply A|]. split; [apply A|]. frame_getters A.
Qed.

(* ---------------------------------------------------------------------------------------------- *)
(* (7) read side: what `payload()` (Packet/Views.v, Packet/IcmpExt.v) returns after set_payload      *)

Lemma firstn_min_length {A} k (l : list A) : firstn (Nat.min k (length l)) l = firstn k l.
Proof.
  destruct (Nat.le_gt_cases k (length l)) as [H|H].
  - rewrite Nat.min_l by assumption. reflexivity.
  - rewrite Nat.min_r by lia. rewrite firstn_all, firstn_all2 by lia. reflexivity.
Qed.

(* Ipv4Packet::payload and TcpPacket::payload return the octets from the RFC offset to the END of the buffer
   (neither looks at total_length) *)
Lemma ipv4_payload_spec buf : bytes buf -> (20 <= length buf)%nat ->
  ipv4_payload buf = Ok (skipn (ipv4_payload_offset buf) buf).
Proof.
  intros Hb Hm. pose proof (ipv4_payload_offset_range buf) as R.
  unfold ipv4_payload. change pv_ipv4_options_length with sp_ipv4_options_length.
  rewrite sp_ipv4_options_length_ok by assumption. cbn [bind].
  replace (20 + (ipv4_payload_offset buf - 20))%nat with (ipv4_payload_offset buf) by lia.
  destruct (Nat.leb_spec (length buf) (ipv4_payload_offset buf)) as [H|H].
  - rewrite skipn_all2 by assumption. reflexivity.
  - apply slice_from_ok. lia.
Qed.

Lemma tcp_payload_spec buf : bytes buf -> (20 <= length buf)%nat ->
  tcp_payload buf = Ok (skipn (tcp_payload_offset buf) buf).
Proof.
  intros Hb Hm. pose proof (tcp_payload_offset_range buf) as R.
  unfold tcp_payload. change tcp_options_length with sp_tcp_options_length.
  rewrite sp_tcp_options_length_ok by assumption. cbn [bind].
  replace (20 + (tcp_payload_offset buf - 20))%nat with (tcp_payload_offset buf) by lia.
  destruct (Nat.leb_spec (length buf) (tcp_payload_offset buf)) as [H|H].
  - rewrite skipn_all2 by assumption. reflexivity.
  - apply slice_from_ok. lia.
Qed.

Lemma ipv4_read_back buf p buf' : bytes buf -> bytes p -> (20 <= length buf)%nat ->
  ipv4_set_payload buf p = Ok buf' ->
  ipv4_payload buf' = Ok (p ++ skipn (ipv4_payload_offset buf + length p) buf).
Proof.
  intros Hb Hp Hm Hs.
  destruct (payload_setter_inv _ _ _ ipv4_set_payload_ok _ _ _ Hb Hm Hs) as (Hmo & Hf & ->).
  rewrite ipv4_payload_spec.
  - rewrite (proj1 (payload_offset_stable buf p)) by assumption. rewrite splice_from by assumption. reflexivity.
  - apply bytes_splice; assumption.
  - rewrite length_splice' by assumption. assumption.
Qed.

Lemma tcp_read_back buf p buf' : bytes buf -> bytes p -> (20 <= length buf)%nat ->
  tcp_set_payload buf p = Ok buf' ->
  tcp_payload buf' = Ok (p ++ skipn (tcp_payload_offset buf + length p) buf).
Proof.
  intros Hb Hp Hm Hs.
  destruct (payload_setter_inv _ _ _ tcp_set_payload_ok _ _ _ Hb Hm Hs) as (Hmo & Hf & ->).
  rewrite tcp_payload_spec.
  - rewrite (proj2 (payload_offset_stable buf p)) by assumption. rewrite splice_from by assumption. reflexivity.
  - apply bytes_splice; assumption.
  - rewrite length_splice' by assumption. assumption.
Qed.

(* the readers that are `&buf[8..]`: UdpPacket::payload, Echo{Request,Reply}Packet::payload (both families),
   {TimeExceeded,DestinationUnreachable}Packet::payload_raw (both families) *)
Lemma slice_from_read_back n p buf buf' : copy_into n p buf = Ok buf' ->
  slice_from n buf' = Ok (p ++ skipn (n + length p) buf).
Proof.
  intros Hs. destruct (copy_into_inv _ _ _ _ Hs) as [Hf ->].
  rewrite slice_from_ok by (rewrite length_splice' by assumption; lia).
  rewrite splice_from by assumption. reflexivity.
Qed.

Lemma udp_read_back buf p buf' : udp_set_payload buf p = Ok buf' ->
  pv_udp_payload buf' = Ok (p ++ skipn (8 + length p) buf).
Proof. exact (slice_from_read_back 8 p buf buf'). Qed.

Lemma echo_read_back : Forall (fun setp : list Z -> list Z -> result (list Z) =>
    forall buf p buf', setp buf p = Ok buf' -> echo_payload buf' = Ok (p ++ skipn (8 + length p) buf))
  [icmp4_echo_request_set_payload; icmp4_echo_reply_set_payload;
   icmp6_echo_request_set_payload; icmp6_echo_reply_set_payload].
Proof. repeat (apply Forall_cons; [exact (fun buf p buf' => slice_from_read_back 8 p buf buf')|]). apply Forall_nil. Qed.

(* Ipv6Packet::payload returns at most payload_length octets: the read back is cut at the length field *)
Lemma ipv6_read_back buf p buf' pl : (40 <= length buf)%nat -> ipv6_set_payload buf p = Ok buf' ->
  pv_ipv6_get_payload_length buf = Ok pl ->
  pv_ipv6_get_payload_length buf' = Ok pl /\
  ipv6_payload buf' = Ok (firstn (Z.to_nat pl) (p ++ skipn (40 + length p) buf)).
Proof.
  intros Hm Hs Hpl. pose proof (copy_into_agree 40%nat _ _ _ Hs) as A.
  destruct (copy_into_inv 40%nat _ _ _ Hs) as [Hf ->].
  assert (L : length (splice 40 p buf) = length buf) by (apply length_splice'; assumption).
  assert (Hpl' : pv_ipv6_get_payload_length (splice 40 p buf) = Ok pl).
  { rewrite <- Hpl. unfold pv_ipv6_get_payload_length, buf_get_u16.
    rewrite (buf_get_bytes_agree _ _ _ A) by lia. reflexivity. }
  split; [exact Hpl'|]. unfold ipv6_payload. rewrite Hpl'. cbn [bind]. rewrite L.
  destruct (Nat.leb_spec (length buf) 40) as [H|H].
  - assert (Lp : length p = 0%nat) by lia. apply length_zero_iff_nil in Lp. subst p.
    cbn [app length]. rewrite skipn_all2 by lia. rewrite firstn_nil. reflexivity.
  - rewrite slice_ok by lia. f_equal. rewrite splice_from by assumption.
    set (X := p ++ skipn (40 + length p) buf).
    assert (LX : length X = (length buf - 40)%nat) by (unfold X; rewrite app_length, skipn_length; lia).
    replace (Nat.min (40 + Z.to_nat pl) (length buf) - 40)%nat with (Nat.min (Z.to_nat pl) (length X)) by lia.
    apply firstn_min_length.
Qed.

(* a list that is read back in full *)
Lemma firstn_app_ge {A} k (p r : list A) : (length p <= k)%nat -> firstn k (p ++ r) = p ++ firstn (k - length p) r.
Proof. intros H. rewrite firstn_app. rewrite firstn_all2 by assumption. reflexivity. Qed.

Lemma ipv6_read_back_full buf p buf' pl : (40 <= length buf)%nat -> ipv6_set_payload buf p = Ok buf' ->
  pv_ipv6_get_payload_length buf = Ok pl -> (length p <= Z.to_nat pl)%nat ->
  exists rest, ipv6_payload buf' = Ok (p ++ rest).
Proof.
  intros Hm Hs Hpl Hle. destruct (ipv6_read_back _ _ _ _ Hm Hs Hpl) as [_ E].
  rewrite firstn_app_ge in E by lia. eexists. exact E.
Qed.

(* debug build of Ipv6Packet::set_payload: when it does not panic it does what the release build does, and
   then payload() reads the whole payload back *)
Lemma pv_ipv6_payload_length_eq buf pl : (40 <= length buf)%nat -> ipv6_get_payload_length buf = Ok pl ->
  pv_ipv6_get_payload_length buf = Ok pl.
Proof.
  intros Hm. unfold ipv6_get_payload_length, get_u16_at, pv_ipv6_get_payload_length.
  rewrite get_bytes_ok by lia. cbn [bind]. intros E. injection E as <-.
  destruct (buf_get_u16_ok buf 4) as (a & b & Ha & Hb & Hu); [lia|]. rewrite Hu. f_equal.
  unfold pv_buf_read, index in Ha, Hb.
  do 6 (destruct buf as [|? buf]; [cbn in Hm; lia|]).
  cbn in Ha, Hb. injection Ha as <-. injection Hb as <-. cbn [skipn firstn be_val length]. lia.
Qed.

Lemma ipv6_debug_read_back buf p buf' : (40 <= length buf)%nat -> ipv6_set_payload_debug buf p = Ok buf' ->
  ipv6_set_payload buf p = Ok buf' /\ exists rest, ipv6_payload buf' = Ok (p ++ rest).
Proof.
  intros Hm Hs. unfold ipv6_set_payload_debug in Hs.
  destruct (ipv6_get_payload_length buf) as [pl| |] eqn:Hpl; try discriminate. cbn [bind] in Hs.
  destruct (Nat.leb_spec (length p) (Z.to_nat pl)) as [H|H]; [|discriminate].
  split; [exact Hs|].
  apply (ipv6_read_back_full buf p buf' pl); try assumption.
  apply pv_ipv6_payload_length_eq; assumption.
Qed.

(* ExtensionObjectPacket::payload returns the octets 4 .. length-field (clamped): cut at the length field *)
Lemma ext_object_read_back buf p buf' l : (4 <= length buf)%nat -> ext_object_set_payload buf p = Ok buf' ->
  extension_object_get_length buf = Ok l ->
  extension_object_get_length buf' = Ok l /\
  extension_object_payload buf' = Ok (firstn (Z.to_nat l - 4) (p ++ skipn (4 + length p) buf)).
Proof.
  intros Hm Hs Hl. pose proof (copy_into_agree 4%nat _ _ _ Hs) as A.
  destruct (copy_into_inv 4%nat _ _ _ Hs) as [Hf ->].
  assert (L : length (splice 4 p buf) = length buf) by (apply length_splice'; assumption).
  assert (Hl' : extension_object_get_length (splice 4 p buf) = Ok l).
  { rewrite <- Hl. unfold extension_object_get_length, buf_get_u16.
    rewrite (buf_get_bytes_agree _ _ _ A) by lia. reflexivity. }
  split; [exact Hl'|]. unfold extension_object_payload. rewrite Hl'. cbn [bind]. rewrite L.
  rewrite slice_ok by lia. f_equal. rewrite splice_from by assumption.
  set (X := p ++ skipn (4 + length p) buf).
  assert (LX : length X = (length buf - 4)%nat) by (unfold X; rewrite app_length, skipn_length; lia).
  replace (Nat.min (Nat.max (Z.to_nat l) 4) (length buf) - 4)%nat with (Nat.min (Z.to_nat l - 4) (length X)) by lia.
  apply firstn_min_length.
Qed.

Lemma ext_object_read_back_full buf p buf' l : (4 <= length buf)%nat -> ext_object_set_payload buf p = Ok buf' ->
  extension_object_get_length buf = Ok l -> (4 + length p <= Z.to_nat l)%nat ->
  exists rest, extension_object_payload buf' = Ok (p ++ rest).
Proof.
  intros Hm Hs Hl Hle. destruct (ext_object_read_back _ _ _ _ Hm Hs Hl) as [_ E].
  rewrite firstn_app_ge in E by lia. eexists. exact E.
Qed.

(* TimeExceededPacket / DestinationUnreachablePacket: payload_raw is `&buf[8..]`; payload() is the prefix of it
   that the RFC 4884 splitter selects: all of it, the first `length field` words, or the first 128 octets *)
Lemma splitter_payload_cases len l : exists k e,
  extension_splitter_split len l = Ok (firstn k l, e) /\
  (k = length l \/ (k = len /\ (0 < len)%nat) \/ (k = 128%nat /\ len = 0%nat)).
Proof.
  unfold extension_splitter_split, ICMP_ORIG_DATAGRAM_MIN_LENGTH, MIN_HEADER.
  assert (Hall : exists k e, Ok (l, @None (list Z)) = Ok (firstn k l, e) /\
                  (k = length l \/ (k = len /\ (0 < len)%nat) \/ (k = 128%nat /\ len = 0%nat))).
  { exists (length l), None. rewrite firstn_all. auto. }
  destruct (Nat.ltb_spec (length l) len); [exact Hall|].
  destruct (Nat.ltb_spec 128 (length l)); [|exact Hall].
  destruct (Nat.ltb_spec 128 len).
  - rewrite split_at_ok by lia. cbn [bind fst snd].
    destruct (Nat.leb_spec 4 (length (skipn len l))) as [H4|H4]; [|exact Hall].
    exists len, (Some (skipn len l)). split; [reflexivity|]. right. left. lia.
  - rewrite split_at_ok by lia. cbn [bind fst snd].
    destruct (Nat.leb_spec 4 (length (skipn 128 l))) as [H4|H4].
    2:{ destruct (Nat.ltb_spec 0 len); exact Hall. }
    destruct (Nat.ltb_spec 0 len).
    + rewrite slice_ok by (try rewrite firstn_length; lia). cbn [bind skipn].
      rewrite Nat.sub_0_r, firstn_firstn, Nat.min_l by lia.
      exists len, (Some (skipn 128 l)). split; [reflexivity|]. right. left. lia.
    + exists 128%nat, (Some (skipn 128 l)). split; [reflexivity|]. right. right. lia.
Qed.

Lemma icmp_error_read_back fam buf p buf' l : (8 <= length buf)%nat -> copy_into 8 p buf = Ok buf' ->
  icmp_error_get_length fam buf = Ok l ->
  let len := Z.to_nat (l * length_unit fam) in
  let raw := p ++ skipn (8 + length p) buf in
  icmp_error_get_length fam buf' = Ok l /\
  icmp_error_payload_raw buf' = Ok raw /\
  (exists k, icmp_error_payload fam buf' = Ok (firstn k raw) /\
             (k = length raw \/ (k = len /\ (0 < len)%nat) \/ (k = 128%nat /\ len = 0%nat))) /\
  ((length p <= 128)%nat -> (len = 0%nat \/ length p <= len)%nat ->
   exists rest, icmp_error_payload fam buf' = Ok (p ++ rest)).
Proof.
  intros Hm Hs Hl len raw. pose proof (copy_into_agree 8%nat _ _ _ Hs) as A.
  pose proof (slice_from_read_back 8 p buf buf' Hs) as Hraw. fold raw in Hraw.
  assert (Hl' : icmp_error_get_length fam buf' = Ok l).
  { rewrite <- Hl. unfold icmp_error_get_length, pv_buf_read. apply (index_agree 8); [exact A|].
    destruct fam; cbn; lia. }
  assert (Hk : exists k, icmp_error_payload fam buf' = Ok (firstn k raw) /\
             (k = length raw \/ (k = len /\ (0 < len)%nat) \/ (k = 128%nat /\ len = 0%nat))).
  { unfold icmp_error_payload, split_payload_extension, icmp_error_min. rewrite Hl'. cbn [bind].
    rewrite Hraw. cbn [bind]. fold len.
    destruct (splitter_payload_cases len raw) as (k & e & Hsp & Hc). rewrite Hsp. cbn [bind fst].
    exists k. split; [reflexivity|exact Hc]. }
  split; [exact Hl'|]. split; [exact Hraw|]. split; [exact Hk|].
  intros H128 Hlen. destruct Hk as (k & Hp & Hc). rewrite Hp.
  assert (Lr : (length p <= length raw)%nat) by (unfold raw; rewrite app_length; lia).
  unfold raw at 1. rewrite firstn_app_ge by lia. eexists. reflexivity.
Qed.

Lemma icmp_error_read_back_all : Forall (fun '(fam, setp) =>
    forall buf p buf' l, (8 <= length buf)%nat -> setp buf p = Ok buf' -> icmp_error_get_length fam buf = Ok l ->
    let len := Z.to_nat (l * length_unit fam) in
    let raw := p ++ skipn (8 + length p) buf in
    icmp_error_get_length fam buf' = Ok l /\
    icmp_error_payload_raw buf' = Ok raw /\
    (exists k, icmp_error_payload fam buf' = Ok (firstn k raw) /\
               (k = length raw \/ (k = len /\ (0 < len)%nat) \/ (k = 128%nat /\ len = 0%nat))) /\
    ((length p <= 128)%nat -> (len = 0%nat \/ length p <= len)%nat ->
     exists rest, icmp_error_payload fam buf' = Ok (p ++ rest)))
  [(FamV4, icmp4_time_exceeded_set_payload); (FamV4, icmp4_dest_unreachable_set_payload);
   (FamV6, icmp6_time_exceeded_set_payload); (FamV6, icmp6_dest_unreachable_set_payload)].
Proof.
  repeat (apply Forall_cons; [intros buf p buf' l; apply icmp_error_read_back|]). apply Forall_nil.
Qed.

(* ---------------------------------------------------------------------------------------------- *)
(* (8) statements that are FALSE of the code, with witnesses                                        *)

(* "payload() reads back what set_payload wrote" is false of the RELEASE build of Ipv6Packet: with a
   payload-length field smaller than the payload (here 0, the state of a freshly zeroed buffer) the
   octets are written and payload() does not return them; the debug build panics on the same input *)
Lemma ipv6_release_read_back_refuted : exists buf p buf',
  bytes buf /\ bytes p /\ (40 <= length buf)%nat /\ p <> [] /\
  ipv6_set_payload buf p = Ok buf' /\ skipn 40 buf' = p ++ [0; 0; 0; 0] /\
  ipv6_payload buf' = Ok [] /\
  ipv6_set_payload_debug buf p = Fault Unreachable.
Proof.
  exists (repeat 0 48), [1; 2; 3; 4], (repeat 0 40 ++ [1; 2; 3; 4; 0; 0; 0; 0]).
  split; [apply bytes_repeat; lia|].
  split; [repeat (apply Forall_cons; [lia|]); apply Forall_nil|].
  split; [cbn; lia|]. split; [discriminate|]. vm_compute. repeat split.
Qed.

(* the same for the ICMP error messages: payload() is cut at the RFC 4884 length field when an extension
   structure can follow, so a payload longer than the length field says is written but not read back *)
Lemma icmp_error_read_back_refuted : exists buf p buf',
  bytes buf /\ bytes p /\ (8 <= length buf)%nat /\
  icmp4_time_exceeded_set_payload buf p = Ok buf' /\
  icmp_error_payload_raw buf' = Ok (p ++ repeat 0 132) /\
  icmp_error_payload FamV4 buf' = Ok (firstn 4 p) /\ firstn 4 p <> p.
Proof.
  exists ([11; 0; 0; 0; 0; 1; 0; 0] ++ repeat 0 140), [1; 2; 3; 4; 5; 6; 7; 8],
         ([11; 0; 0; 0; 0; 1; 0; 0] ++ [1; 2; 3; 4; 5; 6; 7; 8] ++ repeat 0 132).
  split; [apply bytes_app; split; [repeat (apply Forall_cons; [lia|]); apply Forall_nil|apply bytes_repeat; lia]|].
  split; [repeat (apply Forall_cons; [lia|]); apply Forall_nil|].
  split; [cbn; lia|]. vm_compute. repeat split. discriminate.
Qed.

(* the options term of the offset matters: with IHL / data offset 6 the payload lands at 24, the option
   octets 20..23 keep their content; a set_payload without the options term would overwrite them *)
Lemma options_term_matters :
  (exists buf p buf', bytes buf /\ (20 <= length buf)%nat /\ tcp_set_payload buf p = Ok buf' /\
     tcp_payload_offset buf = 24%nat /\ firstn 4 (skipn 20 buf') = firstn 4 (skipn 20 buf) /\
     firstn (length p) (skipn 24 buf') = p /\ copy_into 20 p buf <> Ok buf') /\
  (exists buf p buf', bytes buf /\ (20 <= length buf)%nat /\ ipv4_set_payload buf p = Ok buf' /\
     ipv4_payload_offset buf = 24%nat /\ firstn 4 (skipn 20 buf') = firstn 4 (skipn 20 buf) /\
     firstn (length p) (skipn 24 buf') = p /\ copy_into 20 p buf <> Ok buf').
Proof.
  split.
  - exists (repeat 0xaa 12 ++ [0x60] ++ repeat 0xaa 15), [1; 2], (repeat 0xaa 12 ++ [0x60] ++ repeat 0xaa 11 ++ [1; 2; 0xaa; 0xaa]).
    split; [apply bytes_app; split; [apply bytes_repeat; lia|apply bytes_app; split;
            [repeat (apply Forall_cons; [lia|]); apply Forall_nil|apply bytes_repeat; lia]]|].
    split; [cbn; lia|]. vm_compute. repeat split. discriminate.
  - exists ([0x46] ++ repeat 0xaa 27), [1; 2], ([0x46] ++ repeat 0xaa 23 ++ [1; 2; 0xaa; 0xaa]).
    split; [apply bytes_app; split; [repeat (apply Forall_cons; [lia|]); apply Forall_nil|apply bytes_repeat; lia]|].
    split; [cbn; lia|]. vm_compute. repeat split. discriminate.
Qed.

(* ---------------------------------------------------------------------------------------------- *)
(* (9) the packet-builder model of C11 (Net/Wire.v) has set_payload definitions of its own (arguments in the
   other order): they are the same functions, so what is proved here holds of the packets C11 builds           *)
From TV Require Net.Wire.

Lemma wire_models_agree : forall buf p,
  Wire.ipv4_set_payload p buf = Payload.ipv4_set_payload buf p /\
  Wire.udp_set_payload p buf = Payload.udp_set_payload buf p /\
  Wire.echo_set_payload p buf = icmp4_echo_request_set_payload buf p /\
  Wire.echo_set_payload p buf = icmp6_echo_request_set_payload buf p.
Proof. intros buf p. repeat split; reflexivity. Qed.

(* the dispatcher the correspondence driver enters the model through is the table of the thirteen setters *)
Lemma set_payload_of_table :
  map set_payload_of [PtIpv4; PtIpv6; PtUdp; PtTcp; PtIcmp4EchoRequest; PtIcmp4EchoReply; PtIcmp4TimeExceeded;
                      PtIcmp4DestUnreachable; PtIcmp6EchoRequest; PtIcmp6EchoReply; PtIcmp6TimeExceeded;
                      PtIcmp6DestUnreachable; PtExtObject] =
  [Payload.ipv4_set_payload; ipv6_set_payload; Payload.udp_set_payload; tcp_set_payload;
   icmp4_echo_request_set_payload; icmp4_echo_reply_set_payload; icmp4_time_exceeded_set_payload;
   icmp4_dest_unreachable_set_payload; icmp6_echo_request_set_payload; icmp6_echo_reply_set_payload;
   icmp6_time_exceeded_set_payload; icmp6_dest_unreachable_set_payload; ext_object_set_payload] /\
  forall t, exists min off, payload_setter_ok min off (set_payload_of t).
Proof.
  split; [reflexivity|]. intros t.
  destruct t; cbn [set_payload_of];
    first [ exists 20%nat, ipv4_payload_offset; exact ipv4_set_payload_ok
          | exists 20%nat, tcp_payload_offset; exact tcp_set_payload_ok
          | exists 40%nat, (fun _ => 40%nat); exact (fixed_set_payload_ok 40)
          | exists 8%nat, (fun _ => 8%nat); exact (fixed_set_payload_ok 8)
          | exists 4%nat, (fun _ => 4%nat); exact (fixed_set_payload_ok 4) ].
Qed.
