(* C03 over whole runs, late responses: for ICMP and UDP, a response that names the sequence of a probe sent in the
   PREVIOUS round (the round published most recently) is never genuine in the round in progress - at every position
   of every run.  The previous round's send log is read off the observation log ([pstep]); the proof carries, next
   to the simulation relation of RunLog.v, the fact that the window of the round in progress starts where
   advance_round put it when the previous round was published, and applies the C07 separation lemma. *)
From TV Require Import Base.Result Core.Types Core.TracerState Core.Strategy Core.Builder
  Proofs.ListLemmas Proofs.StrategyInv Proofs.StrategyProps Proofs.RoundHistory Proofs.RunLog Proofs.RunLogProps
  Proofs.NonInterference.
From Coq Require Import ZifyBool.

(* the ghost of the log together with the send log of the round published last *)
Definition pstep (c : scfg) (gp : ghost * list (probe * send_outcome)) (o : obs) : ghost * list (probe * send_outcome) :=
  (gstep c (fst gp) o, match o with OPublish _ _ _ => g_S (fst gp) | _ => snd gp end).

Definition late_ok (c : scfg) (gp : ghost * list (probe * send_outcome)) (o : obs) : Prop :=
  match o with
  | ORecv r => forall sr p x, strategy_resp c r = Ok sr -> In (p, x) (snd gp) -> p_sequence p = sr_sequence sr ->
                 genuine c (g_S (fst gp)) (g_A (fst gp)) r = None
  | _ => True
  end.

Fixpoint late_log_ok (c : scfg) (gp : ghost * list (probe * send_outcome)) (l : list obs) : Prop :=
  match l with
  | [] => True
  | o :: t => late_ok c gp o /\ late_log_ok c (pstep c gp o) t
  end.

Lemma late_log_ok_app c l1 : forall gp l2,
  late_log_ok c gp (l1 ++ l2) <-> late_log_ok c gp l1 /\ late_log_ok c (fold_left (pstep c) l1 gp) l2.
Proof.
  induction l1 as [|o l1 IH]; intros gp l2; cbn [app late_log_ok fold_left]; [tauto|]. rewrite IH. tauto.
Qed.

Lemma pfold_fst c l : forall gp, fst (fold_left (pstep c) l gp) = fold_left (gstep c) l (fst gp).
Proof. induction l as [|o l IH]; intros gp; cbn [fold_left]; [reflexivity|]. rewrite IH. reflexivity. Qed.

Lemma pfold_sends c ev gp : fold_left (pstep c) (obs_sends ev) gp = (fold_left (gstep c) (obs_sends ev) (fst gp), snd gp).
Proof.
  unfold obs_sends. generalize (sends_of ev). intros l. revert gp.
  induction l as [|po l IH]; intros gp; cbn [map fold_left]; [destruct gp; reflexivity|]. rewrite IH. reflexivity.
Qed.

Lemma pfold_recv c i gp : fold_left (pstep c) (obs_recv i) gp = (fold_left (gstep c) (obs_recv i) (fst gp), snd gp).
Proof. unfold obs_recv. destruct (i_recv i); cbn [fold_left pstep]; destruct gp; reflexivity. Qed.

Lemma late_sends_ok c ev gp : late_log_ok c gp (obs_sends ev).
Proof.
  unfold obs_sends. generalize (sends_of ev). intros l. revert gp.
  induction l as [|po l IH]; intros gp; cbn [map late_log_ok late_ok]; [exact I|]. split; [exact I|apply IH].
Qed.

(* where the window of the round in progress was put when the previous round (send log prev) was published *)
Definition PrevInv (c : scfg) (s : tstate) (prev : list (probe * send_outcome)) : Prop :=
  prev = [] \/
  exists sp adv s0, Inv c sp /\ advance_round c sp (first_ttl c) adv = Ok s0 /\ round_sequence s = round_sequence s0 /\
    forall po, In po prev -> round_sequence sp <= p_sequence (fst po) < sequence sp.

Lemma prev_inv_same c s s' prev : round_sequence s' = round_sequence s -> PrevInv c s prev -> PrevInv c s' prev.
Proof.
  intros E [->|(sp & adv & s0 & HIp & Ha & Hr & Hin)]; [left; reflexivity|].
  right. exists sp, adv, s0. split; [exact HIp|]. split; [exact Ha|]. split; [congruence|exact Hin].
Qed.

Theorem late_run_sim c : Accept c -> proto c <> Tcp -> forall is s g prev,
  Sim c s g -> PrevInv c s prev -> late_log_ok c (g, prev) (run_obs c s is).
Proof.
  intros HA Hp. induction is as [|i rest IH]; intros s g prev HS HP; cbn [run_obs].
  - destruct (finished s (max_rounds c)); exact I.
  - destruct (finished s (max_rounds c)); [exact I|].
    pose proof (sim_inv c s g HS) as HI.
    destruct (send_request_ok c s i HA HI) as (s1 & ev1 & e1 & H1 & HI1 & Hsb & _). rewrite H1.
    destruct (sim_send c s g i s1 ev1 e1 HA HS H1) as [_ HS1].
    destruct e1 as [e1|]; [apply late_sends_ok|]. specialize (HS1 eq_refl).
    apply late_log_ok_app. split; [apply late_sends_ok|]. rewrite pfold_sends. cbn [fst snd].
    set (g1 := fold_left (gstep c) (obs_sends ev1) g) in *.
    assert (HP1 : PrevInv c s1 prev).
    { apply (prev_inv_same c s s1 prev); [|exact HP]. destruct Hsb as (_ & _ & _ & _ & _ & _ & Hrs). exact Hrs. }
    destruct (recv_response_ok c s1 i HA HI1) as (s2 & e2 & H2 & HI2 & _ & Hrs2 & _). rewrite H2.
    destruct e2 as [e2|]; [exact I|].
    pose proof (sim_recv_phase c s1 g1 i s2 HA HS1 H2) as HS2.
    apply late_log_ok_app. split.
    { unfold obs_recv. destruct (i_recv i) as [|r|x] eqn:Ei; cbn [late_log_ok]; try exact I. split; [|exact I].
      cbn [late_ok fst snd]. intros sr p x Hsr Hin Hq.
      pose proof (genuine_ghost_pick c s1 i (g_S g1) (g_A g1) HI1 (sim_h c s1 g1 HS1) (sim_set c s1 g1 HS1)) as Hgp.
      rewrite pick_ghost, Ei in Hgp. rewrite <- Hgp. apply pick_none_classes. right. exists sr. split; [exact Hsr|].
      right. left. destruct HP1 as [->|(sp & adv & s0 & HIp & Ha & Hr & Hrange)]; [destruct Hin|].
      rewrite <- Hq. specialize (Hrange (p, x) Hin). cbn [fst] in Hrange.
      exact (c07_separation_lemma c sp adv s0 s1 HA Hp HIp Ha HI1 Hr (p_sequence p) Hrange). }
    rewrite pfold_recv. cbn [fst snd].
    set (g2 := fold_left (gstep c) (obs_recv i) g1) in *.
    assert (HP2 : PrevInv c s2 prev) by (apply (prev_inv_same c s1 s2 prev); [|exact HP1]; tauto).
    destruct (update_round_ok c s2 i HA HI2) as (s3 & ev3 & H3 & HI3 & Hcase). rewrite H3.
    destruct (sim_update c s2 g2 i s3 ev3 HA HS2 H3) as [(-> & -> & _)|(r & -> & _ & _ & _ & HS3)].
    + cbn [late_log_ok late_ok pstep fst snd gstep]. split; [exact I|]. apply IH; assumption.
    + cbn [late_log_ok late_ok pstep fst snd]. split; [exact I|]. apply IH; [exact HS3|].
      destruct Hcase as [(_ & _ & Hx)|(_ & r' & _ & _ & Ha & _)]; [discriminate|].
      right. exists s2, (i_advance i), s3. split; [exact HI2|]. split; [exact Ha|]. split; [reflexivity|].
      intros po Hin. cbn [fst] in Hin. destruct (sim_h c s2 g2 HS2) as [Hl Hs _ _ _].
      apply In_nth_error in Hin. destruct Hin as [k Hk]. rewrite (Hs k po Hk).
      assert (nth_error (g_S g2) k <> None) by congruence. apply nth_error_Some in H. lia.
Qed.

Definition prev_after (c : scfg) (t0 : Z) (l : list obs) : list (probe * send_outcome) :=
  snd (fold_left (pstep c) l (g_init t0, [])).

Lemma late_log_ok_at c l1 : forall gp o l2, late_log_ok c gp (l1 ++ o :: l2) -> late_ok c (fold_left (pstep c) l1 gp) o.
Proof. intros gp o l2 H. apply late_log_ok_app in H. destruct H as [_ H]. cbn [late_log_ok] in H. tauto. Qed.

(* every run, every delivery: a response naming the sequence of a probe of the round published last is not genuine *)
Theorem late_response_not_genuine c t0 is l1 r l2 sr p x : Accept c -> proto c <> Tcp ->
  run_log c t0 is = l1 ++ ORecv r :: l2 -> strategy_resp c r = Ok sr ->
  In (p, x) (prev_after c t0 l1) -> p_sequence p = sr_sequence sr ->
  genuine c (g_S (ghost_after c t0 l1)) (g_A (ghost_after c t0 l1)) r = None.
Proof.
  intros HA Hp E Hsr Hin Hq.
  pose proof (late_run_sim c HA Hp is (ts_new c t0) (g_init t0) [] (sim_new c t0 HA) (or_introl eq_refl)) as H.
  fold (run_log c t0 is) in H. rewrite E in H. apply late_log_ok_at in H. cbn [late_ok] in H.
  rewrite pfold_fst in H. cbn [fst] in H. exact (H sr p x Hsr Hin Hq).
Qed.

(* the send log of the round published last is what [publishes] reports for the last publish of the prefix *)
Lemma prev_after_publishes c : forall l g prev,
  snd (fold_left (pstep c) l (g, prev)) =
  match rev (publishes c g l) with x :: _ => snd (fst x) | [] => prev end.
Proof.
  induction l as [|o t IH]; intros g prev; cbn [fold_left publishes]; [reflexivity|].
  unfold pstep at 2. cbn [fst snd]. rewrite IH, rev_app_distr.
  destruct (rev (publishes c (gstep c g o) t)) as [|y ys]; cbn [app]; [|reflexivity].
  destruct o; reflexivity.
Qed.
