(* C05, link to the strategy: every round the strategy publishes lists its probes in strictly ascending distance order
   (one live probe per distance; a TCP probe that hit address-in-use is re-issued at the same distance and leaves a
   Skipped entry, which carries no distance) and never contains a NotSent entry - the shape under which
   RoundFold.ascending_round_classification describes the forward / backward loss attribution of a round.
   Proved over the ghost history of Proofs/RoundHistory.v (S = the probes handed to the network in this round). *)
From Coq Require Import Sorted.
From TV Require Import Base.Result Core.Types Core.TracerState Core.Strategy Core.Builder Core.Flows Core.State
  Proofs.ListLemmas Proofs.StrategyInv Proofs.StrategyProps Proofs.RoundHistory Proofs.StateProofs Proofs.PublishWf
  Proofs.RoundFold.
From Coq Require Import ZifyBool.

(* the distances of the probes of the round that were not abandoned for address-in-use, in send order *)
Definition live (S : list (probe * send_outcome)) : list Z :=
  flat_map (fun po => match snd po with AddressInUseO => [] | _ => [p_ttl (fst po)] end) S.

Record AInv (s : tstate) (S : list (probe * send_outcome)) : Prop := {
  a_lt : forall t, In t (live S) -> t < ttl s;
  a_sorted : StronglySorted Z.lt (live S);
}.

Lemma live_app a b : live (a ++ b) = live a ++ live b.
Proof. apply flat_map_app. Qed.

Lemma ttls_status_of_live A S : ttls (map (status_of A) S) = live S.
Proof.
  induction S as [|[p o] S IH]; [reflexivity|].
  cbn [map]. rewrite ttls_cons, status_of_ttl, IH. unfold live. cbn [flat_map snd fst].
  destruct o; reflexivity.
Qed.

Lemma status_of_not_notsent A S : ~ In NotSent (map (status_of A) S).
Proof.
  intros H. apply in_map_iff in H. destruct H as ([p o] & Hs & _). unfold status_of in Hs.
  destruct o; try discriminate; destruct (find_accept A (p_sequence p)); discriminate.
Qed.

Lemma ssorted_snoc l x : StronglySorted Z.lt l -> (forall y, In y l -> y < x) -> StronglySorted Z.lt (l ++ [x]).
Proof.
  induction l as [|a l IH]; intros Hs Hlt; cbn [app].
  - constructor; constructor.
  - inversion Hs as [|? ? Hs' Hf]; subst. constructor.
    + apply IH; [assumption|]. intros y Hy. apply Hlt. right; assumption.
    + apply Forall_app. split; [assumption|]. constructor; [apply Hlt; left; reflexivity|constructor].
Qed.

(* the re-issue loop leaves at most one live entry *)
Lemma tcp_loop_live c : forall sends s p clk last s' ev e,
  tcp_reissue_loop c s p sends clk last = Ok (s', ev, e) -> (length (live (sends_of ev)) <= 1)%nat.
Proof.
  induction sends as [|o rest IH]; intros s p clk last s' ev e H; cbn [tcp_reissue_loop] in H.
  - inversion H; subst. cbn. lia.
  - destruct (do_send s o) as [r|?|?] eqn:Ed; cbn [bind] in H; try discriminate.
    destruct r as [s1|s1|e1].
    + inversion H; subst. unfold live, sends_of. cbn [flat_map app snd fst]. destruct o; cbn; lia.
    + assert (o = AddressInUseO) as ->.
      { destruct o; cbn [do_send] in Ed; try (inversion Ed; fail); [|reflexivity].
        destruct (fail_probe s); cbn [bind] in Ed; inversion Ed. }
      destruct (round_has_capacity s1) as [cap|?|?]; cbn [bind] in H; try discriminate.
      destruct cap.
      * destruct (reissue_probe c s1 (hd_clock clk last)) as [[p' s2]|?|?]; cbn [bind] in H; try discriminate.
        destruct (tcp_reissue_loop c s2 p' rest (tl clk) (hd_clock clk last)) as [[[s3 ev3] e3]|?|?] eqn:Hrec; cbn [bind] in H; try discriminate.
        inversion H; subst. unfold sends_of. cbn [flat_map app]. fold (sends_of ev3).
        unfold live. cbn [flat_map snd app]. fold (live (sends_of ev3)). exact (IH _ _ _ _ _ _ _ Hrec).
      * inversion H; subst. cbn. lia.
    + inversion H; subst. unfold live, sends_of. cbn [flat_map app snd fst]. destruct o; cbn; lia.
Qed.

Lemma send_request_live c s i s1 ev e : send_request c s i = Ok (s1, ev, e) -> (length (live (sends_of ev)) <= 1)%nat.
Proof.
  unfold send_request. intros H.
  destruct (can_send c s) as [b|?|?]; cbn [bind] in H; try discriminate.
  destruct b; cbn [negb] in H; [|inversion H; subst; cbn; lia].
  assert (Hone : forall p o, (length (live (sends_of [ESend p o])) <= 1)%nat).
  { intros p o. unfold live, sends_of. cbn [flat_map app snd fst]. destruct o; cbn; lia. }
  destruct (proto c).
  - destruct (next_probe c s _) as [[p s2]|?|?]; cbn [bind] in H; try discriminate.
    destruct (do_send s2 _) as [r|?|?]; cbn [bind] in H; try discriminate.
    destruct r; inversion H; subst; apply Hone.
  - destruct (next_probe c s _) as [[p s2]|?|?]; cbn [bind] in H; try discriminate.
    destruct (do_send s2 _) as [r|?|?]; cbn [bind] in H; try discriminate.
    destruct r; inversion H; subst; apply Hone.
  - destruct (round_has_capacity s) as [cap|?|?]; cbn [bind] in H; try discriminate.
    destruct cap; cbn [negb] in H; [|inversion H; subst; cbn; lia].
    destruct (next_probe c s _) as [[p s2]|?|?]; cbn [bind] in H; try discriminate.
    destruct (i_sends i) as [|o rest]; [inversion H; subst; apply Hone|].
    exact (tcp_loop_live c _ _ _ _ _ _ _ _ H).
Qed.

Lemma ainv_send c s i s1 ev S : Accept c -> Inv c s -> AInv s S ->
  send_request c s i = Ok (s1, ev, None) -> AInv s1 (S ++ sends_of ev).
Proof.
  intros HA HI [Hlt Hs] H.
  pose proof (send_request_live c s i s1 ev None H) as Hlen.
  destruct (send_request_ok c s i HA HI) as (s1' & ev' & e' & H' & _ & _ & Hsh).
  rewrite H in H'. inversion H'; subst s1' ev' e'. clear H'.
  destruct Hsh as [[-> ->]|Hsh].
  - cbn [sends_of flat_map]. rewrite app_nil_r. constructor; assumption.
  - destruct Hsh as (_ & _ & _ & _ & _ & Httl1 & _ & _ & Hall & _).
    assert (Hl : forall t, In t (live (sends_of ev)) -> t = ttl s).
    { intros t Ht. unfold live in Ht. apply in_flat_map in Ht. destruct Ht as ([p o] & Hin & Ht).
      apply in_sends_of_probe in Hin. rewrite Forall_forall in Hall. destruct (Hall p Hin) as [Hp _].
      cbn [snd fst] in Ht. destruct o; try (destruct Ht as [<-|[]]; exact Hp). destruct Ht. }
    constructor; rewrite live_app.
    + intros t Ht. apply in_app_or in Ht. destruct Ht as [Ht|Ht]; [specialize (Hlt t Ht); lia|rewrite (Hl t Ht); lia].
    + destruct (live (sends_of ev)) as [|x [|y tl]]; [rewrite app_nil_r; assumption| |cbn [length] in Hlen; lia].
      apply ssorted_snoc; [assumption|]. intros y Hy. rewrite (Hl x (or_introl eq_refl)). apply Hlt. assumption.
Qed.

Lemma ainv_nil s : AInv s [].
Proof. constructor; [intros t []|constructor]. Qed.

Theorem run_hist_sorted c : Accept c -> forall is s S A, Inv c s -> AInv s S ->
  Forall (fun x => StronglySorted Z.lt (live (snd (fst x)))) (run_hist c s S A is).
Proof.
  intros HA. induction is as [|i rest IH]; intros s S A HI HAi; cbn [run_hist].
  - destruct (finished s (max_rounds c)); constructor.
  - destruct (finished s (max_rounds c)); [constructor|].
    destruct (send_request_ok c s i HA HI) as (s1 & ev1 & e1 & H1 & HI1 & _). rewrite H1.
    destruct e1 as [e1|]; [constructor|].
    pose proof (ainv_send c s i s1 ev1 S HA HI HAi H1) as HA1.
    destruct (recv_response_ok c s1 i HA HI1) as (s2 & e2 & H2 & HI2 & _ & _ & Httl & _). rewrite H2.
    destruct e2 as [e2|]; [constructor|].
    assert (HA2 : AInv s2 (S ++ sends_of ev1)).
    { destruct HA1 as [L1 S1]. constructor; [intros t Ht; rewrite Httl; apply L1; assumption|assumption]. }
    destruct (update_round_ok c s2 i HA HI2) as (s3 & ev3 & H3 & HI3 & Hcase). rewrite H3.
    destruct Hcase as [(Hnp & -> & ->)|(Hpub & r & Hr & -> & Ha & _)].
    + apply IH; assumption.
    + constructor; [cbn [fst snd]; destruct HA2; assumption|]. apply IH; [assumption|apply ainv_nil].
Qed.

(* every round the strategy ever publishes: ascending distances, no NotSent entry *)
Theorem strategy_rounds_ascending c t0 is : Accept c ->
  Forall (fun r => ascending (rr_probes r) /\ ~ In NotSent (rr_probes r)) (pubs (fst (fst (run c t0 is)))).
Proof.
  intros HA.
  pose proof (run_hist_sorted c HA is (ts_new c t0) [] [] (inv_new c t0 HA) (ainv_nil _)) as W.
  pose proof (run_hist_matches c HA is (ts_new c t0) [] [] (inv_new c t0 HA) (hinv_new c t0)
                ltac:(intros j q Hj; destruct j; discriminate)) as M.
  pose proof (run_hist_rounds c HA is (ts_new c t0) [] [] (inv_new c t0 HA)) as R.
  unfold run. rewrite <- R. apply Forall_map. rewrite Forall_forall in *. intros [[r S'] A'] Hx.
  specialize (W _ Hx). specialize (M _ Hx). cbn [fst snd] in *. rewrite M.
  split; [unfold ascending; rewrite ttls_status_of_live; exact W|apply status_of_not_notsent].
Qed.
