(* C10, the link between the two halves: every round the strategy publishes has the shape the aggregator
   theorems assume (StateProofs.wf_round): probe ttls within 1..254, largest_ttl within 0..254 and either 0
   or at least the ttl of a probe of that round.  Proved over the ghost history of Proofs/RoundHistory.v. *)
From TV Require Import Base.Result Core.Types Core.TracerState Core.Strategy Core.Builder Core.Flows Core.State
  Proofs.ListLemmas Proofs.StrategyInv Proofs.StrategyProps Proofs.RoundHistory Proofs.StateProofs.
From Coq Require Import ZifyBool.

Record GInv (c : scfg) (s : tstate) (S : list (probe * send_outcome)) : Prop := {
  g_ttl : forall p o, In (p, o) S -> first_ttl c <= p_ttl p < ttl s;
  g_first : S <> [] -> exists i p o, nth_error S i = Some (p, o) /\ o <> AddressInUseO /\ p_ttl p = first_ttl c;
  g_mr : max_received_ttl s <> None -> S <> [];
  g_tt : target_ttl s <> None \/ S <> [] -> first_ttl c <= max_ttl c;
  g_tf : S = [] -> target_found s = false;
}.

Lemma ginv_new c t0 : GInv c (ts_new c t0) [].
Proof.
  constructor; cbn [ts_new max_received_ttl target_ttl target_found ttl].
  - intros p o [].
  - intros H; congruence.
  - intros H; congruence.
  - intros [H|H]; congruence.
  - reflexivity.
Qed.

Lemma ev_probes_sends_of ev : ev_probes ev = map fst (sends_of ev).
Proof.
  induction ev as [|[p o|r] ev IH]; cbn [ev_probes sends_of flat_map app map fst].
  - reflexivity.
  - unfold sends_of in IH. rewrite IH. reflexivity.
  - exact IH.
Qed.

Lemma in_sends_of_probe ev p o : In (p, o) (sends_of ev) -> In p (ev_probes ev).
Proof. intros H. rewrite ev_probes_sends_of. apply (in_map fst) in H. exact H. Qed.

(* with no probe in the round yet the next ttl is the first ttl *)
Lemma round_start_ttl c s S A : Inv c s -> HInv c s S A -> S = [] -> ttl s = first_ttl c /\ sequence s = round_sequence s.
Proof.
  intros HI HH ->. destruct HH as [Hl _ _ _ _]. cbn [length] in Hl. destruct HI. lia.
Qed.

Lemma ginv_send c s i s1 ev S A : Accept c -> Inv c s -> HInv c s S A -> settled S -> GInv c s S ->
  send_request c s i = Ok (s1, ev, None) -> GInv c s1 (S ++ sends_of ev).
Proof.
  intros HA HI HH Hset HG H.
  destruct (hinv_send_any c s i s1 ev None S A HA HI HH Hset H) as [_ Hset1]. specialize (Hset1 eq_refl).
  destruct (send_request_ok c s i HA HI) as (s1' & ev' & e' & H' & HI1 & Hsb & Hsh).
  rewrite H in H'. inversion H'; subst s1' ev' e'. clear H'.
  destruct Hsh as [[-> ->]|Hsh].
  - cbn [sends_of flat_map]. rewrite app_nil_r. exact HG.
  - destruct Hsh as (Hne & Hlen & Htf & Hmax & _ & Httl1 & _ & _ & Hall & _).
    destruct Hsb as (_ & _ & Htf1 & Hmr1 & Htt1 & _ & _).
    destruct HG as [Gt Gf Gm Gtt Gtf].
    pose proof (inv_ttl c s HI) as Hit.
    assert (Hsne : sends_of ev <> []).
    { intro E. apply Hne. rewrite ev_probes_sends_of, E. reflexivity. }
    constructor.
    + intros p o Hin. apply in_app_or in Hin. destruct Hin as [Hin|Hin].
      * specialize (Gt p o Hin). lia.
      * apply in_sends_of_probe in Hin. rewrite Forall_forall in Hall. destruct (Hall p Hin) as [Hp _]. lia.
    + intros _. destruct S as [|x S'] eqn:ES.
      * (* first probes of the round: the last one of this batch is not address-in-use and has ttl = first_ttl *)
        destruct (round_start_ttl c s [] A HI HH eq_refl) as [Hft _].
        cbn [app] in *. destruct (exists_last Hsne) as (l & [p o] & El).
        exists (length l), p, o. rewrite El. split; [apply nth_error_app_last|]. split.
        -- intro Eo. subst o. apply (Hset1 (length l) p); [rewrite El; apply nth_error_app_last|].
           apply nth_error_None. rewrite El, app_length. cbn [length]. lia.
        -- assert (Hin : In (p, o) (sends_of ev)) by (rewrite El; apply in_or_app; right; left; reflexivity).
           apply in_sends_of_probe in Hin. rewrite Forall_forall in Hall. destruct (Hall p Hin) as [Hp _]. lia.
      * destruct (Gf ltac:(discriminate)) as (k & p & o & Hk & Ho & Hp).
        exists k, p, o. split; [|split; assumption].
        rewrite nth_error_app1; [assumption|]. apply nth_error_Some. congruence.
    + intros _ E. apply app_eq_nil in E. destruct E as [_ E]. contradiction.
    + intros _. lia.
    + intros E. apply app_eq_nil in E. destruct E as [_ E]. contradiction.
Qed.

Lemma ginv_recv c s i s' S A : Accept c -> Inv c s -> HInv c s S A -> GInv c s S ->
  recv_response c s i = Ok (s', None) -> GInv c s' S.
Proof.
  intros HA HI HH HG H.
  destruct (recv_response_ok c s i HA HI) as (s2 & e2 & H2 & _ & _ & _ & Httl & _ & _ & _ & Hcase).
  rewrite H in H2. inversion H2; subst s2 e2. clear H2.
  destruct Hcase as [->|(r & sr & p & _ & Hacc & _ & Htf & _ & Hmr)]; [exact HG|].
  destruct Hacc as (_ & _ & _ & Hin & _).
  assert (HS : S <> []).
  { intro E. destruct (round_start_ttl c s S A HI HH E) as [_ Hq]. lia. }
  destruct HG as [Gt Gf Gm Gtt Gtf]. constructor.
  - intros q o Hq. rewrite Httl. apply (Gt q o Hq).
  - exact Gf.
  - intros _. exact HS.
  - intros _. apply Gtt. right. exact HS.
  - intros E. contradiction.
Qed.

(* a round that is about to be published without any probe has no target distance and no response *)
Lemma empty_round_no_target c s i s1 ev S A : Accept c -> Inv c s -> HInv c s S A -> GInv c s S ->
  send_request c s i = Ok (s1, ev, None) -> S ++ sends_of ev = [] ->
  s1 = s /\ target_ttl s = None /\ max_received_ttl s = None.
Proof.
  intros HA HI HH HG H E. apply app_eq_nil in E. destruct E as [ES Eev].
  destruct (round_start_ttl c s S A HI HH ES) as [Hft Hsq].
  destruct HG as [Gt Gf Gm Gtt Gtf].
  assert (Hmr : max_received_ttl s = None).
  { destruct (max_received_ttl s) eqn:Em; [|reflexivity]. exfalso. apply (Gm ltac:(discriminate)). exact ES. }
  assert (Hev : ev = [] /\ s1 = s).
  { destruct (send_request_ok c s i HA HI) as (s1' & ev' & e' & H' & _ & _ & Hsh).
    rewrite H in H'. inversion H'; subst s1' ev' e'.
    destruct Hsh as [Hx|Hsh]; [exact Hx|]. exfalso.
    destruct Hsh as (Hne & _). apply Hne. rewrite ev_probes_sends_of, Eev. reflexivity. }
  destruct Hev as [-> ->].
  destruct (can_send_ok c s HA HI) as (b & Hcs & _).
  destruct b.
  - exfalso. apply (send_request_nonempty c s i s [] None Hcs); [|exact H|reflexivity].
    intros _. unfold round_has_capacity, sub16, sub_w, BUFFER_SIZE. rewrite Hsq, Z.leb_refl. cbn [bind].
    replace (round_sequence s - round_sequence s) with 0 by lia. reflexivity.
  - split; [reflexivity|]. split; [|exact Hmr].
    destruct (target_ttl s) as [t|] eqn:Et; [|reflexivity]. exfalso.
    unfold can_send in Hcs. rewrite Et in Hcs. cbn [bind] in Hcs. inversion Hcs as [Hb].
    rewrite (Gtf ES) in Hb. cbn [negb andb] in Hb.
    assert (Hnn : Some t <> (None : option Z)) by discriminate.
    pose proof (Gtt (or_introl Hnn)) as Hfm.
    pose proof (inv_tt c s HI t Et) as Htt. lia.
Qed.

(* ---------------------------------------------------------------- the published round *)
Lemma status_of_ttl A p o :
  status_ttl (status_of A (p, o)) = match o with AddressInUseO => None | _ => Some (p_ttl p) end.
Proof.
  unfold status_of. destruct o; cbn [status_ttl]; try reflexivity;
    destruct (find_accept A (p_sequence p)); cbn [status_ttl]; try reflexivity;
    destruct (complete_fields p s) as [-> _]; reflexivity.
Qed.

Lemma ttls_status_of A S t :
  In t (ttls (map (status_of A) S)) <-> exists p o, In (p, o) S /\ o <> AddressInUseO /\ t = p_ttl p.
Proof.
  unfold ttls. rewrite in_flat_map. split.
  - intros (st & Hst & Ht). apply in_map_iff in Hst. destruct Hst as ([p o] & <- & Hin).
    rewrite status_of_ttl in Ht. exists p, o. split; [assumption|].
    destruct o; cbn in Ht; try (destruct Ht as [<-|[]]; split; [discriminate|reflexivity]). destruct Ht.
  - intros (p & o & Hin & Ho & ->). exists (status_of A (p, o)). split; [apply in_map; assumption|].
    rewrite status_of_ttl. destruct o; try (left; reflexivity). contradiction.
Qed.

Lemma publish_wf c s S A r : Accept c -> Inv c s -> HInv c s S A -> settled S -> GInv c s S ->
  (S = [] -> target_ttl s = None /\ max_received_ttl s = None) ->
  publish_trace s = Ok r -> wf_round r.
Proof.
  intros HA HI HH Hset HG Hempty Hr.
  destruct (publish_trace_ok c s HA HI) as (r' & Hr' & Hprobes & _ & Hrange & Hlargest).
  rewrite Hr in Hr'. inversion Hr'; subst r'. clear Hr'.
  rewrite (published_probes_match c s S A HI HH Hset) in Hprobes.
  pose proof (accept_facts c HA) as F. pose proof (inv_ttl c s HI) as Hit.
  destruct HG as [Gt Gf Gm Gtt Gtf].
  unfold wf_round. rewrite Hprobes. split; [|split].
  - unfold ttls_ok. apply Forall_forall. intros t Ht. apply ttls_status_of in Ht.
    destruct Ht as (p & o & Hin & _ & ->). specialize (Gt p o Hin). lia.
  - destruct Hrange as [->|Hr0]; lia.
  - destruct S as [|x S'] eqn:ES.
    + left. destruct (Hempty eq_refl) as [Et Em]. rewrite Hlargest, Et, Em. reflexivity.
    + destruct Hrange as [H0|Hr0]; [left; exact H0|]. right.
      destruct (Gf ltac:(discriminate)) as (k & p & o & Hk & Ho & Hp).
      exists (first_ttl c). split; [|lia].
      apply ttls_status_of. exists p, o. split; [eapply nth_error_In; exact Hk|]. split; [assumption|symmetry; assumption].
Qed.

Lemma recv_empty_same c s i s' e : Accept c -> Inv c s -> sequence s = round_sequence s ->
  recv_response c s i = Ok (s', e) -> s' = s.
Proof.
  intros HA HI Hq H.
  destruct (recv_response_ok c s i HA HI) as (s2 & e2 & H2 & _ & _ & _ & _ & _ & _ & _ & Hcase).
  rewrite H in H2. inversion H2; subst s2 e2.
  destruct Hcase as [->|(r & sr & p & _ & Hacc & _)]; [reflexivity|].
  destruct Hacc as (_ & _ & _ & Hin & _). lia.
Qed.

Theorem run_hist_wf c : Accept c -> forall is s S A,
  Inv c s -> HInv c s S A -> settled S -> GInv c s S ->
  Forall (fun x => wf_round (fst (fst x))) (run_hist c s S A is).
Proof.
  intros HA. induction is as [|i rest IH]; intros s S A HI HH Hni HG; cbn [run_hist].
  - destruct (finished s (max_rounds c)); constructor.
  - destruct (finished s (max_rounds c)); [constructor|].
    destruct (send_request_ok c s i HA HI) as (s1 & ev1 & e1 & H1 & HI1 & _). rewrite H1.
    destruct e1 as [e1|]; [constructor|].
    destruct (hinv_send_any c s i s1 ev1 None S A HA HI HH Hni H1) as [HH1 Hni1]. specialize (Hni1 eq_refl).
    pose proof (ginv_send c s i s1 ev1 S A HA HI HH Hni HG H1) as HG1.
    destruct (recv_response_ok c s1 i HA HI1) as (s2 & e2 & H2 & HI2 & _). rewrite H2.
    destruct e2 as [e2|]; [constructor|].
    pose proof (hinv_recv_ghost c s1 i s2 None _ A HA HI1 HH1 Hni1 H2) as HH2.
    pose proof (ginv_recv c s1 i s2 _ A HA HI1 HH1 HG1 H2) as HG2.
    destruct (update_round_ok c s2 i HA HI2) as (s3 & ev3 & H3 & HI3 & Hcase). rewrite H3.
    destruct Hcase as [(Hnp & -> & ->)|(Hpub & r & Hr & -> & Ha & _)].
    + apply IH; assumption.
    + constructor.
      * cbn [fst]. apply (publish_wf c s2 _ _ r HA HI2 HH2 Hni1 HG2); [|exact Hr].
        intros E. destruct (empty_round_no_target c s i s1 ev1 S A HA HI HH HG H1 E) as (-> & Et & Em).
        apply app_eq_nil in E. destruct E as [ES _].
        destruct (round_start_ttl c s S A HI HH ES) as [_ Hq].
        rewrite (recv_empty_same c s i s2 None HA HI Hq H2). split; assumption.
      * destruct (advance_round_spec c s2 (i_advance i) HA HI2)
          as (sx & Hax & _ & _ & _ & _ & Hq & Htf & Hmr & _ & Htt & Hb & _).
        rewrite Ha in Hax. inversion Hax; subst sx.
        apply IH; [assumption| |intros j q Hj; destruct j; discriminate|].
        -- constructor; cbn [length nth_error]; try lia; try (intros [|?] ? Hx; discriminate); try (intros ? ? []). constructor.
        -- destruct HG2 as [_ _ _ Gtt2 _]. constructor.
           ++ intros p o [].
           ++ intros Hx; congruence.
           ++ intros Hx. rewrite Hmr in Hx. congruence.
           ++ intros [Hx|Hx]; [|congruence]. apply Gtt2. left. rewrite <- Htt. exact Hx.
           ++ intros _. exact Htf.
Qed.

(* every round the strategy ever publishes is well-formed for the aggregator *)
Theorem strategy_rounds_wf c t0 is : Accept c -> Forall wf_round (pubs (fst (fst (run c t0 is)))).
Proof.
  intros HA.
  pose proof (run_hist_wf c HA is (ts_new c t0) [] [] (inv_new c t0 HA) (hinv_new c t0)
                ltac:(intros j q Hj; destruct j; discriminate) (ginv_new c t0)) as W.
  pose proof (run_hist_rounds c HA is (ts_new c t0) [] [] (inv_new c t0 HA)) as R.
  unfold run. rewrite <- R. apply Forall_map. exact W.
Qed.
