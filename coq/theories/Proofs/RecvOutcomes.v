(* C04, second part (receive half): WHICH values the receive path returns, for every datagram and every
   configuration; what is inside the bounds at every accessor of the receive path given the size check that
   precedes it; the pieces handed from one layer to the next are inside the datagram; the array of pending TCP
   probe sockets over whole histories. *)
From Coq Require Import ZifyBool.
From TV Require Import Base.Result Base.Bytes Core.Types Packet.Checksum Proofs.ChecksumProofs.
From TV Require Import Net.RecvCommon Net.Recv4 Net.Recv6 Net.Recv Net.TcpSockets Proofs.RecvProofs Proofs.TcpSocketsProofs.
Ltac Zify.zify_post_hook ::= Z.div_mod_to_equations.

(* ------------------------------------------------------------------------------------------ *)
(* "a value, or the error value of a too-short packet view" - nothing else                      *)
(* ------------------------------------------------------------------------------------------ *)
Definition ep {A} (r : result A) : Prop :=
  match r with Ok _ => True | Err e => e = EPacket | Fault _ => False end.

Lemma ep_bind {A B} (r : result A) (k : A -> result B) :
  ep r -> (forall a, r = Ok a -> ep (k a)) -> ep (bind r k).
Proof. destruct r; cbn; intros H K; [apply K; reflexivity | exact H | contradiction]. Qed.
Lemma ep_nf {A} (r : result A) : ep r -> nf r.
Proof. destruct r; cbn; intro H; [reflexivity|reflexivity|contradiction]. Qed.
Lemma ep_new_view n b : ep (new_view n b).
Proof. destruct (new_view_cases n b) as [[-> _] | [-> _]]; [exact I|reflexivity]. Qed.
Lemma ep_total {A} (r : result A) : (exists x, r = Ok x) -> ep r.
Proof. intros [x ->]. exact I. Qed.
Lemma ep_cases {A} (r : result A) : ep r <-> (exists x, r = Ok x) \/ r = Err EPacket.
Proof.
  destruct r as [a|e|f]; cbn; split; intro H.
  - left. eauto.
  - exact I.
  - right. rewrite H. reflexivity.
  - destruct H as [[x Hx]|Hx]; [discriminate|]. injection Hx as ->. reflexivity.
  - contradiction.
  - destruct H as [[x Hx]|Hx]; discriminate.
Qed.

Ltac ev H := apply ep_bind; [apply ep_new_view|]; let x := fresh "x" in intros x H; apply new_view_inv in H; destruct H as [-> H].

Lemma ztake_zlen p : ztake (zlen p) p = p.
Proof. unfold ztake, zlen. rewrite Nat2Z.id. apply firstn_all. Qed.

(* ------------------------------------------------------------------------------------------ *)
(* extension_splitter::split of the receive-path model: total for EVERY length (even one that is  *)
(* not a multiple of the word, zero or negative), and both pieces are inside the payload         *)
(* ------------------------------------------------------------------------------------------ *)
Lemma split_within_net len p : exists n e,
  split len p = Ok (ztake n p, e) /\ 0 <= n <= zlen p /\
  match e with
  | None => True
  | Some x => exists c, n <= c /\ 128 <= c /\ c + 4 <= zlen p /\ x = skipn (Z.to_nat c) p
  end.
Proof.
  pose proof (zlen_nonneg p) as Hp.
  assert (Hall : exists n e, Ok (p, @None (list Z)) = Ok (ztake n p, e) /\ 0 <= n <= zlen p /\
             match e with None => True | Some x => exists c, n <= c /\ 128 <= c /\ c + 4 <= zlen p /\ x = skipn (Z.to_nat c) p end).
  { exists (zlen p), None. rewrite ztake_zlen. repeat split; lia. }
  unfold split.
  destruct (zlen p <? len) eqn:E1; [exact Hall|].
  destruct (128 <? zlen p) eqn:E2; [|exact Hall].
  destruct (128 <? len) eqn:E3.
  - rewrite zslice_ok, zslice_from_ok by lia. cbn [bind].
    destruct (4 <=? _) eqn:E4; [|exact Hall].
    rewrite zlen_skipn in E4 by lia.
    exists len, (Some (skipn (Z.to_nat len) p)). change (Z.to_nat 0) with 0%nat. cbn [skipn]. rewrite Z.sub_0_r.
    split; [reflexivity|]. split; [lia|]. exists len. repeat split; lia.
  - destruct (0 <? len) eqn:E5.
    + rewrite zslice_ok, zslice_from_ok by lia. cbn [bind].
      destruct (4 <=? _) eqn:E4; [|exact Hall].
      rewrite zlen_skipn in E4 by lia.
      rewrite zslice_ok; [| lia | rewrite zlen_zslice by lia; lia]. cbn [bind].
      change (Z.to_nat 0) with 0%nat. cbn [skipn]. rewrite !Z.sub_0_r, firstn_firstn.
      replace (Nat.min (Z.to_nat len) (Z.to_nat 128)) with (Z.to_nat len) by lia.
      exists len, (Some (skipn (Z.to_nat 128) p)). split; [reflexivity|]. split; [lia|]. exists 128. repeat split; lia.
    + rewrite zslice_ok, zslice_from_ok by lia. cbn [bind].
      destruct (4 <=? _) eqn:E4; [|exact Hall].
      rewrite zlen_skipn in E4 by lia.
      change (Z.to_nat 0) with 0%nat. cbn [skipn]. rewrite Z.sub_0_r.
      exists 128, (Some (skipn (Z.to_nat 128) p)). split; [reflexivity|]. split; [lia|]. exists 128. repeat split; lia.
Qed.

Lemma split_total len p : exists x, split len p = Ok x.
Proof. destruct (split_within_net len p) as (n & e & H & _). eauto. Qed.

(* ------------------------------------------------------------------------------------------ *)
(* the object iterator of the receive-path model: bounded objects, inside, disjoint, finitely many *)
(* ------------------------------------------------------------------------------------------ *)
Definition inside_from (b : list Z) (off : Z) (ob : list Z) : Prop :=
  exists o, off <= o /\ o + 4 <= zlen b /\ ob = skipn (Z.to_nat o) b.

Lemma objects_spec_full b : forall f off, 0 <= off -> Z.max 0 (zlen b - off) < Z.of_nat f ->
  exists obs, objects f b off = Ok obs /\ Forall obj_bounded obs /\
              4 * zlen obs <= Z.max 0 (zlen b - off) /\ Forall (inside_from b off) obs.
Proof.
  induction f as [|f IH]; intros off H0 Hf; [lia|].
  cbn [objects].
  assert (Hnil : exists obs : list (list Z), Ok (@nil (list Z)) = Ok obs /\ Forall obj_bounded obs /\
                   4 * zlen obs <= Z.max 0 (zlen b - off) /\ Forall (inside_from b off) obs).
  { exists []. split; [reflexivity|]. split; [constructor|]. split; [|constructor].
    change (zlen (@nil (list Z))) with 0. lia. }
  destruct (zlen b <? off) eqn:E1; [exact Hnil|].
  rewrite zslice_from_ok by lia. cbn [bind].
  set (ob := skipn (Z.to_nat off) b).
  assert (Hob : zlen ob = zlen b - off) by (apply zlen_skipn; lia).
  destruct (zlen ob <? 4) eqn:E2; [exact Hnil|].
  rewrite get_u16_ok by lia. cbn [bind]. change (Z.to_nat 0) with 0%nat. change (Z.to_nat (0 + 1)) with 1%nat.
  set (len := nth 0 ob 0 * 256 + nth 1 ob 0).
  destruct ((len <? 4) || (zlen ob <? len)) eqn:E3; [exact Hnil|].
  destruct (IH (off + len)) as (rest & -> & Hrest & Hcnt & Hin); [lia | lia |].
  cbn [bind]. exists (ob :: rest). split; [reflexivity|]. split.
  - constructor; [|assumption]. unfold obj_bounded. fold len. lia.
  - split; [rewrite zlen_cons; lia|]. constructor.
    + exists off. repeat split; lia.
    + eapply Forall_impl; [|exact Hin]. intros x (o & Ho1 & Ho2 & Ho3). exists o. repeat split; try lia. exact Ho3.
Qed.

Lemma member_enc_six m e : member_enc m = Ok e -> length e = 6%nat.
Proof.
  unfold member_enc. destruct (read 0 m); cbn [bind]; try discriminate. destruct (read 1 m); cbn [bind]; try discriminate.
  destruct (read 2 m); cbn [bind]; try discriminate. destruct (read 3 m); cbn [bind]; try discriminate.
  intro H. injection H as <-. reflexivity.
Qed.

Lemma mpls_members_full b : forall f off bos, 0 <= off -> Z.max 0 (zlen b - off) < Z.of_nat f ->
  exists ms, mpls_members f b off bos = Ok ms /\ 4 * zlen ms <= Z.max 0 (zlen b - off) /\
             Forall (fun m => length m = 6%nat) ms.
Proof.
  induction f as [|f IH]; intros off bos H0 Hf; [lia|].
  cbn [mpls_members].
  assert (Hnil : exists ms : list (list Z), Ok (@nil (list Z)) = Ok ms /\ 4 * zlen ms <= Z.max 0 (zlen b - off) /\
                   Forall (fun m => length m = 6%nat) ms).
  { exists []. split; [reflexivity|]. split; [|constructor].
    change (zlen (@nil (list Z))) with 0. lia. }
  destruct ((0 <? bos) || (zlen b <=? off)) eqn:E1; [exact Hnil|].
  rewrite zslice_from_ok by lia. cbn [bind].
  set (mb := skipn (Z.to_nat off) b).
  assert (Hmb : zlen mb = zlen b - off) by (apply zlen_skipn; lia).
  destruct (zlen mb <? 4) eqn:E2; [exact Hnil|].
  rewrite read_ok by lia. cbn [bind].
  destruct (member_enc_ok mb) as [e He]; [lia|]. rewrite He. cbn [bind].
  destruct (IH (off + 4) (nth (Z.to_nat 2) mb 0 mod 2)) as (rest & -> & Hcnt & Hsix); [lia | lia |].
  cbn [bind]. exists (e :: rest). split; [reflexivity|]. split; [rewrite zlen_cons; lia|].
  constructor; [eapply member_enc_six; exact He|exact Hsix].
Qed.

(* ------------------------------------------------------------------------------------------ *)
(* the conversion of the extension structure: a value or EPacket                                *)
(* ------------------------------------------------------------------------------------------ *)
Lemma ep_object_enc ob : obj_bounded ob -> ep (object_enc ob).
Proof.
  intros [H4 Hl]. unfold object_enc.
  rewrite get_u16_ok by lia. cbn [bind]. change (Z.to_nat 0) with 0%nat. change (Z.to_nat (0 + 1)) with 1%nat.
  rewrite !read_ok by lia. cbn [bind].
  rewrite zslice_ok by lia. cbn [bind].
  destruct (_ =? 1).
  - apply ep_bind; [apply ep_new_view|]. intros st Hst. apply new_view_inv in Hst. destruct Hst as [-> _].
    match goal with |- ep (bind (mpls_members ?f ?b ?o ?s) _) => destruct (mpls_members_ok b f o s) as [ms ->] end;
      [lia | unfold zlen; lia |]. exact I.
  - exact I.
Qed.

Lemma ep_objects_enc obs : Forall obj_bounded obs -> ep (objects_enc obs).
Proof.
  induction 1 as [|ob obs Hb _ IH]; [exact I|].
  cbn [objects_enc]. apply ep_bind; [apply ep_object_enc; assumption|]. intros e _.
  apply ep_bind; [assumption|]. intros; exact I.
Qed.

Lemma ep_extensions_try_from v : ep (extensions_try_from v).
Proof.
  unfold extensions_try_from.
  apply ep_bind; [apply ep_new_view|]. intros pk Hpk. apply new_view_inv in Hpk. destruct Hpk as [-> Hlen].
  rewrite zslice_ok by lia. cbn [bind].
  apply ep_bind; [apply ep_new_view|]. intros h Hh. apply new_view_inv in Hh. destruct Hh as [-> Hh].
  rewrite read_ok by lia. cbn [bind].
  destruct (negb _); [exact I|].
  destruct (objects_spec v (S (length v)) 4) as [obs [-> Hobs]]; [lia | unfold zlen; lia |].
  cbn [bind]. apply ep_objects_enc; assumption.
Qed.

Lemma ep_ext_of e : ep (ext_of e).
Proof.
  destruct e as [x|]; [|exact I]. cbn [ext_of].
  apply ep_bind; [apply ep_extensions_try_from|]. intros; exact I.
Qed.

(* ------------------------------------------------------------------------------------------ *)
(* IPv4                                                                                         *)
(* ------------------------------------------------------------------------------------------ *)
Lemma ep_extract_echo_request4 b : 1 <= zlen b -> ep (extract_echo_request4 b).
Proof.
  intros H. unfold extract_echo_request4. destruct (ipv4_payload_ok b H) as [p ->]. cbn [bind]. apply ep_new_view.
Qed.

Lemma ep_extract_udp_packet4 b : 20 <= zlen b -> ep (extract_udp_packet4 b).
Proof.
  intros H. unfold extract_udp_packet4, ipv4_get_identification.
  destruct (ipv4_payload_ok b) as [p ->]; [lia|]. cbn [bind].
  ev Hn. rewrite !get_u16_ok by lia. exact I.
Qed.

(* the quoted TCP header is zero-padded to 20 octets before the view is made: always a value *)
Lemma extract_tcp_packet4_ok b : 1 <= zlen b -> exists x, extract_tcp_packet4 b = Ok x.
Proof.
  intros H. unfold extract_tcp_packet4.
  destruct (ipv4_payload_ok b H) as [p ->]. cbn [bind].
  set (buf := if zlen p <? 20 then p ++ repeat 0 (Z.to_nat (20 - zlen p)) else p).
  assert (Hb : 20 <= zlen buf).
  { unfold buf. destruct (zlen p <? 20) eqn:E; [|lia]. rewrite zlen_app, zlen_repeat. pose proof (zlen_nonneg p). lia. }
  destruct (new_view_cases 20 buf) as [[-> _]|[_ Hc]]; [|lia]. cbn [bind].
  rewrite !get_u16_ok by lia. cbn [bind]. eauto.
Qed.

Lemma ep_extract_probe_proto_resp4 c b : 20 <= zlen b -> ep (extract_probe_proto_resp4 c b).
Proof.
  intros H. unfold extract_probe_proto_resp4, ipv4_get_protocol.
  rewrite read_ok by lia. cbn [bind].
  destruct (ipv4_get_tos_ok b) as [tos Htos]; [lia|].
  destruct (ipv4_get_destination_ok b H) as [da Hda].
  destruct (rc_proto c).
  - destruct (_ =? 1); [|exact I].
    apply ep_bind; [apply ep_extract_echo_request4; lia|]. intros e He.
    unfold extract_echo_request4 in He. destruct (ipv4_payload_ok b) as [p Hp]; [lia|]. rewrite Hp in He. cbn [bind] in He.
    apply new_view_inv in He. destruct He as [-> He].
    rewrite !get_u16_ok by lia. cbn [bind]. rewrite Htos. exact I.
  - destruct (_ =? 17); [|exact I].
    apply ep_bind; [apply ep_extract_udp_packet4; assumption|]. intros [[[[sp dp] ck] id] plen] _.
    destruct (calc_udp_checksum4_ok c sp dp plen) as [ex ->]. cbn [bind]. rewrite Hda, Htos. exact I.
  - destruct (_ =? 6); [|exact I].
    destruct (extract_tcp_packet4_ok b) as [[sp dp] ->]; [lia|]. cbn [bind].
    rewrite Hda, Htos. exact I.
Qed.

Lemma split_payload_extension4_ok pk : 8 <= zlen pk -> exists x, split_payload_extension4 pk = Ok x.
Proof.
  intros H. unfold split_payload_extension4. rewrite read_ok by lia. cbn [bind].
  rewrite zslice_from_ok by lia. cbn [bind]. apply split_total.
Qed.
Lemma err_payload4_ok pk : 8 <= zlen pk -> exists x, err_payload4 pk = Ok x.
Proof. intros H. unfold err_payload4. destruct (split_payload_extension4_ok pk H) as [x ->]. cbn [bind]. eauto. Qed.
Lemma err_extension4_ok pk : 8 <= zlen pk -> exists x, err_extension4 pk = Ok x.
Proof. intros H. unfold err_extension4. destruct (split_payload_extension4_ok pk H) as [x ->]. cbn [bind]. eauto. Qed.

Lemma ep_extract_probe_resp4 c now b : 20 <= zlen b -> ep (extract_probe_resp4 c now b).
Proof.
  intros H. unfold extract_probe_resp4, ipv4_get_source.
  rewrite zslice_ok by lia. cbn [bind].
  destruct (ipv4_payload_ok b) as [pl ->]; [lia|]. cbn [bind].
  ev Hi. rewrite !read_ok by lia. cbn [bind].
  destruct (_ =? 11).
  { destruct (_ =? 0); [|exact I].
    ev Hpk.
    apply ep_bind.
    - destruct (rc_ext c).
      + destruct (err_payload4_ok pl Hpk) as [p ->]. cbn [bind].
        ev Hn. destruct (err_extension4_ok pl Hpk) as [e0 ->]. cbn [bind].
        apply ep_bind; [apply ep_ext_of|]. intros; exact I.
      + unfold err_payload_raw. rewrite zslice_from_ok by lia. cbn [bind].
        ev Hn. exact I.
    - intros [n e] Hne. cbn [fst snd].
      assert (Hn : 20 <= zlen n).
      { destruct (rc_ext c).
        - destruct (err_payload4 pl) as [p| |]; cbn [bind] in Hne; try discriminate.
          destruct (new_view_cases 20 p) as [[E1 E2] | [E1 _]]; rewrite E1 in Hne; cbn [bind] in Hne; [|discriminate].
          destruct (err_extension4 pl) as [e0| |]; cbn [bind] in Hne; try discriminate.
          destruct (ext_of e0); cbn [bind] in Hne; try discriminate. inversion Hne; subst; assumption.
        - unfold err_payload_raw in Hne. rewrite zslice_from_ok in Hne by lia. cbn [bind] in Hne.
          match type of Hne with context [new_view 20 ?p] => destruct (new_view_cases 20 p) as [[E1 E2] | [E1 _]]; rewrite E1 in Hne end;
            cbn [bind] in Hne; [|discriminate]. inversion Hne; subst; assumption. }
      apply ep_bind; [apply ep_extract_probe_proto_resp4; assumption|]. intros; exact I. }
  destruct (_ =? 3).
  { ev Hpk. destruct (err_payload4_ok pl Hpk) as [p ->]. cbn [bind].
    ev Hn. apply ep_bind.
    - destruct (rc_ext c); [|exact I].
      destruct (err_extension4_ok pl Hpk) as [e0 ->]. cbn [bind]. apply ep_ext_of.
    - intros e _. apply ep_bind; [apply ep_extract_probe_proto_resp4; assumption|]. intros; exact I. }
  destruct (_ =? 0); [|exact I].
  destruct (rc_proto c); try exact I.
  ev Hpk. rewrite !get_u16_ok by lia. exact I.
Qed.

Lemma ep_recv4 c now bytes : ep (recv4 c now bytes).
Proof. unfold recv4. cbn [recv_icmp_probe4]. ev H. apply ep_extract_probe_resp4; assumption. Qed.

(* the datagram as the socket's buffer holds it *)
Lemma recv4_oversized c now bytes : recv4 c now bytes = recv4 c now (ztake MAX_PACKET_SIZE bytes).
Proof.
  unfold recv4. cbn [recv_icmp_probe4]. unfold ztake. rewrite firstn_firstn, Nat.min_id. reflexivity.
Qed.

Lemma recv4_truncated c now bytes : zlen bytes < 20 -> recv4 c now bytes = Err EPacket.
Proof.
  intro H. unfold recv4. cbn [recv_icmp_probe4].
  destruct (new_view_cases 20 (ztake MAX_PACKET_SIZE bytes)) as [[_ Hc]|[-> _]]; [|reflexivity].
  rewrite zlen_ztake in Hc by (unfold MAX_PACKET_SIZE; lia). lia.
Qed.

(* ------------------------------------------------------------------------------------------ *)
(* IPv6                                                                                         *)
(* ------------------------------------------------------------------------------------------ *)
Lemma ep_extract_echo_request6 b : bytes b -> 6 <= zlen b -> ep (extract_echo_request6 b).
Proof.
  intros Hb H. unfold extract_echo_request6. destruct (ipv6_payload_ok b Hb H) as [p ->]. cbn [bind].
  ev He. rewrite !get_u16_ok by lia. exact I.
Qed.
Lemma ep_extract_udp_packet6 b : bytes b -> 6 <= zlen b -> ep (extract_udp_packet6 b).
Proof.
  intros Hb H. unfold extract_udp_packet6. destruct (ipv6_payload_ok b Hb H) as [p ->]. cbn [bind].
  ev He. rewrite !get_u16_ok by lia. exact I.
Qed.
Lemma ep_extract_tcp_packet6 b : bytes b -> 6 <= zlen b -> ep (extract_tcp_packet6 b).
Proof.
  intros Hb H. unfold extract_tcp_packet6. destruct (ipv6_payload_ok b Hb H) as [p ->]. cbn [bind].
  ev He. rewrite !get_u16_ok by lia. exact I.
Qed.
Lemma ep_udp_payload_has_magic_prefix b : bytes b -> 6 <= zlen b -> ep (udp_payload_has_magic_prefix b).
Proof.
  intros Hb H. unfold udp_payload_has_magic_prefix. destruct (ipv6_payload_ok b Hb H) as [p ->]. cbn [bind].
  ev He. rewrite zslice_from_ok by lia. exact I.
Qed.

Lemma ep_extract_probe_proto_resp6 c b : bytes b -> 40 <= zlen b -> ep (extract_probe_proto_resp6 c b).
Proof.
  intros Hb H. unfold extract_probe_proto_resp6, ipv6_get_next_header.
  rewrite read_ok by lia. cbn [bind].
  destruct (ipv6_get_traffic_class_ok b) as [tc Htc]; [lia|].
  destruct (ipv6_get_destination_address_ok b H) as [da Hda].
  destruct (rc_proto c).
  - destruct (_ =? 58); [|exact I].
    apply ep_bind; [apply ep_extract_echo_request6; [assumption | lia]|]. intros [id sq] _.
    rewrite Htc. exact I.
  - destruct (_ =? 17); [|exact I].
    apply ep_bind; [apply ep_extract_udp_packet6; [assumption | lia]|]. intros [[[sp dp] ck] ulen] _.
    apply ep_bind; [apply ep_udp_payload_has_magic_prefix; [assumption | lia]|]. intros prefix _.
    destruct ((6 <=? ulen) && prefix); rewrite Hda, Htc; exact I.
  - destruct (_ =? 6); [|exact I].
    apply ep_bind; [apply ep_extract_tcp_packet6; [assumption | lia]|]. intros [sp dp] _.
    rewrite Hda, Htc. exact I.
Qed.

Lemma split_payload_extension6_ok pk : 8 <= zlen pk -> exists x, split_payload_extension6 pk = Ok x.
Proof.
  intros H. unfold split_payload_extension6. rewrite read_ok by lia. cbn [bind].
  rewrite zslice_from_ok by lia. cbn [bind]. apply split_total.
Qed.
Lemma err_payload6_ok pk : 8 <= zlen pk -> exists x, err_payload6 pk = Ok x.
Proof. intros H. unfold err_payload6. destruct (split_payload_extension6_ok pk H) as [x ->]. cbn [bind]. eauto. Qed.
Lemma err_extension6_ok pk : 8 <= zlen pk -> exists x, err_extension6 pk = Ok x.
Proof. intros H. unfold err_extension6. destruct (split_payload_extension6_ok pk H) as [x ->]. cbn [bind]. eauto. Qed.

Lemma ep_extract_probe_resp6 c now b src : bytes b -> 8 <= zlen b -> ep (extract_probe_resp6 c now b src).
Proof.
  intros Hb H. unfold extract_probe_resp6.
  rewrite !read_ok by lia. cbn [bind].
  destruct (_ =? 3).
  { destruct (_ =? 0); [|exact I].
    ev Hpk.
    apply ep_bind.
    - destruct (rc_ext c).
      + destruct (err_payload6_ok b Hpk) as [p ->]. cbn [bind].
        ev Hn. destruct (err_extension6_ok b Hpk) as [e0 ->]. cbn [bind].
        apply ep_bind; [apply ep_ext_of|]. intros; exact I.
      + unfold err_payload_raw6. rewrite zslice_from_ok by lia. cbn [bind].
        ev Hn. exact I.
    - intros [n e] Hne. cbn [fst snd].
      assert (Hn : 40 <= zlen n /\ bytes n).
      { destruct (rc_ext c).
        - destruct (err_payload6 b) as [p| |] eqn:Ep; cbn [bind] in Hne; try discriminate.
          destruct (new_view_cases 40 p) as [[E1 E2] | [E1 _]]; rewrite E1 in Hne; cbn [bind] in Hne; [|discriminate].
          destruct (err_extension6 b) as [e0| |]; cbn [bind] in Hne; try discriminate.
          destruct (ext_of e0); cbn [bind] in Hne; try discriminate. apply ok_pair_inv in Hne; destruct Hne as [<- _].
          split; [assumption|]. eapply err_payload6_bytes; eauto.
        - unfold err_payload_raw6 in Hne. rewrite zslice_from_ok in Hne by lia. cbn [bind] in Hne.
          match type of Hne with context [new_view 40 ?p] => destruct (new_view_cases 40 p) as [[E1 E2] | [E1 _]]; rewrite E1 in Hne end;
            cbn [bind] in Hne; [|discriminate]. apply ok_pair_inv in Hne; destruct Hne as [<- _]. split; [assumption|]. apply bytes_skipn; assumption. }
      destruct Hn. apply ep_bind; [apply ep_extract_probe_proto_resp6; assumption|]. intros; exact I. }
  destruct (_ =? 1).
  { ev Hpk. destruct (err_payload6_ok b Hpk) as [p Hp]. rewrite Hp. cbn [bind].
    ev Hn. apply ep_bind.
    - destruct (rc_ext c); [|exact I].
      destruct (err_extension6_ok b Hpk) as [e0 ->]. cbn [bind]. apply ep_ext_of.
    - intros e _. apply ep_bind; [apply ep_extract_probe_proto_resp6; [eapply err_payload6_bytes; eauto | assumption]|]. intros; exact I. }
  destruct (_ =? 129); [|exact I].
  destruct (rc_proto c); try exact I.
  ev Hpk. rewrite !get_u16_ok by lia. exact I.
Qed.

(* with a sender address: a value or EPacket; without one: EPacket (too short) or EMissingAddr *)
Lemma recv6_outcomes c now from b : bytes b -> from_v6 from ->
  match from with
  | Some _ => ep (recv6 c now from b)
  | None => recv6 c now from b = Err (if zlen (ztake MAX_PACKET_SIZE b) <? 8 then EPacket else EMissingAddr)
  end.
Proof.
  intros Hb Hf. unfold recv6. cbn [recv_icmp_probe6]. destruct from as [a|].
  - ev H. cbn in Hf. rewrite Hf. apply ep_extract_probe_resp6; [apply bytes_firstn; assumption|assumption].
  - destruct (new_view_cases 8 (ztake MAX_PACKET_SIZE b)) as [[-> Hc]|[-> Hc]]; cbn [bind].
    + destruct (Z.ltb_spec (zlen (ztake MAX_PACKET_SIZE b)) 8); [lia|reflexivity].
    + destruct (Z.ltb_spec (zlen (ztake MAX_PACKET_SIZE b)) 8); [reflexivity|lia].
Qed.

Lemma recv6_oversized c now from b : recv6 c now from b = recv6 c now from (ztake MAX_PACKET_SIZE b).
Proof.
  unfold recv6. cbn [recv_icmp_probe6]. unfold ztake. rewrite firstn_firstn, Nat.min_id. reflexivity.
Qed.

Lemma recv6_truncated c now from b : zlen b < 8 -> recv6 c now from b = Err EPacket.
Proof.
  intro H. unfold recv6. cbn [recv_icmp_probe6].
  destruct (new_view_cases 8 (ztake MAX_PACKET_SIZE b)) as [[_ Hc]|[-> _]]; [|reflexivity].
  rewrite zlen_ztake in Hc by (unfold MAX_PACKET_SIZE; lia). lia.
Qed.

(* ------------------------------------------------------------------------------------------ *)
(* Network::recv_probe: the complete list of error values                                       *)
(* ------------------------------------------------------------------------------------------ *)
Definition recv_error_ok (e : error) : Prop := e = EPacket \/ e = EMissingAddr \/ exists k, e = EIo k.
Definition recv_outcome {A} (r : result A) : Prop :=
  match r with Ok _ => True | Err e => recv_error_ok e | Fault _ => False end.

Lemma ep_recv_outcome {A} (r : result A) : ep r -> recv_outcome r.
Proof. destruct r; cbn; intro H; [exact I|left; exact H|contradiction]. Qed.

Lemma recv_icmp_probe_outcome c now rd : readable_ok rd -> recv_outcome (recv_icmp_probe c now rd).
Proof.
  destruct rd as [|r|k]; cbn [recv_icmp_probe]; intro H; [exact I| |right; right; eauto].
  destruct (is_v6 (rc_dest c)).
  - destruct r as [b from| |k]; cbn [recv_icmp_probe6]; [|exact I|right; right; eauto].
    destruct H as [Hb Hf]. pose proof (recv6_outcomes c now from b Hb Hf) as Ho. unfold recv6 in Ho. cbn [recv_icmp_probe6] in Ho.
    destruct from as [a|]; [apply ep_recv_outcome, Ho|]. rewrite Ho. cbn. destruct (_ <? 8); [left|right; left]; reflexivity.
  - destruct r as [b from| |k]; [|exact I|right; right; eauto].
    apply ep_recv_outcome. apply (ep_recv4 c now b).
Qed.

Lemma recv_probe_outcome c now found rd : readable_ok rd -> recv_outcome (recv_probe c now found rd).
Proof.
  intro H. unfold recv_probe. destruct (rc_proto c); try (apply recv_icmp_probe_outcome; exact H).
  destruct found as [[[o sp] dp]|]; cbn [recv_tcp_sockets bind]; [|apply recv_icmp_probe_outcome; exact H].
  destruct o as [[a|]| |[a|]| |k]; cbn [recv_tcp_socket bind]; try exact I; try (apply recv_icmp_probe_outcome; exact H).
  - right; left; reflexivity.
  - right; right; eauto.
  - right; right; eauto.
Qed.

(* ------------------------------------------------------------------------------------------ *)
(* every accessor of the receive path is inside the bounds given the size check that precedes it *)
(* ------------------------------------------------------------------------------------------ *)
Definition okv {A} (r : result A) : Prop := exists x, r = Ok x.

(* Ipv4Packet::new_view (20 octets): the outer header and the quoted header alike, for every IHL *)
Lemma ipv4_view_accessors_ok b : 20 <= zlen b ->
  okv (ipv4_get_header_length b) /\ okv (ipv4_options_length b) /\ okv (ipv4_payload b) /\ okv (ipv4_get_tos b) /\
  okv (ipv4_get_protocol b) /\ okv (ipv4_get_identification b) /\ okv (ipv4_get_source b) /\ okv (ipv4_get_destination b).
Proof.
  intro H. unfold okv, ipv4_options_length, ipv4_get_header_length, ipv4_get_protocol, ipv4_get_identification, ipv4_get_source.
  rewrite !read_ok, get_u16_ok, zslice_ok by lia. cbn [bind].
  repeat split; eauto.
  - apply ipv4_payload_ok; lia.
  - apply ipv4_get_tos_ok; lia.
  - apply ipv4_get_destination_ok; lia.
Qed.

(* IcmpPacket / TimeExceededPacket / DestinationUnreachablePacket / EchoReplyPacket ::new_view (8 octets) *)
Lemma icmp_view_accessors_ok pk : 8 <= zlen pk ->
  okv (read 0 pk) /\ okv (read 1 pk) /\ okv (get_u16 4 pk) /\ okv (get_u16 6 pk) /\
  okv (err_payload_raw pk) /\ okv (err_payload_raw6 pk) /\
  okv (err_payload4 pk) /\ okv (err_extension4 pk) /\ okv (err_payload6 pk) /\ okv (err_extension6 pk).
Proof.
  intro H. unfold okv, err_payload_raw, err_payload_raw6.
  rewrite !read_ok, !get_u16_ok, !zslice_from_ok by lia.
  repeat split; eauto.
  - apply err_payload4_ok; exact H.
  - apply err_extension4_ok; exact H.
  - apply err_payload6_ok; exact H.
  - apply err_extension6_ok; exact H.
Qed.

(* Ipv6Packet::new_view (40 octets), the quoted IPv6 header *)
Lemma ipv6_view_accessors_ok b : bytes b -> 40 <= zlen b ->
  okv (ipv6_get_payload_length b) /\ okv (ipv6_get_next_header b) /\ okv (ipv6_get_traffic_class b) /\
  okv (ipv6_get_destination_address b) /\ okv (ipv6_payload b).
Proof.
  intros Hb H. unfold okv, ipv6_get_payload_length, ipv6_get_next_header.
  rewrite read_ok, get_u16_ok by lia.
  repeat split; eauto.
  - apply ipv6_get_traffic_class_ok; lia.
  - apply ipv6_get_destination_address_ok; lia.
  - apply ipv6_payload_ok; [exact Hb|lia].
Qed.

(* UdpPacket::new_view (8 octets) / TcpPacket::new_view (20 octets) / EchoRequestPacket::new_view (8 octets) *)
Lemma transport_view_accessors_ok u : 8 <= zlen u ->
  okv (get_u16 0 u) /\ okv (get_u16 2 u) /\ okv (get_u16 4 u) /\ okv (get_u16 6 u) /\ okv (zslice_from 8 u).
Proof.
  intro H. unfold okv. rewrite !get_u16_ok, zslice_from_ok by lia. repeat split; eauto.
Qed.

(* ExtensionsPacket / ExtensionHeaderPacket::new_view (4 octets): header() and the version nibble *)
Lemma extension_view_accessors_ok v : 4 <= zlen v ->
  okv (zslice 0 4 v) /\ okv (read 0 v) /\ (exists obs, objects (S (length v)) v 4 = Ok obs /\ Forall obj_bounded obs).
Proof.
  intro H. unfold okv. rewrite zslice_ok, read_ok by lia. repeat split; eauto.
  apply objects_spec; [lia|unfold zlen; lia].
Qed.

(* ExtensionObjectPacket on an object the iterator yields: length, class, subtype, payload(), and the conversion *)
Lemma object_view_accessors_ok ob : obj_bounded ob ->
  okv (get_u16 0 ob) /\ okv (read 2 ob) /\ okv (read 3 ob) /\
  okv (zslice 4 (nth 0 ob 0 * 256 + nth 1 ob 0) ob) /\ ep (object_enc ob).
Proof.
  intros [H4 Hl]. unfold okv. rewrite get_u16_ok, !read_ok, zslice_ok by lia. repeat split; eauto.
  apply ep_object_enc. split; assumption.
Qed.

(* ------------------------------------------------------------------------------------------ *)
(* the array of pending TCP probe sockets over a whole history                                  *)
(* ------------------------------------------------------------------------------------------ *)
Inductive tcp_op :=
| OpDispatch (e : tcp_entry)                   (* dispatch_tcp_probe pushed a socket *)
| OpSettle (f : tcp_entry -> tcp_entry)        (* the kernel changes what is known about the sockets *)
| OpPoll (c : rcfg) (now timeout : Z).         (* recv_probe polls the array *)

Definition tcp_step (l : list tcp_entry) (op : tcp_op) : list tcp_entry * result (option response) :=
  match op with
  | OpDispatch e =>
    match tcp_push l e with
    | Ok l' => (l', Ok None)
    | Err x => (l, Err x)
    | Fault f => (l, Fault f)
    end
  | OpSettle f => (map f l, Ok None)
  | OpPoll c now timeout => recv_tcp_sockets_list c now timeout l
  end.

(* the array after a history, and everything that was returned on the way *)
Fixpoint tcp_run (l : list tcp_entry) (ops : list tcp_op) : list tcp_entry * list (result (option response)) :=
  match ops with
  | [] => (l, [])
  | op :: t => let '(l1, r) := tcp_step l op in let '(l2, rs) := tcp_run l1 t in (l2, r :: rs)
  end.

Definition tcp_result_ok (r : result (option response)) : Prop :=
  match r with
  | Ok _ => True
  | Err e => e = EInsufficientCapacity \/ e = EMissingAddr \/ exists k, e = EIo k
  | Fault _ => False
  end.

Lemma tcp_step_inv l op : (length l <= MAX_TCP_PROBES)%nat ->
  (length (fst (tcp_step l op)) <= MAX_TCP_PROBES)%nat /\ tcp_result_ok (snd (tcp_step l op)).
Proof.
  intro H. destruct op as [e|f|c now timeout]; cbn [tcp_step].
  - pose proof (tcp_push_spec l e H) as Hp. destruct (tcp_push l e) as [l'|x|f]; cbn [fst snd].
    + destruct Hp as [_ Hp]. split; [exact Hp|exact I].
    + destruct Hp as [-> _]. split; [exact H|left; reflexivity].
    + contradiction.
  - cbn [fst snd]. rewrite map_length. split; [exact H|exact I].
  - pose proof (recv_tcp_sockets_list_length c now timeout l) as Hl. split; [lia|].
    unfold recv_tcp_sockets_list. destruct (take_first_ready _) as [[e rest]|]; cbn [snd]; [|exact I].
    destruct (te_state e) as [|o]; [exact I|].
    destruct o as [[a|]| |[a|]| |k]; cbn [recv_tcp_socket]; try exact I.
    + right; left; reflexivity.
    + right; right; eauto.
    + right; right; eauto.
Qed.

Lemma tcp_run_inv ops : forall l, (length l <= MAX_TCP_PROBES)%nat ->
  (length (fst (tcp_run l ops)) <= MAX_TCP_PROBES)%nat /\ Forall tcp_result_ok (snd (tcp_run l ops)).
Proof.
  induction ops as [|op t IH]; intros l H; [split; [exact H|constructor]|].
  cbn [tcp_run]. destruct (tcp_step_inv l op H) as [H1 H2].
  destruct (tcp_step l op) as [l1 r]. cbn [fst snd] in H1, H2.
  destruct (IH l1 H1) as [H3 H4]. destruct (tcp_run l1 t) as [l2 rs]. cbn [fst snd] in *.
  split; [exact H3|constructor; assumption].
Qed.

(* once the array is full, dispatching is refused with an error value until a poll removes an entry *)
Lemma tcp_dispatch_full l e : length l = MAX_TCP_PROBES -> tcp_step l (OpDispatch e) = (l, Err EInsufficientCapacity).
Proof.
  intro H. cbn [tcp_step]. unfold tcp_push. rewrite H, Nat.leb_refl. reflexivity.
Qed.
