(* Lemmas about the receive path (Net/RecvCommon.v, Recv4.v, Recv6.v, Recv.v):
   part 1 - no input makes the receive path fault (C04, receive half). *)
From Coq Require Import ZifyBool.
From TV Require Import Base.Result Base.Bytes Core.Types Packet.Checksum Proofs.ChecksumProofs.
From TV Require Import Net.RecvCommon Net.Recv4 Net.Recv6 Net.Recv.

Ltac Zify.zify_post_hook ::= Z.div_mod_to_equations.

(* ---- "not a fault" *)
Definition nf {A} (r : result A) : Prop := is_fault r = false.

Lemma nf_ok {A} (a : A) : nf (Ok a). Proof. reflexivity. Qed.
Lemma nf_err {A} (e : error) : nf (@Err A e). Proof. reflexivity. Qed.
Lemma nf_bind {A B} (r : result A) (k : A -> result B) :
  nf r -> (forall a, r = Ok a -> nf (k a)) -> nf (bind r k).
Proof. destruct r; cbn; intros H K; [apply K; reflexivity | reflexivity | discriminate]. Qed.
Lemma nf_not_fault {A} (r : result A) : nf r <-> forall f, r <> Fault f.
Proof. unfold nf; destruct r; cbn; split; intros; try congruence; try reflexivity. exfalso; eapply H; reflexivity. Qed.

(* ---- zlen *)
Lemma zlen_nonneg {A} (l : list A) : 0 <= zlen l. Proof. unfold zlen; lia. Qed.
Lemma zlen_nil {A} : zlen (@nil A) = 0. Proof. reflexivity. Qed.
Lemma zlen_cons {A} (x : A) l : zlen (x :: l) = 1 + zlen l. Proof. unfold zlen; cbn [length]; lia. Qed.
Lemma zlen_app {A} (a b : list A) : zlen (a ++ b) = zlen a + zlen b. Proof. unfold zlen; rewrite app_length; lia. Qed.
Lemma zlen_repeat {A} (x : A) n : zlen (repeat x n) = Z.of_nat n. Proof. unfold zlen; rewrite repeat_length; reflexivity. Qed.
Lemma zlen_skipn {A} (l : list A) a : 0 <= a <= zlen l -> zlen (skipn (Z.to_nat a) l) = zlen l - a.
Proof. unfold zlen; intros; rewrite skipn_length; lia. Qed.
Lemma zlen_firstn {A} (l : list A) n : 0 <= n -> zlen (firstn (Z.to_nat n) l) = Z.min n (zlen l).
Proof. unfold zlen; intros; rewrite firstn_length; lia. Qed.
Lemma zlen_ztake l n : 0 <= n -> zlen (ztake n l) = Z.min n (zlen l).
Proof. apply zlen_firstn. Qed.
Lemma zlen_put_word k d v : zlen (put_word k v d) = zlen d.
Proof. unfold zlen; rewrite put_word_length; reflexivity. Qed.

(* ---- checked access succeeds inside the bounds *)
Lemma zindex_ok i l : 0 <= i < zlen l -> zindex i l = Ok (nth (Z.to_nat i) l 0).
Proof. intros H; unfold zindex. replace ((0 <=? i) && (i <? zlen l)) with true by lia. reflexivity. Qed.
Lemma read_ok i l : 0 <= i < zlen l -> read i l = Ok (nth (Z.to_nat i) l 0).
Proof. apply zindex_ok. Qed.
Lemma get_u16_ok i l : 0 <= i -> i + 1 < zlen l ->
  get_u16 i l = Ok (nth (Z.to_nat i) l 0 * 256 + nth (Z.to_nat (i + 1)) l 0).
Proof. intros; unfold get_u16. rewrite !read_ok by lia. reflexivity. Qed.
Lemma zslice_from_ok a l : 0 <= a <= zlen l -> zslice_from a l = Ok (skipn (Z.to_nat a) l).
Proof. intros H; unfold zslice_from. replace ((0 <=? a) && (a <=? zlen l)) with true by lia. reflexivity. Qed.
Lemma zslice_ok a b l : 0 <= a <= b -> b <= zlen l ->
  zslice a b l = Ok (firstn (Z.to_nat (b - a)) (skipn (Z.to_nat a) l)).
Proof. intros H1 H2; unfold zslice. replace ((0 <=? a) && (a <=? b) && (b <=? zlen l)) with true by lia. reflexivity. Qed.
Lemma zlen_zslice {A} a b (l : list A) : 0 <= a <= b -> b <= zlen l ->
  zlen (firstn (Z.to_nat (b - a)) (skipn (Z.to_nat a) l)) = b - a.
Proof. intros; rewrite zlen_firstn, zlen_skipn by lia. lia. Qed.

Lemma new_view_cases n b : (new_view n b = Ok b /\ n <= zlen b) \/ (new_view n b = Err EPacket /\ zlen b < n).
Proof. unfold new_view. destruct (n <=? zlen b) eqn:E; [left | right]; split; auto; lia. Qed.
Lemma new_view_inv n b x : new_view n b = Ok x -> x = b /\ n <= zlen b.
Proof. destruct (new_view_cases n b) as [[-> H] | [-> H]]; intros E; inversion E; subst; auto. Qed.
Lemma nf_new_view n b : nf (new_view n b).
Proof. destruct (new_view_cases n b) as [[-> _] | [-> _]]; reflexivity. Qed.

(* ---- extension_splitter::split *)
Lemma nf_split len p : nf (split len p).
Proof.
  unfold split.
  destruct (zlen p <? len) eqn:E1; [reflexivity|].
  destruct (128 <? zlen p) eqn:E2; [|reflexivity].
  pose proof (zlen_nonneg p).
  destruct (128 <? len) eqn:E3.
  - rewrite zslice_ok, zslice_from_ok by lia. cbn [bind].
    destruct (4 <=? _); reflexivity.
  - destruct (0 <? len) eqn:E4.
    + rewrite zslice_ok, zslice_from_ok by lia. cbn [bind].
      destruct (4 <=? _); [|reflexivity].
      rewrite zslice_ok; [reflexivity | lia |].
      rewrite zlen_zslice by lia. lia.
    + rewrite zslice_ok, zslice_from_ok by lia. cbn [bind].
      destruct (4 <=? _); reflexivity.
Qed.

(* ---- the object iterator: the fuel given by the caller suffices, and every object it yields is bounded *)
Definition obj_bounded (ob : list Z) : Prop :=
  4 <= zlen ob /\ 4 <= nth 0 ob 0 * 256 + nth 1 ob 0 <= zlen ob.

Lemma objects_spec b : forall f off, 0 <= off -> Z.max 0 (zlen b - off) < Z.of_nat f ->
  exists obs, objects f b off = Ok obs /\ Forall obj_bounded obs.
Proof.
  induction f as [|f IH]; intros off H0 Hf; [lia|].
  cbn [objects].
  destruct (zlen b <? off) eqn:E1; [exists []; split; auto|].
  rewrite zslice_from_ok by lia. cbn [bind].
  set (ob := skipn (Z.to_nat off) b).
  assert (Hob : zlen ob = zlen b - off) by (apply zlen_skipn; lia).
  destruct (zlen ob <? 4) eqn:E2; [exists []; split; auto|].
  rewrite get_u16_ok by lia. cbn [bind]. change (Z.to_nat 0) with 0%nat. change (Z.to_nat (0 + 1)) with 1%nat.
  set (len := nth 0 ob 0 * 256 + nth 1 ob 0).
  destruct ((len <? 4) || (zlen ob <? len)) eqn:E3; [exists []; split; auto|].
  destruct (IH (off + len)) as [rest [-> Hrest]]; [lia | lia |].
  cbn [bind]. exists (ob :: rest); split; [reflexivity|].
  constructor; [|assumption]. unfold obj_bounded. fold len. lia.
Qed.

Lemma member_enc_ok m : 4 <= zlen m -> exists e, member_enc m = Ok e.
Proof. intros H; unfold member_enc. rewrite !read_ok by lia. cbn [bind]. eauto. Qed.

Lemma mpls_members_ok b : forall f off bos, 0 <= off -> Z.max 0 (zlen b - off) < Z.of_nat f ->
  exists ms, mpls_members f b off bos = Ok ms.
Proof.
  induction f as [|f IH]; intros off bos H0 Hf; [lia|].
  cbn [mpls_members].
  destruct ((0 <? bos) || (zlen b <=? off)) eqn:E1; [eauto|].
  rewrite zslice_from_ok by lia. cbn [bind].
  set (mb := skipn (Z.to_nat off) b).
  assert (Hmb : zlen mb = zlen b - off) by (apply zlen_skipn; lia).
  destruct (zlen mb <? 4) eqn:E2; [eauto|].
  rewrite read_ok by lia. cbn [bind].
  destruct (member_enc_ok mb) as [e ->]; [lia|]. cbn [bind].
  destruct (IH (off + 4) (nth (Z.to_nat 2) mb 0 mod 2)) as [rest ->]; [lia | lia |].
  cbn [bind]. eauto.
Qed.

Lemma nf_object_enc ob : obj_bounded ob -> nf (object_enc ob).
Proof.
  intros [H4 Hl]. unfold object_enc.
  rewrite get_u16_ok by lia. cbn [bind]. change (Z.to_nat 0) with 0%nat. change (Z.to_nat (0 + 1)) with 1%nat.
  rewrite !read_ok by lia. cbn [bind].
  rewrite zslice_ok by lia. cbn [bind].
  destruct (_ =? 1).
  - apply nf_bind; [apply nf_new_view|]. intros st Hst. apply new_view_inv in Hst. destruct Hst as [-> _].
    match goal with |- nf (bind (mpls_members ?f ?b ?o ?s) _) => destruct (mpls_members_ok b f o s) as [ms ->] end;
      [lia | unfold zlen; lia |]. reflexivity.
  - reflexivity.
Qed.

Lemma nf_objects_enc obs : Forall obj_bounded obs -> nf (objects_enc obs).
Proof.
  induction 1 as [|ob obs Hb _ IH]; [reflexivity|].
  cbn [objects_enc]. apply nf_bind; [apply nf_object_enc; assumption|]. intros e _.
  apply nf_bind; [assumption|]. reflexivity.
Qed.

Lemma nf_extensions_try_from v : nf (extensions_try_from v).
Proof.
  unfold extensions_try_from.
  apply nf_bind; [apply nf_new_view|]. intros pk Hpk. apply new_view_inv in Hpk. destruct Hpk as [-> Hlen].
  rewrite zslice_ok by lia. cbn [bind].
  apply nf_bind; [apply nf_new_view|]. intros h Hh. apply new_view_inv in Hh. destruct Hh as [-> Hh].
  rewrite read_ok by lia. cbn [bind].
  destruct (negb _); [reflexivity|].
  destruct (objects_spec v (S (length v)) 4) as [obs [-> Hobs]]; [lia | unfold zlen; lia |].
  cbn [bind]. apply nf_objects_enc; assumption.
Qed.

Lemma nf_ext_of e : nf (ext_of e).
Proof.
  destruct e as [x|]; [|reflexivity]. cbn [ext_of].
  apply nf_bind; [apply nf_extensions_try_from|]. reflexivity.
Qed.

Lemma nf_recv_tcp_socket c now o sp dp : nf (recv_tcp_socket c now o sp dp).
Proof. destruct o as [[a|] | | [a|] | | k]; reflexivity. Qed.

(* ---- IPv4 *)
Lemma ipv4_payload_ok b : 1 <= zlen b -> exists p, ipv4_payload b = Ok p.
Proof.
  intros H. unfold ipv4_payload, ipv4_options_length, ipv4_get_header_length.
  rewrite read_ok by lia. cbn [bind].
  destruct (zlen b <=? _) eqn:E; [eauto|].
  rewrite zslice_from_ok by lia. eauto.
Qed.

Lemma nf_extract_echo_request4 b : 1 <= zlen b -> nf (extract_echo_request4 b).
Proof.
  intros H. unfold extract_echo_request4. destruct (ipv4_payload_ok b H) as [p ->]. cbn [bind]. apply nf_new_view.
Qed.

Lemma nf_extract_udp_packet4 b : 20 <= zlen b -> nf (extract_udp_packet4 b).
Proof.
  intros H. unfold extract_udp_packet4, ipv4_get_identification.
  destruct (ipv4_payload_ok b) as [p ->]; [lia|]. cbn [bind].
  apply nf_bind; [apply nf_new_view|]. intros n Hn. apply new_view_inv in Hn. destruct Hn as [-> Hn].
  rewrite !get_u16_ok by lia. reflexivity.
Qed.

Lemma nf_extract_tcp_packet4 b : 1 <= zlen b -> nf (extract_tcp_packet4 b).
Proof.
  intros H. unfold extract_tcp_packet4.
  destruct (ipv4_payload_ok b H) as [p ->]. cbn [bind].
  apply nf_bind; [apply nf_new_view|]. intros t Ht. apply new_view_inv in Ht. destruct Ht as [-> Ht].
  rewrite !get_u16_ok by lia. reflexivity.
Qed.

Lemma calc_udp_checksum4_ok c sp dp n : exists v, calc_udp_checksum4 c sp dp n = Ok v.
Proof.
  unfold calc_udp_checksum4, make_udp_packet4.
  rewrite zlen_repeat.
  destruct (1004 <? _) eqn:E; [lia|]. cbn [bind].
  rewrite get_u16_ok; [eauto | lia |].
  rewrite zlen_put_word. unfold be_bytes. rewrite !zlen_app, !zlen_cons, zlen_nil, zlen_repeat. lia.
Qed.

Lemma ipv4_get_tos_ok b : 2 <= zlen b -> exists v, ipv4_get_tos b = Ok v.
Proof. intros; unfold ipv4_get_tos. rewrite read_ok by lia. cbn [bind]. eauto. Qed.
Lemma ipv4_get_destination_ok b : 20 <= zlen b -> exists v, ipv4_get_destination b = Ok v.
Proof. intros; unfold ipv4_get_destination. rewrite zslice_ok by lia. eauto. Qed.

Lemma nf_extract_probe_proto_resp4 c b : 20 <= zlen b -> nf (extract_probe_proto_resp4 c b).
Proof.
  intros H. unfold extract_probe_proto_resp4, ipv4_get_protocol.
  rewrite read_ok by lia. cbn [bind].
  destruct (ipv4_get_tos_ok b) as [tos Htos]; [lia|].
  destruct (ipv4_get_destination_ok b H) as [da Hda].
  destruct (rc_proto c).
  - destruct (_ =? 1); [|reflexivity].
    apply nf_bind; [apply nf_extract_echo_request4; lia|]. intros e He.
    unfold extract_echo_request4 in He. destruct (ipv4_payload_ok b) as [p Hp]; [lia|]. rewrite Hp in He. cbn [bind] in He.
    apply new_view_inv in He. destruct He as [-> He].
    rewrite !get_u16_ok by lia. cbn [bind]. rewrite Htos. reflexivity.
  - destruct (_ =? 17); [|reflexivity].
    apply nf_bind; [apply nf_extract_udp_packet4; assumption|]. intros [[[[sp dp] ck] id] plen] _.
    destruct (calc_udp_checksum4_ok c sp dp plen) as [ex ->]. cbn [bind]. rewrite Hda, Htos. reflexivity.
  - destruct (_ =? 6); [|reflexivity].
    apply nf_bind; [apply nf_extract_tcp_packet4; lia|]. intros [sp dp] _.
    rewrite Hda, Htos. reflexivity.
Qed.

Lemma nf_split_payload_extension4 pk : 8 <= zlen pk -> nf (split_payload_extension4 pk).
Proof.
  intros H. unfold split_payload_extension4. rewrite read_ok by lia. cbn [bind].
  rewrite zslice_from_ok by lia. cbn [bind]. apply nf_split.
Qed.
Lemma nf_err_payload4 pk : 8 <= zlen pk -> nf (err_payload4 pk).
Proof. intros; unfold err_payload4. apply nf_bind; [apply nf_split_payload_extension4; assumption | reflexivity]. Qed.
Lemma nf_err_extension4 pk : 8 <= zlen pk -> nf (err_extension4 pk).
Proof. intros; unfold err_extension4. apply nf_bind; [apply nf_split_payload_extension4; assumption | reflexivity]. Qed.

Ltac nv H := apply nf_bind; [apply nf_new_view|]; let x := fresh "x" in intros x H; apply new_view_inv in H; destruct H as [-> H].

Lemma nf_extract_probe_resp4 c now b : 20 <= zlen b -> nf (extract_probe_resp4 c now b).
Proof.
  intros H. unfold extract_probe_resp4, ipv4_get_source.
  rewrite zslice_ok by lia. cbn [bind].
  destruct (ipv4_payload_ok b) as [pl ->]; [lia|]. cbn [bind].
  nv Hi. rewrite !read_ok by lia. cbn [bind].
  destruct (_ =? 11).
  { destruct (_ =? 0); [|reflexivity].
    nv Hpk.
    apply nf_bind.
    - destruct (rc_ext c).
      + apply nf_bind; [apply nf_err_payload4; assumption|]. intros p _.
        nv Hn. apply nf_bind; [apply nf_err_extension4; assumption|]. intros e0 _.
        apply nf_bind; [apply nf_ext_of|]. reflexivity.
      + unfold err_payload_raw. rewrite zslice_from_ok by lia. cbn [bind].
        nv Hn. reflexivity.
    - intros [n e] Hne. cbn [fst snd].
      assert (Hn : 20 <= zlen n).
      { destruct (rc_ext c).
        - destruct (err_payload4 pl) as [p| |]; cbn [bind] in Hne; try discriminate.
          destruct (new_view_cases 20 p) as [[E1 E2] | [E1 _]]; rewrite E1 in Hne; cbn [bind] in Hne; [|discriminate].
          destruct (err_extension4 pl) as [e0| |]; cbn [bind] in Hne; try discriminate.
          destruct (ext_of e0); cbn [bind] in Hne; try discriminate. inversion Hne; subst; assumption.
        - unfold err_payload_raw in Hne. rewrite zslice_from_ok in Hne by lia. cbn [bind] in Hne.
          match type of Hne with context [new_view 20 ?p] => destruct (new_view_cases 20 p) as [[E1 E2] | [E1 _]]; rewrite E1 in Hne end;
            cbn [bind] in Hne; [|discriminate]. inversion Hne; subst; assumption. }
      apply nf_bind; [apply nf_extract_probe_proto_resp4; assumption|]. reflexivity. }
  destruct (_ =? 3).
  { nv Hpk. apply nf_bind; [apply nf_err_payload4; assumption|]. intros p _.
    nv Hn. apply nf_bind.
    - destruct (rc_ext c); [|reflexivity].
      apply nf_bind; [apply nf_err_extension4; assumption|]. intros e0 _. apply nf_ext_of.
    - intros e _. apply nf_bind; [apply nf_extract_probe_proto_resp4; assumption|]. reflexivity. }
  destruct (_ =? 0); [|reflexivity].
  destruct (rc_proto c); try reflexivity.
  nv Hpk. rewrite !get_u16_ok by lia. reflexivity.
Qed.

Lemma zlen_ztake_le n l : 0 <= n -> zlen (ztake n l) <= n.
Proof. intros; rewrite zlen_ztake by assumption. lia. Qed.

Lemma recv_icmp_probe4_total c now r : nf (recv_icmp_probe4 c now r).
Proof.
  destruct r as [bytes from | | k]; try reflexivity. cbn [recv_icmp_probe4].
  nv H. apply nf_extract_probe_resp4; assumption.
Qed.

(* C04, receive half, IPv4: whatever arrives on the raw socket, in every configuration *)
Lemma recv4_total c now bytes : forall f, recv4 c now bytes <> Fault f.
Proof. apply nf_not_fault. apply recv_icmp_probe4_total. Qed.

(* ---- IPv6 *)
Lemma ipv6_payload_ok b : bytes b -> 6 <= zlen b -> exists p, ipv6_payload b = Ok p.
Proof.
  intros Hb H. unfold ipv6_payload, ipv6_get_payload_length.
  rewrite get_u16_ok by lia. cbn [bind].
  destruct (zlen b <=? 40) eqn:E; [eauto|].
  pose proof (bytes_nth b (Z.to_nat 4) Hb). pose proof (bytes_nth b (Z.to_nat (4 + 1)) Hb).
  rewrite zslice_ok by lia. eauto.
Qed.

Lemma nf_extract_echo_request6 b : bytes b -> 6 <= zlen b -> nf (extract_echo_request6 b).
Proof.
  intros Hb H. unfold extract_echo_request6. destruct (ipv6_payload_ok b Hb H) as [p ->]. cbn [bind].
  nv He. rewrite !get_u16_ok by lia. reflexivity.
Qed.

Lemma nf_extract_udp_packet6 b : bytes b -> 6 <= zlen b -> nf (extract_udp_packet6 b).
Proof.
  intros Hb H. unfold extract_udp_packet6. destruct (ipv6_payload_ok b Hb H) as [p ->]. cbn [bind].
  nv He. rewrite !get_u16_ok by lia. reflexivity.
Qed.

Lemma nf_extract_tcp_packet6 b : bytes b -> 6 <= zlen b -> nf (extract_tcp_packet6 b).
Proof.
  intros Hb H. unfold extract_tcp_packet6. destruct (ipv6_payload_ok b Hb H) as [p ->]. cbn [bind].
  nv He. rewrite !get_u16_ok by lia. reflexivity.
Qed.

Lemma nf_udp_payload_has_magic_prefix b : bytes b -> 6 <= zlen b -> nf (udp_payload_has_magic_prefix b).
Proof.
  intros Hb H. unfold udp_payload_has_magic_prefix. destruct (ipv6_payload_ok b Hb H) as [p ->]. cbn [bind].
  nv He. rewrite zslice_from_ok by lia. reflexivity.
Qed.

Lemma ipv6_get_traffic_class_ok b : 2 <= zlen b -> exists v, ipv6_get_traffic_class b = Ok v.
Proof. intros; unfold ipv6_get_traffic_class. rewrite !read_ok by lia. cbn [bind]. eauto. Qed.
Lemma ipv6_get_destination_address_ok b : 40 <= zlen b -> exists v, ipv6_get_destination_address b = Ok v.
Proof. intros; unfold ipv6_get_destination_address. rewrite zslice_ok by lia. eauto. Qed.

Lemma nf_extract_probe_proto_resp6 c b : bytes b -> 40 <= zlen b -> nf (extract_probe_proto_resp6 c b).
Proof.
  intros Hb H. unfold extract_probe_proto_resp6, ipv6_get_next_header.
  rewrite read_ok by lia. cbn [bind].
  destruct (ipv6_get_traffic_class_ok b) as [tc Htc]; [lia|].
  destruct (ipv6_get_destination_address_ok b H) as [da Hda].
  destruct (rc_proto c).
  - destruct (_ =? 58); [|reflexivity].
    apply nf_bind; [apply nf_extract_echo_request6; [assumption | lia]|]. intros [id sq] _.
    rewrite Htc. reflexivity.
  - destruct (_ =? 17); [|reflexivity].
    apply nf_bind; [apply nf_extract_udp_packet6; [assumption | lia]|]. intros [[[sp dp] ck] ulen] _.
    apply nf_bind; [apply nf_udp_payload_has_magic_prefix; [assumption | lia]|]. intros prefix _.
    destruct ((6 <=? ulen) && prefix); rewrite Hda, Htc; reflexivity.
  - destruct (_ =? 6); [|reflexivity].
    apply nf_bind; [apply nf_extract_tcp_packet6; [assumption | lia]|]. intros [sp dp] _.
    rewrite Hda, Htc. reflexivity.
Qed.

Lemma nf_split_payload_extension6 pk : 8 <= zlen pk -> nf (split_payload_extension6 pk).
Proof.
  intros H. unfold split_payload_extension6. rewrite read_ok by lia. cbn [bind].
  rewrite zslice_from_ok by lia. cbn [bind]. apply nf_split.
Qed.
Lemma nf_err_payload6 pk : 8 <= zlen pk -> nf (err_payload6 pk).
Proof. intros; unfold err_payload6. apply nf_bind; [apply nf_split_payload_extension6; assumption | reflexivity]. Qed.
Lemma nf_err_extension6 pk : 8 <= zlen pk -> nf (err_extension6 pk).
Proof. intros; unfold err_extension6. apply nf_bind; [apply nf_split_payload_extension6; assumption | reflexivity]. Qed.

(* what split returns is made of octets of its argument *)
Lemma ok_pair_inv {A B} (a a' : A) (e e' : B) : @Ok (A * B) (a, e) = Ok (a', e') -> a = a' /\ e = e'.
Proof. intros H; injection H; auto. Qed.
Ltac bytes_sub := repeat first [assumption | apply bytes_firstn | apply bytes_skipn].
Lemma split_bytes len p a e : bytes p -> split len p = Ok (a, e) -> bytes a.
Proof.
  intros Hb. unfold split.
  destruct (zlen p <? len) eqn:E1; [intros E; apply ok_pair_inv in E; destruct E as [<- _]; assumption|].
  destruct (128 <? zlen p) eqn:E2; [|intros E; apply ok_pair_inv in E; destruct E as [<- _]; assumption].
  pose proof (zlen_nonneg p).
  destruct (128 <? len) eqn:E3.
  - rewrite zslice_ok, zslice_from_ok by lia. cbn [bind].
    destruct (4 <=? _); intros E; apply ok_pair_inv in E; destruct E as [<- _]; bytes_sub.
  - destruct (0 <? len) eqn:E4.
    + rewrite zslice_ok, zslice_from_ok by lia. cbn [bind].
      destruct (4 <=? _); [|intros E; apply ok_pair_inv in E; destruct E as [<- _]; assumption].
      rewrite zslice_ok; [| lia | rewrite zlen_zslice by lia; lia]. cbn [bind].
      intros E; apply ok_pair_inv in E; destruct E as [<- _]; bytes_sub.
    + rewrite zslice_ok, zslice_from_ok by lia. cbn [bind].
      destruct (4 <=? _); intros E; apply ok_pair_inv in E; destruct E as [<- _]; bytes_sub.
Qed.

Lemma err_payload6_bytes pk p : bytes pk -> 8 <= zlen pk -> err_payload6 pk = Ok p -> bytes p.
Proof.
  intros Hb H. unfold err_payload6, split_payload_extension6.
  rewrite read_ok by lia. cbn [bind]. rewrite zslice_from_ok by lia. cbn [bind].
  destruct (split _ _) as [[a e]| |] eqn:E; cbn [bind fst]; intros X; inversion X; subst.
  eapply split_bytes; [|exact E]. apply bytes_skipn; assumption.
Qed.

Lemma nf_extract_probe_resp6 c now b src : bytes b -> 8 <= zlen b -> nf (extract_probe_resp6 c now b src).
Proof.
  intros Hb H. unfold extract_probe_resp6.
  rewrite !read_ok by lia. cbn [bind].
  destruct (_ =? 3).
  { destruct (_ =? 0); [|reflexivity].
    nv Hpk.
    apply nf_bind.
    - destruct (rc_ext c).
      + apply nf_bind; [apply nf_err_payload6; assumption|]. intros p _.
        nv Hn. apply nf_bind; [apply nf_err_extension6; assumption|]. intros e0 _.
        apply nf_bind; [apply nf_ext_of|]. reflexivity.
      + unfold err_payload_raw6. rewrite zslice_from_ok by lia. cbn [bind].
        nv Hn. reflexivity.
    - intros [n e] Hne. cbn [fst snd].
      assert (Hn : 40 <= zlen n /\ bytes n).
      { destruct (rc_ext c).
        - destruct (err_payload6 b) as [p| |] eqn:Ep; cbn [bind] in Hne; try discriminate.
          destruct (new_view_cases 40 p) as [[E1 E2] | [E1 _]]; rewrite E1 in Hne; cbn [bind] in Hne; [|discriminate].
          destruct (err_extension6 b) as [e0| |]; cbn [bind] in Hne; try discriminate.
          destruct (ext_of e0); cbn [bind] in Hne; try discriminate. apply ok_pair_inv in Hne; destruct Hne as [<- _].
          split; [assumption|]. eapply err_payload6_bytes; eauto.
        - unfold err_payload_raw6 in Hne. rewrite zslice_from_ok in Hne by lia. cbn [bind] in Hne.
          match type of Hne with context [new_view 40 ?p] => destruct (new_view_cases 40 p) as [[E1 E2] | [E1 _]]; rewrite E1 in Hne end;
            cbn [bind] in Hne; [|discriminate]. apply ok_pair_inv in Hne; destruct Hne as [<- _]. split; [assumption|]. apply bytes_skipn; assumption. }
      destruct Hn. apply nf_bind; [apply nf_extract_probe_proto_resp6; assumption|]. reflexivity. }
  destruct (_ =? 1).
  { nv Hpk. apply nf_bind; [apply nf_err_payload6; assumption|]. intros p Hp.
    nv Hn. apply nf_bind.
    - destruct (rc_ext c); [|reflexivity].
      apply nf_bind; [apply nf_err_extension6; assumption|]. intros e0 _. apply nf_ext_of.
    - intros e _. apply nf_bind; [apply nf_extract_probe_proto_resp6; [eapply err_payload6_bytes; eauto | assumption]|]. reflexivity. }
  destruct (_ =? 129); [|reflexivity].
  destruct (rc_proto c); try reflexivity.
  nv Hpk. rewrite !get_u16_ok by lia. reflexivity.
Qed.

(* the sender address an ICMPv6 socket reports is absent or an IPv6 address (an OS guarantee; the code has `panic!()` otherwise) *)
Definition from_v6 (from : option addr) : Prop := match from with None => True | Some a => is_v6 a = true end.

Lemma recv_icmp_probe6_total c now r :
  match r with SrData b from => bytes b /\ from_v6 from | _ => True end -> nf (recv_icmp_probe6 c now r).
Proof.
  destruct r as [b from | | k]; try reflexivity. intros [Hb Hf]. cbn [recv_icmp_probe6].
  nv H. destruct from as [a|]; [|reflexivity]. cbn in Hf. rewrite Hf.
  apply nf_extract_probe_resp6; [apply bytes_firstn; assumption | assumption].
Qed.

(* C04, receive half, IPv6 *)
Lemma recv6_total c now from b : bytes b -> from_v6 from -> forall f, recv6 c now from b <> Fault f.
Proof. intros Hb Hf. apply nf_not_fault. apply recv_icmp_probe6_total. split; assumption. Qed.

(* ---- net/channel.rs: Network::recv_probe *)
Definition readable_ok (rd : readable) : Prop :=
  match rd with Readable (SrData b from) => bytes b /\ from_v6 from | _ => True end.

Lemma nf_recv_icmp_probe c now rd : readable_ok rd -> nf (recv_icmp_probe c now rd).
Proof.
  destruct rd as [|r|k]; try reflexivity. intros H. cbn [recv_icmp_probe].
  destruct (is_v6 (rc_dest c)); [apply recv_icmp_probe6_total | apply recv_icmp_probe4_total].
  destruct r; auto.
Qed.

Lemma recv_probe_total c now found rd : readable_ok rd -> forall f, recv_probe c now found rd <> Fault f.
Proof.
  intros H. apply nf_not_fault. unfold recv_probe.
  destruct (rc_proto c); try (apply nf_recv_icmp_probe; assumption).
  apply nf_bind.
  - destruct found as [[[o sp] dp]|]; [apply nf_recv_tcp_socket | reflexivity].
  - intros [x|] _; [reflexivity | apply nf_recv_icmp_probe; assumption].
Qed.

(* ---- the strategy step that consumes the response (StrategyResponse::from, after the wrapping_add repair) *)
From TV Require Import Core.TracerState Core.Strategy.
Lemma strategy_resp_total sc r : forall f, strategy_resp sc r <> Fault f.
Proof.
  apply nf_not_fault. unfold nf.
  destruct r as [d cd e|d cd e|d cd|d|d]; cbn; destruct (r_proto d); cbn;
    try reflexivity;
    destruct (multipath sc); destruct (port_direction sc); destruct (is_v6 (target_addr sc)); reflexivity.
Qed.
Lemma accept_info_total sc r : forall f, accept_info sc r <> Fault f.
Proof.
  apply nf_not_fault. unfold accept_info. apply nf_bind; [apply nf_not_fault; apply strategy_resp_total | reflexivity].
Qed.

(* termination: the fuel the callers pass to the two iterators is never exhausted *)
Lemma objects_fuel_suffices v off : 0 <= off -> objects (S (length v)) v off <> Fault OutOfFuel.
Proof.
  intros H. destruct (objects_spec v (S (length v)) off H) as [obs [-> _]]; [unfold zlen; lia | discriminate].
Qed.
Lemma mpls_members_fuel_suffices st off bos : 0 <= off -> mpls_members (S (length st)) st off bos <> Fault OutOfFuel.
Proof.
  intros H. destruct (mpls_members_ok st (S (length st)) off bos H) as [ms ->]; [unfold zlen; lia | discriminate].
Qed.
