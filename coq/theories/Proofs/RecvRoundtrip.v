(* Lemmas about the receive path, part 2 (C02, decode half): the receive path applied to what a
   standards-conforming peer (Net/RfcPeer.v) returns for a probe recovers the probe's identity. *)
From Coq Require Import ZifyBool.
From TV Require Import Base.Result Base.Bytes Core.Types Core.TracerState Core.Strategy Packet.Checksum Proofs.ChecksumProofs.
From TV Require Import Net.RecvCommon Net.Recv4 Net.Recv6 Net.Recv Net.RfcPeer Proofs.RecvProofs.

Ltac Zify.zify_post_hook ::= Z.div_mod_to_equations.

(* ---- list facts *)
Lemma skipn_app_exact {A} (a b : list A) n : n = length a -> skipn n (a ++ b) = b.
Proof. intros ->. rewrite skipn_app, skipn_all, Nat.sub_diag. reflexivity. Qed.
Lemma firstn_app_exact {A} (a b : list A) n : n = length a -> firstn n (a ++ b) = a.
Proof. intros ->. rewrite firstn_app, firstn_all, Nat.sub_diag. cbn. apply app_nil_r. Qed.
Lemma zlen_to_nat {A} (l : list A) : Z.to_nat (zlen l) = length l.
Proof. unfold zlen; lia. Qed.

Lemma ztake_app a b n : zlen a <= n -> ztake n (a ++ b) = a ++ ztake (n - zlen a) b.
Proof.
  intros H. unfold ztake. rewrite firstn_app.
  rewrite firstn_all2 by (unfold zlen in H; lia). f_equal. f_equal. unfold zlen in *. lia.
Qed.
Lemma ztake_app' a b n : 0 <= n <= zlen a -> ztake n (a ++ b) = ztake n a.
Proof.
  intros H. unfold ztake. rewrite firstn_app.
  replace (Z.to_nat n - length a)%nat with 0%nat by (unfold zlen in H; lia). cbn [firstn]. apply app_nil_r.
Qed.
Lemma ztake_all l n : zlen l <= n -> ztake n l = l.
Proof. intros H. unfold ztake. apply firstn_all2. unfold zlen in H. lia. Qed.

Lemma read_app_l i h b : 0 <= i < zlen h -> read i (h ++ b) = Ok (nth (Z.to_nat i) h 0).
Proof.
  intros H. rewrite read_ok by (rewrite zlen_app; pose proof (zlen_nonneg b); lia).
  rewrite app_nth1 by (unfold zlen in H; lia). reflexivity.
Qed.
Lemma get_u16_app_l i h b : 0 <= i -> i + 1 < zlen h ->
  get_u16 i (h ++ b) = Ok (nth (Z.to_nat i) h 0 * 256 + nth (Z.to_nat (i + 1)) h 0).
Proof. intros; unfold get_u16. rewrite !read_app_l by lia. reflexivity. Qed.
Lemma zslice_app_l a b h x : 0 <= a <= b -> b <= zlen h ->
  zslice a b (h ++ x) = Ok (firstn (Z.to_nat (b - a)) (skipn (Z.to_nat a) h)).
Proof.
  intros H1 H2. rewrite zslice_ok by (rewrite ?zlen_app; pose proof (zlen_nonneg x); lia).
  f_equal. rewrite skipn_app, firstn_app.
  replace (Z.to_nat (b - a) - length (skipn (Z.to_nat a) h))%nat with 0%nat by (rewrite skipn_length; unfold zlen in H2; lia).
  cbn [firstn]. apply app_nil_r.
Qed.

(* ---- IPv4 layer: a header of IHL words followed by anything *)
Definition hdr4_ok (h : list Z) : Prop :=
  20 <= zlen h /\ zlen h = 4 * (nth 0 h 0 mod 16).

Lemma ipv4_payload_app h body : hdr4_ok h -> ipv4_payload (h ++ body) = Ok body.
Proof.
  intros [H1 H2]. unfold ipv4_payload, ipv4_options_length, ipv4_get_header_length.
  rewrite read_app_l by lia. cbn [bind]. change (Z.to_nat 0) with 0%nat.
  rewrite zlen_app. pose proof (zlen_nonneg body).
  set (k := nth 0 h 0 mod 16) in *.
  assert (Hk : 20 + Z.max 0 (k * 4 - 20) = zlen h) by lia. rewrite Hk.
  destruct (zlen h + zlen body <=? zlen h) eqn:E.
  - assert (zlen body = 0) by lia. destruct body; [reflexivity | rewrite zlen_cons in *; pose proof (zlen_nonneg body); lia].
  - rewrite zslice_from_ok by (rewrite zlen_app; lia). f_equal. apply skipn_app_exact. apply zlen_to_nat.
Qed.

(* the outer header produced by the peer specification *)
Lemma ipv4_hdr_ok tos tl id fl ttl pr ck src dst opts :
  length src = 4%nat -> length dst = 4%nat -> zlen opts = 4 * (zlen opts / 4) -> zlen opts <= 40 ->
  hdr4_ok (ipv4_hdr tos tl id fl ttl pr ck src dst opts).
Proof.
  intros Hs Hd Ho Hm. unfold hdr4_ok, ipv4_hdr, be_bytes. pose proof (zlen_nonneg opts).
  rewrite !zlen_app, !zlen_cons, !zlen_nil.
  assert (Es : zlen src = 4) by (unfold zlen; lia). assert (Ed : zlen dst = 4) by (unfold zlen; lia).
  rewrite Es, Ed. cbn [app nth]. set (k := zlen opts / 4) in *. lia.
Qed.
Lemma ipv4_hdr_source tos tl id fl ttl pr ck src dst opts x :
  length src = 4%nat -> length dst = 4%nat ->
  ipv4_get_source (ipv4_hdr tos tl id fl ttl pr ck src dst opts ++ x) = Ok src.
Proof.
  intros Hs Hd. unfold ipv4_get_source, ipv4_hdr, be_bytes.
  destruct src as [|s0 [|s1 [|s2 [|s3 [|]]]]]; try discriminate.
  cbn [app]. rewrite zslice_ok; [reflexivity | lia |].
  rewrite !zlen_cons. pose proof (zlen_nonneg ((dst ++ opts) ++ x)). lia.
Qed.

(* ---- the ICMP error stage, IPv4 *)
(* what remains to be done once the quoted datagram [N] and the extensions [E] are determined *)
Definition finish4 (c : rcfg) (now : Z) (src : addr) (du : bool) (code : Z) (N : list Z) (E : option exts)
  : result (option response) :=
  let* pr := extract_probe_proto_resp4 c N in
  Ok (option_map (fun x => if du then RDestUnreach (mk_resp_data now src x) code E
                           else RTimeExceeded (mk_resp_data now src x) code E) pr).

(* how the quoted datagram and the extensions are obtained from the ICMP payload [Q] and the length octet *)
Definition nested_of (unit hmin : Z) (c : rcfg) (du : bool) (lb : Z) (Q : list Z) : result (list Z * option exts) :=
  if rc_ext c then
    let* pe := split (lb * unit) Q in let* n := new_view hmin (fst pe) in let* e := ext_of (snd pe) in Ok (n, e)
  else if du then
    let* pe := split (lb * unit) Q in let* n := new_view hmin (fst pe) in Ok (n, None)
  else let* n := new_view hmin Q in Ok (n, None).

Lemma zlen8 (a b c d e f g h : Z) Q : zlen (a :: b :: c :: d :: e :: f :: g :: h :: Q) = 8 + zlen Q.
Proof. rewrite !zlen_cons. lia. Qed.

Lemma recv4_icmp_error c now H src (du : bool) code c1 c2 b4 b5 b6 b7 Q :
  hdr4_ok H -> (forall x, ipv4_get_source (H ++ x) = Ok src) ->
  zlen H + 8 + zlen Q <= 1024 ->
  (du = false -> code = 0) ->
  recv4 c now (H ++ (if du then 3 else 11) :: code :: c1 :: c2 :: b4 :: b5 :: b6 :: b7 :: Q) =
  let* ne := nested_of 4 20 c du b5 Q in finish4 c now src du code (fst ne) (snd ne).
Proof.
  intros Hh Hsrc Hlen Hcode.
  unfold recv4, recv_icmp_probe4, MAX_PACKET_SIZE.
  set (icmp := (if du then 3 else 11) :: code :: c1 :: c2 :: b4 :: b5 :: b6 :: b7 :: Q).
  assert (Hi : zlen icmp = 8 + zlen Q) by apply zlen8.
  rewrite ztake_all by (rewrite zlen_app; lia).
  pose proof (zlen_nonneg Q). destruct Hh as [Hh1 Hh2].
  unfold new_view at 1. rewrite zlen_app. replace (20 <=? zlen H + zlen icmp) with true by lia. cbn [bind].
  unfold extract_probe_resp4. rewrite Hsrc. cbn [bind].
  rewrite ipv4_payload_app by (split; assumption). cbn [bind].
  unfold new_view at 1. replace (8 <=? zlen icmp) with true by lia. cbn [bind].
  rewrite !read_ok by lia. cbn [bind].
  change (nth (Z.to_nat 0) icmp 0) with (if du then 3 else 11).
  change (nth (Z.to_nat 1) icmp 0) with code.
  assert (Hraw : err_payload_raw icmp = Ok Q).
  { unfold err_payload_raw. rewrite zslice_from_ok by lia. reflexivity. }
  assert (Hsp : split_payload_extension4 icmp = split (b5 * 4) Q).
  { unfold split_payload_extension4. rewrite read_ok by lia. cbn [bind]. rewrite zslice_from_ok by lia. reflexivity. }
  unfold nested_of, finish4.
  destruct du.
  - (* Destination Unreachable *)
    change (3 =? 11) with false. change (3 =? 3) with true. cbn [bind].
    unfold new_view at 1. replace (8 <=? zlen icmp) with true by lia. cbn [bind].
    unfold err_payload4, err_extension4. rewrite Hsp.
    destruct (rc_ext c); destruct (split (b5 * 4) Q) as [[N e0]| |]; cbn [bind fst snd]; try reflexivity.
    + destruct (new_view 20 N); cbn [bind]; try reflexivity.
      destruct (ext_of e0); cbn [bind fst snd]; reflexivity.
    + destruct (new_view 20 N); cbn [bind fst snd]; reflexivity.
  - (* Time Exceeded *)
    rewrite (Hcode eq_refl). change (11 =? 11) with true. change (0 =? 0) with true. cbn [bind].
    unfold new_view at 1. replace (8 <=? zlen icmp) with true by lia. cbn [bind].
    destruct (rc_ext c); cbn [bind].
    + unfold err_payload4, err_extension4. rewrite Hsp.
      destruct (split (b5 * 4) Q) as [[N e0]| |]; cbn [bind fst snd]; try reflexivity.
    + rewrite Hraw. cbn [bind]. destruct (new_view 20 Q); cbn [bind fst snd]; reflexivity.
Qed.

(* ---- extension_splitter::split on the layouts a conforming peer produces *)
Lemma split_none_short q : zlen q <= 131 -> split 0 q = Ok (q, None).
Proof.
  intros H. unfold split. pose proof (zlen_nonneg q).
  replace (zlen q <? 0) with false by lia.
  destruct (128 <? zlen q) eqn:E; [|reflexivity].
  change (128 <? 0) with false. change (0 <? 0) with false. cbn iota.
  rewrite zslice_ok, zslice_from_ok by lia. cbn [bind].
  rewrite zlen_skipn by lia. replace (4 <=? zlen q - 128) with false by lia. reflexivity.
Qed.
Lemma split_none_long q : 132 <= zlen q -> split 0 q = Ok (ztake 128 q, Some (skipn (Z.to_nat 128) q)).
Proof.
  intros H. unfold split.
  replace (zlen q <? 0) with false by lia. replace (128 <? zlen q) with true by lia.
  change (128 <? 0) with false. change (0 <? 0) with false. cbn iota.
  rewrite zslice_ok, zslice_from_ok by lia. cbn [bind].
  rewrite zlen_skipn by lia. replace (4 <=? zlen q - 128) with true by lia. reflexivity.
Qed.
Lemma split_legacy P e : zlen P = 128 -> 4 <= zlen e -> split 0 (P ++ e) = Ok (P, Some e).
Proof.
  intros HP He. rewrite split_none_long by (rewrite zlen_app; lia).
  unfold ztake. rewrite firstn_app_exact, skipn_app_exact by (unfold zlen in HP; lia). reflexivity.
Qed.
Lemma split_at_exact P e len : zlen P = len -> 128 <= len -> 4 <= zlen e -> split len (P ++ e) = Ok (P, Some e).
Proof.
  intros HP Hl He. unfold split. rewrite zlen_app.
  replace (zlen P + zlen e <? len) with false by lia. replace (128 <? zlen P + zlen e) with true by lia.
  assert (Hn : Z.to_nat len = length P) by (unfold zlen in HP; lia).
  destruct (128 <? len) eqn:E.
  - rewrite zslice_ok, zslice_from_ok by (rewrite ?zlen_app; lia). cbn [bind].
    replace (len - 0) with len by lia. change (Z.to_nat 0) with 0%nat. cbn [skipn].
    rewrite firstn_app_exact, skipn_app_exact by assumption.
    replace (4 <=? zlen e) with true by lia. reflexivity.
  - assert (Hl128 : len = 128) by lia. rewrite Hl128 in *. clear Hl128. change (0 <? 128) with true. cbn iota.
    rewrite zslice_ok, zslice_from_ok by (rewrite ?zlen_app; lia). cbn [bind].
    change (Z.to_nat 0) with 0%nat. cbn [skipn]. change (128 - 0) with 128.
    rewrite firstn_app_exact, skipn_app_exact by exact Hn.
    replace (4 <=? zlen e) with true by lia.
    rewrite zslice_ok by lia. cbn [bind]. change (Z.to_nat 0) with 0%nat. cbn [skipn]. change (128 - 0) with 128.
    rewrite firstn_all2 by (unfold zlen in HP; lia). reflexivity.
Qed.

(* ---- the "original datagram" field of the peer specification *)
Lemma zlen_pad_to n l : zlen l <= n -> zlen (pad_to n l) = n.
Proof. intros H. unfold pad_to. rewrite zlen_app, zlen_repeat. pose proof (zlen_nonneg l). lia. Qed.
Lemma ztake_pad_to k n l : 0 <= k <= zlen l -> ztake k (pad_to n l) = ztake k l.
Proof.
  intros H. unfold pad_to, ztake. rewrite firstn_app.
  replace (Z.to_nat k - length l)%nat with 0%nat by (unfold zlen in H; lia). cbn [firstn]. apply app_nil_r.
Qed.
Lemma ztake_ztake k n l : 0 <= k <= n -> ztake k (ztake n l) = ztake k l.
Proof. intros H. unfold ztake. rewrite firstn_firstn. f_equal. lia. Qed.

(* the extensions a receiver sees (None when extension parsing is off or nothing looks like one) *)
Definition ext_result (c : rcfg) (x : ext_form) (q : list Z) : result (option exts) :=
  if rc_ext c then
    match x with
    | XNone => if zlen q <=? 131 then Ok None else ext_of (Some (skipn (Z.to_nat 128) q))
    | XRfc4884 e | XLegacy e => ext_of (Some e)
    end
  else Ok None.

Definition ext_form_ok (x : ext_form) : Prop :=
  match x with
  | XNone => True
  | XRfc4884 e => 4 <= zlen e
  | XLegacy e => 4 <= zlen e
  end.

Lemma nested_of_orig unit hmin k c du x q E :
  (unit = 4 \/ unit = 8) -> 0 <= hmin <= k -> k <= zlen q -> k <= 128 ->
  ext_form_ok x -> ext_result c x q = Ok E ->
  exists N, nested_of unit hmin c du (snd (orig_field unit x q)) (fst (orig_field unit x q) ++ ext_bytes x) = Ok (N, E)
            /\ k <= zlen N /\ ztake k N = ztake k q.
Proof.
  intros Hu Hh Hk Hk128 Hx HE. pose proof (zlen_nonneg q) as Hq0.
  (* the split, whenever it is consulted *)
  assert (Hsplit : exists N e0, split (snd (orig_field unit x q) * unit) (fst (orig_field unit x q) ++ ext_bytes x) = Ok (N, e0)
                     /\ k <= zlen N /\ ztake k N = ztake k q
                     /\ (rc_ext c = true -> ext_of e0 = Ok E)).
  { destruct x as [|e|e]; cbn [orig_field fst snd ext_bytes ext_form_ok] in *.
    - rewrite app_nil_r. change (0 * unit) with 0.
      unfold ext_result in HE.
      destruct (zlen q <=? 131) eqn:E131.
      + exists q, None. split; [apply split_none_short; lia|]. split; [lia|]. split; [reflexivity|].
        intros Hc. rewrite Hc in HE. exact HE.
      + exists (ztake 128 q), (Some (skipn (Z.to_nat 128) q)). split; [apply split_none_long; lia|].
        split; [rewrite zlen_ztake by lia; lia|]. split; [apply ztake_ztake; lia|].
        intros Hc. rewrite Hc in HE. exact HE.
    - set (n := Z.max 128 (unit * ((zlen q + unit - 1) / unit))).
      assert (Hn : zlen q <= n /\ 128 <= n /\ n / unit * unit = n).
      { unfold n. destruct Hu as [-> | ->]; lia. }
      destruct Hn as (Hn1 & Hn2 & Hn3).
      exists (pad_to n q), (Some e). rewrite Hn3.
      split; [apply split_at_exact; [apply zlen_pad_to; assumption | assumption | assumption]|].
      split; [rewrite zlen_pad_to by assumption; lia|]. split; [apply ztake_pad_to; lia|].
      intros Hc. unfold ext_result in HE. rewrite Hc in HE. exact HE.
    - exists (pad_to 128 (ztake 128 q)), (Some e). change (0 * unit) with 0.
      assert (Hz : zlen (ztake 128 q) <= 128) by (apply zlen_ztake_le; lia).
      split; [apply split_legacy; [apply zlen_pad_to; assumption | assumption]|].
      split; [rewrite zlen_pad_to by assumption; lia|].
      split; [rewrite ztake_pad_to by (rewrite zlen_ztake by lia; lia); apply ztake_ztake; lia|].
      intros Hc. unfold ext_result in HE. rewrite Hc in HE. exact HE. }
  destruct Hsplit as (N & e0 & Hs & HN & Hpre & Hext).
  unfold nested_of.
  destruct (rc_ext c) eqn:Hc.
  - exists N. rewrite Hs. cbn [bind fst snd].
    unfold new_view. replace (hmin <=? zlen N) with true by lia. cbn [bind].
    rewrite (Hext eq_refl). cbn [bind]. auto.
  - assert (E = None) by (unfold ext_result in HE; rewrite Hc in HE; congruence). subst E.
    destruct du.
    + exists N. rewrite Hs. cbn [bind fst snd].
      unfold new_view. replace (hmin <=? zlen N) with true by lia. cbn [bind]. auto.
    + (* payload_raw: everything after the ICMP header *)
      exists (fst (orig_field unit x q) ++ ext_bytes x).
      assert (HQ : k <= zlen (fst (orig_field unit x q)) /\ ztake k (fst (orig_field unit x q)) = ztake k q).
      { destruct x as [|e|e]; cbn [orig_field fst].
        - split; [lia | reflexivity].
        - set (n := Z.max 128 (unit * ((zlen q + unit - 1) / unit))).
          assert (zlen q <= n /\ 128 <= n) as [? ?] by (unfold n; destruct Hu as [-> | ->]; lia).
          split; [rewrite zlen_pad_to by assumption; lia | apply ztake_pad_to; lia].
        - assert (Hz : zlen (ztake 128 q) <= 128) by (apply zlen_ztake_le; lia).
          split; [rewrite zlen_pad_to by assumption; lia|].
          rewrite ztake_pad_to by (rewrite zlen_ztake by lia; lia). apply ztake_ztake; lia. }
      destruct HQ as [HQ1 HQ2]. pose proof (zlen_nonneg (ext_bytes x)).
      unfold new_view. rewrite zlen_app. replace (hmin <=? _) with true by lia. cbn [bind].
      split; [reflexivity|]. split; [lia|].
      rewrite ztake_app' by lia. exact HQ2.
Qed.

(* ---- the quoted datagram stage, IPv4: only the first 28 octets matter *)
Lemma nth_firstn_lt {A} (d : A) : forall n i (l : list A), (i < n)%nat -> nth i (firstn n l) d = nth i l d.
Proof. induction n as [|n IH]; intros [|i] [|x l] H; cbn; try lia; auto. apply IH. lia. Qed.
Lemma nth_skipn_add {A} (d : A) : forall n i (l : list A), nth i (skipn n l) d = nth (n + i) l d.
Proof. induction n as [|n IH]; intros i [|x l]; cbn; auto. destruct i; reflexivity. Qed.
Lemma nth_ztake k l i : (i < Z.to_nat k)%nat -> nth i (ztake k l) 0 = nth i l 0.
Proof. apply nth_firstn_lt. Qed.

Definition u16 (N : list Z) (i : nat) : Z := nth i N 0 * 256 + nth (S i) N 0.
Definition tosv (x : Z) : Z := x / 4 * 4 + x mod 4.
Lemma tosv_id x : tosv x = x. Proof. unfold tosv. lia. Qed.
Lemma be_join v : v / 256 * 256 + v mod 256 = v. Proof. lia. Qed.

Lemma ipv4_payload_ihl5 N : 20 <= zlen N -> nth 0 N 0 mod 16 = 5 -> ipv4_payload N = Ok (skipn 20 N).
Proof.
  intros H H5. unfold ipv4_payload, ipv4_options_length, ipv4_get_header_length.
  rewrite read_ok by lia. cbn [bind]. change (Z.to_nat 0) with 0%nat. rewrite H5. change (20 + Z.max 0 (5 * 4 - 20)) with 20.
  destruct (zlen N <=? 20) eqn:E.
  - rewrite skipn_all2 by (unfold zlen in *; lia). reflexivity.
  - rewrite zslice_from_ok by lia. reflexivity.
Qed.

Lemma get_u16_skipn N (n : nat) i : 0 <= i -> Z.of_nat n + i + 1 < zlen N ->
  get_u16 i (skipn n N) = Ok (u16 N (n + Z.to_nat i)).
Proof.
  intros H0 H. assert (Hl : zlen (skipn n N) = zlen N - Z.of_nat n).
  { unfold zlen. rewrite skipn_length. unfold zlen in H. lia. }
  rewrite get_u16_ok by lia. unfold u16. rewrite !nth_skipn_add. do 3 f_equal. lia.
Qed.

Lemma proto_resp4_icmp c N : rc_proto c = Icmp -> 28 <= zlen N -> nth 0 N 0 mod 16 = 5 -> nth 9 N 0 = 1 ->
  extract_probe_proto_resp4 c N = Ok (Some (PIcmp (u16 N 24) (u16 N 26) (Some (tosv (nth 1 N 0))))).
Proof.
  intros Hp HN H5 H9. unfold extract_probe_proto_resp4, ipv4_get_protocol.
  rewrite read_ok by lia. cbn [bind]. change (Z.to_nat 9) with 9%nat. rewrite H9, Hp. change (1 =? 1) with true. cbn iota.
  unfold extract_echo_request4. rewrite ipv4_payload_ihl5 by (assumption || lia). cbn [bind].
  unfold new_view. replace (8 <=? zlen (skipn 20 N)) with true by (unfold zlen in *; rewrite skipn_length; lia). cbn [bind].
  rewrite (get_u16_skipn N 20 4), (get_u16_skipn N 20 6) by lia. cbn [bind].
  unfold ipv4_get_tos. rewrite read_ok by lia. reflexivity.
Qed.

Lemma proto_resp4_udp c N : rc_proto c = Udp -> 28 <= zlen N -> nth 0 N 0 mod 16 = 5 -> nth 9 N 0 = 17 ->
  exists ex, calc_udp_checksum4 c (u16 N 20) (u16 N 22) (Z.max 0 (u16 N 24 - 8)) = Ok ex /\
  extract_probe_proto_resp4 c N =
  Ok (Some (PUdp (u16 N 4) (firstn 4 (skipn 16 N)) (u16 N 20) (u16 N 22) (Some (tosv (nth 1 N 0))) ex (u16 N 26)
                 (Z.max 0 (u16 N 24 - 8)) false)).
Proof.
  intros Hp HN H5 H9.
  destruct (calc_udp_checksum4_ok c (u16 N 20) (u16 N 22) (Z.max 0 (u16 N 24 - 8))) as [ex Hex].
  exists ex. split; [exact Hex|].
  unfold extract_probe_proto_resp4, ipv4_get_protocol.
  rewrite read_ok by lia. cbn [bind]. change (Z.to_nat 9) with 9%nat. rewrite H9, Hp. change (17 =? 17) with true. cbn iota.
  unfold extract_udp_packet4. rewrite ipv4_payload_ihl5 by (assumption || lia). cbn [bind].
  unfold new_view. replace (8 <=? zlen (skipn 20 N)) with true by (unfold zlen in *; rewrite skipn_length; lia). cbn [bind].
  rewrite (get_u16_skipn N 20 0), (get_u16_skipn N 20 2), (get_u16_skipn N 20 6), (get_u16_skipn N 20 4) by lia.
  unfold ipv4_get_identification. rewrite get_u16_ok by lia. cbn [bind].
  change (20 + Z.to_nat 0)%nat with 20%nat. change (20 + Z.to_nat 2)%nat with 22%nat.
  change (20 + Z.to_nat 6)%nat with 26%nat. change (20 + Z.to_nat 4)%nat with 24%nat.
  rewrite Hex. cbn [bind].
  unfold ipv4_get_destination, ipv4_get_tos. rewrite zslice_ok by lia. rewrite read_ok by lia. reflexivity.
Qed.

Lemma proto_resp4_tcp c N : rc_proto c = Tcp -> 28 <= zlen N -> nth 0 N 0 mod 16 = 5 -> nth 9 N 0 = 6 ->
  extract_probe_proto_resp4 c N =
  Ok (Some (PTcp (firstn 4 (skipn 16 N)) (u16 N 20) (u16 N 22) (Some (tosv (nth 1 N 0))))).
Proof.
  intros Hp HN H5 H9. unfold extract_probe_proto_resp4, ipv4_get_protocol.
  rewrite read_ok by lia. cbn [bind]. change (Z.to_nat 9) with 9%nat. rewrite H9, Hp. change (6 =? 6) with true. cbn iota.
  unfold extract_tcp_packet4. rewrite ipv4_payload_ihl5 by (assumption || lia). cbn [bind].
  assert (Hl : zlen (skipn 20 N) = zlen N - 20) by (unfold zlen in *; rewrite skipn_length; lia).
  set (p := skipn 20 N) in *.
  assert (Hrd : forall buf, (buf = p \/ exists z, buf = p ++ z) -> 20 <= zlen buf ->
                 (let* t := new_view 20 buf in let* sp := get_u16 0 t in let* dp := get_u16 2 t in Ok (sp, dp)) = Ok (u16 N 20, u16 N 22)).
  { intros buf Hb Hlb. unfold new_view. replace (20 <=? zlen buf) with true by lia. cbn [bind].
    assert (forall i, (i < 8)%nat -> nth i buf 0 = nth (20 + i) N 0) as Hn.
    { intros i Hi. destruct Hb as [-> | [z ->]].
      - unfold p. apply nth_skipn_add.
      - rewrite app_nth1 by (unfold zlen in *; lia). unfold p. apply nth_skipn_add. }
    rewrite !get_u16_ok by lia. cbn [bind]. unfold u16.
    change (Z.to_nat 0) with 0%nat. change (Z.to_nat (0 + 1)) with 1%nat. change (Z.to_nat 2) with 2%nat. change (Z.to_nat (2 + 1)) with 3%nat.
    rewrite !Hn by lia. reflexivity. }
  destruct (zlen p <? 20) eqn:E.
  - rewrite Hrd; [| right; eauto | rewrite zlen_app, zlen_repeat; lia]. cbn [bind].
    unfold ipv4_get_destination, ipv4_get_tos. rewrite zslice_ok by lia. rewrite read_ok by lia. reflexivity.
  - rewrite Hrd; [| left; reflexivity | lia]. cbn [bind].
    unfold ipv4_get_destination, ipv4_get_tos. rewrite zslice_ok by lia. rewrite read_ok by lia. reflexivity.
Qed.

(* a quoted datagram of another protocol is not looked at any further *)
Lemma proto_resp4_other c N : 20 <= zlen N ->
  nth 9 N 0 <> match rc_proto c with Icmp => 1 | Udp => 17 | Tcp => 6 end ->
  extract_probe_proto_resp4 c N = Ok None.
Proof.
  intros HN H9. unfold extract_probe_proto_resp4, ipv4_get_protocol.
  rewrite read_ok by lia. cbn [bind]. change (Z.to_nat 9) with 9%nat.
  destruct (rc_proto c); match goal with |- context [?a =? ?b] => replace (a =? b) with false by lia end; reflexivity.
Qed.

(* ---- in-transit rewriting keeps the length *)
Lemma set_nth_length i v l : length (set_nth i v l) = length l.
Proof.
  unfold set_nth. destruct (skipn i l) as [|x t] eqn:E; [reflexivity|].
  rewrite <- (firstn_skipn i l) at 2. rewrite E, !app_length. reflexivity.
Qed.
Lemma zlen_transit4 t d : zlen (transit4 t d) = zlen d.
Proof. unfold transit4, zlen. rewrite !set_nth_length. reflexivity. Qed.
Lemma zlen_transit6 t d : zlen (transit6 t d) = zlen d.
Proof. unfold transit6, zlen. rewrite !set_nth_length. reflexivity. Qed.

(* ---- a conforming ICMPv4 error, as read from the raw socket *)
Record peer4_ok (me : addr) (p : peer) : Prop := {
  po_me : length me = 4%nat;
  po_router : length (q_router p) = 4%nat;
  po_opts : zlen (q_o_opts p) = 4 * (zlen (q_o_opts p) / 4) /\ zlen (q_o_opts p) <= 40;
  po_n : 28 <= q_n p;                       (* RFC 792: IP header + at least 8 octets (IHL = 5 for our probes) *)
  po_ext : ext_form_ok (q_ext p);
}.

Definition is_du (p : peer) : bool := match q_unreach p with None => false | Some _ => true end.
Definition code_of (p : peer) : Z := match q_unreach p with None => 0 | Some c => c end.

Lemma recv4_quote4 c now me p d E :
  peer4_ok me p -> zlen (quote4 me p d) <= 1024 -> 28 <= zlen d ->
  ext_result c (q_ext p) (ztake (q_n p) (transit4 (q_transit p) d)) = Ok E ->
  exists N, recv4 c now (quote4 me p d) = finish4 c now (q_router p) (is_du p) (code_of p) N E
            /\ 28 <= zlen N /\ ztake 28 N = ztake 28 (transit4 (q_transit p) d).
Proof.
  intros [Hme Hr [Ho1 Ho2] Hn Hx] Hlen Hd HE.
  set (q := ztake (q_n p) (transit4 (q_transit p) d)) in *.
  assert (Hq : 28 <= zlen q) by (unfold q; rewrite zlen_ztake, zlen_transit4 by lia; lia).
  destruct (nested_of_orig 4 20 28 c (is_du p) (q_ext p) q E) as (N & HN & HN28 & Hpre); try lia; auto.
  exists N. split; [|split; [exact HN28|]].
  2:{ rewrite Hpre. unfold q. apply ztake_ztake. lia. }
  unfold quote4 in *. unfold icmp_error in *. fold q in Hlen. fold q.
  set (ol := orig_field 4 (q_ext p) q) in *.
  set (H := ipv4_hdr _ _ _ _ _ _ _ _ _ _) in *.
  assert (HH : hdr4_ok H) by (apply ipv4_hdr_ok; assumption).
  assert (Hsrc : forall x, ipv4_get_source (H ++ x) = Ok (q_router p)) by (intros x; apply ipv4_hdr_source; assumption).
  unfold be_bytes in *. cbn [app] in *.
  rewrite zlen_app, zlen8 in Hlen.
  assert (Hlen' : zlen H + 8 + zlen (fst ol ++ ext_bytes (q_ext p)) <= 1024) by lia.
  pose proof (recv4_icmp_error c now H (q_router p) (is_du p) (code_of p) (q_icmp_ck p / 256) (q_icmp_ck p mod 256)
                (q_u1 p) (snd ol) (q_u2 p) (q_u3 p) (fst ol ++ ext_bytes (q_ext p)) HH Hsrc Hlen') as R.
  unfold is_du, code_of in *. destruct (q_unreach p) as [cd|].
  - rewrite R by discriminate. rewrite HN. reflexivity.
  - rewrite R by reflexivity. rewrite HN. reflexivity.
Qed.

(* ---- the probes of this tracer, seen through the first 28 octets of their quotation *)
Lemma nth_of_prefix N L k i : ztake k N = L -> (i < Z.to_nat k)%nat -> nth i N 0 = nth i L 0.
Proof. intros <- H. symmetry. apply nth_ztake. exact H. Qed.

Definition mk_err (du : bool) (d : resp_data) (code : Z) (E : option exts) : response :=
  if du then RDestUnreach d code E else RTimeExceeded d code E.

Lemma finish4_unfold c now src du code N E pr :
  extract_probe_proto_resp4 c N = Ok (Some pr) ->
  finish4 c now src du code N E = Ok (Some (mk_err du (mk_resp_data now src pr) code E)).
Proof. intros H. unfold finish4. rewrite H. cbn [bind option_map]. unfold mk_err. destruct du; reflexivity. Qed.

Lemma icmp4_probe_prefix t s0 s1 s2 s3 d0 d1 d2 d3 tos ttl hck id seq ick payload :
  ztake 28 (transit4 t (icmp4_probe [s0; s1; s2; s3] [d0; d1; d2; d3] tos ttl hck id seq ick payload)) =
  [69; t_tos t; (28 + zlen payload) / 256; (28 + zlen payload) mod 256; 0; 0; 64; 0; t_ttl t; 1;
   t_ck t / 256; t_ck t mod 256; s0; s1; s2; s3; d0; d1; d2; d3;
   8; 0; ick / 256; ick mod 256; id / 256; id mod 256; seq / 256; seq mod 256].
Proof. reflexivity. Qed.

Lemma udp4_probe_prefix t s0 s1 s2 s3 d0 d1 d2 d3 tos ttl hck ipid sp dp uck payload :
  ztake 28 (transit4 t (udp4_probe [s0; s1; s2; s3] [d0; d1; d2; d3] tos ttl hck ipid sp dp uck payload)) =
  [69; t_tos t; (28 + zlen payload) / 256; (28 + zlen payload) mod 256; ipid / 256; ipid mod 256; 64; 0; t_ttl t; 17;
   t_ck t / 256; t_ck t mod 256; s0; s1; s2; s3; d0; d1; d2; d3;
   sp / 256; sp mod 256; dp / 256; dp mod 256; (8 + zlen payload) / 256; (8 + zlen payload) mod 256; uck / 256; uck mod 256].
Proof. reflexivity. Qed.

Lemma zlen_icmp4_probe s d tos ttl hck id seq ick payload : length s = 4%nat -> length d = 4%nat ->
  zlen (icmp4_probe s d tos ttl hck id seq ick payload) = 28 + zlen payload.
Proof.
  intros Hs Hd. unfold icmp4_probe, ipv4_hdr, icmp_echo, be_bytes. rewrite !zlen_app, !zlen_cons, !zlen_nil.
  unfold zlen at 1 2. rewrite Hs, Hd. lia.
Qed.
Lemma zlen_udp4_probe s d tos ttl hck ipid sp dp uck payload : length s = 4%nat -> length d = 4%nat ->
  zlen (udp4_probe s d tos ttl hck ipid sp dp uck payload) = 28 + zlen payload.
Proof.
  intros Hs Hd. unfold udp4_probe, ipv4_hdr, udp_dgram, be_bytes. rewrite !zlen_app, !zlen_cons, !zlen_nil.
  unfold zlen at 1 2. rewrite Hs, Hd. lia.
Qed.

Ltac destruct_addr4 s H :=
  let s0 := fresh s "0" in let s1 := fresh s "1" in let s2 := fresh s "2" in let s3 := fresh s "3" in
  destruct s as [|s0 [|s1 [|s2 [|s3 [|? ?]]]]]; try discriminate H.

(* ICMP / IPv4: Time Exceeded or Destination Unreachable quoting an echo request of this tracer *)
Lemma decode_icmp4_error c now me p s d tos ttl hck id seq ick payload E :
  rc_proto c = Icmp -> length s = 4%nat -> length d = 4%nat -> peer4_ok me p ->
  let dg := icmp4_probe s d tos ttl hck id seq ick payload in
  zlen (quote4 me p dg) <= 1024 ->
  ext_result c (q_ext p) (ztake (q_n p) (transit4 (q_transit p) dg)) = Ok E ->
  recv4 c now (quote4 me p dg) =
  Ok (Some (mk_err (is_du p) (mk_resp_data now (q_router p) (PIcmp id seq (Some (t_tos (q_transit p))))) (code_of p) E)).
Proof.
  intros Hp Hs Hd Hpeer dg Hlen HE.
  destruct (recv4_quote4 c now me p dg E Hpeer Hlen) as (N & -> & HN & Hpre); [| exact HE |].
  { unfold dg. rewrite zlen_icmp4_probe by assumption. pose proof (zlen_nonneg payload). lia. }
  apply finish4_unfold.
  destruct_addr4 s Hs. destruct_addr4 d Hd. unfold dg in Hpre. rewrite icmp4_probe_prefix in Hpre.
  rewrite proto_resp4_icmp; try assumption.
  - unfold u16. rewrite !(nth_of_prefix N _ 28 _ Hpre) by (cbn; lia). cbn [nth].
    rewrite tosv_id. do 3 f_equal; lia.
  - rewrite (nth_of_prefix N _ 28 _ Hpre) by (cbn; lia). reflexivity.
  - rewrite (nth_of_prefix N _ 28 _ Hpre) by (cbn; lia). reflexivity.
Qed.

(* UDP / IPv4 *)
Lemma decode_udp4_error c now me p s d tos ttl hck ipid sp dp uck payload E :
  rc_proto c = Udp -> length s = 4%nat -> length d = 4%nat -> peer4_ok me p ->
  let dg := udp4_probe s d tos ttl hck ipid sp dp uck payload in
  zlen (quote4 me p dg) <= 1024 ->
  ext_result c (q_ext p) (ztake (q_n p) (transit4 (q_transit p) dg)) = Ok E ->
  exists ex,
  recv4 c now (quote4 me p dg) =
  Ok (Some (mk_err (is_du p) (mk_resp_data now (q_router p)
              (PUdp ipid d sp dp (Some (t_tos (q_transit p))) ex uck (zlen payload) false)) (code_of p) E)).
Proof.
  intros Hp Hs Hd Hpeer dg Hlen HE.
  destruct (recv4_quote4 c now me p dg E Hpeer Hlen) as (N & HR & HN & Hpre); [| exact HE |].
  { unfold dg. rewrite zlen_udp4_probe by assumption. pose proof (zlen_nonneg payload). lia. }
  destruct_addr4 s Hs. destruct_addr4 d Hd. unfold dg in Hpre. rewrite udp4_probe_prefix in Hpre.
  destruct (proto_resp4_udp c N Hp HN) as (ex & _ & HF).
  - rewrite (nth_of_prefix N _ 28 _ Hpre) by (cbn; lia). reflexivity.
  - rewrite (nth_of_prefix N _ 28 _ Hpre) by (cbn; lia). reflexivity.
  - exists ex. rewrite HR. apply finish4_unfold. rewrite HF.
    assert (Hda : firstn 4 (skipn 16 N) = [d0; d1; d2; d3]).
    { assert (Ht : firstn 4 (skipn 16 (ztake 28 N)) = firstn 4 (skipn 16 N)).
      { unfold ztake. change (Z.to_nat 28) with (16 + 12)%nat. rewrite skipn_firstn_comm.
        replace (16 + 12 - 16)%nat with 12%nat by lia. rewrite firstn_firstn. reflexivity. }
      rewrite <- Ht, Hpre. reflexivity. }
    rewrite Hda. unfold u16. rewrite !(nth_of_prefix N _ 28 _ Hpre) by (cbn; lia). cbn [nth].
    rewrite tosv_id, !be_join. pose proof (zlen_nonneg payload).
    replace (Z.max 0 (8 + zlen payload - 8)) with (zlen payload) by lia. reflexivity.
Qed.

Lemma tcp4_probe_prefix t s0 s1 s2 s3 d0 d1 d2 d3 tos ttl hck ipid fl sp dp r0 r1 r2 r3 rest :
  ztake 28 (transit4 t (tcp4_probe [s0; s1; s2; s3] [d0; d1; d2; d3] tos ttl hck ipid fl sp dp (r0 :: r1 :: r2 :: r3 :: rest))) =
  [69; t_tos t; (24 + zlen (r0 :: r1 :: r2 :: r3 :: rest)) / 256; (24 + zlen (r0 :: r1 :: r2 :: r3 :: rest)) mod 256;
   ipid / 256; ipid mod 256; fl / 256; fl mod 256; t_ttl t; 6;
   t_ck t / 256; t_ck t mod 256; s0; s1; s2; s3; d0; d1; d2; d3;
   sp / 256; sp mod 256; dp / 256; dp mod 256; r0; r1; r2; r3].
Proof. reflexivity. Qed.
Lemma zlen_tcp4_probe s d tos ttl hck ipid fl sp dp rest : length s = 4%nat -> length d = 4%nat ->
  zlen (tcp4_probe s d tos ttl hck ipid fl sp dp rest) = 24 + zlen rest.
Proof.
  intros Hs Hd. unfold tcp4_probe, ipv4_hdr, tcp_segment, be_bytes. rewrite !zlen_app, !zlen_cons, !zlen_nil.
  unfold zlen at 1 2. rewrite Hs, Hd. lia.
Qed.

(* TCP / IPv4: the quotation of a SYN segment (at least the first 8 octets of the TCP header) *)
Lemma decode_tcp4_error c now me p s d tos ttl hck ipid fl sp dp rest E :
  rc_proto c = Tcp -> length s = 4%nat -> length d = 4%nat -> peer4_ok me p -> 4 <= zlen rest ->
  let dg := tcp4_probe s d tos ttl hck ipid fl sp dp rest in
  zlen (quote4 me p dg) <= 1024 ->
  ext_result c (q_ext p) (ztake (q_n p) (transit4 (q_transit p) dg)) = Ok E ->
  recv4 c now (quote4 me p dg) =
  Ok (Some (mk_err (is_du p) (mk_resp_data now (q_router p)
              (PTcp d sp dp (Some (t_tos (q_transit p))))) (code_of p) E)).
Proof.
  intros Hp Hs Hd Hpeer Hrest dg Hlen HE.
  destruct rest as [|r0 [|r1 [|r2 [|r3 rest]]]]; try (rewrite ?zlen_cons, ?zlen_nil in Hrest; lia).
  destruct (recv4_quote4 c now me p dg E Hpeer Hlen) as (N & HR & HN & Hpre); [| exact HE |].
  { unfold dg. rewrite zlen_tcp4_probe by assumption. lia. }
  destruct_addr4 s Hs. destruct_addr4 d Hd. unfold dg in Hpre. rewrite tcp4_probe_prefix in Hpre.
  rewrite HR. apply finish4_unfold. rewrite proto_resp4_tcp; try assumption.
  - assert (Hda : firstn 4 (skipn 16 N) = [d0; d1; d2; d3]).
    { assert (Ht : firstn 4 (skipn 16 (ztake 28 N)) = firstn 4 (skipn 16 N)).
      { unfold ztake. change (Z.to_nat 28) with (16 + 12)%nat. rewrite skipn_firstn_comm.
        replace (16 + 12 - 16)%nat with 12%nat by lia. rewrite firstn_firstn. reflexivity. }
      rewrite <- Ht, Hpre. reflexivity. }
    rewrite Hda. unfold u16. rewrite !(nth_of_prefix N _ 28 _ Hpre) by (cbn; lia). cbn [nth].
    rewrite tosv_id. do 3 f_equal; lia.
  - rewrite (nth_of_prefix N _ 28 _ Hpre) by (cbn; lia). reflexivity.
  - rewrite (nth_of_prefix N _ 28 _ Hpre) by (cbn; lia). reflexivity.
Qed.

(* ICMP / IPv4: Echo Reply from the target *)
Lemma decode_echo_reply4 c now me target o_tos o_id o_fl o_ttl o_ck o_opts ck id seq payload :
  rc_proto c = Icmp -> length me = 4%nat -> length target = 4%nat ->
  zlen o_opts = 4 * (zlen o_opts / 4) -> zlen o_opts <= 40 ->
  let b := echo_reply4 me target o_tos o_id o_fl o_ttl o_ck o_opts ck id seq payload in
  zlen b <= 1024 ->
  recv4 c now b = Ok (Some (REchoReply (mk_resp_data now target (PIcmp id seq None)) 0)).
Proof.
  intros Hp Hme Ht Ho1 Ho2 b Hlen. unfold b, echo_reply4 in *.
  set (H := ipv4_hdr _ _ _ _ _ _ _ _ _ _) in *.
  assert (HH : hdr4_ok H) by (apply ipv4_hdr_ok; assumption).
  assert (Hsrc : forall x, ipv4_get_source (H ++ x) = Ok target) by (intros x; apply ipv4_hdr_source; assumption).
  unfold icmp_echo, be_bytes in *. cbn [app] in *.
  set (icmp := 0 :: 0 :: _) in *.
  assert (Hi : zlen icmp = 8 + zlen payload) by apply zlen8.
  pose proof (zlen_nonneg payload). destruct HH as [HH1 HH2].
  rewrite zlen_app in Hlen.
  unfold recv4, recv_icmp_probe4, MAX_PACKET_SIZE.
  rewrite ztake_all by (rewrite zlen_app; lia).
  unfold new_view at 1. rewrite zlen_app. replace (20 <=? zlen H + zlen icmp) with true by lia. cbn [bind].
  unfold extract_probe_resp4. rewrite Hsrc. cbn [bind].
  rewrite ipv4_payload_app by (split; assumption). cbn [bind].
  unfold new_view at 1. replace (8 <=? zlen icmp) with true by lia. cbn [bind].
  rewrite !read_ok by lia. cbn [bind].
  change (nth (Z.to_nat 0) icmp 0) with 0. change (nth (Z.to_nat 1) icmp 0) with 0.
  change (0 =? 11) with false. change (0 =? 3) with false. change (0 =? 0) with true. cbn iota.
  rewrite Hp. unfold new_view. replace (8 <=? zlen icmp) with true by lia. cbn [bind].
  rewrite !get_u16_ok by lia. cbn [bind].
  change (nth (Z.to_nat 4) icmp 0) with (id / 256). change (nth (Z.to_nat (4 + 1)) icmp 0) with (id mod 256).
  change (nth (Z.to_nat 6) icmp 0) with (seq / 256). change (nth (Z.to_nat (6 + 1)) icmp 0) with (seq mod 256).
  do 5 f_equal; lia.
Qed.

(* ---- the strategy side: validate, sequence recovery, trace id *)
From TV Require Import Net.ProbeShape.

Lemma list_eqb_refl a : list_eqb a a = true.
Proof. induction a as [|x a IH]; [reflexivity|]. cbn. rewrite Z.eqb_refl, IH. reflexivity. Qed.

Lemma check_trace_id_0 sc : check_trace_id sc 0 = true.
Proof. unfold check_trace_id. apply orb_true_r. Qed.

Lemma resp_data_mk_err du d code E : resp_data_of (mk_err du d code E) = d.
Proof. destruct du; reflexivity. Qed.

Lemma recognised_icmp sc du now router code E id seq tos :
  trace_identifier sc = id ->
  recognised sc (mk_err du (mk_resp_data now router (PIcmp id seq tos)) code E) seq.
Proof.
  intros Hid. unfold recognised. rewrite resp_data_mk_err. split; [reflexivity|].
  destruct du; cbn; eexists; (split; [reflexivity|]); cbn; unfold check_trace_id; rewrite Hid, Z.eqb_refl; auto.
Qed.

Lemma recognised_echo_reply sc now target id seq :
  trace_identifier sc = id ->
  recognised sc (REchoReply (mk_resp_data now target (PIcmp id seq None)) 0) seq.
Proof.
  intros Hid. unfold recognised. split; [reflexivity|].
  cbn; eexists; (split; [reflexivity|]); cbn; unfold check_trace_id; rewrite Hid, Z.eqb_refl; auto.
Qed.

(* UDP: the fields chosen by probe_data (model A) are found again by validate / ProtocolStrategyResponse::from *)
Lemma recognised_udp sc du now router code E ipid d sp dp tos ex ck plen magic s fl :
  proto sc = Udp -> target_addr sc = d ->
  probe_data sc s = Ok (sp, dp, ipid, fl) ->
  (has_flag fl 1 = true -> ck = sequence s) ->
  (multipath sc = Dublin -> is_v6 d = true -> magic = true /\ (initial_sequence sc + plen) mod 65536 = sequence s) ->
  recognised sc (mk_err du (mk_resp_data now router (PUdp ipid d sp dp tos ex ck plen magic)) code E) (sequence s).
Proof.
  intros Hp Ht Hd Hparis Hdublin. unfold recognised. rewrite resp_data_mk_err.
  unfold probe_data in Hd. rewrite Hp in Hd.
  unfold validate. cbn [r_proto mk_resp_data]. rewrite Ht, list_eqb_refl. unfold addr_eqb.
  destruct (multipath sc) eqn:Hm; destruct (port_direction sc) eqn:Hpd; try discriminate Hd;
    injection Hd as <- <- <- <-; cbn [validate_ports]; rewrite ?Z.eqb_refl; cbn [andb].
  all: try (split; [reflexivity|]; destruct du; cbn; rewrite Hm, Hpd; cbn; eexists; (split; [reflexivity|]); cbn; (split; [apply check_trace_id_0 | reflexivity])).
  all: try (split; [reflexivity|]; rewrite (Hparis eq_refl); destruct du; cbn; rewrite Hm, ?Hpd; cbn; eexists; (split; [reflexivity|]); cbn; (split; [apply check_trace_id_0 | reflexivity])).
  all: destruct (is_v6 d) eqn:Hv6;
    [ destruct (Hdublin eq_refl eq_refl) as [-> Hseq]; split; [reflexivity|];
      destruct du; cbn; rewrite Hm, ?Hpd, Ht, Hv6; cbn; eexists; (split; [reflexivity|]); cbn; (split; [apply check_trace_id_0 | exact Hseq])
    | split; [reflexivity|];
      destruct du; cbn; rewrite Hm, ?Hpd, Ht, Hv6; cbn; eexists; (split; [reflexivity|]); cbn; (split; [apply check_trace_id_0 | reflexivity]) ].
Qed.

Lemma recognised_tcp sc du now router code E d sp dp tos s ipid fl :
  proto sc = Tcp -> target_addr sc = d ->
  probe_data sc s = Ok (sp, dp, ipid, fl) ->
  recognised sc (mk_err du (mk_resp_data now router (PTcp d sp dp tos)) code E) (sequence s).
Proof.
  intros Hp Ht Hd. unfold recognised. rewrite resp_data_mk_err.
  unfold probe_data in Hd. rewrite Hp in Hd.
  unfold validate. cbn [r_proto mk_resp_data]. rewrite Ht, list_eqb_refl. unfold addr_eqb.
  destruct (port_direction sc) eqn:Hpd; try discriminate Hd;
    injection Hd as <- <- <- <-; cbn [validate_ports]; rewrite ?Z.eqb_refl; cbn [andb];
    (split; [reflexivity|]); destruct du; cbn; rewrite Hpd; cbn; eexists; (split; [reflexivity|]); cbn; (split; [apply check_trace_id_0 | reflexivity]).
Qed.

(* ================================================================== IPv6 *)
Definition finish6 (c : rcfg) (now : Z) (src : addr) (du : bool) (code : Z) (N : list Z) (E : option exts)
  : result (option response) :=
  let* pr := extract_probe_proto_resp6 c N in
  Ok (option_map (fun x => mk_err du (mk_resp_data now src x) code E) pr).

Lemma ztake8 (a b c d e f g h : Z) Q n : 8 <= n -> ztake n (a :: b :: c :: d :: e :: f :: g :: h :: Q) = a :: b :: c :: d :: e :: f :: g :: h :: ztake (n - 8) Q.
Proof.
  intros H. change (a :: b :: c :: d :: e :: f :: g :: h :: Q) with ([a; b; c; d; e; f; g; h] ++ Q).
  rewrite ztake_app by (cbn; lia). reflexivity.
Qed.

(* the ICMPv6 error stage; the receive buffer keeps the first 1024 octets of the message *)
Lemma recv6_icmp_error c now from (du : bool) code c1 c2 b4 b5 b6 b7 Q :
  is_v6 from = true -> (du = false -> code = 0) ->
  recv6 c now (Some from) ((if du then 1 else 3) :: code :: c1 :: c2 :: b4 :: b5 :: b6 :: b7 :: Q) =
  let* ne := nested_of 8 40 c du b4 (ztake 1016 Q) in finish6 c now from du code (fst ne) (snd ne).
Proof.
  intros Hv6 Hcode. unfold recv6, recv_icmp_probe6, MAX_PACKET_SIZE.
  rewrite ztake8 by lia. change (1024 - 8) with 1016. set (Q' := ztake 1016 Q).
  set (icmp := (if du then 1 else 3) :: code :: c1 :: c2 :: b4 :: b5 :: b6 :: b7 :: Q').
  assert (Hi : zlen icmp = 8 + zlen Q') by apply zlen8. pose proof (zlen_nonneg Q').
  unfold new_view at 1. replace (8 <=? zlen icmp) with true by lia. cbn [bind]. rewrite Hv6.
  unfold extract_probe_resp6. rewrite !read_ok by lia. cbn [bind].
  change (nth (Z.to_nat 0) icmp 0) with (if du then 1 else 3).
  change (nth (Z.to_nat 1) icmp 0) with code.
  assert (Hraw : err_payload_raw6 icmp = Ok Q').
  { unfold err_payload_raw6. rewrite zslice_from_ok by lia. reflexivity. }
  assert (Hsp : split_payload_extension6 icmp = split (b4 * 8) Q').
  { unfold split_payload_extension6. rewrite read_ok by lia. cbn [bind]. rewrite zslice_from_ok by lia. reflexivity. }
  unfold nested_of, finish6.
  destruct du.
  - change (1 =? 3) with false. change (1 =? 1) with true. cbn [bind].
    unfold new_view at 1. replace (8 <=? zlen icmp) with true by lia. cbn [bind].
    unfold err_payload6, err_extension6. rewrite Hsp.
    destruct (rc_ext c); destruct (split (b4 * 8) Q') as [[N e0]| |]; cbn [bind fst snd]; try reflexivity.
    + destruct (new_view 40 N); cbn [bind]; try reflexivity.
      destruct (ext_of e0); cbn [bind fst snd]; reflexivity.
    + destruct (new_view 40 N); cbn [bind fst snd]; reflexivity.
  - rewrite (Hcode eq_refl). change (3 =? 3) with true. change (0 =? 0) with true. cbn [bind].
    unfold new_view at 1. replace (8 <=? zlen icmp) with true by lia. cbn [bind].
    destruct (rc_ext c); cbn [bind].
    + unfold err_payload6, err_extension6. rewrite Hsp.
      destruct (split (b4 * 8) Q') as [[N e0]| |]; cbn [bind fst snd]; try reflexivity.
    + rewrite Hraw. cbn [bind]. destruct (new_view 40 Q'); cbn [bind fst snd]; reflexivity.
Qed.

(* Ipv6Packet::payload of a quoted datagram of at least 48 octets whose payload length field is at least 8 *)
Lemma ipv6_payload_spec N : 48 <= zlen N -> 8 <= u16 N 4 ->
  exists P, ipv6_payload N = Ok P /\ zlen P = Z.min (u16 N 4) (zlen N - 40) /\
            (forall i, Z.of_nat i < zlen P -> nth i P 0 = nth (40 + i) N 0).
Proof.
  intros HN Hpl. unfold ipv6_payload, ipv6_get_payload_length.
  rewrite get_u16_ok by lia. cbn [bind]. change (Z.to_nat 4) with 4%nat. change (Z.to_nat (4 + 1)) with 5%nat.
  fold (u16 N 4). replace (zlen N <=? 40) with false by lia.
  rewrite zslice_ok by lia. eexists. split; [reflexivity|]. split.
  - rewrite zlen_zslice by lia. lia.
  - intros i Hi. rewrite zlen_zslice in Hi by lia.
    rewrite nth_firstn_lt by lia. change (Z.to_nat 40) with 40%nat. apply nth_skipn_add.
Qed.

Lemma starts_with_app p r : starts_with (p ++ r) p = true.
Proof. induction p as [|x p IH]; [destruct r; reflexivity|]. cbn. rewrite Z.eqb_refl, IH. reflexivity. Qed.

Definition tc6 (b0 b1 : Z) : Z := (b0 mod 16) * 16 + (b1 / 16) mod 16.

Lemma proto_resp6_icmp c N : rc_proto c = Icmp -> 48 <= zlen N -> 8 <= u16 N 4 -> nth 6 N 0 = 58 ->
  extract_probe_proto_resp6 c N = Ok (Some (PIcmp (u16 N 44) (u16 N 46) (Some (tc6 (nth 0 N 0) (nth 1 N 0))))).
Proof.
  intros Hp HN Hpl H6. unfold extract_probe_proto_resp6, ipv6_get_next_header.
  rewrite read_ok by lia. cbn [bind]. change (Z.to_nat 6) with 6%nat. rewrite H6, Hp. change (58 =? 58) with true. cbn iota.
  unfold extract_echo_request6. destruct (ipv6_payload_spec N HN Hpl) as (P & -> & HP & Hnth). cbn [bind].
  unfold new_view. replace (8 <=? zlen P) with true by lia. cbn [bind].
  rewrite !get_u16_ok by lia. cbn [bind].
  change (Z.to_nat 4) with 4%nat. change (Z.to_nat (4 + 1)) with 5%nat. change (Z.to_nat 6) with 6%nat. change (Z.to_nat (6 + 1)) with 7%nat.
  rewrite !Hnth by lia. unfold ipv6_get_traffic_class. rewrite !read_ok by lia. reflexivity.
Qed.

Lemma firstn16_skipn24 N L : ztake 40 N = L -> firstn 16 (skipn 24 N) = firstn 16 (skipn 24 L).
Proof.
  intros <-. unfold ztake. change (Z.to_nat 40) with (24 + 16)%nat. rewrite skipn_firstn_comm.
  replace (24 + 16 - 24)%nat with 16%nat by lia. rewrite firstn_firstn. reflexivity.
Qed.

(* UDP: ports, checksum; the Dublin marker and the payload length *)
Lemma proto_resp6_udp c N : rc_proto c = Udp -> 48 <= zlen N -> 8 <= u16 N 4 -> nth 6 N 0 = 17 ->
  exists plen magic,
  extract_probe_proto_resp6 c N =
  Ok (Some (PUdp 0 (firstn 16 (skipn 24 N)) (u16 N 40) (u16 N 42) (Some (tc6 (nth 0 N 0) (nth 1 N 0))) (u16 N 46) (u16 N 46) plen magic))
  /\ (54 <= zlen N -> 14 <= u16 N 4 -> 14 <= u16 N 44 -> firstn 6 (skipn 48 N) = MAGIC -> magic = true /\ plen = u16 N 44 - 14).
Proof.
  intros Hp HN Hpl H6. unfold extract_probe_proto_resp6, ipv6_get_next_header.
  rewrite read_ok by lia. cbn [bind]. change (Z.to_nat 6) with 6%nat. rewrite H6, Hp. change (17 =? 17) with true. cbn iota.
  unfold extract_udp_packet6, udp_payload_has_magic_prefix.
  destruct (ipv6_payload_spec N HN Hpl) as (P & -> & HP & Hnth). cbn [bind].
  unfold new_view. replace (8 <=? zlen P) with true by lia. cbn [bind].
  rewrite !get_u16_ok by lia. cbn [bind].
  change (Z.to_nat 0) with 0%nat. change (Z.to_nat (0 + 1)) with 1%nat. change (Z.to_nat 2) with 2%nat. change (Z.to_nat (2 + 1)) with 3%nat.
  change (Z.to_nat 4) with 4%nat. change (Z.to_nat (4 + 1)) with 5%nat. change (Z.to_nat 6) with 6%nat. change (Z.to_nat (6 + 1)) with 7%nat.
  rewrite !Hnth by lia. rewrite zslice_from_ok by lia. cbn [bind].
  unfold ipv6_get_destination_address, ipv6_get_traffic_class. rewrite zslice_ok by lia. rewrite !read_ok by lia. cbn [bind].
  change (40 + 0)%nat with 40%nat. change (40 + 1)%nat with 41%nat. change (40 + 2)%nat with 42%nat. change (40 + 3)%nat with 43%nat.
  change (40 + 4)%nat with 44%nat. change (40 + 5)%nat with 45%nat. change (40 + 6)%nat with 46%nat. change (40 + 7)%nat with 47%nat.
  fold (u16 N 40). fold (u16 N 42). fold (u16 N 44). fold (u16 N 46).
  set (ulen := Z.max 0 (u16 N 44 - 8)). set (prefix := starts_with (skipn (Z.to_nat 8) P) MAGIC).
  exists (fst (if (6 <=? ulen) && prefix then (ulen - 6, true) else (ulen, false))),
         (snd (if (6 <=? ulen) && prefix then (ulen - 6, true) else (ulen, false))).
  split.
  - destruct ((6 <=? ulen) && prefix); reflexivity.
  - intros HN54 Hpl14 Hul Hmagic.
    assert (Hpre : prefix = true).
    { unfold prefix. change (Z.to_nat 8) with 8%nat.
      assert (HP14 : 14 <= zlen P) by lia.
      assert (Hsk : firstn 6 (skipn 8 P) = MAGIC).
      { rewrite <- Hmagic. apply nth_ext with (d := 0) (d' := 0).
        - rewrite !firstn_length, !skipn_length. unfold zlen in *. lia.
        - intros i Hi. rewrite firstn_length, skipn_length in Hi.
          rewrite !nth_firstn_lt by lia. rewrite !nth_skipn_add. rewrite Hnth by lia. f_equal; lia. }
      rewrite <- (firstn_skipn 6 (skipn 8 P)). rewrite Hsk. apply starts_with_app. }
    rewrite Hpre. replace (6 <=? ulen) with true by (unfold ulen; lia). cbn [andb fst snd].
    split; [reflexivity | unfold ulen; lia].
Qed.

Lemma proto_resp6_tcp c N : rc_proto c = Tcp -> 60 <= zlen N -> 20 <= u16 N 4 -> nth 6 N 0 = 6 ->
  extract_probe_proto_resp6 c N =
  Ok (Some (PTcp (firstn 16 (skipn 24 N)) (u16 N 40) (u16 N 42) (Some (tc6 (nth 0 N 0) (nth 1 N 0))))).
Proof.
  intros Hp HN Hpl H6. unfold extract_probe_proto_resp6, ipv6_get_next_header.
  rewrite read_ok by lia. cbn [bind]. change (Z.to_nat 6) with 6%nat. rewrite H6, Hp. change (6 =? 6) with true. cbn iota.
  unfold extract_tcp_packet6.
  destruct (ipv6_payload_spec N) as (P & -> & HP & Hnth); [lia | lia |]. cbn [bind].
  unfold new_view. replace (20 <=? zlen P) with true by lia. cbn [bind].
  rewrite !get_u16_ok by lia. cbn [bind].
  change (Z.to_nat 0) with 0%nat. change (Z.to_nat (0 + 1)) with 1%nat. change (Z.to_nat 2) with 2%nat. change (Z.to_nat (2 + 1)) with 3%nat.
  rewrite !Hnth by lia.
  unfold ipv6_get_destination_address, ipv6_get_traffic_class. rewrite zslice_ok by lia. rewrite !read_ok by lia. reflexivity.
Qed.

Lemma proto_resp6_other c N : 40 <= zlen N ->
  nth 6 N 0 <> match rc_proto c with Icmp => 58 | Udp => 17 | Tcp => 6 end ->
  extract_probe_proto_resp6 c N = Ok None.
Proof.
  intros HN H6. unfold extract_probe_proto_resp6, ipv6_get_next_header.
  rewrite read_ok by lia. cbn [bind]. change (Z.to_nat 6) with 6%nat.
  destruct (rc_proto c); match goal with |- context [?a =? ?b] => replace (a =? b) with false by lia end; reflexivity.
Qed.

(* ---- a conforming ICMPv6 error, as read from the ICMPv6 socket *)
Record peer6_ok (p : peer) : Prop := {
  p6_router : is_v6 (q_router p) = true;
  p6_ext : ext_form_ok (q_ext p);
  p6_tos : 0 <= t_tos (q_transit p) < 256;
}.
(* the part of the quotation that fits the 1024-octet receive buffer *)
Definition seen6 (p : peer) (d : list Z) : list Z := ztake (Z.min (q_n p) 1016) (transit6 (q_transit p) d).

Lemma ztake_ztake_min a b l : 0 <= a -> 0 <= b -> ztake a (ztake b l) = ztake (Z.min a b) l.
Proof. intros Ha Hb. unfold ztake. rewrite firstn_firstn. f_equal. lia. Qed.

Lemma recv6_quote6 c now p d E k :
  peer6_ok p -> (q_ext p = XNone \/ zlen (quote6 p d) <= 1024) ->
  40 <= k <= 128 -> k <= q_n p -> k <= zlen d ->
  ext_result c (q_ext p) (seen6 p d) = Ok E ->
  exists N, recv6 c now (Some (q_router p)) (quote6 p d) = finish6 c now (q_router p) (is_du p) (code_of p) N E
            /\ k <= zlen N /\ ztake k N = ztake k (transit6 (q_transit p) d).
Proof.
  intros [Hr Hx Htos] Hlen Hk Hn Hd HE.
  set (X := transit6 (q_transit p) d) in *.
  set (q := ztake (q_n p) X).
  set (q' := seen6 p d) in *.
  assert (HX : zlen X = zlen d) by apply zlen_transit6.
  assert (Hq' : k <= zlen q') by (unfold q', seen6; fold X; rewrite zlen_ztake by lia; lia).
  destruct (nested_of_orig 8 40 k c (is_du p) (q_ext p) q' E) as (N & HN & HNk & Hpre); try lia; auto.
  exists N. split; [|split; [exact HNk|]].
  2:{ rewrite Hpre. unfold q', seen6. fold X. apply ztake_ztake. lia. }
  (* what the buffer keeps is the quotation of q' *)
  assert (Hkeep : ztake 1016 (fst (orig_field 8 (q_ext p) q) ++ ext_bytes (q_ext p)) = fst (orig_field 8 (q_ext p) q') ++ ext_bytes (q_ext p)
                  /\ snd (orig_field 8 (q_ext p) q) = snd (orig_field 8 (q_ext p) q')).
  { unfold quote6, icmp_error in Hlen. fold X in Hlen. fold q in Hlen. unfold be_bytes in Hlen. cbn [app] in Hlen.
    rewrite zlen8 in Hlen.
    destruct (q_ext p) as [|e|e] eqn:Ex; cbn [orig_field fst snd ext_bytes] in *.
    - rewrite !app_nil_r. split; [|reflexivity]. unfold q, q', seen6. fold X. rewrite ztake_ztake_min by lia. f_equal. lia.
    - destruct Hlen as [Hlen | Hlen]; [discriminate|].
      set (n := Z.max 128 (8 * ((zlen q + 8 - 1) / 8))) in *.
      assert (Hnq : zlen q <= n) by (unfold n; lia).
      rewrite zlen_app, zlen_pad_to in Hlen by assumption. pose proof (zlen_nonneg e).
      assert (Hqq : q' = q).
      { unfold q', seen6, q. fold X. unfold q in Hnq. rewrite zlen_ztake in Hnq by lia.
        destruct (Z_le_gt_dec (q_n p) 1016) as [Hle | Hgt]; [f_equal; lia|].
        rewrite !ztake_all by lia. reflexivity. }
      rewrite Hqq. split; [|reflexivity]. apply ztake_all. rewrite zlen_app, zlen_pad_to by assumption. lia.
    - destruct Hlen as [Hlen | Hlen]; [discriminate|].
      assert (Hz : zlen (ztake 128 q) <= 128) by (apply zlen_ztake_le; lia).
      rewrite zlen_app, zlen_pad_to in Hlen by assumption. pose proof (zlen_nonneg e).
      assert (Hqq : ztake 128 q' = ztake 128 q).
      { unfold q', seen6, q. fold X. rewrite !ztake_ztake_min by lia. f_equal. lia. }
      rewrite Hqq. split; [|reflexivity]. apply ztake_all. rewrite zlen_app, zlen_pad_to by assumption. lia. }
  destruct Hkeep as [Hk1 Hk2].
  unfold quote6, icmp_error. fold X. fold q. unfold be_bytes. cbn [app].
  pose proof (recv6_icmp_error c now (q_router p) (is_du p) (code_of p) (q_icmp_ck p / 256) (q_icmp_ck p mod 256)
                (snd (orig_field 8 (q_ext p) q)) (q_u1 p) (q_u2 p) (q_u3 p)
                (fst (orig_field 8 (q_ext p) q) ++ ext_bytes (q_ext p)) Hr) as R.
  unfold is_du, code_of in *. destruct (q_unreach p) as [cd|].
  - rewrite R by discriminate. rewrite Hk1, Hk2, HN. reflexivity.
  - rewrite R by reflexivity. rewrite Hk1, Hk2, HN. reflexivity.
Qed.

(* ---- the IPv6 probes of this tracer, seen through the first octets of their quotation *)
Ltac destruct_addr16 s H :=
  do 16 (destruct s as [|? s]; [discriminate H|]); destruct s; [|discriminate H].

Lemma tc6_transit T x : 0 <= T < 256 -> tc6 (96 + T / 16) (T mod 16 * 16 + x mod 16) = T.
Proof. intros H. unfold tc6. lia. Qed.

Lemma icmp6_probe_prefix t s0 s1 s2 s3 s4 s5 s6 s7 s8 s9 s10 s11 s12 s13 s14 s15
      d0 d1 d2 d3 d4 d5 d6 d7 d8 d9 d10 d11 d12 d13 d14 d15 tc flow hop id seq ick payload :
  ztake 48 (transit6 t (icmp6_probe [s0; s1; s2; s3; s4; s5; s6; s7; s8; s9; s10; s11; s12; s13; s14; s15]
                                    [d0; d1; d2; d3; d4; d5; d6; d7; d8; d9; d10; d11; d12; d13; d14; d15] tc flow hop id seq ick payload)) =
  [96 + t_tos t / 16; t_tos t mod 16 * 16 + (tc mod 16 * 16 + flow / 65536) mod 16; (flow / 256) mod 256; flow mod 256;
   (8 + zlen payload) / 256; (8 + zlen payload) mod 256; 58; t_ttl t;
   s0; s1; s2; s3; s4; s5; s6; s7; s8; s9; s10; s11; s12; s13; s14; s15;
   d0; d1; d2; d3; d4; d5; d6; d7; d8; d9; d10; d11; d12; d13; d14; d15;
   128; 0; ick / 256; ick mod 256; id / 256; id mod 256; seq / 256; seq mod 256].
Proof. reflexivity. Qed.

Lemma udp6_probe_prefix t s0 s1 s2 s3 s4 s5 s6 s7 s8 s9 s10 s11 s12 s13 s14 s15
      d0 d1 d2 d3 d4 d5 d6 d7 d8 d9 d10 d11 d12 d13 d14 d15 tc flow hop sp dp uck payload :
  ztake 48 (transit6 t (udp6_probe [s0; s1; s2; s3; s4; s5; s6; s7; s8; s9; s10; s11; s12; s13; s14; s15]
                                   [d0; d1; d2; d3; d4; d5; d6; d7; d8; d9; d10; d11; d12; d13; d14; d15] tc flow hop sp dp uck payload)) =
  [96 + t_tos t / 16; t_tos t mod 16 * 16 + (tc mod 16 * 16 + flow / 65536) mod 16; (flow / 256) mod 256; flow mod 256;
   (8 + zlen payload) / 256; (8 + zlen payload) mod 256; 17; t_ttl t;
   s0; s1; s2; s3; s4; s5; s6; s7; s8; s9; s10; s11; s12; s13; s14; s15;
   d0; d1; d2; d3; d4; d5; d6; d7; d8; d9; d10; d11; d12; d13; d14; d15;
   sp / 256; sp mod 256; dp / 256; dp mod 256; (8 + zlen payload) / 256; (8 + zlen payload) mod 256; uck / 256; uck mod 256].
Proof. reflexivity. Qed.

Lemma tcp6_probe_prefix t s0 s1 s2 s3 s4 s5 s6 s7 s8 s9 s10 s11 s12 s13 s14 s15
      d0 d1 d2 d3 d4 d5 d6 d7 d8 d9 d10 d11 d12 d13 d14 d15 tc flow hop sp dp rest :
  ztake 44 (transit6 t (tcp6_probe [s0; s1; s2; s3; s4; s5; s6; s7; s8; s9; s10; s11; s12; s13; s14; s15]
                                   [d0; d1; d2; d3; d4; d5; d6; d7; d8; d9; d10; d11; d12; d13; d14; d15] tc flow hop sp dp rest)) =
  [96 + t_tos t / 16; t_tos t mod 16 * 16 + (tc mod 16 * 16 + flow / 65536) mod 16; (flow / 256) mod 256; flow mod 256;
   (4 + zlen rest) / 256; (4 + zlen rest) mod 256; 6; t_ttl t;
   s0; s1; s2; s3; s4; s5; s6; s7; s8; s9; s10; s11; s12; s13; s14; s15;
   d0; d1; d2; d3; d4; d5; d6; d7; d8; d9; d10; d11; d12; d13; d14; d15;
   sp / 256; sp mod 256; dp / 256; dp mod 256].
Proof. reflexivity. Qed.

Lemma zlen_ipv6_hdr tc flow plen nh hop s d : length s = 16%nat -> length d = 16%nat -> zlen (ipv6_hdr tc flow plen nh hop s d) = 40.
Proof. intros Hs Hd. unfold ipv6_hdr, be_bytes. rewrite !zlen_app, !zlen_cons, !zlen_nil. unfold zlen. rewrite Hs, Hd. reflexivity. Qed.
Lemma zlen_icmp6_probe s d tc flow hop id seq ick payload : length s = 16%nat -> length d = 16%nat ->
  zlen (icmp6_probe s d tc flow hop id seq ick payload) = 48 + zlen payload.
Proof.
  intros Hs Hd. unfold icmp6_probe. rewrite zlen_app, zlen_ipv6_hdr by assumption.
  unfold icmp_echo, be_bytes. rewrite !zlen_app, !zlen_cons, !zlen_nil. lia.
Qed.
Lemma zlen_udp6_probe s d tc flow hop sp dp uck payload : length s = 16%nat -> length d = 16%nat ->
  zlen (udp6_probe s d tc flow hop sp dp uck payload) = 48 + zlen payload.
Proof.
  intros Hs Hd. unfold udp6_probe. rewrite zlen_app, zlen_ipv6_hdr by assumption.
  unfold udp_dgram, be_bytes. rewrite !zlen_app, !zlen_cons, !zlen_nil. lia.
Qed.
Lemma zlen_tcp6_probe s d tc flow hop sp dp rest : length s = 16%nat -> length d = 16%nat ->
  zlen (tcp6_probe s d tc flow hop sp dp rest) = 44 + zlen rest.
Proof.
  intros Hs Hd. unfold tcp6_probe. rewrite zlen_app, zlen_ipv6_hdr by assumption.
  unfold tcp_segment, be_bytes. rewrite !zlen_app, !zlen_cons, !zlen_nil. lia.
Qed.

Lemma finish6_unfold c now src du code N E pr :
  extract_probe_proto_resp6 c N = Ok (Some pr) ->
  finish6 c now src du code N E = Ok (Some (mk_err du (mk_resp_data now src pr) code E)).
Proof. intros H. unfold finish6. rewrite H. reflexivity. Qed.

(* RFC 4443 section 2.4 (c): as much of the invoking packet as fits the minimum MTU (1280 - 40 - 8 = 1232 octets) *)
Definition conforming6 (p : peer) (d : list Z) : Prop := Z.min (zlen d) 1232 <= q_n p.

(* ICMP / IPv6 *)
Lemma decode_icmp6_error c now p s d tc flow hop id seq ick payload E :
  rc_proto c = Icmp -> length s = 16%nat -> length d = 16%nat -> peer6_ok p ->
  let dg := icmp6_probe s d tc flow hop id seq ick payload in
  conforming6 p dg -> (q_ext p = XNone \/ zlen (quote6 p dg) <= 1024) ->
  ext_result c (q_ext p) (seen6 p dg) = Ok E ->
  recv6 c now (Some (q_router p)) (quote6 p dg) =
  Ok (Some (mk_err (is_du p) (mk_resp_data now (q_router p) (PIcmp id seq (Some (t_tos (q_transit p))))) (code_of p) E)).
Proof.
  intros Hp Hs Hd Hpeer dg Hconf Hlen HE.
  assert (Hdg : zlen dg = 48 + zlen payload) by (apply zlen_icmp6_probe; assumption).
  pose proof (zlen_nonneg payload). unfold conforming6 in Hconf.
  destruct (recv6_quote6 c now p dg E 48 Hpeer Hlen) as (N & -> & HN & Hpre); try lia; [exact HE|].
  apply finish6_unfold. destruct Hpeer as [_ _ Htos].
  destruct_addr16 s Hs. destruct_addr16 d Hd. unfold dg in Hpre. rewrite icmp6_probe_prefix in Hpre.
  assert (Hu4 : u16 N 4 = 8 + zlen payload).
  { unfold u16. rewrite !(nth_of_prefix N _ 48 _ Hpre) by (cbn; lia). cbn [nth]. apply be_join. }
  rewrite proto_resp6_icmp; try assumption; try lia.
  - unfold u16. rewrite !(nth_of_prefix N _ 48 _ Hpre) by (cbn; lia). cbn [nth].
    rewrite tc6_transit by assumption. rewrite !be_join. reflexivity.
  - rewrite (nth_of_prefix N _ 48 _ Hpre) by (cbn; lia). reflexivity.
Qed.

(* UDP / IPv6: ports and checksum for every payload; marker and payload length for the Dublin payload *)
Lemma decode_udp6_error c now p s d tc flow hop sp dp uck payload E :
  rc_proto c = Udp -> length s = 16%nat -> length d = 16%nat -> peer6_ok p ->
  let dg := udp6_probe s d tc flow hop sp dp uck payload in
  conforming6 p dg -> (q_ext p = XNone \/ zlen (quote6 p dg) <= 1024) ->
  ext_result c (q_ext p) (seen6 p dg) = Ok E ->
  exists plen magic,
  recv6 c now (Some (q_router p)) (quote6 p dg) =
  Ok (Some (mk_err (is_du p) (mk_resp_data now (q_router p)
              (PUdp 0 d sp dp (Some (t_tos (q_transit p))) uck uck plen magic)) (code_of p) E))
  /\ (forall pat n, payload = dublin6_payload pat n -> 0 <= n -> magic = true /\ plen = n).
Proof.
  intros Hp Hs Hd Hpeer dg Hconf Hlen HE.
  assert (Hdg : zlen dg = 48 + zlen payload) by (apply zlen_udp6_probe; assumption).
  pose proof (zlen_nonneg payload) as Hpl0. unfold conforming6 in Hconf.
  (* k = 54 when the datagram is long enough to hold the marker, 48 otherwise *)
  set (k := if 6 <=? zlen payload then 54 else 48).
  assert (Hk : 48 <= k <= 54 /\ k <= zlen dg) by (unfold k; destruct (6 <=? zlen payload) eqn:E6; lia).
  destruct (recv6_quote6 c now p dg E k Hpeer Hlen) as (N & HR & HN & Hpre); try lia; [exact HE|].
  destruct Hpeer as [_ _ Htos].
  assert (Hpre48 : ztake 48 N = ztake 48 (transit6 (q_transit p) dg)).
  { rewrite <- (ztake_ztake 48 k N), <- (ztake_ztake 48 k (transit6 _ _)) by lia. rewrite Hpre. reflexivity. }
  assert (Hda : firstn 16 (skipn 24 N) = d).
  { rewrite (firstn16_skipn24 N (ztake 40 N) eq_refl).
    rewrite <- (ztake_ztake 40 48 N) by lia. rewrite Hpre48.
    destruct_addr16 s Hs. destruct_addr16 d Hd. unfold dg. rewrite udp6_probe_prefix. reflexivity. }
  assert (Hvals : u16 N 4 = 8 + zlen payload /\ nth 6 N 0 = 17 /\ u16 N 40 = sp /\ u16 N 42 = dp /\ u16 N 44 = 8 + zlen payload
                  /\ u16 N 46 = uck /\ tc6 (nth 0 N 0) (nth 1 N 0) = t_tos (q_transit p)).
  { clear Hda. destruct_addr16 s Hs. destruct_addr16 d Hd. unfold dg in Hpre48. rewrite udp6_probe_prefix in Hpre48.
    unfold u16. rewrite !(nth_of_prefix N _ 48 _ Hpre48) by (cbn; lia). cbn [nth].
    rewrite tc6_transit by assumption. rewrite !be_join. repeat split; reflexivity. }
  destruct Hvals as (H4 & H6 & H40 & H42 & H44 & H46 & Htc).
  destruct (proto_resp6_udp c N Hp) as (plen & magic & HF & Hdub); try lia.
  exists plen, magic. split.
  - rewrite HR. apply finish6_unfold. rewrite HF, Hda, H40, H42, H46, Htc. reflexivity.
  - intros pat n Hpay Hn0.
    assert (Hzp : zlen payload = 6 + n).
    { rewrite Hpay. unfold dublin6_payload. rewrite zlen_app, zlen_repeat. change (zlen MAGIC_MARKER) with 6. lia. }
    assert (Hk54 : k = 54) by (unfold k; replace (6 <=? zlen payload) with true by lia; reflexivity).
    rewrite Hk54 in *.
    destruct Hdub as [-> ->]; try lia.
    assert (Ht : firstn 6 (skipn 48 (ztake 54 N)) = firstn 6 (skipn 48 N)).
      { unfold ztake. change (Z.to_nat 54) with (48 + 6)%nat. rewrite skipn_firstn_comm.
        replace (48 + 6 - 48)%nat with 6%nat by lia. rewrite firstn_firstn. reflexivity. }
      rewrite <- Ht, Hpre. unfold dg. rewrite Hpay.
      clear - Hs Hd. destruct_addr16 s Hs. destruct_addr16 d Hd. reflexivity.
Qed.

(* TCP / IPv6: the quotation of a SYN segment with a complete TCP header *)
Lemma decode_tcp6_error c now p s d tc flow hop sp dp rest E :
  rc_proto c = Tcp -> length s = 16%nat -> length d = 16%nat -> peer6_ok p -> 16 <= zlen rest ->
  let dg := tcp6_probe s d tc flow hop sp dp rest in
  conforming6 p dg -> (q_ext p = XNone \/ zlen (quote6 p dg) <= 1024) ->
  ext_result c (q_ext p) (seen6 p dg) = Ok E ->
  recv6 c now (Some (q_router p)) (quote6 p dg) =
  Ok (Some (mk_err (is_du p) (mk_resp_data now (q_router p) (PTcp d sp dp (Some (t_tos (q_transit p))))) (code_of p) E)).
Proof.
  intros Hp Hs Hd Hpeer Hrest dg Hconf Hlen HE.
  assert (Hdg : zlen dg = 44 + zlen rest) by (apply zlen_tcp6_probe; assumption).
  unfold conforming6 in Hconf.
  destruct (recv6_quote6 c now p dg E 60 Hpeer Hlen) as (N & -> & HN & Hpre); try lia; [exact HE|].
  apply finish6_unfold. destruct Hpeer as [_ _ Htos].
  assert (Hpre44 : ztake 44 N = ztake 44 (transit6 (q_transit p) dg)).
  { rewrite <- (ztake_ztake 44 60 N), <- (ztake_ztake 44 60 (transit6 _ _)) by lia. rewrite Hpre. reflexivity. }
  assert (Hda : firstn 16 (skipn 24 N) = d).
  { rewrite (firstn16_skipn24 N (ztake 40 N) eq_refl).
    rewrite <- (ztake_ztake 40 44 N) by lia. rewrite Hpre44.
    destruct_addr16 s Hs. destruct_addr16 d Hd. unfold dg. rewrite tcp6_probe_prefix. reflexivity. }
  assert (Hvals : u16 N 4 = 4 + zlen rest /\ nth 6 N 0 = 6 /\ u16 N 40 = sp /\ u16 N 42 = dp
                  /\ tc6 (nth 0 N 0) (nth 1 N 0) = t_tos (q_transit p)).
  { clear Hda. destruct_addr16 s Hs. destruct_addr16 d Hd. unfold dg in Hpre44. rewrite tcp6_probe_prefix in Hpre44.
    unfold u16. rewrite !(nth_of_prefix N _ 44 _ Hpre44) by (cbn; lia). cbn [nth].
    rewrite tc6_transit by assumption. rewrite !be_join. repeat split; reflexivity. }
  destruct Hvals as (H4 & H6 & H40 & H42 & Htc).
  rewrite proto_resp6_tcp; try assumption; try lia.
  rewrite Hda, H40, H42, Htc. reflexivity.
Qed.

(* ICMP / IPv6: Echo Reply from the target *)
Lemma decode_echo_reply6 c now target ck id seq payload :
  rc_proto c = Icmp -> is_v6 target = true ->
  recv6 c now (Some target) (echo_reply6 ck id seq payload) =
  Ok (Some (REchoReply (mk_resp_data now target (PIcmp id seq None)) 0)).
Proof.
  intros Hp Hv6. unfold echo_reply6, icmp_echo, be_bytes. cbn [app].
  unfold recv6, recv_icmp_probe6, MAX_PACKET_SIZE. rewrite ztake8 by lia.
  set (icmp := 129 :: 0 :: _).
  assert (Hi : zlen icmp = 8 + zlen (ztake (1024 - 8) payload)) by apply zlen8.
  pose proof (zlen_nonneg (ztake (1024 - 8) payload)).
  unfold new_view at 1. replace (8 <=? zlen icmp) with true by lia. cbn [bind]. rewrite Hv6.
  unfold extract_probe_resp6. rewrite !read_ok by lia. cbn [bind].
  change (nth (Z.to_nat 0) icmp 0) with 129. change (nth (Z.to_nat 1) icmp 0) with 0.
  change (129 =? 3) with false. change (129 =? 1) with false. change (129 =? 129) with true. cbn iota.
  rewrite Hp. unfold new_view. replace (8 <=? zlen icmp) with true by lia. cbn [bind].
  rewrite !get_u16_ok by lia. cbn [bind].
  change (nth (Z.to_nat 4) icmp 0) with (id / 256). change (nth (Z.to_nat (4 + 1)) icmp 0) with (id mod 256).
  change (nth (Z.to_nat 6) icmp 0) with (seq / 256). change (nth (Z.to_nat (6 + 1)) icmp 0) with (seq mod 256).
  rewrite !be_join. reflexivity.
Qed.

(* ================================================================== quotations of foreign datagrams *)
Lemma nth_set_nth_other i j v l : i <> j -> nth j (set_nth i v l) 0 = nth j l 0.
Proof.
  intros Hij. unfold set_nth. destruct (skipn i l) as [|x t] eqn:E; [reflexivity|].
  assert (Hi : (i < length l)%nat).
  { destruct (Nat.lt_ge_cases i (length l)) as [H|H]; [exact H|]. rewrite skipn_all2 in E by exact H. discriminate. }
  assert (Hf : length (firstn i l) = i) by (rewrite firstn_length; lia).
  destruct (Nat.lt_ge_cases j i) as [Hlt | Hge].
  - rewrite app_nth1 by lia. apply nth_firstn_lt. exact Hlt.
  - rewrite app_nth2 by lia. rewrite Hf.
    replace (nth j l 0) with (nth (j - i) (skipn i l) 0) by (rewrite nth_skipn_add; f_equal; lia).
    rewrite E. destruct (j - i)%nat as [|m] eqn:Em; [lia|]. reflexivity.
Qed.

Lemma nth_transit4_other t d j : j <> 1%nat -> j <> 8%nat -> j <> 10%nat -> j <> 11%nat ->
  nth j (transit4 t d) 0 = nth j d 0.
Proof. intros. unfold transit4. rewrite !nth_set_nth_other by auto. reflexivity. Qed.
Lemma nth_transit6_other t d j : j <> 0%nat -> j <> 1%nat -> j <> 7%nat ->
  nth j (transit6 t d) 0 = nth j d 0.
Proof. intros. unfold transit6. rewrite !nth_set_nth_other by auto. reflexivity. Qed.

Lemma list_eqb_eq a : forall b, list_eqb a b = true -> a = b.
Proof.
  induction a as [|x a IH]; intros [|y b] H; cbn in H; try discriminate; [reflexivity|].
  apply andb_prop in H. destruct H as [H1 H2]. apply Z.eqb_eq in H1. subst. f_equal. apply IH. exact H2.
Qed.
Lemma list_eqb_neq a b : a <> b -> list_eqb a b = false.
Proof. intros H. destruct (list_eqb a b) eqn:E; [|reflexivity]. exfalso. apply H. apply list_eqb_eq. exact E. Qed.

Lemma firstn4_skipn16 N : 20 <= zlen N ->
  firstn 4 (skipn 16 N) = [nth 16 N 0; nth 17 N 0; nth 18 N 0; nth 19 N 0].
Proof.
  intros H. apply nth_ext with (d := 0) (d' := 0).
  - rewrite firstn_length, skipn_length. unfold zlen in H. cbn [length]. lia.
  - intros i Hi. rewrite firstn_length, skipn_length in Hi.
    rewrite nth_firstn_lt by lia. rewrite nth_skipn_add.
    do 4 (destruct i as [|i]; [reflexivity|]). lia.
Qed.

Definition proto_num (p : protocol) : Z := match p with Icmp => 1 | Udp => 17 | Tcp => 6 end.
Definition proto_num6 (p : protocol) : Z := match p with Icmp => 58 | Udp => 17 | Tcp => 6 end.
Definition ports_foreign (pd : portdir) (sp dp : Z) : Prop :=
  match pd with
  | FixedSrc s => s <> sp
  | FixedDest x => x <> dp
  | FixedBoth s x => s <> sp \/ x <> dp
  | PdNone => True
  end.
Lemma validate_ports_foreign pd sp dp : ports_foreign pd sp dp -> validate_ports pd sp dp = false.
Proof.
  destruct pd as [|s|x|s x]; cbn; intros H; try reflexivity; try lia.
Qed.

(* a datagram (IHL = 5) this configuration cannot have sent: other protocol, or (UDP / TCP) other destination
   address or other fixed port(s), or (ICMP) a non-zero identifier other than the trace identifier *)
Definition foreign4 (sc : scfg) (d : list Z) : Prop :=
  nth 9 d 0 <> proto_num (proto sc)
  \/ (proto sc <> Icmp /\ ([nth 16 d 0; nth 17 d 0; nth 18 d 0; nth 19 d 0] <> target_addr sc
                          \/ ports_foreign (port_direction sc) (u16 d 20) (u16 d 22)))
  \/ (proto sc = Icmp /\ u16 d 24 <> trace_identifier sc /\ u16 d 24 <> 0).

Definition not_accepted (sc : scfg) (res : result (option response)) : Prop :=
  res = Ok None \/ exists r, res = Ok (Some r) /\ rejected sc r.

Lemma rejected_mk_err_validate sc du d code E : validate sc d = false -> rejected sc (mk_err du d code E).
Proof. intros H. left. rewrite resp_data_mk_err. exact H. Qed.

Lemma reject_foreign4 c sc now me p d E :
  target_addr sc = rc_dest c -> proto sc = rc_proto c ->
  peer4_ok me p -> zlen (quote4 me p d) <= 1024 -> 28 <= zlen d -> nth 0 d 0 mod 16 = 5 ->
  ext_result c (q_ext p) (ztake (q_n p) (transit4 (q_transit p) d)) = Ok E ->
  foreign4 sc d ->
  not_accepted sc (recv4 c now (quote4 me p d)).
Proof.
  intros Ht Hpr Hpeer Hlen Hd H5 HE Hf.
  destruct (recv4_quote4 c now me p d E Hpeer Hlen Hd HE) as (N & -> & HN & Hpre).
  assert (Hb : forall j, (j < 28)%nat -> j <> 1%nat -> j <> 8%nat -> j <> 10%nat -> j <> 11%nat -> nth j N 0 = nth j d 0).
  { intros j Hj H1 H8 H10 H11. rewrite (nth_of_prefix N _ 28 j Hpre) by (cbn; lia).
    rewrite nth_ztake by (cbn; lia). apply nth_transit4_other; assumption. }
  assert (H0 : nth 0 N 0 mod 16 = 5) by (rewrite Hb by lia; exact H5).
  assert (Hu : forall i, (i = 20 \/ i = 22 \/ i = 24 \/ i = 26)%nat -> u16 N i = u16 d i).
  { intros i Hi. unfold u16. rewrite !Hb by lia. reflexivity. }
  destruct (Z.eq_dec (nth 9 N 0) (proto_num (rc_proto c))) as [H9 | H9].
  2:{ left. unfold finish4. rewrite proto_resp4_other; [reflexivity | lia | exact H9]. }
  right. rewrite Hb in H9 by lia.
  destruct Hf as [Hf | [[Hni Hf] | (Hi & Hf1 & Hf2)]].
  - exfalso. apply Hf. rewrite Hpr. exact H9.
  - destruct (rc_proto c) eqn:Hp; [exfalso; apply Hni; rewrite Hpr; reflexivity | |]; cbn [proto_num] in H9.
    + destruct (proto_resp4_udp c N Hp HN H0) as (ex & _ & HF); [rewrite Hb by lia; exact H9|].
      eexists. split; [apply finish4_unfold; exact HF|]. apply rejected_mk_err_validate.
      unfold validate. cbn [r_proto mk_resp_data]. rewrite firstn4_skipn16 by lia. rewrite !Hb by lia. rewrite !Hu by auto.
      destruct Hf as [Hf | Hf].
      * unfold addr_eqb. rewrite list_eqb_neq by (intros X; apply Hf; symmetry; exact X). reflexivity.
      * rewrite (validate_ports_foreign _ _ _ Hf). rewrite andb_false_r. reflexivity.
    + eexists. split; [apply finish4_unfold; apply proto_resp4_tcp; try assumption; rewrite Hb by lia; exact H9|].
      apply rejected_mk_err_validate.
      unfold validate. cbn [r_proto mk_resp_data]. rewrite firstn4_skipn16 by lia. rewrite !Hb by lia. rewrite !Hu by auto.
      destruct Hf as [Hf | Hf].
      * unfold addr_eqb. rewrite list_eqb_neq by (intros X; apply Hf; symmetry; exact X). reflexivity.
      * rewrite (validate_ports_foreign _ _ _ Hf). apply andb_false_r.
  - assert (Hp : rc_proto c = Icmp) by (rewrite <- Hpr; exact Hi). rewrite Hp in H9. cbn [proto_num] in H9.
    eexists. split; [apply finish4_unfold; apply proto_resp4_icmp; try assumption; rewrite Hb by lia; exact H9|].
    right. destruct (is_du p); cbn; eexists; (split; [reflexivity|]); cbn; rewrite !Hu by auto;
      unfold check_trace_id; apply orb_false_intro; lia.
Qed.

(* ---- IPv6 *)
Lemma starts_with_true : forall p l, starts_with l p = true -> firstn (length p) l = p.
Proof.
  induction p as [|x p IH]; intros l H; [reflexivity|].
  destruct l as [|y l]; [discriminate H|]. cbn in H. apply andb_prop in H. destruct H as [H1 H2].
  apply Z.eqb_eq in H1. subst. cbn. f_equal. apply IH. exact H2.
Qed.

(* the marker is only reported when the quoted UDP payload really starts with it *)
Lemma proto_resp6_udp_magic c N id da sp dp tos ex ck plen :
  rc_proto c = Udp -> 48 <= zlen N -> 8 <= u16 N 4 ->
  extract_probe_proto_resp6 c N = Ok (Some (PUdp id da sp dp tos ex ck plen true)) ->
  firstn 6 (skipn 48 N) = MAGIC.
Proof.
  intros Hp HN Hpl. unfold extract_probe_proto_resp6, ipv6_get_next_header.
  rewrite read_ok by lia. cbn [bind]. rewrite Hp.
  destruct (_ =? 17); [|discriminate].
  unfold extract_udp_packet6, udp_payload_has_magic_prefix.
  destruct (ipv6_payload_spec N HN Hpl) as (P & -> & HP & Hnth). cbn [bind].
  unfold new_view. replace (8 <=? zlen P) with true by lia. cbn [bind].
  rewrite !get_u16_ok by lia. cbn [bind]. rewrite zslice_from_ok by lia. cbn [bind].
  unfold ipv6_get_destination_address, ipv6_get_traffic_class. rewrite zslice_ok by lia. rewrite !read_ok by lia. cbn [bind].
  change (Z.to_nat 8) with 8%nat.
  destruct (starts_with (skipn 8 P) MAGIC) eqn:Esw.
  2:{ rewrite andb_false_r. intros X. inversion X. }
  intros _. apply starts_with_true in Esw. change (length MAGIC) with 6%nat in Esw.
  assert (HP14 : 14 <= zlen P).
  { assert (length (firstn 6 (skipn 8 P)) = 6%nat) by (rewrite Esw; reflexivity).
    rewrite firstn_length, skipn_length in H. unfold zlen. lia. }
  rewrite <- Esw. apply nth_ext with (d := 0) (d' := 0).
  - rewrite !firstn_length, !skipn_length. unfold zlen in *. lia.
  - intros i Hi. rewrite firstn_length, skipn_length in Hi.
    rewrite !nth_firstn_lt by lia. rewrite !nth_skipn_add. rewrite Hnth by lia. f_equal; lia.
Qed.

Lemma firstn16_skipn24_nth N M : 40 <= zlen N -> 40 <= zlen M ->
  (forall j, (24 <= j < 40)%nat -> nth j N 0 = nth j M 0) -> firstn 16 (skipn 24 N) = firstn 16 (skipn 24 M).
Proof.
  intros HN HM H. apply nth_ext with (d := 0) (d' := 0).
  - rewrite !firstn_length, !skipn_length. unfold zlen in *. lia.
  - intros i Hi. rewrite firstn_length, skipn_length in Hi.
    rewrite !nth_firstn_lt by lia. rewrite !nth_skipn_add. apply H. lia.
Qed.

Definition foreign6 (sc : scfg) (d : list Z) : Prop :=
  nth 6 d 0 <> proto_num6 (proto sc)
  \/ (proto sc <> Icmp /\ (firstn 16 (skipn 24 d) <> target_addr sc
                          \/ ports_foreign (port_direction sc) (u16 d 40) (u16 d 42)))
  \/ (proto sc = Udp /\ multipath sc = Dublin /\ is_v6 (target_addr sc) = true /\ firstn 6 (skipn 48 d) <> MAGIC_MARKER)
  \/ (proto sc = Icmp /\ u16 d 44 <> trace_identifier sc /\ u16 d 44 <> 0).

Lemma reject_foreign6 c sc now p d E :
  target_addr sc = rc_dest c -> proto sc = rc_proto c ->
  peer6_ok p -> conforming6 p d -> (q_ext p = XNone \/ zlen (quote6 p d) <= 1024) ->
  (if match rc_proto c with Tcp => true | _ => false end then 60 <= zlen d /\ 20 <= u16 d 4 else 54 <= zlen d /\ 8 <= u16 d 4) ->
  ext_result c (q_ext p) (seen6 p d) = Ok E ->
  foreign6 sc d ->
  not_accepted sc (recv6 c now (Some (q_router p)) (quote6 p d)).
Proof.
  intros Ht Hpr Hpeer Hconf Hlen Hd HE Hf. unfold conforming6 in Hconf.
  set (k := if match rc_proto c with Tcp => true | _ => false end then 60 else 54).
  assert (Hk : 54 <= k <= 60 /\ k <= zlen d /\ 8 <= u16 d 4 /\ (rc_proto c = Tcp -> k = 60 /\ 20 <= u16 d 4)).
  { unfold k. destruct (rc_proto c); cbn in Hd |- *; repeat split; try lia; try discriminate. }
  destruct Hk as (Hk1 & Hk2 & Hpl & Hktcp).
  destruct (recv6_quote6 c now p d E k Hpeer Hlen) as (N & -> & HN & Hpre); try lia; [exact HE|].
  assert (Hb : forall j, (j < 54)%nat -> j <> 0%nat -> j <> 1%nat -> j <> 7%nat -> nth j N 0 = nth j d 0).
  { intros j Hj H0 H1 H7. rewrite (nth_of_prefix N _ k j Hpre) by lia.
    rewrite nth_ztake by lia. apply nth_transit6_other; assumption. }
  assert (Hu : forall i, (2 <= i < 53)%nat -> i <> 6%nat -> i <> 7%nat -> u16 N i = u16 d i).
  { intros i Hi H6 H7. unfold u16. rewrite !Hb by lia. reflexivity. }
  assert (Hda : firstn 16 (skipn 24 N) = firstn 16 (skipn 24 d)).
  { apply firstn16_skipn24_nth; try lia. intros j Hj. apply Hb; lia. }
  assert (HplN : 8 <= u16 N 4) by (rewrite Hu by lia; exact Hpl).
  destruct (Z.eq_dec (nth 6 N 0) (proto_num6 (rc_proto c))) as [H6 | H6].
  2:{ left. unfold finish6. rewrite proto_resp6_other; [reflexivity | lia | exact H6]. }
  right. pose proof H6 as H6d. rewrite Hb in H6d by lia.
  destruct Hf as [Hf | [[Hni Hf] | [(Hu1 & Hdub & Hv6 & Hmg) | (Hi & Hf1 & Hf2)]]].
  - exfalso. apply Hf. rewrite Hpr. exact H6d.
  - destruct (rc_proto c) eqn:Hp; [exfalso; apply Hni; rewrite Hpr; reflexivity | |]; cbn [proto_num6] in H6.
    + destruct (proto_resp6_udp c N Hp) as (plen & magic & HF & _); try lia.
      eexists. split; [apply finish6_unfold; exact HF|]. apply rejected_mk_err_validate.
      unfold validate. cbn [r_proto mk_resp_data]. rewrite Hda, !Hu by lia.
      destruct Hf as [Hf | Hf].
      * unfold addr_eqb. rewrite list_eqb_neq by (intros X; apply Hf; symmetry; exact X). reflexivity.
      * rewrite (validate_ports_foreign _ _ _ Hf). rewrite andb_false_r. reflexivity.
    + destruct (Hktcp eq_refl) as [Hk60 Hpl20].
      eexists. split; [apply finish6_unfold; apply proto_resp6_tcp; try assumption; try lia; rewrite Hu by lia; exact Hpl20|].
      apply rejected_mk_err_validate.
      unfold validate. cbn [r_proto mk_resp_data]. rewrite Hda, !Hu by lia.
      destruct Hf as [Hf | Hf].
      * unfold addr_eqb. rewrite list_eqb_neq by (intros X; apply Hf; symmetry; exact X). reflexivity.
      * rewrite (validate_ports_foreign _ _ _ Hf). apply andb_false_r.
  - assert (Hp : rc_proto c = Udp) by (rewrite <- Hpr; exact Hu1).
    destruct (proto_resp6_udp c N Hp) as (plen & magic & HF & _); try lia; [rewrite Hp in H6; exact H6|].
    eexists. split; [apply finish6_unfold; exact HF|]. apply rejected_mk_err_validate.
    unfold validate. cbn [r_proto mk_resp_data]. rewrite Hdub, Hv6.
    destruct magic; [|rewrite andb_false_r; reflexivity].
    exfalso. apply Hmg.
    pose proof (proto_resp6_udp_magic c N _ _ _ _ _ _ _ _ Hp ltac:(lia) HplN HF) as Hm.
    change MAGIC_MARKER with MAGIC. rewrite <- Hm. symmetry. apply nth_ext with (d := 0) (d' := 0).
    + rewrite !firstn_length, !skipn_length. unfold zlen in *. lia.
    + intros i Hi. rewrite firstn_length, skipn_length in Hi.
      rewrite !nth_firstn_lt by lia. rewrite !nth_skipn_add. apply Hb; lia.
  - assert (Hp : rc_proto c = Icmp) by (rewrite <- Hpr; exact Hi). rewrite Hp in H6. cbn [proto_num6] in H6.
    eexists. split; [apply finish6_unfold; apply proto_resp6_icmp; try assumption; lia|].
    right. destruct (is_du p); cbn; eexists; (split; [reflexivity|]); cbn; rewrite !Hu by lia;
      unfold check_trace_id; apply orb_false_intro; lia.
Qed.

(* ================================================================== the round trip, per protocol and family *)
Lemma is_v6_len4 (a : addr) : length a = 4%nat -> is_v6 a = false.
Proof. intros H. unfold is_v6. rewrite H. reflexivity. Qed.
Lemma is_v6_len16 (a : addr) : length a = 16%nat -> is_v6 a = true.
Proof. intros H. unfold is_v6. rewrite H. reflexivity. Qed.

Lemma r_addr_mk_err du now a pr code E : r_addr (resp_data_of (mk_err du (mk_resp_data now a pr) code E)) = a.
Proof. destruct du; reflexivity. Qed.

Lemma roundtrip_icmp4 c sc now me p src tos ttl hck seq ick payload E :
  rc_proto c = Icmp -> length src = 4%nat -> length (rc_dest c) = 4%nat -> peer4_ok me p ->
  let dg := icmp4_probe src (rc_dest c) tos ttl hck (trace_identifier sc) seq ick payload in
  zlen (quote4 me p dg) <= 1024 ->
  ext_result c (q_ext p) (ztake (q_n p) (transit4 (q_transit p) dg)) = Ok E ->
  exists r, recv4 c now (quote4 me p dg) = Ok (Some r) /\ recognised sc r seq /\ r_addr (resp_data_of r) = q_router p.
Proof.
  intros Hp Hs Hd Hpeer dg Hlen HE. eexists. split; [apply decode_icmp4_error; eassumption|].
  split; [apply recognised_icmp; reflexivity | apply r_addr_mk_err].
Qed.

Lemma roundtrip_echo_reply4 c sc now me o_tos o_id o_fl o_ttl o_ck o_opts ck seq payload :
  rc_proto c = Icmp -> length me = 4%nat -> length (rc_dest c) = 4%nat ->
  zlen o_opts = 4 * (zlen o_opts / 4) -> zlen o_opts <= 40 ->
  let b := echo_reply4 me (rc_dest c) o_tos o_id o_fl o_ttl o_ck o_opts ck (trace_identifier sc) seq payload in
  zlen b <= 1024 ->
  exists r, recv4 c now b = Ok (Some r) /\ recognised sc r seq /\ r_addr (resp_data_of r) = rc_dest c.
Proof.
  intros Hp Hme Hd Ho1 Ho2 b Hlen. eexists. split; [apply decode_echo_reply4; assumption|].
  split; [apply recognised_echo_reply; reflexivity | reflexivity].
Qed.

Lemma roundtrip_udp4 c sc now me p ts src tos ttl hck uck payload E sp dp ipid fl :
  target_addr sc = rc_dest c -> proto sc = Udp -> rc_proto c = Udp ->
  length src = 4%nat -> length (rc_dest c) = 4%nat -> peer4_ok me p ->
  probe_data sc ts = Ok (sp, dp, ipid, fl) ->
  let dg := udp4_probe src (rc_dest c) tos ttl hck ipid sp dp (if has_flag fl 1 then sequence ts else uck) payload in
  zlen (quote4 me p dg) <= 1024 ->
  ext_result c (q_ext p) (ztake (q_n p) (transit4 (q_transit p) dg)) = Ok E ->
  exists r, recv4 c now (quote4 me p dg) = Ok (Some r) /\ recognised sc r (sequence ts) /\ r_addr (resp_data_of r) = q_router p.
Proof.
  intros Ht Hps Hp Hs Hd Hpeer Hpd dg Hlen HE.
  destruct (decode_udp4_error c now me p src (rc_dest c) tos ttl hck ipid sp dp (if has_flag fl 1 then sequence ts else uck) payload E
              Hp Hs Hd Hpeer Hlen HE) as (ex & Hrecv).
  eexists. split; [exact Hrecv|]. split; [|apply r_addr_mk_err].
  eapply recognised_udp; eauto.
  - intros Hf. rewrite Hf. reflexivity.
  - intros _ Hv6. rewrite is_v6_len4 in Hv6 by assumption. discriminate.
Qed.

Lemma roundtrip_tcp4 c sc now me p ts src tos ttl hck ipid0 fl0 rest E sp dp ipid fl :
  target_addr sc = rc_dest c -> proto sc = Tcp -> rc_proto c = Tcp ->
  length src = 4%nat -> length (rc_dest c) = 4%nat -> peer4_ok me p -> 4 <= zlen rest ->
  probe_data sc ts = Ok (sp, dp, ipid, fl) ->
  let dg := tcp4_probe src (rc_dest c) tos ttl hck ipid0 fl0 sp dp rest in
  zlen (quote4 me p dg) <= 1024 ->
  ext_result c (q_ext p) (ztake (q_n p) (transit4 (q_transit p) dg)) = Ok E ->
  exists r, recv4 c now (quote4 me p dg) = Ok (Some r) /\ recognised sc r (sequence ts) /\ r_addr (resp_data_of r) = q_router p.
Proof.
  intros Ht Hps Hp Hs Hd Hpeer Hrest Hpd dg Hlen HE.
  eexists. split; [apply decode_tcp4_error; eassumption|]. split; [|apply r_addr_mk_err].
  eapply recognised_tcp; eauto.
Qed.

Lemma roundtrip_icmp6 c sc now p src tc flow hop seq ick payload E :
  rc_proto c = Icmp -> length src = 16%nat -> length (rc_dest c) = 16%nat -> peer6_ok p ->
  let dg := icmp6_probe src (rc_dest c) tc flow hop (trace_identifier sc) seq ick payload in
  conforming6 p dg -> (q_ext p = XNone \/ zlen (quote6 p dg) <= 1024) ->
  ext_result c (q_ext p) (seen6 p dg) = Ok E ->
  exists r, recv6 c now (Some (q_router p)) (quote6 p dg) = Ok (Some r) /\ recognised sc r seq /\ r_addr (resp_data_of r) = q_router p.
Proof.
  intros Hp Hs Hd Hpeer dg Hconf Hlen HE. eexists. split; [apply decode_icmp6_error; eassumption|].
  split; [apply recognised_icmp; reflexivity | apply r_addr_mk_err].
Qed.

Lemma roundtrip_echo_reply6 c sc now ck seq payload :
  rc_proto c = Icmp -> length (rc_dest c) = 16%nat ->
  exists r, recv6 c now (Some (rc_dest c)) (echo_reply6 ck (trace_identifier sc) seq payload) = Ok (Some r)
            /\ recognised sc r seq /\ r_addr (resp_data_of r) = rc_dest c.
Proof.
  intros Hp Hd. eexists. split; [apply decode_echo_reply6; [assumption | apply is_v6_len16; assumption]|].
  split; [apply recognised_echo_reply; reflexivity | reflexivity].
Qed.

(* the payload dispatch_udp_probe_raw builds: the Dublin marker + (sequence - initial_sequence) pattern octets
   when only the Dublin flag is set, the configured payload otherwise *)
Definition udp6_payload (sc : scfg) (fl pattern seq : Z) (payload : list Z) : list Z :=
  if has_flag fl 2 && negb (has_flag fl 1) then dublin6_payload pattern (seq - initial_sequence sc) else payload.

Lemma roundtrip_udp6 c sc now p ts src tc flow hop uck payload E sp dp ipid fl :
  target_addr sc = rc_dest c -> proto sc = Udp -> rc_proto c = Udp ->
  length src = 16%nat -> length (rc_dest c) = 16%nat -> peer6_ok p ->
  probe_data sc ts = Ok (sp, dp, ipid, fl) ->
  initial_sequence sc <= sequence ts < 65536 -> 0 <= initial_sequence sc ->
  let dg := udp6_probe src (rc_dest c) tc flow hop sp dp (if has_flag fl 1 then sequence ts else uck)
                       (udp6_payload sc fl (rc_pattern c) (sequence ts) payload) in
  conforming6 p dg -> (q_ext p = XNone \/ zlen (quote6 p dg) <= 1024) ->
  ext_result c (q_ext p) (seen6 p dg) = Ok E ->
  exists r, recv6 c now (Some (q_router p)) (quote6 p dg) = Ok (Some r) /\ recognised sc r (sequence ts) /\ r_addr (resp_data_of r) = q_router p.
Proof.
  intros Ht Hps Hp Hs Hd Hpeer Hpd Hseq Hinit dg Hconf Hlen HE.
  destruct (decode_udp6_error c now p src (rc_dest c) tc flow hop sp dp (if has_flag fl 1 then sequence ts else uck)
              (udp6_payload sc fl (rc_pattern c) (sequence ts) payload) E Hp Hs Hd Hpeer Hconf Hlen HE) as (plen & magic & Hrecv & Hdub).
  eexists. split; [exact Hrecv|]. split; [|apply r_addr_mk_err].
  (* recognised_udp wants the identifier of probe_data; the receive path reports 0, which only matters for Dublin/IPv4 *)
  unfold recognised. rewrite resp_data_mk_err.
  pose proof Hpd as Hpd'. unfold probe_data in Hpd'. rewrite Hps in Hpd'.
  unfold validate. cbn [r_proto mk_resp_data]. rewrite Ht, list_eqb_refl. unfold addr_eqb. rewrite (is_v6_len16 _ Hd).
  destruct (multipath sc) eqn:Hm; destruct (port_direction sc) eqn:Hpo; try discriminate Hpd';
    injection Hpd' as <- <- <- <-; cbn [validate_ports]; rewrite ?Z.eqb_refl; cbn [andb].
  all: try (split; [reflexivity|]; destruct (is_du p); cbn; rewrite Hm, ?Hpo; cbn; eexists; (split; [reflexivity|]); cbn; (split; [apply check_trace_id_0 | reflexivity])).
  all: destruct (Hdub (rc_pattern c) (sequence ts - initial_sequence sc)) as [-> ->]; [reflexivity | lia |];
    split; [reflexivity|]; destruct (is_du p); cbn; rewrite Hm, ?Hpo, Ht, (is_v6_len16 _ Hd); cbn; eexists; (split; [reflexivity|]); cbn;
    (split; [apply check_trace_id_0 | rewrite Z.mod_small by lia; lia]).
Qed.

Lemma roundtrip_tcp6 c sc now p ts src tc flow hop rest E sp dp ipid fl :
  target_addr sc = rc_dest c -> proto sc = Tcp -> rc_proto c = Tcp ->
  length src = 16%nat -> length (rc_dest c) = 16%nat -> peer6_ok p -> 16 <= zlen rest ->
  probe_data sc ts = Ok (sp, dp, ipid, fl) ->
  let dg := tcp6_probe src (rc_dest c) tc flow hop sp dp rest in
  conforming6 p dg -> (q_ext p = XNone \/ zlen (quote6 p dg) <= 1024) ->
  ext_result c (q_ext p) (seen6 p dg) = Ok E ->
  exists r, recv6 c now (Some (q_router p)) (quote6 p dg) = Ok (Some r) /\ recognised sc r (sequence ts) /\ r_addr (resp_data_of r) = q_router p.
Proof.
  intros Ht Hps Hp Hs Hd Hpeer Hrest Hpd dg Hconf Hlen HE.
  eexists. split; [apply decode_tcp6_error; eassumption|]. split; [|apply r_addr_mk_err].
  eapply recognised_tcp; eauto.
Qed.

(* ---- TCP: the outcome of the handshake as reported by the probe's own socket (recv_tcp_socket) *)
Lemma roundtrip_tcp_socket c sc now ts sp dp ipid fl o rd :
  target_addr sc = rc_dest c -> proto sc = Tcp -> rc_proto c = Tcp ->
  probe_data sc ts = Ok (sp, dp, ipid, fl) ->
  (exists a, o = TcpConnected (Some a)) \/ o = TcpConnRefused \/ (exists a, o = TcpHostUnreach (Some a)) ->
  exists r, recv_probe c now (Some (o, sp, dp)) rd = Ok (Some r) /\ recognised sc r (sequence ts)
            /\ match o with
               | TcpConnected (Some a) => r = RTcpReply (mk_resp_data now a (PTcp (rc_dest c) sp dp None))
               | TcpConnRefused => r = RTcpRefused (mk_resp_data now (rc_dest c) (PTcp (rc_dest c) sp dp None))
               | TcpHostUnreach (Some a) => r = RTimeExceeded (mk_resp_data now a (PTcp (rc_dest c) sp dp None)) 1 None
               | _ => True
               end.
Proof.
  intros Ht Hps Hp Hpd Ho. unfold recv_probe. rewrite Hp. cbn [recv_tcp_sockets].
  assert (Hrec : forall r, r_proto (resp_data_of r) = PTcp (rc_dest c) sp dp None -> recognised sc r (sequence ts)).
  { intros r Hr. unfold recognised. unfold probe_data in Hpd. rewrite Hps in Hpd.
    unfold validate. rewrite Hr, Ht, list_eqb_refl. unfold addr_eqb.
    destruct (port_direction sc) eqn:Hpo; try discriminate Hpd; injection Hpd as <- <- <- <-;
      cbn [validate_ports]; rewrite ?Z.eqb_refl; cbn [andb]; (split; [reflexivity|]);
      destruct r as [d0 cd e|d0 cd e|d0 cd|d0|d0]; cbn in Hr |- *; rewrite Hr; cbn; rewrite Hpo; cbn;
      eexists; (split; [reflexivity|]); cbn; (split; [apply check_trace_id_0 | reflexivity]). }
  destruct Ho as [[a ->] | [-> | [a ->]]]; cbn [recv_tcp_socket bind]; eexists; (split; [reflexivity|]);
    (split; [apply Hrec; reflexivity | reflexivity]).
Qed.

(* ================================================================== well-formed extension structures parse *)
Definition obj_wf (o : ext_object) : Prop :=
  match o with
  | OMpls _ es => es <> []              (* RFC 4950: at least one label stack entry *)
  | OOther c _ _ => c <> 1
  end.

(* an object as bytes: declared length = actual length, and an MPLS object carries at least one entry *)
Lemma object_bytes_shape o : obj_wf o ->
  exists pl cls st, object_bytes o = [(4 + zlen pl) / 256; (4 + zlen pl) mod 256; cls; st] ++ pl /\ (cls = 1 -> 4 <= zlen pl).
Proof.
  destruct o as [st es | c st pl]; cbn [object_bytes obj_wf]; intros Hwf.
  - exists (concat (map mpls_entry_bytes es)), 1, st. split; [reflexivity|]. intros _.
    destruct es as [|[[[l e] b] t] es]; [congruence|].
    cbn [map concat mpls_entry_bytes]. rewrite zlen_app, !zlen_cons, zlen_nil.
    pose proof (zlen_nonneg (concat (map mpls_entry_bytes es))). lia.
  - exists pl, c, st. split; [reflexivity|]. intros ->. congruence.
Qed.

Lemma object_enc_shape pl cls st rest : (cls = 1 -> 4 <= zlen pl) ->
  exists e, object_enc (([(4 + zlen pl) / 256; (4 + zlen pl) mod 256; cls; st] ++ pl) ++ rest) = Ok e.
Proof.
  intros Hc. pose proof (zlen_nonneg pl). pose proof (zlen_nonneg rest).
  set (ob := ([(4 + zlen pl) / 256; (4 + zlen pl) mod 256; cls; st] ++ pl) ++ rest).
  assert (Hl : zlen ob = 4 + zlen pl + zlen rest).
  { unfold ob. rewrite !zlen_app, !zlen_cons, zlen_nil. lia. }
  unfold object_enc. rewrite get_u16_ok by lia. cbn [bind]. rewrite !read_ok by lia. cbn [bind].
  change (nth (Z.to_nat 0) ob 0) with ((4 + zlen pl) / 256). change (nth (Z.to_nat (0 + 1)) ob 0) with ((4 + zlen pl) mod 256).
  change (nth (Z.to_nat 2) ob 0) with cls. rewrite be_join.
  rewrite zslice_ok by lia. cbn [bind].
  destruct (cls =? 1) eqn:E; [|eauto].
  assert (Hpl : firstn (Z.to_nat (4 + zlen pl - 4)) (skipn (Z.to_nat 4) ob) = pl).
  { unfold ob. change (Z.to_nat 4) with 4%nat. rewrite <- app_assoc. cbn [app skipn].
    apply firstn_app_exact. unfold zlen. lia. }
  rewrite Hpl. unfold new_view. replace (4 <=? zlen pl) with true by lia. cbn [bind].
  destruct (mpls_members_ok pl (S (length pl)) 0 0) as [ms ->]; [lia | unfold zlen; lia |]. cbn [bind]. eauto.
Qed.

Lemma objects_wf pre objs : Forall obj_wf objs -> forall f,
  Z.max 0 (zlen (concat (map object_bytes objs))) < Z.of_nat f ->
  exists obs, objects f (pre ++ concat (map object_bytes objs)) (zlen pre) = Ok obs /\ exists x, objects_enc obs = Ok x.
Proof.
  intros Hwf. revert pre. induction Hwf as [|o objs Ho _ IH]; intros pre f Hf.
  - cbn [map concat]. rewrite app_nil_r. destruct f as [|f]; [cbn in Hf; lia|]. cbn [objects].
    replace (zlen pre <? zlen pre) with false by lia. rewrite zslice_from_ok by (pose proof (zlen_nonneg pre); lia). cbn [bind].
    rewrite skipn_all2 by (unfold zlen; lia). change (zlen [] <? 4) with true. cbn iota. exists []. split; [reflexivity | exists []; reflexivity].
  - destruct (object_bytes_shape o Ho) as (pl & cls & st & Hob & Hcls).
    cbn [map concat] in *. set (rest := concat (map object_bytes objs)) in *.
    pose proof (zlen_nonneg pl). pose proof (zlen_nonneg rest). pose proof (zlen_nonneg pre).
    assert (Hlo : zlen (object_bytes o) = 4 + zlen pl) by (rewrite Hob, zlen_app, !zlen_cons, zlen_nil; lia).
    rewrite zlen_app in Hf.
    destruct f as [|f]; [lia|]. cbn [objects].
    rewrite zlen_app, zlen_app. replace (zlen pre + (zlen (object_bytes o) + zlen rest) <? zlen pre) with false by lia.
    rewrite zslice_from_ok by (rewrite !zlen_app; lia). cbn [bind].
    rewrite skipn_app_exact by (unfold zlen; lia).
    rewrite zlen_app. replace (zlen (object_bytes o) + zlen rest <? 4) with false by lia.
    rewrite get_u16_ok by (rewrite ?zlen_app; lia). cbn [bind].
    change (Z.to_nat 0) with 0%nat. change (Z.to_nat (0 + 1)) with 1%nat.
    assert (Hn0 : nth 0 (object_bytes o ++ rest) 0 = (4 + zlen pl) / 256) by (rewrite Hob; reflexivity).
    assert (Hn1 : nth 1 (object_bytes o ++ rest) 0 = (4 + zlen pl) mod 256) by (rewrite Hob; reflexivity).
    rewrite Hn0, Hn1, be_join.
    replace ((4 + zlen pl <? 4) || (zlen (object_bytes o) + zlen rest <? 4 + zlen pl)) with false by lia.
    specialize (IH (pre ++ object_bytes o) f). rewrite zlen_app, <- app_assoc in IH.
    replace (zlen pre + (4 + zlen pl)) with (zlen pre + zlen (object_bytes o)) by lia.
    destruct IH as (obs & -> & x & Hx); [fold rest; lia|]. cbn [bind].
    eexists. split; [reflexivity|]. cbn [objects_enc].
    rewrite Hob. destruct (object_enc_shape pl cls st rest Hcls) as [e ->]. cbn [bind]. rewrite Hx. cbn [bind]. eauto.
Qed.

Lemma ext_structure_parses r1 r2 ck objs : 0 <= r1 < 16 -> Forall obj_wf objs ->
  exists x, extensions_try_from (ext_structure r1 r2 ck objs) = Ok x.
Proof.
  intros Hr Hwf. unfold ext_structure, be_bytes. cbn [app].
  set (body := concat (map object_bytes objs)). set (v := (32 + r1) :: r2 :: ck / 256 :: ck mod 256 :: body).
  pose proof (zlen_nonneg body).
  assert (Hv : zlen v = 4 + zlen body) by (unfold v; rewrite !zlen_cons; lia).
  unfold extensions_try_from. unfold new_view at 1. replace (4 <=? zlen v) with true by lia. cbn [bind].
  rewrite zslice_ok by lia. cbn [bind].
  assert (Hh : firstn (Z.to_nat (4 - 0)) (skipn (Z.to_nat 0) v) = [32 + r1; r2; ck / 256; ck mod 256]) by reflexivity.
  rewrite Hh. unfold new_view. change (4 <=? zlen [32 + r1; r2; ck / 256; ck mod 256]) with true. cbn [bind].
  rewrite read_ok by (cbn; lia). cbn [bind]. change (nth (Z.to_nat 0) [32 + r1; r2; ck / 256; ck mod 256] 0) with (32 + r1).
  replace ((32 + r1) / 16 =? 2) with true by lia. cbn [negb].
  destruct (objects_wf [32 + r1; r2; ck / 256; ck mod 256] objs Hwf (S (length v))) as (obs & Ho & x & Hx).
  { fold body. unfold zlen in *. lia. }
  change (zlen [32 + r1; r2; ck / 256; ck mod 256]) with 4 in Ho. fold body in Ho. cbn [app] in Ho. fold v in Ho.
  rewrite Ho. cbn [bind]. eauto.
Qed.

Definition ext_conforming (x : ext_form) : Prop :=
  match x with
  | XNone => True
  | XRfc4884 e | XLegacy e =>
    exists r1 r2 ck objs, e = ext_structure r1 r2 ck objs /\ 0 <= r1 < 16 /\ Forall obj_wf objs
  end.

Lemma ext_conforming_form_ok x : ext_conforming x -> ext_form_ok x.
Proof.
  destruct x as [|e|e]; cbn [ext_conforming ext_form_ok]; auto; intros (r1 & r2 & ck & objs & -> & _ & _);
    unfold ext_structure, be_bytes; rewrite !zlen_app, !zlen_cons, zlen_nil;
    pose proof (zlen_nonneg (concat (map object_bytes objs))); lia.
Qed.

(* a run of one repeated octet (the probe payload) never parses as a non-empty extension structure *)
Lemma nth_repeat_lt {A} (x d : A) n i : (i < n)%nat -> nth i (repeat x n) d = x.
Proof. revert i. induction n as [|n IH]; intros [|i] H; cbn; try lia; auto. apply IH. lia. Qed.
Lemma skipn_repeat {A} (x : A) n k : skipn k (repeat x n) = repeat x (n - k).
Proof. revert k. induction n as [|n IH]; intros [|k]; cbn; auto. Qed.
Lemma firstn_repeat {A} (x : A) n k : firstn k (repeat x n) = repeat x (Nat.min k n).
Proof. revert k. induction n as [|n IH]; intros [|k]; cbn; auto. f_equal. apply IH. Qed.

Lemma try_from_repeat pat j : 0 <= pat < 256 -> 4 <= Z.of_nat j <= 8000 -> extensions_try_from (repeat pat j) = Ok [].
Proof.
  intros Hp Hj. set (v := repeat pat j). assert (Hv : zlen v = Z.of_nat j) by apply zlen_repeat.
  unfold extensions_try_from, new_view. replace (4 <=? zlen v) with true by lia. cbn [bind].
  rewrite zslice_ok by lia. cbn [bind].
  assert (Hh : zlen (firstn (Z.to_nat (4 - 0)) (skipn (Z.to_nat 0) v)) = 4) by (apply zlen_zslice; lia).
  rewrite Hh. change (4 <=? 4) with true. cbn [bind]. rewrite read_ok by lia. cbn [bind].
  change (Z.to_nat 0) with 0%nat. change (Z.to_nat (4 - 0)) with 4%nat. cbn [skipn].
  rewrite nth_firstn_lt by lia. unfold v at 1. rewrite nth_repeat_lt by lia.
  destruct (pat / 16 =? 2) eqn:E16; [|reflexivity]. cbn [negb objects].
  replace (zlen v <? 4) with false by lia. rewrite zslice_from_ok by lia. cbn [bind].
  change (Z.to_nat 4) with 4%nat. unfold v. rewrite skipn_repeat, zlen_repeat.
  destruct (Z.of_nat (j - 4) <? 4) eqn:E4; [reflexivity|].
  rewrite get_u16_ok by (rewrite ?zlen_repeat; lia). cbn [bind].
  rewrite !nth_repeat_lt by lia.
  replace ((pat * 256 + pat <? 4) || (Z.of_nat (j - 4) <? pat * 256 + pat)) with true by lia. reflexivity.
Qed.

Lemma skipn_set_nth i v l k : (i < k)%nat -> skipn k (set_nth i v l) = skipn k l.
Proof.
  intros H. unfold set_nth. destruct (skipn i l) as [|x t] eqn:E; [reflexivity|].
  assert (Hi : (i < length l)%nat).
  { destruct (Nat.lt_ge_cases i (length l)) as [Hl|Hl]; [exact Hl|]. rewrite skipn_all2 in E by exact Hl. discriminate. }
  rewrite <- (firstn_skipn i l) at 2. rewrite E.
  rewrite !skipn_app. rewrite firstn_length. replace (Nat.min i (length l)) with i by lia.
  rewrite !skipn_all2 by (rewrite firstn_length; lia). cbn [app].
  destruct (k - i)%nat as [|m] eqn:Em; [lia|]. reflexivity.
Qed.
Lemma skipn128_transit4 t d : skipn 128 (transit4 t d) = skipn 128 d.
Proof. unfold transit4. rewrite !skipn_set_nth by lia. reflexivity. Qed.
Lemma skipn128_transit6 t d : skipn 128 (transit6 t d) = skipn 128 d.
Proof. unfold transit6. rewrite !skipn_set_nth by lia. reflexivity. Qed.

(* probes whose octets from offset 128 on are pattern octets: the receiver never sees a (garbage) extension in them *)
Lemma ext_result_pattern c tr n Hd pat k :
  (forall l, skipn 128 (tr l) = skipn 128 l) -> zlen Hd <= 128 -> 0 <= pat < 256 -> 0 <= n -> Z.of_nat k <= 8000 ->
  exists E, ext_result c XNone (ztake n (tr (Hd ++ repeat pat k))) = Ok E.
Proof.
  intros Htr HH Hp Hn Hk. unfold ext_result. destruct (rc_ext c); [|eauto].
  destruct (zlen _ <=? 131) eqn:E131; [eauto|].
  set (q := ztake n (tr (Hd ++ repeat pat k))) in *.
  change (Z.to_nat 128) with 128%nat.
  assert (Hs : skipn 128 q = repeat pat (Nat.min (Z.to_nat n - 128) (k - (128 - length Hd)))).
  { unfold q, ztake. rewrite skipn_firstn_comm, Htr, skipn_app, skipn_repeat.
    rewrite (skipn_all2 Hd) by (unfold zlen in HH; lia). cbn [app]. apply firstn_repeat. }
  set (j := Nat.min (Z.to_nat n - 128) (k - (128 - length Hd))) in *.
  assert (Hj : Z.of_nat j = zlen q - 128).
  { pose proof (f_equal (@length Z) Hs) as Hl. rewrite skipn_length, repeat_length in Hl. unfold zlen in *. lia. }
  assert (Hjk : (j <= k)%nat) by (unfold j; lia).
  rewrite Hs. cbn [ext_of].
  rewrite try_from_repeat; [cbn [bind]; eauto | exact Hp | lia].
Qed.

Lemma ext_result_conforming c x q : ext_conforming x -> x <> XNone -> exists E, ext_result c x q = Ok E.
Proof.
  intros Hc Hx. unfold ext_result. destruct (rc_ext c); [|eauto].
  destruct x as [|e|e]; [congruence| |]; cbn [ext_conforming] in Hc; destruct Hc as (r1 & r2 & ck & objs & -> & Hr & Hw);
    destruct (ext_structure_parses r1 r2 ck objs Hr Hw) as [x Hx']; cbn [ext_of]; rewrite Hx'; cbn [bind]; eauto.
Qed.

(* the extension side of a conforming peer never makes the receive path fail, for probes whose octets beyond
   [Hd] are pattern octets *)
Lemma ext_result_peer c x tr n Hd pat k :
  ext_conforming x -> (forall l, skipn 128 (tr l) = skipn 128 l) -> zlen Hd <= 128 -> 0 <= pat < 256 -> 0 <= n -> Z.of_nat k <= 8000 ->
  exists E, ext_result c x (ztake n (tr (Hd ++ repeat pat k))) = Ok E.
Proof.
  intros Hc Htr HH Hp Hn Hk. destruct x as [|e|e] eqn:Ex.
  - apply ext_result_pattern; assumption.
  - apply ext_result_conforming; [exact Hc | discriminate].
  - apply ext_result_conforming; [exact Hc | discriminate].
Qed.

(* ---- the probe constructors are what the dispatch functions hand to send_to (Net/ProbeShape.v) *)
From TV Require Import Net.ProbeShape.
Lemma probe_sendto_icmp4 c size tos initseq seq tid sp dp ttl flags :
  rc_proto c = Icmp -> is_v6 (rc_dest c) = false -> 28 <= size <= 1024 ->
  exists ick, probe_sendto c size tos initseq seq tid sp dp ttl flags =
              Ok (icmp4_probe (rc_src c) (rc_dest c) tos ttl 0 tid seq ick (repeat (rc_pattern c) (Z.to_nat (size - 28)))).
Proof.
  intros Hp Hv Hs. unfold probe_sendto. rewrite Hv, Hp.
  replace ((size <? 20 + 8) || (1024 <? size)) with false by lia.
  replace (size - 20 - 8) with (size - 28) by lia. eexists. reflexivity.
Qed.
Lemma probe_sendto_udp4 c size tos initseq seq tid sp dp ttl flags :
  rc_proto c = Udp -> is_v6 (rc_dest c) = false -> rc_privileged c = true -> 28 <= size <= 1024 -> has_flag flags 1 = false ->
  exists uck, probe_sendto c size tos initseq seq tid sp dp ttl flags =
              Ok (udp4_probe (rc_src c) (rc_dest c) tos ttl 0 tid sp dp uck (repeat (rc_pattern c) (Z.to_nat (size - 28)))).
Proof.
  intros Hp Hv Hpr Hs Hf. unfold probe_sendto. rewrite Hv, Hp, Hpr, Hf.
  replace ((size <? 20 + 8) || (1024 <? size)) with false by lia.
  replace (size - 20 - 8) with (size - 28) by lia. cbn [negb]. unfold udp_wire.
  eexists. unfold udp4_probe, pattern_payload.
  set (pl := repeat (rc_pattern c) (Z.to_nat (size - 28))).
  set (u := udp_dgram sp dp _ pl).
  assert (Hu : zlen u = 8 + zlen pl) by (unfold u, udp_dgram, be_bytes; rewrite !zlen_app, !zlen_cons, zlen_nil; lia).
  rewrite Hu. replace (20 + (8 + zlen pl)) with (28 + zlen pl) by lia. reflexivity.
Qed.

(* ================================================================== final statements (no hypothesis mentions the receive code) *)
Lemma final_ext4 c p dg Hd pat k :
  ext_conforming (q_ext p) -> dg = Hd ++ repeat pat k -> zlen Hd <= 128 -> 0 <= pat < 256 -> 0 <= q_n p -> Z.of_nat k <= 8000 ->
  exists E, ext_result c (q_ext p) (ztake (q_n p) (transit4 (q_transit p) dg)) = Ok E.
Proof. intros Hc -> HH Hp Hn Hk. apply ext_result_peer; try assumption. intros l. apply skipn128_transit4. Qed.
Lemma final_ext6 c p dg Hd pat k :
  ext_conforming (q_ext p) -> dg = Hd ++ repeat pat k -> zlen Hd <= 128 -> 0 <= pat < 256 -> 0 <= q_n p -> Z.of_nat k <= 8000 ->
  exists E, ext_result c (q_ext p) (seen6 p dg) = Ok E.
Proof. intros Hc -> HH Hp Hn Hk. unfold seen6. apply ext_result_peer; try assumption; [intros l; apply skipn128_transit6 | lia]. Qed.

Record peer4_conforming (me : addr) (p : peer) : Prop := {
  pc_me : length me = 4%nat;
  pc_router : length (q_router p) = 4%nat;
  pc_opts : zlen (q_o_opts p) = 4 * (zlen (q_o_opts p) / 4) /\ zlen (q_o_opts p) <= 40;
  pc_n : 28 <= q_n p;
  pc_ext : ext_conforming (q_ext p);
}.
Lemma peer4_conforming_ok me p : peer4_conforming me p -> peer4_ok me p.
Proof. intros [H1 H2 H3 H4 H5]. constructor; auto. apply ext_conforming_form_ok. exact H5. Qed.

Record peer6_conforming (p : peer) : Prop := {
  pc6_router : length (q_router p) = 16%nat;
  pc6_tos : 0 <= t_tos (q_transit p) < 256;
  pc6_ext : ext_conforming (q_ext p);
}.
Lemma peer6_conforming_ok p : peer6_conforming p -> peer6_ok p.
Proof. intros [H1 H2 H3]. constructor; auto. apply is_v6_len16; exact H1. apply ext_conforming_form_ok. exact H3. Qed.

(* every probe is a fixed-size header part followed by its payload *)
Lemma icmp4_probe_split s d tos ttl hck id seq ick payload : length s = 4%nat -> length d = 4%nat ->
  exists A, zlen A = 28 /\ icmp4_probe s d tos ttl hck id seq ick payload = A ++ payload.
Proof.
  intros Hs Hd. exists (ipv4_hdr tos (28 + zlen payload) 0 DONT_FRAGMENT ttl 1 hck s d [] ++ [8; 0] ++ be_bytes ick ++ be_bytes id ++ be_bytes seq).
  split.
  - unfold ipv4_hdr, be_bytes. rewrite !zlen_app, !zlen_cons, !zlen_nil. unfold zlen. rewrite Hs, Hd. lia.
  - unfold icmp4_probe, icmp_echo. rewrite <- !app_assoc. reflexivity.
Qed.
Lemma udp4_probe_split s d tos ttl hck ipid sp dp uck payload : length s = 4%nat -> length d = 4%nat ->
  exists A, zlen A = 28 /\ udp4_probe s d tos ttl hck ipid sp dp uck payload = A ++ payload.
Proof.
  intros Hs Hd. exists (ipv4_hdr tos (28 + zlen payload) ipid DONT_FRAGMENT ttl 17 hck s d [] ++ be_bytes sp ++ be_bytes dp ++ be_bytes (8 + zlen payload) ++ be_bytes uck).
  split.
  - unfold ipv4_hdr, be_bytes. rewrite !zlen_app, !zlen_cons, !zlen_nil. unfold zlen. rewrite Hs, Hd. lia.
  - unfold udp4_probe, udp_dgram. rewrite <- !app_assoc. reflexivity.
Qed.
Lemma tcp4_probe_split s d tos ttl hck ipid fl sp dp rest : length s = 4%nat -> length d = 4%nat ->
  exists A, zlen A = 24 /\ tcp4_probe s d tos ttl hck ipid fl sp dp rest = A ++ rest.
Proof.
  intros Hs Hd. exists (ipv4_hdr tos (24 + zlen rest) ipid fl ttl 6 hck s d [] ++ be_bytes sp ++ be_bytes dp).
  split.
  - unfold ipv4_hdr, be_bytes. rewrite !zlen_app, !zlen_cons, !zlen_nil. unfold zlen. rewrite Hs, Hd. lia.
  - unfold tcp4_probe, tcp_segment. rewrite <- !app_assoc. reflexivity.
Qed.
Lemma icmp6_probe_split s d tc flow hop id seq ick payload : length s = 16%nat -> length d = 16%nat ->
  exists A, zlen A = 48 /\ icmp6_probe s d tc flow hop id seq ick payload = A ++ payload.
Proof.
  intros Hs Hd. exists (ipv6_hdr tc flow (8 + zlen payload) 58 hop s d ++ [128; 0] ++ be_bytes ick ++ be_bytes id ++ be_bytes seq).
  split.
  - rewrite zlen_app, zlen_ipv6_hdr by assumption. unfold be_bytes. rewrite !zlen_app, !zlen_cons, !zlen_nil. lia.
  - unfold icmp6_probe, icmp_echo. rewrite <- !app_assoc. reflexivity.
Qed.
Lemma udp6_probe_split s d tc flow hop sp dp uck payload : length s = 16%nat -> length d = 16%nat ->
  exists A, zlen A = 48 /\ udp6_probe s d tc flow hop sp dp uck payload = A ++ payload.
Proof.
  intros Hs Hd. exists (ipv6_hdr tc flow (8 + zlen payload) 17 hop s d ++ be_bytes sp ++ be_bytes dp ++ be_bytes (8 + zlen payload) ++ be_bytes uck).
  split.
  - rewrite zlen_app, zlen_ipv6_hdr by assumption. unfold be_bytes. rewrite !zlen_app, !zlen_cons, !zlen_nil. lia.
  - unfold udp6_probe, udp_dgram. rewrite <- !app_assoc. reflexivity.
Qed.
Lemma tcp6_probe_split s d tc flow hop sp dp rest : length s = 16%nat -> length d = 16%nat ->
  exists A, zlen A = 44 /\ tcp6_probe s d tc flow hop sp dp rest = A ++ rest.
Proof.
  intros Hs Hd. exists (ipv6_hdr tc flow (4 + zlen rest) 6 hop s d ++ be_bytes sp ++ be_bytes dp).
  split.
  - rewrite zlen_app, zlen_ipv6_hdr by assumption. unfold be_bytes. rewrite !zlen_app, !zlen_cons, !zlen_nil. lia.
  - unfold tcp6_probe, tcp_segment. rewrite <- !app_assoc. reflexivity.
Qed.

(* payloads: a short prefix (nothing, the two Paris octets, the Dublin marker, a TCP header) and pattern octets *)
Definition payload_ok (payload pre : list Z) (pat : Z) (k : nat) : Prop :=
  payload = pre ++ repeat pat k /\ zlen pre <= 64 /\ 0 <= pat < 256 /\ Z.of_nat k <= 8000.

Lemma final_icmp4 c sc now me p src tos ttl hck seq ick payload pre pat k :
  rc_proto c = Icmp -> length src = 4%nat -> length (rc_dest c) = 4%nat -> peer4_conforming me p ->
  payload_ok payload pre pat k ->
  let dg := icmp4_probe src (rc_dest c) tos ttl hck (trace_identifier sc) seq ick payload in
  zlen (quote4 me p dg) <= 1024 ->
  exists r, recv4 c now (quote4 me p dg) = Ok (Some r) /\ recognised sc r seq /\ r_addr (resp_data_of r) = q_router p.
Proof.
  intros Hp Hs Hd Hpeer (Hpay & Hpre & Hpat & Hk) dg Hlen.
  destruct (icmp4_probe_split src (rc_dest c) tos ttl hck (trace_identifier sc) seq ick payload Hs Hd) as (A & HA & Hdg).
  destruct (final_ext4 c p dg (A ++ pre) pat k) as [E HE]; try assumption; try (destruct Hpeer; assumption || lia).
  - unfold dg. rewrite Hdg, Hpay, app_assoc. reflexivity.
  - rewrite zlen_app. lia.
  - eapply roundtrip_icmp4; eauto. apply peer4_conforming_ok; assumption.
Qed.

Lemma final_udp4 c sc now me p ts src tos ttl hck uck payload pre pat k sp dp ipid fl :
  target_addr sc = rc_dest c -> proto sc = Udp -> rc_proto c = Udp ->
  length src = 4%nat -> length (rc_dest c) = 4%nat -> peer4_conforming me p ->
  probe_data sc ts = Ok (sp, dp, ipid, fl) -> payload_ok payload pre pat k ->
  let dg := udp4_probe src (rc_dest c) tos ttl hck ipid sp dp (if has_flag fl 1 then sequence ts else uck) payload in
  zlen (quote4 me p dg) <= 1024 ->
  exists r, recv4 c now (quote4 me p dg) = Ok (Some r) /\ recognised sc r (sequence ts) /\ r_addr (resp_data_of r) = q_router p.
Proof.
  intros Ht Hps Hp Hs Hd Hpeer Hpd (Hpay & Hpre & Hpat & Hk) dg Hlen.
  destruct (udp4_probe_split src (rc_dest c) tos ttl hck ipid sp dp (if has_flag fl 1 then sequence ts else uck) payload Hs Hd) as (A & HA & Hdg).
  destruct (final_ext4 c p dg (A ++ pre) pat k) as [E HE]; try assumption; try (destruct Hpeer; assumption || lia).
  - unfold dg. rewrite Hdg, Hpay, app_assoc. reflexivity.
  - rewrite zlen_app. lia.
  - eapply roundtrip_udp4; eauto. apply peer4_conforming_ok; assumption.
Qed.

Lemma final_tcp4 c sc now me p ts src tos ttl hck ipid0 fl0 rest sp dp ipid fl :
  target_addr sc = rc_dest c -> proto sc = Tcp -> rc_proto c = Tcp ->
  length src = 4%nat -> length (rc_dest c) = 4%nat -> peer4_conforming me p -> 4 <= zlen rest <= 56 ->
  probe_data sc ts = Ok (sp, dp, ipid, fl) ->
  let dg := tcp4_probe src (rc_dest c) tos ttl hck ipid0 fl0 sp dp rest in
  zlen (quote4 me p dg) <= 1024 ->
  exists r, recv4 c now (quote4 me p dg) = Ok (Some r) /\ recognised sc r (sequence ts) /\ r_addr (resp_data_of r) = q_router p.
Proof.
  intros Ht Hps Hp Hs Hd Hpeer Hrest Hpd dg Hlen.
  destruct (tcp4_probe_split src (rc_dest c) tos ttl hck ipid0 fl0 sp dp rest Hs Hd) as (A & HA & Hdg).
  destruct (final_ext4 c p dg (A ++ rest) 0 0) as [E HE]; try assumption; try (destruct Hpeer; assumption || lia).
  - unfold dg. rewrite Hdg. cbn [repeat]. rewrite app_nil_r. reflexivity.
  - rewrite zlen_app. lia.
  - eapply roundtrip_tcp4; eauto; [apply peer4_conforming_ok; assumption | lia].
Qed.

Lemma final_icmp6 c sc now p src tc flow hop seq ick payload pre pat k :
  rc_proto c = Icmp -> length src = 16%nat -> length (rc_dest c) = 16%nat -> peer6_conforming p ->
  payload_ok payload pre pat k ->
  let dg := icmp6_probe src (rc_dest c) tc flow hop (trace_identifier sc) seq ick payload in
  conforming6 p dg -> (q_ext p = XNone \/ zlen (quote6 p dg) <= 1024) ->
  exists r, recv6 c now (Some (q_router p)) (quote6 p dg) = Ok (Some r) /\ recognised sc r seq /\ r_addr (resp_data_of r) = q_router p.
Proof.
  intros Hp Hs Hd Hpeer (Hpay & Hpre & Hpat & Hk) dg Hconf Hlen.
  destruct (icmp6_probe_split src (rc_dest c) tc flow hop (trace_identifier sc) seq ick payload Hs Hd) as (A & HA & Hdg).
  assert (Hn : 0 <= q_n p).
  { unfold conforming6 in Hconf. pose proof (zlen_nonneg dg). lia. }
  destruct (final_ext6 c p dg (A ++ pre) pat k) as [E HE]; try assumption; try (destruct Hpeer; assumption).
  - unfold dg. rewrite Hdg, Hpay, app_assoc. reflexivity.
  - rewrite zlen_app. lia.
  - eapply roundtrip_icmp6; eauto. apply peer6_conforming_ok; assumption.
Qed.

Lemma final_udp6 c sc now p ts src tc flow hop uck payload pre pat k sp dp ipid fl :
  target_addr sc = rc_dest c -> proto sc = Udp -> rc_proto c = Udp ->
  length src = 16%nat -> length (rc_dest c) = 16%nat -> peer6_conforming p ->
  probe_data sc ts = Ok (sp, dp, ipid, fl) ->
  initial_sequence sc <= sequence ts < 65536 -> 0 <= initial_sequence sc -> sequence ts - initial_sequence sc <= 8000 ->
  0 <= rc_pattern c < 256 -> payload_ok payload pre pat k ->
  let dg := udp6_probe src (rc_dest c) tc flow hop sp dp (if has_flag fl 1 then sequence ts else uck)
                       (udp6_payload sc fl (rc_pattern c) (sequence ts) payload) in
  conforming6 p dg -> (q_ext p = XNone \/ zlen (quote6 p dg) <= 1024) ->
  exists r, recv6 c now (Some (q_router p)) (quote6 p dg) = Ok (Some r) /\ recognised sc r (sequence ts) /\ r_addr (resp_data_of r) = q_router p.
Proof.
  intros Ht Hps Hp Hs Hd Hpeer Hpd Hseq Hinit Hspan Hcpat (Hpay & Hpre & Hpat & Hk) dg Hconf Hlen.
  set (pl := udp6_payload sc fl (rc_pattern c) (sequence ts) payload) in *.
  destruct (udp6_probe_split src (rc_dest c) tc flow hop sp dp (if has_flag fl 1 then sequence ts else uck) pl Hs Hd) as (A & HA & Hdg).
  assert (Hn : 0 <= q_n p).
  { unfold conforming6 in Hconf. pose proof (zlen_nonneg dg). lia. }
  assert (Hpl : exists pre' pat' k', pl = pre' ++ repeat pat' k' /\ zlen pre' <= 64 /\ 0 <= pat' < 256 /\ Z.of_nat k' <= 8000).
  { unfold pl, udp6_payload. destruct (has_flag fl 2 && negb (has_flag fl 1)).
    - exists MAGIC_MARKER, (rc_pattern c), (Z.to_nat (sequence ts - initial_sequence sc)).
      split; [reflexivity|]. split; [cbn; lia|]. split; [assumption | lia].
    - exists pre, pat, k. auto. }
  destruct Hpl as (pre' & pat' & k' & Hpl & Hpre' & Hpat' & Hk').
  destruct (final_ext6 c p dg (A ++ pre') pat' k') as [E HE]; try assumption; try (destruct Hpeer; assumption).
  - unfold dg. rewrite Hdg, Hpl, app_assoc. reflexivity.
  - rewrite zlen_app. lia.
  - eapply roundtrip_udp6; eauto. apply peer6_conforming_ok; assumption.
Qed.

Lemma final_tcp6 c sc now p ts src tc flow hop rest sp dp ipid fl :
  target_addr sc = rc_dest c -> proto sc = Tcp -> rc_proto c = Tcp ->
  length src = 16%nat -> length (rc_dest c) = 16%nat -> peer6_conforming p -> 16 <= zlen rest <= 56 ->
  probe_data sc ts = Ok (sp, dp, ipid, fl) ->
  let dg := tcp6_probe src (rc_dest c) tc flow hop sp dp rest in
  conforming6 p dg -> (q_ext p = XNone \/ zlen (quote6 p dg) <= 1024) ->
  exists r, recv6 c now (Some (q_router p)) (quote6 p dg) = Ok (Some r) /\ recognised sc r (sequence ts) /\ r_addr (resp_data_of r) = q_router p.
Proof.
  intros Ht Hps Hp Hs Hd Hpeer Hrest Hpd dg Hconf Hlen.
  destruct (tcp6_probe_split src (rc_dest c) tc flow hop sp dp rest Hs Hd) as (A & HA & Hdg).
  assert (Hn : 0 <= q_n p).
  { unfold conforming6 in Hconf. pose proof (zlen_nonneg dg). lia. }
  destruct (final_ext6 c p dg (A ++ rest) 0 0) as [E HE]; try assumption; try (destruct Hpeer; assumption); try lia.
  - unfold dg. rewrite Hdg. cbn [repeat]. rewrite app_nil_r. reflexivity.
  - rewrite zlen_app. lia.
  - eapply roundtrip_tcp6; eauto; [apply peer6_conforming_ok; assumption | lia].
Qed.

(* foreign quotations, stated with the conforming-peer predicates.  The quoted datagram is arbitrary; with extension
   parsing enabled a long unpadded quotation of arbitrary octets can look like a (malformed) legacy extension, which
   is an error value, not an acceptance - excluded here by [ext_benign] *)
Definition ext_benign (c : rcfg) (p : peer) (n : Z) (d : list Z) : Prop :=
  rc_ext c = false \/ q_ext p <> XNone \/ n <= 131 \/ exists pre pat k, payload_ok d pre pat k.

Lemma ext_benign_result c p tr n d :
  ext_conforming (q_ext p) -> (forall l, skipn 128 (tr l) = skipn 128 l) -> 0 <= n -> ext_benign c p n d ->
  exists E, ext_result c (q_ext p) (ztake n (tr d)) = Ok E.
Proof.
  intros Hc Htr Hn [Hb | [Hb | [Hb | (pre & pat & k & Hpay & Hpre & Hpat & Hk)]]].
  - unfold ext_result. rewrite Hb. eauto.
  - apply ext_result_conforming; assumption.
  - destruct (q_ext p) eqn:Ex; try (apply ext_result_conforming; [exact Hc | discriminate]).
    unfold ext_result. destruct (rc_ext c); [|eauto].
    replace (zlen (ztake n (tr d)) <=? 131) with true; [eauto|].
    pose proof (zlen_ztake_le n (tr d) Hn). lia.
  - rewrite Hpay. apply ext_result_peer; try assumption. lia.
Qed.

Lemma final_reject_foreign4 c sc now me p d :
  target_addr sc = rc_dest c -> proto sc = rc_proto c -> peer4_conforming me p ->
  zlen (quote4 me p d) <= 1024 -> 28 <= zlen d -> nth 0 d 0 mod 16 = 5 ->
  ext_benign c p (q_n p) d ->
  foreign4 sc d -> not_accepted sc (recv4 c now (quote4 me p d)).
Proof.
  intros Ht Hpr Hpeer Hlen Hd H5 Hb Hf.
  destruct (ext_benign_result c p (transit4 (q_transit p)) (q_n p) d) as [E HE]; try assumption;
    try (destruct Hpeer; assumption || lia). { intros l. apply skipn128_transit4. }
  eapply reject_foreign4; eauto. apply peer4_conforming_ok; assumption.
Qed.

Lemma final_reject_foreign6 c sc now p d :
  target_addr sc = rc_dest c -> proto sc = rc_proto c -> peer6_conforming p ->
  conforming6 p d -> (q_ext p = XNone \/ zlen (quote6 p d) <= 1024) ->
  (if match rc_proto c with Tcp => true | _ => false end then 60 <= zlen d /\ 20 <= u16 d 4 else 54 <= zlen d /\ 8 <= u16 d 4) ->
  ext_benign c p (Z.min (q_n p) 1016) d ->
  foreign6 sc d -> not_accepted sc (recv6 c now (Some (q_router p)) (quote6 p d)).
Proof.
  intros Ht Hpr Hpeer Hconf Hlen Hd Hb Hf.
  assert (Hn : 0 <= q_n p).
  { unfold conforming6 in Hconf. pose proof (zlen_nonneg d). lia. }
  destruct (ext_benign_result c p (transit6 (q_transit p)) (Z.min (q_n p) 1016) d) as [E HE]; try assumption;
    try (destruct Hpeer; assumption); try lia. { intros l. apply skipn128_transit6. }
  eapply reject_foreign6; eauto. apply peer6_conforming_ok; assumption.
Qed.
