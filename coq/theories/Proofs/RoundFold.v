(* C05 / C19: what the aggregator (StateUpdater::apply = fs_apply, the loop fold_probes, one step update_for_probe)
   does with ONE published round, stated against an independent, position-based reading of the round:

   * forward loss at distance t (is_forward_loss): the round splits into  pre ++ st :: post  where nothing in pre is
     farther than t, st is a probe farther than t, and st and everything after it is awaited (or skipped);
   * the sticky per-round flag: the FIRST awaited probe of the round (in round order) that is forward-lost is counted
     as forward loss, every awaited probe after it as backward loss, awaited probes before it as neither, failed
     probes never;
   * NAT: the status written by the j-th responding probe (one that carries both checksums) is the j-th element of
     StateProofs.nat_spec None over the (expected, actual) pairs of the round's responding probes in round order,
     so the carried checksum starts from None in every round.

   [round_events ps t] lists, from the round alone, the updates hop t receives; the refinement theorems say the hop
   after fs_apply is hop_run_from of exactly these events, and after any sequence of rounds from a fresh flow state
   it is HopHistory.hop_run of their concatenation (so HopHistory.hop_run_is_recomputation applies to it). *)
From Coq Require Import QArith Sorted.
From TV Require Import Base.Result Core.Types Core.Flows Core.State
  Proofs.ListLemmas Proofs.HopProofs Proofs.HopHistory Proofs.FlowsProofs Proofs.StateProofs Proofs.FlowAttr.
From Coq Require Import ZifyBool.
Open Scope Z_scope.

(* ====================================================================== specification vocabulary *)

(* a status that is not a probe farther than t / is a probe farther than t / has not been answered *)
Definition not_beyond (t : Z) (s : pstatus) : Prop := forall x, status_ttl s = Some x -> x <= t.
Definition beyond (t : Z) (s : pstatus) : Prop := exists x, status_ttl s = Some x /\ t < x.
Definition unanswered (s : pstatus) : Prop := s = Skipped \/ exists p, s = Awaited p.

(* forward loss at distance t, read off the round *)
Definition fwd_lost_at (ps : list pstatus) (t : Z) : Prop :=
  exists pre st post, ps = pre ++ st :: post /\
    Forall (not_beyond t) pre /\ beyond t st /\ Forall unanswered (st :: post).

(* the same as a decision: position of the first probe farther than t, then everything from there on unanswered *)
Definition beyondb (t : Z) (s : pstatus) : bool := match status_ttl s with Some x => t <? x | None => false end.
Definition unansweredb (s : pstatus) : bool := match s with Skipped | Awaited _ => true | _ => false end.
Fixpoint find_pos {A} (f : A -> bool) (l : list A) : option nat :=
  match l with [] => None | x :: r => if f x then Some O else option_map S (find_pos f r) end.
Definition fwd_lostb (ps : list pstatus) (t : Z) : bool :=
  match find_pos (beyondb t) ps with
  | Some k => forallb unansweredb (skipn k ps)
  | None => false
  end.

(* an awaited probe whose distance is forward-lost in this round *)
Definition awaited_fwd (all : list pstatus) (s : pstatus) : bool :=
  match s with Awaited p => fwd_lostb all (p_ttl p) | _ => false end.

(* the responding probes of a round: those that carry both checksums; their (expected, actual) pairs in round order *)
Definition cks_of (s : pstatus) : list (Z * Z) :=
  match s with
  | Complete c => match c_expected c, c_actual c with Some e, Some a => [(e, a)] | _, _ => [] end
  | _ => []
  end.
Definition responders (ps : list pstatus) : list (Z * Z) := flat_map cks_of ps.

(* the updates the status s, standing after the statuses pre in the round all, causes at its hop *)
Definition status_events (all pre : list pstatus) (s : pstatus) : list hev :=
  match s with
  | Complete c =>
      HC c :: match cks_of s with
              | [] => []
              | _ :: _ => [HN (nth (length (responders pre)) (nat_spec None (responders all)) NatNotApplicable)]
              end
  | Awaited p =>
      let seen := existsb (awaited_fwd all) pre in
      [HU p false (negb seen && fwd_lostb all (p_ttl p)) seen]
  | Failed p => [HU p true false false]
  | NotSent | Skipped => []
  end.

Definition ttl_is (t : Z) (s : pstatus) : bool := match status_ttl s with Some x => x =? t | None => false end.

Definition events_at (all : list pstatus) (t : Z) (k : nat) : list hev :=
  match nth_error all k with
  | Some s => if ttl_is t s then status_events all (firstn k all) s else []
  | None => []
  end.

(* everything hop t receives from the round ps, in round order *)
Definition round_events (ps : list pstatus) (t : Z) : list hev := flat_map (events_at ps t) (seq 0 (length ps)).

(* ====================================================================== is_forward_loss *)

Lemma unansweredb_iff s : unansweredb s = true <-> unanswered s.
Proof.
  unfold unanswered. destruct s; cbn [unansweredb]; split; intros H; try discriminate; try reflexivity.
  - destruct H as [H|(p & H)]; discriminate.
  - left; reflexivity.
  - destruct H as [H|(q & H)]; discriminate.
  - right; eauto.
  - destruct H as [H|(q & H)]; discriminate.
Qed.

Lemma is_awaited_or_skipped_unansweredb s : is_awaited_or_skipped s = unansweredb s.
Proof. destruct s; reflexivity. Qed.

Lemma beyondb_true t s : beyondb t s = true <-> beyond t s.
Proof.
  unfold beyondb, beyond. destruct (status_ttl s) as [x|]; split.
  - intros H. exists x. split; [reflexivity|lia].
  - intros (y & Hy & Hlt). inversion Hy; subst. lia.
  - discriminate.
  - intros (y & Hy & _). discriminate.
Qed.

Lemma beyondb_false t s : beyondb t s = false <-> not_beyond t s.
Proof.
  unfold beyondb, not_beyond. destruct (status_ttl s) as [x|]; split.
  - intros H y Hy. inversion Hy; subst. lia.
  - intros H. specialize (H x eq_refl). lia.
  - intros _ y Hy. discriminate.
  - reflexivity.
Qed.

Lemma fwd_lostb_skip t s r : beyondb t s = false -> fwd_lostb (s :: r) t = fwd_lostb r t.
Proof.
  intros H. unfold fwd_lostb. cbn [find_pos]. rewrite H.
  destruct (find_pos (beyondb t) r) as [k|]; reflexivity.
Qed.

Lemma fwd_lostb_hit t s r : beyondb t s = true -> fwd_lostb (s :: r) t = forallb unansweredb (s :: r).
Proof. intros H. unfold fwd_lostb. cbn [find_pos]. rewrite H. reflexivity. Qed.

(* the code's skip_while / all formulation is this decision *)
Lemma is_forward_loss_lostb ps t : is_forward_loss ps t = fwd_lostb ps t.
Proof.
  induction ps as [|s r IH]; [reflexivity|].
  destruct (beyondb t s) eqn:Eb.
  - rewrite (fwd_lostb_hit t s r Eb). unfold is_forward_loss. cbn [skip_le].
    unfold beyondb in Eb. destruct (status_ttl s) as [x|]; [|discriminate].
    replace (x <=? t) with false by lia.
    reflexivity.   (* is_awaited_or_skipped and unansweredb are the same match *)
  - rewrite (fwd_lostb_skip t s r Eb), <- IH. unfold is_forward_loss. cbn [skip_le].
    unfold beyondb in Eb. destruct (status_ttl s) as [x|]; [|reflexivity].
    replace (x <=? t) with true by lia. reflexivity.
Qed.

Lemma forallb_unanswered l : forallb unansweredb l = true <-> Forall unanswered l.
Proof.
  rewrite forallb_forall, Forall_forall. split; intros H x Hx; apply unansweredb_iff; apply H; assumption.
Qed.

Lemma fwd_lostb_iff ps t : fwd_lostb ps t = true <-> fwd_lost_at ps t.
Proof.
  split.
  - induction ps as [|s r IH]; [discriminate|].
    destruct (beyondb t s) eqn:Eb.
    + rewrite (fwd_lostb_hit t s r Eb). intros H. exists [], s, r.
      split; [reflexivity|]. split; [constructor|]. split; [apply beyondb_true; assumption|apply forallb_unanswered; assumption].
    + rewrite (fwd_lostb_skip t s r Eb). intros H. destruct (IH H) as (pre & st & post & -> & Hpre & Hst & Hpost).
      exists (s :: pre), st, post. split; [reflexivity|]. split; [|split; assumption].
      constructor; [apply beyondb_false; assumption|assumption].
  - intros (pre & st & post & -> & Hpre & Hst & Hpost).
    induction pre as [|a pre IH]; cbn [app].
    + rewrite fwd_lostb_hit by (apply beyondb_true; assumption). apply forallb_unanswered. assumption.
    + rewrite fwd_lostb_skip by (apply beyondb_false; exact (Forall_inv Hpre)). apply IH. exact (Forall_inv_tail Hpre).
Qed.

Theorem is_forward_loss_meaning ps t : is_forward_loss ps t = true <-> fwd_lost_at ps t.
Proof. rewrite is_forward_loss_lostb. apply fwd_lostb_iff. Qed.

(* ====================================================================== one step of the loop *)

Lemma upd_hop_nth f l : forall i j,
  nth_error (upd_hop i f l) j = if (i =? j)%nat then option_map f (nth_error l j) else nth_error l j.
Proof.
  induction l as [|y l IH]; intros [|i] [|j]; cbn [upd_hop nth_error Nat.eqb option_map]; try reflexivity.
  - destruct (i =? j)%nat; reflexivity.
  - apply IH.
Qed.

Lemma option_map_id {A} (o : option A) : option_map (fun h => h) o = o.
Proof. destruct o; reflexivity. Qed.
Lemma option_map_comp {A B C} (f : A -> B) (g : B -> C) o : option_map g (option_map f o) = option_map (fun x => g (f x)) o.
Proof. destruct o; reflexivity. Qed.
Lemma option_map_ext {A B} (f g : A -> B) o : (forall x, f x = g x) -> option_map f o = option_map g o.
Proof. intros H. destruct o; cbn; [rewrite H|]; reflexivity. Qed.

Lemma hop_run_from_app ms h a b : hop_run_from ms (hop_run_from ms h a) b = hop_run_from ms h (a ++ b).
Proof. unfold hop_run_from. rewrite fold_left_app. reflexivity. Qed.

(* the events of one step, in terms of the updater's running state (sticky flag, carried checksum) *)
Definition step_events (all : list pstatus) (fl : bool) (prev : option Z) (s : pstatus) : list hev :=
  match s with
  | Complete c =>
      HC c :: match c_expected c, c_actual c with
              | Some e, Some a => [HN (fst (nat_status_of e a prev))]
              | _, _ => []
              end
  | Awaited p => [HU p false (negb fl && is_forward_loss all (p_ttl p)) fl]
  | Failed p => [HU p true false false]
  | NotSent | Skipped => []
  end.

Definition step_flag (all : list pstatus) (s : pstatus) : bool :=
  match s with Awaited p => is_forward_loss all (p_ttl p) | _ => false end.
Definition step_cksum (prev : option Z) (s : pstatus) : option Z :=
  match cks_of s with (_, a) :: _ => Some a | [] => prev end.

Lemma hop_index_ok t i : hop_index t = Ok i -> 1 <= t <= 254 /\ i = Z.to_nat (t - 1).
Proof.
  unfold hop_index. destruct ((1 <=? t) && (t <=? 254)) eqn:E; [|discriminate].
  intros H. inversion H. split; [lia|reflexivity].
Qed.

Lemma ttl_pick t i j : 1 <= t <= 254 -> i = Z.to_nat (t - 1) -> (i =? j)%nat = (t =? Z.of_nat j + 1).
Proof. intros Ht ->. destruct (Nat.eqb_spec (Z.to_nat (t - 1)) j); lia. Qed.

Lemma update_for_probe_step all u s u' : update_for_probe all u s = Ok u' ->
  fs_max_samples (u_fs u') = fs_max_samples (u_fs u) /\
  u_fwd_loss u' = u_fwd_loss u || step_flag all s /\
  u_prev_cksum u' = step_cksum (u_prev_cksum u) s /\
  forall i, nth_error (fs_hops (u_fs u')) i =
    option_map (fun h => hop_run_from (fs_max_samples (u_fs u)) h
                  (if ttl_is (Z.of_nat i + 1) s then step_events all (u_fwd_loss u) (u_prev_cksum u) s else []))
               (nth_error (fs_hops (u_fs u)) i).
Proof.
  intros H. destruct s as [| |p|p|c]; cbn [update_for_probe] in H.
  - inversion H; subst u'. unfold step_flag, step_cksum, ttl_is. cbn [status_ttl cks_of]. rewrite orb_false_r.
    repeat split. intros i. symmetry. apply option_map_id.
  - inversion H; subst u'. unfold step_flag, step_cksum, ttl_is. cbn [status_ttl cks_of]. rewrite orb_false_r.
    repeat split. intros i. symmetry. apply option_map_id.
  - destruct (hop_index (p_ttl p)) as [j|?|?] eqn:Ej; cbn [bind] in H; try discriminate.
    destruct (hop_index_ok _ _ Ej) as [Ht Hj]. inversion H; subst u'. clear H.
    unfold step_flag, step_cksum, ttl_is. cbn [status_ttl cks_of u_fs u_fwd_loss u_prev_cksum fs_touch fs_max_samples fs_hops].
    rewrite orb_false_r. repeat split. intros i. rewrite upd_hop_nth, (ttl_pick _ _ i Ht Hj).
    destruct (p_ttl p =? Z.of_nat i + 1); [reflexivity|symmetry; apply option_map_id].
  - destruct (hop_index (p_ttl p)) as [j|?|?] eqn:Ej; cbn [bind] in H; try discriminate.
    destruct (hop_index_ok _ _ Ej) as [Ht Hj]. inversion H; subst u'. clear H.
    unfold step_flag, step_cksum, ttl_is. cbn [status_ttl cks_of u_fs u_fwd_loss u_prev_cksum fs_touch fs_max_samples fs_hops].
    split; [reflexivity|]. split; [destruct (u_fwd_loss u); reflexivity|]. split; [reflexivity|].
    intros i. rewrite upd_hop_nth, (ttl_pick _ _ i Ht Hj).
    destruct (p_ttl p =? Z.of_nat i + 1); [reflexivity|symmetry; apply option_map_id].
  - destruct (hop_index (p_ttl (c_probe c))) as [j|?|?] eqn:Ej; cbn [bind] in H; try discriminate.
    destruct (hop_index_ok _ _ Ej) as [Ht Hj].
    unfold step_flag, step_cksum, ttl_is, step_events. cbn [status_ttl cks_of]. rewrite orb_false_r.
    destruct (c_expected c) as [e|], (c_actual c) as [a|];
      try (inversion H; subst u'; clear H;
           cbn [u_fs u_fwd_loss u_prev_cksum fs_touch fs_max_samples fs_hops]; repeat split;
           intros i; rewrite upd_hop_nth, (ttl_pick _ _ i Ht Hj);
           destruct (p_ttl (c_probe c) =? Z.of_nat i + 1); [reflexivity|symmetry; apply option_map_id]).
    pose proof (nat_status_of_spec e a (u_prev_cksum u)) as Hs.
    destruct (nat_status_of e a (u_prev_cksum u)) as [ns ck]. inversion Hs; subst ns ck. clear Hs.
    inversion H; subst u'. clear H. cbn [u_fs u_fwd_loss u_prev_cksum fs_touch fs_max_samples fs_hops fst].
    repeat split. intros i. rewrite !upd_hop_nth, (ttl_pick _ _ i Ht Hj).
    destruct (p_ttl (c_probe c) =? Z.of_nat i + 1); [|symmetry; apply option_map_id].
    rewrite option_map_comp. reflexivity.
Qed.

(* ====================================================================== the loop *)

Fixpoint events_from (all pre rest : list pstatus) (t : Z) : list hev :=
  match rest with
  | [] => []
  | s :: r => (if ttl_is t s then status_events all pre s else []) ++ events_from all (pre ++ [s]) r t
  end.

(* the checksum carried after a list of responding probes *)
Definition carried (l : list (Z * Z)) : option Z := match l with [] => None | _ => Some (snd (last l (0, 0))) end.

Lemma carried_snoc l e a : carried (l ++ [(e, a)]) = Some a.
Proof. unfold carried. rewrite last_last. destruct l; reflexivity. Qed.

Lemma nat_spec_length l : forall prev, length (nat_spec prev l) = length l.
Proof. induction l as [|[e a] l IH]; intros prev; cbn [nat_spec length]; [reflexivity|]. rewrite IH. reflexivity. Qed.

Lemma nat_spec_app l1 : forall prev l2,
  nat_spec prev (l1 ++ l2) = nat_spec prev l1 ++ nat_spec (match carried l1 with Some c => Some c | None => prev end) l2.
Proof.
  induction l1 as [|[e a] l1 IH]; intros prev l2; cbn [app nat_spec]; [reflexivity|].
  rewrite IH. f_equal. f_equal. f_equal. unfold carried. destruct l1 as [|x l1]; [reflexivity|].
  cbn [last]. reflexivity.
Qed.

Lemma responders_app a b : responders (a ++ b) = responders a ++ responders b.
Proof. apply flat_map_app. Qed.

(* the status the code writes for a responding probe standing after pre *)
Lemma nat_nth_responder pre c post e a : c_expected c = Some e -> c_actual c = Some a ->
  nth (length (responders pre)) (nat_spec None (responders (pre ++ Complete c :: post))) NatNotApplicable =
  fst (nat_status_of e a (carried (responders pre))).
Proof.
  intros He Ha. rewrite responders_app. change (Complete c :: post) with ([Complete c] ++ post).
  rewrite responders_app. unfold responders at 3. cbn [flat_map cks_of]. rewrite He, Ha. cbn [app].
  rewrite nat_spec_app, app_nth2 by (rewrite nat_spec_length; lia).
  rewrite nat_spec_length, Nat.sub_diag. cbn [nat_spec nth]. rewrite nat_status_of_spec. cbn [fst].
  unfold nat_reference. destruct (carried (responders pre)); reflexivity.
Qed.

Lemma fold_probes_events all : forall rest pre u u', all = pre ++ rest ->
  fold_probes all u rest = Ok u' ->
  u_fwd_loss u = existsb (awaited_fwd all) pre -> u_prev_cksum u = carried (responders pre) ->
  fs_max_samples (u_fs u') = fs_max_samples (u_fs u) /\
  u_fwd_loss u' = existsb (awaited_fwd all) all /\ u_prev_cksum u' = carried (responders all) /\
  forall i, nth_error (fs_hops (u_fs u')) i =
    option_map (fun h => hop_run_from (fs_max_samples (u_fs u)) h (events_from all pre rest (Z.of_nat i + 1)))
               (nth_error (fs_hops (u_fs u)) i).
Proof.
  induction rest as [|s r IH]; intros pre u u' Hall H Hfl Hck.
  - cbn [fold_probes] in H. inversion H; subst u'. rewrite app_nil_r in Hall. subst pre.
    split; [reflexivity|]. split; [assumption|]. split; [assumption|].
    intros i. cbn [events_from]. symmetry. apply option_map_id.
  - cbn [fold_probes] in H. destruct (update_for_probe all u s) as [u1|?|?] eqn:E1; cbn [bind] in H; try discriminate.
    destruct (update_for_probe_step all u s u1 E1) as (M1 & F1 & C1 & N1).
    assert (Hall' : all = (pre ++ [s]) ++ r) by (rewrite <- app_assoc; exact Hall).
    assert (Hfl' : u_fwd_loss u1 = existsb (awaited_fwd all) (pre ++ [s])).
    { rewrite F1, Hfl, existsb_app. cbn [existsb]. rewrite orb_false_r. f_equal.
      unfold step_flag, awaited_fwd. destruct s; try reflexivity. apply is_forward_loss_lostb. }
    assert (Hck' : u_prev_cksum u1 = carried (responders (pre ++ [s]))).
    { rewrite C1, Hck, responders_app. unfold step_cksum. change (responders [s]) with (cks_of s ++ []). rewrite app_nil_r.
      destruct (cks_of s) as [|[e a] tl] eqn:Ec; [rewrite app_nil_r; reflexivity|].
      assert (tl = []) as ->.
      { destruct s; cbn [cks_of] in Ec; try discriminate. destruct (c_expected c), (c_actual c); inversion Ec; reflexivity. }
      rewrite carried_snoc. reflexivity. }
    destruct (IH (pre ++ [s]) u1 u' Hall' H Hfl' Hck') as (M2 & F2 & C2 & N2).
    split; [congruence|]. split; [assumption|]. split; [assumption|].
    intros i. rewrite N2, N1, option_map_comp, M1. apply option_map_ext. intros h.
    rewrite hop_run_from_app. cbn [events_from]. f_equal. f_equal.
    destruct (ttl_is (Z.of_nat i + 1) s); [|reflexivity].
    (* the running state agrees with the position-based reading *)
    destruct s as [| |p|p|c]; cbn [step_events status_events]; try reflexivity.
    + rewrite Hfl, is_forward_loss_lostb. reflexivity.
    + cbn [cks_of]. destruct (c_expected c) as [e|] eqn:He, (c_actual c) as [a|] eqn:Ha; try reflexivity.
      rewrite Hall, Hck. rewrite (nat_nth_responder pre c r e a He Ha). reflexivity.
Qed.

Lemma events_from_index all : forall rest pre t, all = pre ++ rest ->
  events_from all pre rest t = flat_map (events_at all t) (seq (length pre) (length rest)).
Proof.
  induction rest as [|s r IH]; intros pre t Hall; cbn [events_from length seq flat_map]; [reflexivity|].
  rewrite (IH (pre ++ [s]) t) by (rewrite <- app_assoc; exact Hall).
  rewrite app_length. cbn [length]. rewrite Nat.add_1_r. f_equal.
  unfold events_at. rewrite Hall, nth_error_app2, Nat.sub_diag by lia. cbn [nth_error].
  rewrite firstn_app, Nat.sub_diag, firstn_all. cbn [firstn]. rewrite app_nil_r. reflexivity.
Qed.

(* ====================================================================== StateUpdater::apply on one round *)

Theorem fs_apply_events f r f' : fs_apply f r = Ok f' ->
  fs_max_samples f' = fs_max_samples f /\
  forall i, nth_error (fs_hops f') i =
    option_map (fun h => hop_run_from (fs_max_samples f) h (round_events (rr_probes r) (Z.of_nat i + 1)))
               (nth_error (fs_hops f) i).
Proof.
  unfold fs_apply. intros H.
  destruct (fold_probes (rr_probes r) _ (rr_probes r)) as [u'|?|?] eqn:E; cbn [bind] in H; try discriminate.
  inversion H; subst f'. clear H.
  destruct (fold_probes_events (rr_probes r) (rr_probes r) [] _ u' eq_refl E eq_refl eq_refl) as (M & _ & _ & N).
  cbn [u_fs fs_max_samples fs_hops] in M, N. split; [exact M|].
  intros i. rewrite N. apply option_map_ext. intros h. unfold round_events.
  rewrite (events_from_index (rr_probes r) (rr_probes r) [] _ eq_refl). reflexivity.
Qed.

(* any sequence of rounds *)
Definition rounds_events (rs : list round_rec) (t : Z) : list hev := flat_map (fun r => round_events (rr_probes r) t) rs.

Theorem fs_run_events : forall rs f f', fs_run f rs = Ok f' ->
  fs_max_samples f' = fs_max_samples f /\
  forall i, nth_error (fs_hops f') i =
    option_map (fun h => hop_run_from (fs_max_samples f) h (rounds_events rs (Z.of_nat i + 1))) (nth_error (fs_hops f) i).
Proof.
  induction rs as [|r rs IH]; intros f f' H; cbn [fs_run] in H.
  - inversion H; subst f'. split; [reflexivity|]. intros i. symmetry. apply option_map_id.
  - destruct (fs_apply f r) as [f1|?|?] eqn:E1; cbn [bind] in H; try discriminate.
    destruct (fs_apply_events f r f1 E1) as [M1 N1]. destruct (IH f1 f' H) as [M2 N2].
    split; [congruence|]. intros i. rewrite N2, N1, option_map_comp, M1. apply option_map_ext. intros h.
    rewrite hop_run_from_app. reflexivity.
Qed.

(* from a fresh flow state: every hop is hop_run of the events the rounds hold for it *)
Theorem fs_run_new_is_hop_run ms rs f' : fs_run (flow_state_new ms) rs = Ok f' ->
  fs_max_samples f' = ms /\
  forall i, (i < MAX_TTL_N)%nat -> nth_error (fs_hops f') i = Some (hop_run ms (rounds_events rs (Z.of_nat i + 1))).
Proof.
  intros H. destruct (fs_run_events rs _ f' H) as [M N]. split; [exact M|].
  intros i Hi. rewrite N. cbn [flow_state_new fs_hops fs_max_samples]. rewrite nth_error_repeat by assumption. reflexivity.
Qed.

(* ====================================================================== the classification of a round's awaited probes *)

(* an awaited probe standing before position k whose distance is forward-lost *)
Definition lost_before (ps : list pstatus) (k : nat) : Prop :=
  exists j q, (j < k)%nat /\ nth_error ps j = Some (Awaited q) /\ fwd_lost_at ps (p_ttl q).

Lemma seen_iff ps k : existsb (awaited_fwd ps) (firstn k ps) = true <-> lost_before ps k.
Proof.
  rewrite existsb_exists. unfold lost_before. split.
  - intros (x & Hin & Hx). apply In_nth_error in Hin. destruct Hin as (j & Hj).
    assert (Hlt : (j < k)%nat).
    { assert (Hn : nth_error (firstn k ps) j <> None) by congruence. apply nth_error_Some in Hn.
      rewrite firstn_length in Hn. lia. }
    rewrite nth_error_firstn in Hj by assumption.
    destruct x as [| |q|q|c]; cbn [awaited_fwd] in Hx; try discriminate.
    exists j, q. split; [assumption|]. split; [assumption|apply fwd_lostb_iff; assumption].
  - intros (j & q & Hlt & Hj & Hq). exists (Awaited q). split.
    + apply (nth_error_In _ j). rewrite nth_error_firstn by assumption. exact Hj.
    + cbn [awaited_fwd]. apply fwd_lostb_iff. exact Hq.
Qed.

Lemma ttl_is_own s t : status_ttl s = Some t -> ttl_is t s = true.
Proof. unfold ttl_is. intros ->. apply Z.eqb_refl. Qed.

(* which awaited probe is counted as forward loss, which as backward loss *)
Theorem awaited_classification ps k p : nth_error ps k = Some (Awaited p) ->
  exists fwd bwd, events_at ps (p_ttl p) k = [HU p false fwd bwd] /\
    (fwd = true <-> fwd_lost_at ps (p_ttl p) /\ ~ lost_before ps k) /\
    (bwd = true <-> lost_before ps k).
Proof.
  intros Hk. unfold events_at. rewrite Hk, (ttl_is_own (Awaited p) (p_ttl p) eq_refl). cbn [status_events].
  eexists _, _. split; [reflexivity|]. split; [|apply seen_iff].
  rewrite andb_true_iff, negb_true_iff, fwd_lostb_iff, <- seen_iff.
  destruct (existsb (awaited_fwd ps) (firstn k ps)); split; intros [A B]; split; try assumption; congruence.
Qed.

(* at most one awaited probe of a round is counted as forward loss, and that probe is not also counted backward *)
Theorem forward_loss_unique ps j q bj k p bk :
  nth_error ps j = Some (Awaited q) -> nth_error ps k = Some (Awaited p) ->
  events_at ps (p_ttl q) j = [HU q false true bj] -> events_at ps (p_ttl p) k = [HU p false true bk] ->
  j = k /\ bj = false.
Proof.
  intros Hj Hk Ej Ek.
  destruct (awaited_classification ps j q Hj) as (fj & bj' & Ej' & Fj & Bj). rewrite Ej in Ej'. inversion Ej'; subst fj bj'.
  destruct (awaited_classification ps k p Hk) as (fk & bk' & Ek' & Fk & Bk). rewrite Ek in Ek'. inversion Ek'; subst fk bk'.
  destruct (proj1 Fj eq_refl) as [Lj Nj]. destruct (proj1 Fk eq_refl) as [Lk Nk].
  split.
  - destruct (Nat.lt_trichotomy j k) as [H|[H|H]]; [|assumption|].
    + exfalso. apply Nk. exists j, q. auto.
    + exfalso. apply Nj. exists k, p. auto.
  - destruct bj; [|reflexivity]. exfalso. apply Nj. apply Bj. reflexivity.
Qed.

(* a failed probe is counted as failed, never as forward or backward loss; a completed probe as received *)
Theorem failed_events ps k p : nth_error ps k = Some (Failed p) -> events_at ps (p_ttl p) k = [HU p true false false].
Proof. intros Hk. unfold events_at. rewrite Hk, (ttl_is_own (Failed p) (p_ttl p) eq_refl). reflexivity. Qed.

(* a probe only reaches the hop of its own distance *)
Lemma events_at_other ps t k s : nth_error ps k = Some s -> status_ttl s <> Some t -> events_at ps t k = [].
Proof.
  intros Hk Ht. unfold events_at, ttl_is. rewrite Hk. destruct (status_ttl s) as [x|]; [|reflexivity].
  destruct (x =? t) eqn:E; [|reflexivity]. exfalso. apply Ht. f_equal. lia.
Qed.

(* ---- on the code itself: a Failed step never touches the loss counters or the sticky flag *)
Theorem failed_step_not_loss all u p u' : update_for_probe all u (Failed p) = Ok u' ->
  u_fwd_loss u' = u_fwd_loss u /\
  forall i h, nth_error (fs_hops (u_fs u)) i = Some h ->
    exists h', nth_error (fs_hops (u_fs u')) i = Some h' /\
      h_fwd_lost h' = h_fwd_lost h /\ h_bwd_lost h' = h_bwd_lost h /\
      h_failed h' = (if p_ttl p =? Z.of_nat i + 1 then h_failed h + 1 else h_failed h).
Proof.
  intros H. destruct (update_for_probe_step all u (Failed p) u' H) as (_ & F & _ & N).
  split; [rewrite F; cbn [step_flag]; apply orb_false_r|].
  intros i h Hh. rewrite N, Hh. cbn [option_map]. eexists. split; [reflexivity|].
  unfold ttl_is. cbn [status_ttl step_events]. destruct (p_ttl p =? Z.of_nat i + 1); cbn; auto.
Qed.

(* ====================================================================== at most one forward loss per round, on the code *)

Definition fwd_total (f : flow_state) : Z := zsum (map h_fwd_lost (fs_hops f)).
Definition b2z (b : bool) : Z := if b then 1 else 0.

Lemma zsum_upd_hop (g : hop -> Z) f l : forall j,
  zsum (map g (upd_hop j f l)) = zsum (map g l) + match nth_error l j with Some h => g (f h) - g h | None => 0 end.
Proof.
  induction l as [|y l IH]; intros [|j]; cbn [upd_hop map zsum fold_right nth_error]; try lia.
  specialize (IH j). unfold zsum in IH. rewrite IH. lia.
Qed.

Lemma update_for_probe_fwd_total all u s u' : length (fs_hops (u_fs u)) = MAX_TTL_N ->
  update_for_probe all u s = Ok u' ->
  length (fs_hops (u_fs u')) = MAX_TTL_N /\
  fwd_total (u_fs u') = fwd_total (u_fs u) + b2z (negb (u_fwd_loss u) && step_flag all s).
Proof.
  intros Hl H. unfold fwd_total.
  assert (Hin : forall t j, hop_index t = Ok j -> exists h, nth_error (fs_hops (u_fs u)) j = Some h).
  { intros t j Hj. destruct (hop_index_ok _ _ Hj) as [Ht ->].
    destruct (nth_error (fs_hops (u_fs u)) (Z.to_nat (t - 1))) as [h|] eqn:E; [eauto|].
    apply nth_error_None in E. rewrite Hl in E. unfold MAX_TTL_N in E. lia. }
  destruct s as [| |p|p|c]; cbn [update_for_probe] in H.
  - inversion H; subst u'. cbn [step_flag]. rewrite andb_false_r. cbn [b2z]. split; [assumption|lia].
  - inversion H; subst u'. cbn [step_flag]. rewrite andb_false_r. cbn [b2z]. split; [assumption|lia].
  - destruct (hop_index (p_ttl p)) as [j|?|?] eqn:Ej; cbn [bind] in H; try discriminate.
    destruct (Hin _ _ Ej) as (h & Hh). inversion H; subst u'. cbn [u_fs fs_touch fs_hops step_flag].
    rewrite upd_hop_length, zsum_upd_hop, Hh. cbn [hop_unanswered h_fwd_lost]. rewrite andb_false_r. cbn [b2z].
    split; [assumption|lia].
  - destruct (hop_index (p_ttl p)) as [j|?|?] eqn:Ej; cbn [bind] in H; try discriminate.
    destruct (Hin _ _ Ej) as (h & Hh). inversion H; subst u'. cbn [u_fs fs_touch fs_hops step_flag].
    rewrite upd_hop_length, zsum_upd_hop, Hh. cbn [hop_unanswered h_fwd_lost].
    split; [assumption|]. destruct (negb (u_fwd_loss u) && is_forward_loss all (p_ttl p)); cbn [b2z]; lia.
  - destruct (hop_index (p_ttl (c_probe c))) as [j|?|?] eqn:Ej; cbn [bind] in H; try discriminate.
    destruct (Hin _ _ Ej) as (h & Hh). cbn [step_flag]. rewrite andb_false_r. cbn [b2z].
    destruct (c_expected c) as [e|], (c_actual c) as [a|];
      try (inversion H; subst u'; cbn [u_fs fs_touch fs_hops];
           rewrite upd_hop_length, zsum_upd_hop, Hh; cbn [hop_complete h_fwd_lost]; split; [assumption|lia]).
    destruct (nat_status_of e a (u_prev_cksum u)) as [ns ck]. inversion H; subst u'. cbn [u_fs fs_touch fs_hops].
    rewrite !upd_hop_length, !zsum_upd_hop, upd_hop_nth, Nat.eqb_refl, Hh. cbn [option_map hop_set_nat hop_complete h_fwd_lost].
    split; [assumption|lia].
Qed.

Lemma fold_probes_fwd_total all : forall ps u u', length (fs_hops (u_fs u)) = MAX_TTL_N ->
  fold_probes all u ps = Ok u' ->
  length (fs_hops (u_fs u')) = MAX_TTL_N /\
  fwd_total (u_fs u') - b2z (u_fwd_loss u') = fwd_total (u_fs u) - b2z (u_fwd_loss u).
Proof.
  induction ps as [|s r IH]; intros u u' Hl H; cbn [fold_probes] in H.
  - inversion H; subst u'. split; [assumption|reflexivity].
  - destruct (update_for_probe all u s) as [u1|?|?] eqn:E1; cbn [bind] in H; try discriminate.
    destruct (update_for_probe_fwd_total all u s u1 Hl E1) as [L1 T1].
    destruct (update_for_probe_step all u s u1 E1) as (_ & F1 & _ & _).
    destruct (IH u1 u' L1 H) as [L2 T2]. split; [assumption|]. rewrite T2, T1, F1.
    destruct (u_fwd_loss u), (step_flag all s); cbn [negb andb orb b2z]; lia.
Qed.

(* a round adds exactly one forward loss over all hops when it holds a forward-lost awaited probe, else none *)
Theorem fs_apply_fwd_total f r f' : length (fs_hops f) = MAX_TTL_N -> fs_apply f r = Ok f' ->
  length (fs_hops f') = MAX_TTL_N /\
  fwd_total f' = fwd_total f + b2z (existsb (awaited_fwd (rr_probes r)) (rr_probes r)).
Proof.
  unfold fs_apply. intros Hl H.
  match type of H with context [fold_probes _ ?u0 _] => set (u := u0) in H end.
  destruct (fold_probes (rr_probes r) u (rr_probes r)) as [u'|?|?] eqn:E; cbn [bind] in H; try discriminate.
  inversion H; subst f'. clear H.
  destruct (fold_probes_events (rr_probes r) (rr_probes r) [] u u' eq_refl E eq_refl eq_refl) as (_ & F & _ & _).
  assert (Hl0 : length (fs_hops (u_fs u)) = MAX_TTL_N) by exact Hl.
  destruct (fold_probes_fwd_total (rr_probes r) (rr_probes r) u u' Hl0 E) as [L T].
  split; [assumption|]. rewrite <- F. unfold fwd_total in *. cbn [u u_fs u_fwd_loss b2z fs_hops] in T. lia.
Qed.

Lemma existsb_awaited_fwd_iff ps :
  existsb (awaited_fwd ps) ps = true <-> exists k p, nth_error ps k = Some (Awaited p) /\ fwd_lost_at ps (p_ttl p).
Proof.
  rewrite <- (firstn_all ps) at 2. rewrite seen_iff. unfold lost_before. split.
  - intros (j & q & _ & Hj & Hq). eauto.
  - intros (k & p & Hk & Hp). exists k, p. split; [|auto]. apply nth_error_Some. congruence.
Qed.

(* ====================================================================== rounds in ascending distance order
   (what the strategy publishes: one probe per distance, a re-issued TCP probe leaves a Skipped entry, never NotSent) *)

Definition ascending (ps : list pstatus) : Prop := StronglySorted Z.lt (ttls ps).
Definition is_awaited (s : pstatus) : bool := match s with Awaited _ => true | _ => false end.

Lemma ttls_app a b : ttls (a ++ b) = ttls a ++ ttls b.
Proof. apply flat_map_app. Qed.

Lemma in_ttls s x ps : In s ps -> status_ttl s = Some x -> In x (ttls ps).
Proof. intros Hin Hx. unfold ttls. apply in_flat_map. exists s. split; [assumption|]. rewrite Hx. left; reflexivity. Qed.

Lemma ssorted_mid a x b : StronglySorted Z.lt (a ++ x :: b) -> (forall y, In y a -> y < x) /\ (forall y, In y b -> x < y).
Proof.
  induction a as [|z a IH]; cbn [app]; intros H; inversion H as [|? ? Hs Hf]; subst.
  - split; [intros y []|]. intros y Hy. rewrite Forall_forall in Hf. apply Hf. assumption.
  - destruct (IH Hs) as [I1 I2]. split; [|assumption].
    intros y [<-|Hy]; [|apply I1; assumption].
    rewrite Forall_forall in Hf. apply Hf. apply in_or_app. right. left. reflexivity.
Qed.

(* in an ascending round everything after an awaited probe is farther, everything before it nearer *)
Lemma ascending_split l1 p l2 : ascending (l1 ++ Awaited p :: l2) ->
  (forall s x, In s l1 -> status_ttl s = Some x -> x < p_ttl p) /\
  (forall s x, In s l2 -> status_ttl s = Some x -> p_ttl p < x).
Proof.
  unfold ascending. rewrite ttls_app. change (Awaited p :: l2) with ([Awaited p] ++ l2). rewrite ttls_app.
  cbn [ttls flat_map status_ttl app]. intros H. destruct (ssorted_mid _ _ _ H) as [A B].
  split; intros s x Hin Hx; [apply A|apply B]; exact (in_ttls s x _ Hin Hx).
Qed.

Lemma fwd_lostb_app_skip t pre l : Forall (not_beyond t) pre -> fwd_lostb (pre ++ l) t = fwd_lostb l t.
Proof.
  induction pre as [|a pre IH]; intros H; cbn [app]; [reflexivity|].
  rewrite fwd_lostb_skip by (apply beyondb_false; exact (Forall_inv H)). apply IH. exact (Forall_inv_tail H).
Qed.

Lemma fwd_lostb_all_beyond t : forall post, (forall s x, In s post -> status_ttl s = Some x -> t < x) -> ~ In NotSent post ->
  (fwd_lostb post t = true <-> Forall unanswered post /\ exists q, In (Awaited q) post).
Proof.
  induction post as [|s r IH]; intros Hb Hns.
  - split; [discriminate|]. intros [_ (q & [])].
  - assert (Hb' : forall s0 x, In s0 r -> status_ttl s0 = Some x -> t < x) by (intros s0 x Hi; apply Hb; right; assumption).
    assert (Hns' : ~ In NotSent r) by (intros Hi; apply Hns; right; assumption).
    destruct (status_ttl s) as [x|] eqn:Es.
    + assert (Hlt : t < x) by (apply (Hb s x); [left; reflexivity|assumption]).
      rewrite fwd_lostb_hit by (unfold beyondb; rewrite Es; lia). rewrite forallb_unanswered. split.
      * intros HF. split; [assumption|]. destruct (Forall_inv HF) as [->|(q & ->)]; [discriminate|].
        exists q. left; reflexivity.
      * intros [HF _]. assumption.
    + rewrite fwd_lostb_skip by (unfold beyondb; rewrite Es; reflexivity). rewrite (IH Hb' Hns').
      assert (Hs : s = Skipped).
      { destruct s; try discriminate; [|reflexivity]. exfalso. apply Hns. left; reflexivity. }
      subst s. split.
      * intros [HF (q & Hq)]. split; [constructor; [left; reflexivity|assumption]|]. exists q. right; assumption.
      * intros [HF (q & [Hq|Hq])]; [discriminate|]. split; [exact (Forall_inv_tail HF)|]. exists q; assumption.
Qed.

(* forward loss in an ascending round: everything after the awaited probe is still unanswered, and at least one
   more probe was sent beyond it *)
Theorem fwd_lost_ascending pre p post : ascending (pre ++ Awaited p :: post) -> ~ In NotSent post ->
  (fwd_lost_at (pre ++ Awaited p :: post) (p_ttl p) <-> Forall unanswered post /\ exists q, In (Awaited q) post).
Proof.
  intros Ha Hns. destruct (ascending_split pre p post Ha) as [A B].
  rewrite <- fwd_lostb_iff. rewrite fwd_lostb_app_skip.
  - rewrite fwd_lostb_skip by (unfold beyondb; cbn [status_ttl]; lia). apply fwd_lostb_all_beyond; assumption.
  - apply Forall_forall. intros s Hs x Hx. specialize (A s x Hs Hx). lia.
Qed.

(* an answered or failed probe beyond t rules out forward loss at t *)
Lemma fwd_lost_no_answer_beyond ps t s : fwd_lost_at ps t -> In s ps -> beyond t s -> unanswered s.
Proof.
  intros (pre & st & post & -> & Hpre & _ & Hpost) Hin (x & Hx & Hlt).
  apply in_app_or in Hin. destruct Hin as [Hin|Hin].
  - rewrite Forall_forall in Hpre. specialize (Hpre s Hin x Hx). lia.
  - rewrite Forall_forall in Hpost. apply Hpost. assumption.
Qed.

Lemma existsb_is_awaited l : existsb is_awaited l = true <-> exists q, In (Awaited q) l.
Proof.
  rewrite existsb_exists. split.
  - intros (s & Hin & Hs). destruct s; try discriminate. eauto.
  - intros (q & Hq). exists (Awaited q). split; [assumption|reflexivity].
Qed.

(* the whole picture for an ascending round  body ++ tail, tail = the trailing run of unanswered probes:
   awaited probes inside body count as neither; the first awaited probe of tail counts as forward loss exactly when
   another awaited probe follows it; every awaited probe after it counts as backward loss *)
Theorem ascending_round_classification body tail :
  ascending (body ++ tail) -> ~ In NotSent (body ++ tail) ->
  Forall unanswered tail -> (forall b s, body = b ++ [s] -> ~ unanswered s) ->
  (forall k p, nth_error body k = Some (Awaited p) ->
     events_at (body ++ tail) (p_ttl p) k = [HU p false false false]) /\
  (forall sk p rest, tail = sk ++ Awaited p :: rest -> existsb is_awaited sk = false ->
     events_at (body ++ tail) (p_ttl p) (length body + length sk) = [HU p false (existsb is_awaited rest) false] /\
     (forall j q, nth_error rest j = Some (Awaited q) ->
        events_at (body ++ tail) (p_ttl q) (length body + length sk + 1 + j) = [HU q false false true])).
Proof.
  intros Hasc Hns Htail Hlast. set (ps := body ++ tail) in *.
  (* no awaited probe inside body is forward-lost *)
  assert (Hbody : forall k p, nth_error body k = Some (Awaited p) -> ~ fwd_lost_at ps (p_ttl p)).
  { intros k p Hk HL.
    destruct (exists_last (l := body)) as (b & s & Eb); [intro E; rewrite E in Hk; destruct k; discriminate|].
    pose proof (Hlast b s Eb) as Hs.
    assert (Hkb : (k < length b)%nat).
    { assert (Hk' : (k < length body)%nat) by (apply nth_error_Some; congruence).
      rewrite Eb, app_length in Hk'. cbn [length] in Hk'.
      destruct (Nat.eq_dec k (length b)) as [->|Hne]; [|lia].
      rewrite Eb, nth_error_app2, Nat.sub_diag in Hk by lia. cbn [nth_error] in Hk. inversion Hk; subst s.
      exfalso. apply Hs. right. eauto. }
    rewrite Eb, nth_error_app1 in Hk by assumption.
    destruct (nth_error_split _ _ Hk) as (b1 & b2 & Eb1 & _).
    assert (Eps : ps = b1 ++ Awaited p :: (b2 ++ [s] ++ tail)).
    { unfold ps. rewrite Eb, Eb1, <- !app_assoc. reflexivity. }
    assert (Hin2 : In s (b2 ++ [s] ++ tail)) by (apply in_or_app; right; left; reflexivity).
    assert (Hinp : In s ps) by (rewrite Eps; apply in_or_app; right; right; assumption).
    destruct (status_ttl s) as [x|] eqn:Ex.
    - rewrite Eps in Hasc. destruct (ascending_split _ _ _ Hasc) as [_ B]. specialize (B s x Hin2 Ex).
      apply Hs. apply (fwd_lost_no_answer_beyond ps (p_ttl p) s HL Hinp). exists x. split; assumption.
    - destruct s; try discriminate; [apply Hns; assumption|apply Hs; left; reflexivity]. }
  assert (Hnb : forall k, (k <= length body)%nat -> ~ lost_before ps k).
  { intros k Hk (j & q & Hj & Hq & HL). unfold ps in Hq. rewrite nth_error_app1 in Hq by lia. exact (Hbody j q Hq HL). }
  split.
  - intros k p Hk.
    assert (Hk' : (k < length body)%nat) by (apply nth_error_Some; congruence).
    assert (Hkp : nth_error ps k = Some (Awaited p)) by (unfold ps; rewrite nth_error_app1 by assumption; exact Hk).
    destruct (awaited_classification ps k p Hkp) as (fwd & bwd & -> & Hf & Hb).
    destruct fwd; [exfalso; apply (Hbody k p Hk); apply Hf; reflexivity|].
    destruct bwd; [exfalso; apply (Hnb k ltac:(lia)); apply Hb; reflexivity|]. reflexivity.
  - intros sk p rest Et Hsk.
    assert (Eps : ps = (body ++ sk) ++ Awaited p :: rest) by (unfold ps; rewrite Et, app_assoc; reflexivity).
    assert (Hkp : nth_error ps (length body + length sk) = Some (Awaited p)).
    { rewrite Eps, nth_error_app2 by (rewrite app_length; lia). rewrite app_length, Nat.sub_diag. reflexivity. }
    assert (Hrest : Forall unanswered rest).
    { rewrite Et in Htail. apply Forall_app in Htail. destruct Htail as [_ Ht]. exact (Forall_inv_tail Ht). }
    assert (Hnsr : ~ In NotSent rest).
    { intros Hi. apply Hns. rewrite Eps. apply in_or_app. right. right. assumption. }
    assert (HLp : fwd_lost_at ps (p_ttl p) <-> existsb is_awaited rest = true).
    { rewrite Eps in Hasc |- *. rewrite (fwd_lost_ascending (body ++ sk) p rest Hasc Hnsr), existsb_is_awaited. tauto. }
    assert (Hnbk : ~ lost_before ps (length body + length sk)).
    { intros (j & q & Hj & Hq & HL). destruct (Nat.lt_ge_cases j (length body)) as [Hjb|Hjb].
      - unfold ps in Hq. rewrite nth_error_app1 in Hq by assumption. exact (Hbody j q Hq HL).
      - rewrite Eps, nth_error_app1 in Hq by (rewrite app_length; lia). rewrite nth_error_app2 in Hq by assumption.
        apply nth_error_In in Hq. assert (Hx : existsb is_awaited sk = true) by (apply existsb_is_awaited; eauto).
        congruence. }
    split.
    + destruct (awaited_classification ps _ p Hkp) as (fwd & bwd & -> & Hf & Hb).
      destruct bwd; [exfalso; apply Hnbk; apply Hb; reflexivity|].
      destruct fwd, (existsb is_awaited rest) eqn:Er; try reflexivity; exfalso.
      * destruct (proj1 Hf eq_refl) as [HL _]. apply HLp in HL. discriminate.
      * assert (true = true -> False); [|auto]. intros _.
        assert (Hx : false = true) by (apply Hf; split; [apply HLp; reflexivity|assumption]). discriminate.
    + intros j q Hj.
      assert (Hkq : nth_error ps (length body + length sk + 1 + j) = Some (Awaited q)).
      { rewrite Eps, nth_error_app2 by (rewrite app_length; lia). rewrite app_length.
        replace (length body + length sk + 1 + j - (length body + length sk))%nat with (S j) by lia. exact Hj. }
      assert (Hlb : lost_before ps (length body + length sk + 1 + j)).
      { exists (length body + length sk)%nat, p. split; [lia|]. split; [assumption|].
        apply HLp. apply existsb_is_awaited. exists q. exact (nth_error_In _ _ Hj). }
      destruct (awaited_classification ps _ q Hkq) as (fwd & bwd & -> & Hf & Hb).
      destruct bwd; [|exfalso; assert (Hx : false = true) by (apply Hb; assumption); discriminate].
      destruct fwd; [|reflexivity]. exfalso. destruct (proj1 Hf eq_refl) as [_ Hn]. exact (Hn Hlb).
Qed.

(* ====================================================================== State::update_from_round, any history *)

Lemma flow_or_new_state_new ms mf id : flow_or_new (state_new ms mf) id = flow_state_new ms.
Proof. unfold flow_or_new, state_new. cbn [st_flows flows_get st_max_samples]. destruct (0 =? id); reflexivity. Qed.

(* every hop of every flow (the default flow 0 takes all rounds, a registered flow the rounds attributed to it) is
   hop_run of the events its rounds hold for that distance *)
Theorem st_run_hops ms mf rs s' id : st_run (state_new ms mf) rs = Ok s' ->
  fs_max_samples (flow_or_new s' id) = ms /\
  forall i, (i < MAX_TTL_N)%nat ->
    nth_error (fs_hops (flow_or_new s' id)) i =
    Some (hop_run ms (rounds_events (flow_rounds id (state_new ms mf) rs) (Z.of_nat i + 1))).
Proof.
  intros H.
  assert (Hcap : Z.of_nat (length (reg_flows (st_registry (state_new ms mf)))) <= Z.max 0 (st_max_flows (state_new ms mf)))
    by (cbn; lia).
  pose proof (flows_are_their_rounds rs (state_new ms mf) s' id dense_new Hcap H) as R.
  rewrite flow_or_new_state_new in R. exact (fs_run_new_is_hop_run ms _ _ R).
Qed.
