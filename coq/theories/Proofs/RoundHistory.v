(* C01: every published round is exactly what the network-level history of that round says.
   Ghost history of the round in progress:  S = probes handed to the network with the outcome of the send,
   A = accepted deliveries (probe, derived response) - both in order. *)
From TV Require Import Base.Result Core.Types Core.TracerState Core.Strategy Core.Builder
  Proofs.ListLemmas Proofs.StrategyInv Proofs.StrategyProps.
From Coq Require Import ZifyBool.

Definition sends_of (ev : list event) : list (probe * send_outcome) :=
  flat_map (fun e => match e with ESend p o => [(p, o)] | _ => [] end) ev.

(* what the slot of a probe must look like, given how its send ended and what has been accepted *)
Definition slot_matches (A : list (probe * sresp)) (po : probe * send_outcome) (next : option (probe * send_outcome)) (st : pstatus) : Prop :=
  let '(p, o) := po in
  match o with
  | ProbeFailedO => st = Failed p
  | AddressInUseO => (next <> None /\ st = Skipped) \/ (next = None /\ st = Awaited p)
  | Sent | FatalS _ =>
    (st = Awaited p /\ forall sr, ~ In (p, sr) A) \/
    (exists sr, In (p, sr) A /\ st = Complete (complete p sr))
  end.

Record HInv (c : scfg) (s : tstate) (S : list (probe * send_outcome)) (A : list (probe * sresp)) : Prop := {
  hi_len : Z.of_nat (length S) = sequence s - round_sequence s;
  hi_seq : forall i po, nth_error S i = Some po -> p_sequence (fst po) = round_sequence s + Z.of_nat i;
  hi_slot : forall i po, nth_error S i = Some po ->
            exists st, nth_error (buffer s) i = Some st /\ slot_matches A po (nth_error S (Datatypes.S i)) st;
  hi_acc : forall p sr, In (p, sr) A -> exists i o, nth_error S i = Some (p, o) /\ (o = Sent \/ exists e, o = FatalS e);
  hi_nodup : NoDup (map (fun a => p_sequence (fst a)) A);
}.

Lemma hinv_new c t0 : HInv c (ts_new c t0) [] [].
Proof.
  constructor; cbn; try lia; try (intros [|?] ? H; discriminate); try (intros ? ? []). constructor.
Qed.

Lemma slot_matches_mono A A' po nx st : (forall x, In x A -> In x A') ->
  (forall sr, In (fst po, sr) A' -> In (fst po, sr) A) ->
  slot_matches A po nx st -> slot_matches A' po nx st.
Proof.
  intros Hsub Hsame. unfold slot_matches. destruct po as [p o]. cbn [fst] in Hsame.
  destruct o; auto.
  - intros [[-> Hn]|(sr & Hin & ->)]; [left; split; [reflexivity|intros sr H; apply (Hn sr); apply Hsame; assumption]|right; exists sr; split; [apply Hsub; assumption|reflexivity]].
  - intros [[-> Hn]|(sr & Hin & ->)]; [left; split; [reflexivity|intros sr H; apply (Hn sr); apply Hsame; assumption]|right; exists sr; split; [apply Hsub; assumption|reflexivity]].
Qed.

(* ---- ICMP / UDP: one probe per iteration, no re-issue ---- *)
Lemma nth_error_app_last {A} (l : list A) x : nth_error (l ++ [x]) (length l) = Some x.
Proof. rewrite nth_error_app2 by lia. rewrite Nat.sub_diag. reflexivity. Qed.

(* every address-in-use entry has been followed by a re-issued probe *)
Definition settled (S : list (probe * send_outcome)) : Prop :=
  forall i q, nth_error S i = Some (q, AddressInUseO) -> nth_error S (Datatypes.S i) <> None.

Lemma hinv_append c s s1 S A p o st :
  Inv c s -> HInv c s S A -> sequence s - round_sequence s < 512 ->
  sequence s1 = sequence s + 1 -> round_sequence s1 = round_sequence s ->
  buffer s1 = upd (Z.to_nat (sequence s - round_sequence s)) st (buffer s) ->
  p_sequence p = sequence s ->
  (forall sr, ~ In (p, sr) A) ->
  slot_matches A (p, o) None st ->
  settled S ->
  HInv c s1 (S ++ [(p, o)]) A.
Proof.
  intros HI [Hl Hs Hsl Ha Hn] Hcap Hq Hr Hb Hp Hna Hm Hnoinuse.
  assert (Hidx : Z.to_nat (sequence s - round_sequence s) = length S) by lia.
  pose proof (inv_len c s HI) as Hlen. pose proof (inv_seq c s HI) as Hseq.
  constructor.
  - rewrite app_length. cbn [length]. lia.
  - intros i po Hi. destruct (Nat.lt_ge_cases i (length S)) as [Hlt|Hge].
    + rewrite nth_error_app1 in Hi by assumption. rewrite Hr. apply Hs; assumption.
    + assert (i = length S).
      { assert (nth_error (S ++ [(p, o)]) i <> None) by congruence. apply nth_error_Some in H. rewrite app_length in H. cbn in H. lia. }
      subst i. rewrite nth_error_app_last in Hi. inversion Hi; subst po. cbn [fst]. lia.
  - intros i po Hi. destruct (Nat.lt_ge_cases i (length S)) as [Hlt|Hge].
    + rewrite nth_error_app1 in Hi by assumption. destruct (Hsl i po Hi) as (st0 & Hst0 & Hm0).
      exists st0. split.
      * rewrite Hb, Hidx. rewrite nth_error_upd_neq by lia. assumption.
      * (* the successor entry: unchanged unless i is the old last entry, and then it only matters for AddressInUse *)
        destruct (Nat.eq_dec (Datatypes.S i) (length S)) as [He|Hne].
        -- rewrite He, nth_error_app_last.
           assert (Hold : nth_error S (Datatypes.S i) = None) by (apply nth_error_None; lia). rewrite Hold in Hm0.
           unfold slot_matches in *. destruct po as [q o']. destruct o'; try assumption.
           exfalso. apply (Hnoinuse i q Hi). assumption.
        -- rewrite nth_error_app1 by lia. assumption.
    + assert (i = length S).
      { assert (nth_error (S ++ [(p, o)]) i <> None) by congruence. apply nth_error_Some in H. rewrite app_length in H. cbn in H. lia. }
      subst i. rewrite nth_error_app_last in Hi. inversion Hi; subst po.
      exists st. split.
      * rewrite Hb, Hidx. apply nth_error_upd_eq. lia.
      * assert (Hnone : nth_error (S ++ [(p, o)]) (Datatypes.S (length S)) = None) by (apply nth_error_None; rewrite app_length; cbn; lia).
        rewrite Hnone. assumption.
  - intros q sr Hin. destruct (Ha q sr Hin) as (i & o' & Hi & Ho). exists i, o'. split; [|assumption].
    rewrite nth_error_app1; [assumption|]. assert (nth_error S i <> None) by congruence. apply nth_error_Some in H. assumption.
  - assumption.
Qed.

Lemma hinv_no_accept_for_new c s S A p : HInv c s S A -> Inv c s -> p_sequence p = sequence s -> forall sr, ~ In (p, sr) A.
Proof.
  intros [Hl Hs Hsl Ha Hn] HI Hp sr Hin. destruct (Ha p sr Hin) as (i & o & Hi & _).
  pose proof (Hs i (p, o) Hi) as Hq. cbn [fst] in Hq.
  assert (nth_error S i <> None) by congruence. apply nth_error_Some in H. lia.
Qed.

Definition no_inuse (S : list (probe * send_outcome)) : Prop := forall q o', In (q, o') S -> o' <> AddressInUseO.

Lemma no_inuse_settled S : no_inuse S -> settled S.
Proof. intros H i q Hi. exfalso. apply (H q AddressInUseO); [eapply nth_error_In; eassumption|reflexivity]. Qed.

Lemma settled_app_sent S p o : settled S -> o <> AddressInUseO -> settled (S ++ [(p, o)]).
Proof.
  intros Hs Ho i q Hi. destruct (Nat.lt_ge_cases i (length S)) as [Hlt|Hge].
  - rewrite nth_error_app1 in Hi by assumption. specialize (Hs i q Hi).
    intros Hn. apply Hs. apply nth_error_None in Hn. rewrite app_length in Hn. cbn in Hn. apply nth_error_None. lia.
  - assert (i = length S).
    { assert (nth_error (S ++ [(p, o)]) i <> None) by congruence. apply nth_error_Some in H. rewrite app_length in H. cbn in H. lia. }
    subst i. rewrite nth_error_app_last in Hi. inversion Hi; subst. congruence.
Qed.


(* send phase, ICMP/UDP *)
Definition send_one (c : scfg) (s : tstate) (i : iter_in) : result (tstate * list event * option error) :=
  let sent := hd_clock (i_clock i) (round_start s) in
  let* (p, s1) := next_probe c s sent in
  let o := hd_send (i_sends i) in
  let* r := do_send s1 o in
  match r with
  | SDone s2 => Ok (s2, [ESend p o], None)
  | SInUse s2 => Ok (s2, [ESend p o], Some EAddressInUse)
  | SErr e => Ok (s1, [ESend p o], Some e)
  end.

Lemma send_request_nontcp c s i : proto c <> Tcp -> can_send c s = Ok true -> send_request c s i = send_one c s i.
Proof.
  intros Hp Hcs. unfold send_request, send_one. rewrite Hcs. cbn [bind negb].
  destruct (proto c); [reflexivity|reflexivity|congruence].
Qed.

Lemma upd_upd {A} (l : list A) : forall k a b, upd k b (upd k a l) = upd k b l.
Proof. induction l as [|x l IH]; intros [|k] a b; cbn; try reflexivity. f_equal. apply IH. Qed.

Lemma hinv_send c s i s1 ev e S A : Accept c -> proto c <> Tcp -> Inv c s -> HInv c s S A -> settled S ->
  send_request c s i = Ok (s1, ev, e) ->
  HInv c s1 (S ++ sends_of ev) A /\ (e = None -> settled (S ++ sends_of ev)).
Proof.
  intros HA Hp HI HH Hni H. pose proof (accept_facts c HA) as F.
  destruct (can_send_ok c s HA HI) as (b & Hcs & Hb).
  destruct b.
  2:{ unfold send_request in H. rewrite Hcs in H. cbn [bind negb] in H. inversion H; subst.
      cbn [sends_of flat_map]. rewrite app_nil_r. split; [assumption|intros _; assumption]. }
  rewrite (send_request_nontcp c s i Hp Hcs) in H. unfold send_one in H.
  destruct (Hb eq_refl) as (_ & Hmax & _).
  set (sent := hd_clock (i_clock i) (round_start s)) in *.
  assert (Hcap : sequence s - round_sequence s < 512) by (pose proof (inv_cnt_eq c s HI Hp); pose proof (inv_ttl c s HI); lia).
  destruct (next_probe_spec c s sent HA HI Hcap ltac:(lia)) as (d & bf & Hd & Hbf & Hnp).
  set (p := mk_probe s d (ttl s) sent) in *.
  assert (Hpq : p_sequence p = sequence s) by apply (mk_probe_fields s d (ttl s) sent).
  assert (Hnoacc : forall sr, ~ In (p, sr) A) by (apply (hinv_no_accept_for_new c s S A _ HH HI); assumption).
  assert (Hcommon : forall o st s2, sequence s2 = sequence s + 1 -> round_sequence s2 = round_sequence s ->
            buffer s2 = upd (Z.to_nat (sequence s - round_sequence s)) st (buffer s) ->
            slot_matches A (p, o) None st -> HInv c s2 (S ++ [(p, o)]) A).
  { intros o st s2 E1 E2 E3 E4. eapply hinv_append; eassumption. }
  assert (Hni' : forall o, o <> AddressInUseO -> settled (S ++ [(p, o)])).
  { intros o Ho. apply settled_app_sent; assumption. }
  rewrite Hnp in H. cbn [bind] in H.
  destruct (hd_send (i_sends i)) as [| | |e0] eqn:Eo; cbn [do_send bind] in H.
  - inversion H; subst. cbn [sends_of flat_map app]. split; [|intros _; apply Hni'; discriminate].
    apply (Hcommon Sent (Awaited p)); try reflexivity; try exact Hbf. left. split; [reflexivity|assumption].
  - match type of H with context [fail_probe ?x] => set (s1' := x) in * end.
    assert (HI1 : Inv c s1') by (destruct (next_probe_inv c s sent _ _ HA HI Hcap ltac:(lia) ltac:(auto) Hnp) as [X _]; exact X).
    assert (Hn2 : nth_error (buffer s1') (Z.to_nat (sequence s1' - round_sequence s1' - 1)) = Some (Awaited p)).
    { unfold s1'. cbn [buffer sequence round_sequence]. replace (sequence s + 1 - round_sequence s - 1) with (sequence s - round_sequence s) by lia.
      rewrite Hbf. apply nth_error_upd_eq. pose proof (inv_len c s HI). pose proof (inv_seq c s HI). lia. }
    destruct (fail_probe_spec c s1' _ HI1 ltac:(unfold s1'; cbn [sequence round_sequence]; pose proof (inv_seq c s HI); lia) Hn2) as [Hf _].
    rewrite Hf in H. cbn [bind] in H. inversion H; subst. cbn [sends_of flat_map app]. split; [|intros _; apply Hni'; discriminate].
    apply (Hcommon ProbeFailedO (Failed p)); try reflexivity.
    unfold s1'. cbn [with_buffer buffer sequence round_sequence].
    replace (sequence s + 1 - round_sequence s - 1) with (sequence s - round_sequence s) by lia.
    apply upd_upd.
  - inversion H; subst. cbn [sends_of flat_map app]. split; [|discriminate].
    apply (Hcommon AddressInUseO (Awaited p)); try reflexivity; try exact Hbf. right. split; reflexivity.
  - inversion H; subst. cbn [sends_of flat_map app]. split; [|discriminate].
    apply (Hcommon (FatalS e0) (Awaited p)); try reflexivity; try exact Hbf. left. split; [reflexivity|assumption].
Qed.

(* receive phase *)
Lemma hinv_recv c s i s' e S A : Accept c -> Inv c s -> HInv c s S A -> settled S ->
  recv_response c s i = Ok (s', e) ->
  (s' = s /\ HInv c s' S A) \/
  (exists r sr p, i_recv i = Resp r /\ accepted c s r sr p /\ HInv c s' S (A ++ [(p, sr)])).
Proof.
  intros HA HI HH Hni Hr.
  destruct (c03_only_genuine_lemma c s i s' e HA HI Hr) as [->|(r & sr & p & Hi & Hacc & Hb & Hq & Hrs & Ht & Hrd & Hst)];
    [left; split; [reflexivity|assumption]|].
  right. exists r, sr, p. split; [assumption|]. split; [assumption|].
  destruct Hacc as (_ & _ & _ & Hw & Hn).
  destruct HH as [Hl Hs Hsl Ha Hnd].
  set (idx := Z.to_nat (sr_sequence sr - round_sequence s)) in *.
  assert (Hidx : (idx < length S)%nat) by (unfold idx; lia).
  destruct (nth_error S idx) as [[p' o]|] eqn:Ep; [|apply nth_error_None in Ep; lia].
  destruct (Hsl idx (p', o) Ep) as (st & Hst' & Hm). rewrite Hn in Hst'. inversion Hst'; subst st. clear Hst'.
  assert (Hpo : p' = p /\ (o = Sent \/ exists e0, o = FatalS e0) /\ forall sr0, ~ In (p, sr0) A).
  { unfold slot_matches in Hm. destruct o.
    - destruct Hm as [[Hm Hno]|(sr0 & _ & Hm)]; [|discriminate]. inversion Hm; subst. repeat split; auto.
    - discriminate.
    - exfalso. destruct Hm as [[_ Hm]|[Hnx _]]; [discriminate|]. apply (Hni idx p' Ep). assumption.
    - destruct Hm as [[Hm Hno]|(sr0 & _ & Hm)]; [|discriminate]. inversion Hm; subst. repeat split; eauto. }
  destruct Hpo as (-> & Ho & Hno).
  pose proof (Hs idx (p, o) Ep) as Hpseq. cbn [fst] in Hpseq.
  constructor.
  - lia.
  - intros j po Hj. rewrite Hrs. apply Hs; assumption.
  - intros j po Hj. destruct (Nat.eq_dec j idx) as [->|Hne].
    + rewrite Ep in Hj. inversion Hj; subst po. eexists. split; [rewrite Hb; apply nth_error_upd_eq; pose proof (inv_len c s HI); pose proof (inv_seq c s HI); lia|].
      unfold slot_matches. destruct Ho as [->|(e0 & ->)]; right; exists sr; (split; [apply in_or_app; right; left; reflexivity|reflexivity]).
    + destruct (Hsl j po Hj) as (st & Hst' & Hm'). exists st. split; [rewrite Hb, nth_error_upd_neq by auto; assumption|].
      apply (slot_matches_mono A); [intros x Hx; apply in_or_app; left; assumption| |assumption].
      intros sr0 Hin. apply in_app_or in Hin. destruct Hin as [Hin|[Hin|[]]]; [assumption|].
      inversion Hin as [[Hp0 Hs0]]. exfalso. pose proof (Hs j po Hj) as Hjq. rewrite <- Hp0 in Hjq. lia.
  - intros q sr0 Hin. apply in_app_or in Hin. destruct Hin as [Hin|[Hin|[]]]; [apply (Ha q sr0); assumption|].
    inversion Hin; subst. exists idx, o. split; assumption.
  - rewrite map_app. cbn [map fst]. apply NoDup_app_single; [assumption|].
    intros Hin. apply in_map_iff in Hin. destruct Hin as ([q sr0] & Hqs & Hin). cbn [fst] in Hqs.
    destruct (Ha q sr0 Hin) as (j & o' & Hj & _). pose proof (Hs j (q, o') Hj) as Hjq. cbn [fst] in Hjq.
    assert (j = idx) by lia. subst j. rewrite Ep in Hj. inversion Hj; subst. apply (Hno sr0). assumption.
Qed.

(* ---- what a published round must contain, from the history alone ---- *)
Definition find_accept (A : list (probe * sresp)) (q : Z) : option sresp :=
  match find (fun a => p_sequence (fst a) =? q) A with Some (_, sr) => Some sr | None => None end.

Definition status_of (A : list (probe * sresp)) (po : probe * send_outcome) : pstatus :=
  let '(p, o) := po in
  match o with
  | ProbeFailedO => Failed p
  | AddressInUseO => Skipped
  | _ => match find_accept A (p_sequence p) with
         | Some sr => Complete (complete p sr)
         | None => Awaited p
         end
  end.

Lemma nth_error_ext {A} : forall (l1 l2 : list A), (forall i, nth_error l1 i = nth_error l2 i) -> l1 = l2.
Proof.
  induction l1 as [|x l1 IH]; intros [|y l2] H; try reflexivity.
  - specialize (H 0%nat). discriminate.
  - specialize (H 0%nat). discriminate.
  - pose proof (H 0%nat) as H0. cbn in H0. inversion H0; subst. f_equal. apply IH. intros i. apply (H (Datatypes.S i)).
Qed.

Lemma find_accept_in A : NoDup (map (fun a => p_sequence (fst a)) A) -> forall p sr, In (p, sr) A -> find_accept A (p_sequence p) = Some sr.
Proof.
  unfold find_accept. induction A as [|[q sq] A IH]; intros Hn p sr Hin; [destruct Hin|].
  cbn [find fst]. inversion Hn as [|? ? Hnotin Hn']; subst.
  destruct Hin as [Hin|Hin].
  - inversion Hin; subst. rewrite Z.eqb_refl. reflexivity.
  - destruct (p_sequence q =? p_sequence p) eqn:E.
    + exfalso. apply Hnotin. apply in_map_iff. exists (p, sr). cbn [fst]. split; [lia|assumption].
    + apply IH; assumption.
Qed.

Lemma find_accept_none A q : (forall p sr, In (p, sr) A -> p_sequence p <> q) -> find_accept A q = None.
Proof.
  unfold find_accept. induction A as [|[p sp] A IH]; intros H; [reflexivity|].
  cbn [find fst]. destruct (p_sequence p =? q) eqn:E.
  - exfalso. apply (H p sp); [left; reflexivity|lia].
  - apply IH. intros p0 sr0 Hin. apply (H p0 sr0). right; assumption.
Qed.

Lemma published_probes_match c s S A : Inv c s -> HInv c s S A -> settled S ->
  firstn (Z.to_nat (sequence s - round_sequence s)) (buffer s) = map (status_of A) S.
Proof.
  intros HI [Hl Hs Hsl Ha Hn] Hni. apply nth_error_ext. intros i.
  pose proof (inv_len c s HI) as Hlen. pose proof (inv_seq c s HI) as Hseq.
  destruct (Nat.lt_ge_cases i (length S)) as [Hlt|Hge].
  - rewrite nth_error_firstn by lia. rewrite nth_error_map.
    destruct (nth_error S i) as [[p o]|] eqn:Ei; [|apply nth_error_None in Ei; lia].
    destruct (Hsl i (p, o) Ei) as (st & Hst & Hm). rewrite Hst. cbn [option_map]. f_equal.
    pose proof (Hs i (p, o) Ei) as Hq. cbn [fst] in Hq.
    unfold slot_matches in Hm. unfold status_of.
    assert (Hcase : (st = Awaited p /\ forall sr, ~ In (p, sr) A) \/ (exists sr, In (p, sr) A /\ st = Complete (complete p sr)) ->
              st = match find_accept A (p_sequence p) with Some sr => Complete (complete p sr) | None => Awaited p end).
    { intros [[-> Hno]|(sr & Hin & ->)].
      - rewrite find_accept_none; [reflexivity|]. intros q sq Hin Heq.
        destruct (Ha q sq Hin) as (j & o' & Hj & _). pose proof (Hs j (q, o') Hj) as Hjq. cbn [fst] in Hjq.
        assert (j = i) by lia. subst j. rewrite Ei in Hj. inversion Hj; subst. apply (Hno sq). assumption.
      - rewrite (find_accept_in A Hn p sr Hin). reflexivity. }
    destruct o.
    + apply Hcase. assumption.
    + assumption.
    + destruct Hm as [[_ Hm]|[Hnx _]]; [assumption|]. exfalso. apply (Hni i p Ei). assumption.
    + apply Hcase. assumption.
  - assert (H1 : nth_error (firstn (Z.to_nat (sequence s - round_sequence s)) (buffer s)) i = None)
      by (apply nth_error_None; rewrite firstn_length; lia).
    assert (H2 : nth_error (map (status_of A) S) i = None) by (apply nth_error_None; rewrite map_length; lia).
    congruence.
Qed.

(* ---- the ground-truth notion of a genuine response, as a function of the state before the delivery ---- *)
Definition ghost_pick (c : scfg) (s : tstate) (i : iter_in) : option (probe * sresp) :=
  match i_recv i with
  | Resp r =>
    if validate c (resp_data_of r) then
      match strategy_resp c r with
      | Ok sr =>
        if check_trace_id c (sr_trace_id sr) && (round_sequence s <=? sr_sequence sr) && (sr_sequence sr <? sequence s) then
          match nth_error (buffer s) (Z.to_nat (sr_sequence sr - round_sequence s)) with
          | Some (Awaited p) => Some (p, sr)
          | _ => None
          end
        else None
      | _ => None
      end
    else None
  | _ => None
  end.

Definition ghost_accept (c : scfg) (s : tstate) (i : iter_in) (A : list (probe * sresp)) : list (probe * sresp) :=
  match ghost_pick c s i with Some a => A ++ [a] | None => A end.

Lemma ghost_pick_accepted c s i p sr : ghost_pick c s i = Some (p, sr) -> exists r, i_recv i = Resp r /\ accepted c s r sr p.
Proof.
  unfold ghost_pick, accepted. destruct (i_recv i) as [|r|]; try discriminate.
  destruct (validate c (resp_data_of r)) eqn:Ev; [|discriminate].
  destruct (strategy_resp c r) as [sr0|?|?] eqn:Es; try discriminate.
  destruct (check_trace_id c (sr_trace_id sr0) && (round_sequence s <=? sr_sequence sr0) && (sr_sequence sr0 <? sequence s)) eqn:Ec; [|discriminate].
  destruct (nth_error (buffer s) (Z.to_nat (sr_sequence sr0 - round_sequence s))) as [[| |?|p0|?]|] eqn:En; try discriminate.
  intros H. inversion H; subst. exists r. split; [reflexivity|].
  apply andb_true_iff in Ec. destruct Ec as [Ec E3]. apply andb_true_iff in Ec. destruct Ec as [E1 E2].
  repeat split; try assumption; lia.
Qed.

Lemma accepted_ghost_pick c s i r sr p : i_recv i = Resp r -> accepted c s r sr p -> ghost_pick c s i = Some (p, sr).
Proof.
  intros Hi (Hv & Hs & Hc & Hw & Hn). unfold ghost_pick. rewrite Hi, Hv, Hs, Hc.
  replace (round_sequence s <=? sr_sequence sr) with true by lia. replace (sr_sequence sr <? sequence s) with true by lia.
  cbn [andb]. rewrite Hn. reflexivity.
Qed.

(* an accepted delivery is always applied: the slot becomes Complete *)
Lemma recv_accepted_applies c s i r sr p s' e : Inv c s -> i_recv i = Resp r -> accepted c s r sr p ->
  recv_response c s i = Ok (s', e) ->
  nth_error (buffer s') (Z.to_nat (sr_sequence sr - round_sequence s)) = Some (Complete (complete p sr)).
Proof.
  intros HI Hi (Hv & Hs & Hc & Hw & Hn) H. unfold recv_response in H. rewrite Hi, Hv, Hs in H. cbn [bind] in H. rewrite Hc in H.
  pose proof (inv_seq c s HI) as Hseq. pose proof (inv_len c s HI) as Hlen.
  assert (Hin : in_round s (sr_sequence sr) = true) by (unfold in_round, BUFFER_SIZE; lia).
  rewrite Hin in H. cbn [andb] in H.
  unfold complete_probe in H. destruct (sequence s <=? sr_sequence sr) eqn:Eg; [lia|].
  unfold probe_at, sub16, sub_w in H. destruct (round_sequence s <=? sr_sequence sr) eqn:E1; [|lia]. cbn [bind] in H.
  unfold buf_get in H. destruct (0 <=? sr_sequence sr - round_sequence s) eqn:E2; [|lia]. rewrite Hn in H. cbn [bind] in H.
  unfold buf_set in H. rewrite Hlen in H.
  destruct ((0 <=? sr_sequence sr - round_sequence s) && (sr_sequence sr - round_sequence s <? Z.of_nat 512)) eqn:E3; [|lia].
  cbn [bind] in H. inversion H; subst. cbn [buffer]. apply nth_error_upd_eq. lia.
Qed.

Lemma hinv_recv_ghost c s i s' e S A : Accept c -> Inv c s -> HInv c s S A -> settled S ->
  recv_response c s i = Ok (s', e) -> HInv c s' S (ghost_accept c s i A).
Proof.
  intros HA HI HH Hni Hr. unfold ghost_accept.
  destruct (hinv_recv c s i s' e S A HA HI HH Hni Hr) as [[-> HH']|(r & sr & p & Hi & Hacc & HH')].
  - destruct (ghost_pick c s i) as [[p sr]|] eqn:Eg; [|assumption].
    exfalso. destruct (ghost_pick_accepted c s i p sr Eg) as (r & Hi & Hacc).
    pose proof (recv_accepted_applies c s i r sr p s e HI Hi Hacc Hr) as Hx.
    destruct Hacc as (_ & _ & _ & _ & Hn). rewrite Hn in Hx. discriminate.
  - rewrite (accepted_ghost_pick c s i r sr p Hi Hacc). assumption.
Qed.

(* ---- the run with its ghost history (ICMP / UDP): every published round with the history of that round ---- *)
Fixpoint run_hist (c : scfg) (s : tstate) (S : list (probe * send_outcome)) (A : list (probe * sresp)) (is : list iter_in)
  : list (round_rec * list (probe * send_outcome) * list (probe * sresp)) :=
  if finished s (max_rounds c) then [] else
  match is with
  | [] => []
  | i :: rest =>
    match send_request c s i with
    | Ok (s1, ev1, None) =>
      let S1 := S ++ sends_of ev1 in
      let A1 := ghost_accept c s1 i A in
      match recv_response c s1 i with
      | Ok (s2, None) =>
        match update_round c s2 i with
        | Ok (s3, [EPublish r]) => (r, S1, A1) :: run_hist c s3 [] [] rest
        | Ok (s3, _) => run_hist c s3 S1 A1 rest
        | _ => []
        end
      | _ => []
      end
    | _ => []
    end
  end.

(* ---- TCP: the re-issue loop ---- *)
(* relabel the outcome of the last (just issued, not yet answered) probe *)
Lemma hinv_relabel_last c s S A p o o' st : HInv c s (S ++ [(p, o)]) A ->
  (forall sr, ~ In (p, sr) A) ->
  nth_error (buffer s) (length S) = Some st -> slot_matches A (p, o') None st ->
  (o' = Sent \/ (exists e, o' = FatalS e) \/ o' = ProbeFailedO \/ o' = AddressInUseO) ->
  (forall q sr, In (q, sr) A -> q <> p) ->
  HInv c s (S ++ [(p, o')]) A.
Proof.
  intros [Hl Hs Hsl Ha Hn] Hno Hst Hm Ho' Hnp.
  constructor.
  - rewrite app_length in *. cbn [length] in *. assumption.
  - intros i po Hi. destruct (Nat.lt_ge_cases i (length S)) as [Hlt|Hge].
    + rewrite nth_error_app1 in Hi by assumption. apply Hs. rewrite nth_error_app1 by assumption. assumption.
    + assert (i = length S).
      { assert (nth_error (S ++ [(p, o')]) i <> None) by congruence. apply nth_error_Some in H. rewrite app_length in H. cbn in H. lia. }
      subst i. rewrite nth_error_app_last in Hi. inversion Hi; subst po. cbn [fst].
      apply (Hs (length S) (p, o)). apply nth_error_app_last.
  - intros i po Hi. destruct (Nat.lt_ge_cases i (length S)) as [Hlt|Hge].
    + rewrite nth_error_app1 in Hi by assumption.
      destruct (Hsl i po ltac:(rewrite nth_error_app1 by assumption; assumption)) as (st0 & Hst0 & Hm0).
      exists st0. split; [assumption|].
      destruct (Nat.eq_dec (Datatypes.S i) (length S)) as [He|Hne].
      * rewrite He, nth_error_app_last in *. unfold slot_matches in *. destruct po as [q oq]. destruct oq; try assumption.
        destruct Hm0 as [[_ Hx]|[Hx _]]; [left; split; [discriminate|assumption]|discriminate].
      * assert (Hsame : nth_error (S ++ [(p, o')]) (Datatypes.S i) = nth_error (S ++ [(p, o)]) (Datatypes.S i)).
        { destruct (Nat.lt_ge_cases (Datatypes.S i) (length S)); [rewrite !nth_error_app1 by assumption; reflexivity|lia]. }
        rewrite Hsame. assumption.
    + assert (i = length S).
      { assert (nth_error (S ++ [(p, o')]) i <> None) by congruence. apply nth_error_Some in H. rewrite app_length in H. cbn in H. lia. }
      subst i. rewrite nth_error_app_last in Hi. inversion Hi; subst po.
      exists st. split; [assumption|].
      assert (Hnone : nth_error (S ++ [(p, o')]) (Datatypes.S (length S)) = None) by (apply nth_error_None; rewrite app_length; cbn; lia).
      rewrite Hnone. assumption.
  - intros q sr Hin. destruct (Ha q sr Hin) as (i & oq & Hi & Hoq).
    destruct (Nat.lt_ge_cases i (length S)) as [Hlt|Hge].
    + exists i, oq. split; [|assumption]. rewrite nth_error_app1 in Hi |- * by assumption. assumption.
    + assert (i = length S).
      { assert (nth_error (S ++ [(p, o)]) i <> None) by congruence. apply nth_error_Some in H. rewrite app_length in H. cbn in H. lia. }
      subst i. rewrite nth_error_app_last in Hi. inversion Hi; subst. exfalso. apply (Hnp q sr Hin). reflexivity.
  - assumption.
Qed.

Lemma hinv_append_reissue c s s1 S0 A p p' :
  Inv c s -> HInv c s (S0 ++ [(p, AddressInUseO)]) A ->
  sequence s - round_sequence s < 512 ->
  sequence s1 = sequence s + 1 -> round_sequence s1 = round_sequence s ->
  buffer s1 = upd (Z.to_nat (sequence s - round_sequence s)) (Awaited p')
                  (upd (Z.to_nat (sequence s - round_sequence s - 1)) Skipped (buffer s)) ->
  p_sequence p' = sequence s ->
  HInv c s1 (S0 ++ [(p, AddressInUseO); (p', Sent)]) A.
Proof.
  intros HI [Hl Hs Hsl Ha Hn] Hcap Hq Hr Hb Hp'.
  rewrite app_length in Hl. cbn [length] in Hl.
  assert (Hn0 : Z.to_nat (sequence s - round_sequence s - 1) = length S0) by lia.
  assert (Hn1 : Z.to_nat (sequence s - round_sequence s) = Datatypes.S (length S0)) by lia.
  pose proof (inv_len c s HI) as Hlen. pose proof (inv_seq c s HI) as Hseq.
  assert (Hnoacc : forall sr, ~ In (p', sr) A).
  { intros sr Hin. destruct (Ha p' sr Hin) as (i & o & Hi & _). pose proof (Hs i (p', o) Hi) as Hx. cbn [fst] in Hx.
    assert (nth_error (S0 ++ [(p, AddressInUseO)]) i <> None) by congruence. apply nth_error_Some in H. rewrite app_length in H. cbn in H. lia. }
  replace (S0 ++ [(p, AddressInUseO); (p', Sent)]) with ((S0 ++ [(p, AddressInUseO)]) ++ [(p', Sent)]) by (rewrite <- app_assoc; reflexivity).
  set (S1 := S0 ++ [(p, AddressInUseO)]) in *.
  assert (HlS1 : length S1 = Datatypes.S (length S0)) by (unfold S1; rewrite app_length; cbn; lia).
  constructor.
  - rewrite app_length. cbn [length]. lia.
  - intros i po Hi. destruct (Nat.lt_ge_cases i (length S1)) as [Hlt|Hge].
    + rewrite nth_error_app1 in Hi by assumption. rewrite Hr. apply Hs; assumption.
    + assert (i = length S1).
      { assert (nth_error (S1 ++ [(p', Sent)]) i <> None) by congruence. apply nth_error_Some in H. rewrite app_length in H. cbn in H. lia. }
      subst i. rewrite nth_error_app_last in Hi. inversion Hi; subst po. cbn [fst]. lia.
  - intros i po Hi. destruct (Nat.lt_ge_cases i (length S1)) as [Hlt|Hge].
    + rewrite nth_error_app1 in Hi by assumption.
      destruct (Nat.eq_dec i (length S0)) as [->|Hne].
      * (* the abandoned probe: now Skipped, and it has a successor *)
        unfold S1 in Hi. rewrite nth_error_app_last in Hi. inversion Hi; subst po.
        exists Skipped. split.
        -- rewrite Hb, Hn1, Hn0. rewrite nth_error_upd_neq by lia. apply nth_error_upd_eq. lia.
        -- unfold slot_matches. left. split; [|reflexivity].
           rewrite <- HlS1, nth_error_app_last. discriminate.
      * destruct (Hsl i po Hi) as (st0 & Hst0 & Hm0). exists st0. split.
        -- rewrite Hb, Hn1, Hn0. rewrite !nth_error_upd_neq by lia. assumption.
        -- assert (Hlt0 : (i < length S0)%nat) by lia.
           assert (Hsucc : nth_error (S1 ++ [(p', Sent)]) (Datatypes.S i) = nth_error S1 (Datatypes.S i)) by (rewrite nth_error_app1 by lia; reflexivity).
           rewrite Hsucc. assumption.
    + assert (i = length S1).
      { assert (nth_error (S1 ++ [(p', Sent)]) i <> None) by congruence. apply nth_error_Some in H. rewrite app_length in H. cbn in H. lia. }
      subst i. rewrite nth_error_app_last in Hi. inversion Hi; subst po.
      exists (Awaited p'). split.
      * rewrite Hb, Hn1, HlS1. apply nth_error_upd_eq. rewrite upd_length. lia.
      * assert (Hnone : nth_error (S1 ++ [(p', Sent)]) (Datatypes.S (length S1)) = None) by (apply nth_error_None; rewrite app_length; cbn; lia).
        rewrite Hnone. left. split; [reflexivity|assumption].
  - intros q sr Hin. destruct (Ha q sr Hin) as (i & o & Hi & Ho). exists i, o. split; [|assumption].
    rewrite nth_error_app1; [assumption|]. assert (nth_error S1 i <> None) by congruence. apply nth_error_Some in H. assumption.
  - assumption.
Qed.

Lemma settled_reissued S0 p p' : settled S0 -> settled (S0 ++ [(p, AddressInUseO); (p', Sent)]).
Proof.
  intros Hs i q Hi. destruct (Nat.lt_ge_cases i (length S0)) as [Hlt|Hge].
  - rewrite nth_error_app1 in Hi by assumption. specialize (Hs i q Hi). intros Hn. apply Hs.
    apply nth_error_None in Hn. rewrite app_length in Hn. cbn in Hn. apply nth_error_None. lia.
  - rewrite nth_error_app2 in Hi by assumption. destruct (i - length S0)%nat as [|[|k]] eqn:Ek; cbn in Hi; try discriminate.
    + intros Hn. apply nth_error_None in Hn. rewrite app_length in Hn. cbn in Hn. lia.
    + destruct k; discriminate.
Qed.

Lemma settled_swap_last S p p' : settled (S ++ [(p, Sent)]) -> settled (S ++ [(p, AddressInUseO); (p', Sent)]).
Proof.
  intros Hs i q Hi. destruct (Nat.lt_ge_cases i (length S)) as [Hlt|Hge].
  - rewrite nth_error_app1 in Hi by assumption.
    intros Hn. apply nth_error_None in Hn. rewrite app_length in Hn. cbn in Hn. lia.
  - rewrite nth_error_app2 in Hi by assumption. destruct (i - length S)%nat as [|[|k]] eqn:Ek; cbn in Hi; try discriminate.
    + intros Hn. apply nth_error_None in Hn. rewrite app_length in Hn. cbn in Hn. lia.
    + destruct k; discriminate.
Qed.

(* the last (just issued) probe gets its final outcome; the state may change in that slot only *)
Lemma hinv_change_last c s s2 S A p o o' st' : HInv c s (S ++ [(p, o)]) A ->
  sequence s2 = sequence s -> round_sequence s2 = round_sequence s ->
  (forall j, j <> length S -> nth_error (buffer s2) j = nth_error (buffer s) j) ->
  nth_error (buffer s2) (length S) = Some st' -> slot_matches A (p, o') None st' ->
  (forall q sr, In (q, sr) A -> q <> p) ->
  HInv c s2 (S ++ [(p, o')]) A.
Proof.
  intros [Hl Hs Hsl Ha Hn] Hq Hr Hother Hst Hm Hnp.
  constructor.
  - rewrite app_length in *. cbn [length] in *. lia.
  - intros i po Hi. rewrite Hr. destruct (Nat.lt_ge_cases i (length S)) as [Hlt|Hge].
    + rewrite nth_error_app1 in Hi by assumption. apply Hs. rewrite nth_error_app1 by assumption. assumption.
    + assert (i = length S).
      { assert (nth_error (S ++ [(p, o')]) i <> None) by congruence. apply nth_error_Some in H. rewrite app_length in H. cbn in H. lia. }
      subst i. rewrite nth_error_app_last in Hi. inversion Hi; subst po. cbn [fst].
      apply (Hs (length S) (p, o)). apply nth_error_app_last.
  - intros i po Hi. destruct (Nat.lt_ge_cases i (length S)) as [Hlt|Hge].
    + rewrite nth_error_app1 in Hi by assumption.
      destruct (Hsl i po ltac:(rewrite nth_error_app1 by assumption; assumption)) as (st0 & Hst0 & Hm0).
      exists st0. split; [rewrite Hother by lia; assumption|].
      destruct (Nat.eq_dec (Datatypes.S i) (length S)) as [He|Hne].
      * rewrite He, nth_error_app_last in *. unfold slot_matches in *. destruct po as [q oq]. destruct oq; try assumption.
        destruct Hm0 as [[_ Hx]|[Hx _]]; [left; split; [discriminate|assumption]|discriminate].
      * assert (Hsame : nth_error (S ++ [(p, o')]) (Datatypes.S i) = nth_error (S ++ [(p, o)]) (Datatypes.S i)).
        { destruct (Nat.lt_ge_cases (Datatypes.S i) (length S)); [rewrite !nth_error_app1 by assumption; reflexivity|lia]. }
        rewrite Hsame. assumption.
    + assert (i = length S).
      { assert (nth_error (S ++ [(p, o')]) i <> None) by congruence. apply nth_error_Some in H. rewrite app_length in H. cbn in H. lia. }
      subst i. rewrite nth_error_app_last in Hi. inversion Hi; subst po.
      exists st'. split; [assumption|].
      assert (Hnone : nth_error (S ++ [(p, o')]) (Datatypes.S (length S)) = None) by (apply nth_error_None; rewrite app_length; cbn; lia).
      rewrite Hnone. assumption.
  - intros q sr Hin. destruct (Ha q sr Hin) as (i & oq & Hi & Hoq).
    destruct (Nat.lt_ge_cases i (length S)) as [Hlt|Hge].
    + exists i, oq. split; [|assumption]. rewrite nth_error_app1 in Hi |- * by assumption. assumption.
    + assert (i = length S).
      { assert (nth_error (S ++ [(p, o)]) i <> None) by congruence. apply nth_error_Some in H. rewrite app_length in H. cbn in H. lia. }
      subst i. rewrite nth_error_app_last in Hi. inversion Hi; subst. exfalso. apply (Hnp q sr Hin). reflexivity.
  - assumption.
Qed.

Lemma last_slot_awaited c s S A p : HInv c s (S ++ [(p, Sent)]) A -> (forall sr, ~ In (p, sr) A) ->
  nth_error (buffer s) (length S) = Some (Awaited p).
Proof.
  intros [Hl Hs Hsl Ha Hn] Hno. destruct (Hsl (length S) (p, Sent) (nth_error_app_last S _)) as (st & Hst & Hm).
  unfold slot_matches in Hm. destruct Hm as [[-> _]|(sr & Hin & _)]; [assumption|]. exfalso. apply (Hno sr Hin).
Qed.

Lemma hinv_tcp_loop c : Accept c -> proto c = Tcp -> forall sends s p clk last S A s' ev e,
  Inv c s -> HInv c s (S ++ [(p, Sent)]) A -> settled (S ++ [(p, Sent)]) -> (forall sr, ~ In (p, sr) A) ->
  round_sequence s < sequence s -> first_ttl c < ttl s ->
  tcp_reissue_loop c s p sends clk last = Ok (s', ev, e) ->
  HInv c s' (S ++ sends_of ev) A /\ (e = None -> settled (S ++ sends_of ev)).
Proof.
  intros HA HT. induction sends as [|o rest IH]; intros s p clk last S A s' ev e HI HH Hset Hno Hlt Hft H.
  - cbn [tcp_reissue_loop] in H. inversion H; subst. cbn [sends_of flat_map app]. split; [assumption|intros _; assumption].
  - cbn [tcp_reissue_loop] in H.
    pose proof (last_slot_awaited c s S A p HH Hno) as Hslot.
    assert (Hlen : Z.of_nat (length S) + 1 = sequence s - round_sequence s).
    { destruct HH as [Hl _ _ _ _]. rewrite app_length in Hl. cbn [length] in Hl. lia. }
    assert (Hnp : forall q sr, In (q, sr) A -> q <> p) by (intros q sr Hin ->; apply (Hno sr Hin)).
    destruct o as [| | |e0]; cbn [do_send bind] in H.
    + inversion H; subst. cbn [sends_of flat_map app]. split; [assumption|intros _; assumption].
    + (* transient failure *)
      assert (Hn2 : nth_error (buffer s) (Z.to_nat (sequence s - round_sequence s - 1)) = Some (Awaited p)).
      { replace (Z.to_nat (sequence s - round_sequence s - 1)) with (length S) by lia. assumption. }
      destruct (fail_probe_spec c s p HI Hlt Hn2) as [Hf _]. rewrite Hf in H. cbn [bind] in H. inversion H; subst.
      cbn [sends_of flat_map app]. split.
      * set (s2 := with_buffer s (upd (Z.to_nat (sequence s - round_sequence s - 1)) (Failed p) (buffer s))).
        assert (Hother : forall j, j <> length S -> nth_error (buffer s2) j = nth_error (buffer s) j).
        { intros j Hj. unfold s2. cbn [with_buffer buffer]. apply nth_error_upd_neq. lia. }
        assert (Hst2 : nth_error (buffer s2) (length S) = Some (Failed p)).
        { unfold s2. cbn [with_buffer buffer]. replace (Z.to_nat (sequence s - round_sequence s - 1)) with (length S) by lia.
          apply nth_error_upd_eq. pose proof (inv_len c s HI). pose proof (inv_seq c s HI). lia. }
        exact (hinv_change_last c s s2 S A p Sent ProbeFailedO (Failed p) HH eq_refl eq_refl Hother Hst2 eq_refl Hnp).
      * intros _ i q Hi. destruct (Nat.lt_ge_cases i (length S)) as [Hl0|Hg0].
        -- rewrite nth_error_app1 in Hi by assumption. specialize (Hset i q ltac:(rewrite nth_error_app1 by assumption; assumption)).
           intros Hn. apply Hset. apply nth_error_None in Hn. rewrite app_length in Hn. cbn in Hn. apply nth_error_None. rewrite app_length. cbn. lia.
        -- assert (i = length S).
           { assert (nth_error (S ++ [(p, ProbeFailedO)]) i <> None) by congruence. apply nth_error_Some in H0. rewrite app_length in H0. cbn in H0. lia. }
           subst i. rewrite nth_error_app_last in Hi. discriminate.
    + (* address in use *)
      unfold round_has_capacity, sub16, sub_w, BUFFER_SIZE in H.
      destruct (round_sequence s <=? sequence s) eqn:E1; [|lia]. cbn [bind] in H.
      assert (HHu : HInv c s (S ++ [(p, AddressInUseO)]) A).
      { apply (hinv_change_last c s s S A p Sent AddressInUseO (Awaited p) HH eq_refl eq_refl (fun j _ => eq_refl) Hslot); [|assumption].
        right. split; reflexivity. }
      destruct (sequence s - round_sequence s <? 512) eqn:Ecap.
      * destruct (reissue_probe_spec c s (hd_clock clk last) HA HI HT Hlt ltac:(lia) Hft)
          as (d & p' & s2 & Hd & Hp' & Hr & Hb & Hsq & Hrs & Httl & Hrd & Hst & Htf & Hmr & Htt & Hrt & HI2).
        rewrite Hr in H. cbn [bind] in H.
        destruct (tcp_reissue_loop c s2 p' rest (tl clk) (hd_clock clk last)) as [[[s3 ev3] e3]|?|?] eqn:Hrec; cbn [bind] in H; try discriminate.
        inversion H; subst s' ev e. clear H.
        pose proof (mk_probe_fields s d (ttl s - 1) (hd_clock clk last)) as (Fq & _). rewrite <- Hp' in Fq.
        assert (HH2 : HInv c s2 ((S ++ [(p, AddressInUseO)]) ++ [(p', Sent)]) A).
        { rewrite <- app_assoc. cbn [app]. eapply (hinv_append_reissue c s s2 S A p p' HI HHu); try eassumption; lia. }
        assert (Hno' : forall sr, ~ In (p', sr) A).
        { intros sr Hin. destruct HHu as [_ Hs' _ Ha' _]. destruct (Ha' p' sr Hin) as (j & oj & Hj & _).
          pose proof (Hs' j (p', oj) Hj) as Hx. cbn [fst] in Hx.
          assert (nth_error (S ++ [(p, AddressInUseO)]) j <> None) by congruence. apply nth_error_Some in H. rewrite app_length in H. cbn in H. lia. }
        assert (Hset2 : settled ((S ++ [(p, AddressInUseO)]) ++ [(p', Sent)])).
        { rewrite <- app_assoc. cbn [app]. apply settled_swap_last. assumption. }
        destruct (IH s2 p' (tl clk) (hd_clock clk last) (S ++ [(p, AddressInUseO)]) A s3 ev3 e3 HI2 HH2 Hset2 Hno' ltac:(lia) ltac:(lia) Hrec) as [G1 G2].
        cbn [sends_of flat_map app]. fold (sends_of ev3).
        replace (S ++ (p, AddressInUseO) :: sends_of ev3) with ((S ++ [(p, AddressInUseO)]) ++ sends_of ev3) by (rewrite <- app_assoc; reflexivity).
        split; assumption.
      * inversion H; subst. cbn [sends_of flat_map app]. split; [assumption|discriminate].
    + inversion H; subst. cbn [sends_of flat_map app]. split; [|discriminate].
      apply (hinv_change_last c s' s' S A p Sent (FatalS e0) (Awaited p) HH eq_refl eq_refl (fun j _ => eq_refl) Hslot); [|assumption].
      left. split; [reflexivity|assumption].
Qed.

(* send phase, any protocol *)
Lemma hinv_send_any c s i s1 ev e S A : Accept c -> Inv c s -> HInv c s S A -> settled S ->
  send_request c s i = Ok (s1, ev, e) ->
  HInv c s1 (S ++ sends_of ev) A /\ (e = None -> settled (S ++ sends_of ev)).
Proof.
  intros HA HI HH Hset H.
  destruct (proto c) eqn:Ep;
    [ apply (hinv_send c s i s1 ev e S A HA ltac:(congruence) HI HH Hset H)
    | apply (hinv_send c s i s1 ev e S A HA ltac:(congruence) HI HH Hset H) | ].
  pose proof (accept_facts c HA) as F.
  destruct (can_send_ok c s HA HI) as (b & Hcs & Hb). unfold send_request in H. rewrite Hcs, Ep in H. cbn [bind] in H.
  destruct b; cbn [negb] in H.
  2:{ inversion H; subst. cbn [sends_of flat_map]. rewrite app_nil_r. split; [assumption|intros _; assumption]. }
  destruct (Hb eq_refl) as (_ & Hmax & _).
  unfold round_has_capacity, sub16, sub_w, BUFFER_SIZE in H.
  pose proof (inv_seq c s HI) as Hseq.
  destruct (round_sequence s <=? sequence s) eqn:E1; [|lia]. cbn [bind] in H.
  destruct (sequence s - round_sequence s <? 512) eqn:Ecap; cbn [negb] in H.
  2:{ inversion H; subst. cbn [sends_of flat_map]. rewrite app_nil_r. split; [assumption|discriminate]. }
  set (sent := hd_clock (i_clock i) (round_start s)) in *.
  assert (Hcap : sequence s - round_sequence s < 512) by lia.
  destruct (next_probe_spec c s sent HA HI Hcap ltac:(lia)) as (d & bf & Hd & Hbf & Hnp).
  set (p := mk_probe s d (ttl s) sent) in *.
  assert (Hpq : p_sequence p = sequence s) by apply (mk_probe_fields s d (ttl s) sent).
  assert (Hnoacc : forall sr, ~ In (p, sr) A) by (apply (hinv_no_accept_for_new c s S A _ HH HI); assumption).
  rewrite Hnp in H. cbn [bind] in H.
  match type of H with context [tcp_reissue_loop c ?x] => set (s0 := x) in * end.
  destruct (next_probe_inv c s sent _ _ HA HI Hcap ltac:(lia) ltac:(auto) Hnp) as (HI0 & Hsq0 & Httl0 & Hrs0 & _).
  assert (HH0 : HInv c s0 (S ++ [(p, Sent)]) A).
  { assert (Hbuf : buffer s0 = upd (Z.to_nat (sequence s - round_sequence s)) (Awaited p) (buffer s)) by (unfold s0; cbn [buffer]; exact Hbf).
    assert (Hm : slot_matches A (p, Sent) None (Awaited p)) by (left; split; [reflexivity|assumption]).
    exact (hinv_append c s s0 S A p Sent (Awaited p) HI HH Hcap Hsq0 Hrs0 Hbuf Hpq Hnoacc Hm Hset). }
  assert (Hset0 : settled (S ++ [(p, Sent)])) by (apply settled_app_sent; [assumption|discriminate]).
  destruct (i_sends i) as [|o rest] eqn:Es.
  - inversion H; subst. cbn [sends_of flat_map app]. split; [assumption|intros _; assumption].
  - apply (hinv_tcp_loop c HA Ep (o :: rest) s0 p (tl (i_clock i)) sent S A s1 ev e HI0 HH0 Hset0 Hnoacc); try assumption; try lia.
    pose proof (inv_ttl c s HI). lia.
Qed.

Theorem run_hist_matches c : Accept c -> forall is s S A,
  Inv c s -> HInv c s S A -> settled S ->
  Forall (fun x => let '(r, S', A') := x in rr_probes r = map (status_of A') S') (run_hist c s S A is).
Proof.
  intros HA. induction is as [|i rest IH]; intros s S A HI HH Hni; cbn [run_hist].
  - destruct (finished s (max_rounds c)); constructor.
  - destruct (finished s (max_rounds c)); [constructor|].
    destruct (send_request_ok c s i HA HI) as (s1 & ev1 & e1 & H1 & HI1 & _). rewrite H1.
    destruct e1 as [e1|]; [constructor|].
    destruct (hinv_send_any c s i s1 ev1 None S A HA HI HH Hni H1) as [HH1 Hni1]. specialize (Hni1 eq_refl).
    destruct (recv_response_ok c s1 i HA HI1) as (s2 & e2 & H2 & HI2 & _). rewrite H2.
    destruct e2 as [e2|]; [constructor|].
    pose proof (hinv_recv_ghost c s1 i s2 None _ A HA HI1 HH1 Hni1 H2) as HH2.
    destruct (update_round_ok c s2 i HA HI2) as (s3 & ev3 & H3 & HI3 & Hcase). rewrite H3.
    destruct Hcase as [(Hnp & -> & ->)|(Hpub & r & Hr & -> & Ha & _)].
    + apply IH; assumption.
    + constructor.
      * destruct (publish_trace_ok c s2 HA HI2) as (r' & Hr' & Hprobes & _). rewrite Hr in Hr'. inversion Hr'; subst r'.
        rewrite Hprobes. apply (published_probes_match c s2 _ _ HI2 HH2 Hni1).
      * apply IH; [assumption| |intros j q Hj; destruct j; discriminate].
        destruct (advance_round_spec c s2 (i_advance i) HA HI2) as (sx & Hax & _ & _ & _ & _ & Hq & _ & _ & _ & _ & Hb & _).
        rewrite Ha in Hax. inversion Hax; subst sx.
        constructor; cbn [length nth_error]; try lia; try (intros [|?] ? Hx; discriminate); try (intros ? ? []). constructor.
Qed.

(* the ghost run publishes exactly the rounds of the real run *)
Lemma run_hist_rounds c : Accept c -> forall is s S A, Inv c s ->
  map (fun x => fst (fst x)) (run_hist c s S A is) = pubs (fst (fst (run_from c s is))).
Proof.
  intros HA. induction is as [|i rest IH]; intros s S A HI; cbn [run_hist run_from].
  - destruct (finished s (max_rounds c)); reflexivity.
  - destruct (finished s (max_rounds c)); [reflexivity|].
    destruct (send_request_ok c s i HA HI) as (s1 & ev1 & e1 & H1 & HI1 & _ & Hsh).
    assert (Hp1 : pubs ev1 = []).
    { destruct Hsh as [[-> _]|Hsh]; [reflexivity|]. destruct Hsh as (_ & Hlen & _). apply pubs_sends_nil; assumption. }
    unfold step. rewrite H1. cbn [bind].
    destruct e1 as [e1|]; [cbn [fst map]; rewrite Hp1; reflexivity|].
    destruct (recv_response_ok c s1 i HA HI1) as (s2 & e2 & H2 & HI2 & _). rewrite H2. cbn [bind].
    destruct e2 as [e2|]; [cbn [fst map]; rewrite Hp1; reflexivity|].
    destruct (update_round_ok c s2 i HA HI2) as (s3 & ev3 & H3 & HI3 & Hcase). rewrite H3. cbn [bind].
    destruct Hcase as [(Hnp & -> & ->)|(Hpub & r & Hr & -> & Ha & _)].
    + rewrite (IH s2 _ _ HI2). destruct (run_from c s2 rest) as [[evs o] sf]. cbn [fst]. rewrite app_nil_r, pubs_app, Hp1. reflexivity.
    + cbn [map fst]. rewrite (IH s3 _ _ HI3). destruct (run_from c s3 rest) as [[evs o] sf]. cbn [fst].
      rewrite !pubs_app, Hp1. reflexivity.
Qed.

(* the fields of a completed probe are those of the probe as sent and of the accepted response *)
Lemma complete_fields p sr :
  c_probe (complete p sr) = p /\ c_host (complete p sr) = sr_addr sr /\ c_received (complete p sr) = sr_received sr /\
  c_icmp (complete p sr) = sr_icmp sr /\ c_tos (complete p sr) = sr_tos sr /\ c_exts (complete p sr) = sr_exts sr.
Proof. repeat split. Qed.
