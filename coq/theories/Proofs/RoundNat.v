(* C19: the NAT statuses one published round leaves on the hops, as produced by the real loop
   (fs_apply / fold_probes / update_for_probe), equal StateProofs.nat_spec None applied to the (expected, actual)
   checksum pairs of the round's responding probes in round order: the carried checksum starts from None in every
   round and, since every flow is updated by its own fs_apply, in every flow.

   [round_nat ps]: the responding probes' distances paired with nat_spec None over their checksum pairs;
   [nat_at l t old]: the status hop t shows after these were written in order (the last one written wins,
   a hop that did not respond keeps what it had). *)
From Coq Require Import QArith Sorted.
From TV Require Import Base.Result Core.Types Core.Flows Core.State
  Proofs.ListLemmas Proofs.HopProofs Proofs.HopHistory Proofs.FlowsProofs Proofs.StateProofs Proofs.FlowAttr Proofs.RoundFold.
From Coq Require Import ZifyBool.
Open Scope Z_scope.

(* ====================================================================== specification vocabulary *)

(* the distance of a responding probe (one that carries both checksums) *)
Definition resp_ttl (s : pstatus) : list Z :=
  match s with
  | Complete c => match cks_of s with [] => [] | _ :: _ => [p_ttl (c_probe c)] end
  | _ => []
  end.
Definition resp_ttls (ps : list pstatus) : list Z := flat_map resp_ttl ps.

Definition round_nat (ps : list pstatus) : list (Z * nat_status) :=
  combine (resp_ttls ps) (nat_spec None (responders ps)).

Definition nat_at (l : list (Z * nat_status)) (t : Z) (old : nat_status) : nat_status :=
  fold_left (fun acc x => if fst x =? t then snd x else acc) l old.

(* the property's wording, position by position: the j-th responding probe of a round is compared with the checksum
   quoted by the (j-1)-th, the first one with the checksum of the probe as sent *)
Definition reference_of (l : list (Z * Z)) (j : nat) (e : Z) : Z :=
  match j with O => e | S j' => snd (nth j' l (0, 0)) end.

Lemma nat_spec_nth_gen l : forall prev j e a, nth_error l j = Some (e, a) ->
  nth_error (nat_spec prev l) j =
  Some (if a =? match j with O => nat_reference e prev | S j' => snd (nth j' l (0, 0)) end
        then NatNotDetected else NatDetected).
Proof.
  induction l as [|[e0 a0] l IH]; intros prev [|j] e a H; cbn [nth_error] in H; try discriminate.
  - inversion H; subst. reflexivity.
  - cbn [nat_spec nth_error]. rewrite (IH (Some a0) j e a H). destruct j as [|j']; reflexivity.
Qed.

Theorem nat_spec_nth l j e a : nth_error l j = Some (e, a) ->
  nth_error (nat_spec None l) j = Some (if a =? reference_of l j e then NatNotDetected else NatDetected).
Proof. intros H. rewrite (nat_spec_nth_gen l None j e a H). destruct j; reflexivity. Qed.

(* ====================================================================== the NAT status of a hop after a list of events *)

Definition ev_nat (es : list hev) (old : nat_status) : nat_status :=
  fold_left (fun acc e => match e with HN n => n | _ => acc end) es old.

Lemma hop_run_from_nat ms : forall es h, h_last_nat (hop_run_from ms h es) = ev_nat es (h_last_nat h).
Proof.
  induction es as [|e es IH]; intros h; [reflexivity|].
  unfold hop_run_from, ev_nat. cbn [fold_left]. fold (hop_run_from ms (hop_step ms h e) es). rewrite IH.
  unfold ev_nat. destruct e; reflexivity.
Qed.

Lemma ev_nat_app a b old : ev_nat (a ++ b) old = ev_nat b (ev_nat a old).
Proof. unfold ev_nat. apply fold_left_app. Qed.

Lemma skipn_nth {A} (d : A) : forall l n, (n < length l)%nat -> skipn n l = nth n l d :: skipn (S n) l.
Proof.
  induction l as [|x l IH]; intros [|n] H; cbn [length] in H; try lia; [reflexivity|].
  cbn [skipn nth]. rewrite (IH n) by lia. reflexivity.
Qed.

Lemma resp_ttls_length ps : length (resp_ttls ps) = length (responders ps).
Proof.
  induction ps as [|s r IH]; [reflexivity|]. unfold resp_ttls, responders in *. cbn [flat_map]. rewrite !app_length, IH. f_equal.
  destruct s; try reflexivity. cbn [resp_ttl]. destruct (cks_of (Complete c)) as [|x [|y tl]] eqn:E; try reflexivity.
  cbn [cks_of] in E. destruct (c_expected c), (c_actual c); discriminate.
Qed.

Lemma events_from_nat all : forall rest pre t old, all = pre ++ rest ->
  ev_nat (events_from all pre rest t) old =
  nat_at (combine (resp_ttls rest) (skipn (length (responders pre)) (nat_spec None (responders all)))) t old.
Proof.
  induction rest as [|s r IH]; intros pre t old Hall; [reflexivity|].
  cbn [events_from]. rewrite ev_nat_app, (IH (pre ++ [s]) t _) by (rewrite <- app_assoc; exact Hall).
  rewrite responders_app, app_length. change (responders [s]) with (cks_of s ++ []). rewrite app_nil_r.
  unfold resp_ttls at 2. cbn [flat_map]. fold (resp_ttls r).
  destruct (cks_of s) as [|ea tl] eqn:Ec.
  - (* not a responding probe: no status written *)
    cbn [length]. rewrite Nat.add_0_r.
    assert (Hr : resp_ttl s = []) by (destruct s; try reflexivity; cbn [resp_ttl]; rewrite Ec; reflexivity).
    rewrite Hr. cbn [app]. f_equal.
    destruct (ttl_is t s); [|reflexivity].
    destruct s; try reflexivity. cbn [status_events]. rewrite Ec. reflexivity.
  - destruct s as [| |p|p|c]; cbn [cks_of] in Ec; try discriminate.
    assert (tl = []) as -> by (destruct (c_expected c), (c_actual c); inversion Ec; reflexivity).
    cbn [length resp_ttl cks_of]. cbn [cks_of] in Ec. rewrite Ec. cbn [app].
    rewrite (skipn_nth NatNotApplicable _ (length (responders pre))).
    2:{ rewrite nat_spec_length, Hall, responders_app, app_length.
        change (responders (Complete c :: r)) with (cks_of (Complete c) ++ responders r). cbn [cks_of]. rewrite Ec.
        cbn [app length]. lia. }
    cbn [combine nat_at fold_left fst snd]. rewrite Nat.add_1_r. f_equal.
    unfold ttl_is. cbn [status_ttl status_events cks_of]. rewrite Ec.
    destruct (p_ttl (c_probe c) =? t); reflexivity.
Qed.

Lemma round_events_nat ps t old : ev_nat (round_events ps t) old = nat_at (round_nat ps) t old.
Proof.
  pose proof (events_from_index ps ps [] t eq_refl) as E. cbn [length] in E. unfold round_events. rewrite <- E.
  rewrite (events_from_nat ps ps [] t old eq_refl). reflexivity.
Qed.

(* ====================================================================== one round, the real loop *)

Theorem fs_apply_nat f r f' : fs_apply f r = Ok f' ->
  forall i, option_map h_last_nat (nth_error (fs_hops f') i) =
            option_map (fun h => nat_at (round_nat (rr_probes r)) (Z.of_nat i + 1) (h_last_nat h)) (nth_error (fs_hops f) i).
Proof.
  intros H i. destruct (fs_apply_events f r f' H) as [_ N]. rewrite N, option_map_comp.
  apply option_map_ext. intros h. rewrite hop_run_from_nat. apply round_events_nat.
Qed.

(* any number of rounds: every round is evaluated on its own, with nothing carried over *)
Definition rounds_nat (rs : list round_rec) (t : Z) (old : nat_status) : nat_status :=
  fold_left (fun acc r => nat_at (round_nat (rr_probes r)) t acc) rs old.

Theorem fs_run_nat : forall rs f f', fs_run f rs = Ok f' ->
  forall i, option_map h_last_nat (nth_error (fs_hops f') i) =
            option_map (fun h => rounds_nat rs (Z.of_nat i + 1) (h_last_nat h)) (nth_error (fs_hops f) i).
Proof.
  induction rs as [|r rs IH]; intros f f' H i; cbn [fs_run] in H.
  - inversion H; subst f'. destruct (nth_error (fs_hops f) i); reflexivity.
  - destruct (fs_apply f r) as [f1|?|?] eqn:E1; cbn [bind] in H; try discriminate.
    rewrite (IH f1 f' H i). pose proof (fs_apply_nat f r f1 E1 i) as H1.
    destruct (nth_error (fs_hops f1) i) as [h1|], (nth_error (fs_hops f) i) as [h|]; cbn [option_map] in *; try discriminate; [|reflexivity].
    inversion H1 as [H1']. unfold rounds_nat. cbn [fold_left]. rewrite H1'. reflexivity.
Qed.

(* per flow: the flows a round goes to (the default flow and the attributed flow) each evaluate it from None;
   every other flow is untouched *)
Theorem update_from_round_nat s r s' id : dense (st_registry s) -> update_from_round s r = Ok s' ->
  if selects id s r
  then forall i, option_map h_last_nat (nth_error (fs_hops (flow_or_new s' id)) i) =
                 option_map (fun h => nat_at (round_nat (rr_probes r)) (Z.of_nat i + 1) (h_last_nat h))
                            (nth_error (fs_hops (flow_or_new s id)) i)
  else flow_or_new s' id = flow_or_new s id.
Proof.
  intros Hd H. destruct (update_from_round_per_flow s r s' id Hd H) as [_ Hsel].
  destruct (selects id s r); [|exact Hsel]. exact (fs_apply_nat _ _ _ Hsel).
Qed.

(* ====================================================================== consequences on the hops *)

Lemma nat_at_notin l t old : ~ In t (map fst l) -> nat_at l t old = old.
Proof.
  revert old. induction l as [|x l IH]; intros old Hn; [reflexivity|].
  unfold nat_at. cbn [fold_left]. cbn [map] in Hn.
  destruct (fst x =? t) eqn:E; [exfalso; apply Hn; left; lia|]. apply IH. intros Hi. apply Hn. right; assumption.
Qed.

Lemma nat_at_lookup l t v : NoDup (map fst l) -> In (t, v) l -> forall old, nat_at l t old = v.
Proof.
  induction l as [|x l IH]; intros Hnd Hin old; [destruct Hin|].
  cbn [map] in Hnd. inversion Hnd as [|? ? Hx Hnd']; subst.
  unfold nat_at. cbn [fold_left]. destruct Hin as [->|Hin].
  - cbn [fst snd]. rewrite Z.eqb_refl. apply nat_at_notin. exact Hx.
  - apply (IH Hnd' Hin).
Qed.

Lemma round_nat_keys ps : map fst (round_nat ps) = resp_ttls ps.
Proof.
  unfold round_nat.
  assert (H : forall (a : list Z) (b : list nat_status), length a = length b -> map fst (combine a b) = a).
  { induction a as [|x a IH]; intros [|y b] Hl; cbn in *; try discriminate; [reflexivity|]. f_equal. apply IH. lia. }
  apply H. rewrite nat_spec_length. apply resp_ttls_length.
Qed.

(* a hop that did not respond in the round keeps its status *)
Theorem round_nat_silent ps t old : ~ In t (resp_ttls ps) -> nat_at (round_nat ps) t old = old.
Proof. intros H. apply nat_at_notin. rewrite round_nat_keys. exact H. Qed.

(* with one probe per distance, the hop of the j-th responding probe shows the j-th status of nat_spec None *)
Theorem round_nat_nth ps j t old : NoDup (resp_ttls ps) -> nth_error (resp_ttls ps) j = Some t ->
  nat_at (round_nat ps) t old = nth j (nat_spec None (responders ps)) NatNotApplicable.
Proof.
  intros Hnd Hj. apply nat_at_lookup; [rewrite round_nat_keys; exact Hnd|].
  assert (Hlt : (j < length (resp_ttls ps))%nat) by (apply nth_error_Some; congruence).
  assert (Hc : nth_error (round_nat ps) j = Some (t, nth j (nat_spec None (responders ps)) NatNotApplicable)).
  { unfold round_nat.
    assert (H : forall (a : list Z) (b : list nat_status) k x, nth_error a k = Some x -> (k < length b)%nat ->
               nth_error (combine a b) k = Some (x, nth k b NatNotApplicable)).
    { induction a as [|y a IH]; intros [|z b] [|k] x Hx Hk; cbn in *; try discriminate; try lia.
      - inversion Hx; reflexivity.
      - apply IH; [assumption|lia]. }
    apply H; [exact Hj|]. rewrite nat_spec_length, <- resp_ttls_length. exact Hlt. }
  exact (nth_error_In _ _ Hc).
Qed.

(* ... and that status is Detected exactly when the quoted checksum differs from the previous responding probe's
   (from the checksum of the probe as sent, for the first one) *)
Theorem round_nat_responder ps j t e a old : NoDup (resp_ttls ps) ->
  nth_error (resp_ttls ps) j = Some t -> nth_error (responders ps) j = Some (e, a) ->
  nat_at (round_nat ps) t old = if a =? reference_of (responders ps) j e then NatNotDetected else NatDetected.
Proof.
  intros Hnd Hj He. rewrite (round_nat_nth ps j t old Hnd Hj).
  pose proof (nat_spec_nth (responders ps) j e a He) as Hs.
  apply nth_error_nth with (d := NatNotApplicable) in Hs. exact Hs.
Qed.

(* no rewriting anywhere on the path: every hop that responds in the round shows NotDetected *)
Theorem round_nat_no_rewrite ps e0 t old : Forall (fun ea => fst ea = e0 /\ snd ea = e0) (responders ps) ->
  In t (resp_ttls ps) -> nat_at (round_nat ps) t old = NatNotDetected.
Proof.
  intros Hall Hin.
  pose proof (nat_no_rewrite (responders ps) None e0 Hall (or_introl eq_refl)) as HF.
  assert (Hgen : forall l, Forall (fun x : Z * nat_status => snd x = NatNotDetected) l -> In t (map fst l) ->
            forall o, nat_at l t o = NatNotDetected).
  { induction l as [|x l IH]; intros Hl Hi o; [destruct Hi|].
    unfold nat_at. cbn [fold_left]. pose proof (Forall_inv Hl) as Hx. pose proof (Forall_inv_tail Hl) as Hl'.
    destruct (in_dec Z.eq_dec t (map fst l)) as [Hi'|Hn].
    - apply (IH Hl' Hi').
    - fold (nat_at l t (if fst x =? t then snd x else o)). rewrite nat_at_notin by assumption.
      destruct Hi as [Hi|Hi]; [|contradiction]. cbn [map] in Hi. rewrite Hi, Z.eqb_refl. exact Hx. }
  apply Hgen; [|rewrite round_nat_keys; exact Hin].
  unfold round_nat. apply Forall_forall. intros [k v] Hkv. apply in_combine_r in Hkv.
  rewrite Forall_forall in HF. cbn [snd]. apply HF. exact Hkv.
Qed.

Lemma nth_repeat_lt {A} (a d : A) : forall m n, (n < m)%nat -> nth n (repeat a m) d = a.
Proof. induction m as [|m IH]; intros [|n] H; cbn [repeat nth]; try lia; [reflexivity|]. apply IH. lia. Qed.

(* a single rewriting device, one probe per distance: the hop of the first responding probe at or beyond the device
   shows Detected, every other responding hop NotDetected *)
Theorem round_nat_single_rewrite ps before after e0 a1 j t old : a1 <> e0 ->
  NoDup (resp_ttls ps) -> responders ps = before ++ after ->
  Forall (fun ea => fst ea = e0 /\ snd ea = e0) before ->
  Forall (fun ea => fst ea = e0 /\ snd ea = a1) after ->
  nth_error (resp_ttls ps) j = Some t ->
  nat_at (round_nat ps) t old = if (j =? length before)%nat then NatDetected else NatNotDetected.
Proof.
  intros Hne Hnd Hr Hb Ha Hj. rewrite (round_nat_nth ps j t old Hnd Hj), Hr.
  rewrite (nat_single_rewrite before after e0 a1 Hne Hb Ha).
  assert (Hlt : (j < length before + length after)%nat).
  { assert (H : (j < length (resp_ttls ps))%nat) by (apply nth_error_Some; congruence).
    rewrite resp_ttls_length, Hr, app_length in H. exact H. }
  destruct (Nat.eqb_spec j (length before)) as [->|Hneq].
  - rewrite app_nth2 by (rewrite repeat_length; lia). rewrite repeat_length, Nat.sub_diag.
    destruct after; [cbn [length] in Hlt; lia|reflexivity].
  - destruct (Nat.lt_ge_cases j (length before)) as [Hl|Hl].
    + rewrite app_nth1 by (rewrite repeat_length; assumption). apply nth_repeat_lt. assumption.
    + rewrite app_nth2 by (rewrite repeat_length; lia). rewrite repeat_length.
      destruct after as [|x after']; [cbn [length] in Hlt; lia|]. cbn [length] in Hlt.
      destruct (j - length before)%nat as [|m] eqn:Em; [lia|]. cbn [nth]. apply nth_repeat_lt. lia.
Qed.

(* every other configuration: rounds whose responses carry no checksum pair leave NotApplicable on a fresh flow *)
Theorem fs_run_not_applicable ms rs f' : Forall (fun r => responders (rr_probes r) = []) rs ->
  fs_run (flow_state_new ms) rs = Ok f' ->
  forall i h, nth_error (fs_hops f') i = Some h -> h_last_nat h = NatNotApplicable.
Proof.
  intros Hall H i h Hh. pose proof (fs_run_nat rs _ f' H i) as N. rewrite Hh in N. cbn [option_map] in N.
  cbn [flow_state_new fs_hops] in N.
  destruct (nth_error (repeat hop_default MAX_TTL_N) i) as [h0|] eqn:E0; cbn [option_map] in N; [|discriminate].
  apply nth_error_In, repeat_spec in E0. subst h0. inversion N as [N']. rewrite N'. clear N N'.
  cbn [hop_default h_last_nat]. generalize NatNotApplicable. intros old. unfold rounds_nat. clear H Hh.
  induction Hall as [|r rs' Hr _ IH]; [reflexivity|]. cbn [fold_left].
  rewrite round_nat_silent; [exact IH|].
  intros Hin. assert (Hz : length (resp_ttls (rr_probes r)) = 0%nat) by (rewrite resp_ttls_length, Hr; reflexivity).
  destruct (resp_ttls (rr_probes r)); [destruct Hin|discriminate].
Qed.

(* in an ascending round (what the strategy publishes, PublishAscending.v) the responding probes have distinct distances *)
Lemma resp_ttls_in_ttls ps t : In t (resp_ttls ps) -> In t (ttls ps).
Proof.
  unfold resp_ttls, ttls. rewrite !in_flat_map. intros (s & Hs & Ht). exists s. split; [assumption|].
  destruct s; cbn [resp_ttl] in Ht; try destruct Ht.
  destruct (cks_of (Complete c)); [destruct Ht|]. cbn [status_ttl]. exact Ht.
Qed.

Theorem ascending_resp_nodup ps : ascending ps -> NoDup (resp_ttls ps).
Proof.
  unfold ascending. induction ps as [|s r IH]; intros H; [constructor|].
  rewrite ttls_cons in H. unfold resp_ttls. cbn [flat_map]. fold (resp_ttls r).
  destruct (status_ttl s) as [x|] eqn:Ex.
  - inversion H as [|? ? Hs Hf]; subst. specialize (IH Hs).
    assert (Hr : resp_ttl s = [] \/ resp_ttl s = [x]).
    { destruct s; cbn [resp_ttl]; try (left; reflexivity). destruct (cks_of (Complete c)); [left; reflexivity|].
      right. cbn [status_ttl] in Ex. inversion Ex. reflexivity. }
    destruct Hr as [->| ->]; cbn [app]; [assumption|]. constructor; [|assumption].
    intros Hin. apply resp_ttls_in_ttls in Hin. rewrite Forall_forall in Hf. specialize (Hf x Hin). lia.
  - assert (Hr : resp_ttl s = []) by (destruct s; try reflexivity; discriminate). rewrite Hr. apply IH. assumption.
Qed.
