(* C06 / C08 over WHOLE RUNS.
   [run_obs] re-runs the loop of Core/Strategy.v and records, in order, everything that crosses the Network
   interface and every clock reading of update_round / advance_round (the observation log).  [events_of]
   erases the log to the event list of [run_from]: it is the same run (theorem [run_obs_events]).

   The SPEC side never mentions the tracer state: a [ghost] is a fold over the log (the probes handed to the
   network in the round in progress, the genuine answers of that round - decided on the log alone by
   [genuine] -, the instant the round started, the established target distance), and [obs_ok] says what the
   properties demand of each observation given the ghost of the log BEFORE it.
   Theorem [run_obs_ok]: every observation of every run satisfies [obs_ok]. *)
From TV Require Import Base.Result Core.Types Core.TracerState Core.Strategy Core.Builder
  Proofs.ListLemmas Proofs.StrategyInv Proofs.StrategyProps Proofs.RoundHistory.
From Coq Require Import ZifyBool.

(* ------------------------------------------------------------------ the observation log *)
Inductive obs :=
| OSend (p : probe) (o : send_outcome)       (* network.send_probe(p) returned o *)
| ORecv (r : response)                       (* network.recv_probe returned Some(r) *)
| OUpdate (now : Z)                          (* update_round read the clock and did not publish *)
| OPublish (r : round_rec) (now adv : Z).    (* update_round read [now] and published r; advance_round read [adv] *)

Definition obs_sends (ev : list event) : list obs := map (fun po => OSend (fst po) (snd po)) (sends_of ev).
Definition obs_recv (i : iter_in) : list obs := match i_recv i with Resp r => [ORecv r] | _ => [] end.

Fixpoint run_obs (c : scfg) (s : tstate) (is : list iter_in) : list obs :=
  if finished s (max_rounds c) then [] else
  match is with
  | [] => []
  | i :: rest =>
    match send_request c s i with
    | Ok (s1, ev1, None) =>
      obs_sends ev1 ++
      match recv_response c s1 i with
      | Ok (s2, None) =>
        obs_recv i ++
        match update_round c s2 i with
        | Ok (s3, [EPublish r]) => OPublish r (i_update i) (i_advance i) :: run_obs c s3 rest
        | Ok (s3, _) => OUpdate (i_update i) :: run_obs c s3 rest
        | _ => []
        end
      | _ => []
      end
    | Ok (s1, ev1, Some _) => obs_sends ev1
    | _ => []
    end
  end.

Definition events_of (l : list obs) : list event :=
  flat_map (fun o => match o with OSend p x => [ESend p x] | OPublish r _ _ => [EPublish r] | _ => [] end) l.

(* ------------------------------------------------------------------ the spec: a fold over the log *)
Record ghost := {
  g_round : Z;                                (* number of the round in progress *)
  g_start : Z;                                (* instant the round in progress started *)
  g_S : list (probe * send_outcome);          (* probes handed to the network in this round, with the outcome *)
  g_A : list (probe * sresp);                 (* genuine answers of this round: (probe answered, response) *)
  g_dist : option Z;                          (* established distance of the target (survives the round) *)
}.

Definition g_init (t0 : Z) : ghost := {| g_round := 0; g_start := t0; g_S := []; g_A := []; g_dist := None |}.

(* a probe can be answered unless its send failed or it was abandoned (address in use) *)
Definition answerable (o : send_outcome) : bool :=
  match o with Sent | FatalS _ => true | ProbeFailedO | AddressInUseO => false end.

(* ground truth, on the log alone: the response passes validation, carries this tracer's identifier (or 0),
   names the sequence of an answerable probe of this round, and that probe has not been answered yet *)
Definition genuine (c : scfg) (S : list (probe * send_outcome)) (A : list (probe * sresp)) (r : response)
  : option (probe * sresp) :=
  if validate c (resp_data_of r) then
    match strategy_resp c r with
    | Ok sr =>
      if check_trace_id c (sr_trace_id sr) then
        match find (fun po => p_sequence (fst po) =? sr_sequence sr) S with
        | Some (p, o) =>
          if answerable o && negb (existsb (fun a => p_sequence (fst a) =? sr_sequence sr) A)
          then Some (p, sr) else None
        | None => None
        end
      else None
    | _ => None
    end
  else None.

(* the target's distance: the smallest ttl the target answered at; forgotten when some other host answers a
   probe of that ttl or beyond (the path has changed) *)
Definition dist_update (d : option Z) (t : Z) (is_target : bool) : option Z :=
  if is_target then
    match d with None => Some t | Some x => Some (Z.min x t) end
  else
    match d with Some x => if x <=? t then None else Some x | None => None end.

Definition gstep (c : scfg) (g : ghost) (o : obs) : ghost :=
  match o with
  | OSend p x =>
    {| g_round := g_round g; g_start := g_start g; g_S := g_S g ++ [(p, x)]; g_A := g_A g; g_dist := g_dist g |}
  | ORecv r =>
    match genuine c (g_S g) (g_A g) r with
    | Some (p, sr) =>
      {| g_round := g_round g; g_start := g_start g; g_S := g_S g; g_A := g_A g ++ [(p, sr)];
         g_dist := dist_update (g_dist g) (p_ttl p) (sr_is_target sr) |}
    | None => g
    end
  | OUpdate _ => g
  | OPublish _ _ adv =>
    {| g_round := g_round g + 1; g_start := adv; g_S := []; g_A := []; g_dist := g_dist g |}
  end.

Definition ghost_after (c : scfg) (t0 : Z) (l : list obs) : ghost := fold_left (gstep c) l (g_init t0).

(* facts of the round in progress, read off the ghost *)
Definition found (A : list (probe * sresp)) : bool := existsb (fun a => sr_is_target (snd a)) A.
Definition last_recv (A : list (probe * sresp)) : option Z :=
  fold_left (fun _ a => Some (sr_received (snd a))) A None.
Definition farthest (A : list (probe * sresp)) : option Z :=
  fold_left (fun m a => Some (match m with None => p_ttl (fst a) | Some x => Z.max x (p_ttl (fst a)) end)) A None.

(* the ttl the next NEW probe of the round must carry: first_ttl, plus one for every probe that was not abandoned *)
Definition next_ttl (c : scfg) (S : list (probe * send_outcome)) : Z :=
  fold_left (fun t po => match snd po with AddressInUseO => t | _ => t + 1 end) S (first_ttl c).

(* C06, per send *)
Definition send_ok (c : scfg) (g : ghost) (p : probe) : Prop :=
  p_ttl p = next_ttl c (g_S g) /\ p_round p = g_round g /\
  first_ttl c <= p_ttl p <= max_ttl c /\
  found (g_A g) = false /\
  match g_dist g with
  | Some d => p_ttl p <= d
  | None => p_ttl p - (match farthest (g_A g) with Some m => m | None => first_ttl c - 1 end) <= max_inflight c
  end.

(* C08: the timing policy on the ghost *)
Definition policy_g (c : scfg) (g : ghost) (now : Z) : Prop :=
  let dur := Z.max 0 (now - g_start g) in
  max_round_duration c < dur \/
  (min_round_duration c < dur /\ found (g_A g) = true /\
   exists t, last_recv (g_A g) = Some t /\ grace_duration c < Z.max 0 (now - t)).

(* every round sends at least the first-ttl probe (for the configurations of the property): a probe with the
   first ttl has been handed to the network and was not abandoned *)
Definition first_sent (c : scfg) (S : list (probe * send_outcome)) : Prop :=
  exists p o, In (p, o) S /\ o <> AddressInUseO /\ p_ttl p = first_ttl c.
Definition round_sent (c : scfg) (g : ghost) : Prop :=
  first_ttl c <= max_ttl c -> 1 <= max_inflight c -> first_sent c (g_S g).

Definition obs_ok (c : scfg) (g : ghost) (o : obs) : Prop :=
  match o with
  | OSend p _ => send_ok c g p
  | ORecv _ => True
  | OUpdate now => ~ policy_g c g now /\ round_sent c g
  | OPublish r now _ =>
    policy_g c g now /\ round_sent c g /\
    rr_reason r = (if found (g_A g) then TargetFound else RoundTimeLimitExceeded) /\
    rr_probes r = map (status_of (g_A g)) (g_S g)
  end.

Fixpoint log_ok (c : scfg) (g : ghost) (l : list obs) : Prop :=
  match l with
  | [] => True
  | o :: t => obs_ok c g o /\ log_ok c (gstep c g o) t
  end.

(* ------------------------------------------------------------------ list facts about the spec functions *)
Lemma found_snoc A a : found (A ++ [a]) = found A || sr_is_target (snd a).
Proof. unfold found. rewrite existsb_app. cbn [existsb]. rewrite orb_false_r. reflexivity. Qed.

Lemma last_recv_snoc A a : last_recv (A ++ [a]) = Some (sr_received (snd a)).
Proof. unfold last_recv. rewrite fold_left_app. reflexivity. Qed.

Lemma farthest_snoc A a :
  farthest (A ++ [a]) = Some (match farthest A with None => p_ttl (fst a) | Some x => Z.max x (p_ttl (fst a)) end).
Proof. unfold farthest. rewrite fold_left_app. reflexivity. Qed.

Lemma next_ttl_app c S l :
  next_ttl c (S ++ l) = fold_left (fun t po => match snd po with AddressInUseO => t | _ => t + 1 end) l (next_ttl c S).
Proof. unfold next_ttl. apply fold_left_app. Qed.

Lemma next_ttl_snoc c S po :
  next_ttl c (S ++ [po]) = match snd po with AddressInUseO => next_ttl c S | _ => next_ttl c S + 1 end.
Proof. rewrite next_ttl_app. reflexivity. Qed.

Lemma log_ok_app c l1 : forall g l2,
  log_ok c g (l1 ++ l2) <-> log_ok c g l1 /\ log_ok c (fold_left (gstep c) l1 g) l2.
Proof.
  induction l1 as [|o l1 IH]; intros g l2; cbn [app log_ok fold_left].
  - tauto.
  - rewrite IH. tauto.
Qed.

(* the observation at any position of an accepted log is fine for the ghost of what precedes it *)
Lemma log_ok_at c l1 : forall g o l2, log_ok c g (l1 ++ o :: l2) -> obs_ok c (fold_left (gstep c) l1 g) o.
Proof. intros g o l2 H. apply log_ok_app in H. destruct H as [_ H]. cbn [log_ok] in H. tauto. Qed.

Lemma gfold_sends c l : forall g,
  fold_left (gstep c) (map (fun po => OSend (fst po) (snd po)) l) g =
  {| g_round := g_round g; g_start := g_start g; g_S := g_S g ++ l; g_A := g_A g; g_dist := g_dist g |}.
Proof.
  induction l as [|[p o] l IH]; intros g; cbn [map fold_left fst snd].
  - rewrite app_nil_r. destruct g; reflexivity.
  - rewrite IH. cbn [gstep g_round g_start g_S g_A g_dist]. rewrite <- app_assoc. reflexivity.
Qed.

(* ------------------------------------------------------------------ genuine = what the tracer accepts *)
Lemma find_by_sequence (S : list (probe * send_outcome)) : forall base q,
  (forall i po, nth_error S i = Some po -> p_sequence (fst po) = base + Z.of_nat i) ->
  find (fun po => p_sequence (fst po) =? q) S =
  if (base <=? q) && (q <? base + Z.of_nat (length S)) then nth_error S (Z.to_nat (q - base)) else None.
Proof.
  induction S as [|x S IH]; intros base q H.
  - cbn [find length]. destruct ((base <=? q) && (q <? base + Z.of_nat 0)) eqn:E; [lia|reflexivity].
  - cbn [find]. pose proof (H 0%nat x eq_refl) as H0. cbn in H0.
    destruct (p_sequence (fst x) =? q) eqn:E.
    + assert (q = base) by lia. subst q. replace (base - base) with 0 by lia. cbn [Z.to_nat nth_error length].
      destruct ((base <=? base) && (base <? base + Z.of_nat (Datatypes.S (length S)))) eqn:E2; [reflexivity|lia].
    + rewrite (IH (base + 1) q).
      2:{ intros i po Hi. rewrite (H (Datatypes.S i) po Hi). lia. }
      cbn [length].
      destruct ((base + 1 <=? q) && (q <? base + 1 + Z.of_nat (length S))) eqn:E1;
        destruct ((base <=? q) && (q <? base + Z.of_nat (Datatypes.S (length S)))) eqn:E2; try lia; try reflexivity.
      replace (Z.to_nat (q - base)) with (Datatypes.S (Z.to_nat (q - (base + 1)))) by lia. reflexivity.
Qed.

Lemma genuine_ghost_pick c s i S A : Inv c s -> HInv c s S A -> settled S ->
  ghost_pick c s i = match i_recv i with Resp r => genuine c S A r | _ => None end.
Proof.
  intros HI HH Hset. unfold ghost_pick, genuine.
  destruct (i_recv i) as [|r|x]; try reflexivity.
  destruct (validate c (resp_data_of r)); [|reflexivity].
  destruct (strategy_resp c r) as [sr|?|?]; try reflexivity.
  destruct (check_trace_id c (sr_trace_id sr)); cbn [andb]; [|reflexivity].
  destruct HH as [Hl Hs Hsl Ha Hn].
  rewrite (find_by_sequence S (round_sequence s) (sr_sequence sr) Hs).
  set (q := sr_sequence sr) in *.
  replace (round_sequence s + Z.of_nat (length S)) with (sequence s) by lia.
  destruct ((round_sequence s <=? q) && (q <? sequence s)) eqn:Er; [|reflexivity].
  set (idx := Z.to_nat (q - round_sequence s)).
  destruct (nth_error S idx) as [[p o]|] eqn:Ei.
  2:{ apply nth_error_None in Ei. lia. }
  destruct (Hsl idx (p, o) Ei) as (st & Hst & Hm). rewrite Hst.
  pose proof (Hs idx (p, o) Ei) as Hq. cbn [fst] in Hq.
  assert (Hex : forall sr0, In (p, sr0) A -> existsb (fun a => p_sequence (fst a) =? q) A = true).
  { intros sr0 Hin. apply existsb_exists. exists (p, sr0). split; [assumption|]. cbn [fst]. lia. }
  assert (Hnex : (forall sr0, ~ In (p, sr0) A) -> existsb (fun a => p_sequence (fst a) =? q) A = false).
  { intros Hno. destruct (existsb (fun a => p_sequence (fst a) =? q) A) eqn:E; [|reflexivity]. exfalso.
    apply existsb_exists in E. destruct E as ([p0 sr0] & Hin & Hq0). cbn [fst] in Hq0.
    destruct (Ha p0 sr0 Hin) as (j & o0 & Hj & _). pose proof (Hs j (p0, o0) Hj) as Hjq. cbn [fst] in Hjq.
    assert (j = idx) by lia. subst j. rewrite Ei in Hj. inversion Hj; subst. apply (Hno sr0 Hin). }
  unfold slot_matches in Hm. destruct o as [| | |e0]; cbn [answerable andb].
  - destruct Hm as [[-> Hno]|(sr0 & Hin & ->)]; [rewrite (Hnex Hno)|rewrite (Hex sr0 Hin)]; reflexivity.
  - subst st. reflexivity.
  - destruct Hm as [[_ ->]|[Hnx _]]; [reflexivity|]. exfalso. apply (Hset idx p Ei). assumption.
  - destruct Hm as [[-> Hno]|(sr0 & Hin & ->)]; [rewrite (Hnex Hno)|rewrite (Hex sr0 Hin)]; reflexivity.
Qed.

(* the state after an accepted delivery, in full *)
Lemma recv_accepted_state c s i r sr p s' e : Inv c s -> i_recv i = Resp r -> accepted c s r sr p ->
  recv_response c s i = Ok (s', e) ->
  e = None /\ sequence s' = sequence s /\ round_sequence s' = round_sequence s /\ ttl s' = ttl s /\
  round s' = round s /\ round_start s' = round_start s /\
  target_found s' = (target_found s || sr_is_target sr) /\
  received_time s' = Some (sr_received sr) /\
  max_received_ttl s' = Some (match max_received_ttl s with None => p_ttl p | Some m => Z.max m (p_ttl p) end) /\
  target_ttl s' = dist_update (target_ttl s) (p_ttl p) (sr_is_target sr).
Proof.
  intros HI Hi (Hv & Hs & Hc & Hw & Hn) H. unfold recv_response in H. rewrite Hi, Hv, Hs in H. cbn [bind] in H. rewrite Hc in H.
  pose proof (inv_seq c s HI) as Hseq. pose proof (inv_len c s HI) as Hlen.
  assert (Hin : in_round s (sr_sequence sr) = true) by (unfold in_round, BUFFER_SIZE; lia).
  rewrite Hin in H. cbn [andb] in H.
  unfold complete_probe in H. destruct (sequence s <=? sr_sequence sr) eqn:Eg; [lia|].
  unfold probe_at, sub16, sub_w in H. destruct (round_sequence s <=? sr_sequence sr) eqn:E1; [|lia]. cbn [bind] in H.
  unfold buf_get in H. destruct (0 <=? sr_sequence sr - round_sequence s) eqn:E2; [|lia]. rewrite Hn in H. cbn [bind] in H.
  unfold buf_set in H. rewrite Hlen in H.
  destruct ((0 <=? sr_sequence sr - round_sequence s) && (sr_sequence sr - round_sequence s <? Z.of_nat 512)) eqn:E3; [|lia].
  cbn [bind] in H. inversion H; subst s' e.
  cbn [sequence round_sequence ttl round round_start target_found received_time max_received_ttl target_ttl].
  repeat split; try reflexivity.
  - destruct (max_received_ttl s); reflexivity.
  - unfold dist_update. destruct (sr_is_target sr), (target_ttl s) as [x|]; try reflexivity.
    destruct (p_ttl p <? x) eqn:E; f_equal; lia.
Qed.

(* ------------------------------------------------------------------ the shape of one send batch *)
Definition inuse (po : probe * send_outcome) : Prop := snd po = AddressInUseO.

Lemma removelast_cons {A} (x : A) l : l <> [] -> removelast (x :: l) = x :: removelast l.
Proof. destruct l; [congruence|reflexivity]. Qed.

Lemma tcp_loop_shape c sends : forall s p clk last s' ev e,
  tcp_reissue_loop c s p sends clk last = Ok (s', ev, e) ->
  sends_of ev <> [] /\ Forall inuse (removelast (sends_of ev)).
Proof.
  induction sends as [|o rest IH]; intros s p clk last s' ev e H; cbn [tcp_reissue_loop] in H.
  - inversion H; subst. cbn. split; [discriminate|constructor].
  - destruct (do_send s o) as [rr|?|?] eqn:Ed; cbn [bind] in H; try discriminate.
    destruct rr as [sa|sa|ee].
    + inversion H; subst. cbn. split; [discriminate|constructor].
    + assert (Ho : o = AddressInUseO).
      { destruct o; cbn [do_send] in Ed; try (inversion Ed; fail); [|reflexivity].
        destruct (fail_probe s); cbn [bind] in Ed; inversion Ed. }
      subst o.
      destruct (round_has_capacity sa) as [cap|?|?]; cbn [bind] in H; try discriminate.
      destruct cap.
      * destruct (reissue_probe c sa (hd_clock clk last)) as [[p' s'']|?|?]; cbn [bind] in H; try discriminate.
        destruct (tcp_reissue_loop c s'' p' rest (tl clk) (hd_clock clk last)) as [[[s3 ev3] e3]|?|?] eqn:Hr;
          cbn [bind] in H; try discriminate.
        inversion H; subst. destruct (IH _ _ _ _ _ _ _ Hr) as [Hne Hall].
        cbn [sends_of flat_map app]. fold (sends_of ev3). split; [discriminate|].
        rewrite removelast_cons by assumption. constructor; [reflexivity|assumption].
      * inversion H; subst. cbn. split; [discriminate|constructor].
    + inversion H; subst. cbn. split; [discriminate|constructor].
Qed.

Lemma send_request_shape c s i s1 ev e : send_request c s i = Ok (s1, ev, e) ->
  Forall inuse (removelast (sends_of ev)).
Proof.
  intros H. unfold send_request in H.
  destruct (can_send c s) as [ok|?|?]; cbn [bind] in H; try discriminate.
  destruct ok; cbn [negb] in H; [|inversion H; subst; constructor].
  assert (Hone : forall p o, Forall inuse (removelast (sends_of [ESend p o]))) by (intros; cbn; constructor).
  destruct (proto c).
  1,2: destruct (next_probe c s _) as [[p s0]|?|?]; cbn [bind] in H; try discriminate;
       destruct (do_send s0 _) as [rr|?|?]; cbn [bind] in H; try discriminate;
       destruct rr; inversion H; subst; apply Hone.
  destruct (round_has_capacity s) as [cap|?|?]; cbn [bind] in H; try discriminate.
  destruct cap; cbn [negb] in H; [|inversion H; subst; constructor].
  destruct (next_probe c s _) as [[p s0]|?|?]; cbn [bind] in H; try discriminate.
  destruct (i_sends i) as [|o rest]; [inversion H; subst; apply Hone|].
  apply tcp_loop_shape in H. tauto.
Qed.

Lemma ev_probes_sends ev : ev_probes ev = map fst (sends_of ev).
Proof.
  induction ev as [|[p o|r] ev IH]; cbn [ev_probes sends_of flat_map app map fst]; [reflexivity| |exact IH].
  unfold sends_of in IH. rewrite IH. reflexivity.
Qed.

Lemma settled_last_not_inuse S l po : settled (S ++ l ++ [po]) -> snd po <> AddressInUseO.
Proof.
  intros Hset Hin. destruct po as [q o]. cbn [snd] in Hin. subst o.
  apply (Hset (length (S ++ l)) q).
  - rewrite app_assoc. apply nth_error_app_last.
  - apply nth_error_None. rewrite app_assoc, app_length. cbn [length]. lia.
Qed.

Lemma next_ttl_batch c S l po : Forall inuse l -> snd po <> AddressInUseO ->
  next_ttl c (S ++ l ++ [po]) = next_ttl c S + 1.
Proof.
  intros Hall Hlast. rewrite app_assoc, next_ttl_snoc.
  assert (next_ttl c (S ++ l) = next_ttl c S).
  { clear Hlast. induction l as [|x l IH] using rev_ind; [rewrite app_nil_r; reflexivity|].
    apply Forall_app in Hall. destruct Hall as [Hl Hx]. inversion Hx as [|? ? Hxi _]; subst.
    rewrite app_assoc, next_ttl_snoc. unfold inuse in Hxi. rewrite Hxi. apply IH. assumption. }
  destruct (snd po); try lia. congruence.
Qed.

(* the C06 obligations of one batch: all probes carry the same ttl, all but the last were abandoned *)
Lemma batch_ok c l : forall g T,
  next_ttl c (g_S g) = T ->
  (forall po, In po l -> p_ttl (fst po) = T /\ p_round (fst po) = g_round g) ->
  Forall inuse (removelast l) ->
  first_ttl c <= T <= max_ttl c -> found (g_A g) = false ->
  match g_dist g with
  | Some d => T <= d
  | None => T - (match farthest (g_A g) with Some m => m | None => first_ttl c - 1 end) <= max_inflight c
  end ->
  log_ok c g (map (fun po => OSend (fst po) (snd po)) l).
Proof.
  induction l as [|po l IH]; intros g T Hn Hall Hin Hr Hf Hw; cbn [map log_ok]; [exact I|].
  destruct (Hall po (or_introl eq_refl)) as [Ht Hrd].
  split.
  - unfold obs_ok, send_ok. rewrite Ht, Hn. repeat split; try assumption; try lia.
  - destruct l as [|po' l']; [exact I|].
    rewrite removelast_cons in Hin by discriminate. apply Forall_cons_iff in Hin. destruct Hin as [Hpo Hrest].
    apply (IH _ T); cbn [gstep g_S g_A g_dist g_round]; try assumption.
    + rewrite next_ttl_snoc. cbn [snd]. unfold inuse in Hpo. rewrite Hpo. assumption.
    + intros x Hx. apply Hall. right. assumption.
Qed.

(* ------------------------------------------------------------------ the simulation relation *)
Record Sim (c : scfg) (s : tstate) (g : ghost) : Prop := {
  sim_inv : Inv c s;
  sim_h : HInv c s (g_S g) (g_A g);
  sim_set : settled (g_S g);
  sim_round : round s = g_round g;
  sim_start : round_start s = g_start g;
  sim_ttl : ttl s = next_ttl c (g_S g);
  sim_found : target_found s = found (g_A g);
  sim_recv : received_time s = last_recv (g_A g);
  sim_far : max_received_ttl s = farthest (g_A g);
  sim_dist : target_ttl s = g_dist g;
  sim_first : g_S g <> [] -> first_sent c (g_S g);
}.

Lemma sim_new c t0 : Accept c -> Sim c (ts_new c t0) (g_init t0).
Proof.
  intros HA. constructor; cbn [g_init g_S g_A g_round g_start g_dist ts_new round round_start ttl target_found
    received_time max_received_ttl target_ttl]; try reflexivity.
  - apply inv_new; assumption.
  - apply hinv_new.
  - intros j q Hj; destruct j; discriminate.
  - intros H; congruence.
Qed.

Lemma policy_sim c s g now : Sim c s g -> (policy c s now <-> policy_g c g now).
Proof.
  intros HS. unfold policy, policy_g. rewrite (sim_start c s g HS), (sim_found c s g HS), (sim_recv c s g HS). tauto.
Qed.

Lemma window_base c s g : Accept c -> Sim c s g ->
  inflight_base c s = match farthest (g_A g) with Some m => m | None => first_ttl c - 1 end.
Proof.
  intros HA HS. pose proof (accept_facts c HA) as F. unfold inflight_base. rewrite (sim_far c s g HS).
  destruct (farthest (g_A g)); lia.
Qed.

(* send phase *)
Lemma sim_send c s g i s1 ev e : Accept c -> Sim c s g -> send_request c s i = Ok (s1, ev, e) ->
  log_ok c g (obs_sends ev) /\
  (e = None -> Sim c s1 (fold_left (gstep c) (obs_sends ev) g)).
Proof.
  intros HA HS H. pose proof (accept_facts c HA) as F. pose proof HS as HS0.
  destruct HS as [HI HH Hset Hrd Hst Httl Hfd Hrc Hfar Hdist Hfirst].
  destruct (send_request_ok c s i HA HI) as (s1' & ev' & e' & H' & HI1 & Hsb & Hsh).
  rewrite H in H'. inversion H'; subst s1' ev' e'. clear H'.
  destruct (hinv_send_any c s i s1 ev e (g_S g) (g_A g) HA HI HH Hset H) as [HH1 Hset1].
  pose proof (send_request_shape c s i s1 ev e H) as Hshape.
  unfold obs_sends. rewrite gfold_sends.
  destruct Hsb as (Hrd1 & Hst1 & Hfd1 & Hfar1 & Hdist1 & Hrc1 & Hrs1).
  destruct Hsh as [[-> ->]|Hsh].
  - cbn [sends_of flat_map map log_ok]. split; [exact I|]. intros _. rewrite app_nil_r.
    constructor; cbn [g_S g_A g_round g_start g_dist]; assumption.
  - destruct Hsh as (Hne & Hlen & Htf & Hmax & Hwin & Httl1 & _ & _ & Hall & _).
    rewrite ev_probes_sends in Hne, Hall.
    assert (Hsne : sends_of ev <> []) by (intro E; apply Hne; rewrite E; reflexivity).
    split.
    + assert (P1 : next_ttl c (g_S g) = ttl s) by (symmetry; assumption).
      assert (P2 : forall po, In po (sends_of ev) -> p_ttl (fst po) = ttl s /\ p_round (fst po) = g_round g).
      { intros po Hin. rewrite Forall_forall in Hall. rewrite <- Hrd. apply (Hall (fst po)). apply in_map. assumption. }
      assert (P3 : first_ttl c <= ttl s <= max_ttl c) by (pose proof (inv_ttl c s HI); lia).
      assert (P4 : found (g_A g) = false) by congruence.
      assert (P5 : match g_dist g with
                   | Some d => ttl s <= d
                   | None => ttl s - (match farthest (g_A g) with Some m => m | None => first_ttl c - 1 end) <= max_inflight c
                   end).
      { rewrite <- Hdist. revert Hwin. destruct (target_ttl s); intros Hwin; [assumption|].
        rewrite <- (window_base c s g HA HS0). assumption. }
      exact (batch_ok c (sends_of ev) g (ttl s) P1 P2 Hshape P3 P4 P5).
    + intros ->. specialize (Hset1 eq_refl).
      destruct (exists_last Hsne) as (l & po & El). rewrite El in *.
      rewrite removelast_last in Hshape.
      pose proof (settled_last_not_inuse _ _ _ Hset1) as Hlast.
      constructor; cbn [g_S g_A g_round g_start g_dist].
      * exact HI1.
      * exact HH1.
      * exact Hset1.
      * congruence.
      * congruence.
      * rewrite (next_ttl_batch c (g_S g) l po Hshape Hlast). lia.
      * congruence.
      * congruence.
      * congruence.
      * congruence.
      * intros _. destruct (g_S g) as [|y S'] eqn:ES.
        -- destruct po as [q o]. exists q, o. split; [apply in_or_app; right; apply in_or_app; right; left; reflexivity|].
           split; [exact Hlast|]. rewrite Forall_forall in Hall.
           assert (Hin : In q (map fst (l ++ [(q, o)]))) by (rewrite map_app; apply in_or_app; right; left; reflexivity).
           destruct (Hall _ Hin) as [Hp _]. rewrite Hp, Httl. reflexivity.
        -- destruct (Hfirst ltac:(discriminate)) as (q & o & Hin & Ho & Hq).
           exists q, o. split; [apply in_or_app; left; assumption|]. split; assumption.
Qed.

(* in a round without a probe so far the first-ttl probe goes out *)
Lemma sim_send_nonempty c s g i s1 ev e : Accept c -> Sim c s g -> first_ttl c <= max_ttl c -> 1 <= max_inflight c ->
  send_request c s i = Ok (s1, ev, e) -> g_S g ++ sends_of ev <> [].
Proof.
  intros HA HS Hfm Hmi H E. apply app_eq_nil in E. destruct E as [ES Eev].
  destruct HS as [HI HH Hset Hrd Hst Httl Hfd Hrc Hfar Hdist Hfirst].
  rewrite ES in *. cbn in Httl.
  assert (Hq : sequence s = round_sequence s) by (destruct HH as [Hl _ _ _ _]; cbn [length] in Hl; lia).
  destruct HH as [_ _ _ Ha _].
  assert (EA : g_A g = []).
  { destruct (g_A g) as [|[p sr] A']; [reflexivity|]. exfalso.
    destruct (Ha p sr (or_introl eq_refl)) as (j & o & Hj & _). destruct j; discriminate. }
  rewrite EA in *. cbn in Hfd, Hfar.
  destruct (c06_liveness_lemma c s i HA HI Hfm Hmi Httl Hfd Hfar Hq) as (s1' & ev1 & e1 & p & o & H1 & Hev & _).
  rewrite H in H1. inversion H1; subst. rewrite Hev in Eev. discriminate.
Qed.

(* receive phase *)
Lemma sim_recv_phase c s g i s2 : Accept c -> Sim c s g -> recv_response c s i = Ok (s2, None) ->
  Sim c s2 (fold_left (gstep c) (obs_recv i) g).
Proof.
  intros HA HS H. destruct HS as [HI HH Hset Hrd Hst Httl Hfd Hrc Hfar Hdist Hfirst].
  pose proof (genuine_ghost_pick c s i (g_S g) (g_A g) HI HH Hset) as Hgp.
  pose proof (hinv_recv_ghost c s i s2 None (g_S g) (g_A g) HA HI HH Hset H) as HH2. unfold ghost_accept in HH2.
  destruct (recv_response_ok c s i HA HI) as (s2' & e2 & H2 & HI2 & Hq & Hrs & Ht & Hrd2 & Hst2 & _ & Hcase).
  rewrite H in H2. inversion H2; subst s2' e2. clear H2.
  destruct (ghost_pick c s i) as [[p sr]|] eqn:Eg.
  - destruct (ghost_pick_accepted c s i p sr Eg) as (r & Hi & Hacc).
    destruct (recv_accepted_state c s i r sr p s2 None HI Hi Hacc H) as (_ & _ & _ & _ & _ & _ & Ef & Er & Em & Ed).
    unfold obs_recv. rewrite Hi in *. cbn [fold_left gstep]. rewrite <- Hgp.
    constructor; cbn [g_S g_A g_round g_start g_dist].
    + exact HI2.
    + exact HH2.
    + exact Hset.
    + congruence.
    + congruence.
    + congruence.
    + rewrite Ef, found_snoc, Hfd. reflexivity.
    + rewrite Er, last_recv_snoc. reflexivity.
    + rewrite Em, farthest_snoc, Hfar. reflexivity.
    + rewrite Ed, Hdist. reflexivity.
    + exact Hfirst.
  - assert (Es : s2 = s).
    { destruct Hcase as [->|(r & sr & p & Hi & Hacc & _)]; [reflexivity|].
      rewrite (accepted_ghost_pick c s i r sr p Hi Hacc) in Eg. discriminate. }
    subst s2.
    assert (Eg' : fold_left (gstep c) (obs_recv i) g = g).
    { unfold obs_recv. destruct (i_recv i) as [|r|x]; try reflexivity. cbn [fold_left gstep]. rewrite <- Hgp. reflexivity. }
    rewrite Eg'. constructor; assumption.
Qed.

(* update phase *)
Lemma sim_update c s g i s3 ev3 : Accept c -> Sim c s g -> update_round c s i = Ok (s3, ev3) ->
  (ev3 = [] /\ s3 = s /\ ~ policy_g c g (i_update i)) \/
  (exists r, ev3 = [EPublish r] /\ policy_g c g (i_update i) /\
     rr_reason r = (if found (g_A g) then TargetFound else RoundTimeLimitExceeded) /\
     rr_probes r = map (status_of (g_A g)) (g_S g) /\
     Sim c s3 (gstep c g (OPublish r (i_update i) (i_advance i)))).
Proof.
  intros HA HS H. pose proof HS as HS'. destruct HS as [HI HH Hset Hrd Hst Httl Hfd Hrc Hfar Hdist Hfirst].
  destruct (update_round_ok c s i HA HI) as (s3' & ev' & H' & HI3 & Hcase).
  rewrite H in H'. inversion H'; subst s3' ev'. clear H'.
  destruct Hcase as [(Hnp & -> & ->)|(Hp & r & Hr & -> & Ha & _)].
  - left. repeat split; try reflexivity. intros Hpol. apply (policy_sim c s g _ HS') in Hpol.
    apply should_publish_iff in Hpol. congruence.
  - right. exists r. split; [reflexivity|].
    split; [apply (policy_sim c s g _ HS'); apply should_publish_iff; assumption|].
    destruct (publish_trace_ok c s HA HI) as (r' & Hr' & Hprobes & Hreason & _). rewrite Hr in Hr'. inversion Hr'; subst r'.
    split; [rewrite Hreason, Hfd; reflexivity|].
    split; [rewrite Hprobes; apply (published_probes_match c s _ _ HI HH Hset)|].
    destruct (advance_round_spec c s (i_advance i) HA HI)
      as (sx & Hax & _ & Hrdx & Hstx & Htx & Hqx & Htfx & Hmrx & Hrtx & Httx & Hbx & _).
    rewrite Ha in Hax. inversion Hax; subst sx.
    constructor; cbn [gstep g_S g_A g_round g_start g_dist found last_recv farthest existsb fold_left next_ttl].
    + exact HI3.
    + constructor; cbn [length nth_error]; try lia; try (intros [|?] ? Hx; discriminate); try (intros ? ? []). constructor.
    + intros j q Hj; destruct j; discriminate.
    + congruence.
    + congruence.
    + congruence.
    + congruence.
    + congruence.
    + congruence.
    + congruence.
    + intros Hx; congruence.
Qed.

(* ------------------------------------------------------------------ every run is accepted by the spec *)
Theorem run_obs_sim c : Accept c -> forall is s g, Sim c s g -> log_ok c g (run_obs c s is).
Proof.
  intros HA. induction is as [|i rest IH]; intros s g HS; cbn [run_obs].
  - destruct (finished s (max_rounds c)); exact I.
  - destruct (finished s (max_rounds c)); [exact I|].
    pose proof (sim_inv c s g HS) as HI.
    destruct (send_request_ok c s i HA HI) as (s1 & ev1 & e1 & H1 & HI1 & _). rewrite H1.
    destruct (sim_send c s g i s1 ev1 e1 HA HS H1) as [Hok1 HS1].
    destruct e1 as [e1|]; [assumption|]. specialize (HS1 eq_refl).
    apply log_ok_app. split; [assumption|].
    set (g1 := fold_left (gstep c) (obs_sends ev1) g) in *.
    destruct (recv_response_ok c s1 i HA HI1) as (s2 & e2 & H2 & HI2 & _). rewrite H2.
    destruct e2 as [e2|]; [exact I|].
    pose proof (sim_recv_phase c s1 g1 i s2 HA HS1 H2) as HS2.
    apply log_ok_app. split.
    { unfold obs_recv. destruct (i_recv i); cbn [log_ok obs_ok]; auto. }
    set (g2 := fold_left (gstep c) (obs_recv i) g1) in *.
    assert (Hsent : round_sent c g2).
    { intros Hfm Hmi.
      assert (HS12 : g_S g2 = g_S g ++ sends_of ev1).
      { assert (E1 : g_S g1 = g_S g ++ sends_of ev1) by (unfold g1, obs_sends; rewrite gfold_sends; reflexivity).
        rewrite <- E1. unfold g2, obs_recv. destruct (i_recv i) as [|r|x]; try reflexivity.
        cbn [fold_left gstep]. destruct (genuine c (g_S g1) (g_A g1) r) as [[p sr]|]; reflexivity. }
      pose proof (sim_send_nonempty c s g i s1 ev1 None HA HS Hfm Hmi H1) as Hne. rewrite <- HS12 in Hne.
      apply (sim_first c s2 g2 HS2 Hne). }
    destruct (update_round_ok c s2 i HA HI2) as (s3 & ev3 & H3 & HI3 & _). rewrite H3.
    destruct (sim_update c s2 g2 i s3 ev3 HA HS2 H3) as [(-> & -> & Hnp)|(r & -> & Hpol & Hreason & Hprobes & HS3)].
    + cbn [log_ok obs_ok gstep]. split; [split; assumption|]. apply IH. assumption.
    + cbn [log_ok obs_ok]. split; [repeat split; assumption|]. apply IH. assumption.
Qed.

Theorem run_obs_ok c t0 is : Accept c -> log_ok c (g_init t0) (run_obs c (ts_new c t0) is).
Proof. intros HA. apply run_obs_sim; [assumption|apply sim_new; assumption]. Qed.

(* ------------------------------------------------------------------ it is the same run *)
Lemma events_of_app a b : events_of (a ++ b) = events_of a ++ events_of b.
Proof. unfold events_of. apply flat_map_app. Qed.

Lemma events_of_sends ev : length (ev_probes ev) = length ev -> events_of (obs_sends ev) = ev.
Proof.
  induction ev as [|[p o|r] ev IH]; cbn [ev_probes length]; intros H; [reflexivity| |pose proof (ev_probes_le ev); lia].
  unfold obs_sends. cbn [sends_of flat_map app map fst snd events_of]. f_equal. apply IH. lia.
Qed.

Lemma events_of_recv i : events_of (obs_recv i) = [].
Proof. unfold obs_recv. destruct (i_recv i); reflexivity. Qed.

Theorem run_obs_events c : Accept c -> forall is s, Inv c s ->
  events_of (run_obs c s is) = fst (fst (run_from c s is)).
Proof.
  intros HA. induction is as [|i rest IH]; intros s HI; cbn [run_obs run_from].
  - destruct (finished s (max_rounds c)); reflexivity.
  - destruct (finished s (max_rounds c)); [reflexivity|].
    destruct (send_request_ok c s i HA HI) as (s1 & ev1 & e1 & H1 & HI1 & _ & Hsh).
    assert (Hev1 : events_of (obs_sends ev1) = ev1).
    { destruct Hsh as [[-> _]|Hsh]; [reflexivity|]. destruct Hsh as (_ & Hlen & _). apply events_of_sends; assumption. }
    unfold step. rewrite H1. cbn [bind].
    destruct e1 as [e1|]; [cbn [fst]; assumption|].
    destruct (recv_response_ok c s1 i HA HI1) as (s2 & e2 & H2 & HI2 & _). rewrite H2. cbn [bind].
    destruct e2 as [e2|]; [cbn [fst]; rewrite app_nil_r; assumption|].
    destruct (update_round_ok c s2 i HA HI2) as (s3 & ev3 & H3 & HI3 & Hcase). rewrite H3. cbn [bind].
    rewrite !events_of_app, Hev1, events_of_recv. cbn [app].
    destruct Hcase as [(Hnp & -> & ->)|(Hpub & r & Hr & -> & Ha & _)].
    + cbn [events_of flat_map app]. fold (events_of (run_obs c s2 rest)). rewrite (IH s2 HI2).
      destruct (run_from c s2 rest) as [[evs o] sf]. cbn [fst]. rewrite app_nil_r. reflexivity.
    + cbn [events_of flat_map app]. fold (events_of (run_obs c s3 rest)). rewrite (IH s3 HI3).
      destruct (run_from c s3 rest) as [[evs o] sf]. cbn [fst]. rewrite <- app_assoc. reflexivity.
Qed.

(* ------------------------------------------------------------------ the ghost is what the state holds *)
(* at the end of every run that did not fail, the bookkeeping of the tracer state is the ghost of the log *)
Theorem run_final_sim c : Accept c -> forall is s g, Sim c s g ->
  let '(ev, o, sf) := run_from c s is in
  (forall e, o <> Failed_with e) -> Sim c sf (fold_left (gstep c) (run_obs c s is) g).
Proof.
  intros HA. induction is as [|i rest IH]; intros s g HS; cbn [run_obs run_from].
  - destruct (finished s (max_rounds c)); intros _; exact HS.
  - destruct (finished s (max_rounds c)); [intros _; exact HS|].
    pose proof (sim_inv c s g HS) as HI.
    destruct (send_request_ok c s i HA HI) as (s1 & ev1 & e1 & H1 & HI1 & _).
    unfold step. rewrite H1. cbn [bind].
    destruct (sim_send c s g i s1 ev1 e1 HA HS H1) as [_ HS1].
    destruct e1 as [e1|]; [intros Hne; exfalso; apply (Hne e1); reflexivity|]. specialize (HS1 eq_refl).
    destruct (recv_response_ok c s1 i HA HI1) as (s2 & e2 & H2 & HI2 & _). rewrite H2. cbn [bind].
    destruct e2 as [e2|]; [intros Hne; exfalso; apply (Hne e2); reflexivity|].
    pose proof (sim_recv_phase c s1 _ i s2 HA HS1 H2) as HS2.
    destruct (update_round_ok c s2 i HA HI2) as (s3 & ev3 & H3 & HI3 & _). rewrite H3. cbn [bind].
    rewrite !fold_left_app.
    destruct (sim_update c s2 _ i s3 ev3 HA HS2 H3) as [(-> & -> & Hnp)|(r & -> & _ & _ & _ & HS3)].
    + cbn [fold_left]. specialize (IH s2 _ HS2). cbn [gstep] in *.
      destruct (run_from c s2 rest) as [[evs o] sf]. exact IH.
    + cbn [fold_left]. specialize (IH s3 _ HS3).
      destruct (run_from c s3 rest) as [[evs o] sf]. exact IH.
Qed.
