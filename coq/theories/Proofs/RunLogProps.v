(* Property-level consequences of Proofs/RunLog.v for C06 and C08: statements about every position of the
   observation log of every run, in the vocabulary of the log alone. *)
From TV Require Import Base.Result Core.Types Core.TracerState Core.Strategy Core.Builder Core.State
  Proofs.ListLemmas Proofs.StrategyInv Proofs.StrategyProps Proofs.RoundHistory Proofs.StateProofs Proofs.PublishWf
  Proofs.RunLog.
From Coq Require Import ZifyBool.

Definition run_log (c : scfg) (t0 : Z) (is : list iter_in) : list obs := run_obs c (ts_new c t0) is.

Lemma ghost_after_app c t0 l1 l2 : ghost_after c t0 (l1 ++ l2) = fold_left (gstep c) l2 (ghost_after c t0 l1).
Proof. unfold ghost_after. apply fold_left_app. Qed.

Lemma run_log_at c t0 is l1 o l2 : Accept c -> run_log c t0 is = l1 ++ o :: l2 -> obs_ok c (ghost_after c t0 l1) o.
Proof.
  intros HA E. pose proof (run_obs_ok c t0 is HA) as H. unfold run_log in E. rewrite E in H.
  apply (log_ok_at c l1 _ o l2 H).
Qed.

Lemma run_log_prefix_ok c t0 is l1 l2 : Accept c -> run_log c t0 is = l1 ++ l2 -> log_ok c (g_init t0) l1.
Proof.
  intros HA E. pose proof (run_obs_ok c t0 is HA) as H. unfold run_log in E. rewrite E in H.
  apply log_ok_app in H. tauto.
Qed.

(* ======================= C06 ======================= *)
(* the send log of a round: ttls first, first+1, ... - an abandoned (address in use) probe is followed by a
   probe of the same ttl, every other probe by the next ttl *)
Fixpoint ttl_chain (t : Z) (S : list (probe * send_outcome)) : Prop :=
  match S with
  | [] => True
  | (p, o) :: rest => p_ttl p = t /\ ttl_chain (match o with AddressInUseO => t | _ => t + 1 end) rest
  end.

Lemma ttl_chain_snoc S : forall t p o,
  ttl_chain t S ->
  p_ttl p = fold_left (fun t po => match snd po with AddressInUseO => t | _ => t + 1 end) S t ->
  ttl_chain t (S ++ [(p, o)]).
Proof.
  induction S as [|[q x] S IH]; intros t p o Hc Hp; cbn [app ttl_chain fold_left snd] in *.
  - split; [assumption|exact I].
  - destruct Hc as [Hq Hc]. split; [assumption|]. apply IH; assumption.
Qed.

Lemma log_ok_chain c l : forall g, log_ok c g l -> ttl_chain (first_ttl c) (g_S g) ->
  ttl_chain (first_ttl c) (g_S (fold_left (gstep c) l g)).
Proof.
  induction l as [|o l IH]; intros g Hok Hc; cbn [fold_left]; [assumption|].
  cbn [log_ok] in Hok. destruct Hok as [Ho Hok]. apply IH; [assumption|].
  destruct o as [p x|r|now|r now adv]; cbn [gstep g_S].
  - apply ttl_chain_snoc; [assumption|]. cbn [obs_ok] in Ho. destruct Ho as [Ht _]. exact Ht.
  - destruct (genuine c (g_S g) (g_A g) r) as [[p sr]|]; assumption.
  - assumption.
  - exact I.
Qed.

Lemma c06_round_ttl_chain_lemma c t0 is l1 l2 : Accept c -> run_log c t0 is = l1 ++ l2 ->
  ttl_chain (first_ttl c) (g_S (ghost_after c t0 l1)).
Proof.
  intros HA E. apply log_ok_chain; [apply (run_log_prefix_ok c t0 is l1 l2 HA E)|exact I].
Qed.

(* in closed form: the probes that were not abandoned carry first, first+1, ... in order *)
Definition kept (S : list (probe * send_outcome)) : list probe :=
  flat_map (fun po => match snd po with AddressInUseO => [] | _ => [fst po] end) S.

Lemma ttl_chain_kept S : forall t, ttl_chain t S -> map p_ttl (kept S) = zrange t (length (kept S)).
Proof.
  induction S as [|[p o] S IH]; intros t Hc; [reflexivity|].
  cbn [ttl_chain] in Hc. destruct Hc as [Hp Hc]. unfold kept. cbn [flat_map snd fst]. fold (kept S).
  destruct o; cbn [app map length zrange]; try (rewrite Hp; f_equal; apply IH; assumption).
  apply IH; assumption.
Qed.

Lemma ttls_status_kept A S : ttls (map (status_of A) S) = map p_ttl (kept S).
Proof.
  induction S as [|[p o] S IH]; [reflexivity|].
  cbn [map]. rewrite ttls_cons, status_of_ttl, IH. unfold kept. cbn [flat_map snd fst].
  destruct o; reflexivity.
Qed.

Lemma kept_in S p o : In (p, o) S -> o <> AddressInUseO -> In p (kept S).
Proof.
  intros Hin Ho. unfold kept. apply in_flat_map. exists (p, o). split; [assumption|]. cbn [snd fst].
  destruct o; try (left; reflexivity). congruence.
Qed.

(* the published round itself: the ttls of its probes (abandoned slots are Skipped and carry none) are
   first, first+1, ... without gap or repeat, and there is at least one *)
Lemma c06_published_ttls_lemma c t0 is l1 r now adv l2 : Accept c ->
  run_log c t0 is = l1 ++ OPublish r now adv :: l2 ->
  ttls (rr_probes r) = zrange (first_ttl c) (length (ttls (rr_probes r))) /\
  (first_ttl c <= max_ttl c -> 1 <= max_inflight c -> exists rest, ttls (rr_probes r) = first_ttl c :: rest).
Proof.
  intros HA E. pose proof (run_log_at c t0 is l1 _ l2 HA E) as Hok. cbn [obs_ok] in Hok.
  destruct Hok as (_ & Hsent & _ & Hprobes).
  pose proof (c06_round_ttl_chain_lemma c t0 is l1 _ HA E) as Hc.
  rewrite Hprobes, ttls_status_kept. split.
  - rewrite map_length. apply ttl_chain_kept. assumption.
  - intros Hfm Hmi. destruct (Hsent Hfm Hmi) as (p & o & Hin & Ho & Hp).
    rewrite (ttl_chain_kept _ _ Hc). pose proof (kept_in _ p o Hin Ho) as Hk.
    destruct (kept (g_S (ghost_after c t0 l1))) as [|x k]; [destruct Hk|]. cbn [length zrange]. eauto.
Qed.

(* every send of every run obeys the discipline, judged against the log before it *)
Lemma c06_run_send_lemma c t0 is l1 p o l2 : Accept c -> run_log c t0 is = l1 ++ OSend p o :: l2 ->
  send_ok c (ghost_after c t0 l1) p.
Proof. intros HA E. exact (run_log_at c t0 is l1 _ l2 HA E). Qed.

(* by the time update_round reads the clock, the first-ttl probe of the round has gone out *)
Lemma c06_run_round_sent_lemma c t0 is l1 o l2 : Accept c -> run_log c t0 is = l1 ++ o :: l2 ->
  (exists now, o = OUpdate now) \/ (exists r now adv, o = OPublish r now adv) ->
  first_ttl c <= max_ttl c -> 1 <= max_inflight c -> first_sent c (g_S (ghost_after c t0 l1)).
Proof.
  intros HA E Ho. pose proof (run_log_at c t0 is l1 _ l2 HA E) as Hok.
  destruct Ho as [(now & ->)|(r & now & adv & ->)]; cbn [obs_ok] in Hok; unfold round_sent in Hok; tauto.
Qed.

(* never after the target has answered in that round, in plain terms *)
Definition no_publish (l : list obs) : Prop := forall r now adv, ~ In (OPublish r now adv) l.

Lemma found_kept c l : forall g, no_publish l -> found (g_A g) = true -> found (g_A (fold_left (gstep c) l g)) = true.
Proof.
  induction l as [|o l IH]; intros g Hnp Hf; cbn [fold_left]; [assumption|].
  apply IH; [intros r now adv Hin; apply (Hnp r now adv); right; assumption|].
  destruct o as [p x|r|now|r now adv]; cbn [gstep g_A]; try assumption.
  - destruct (genuine c (g_S g) (g_A g) r) as [[p sr]|]; cbn [g_A]; [|assumption].
    rewrite found_snoc, Hf. reflexivity.
  - exfalso. apply (Hnp r now adv). left; reflexivity.
Qed.

Lemma c06_no_send_after_target_lemma c t0 is l1 r p sr l2 q o l3 : Accept c ->
  run_log c t0 is = l1 ++ ORecv r :: l2 ++ OSend q o :: l3 ->
  genuine c (g_S (ghost_after c t0 l1)) (g_A (ghost_after c t0 l1)) r = Some (p, sr) -> sr_is_target sr = true ->
  exists r' now adv, In (OPublish r' now adv) l2.
Proof.
  intros HA E Hg Ht.
  assert (E' : run_log c t0 is = (l1 ++ ORecv r :: l2) ++ OSend q o :: l3) by (rewrite E, <- app_assoc; reflexivity).
  pose proof (c06_run_send_lemma c t0 is _ q o l3 HA E') as (_ & _ & _ & Hnf & _).
  assert (Hdec : (exists r' now adv, In (OPublish r' now adv) l2) \/ no_publish l2).
  { clear. induction l2 as [|x l2 IH]; [right; intros ? ? ? []|].
    destruct IH as [(r' & now & adv & Hin)|Hnp]; [left; exists r', now, adv; right; assumption|].
    destruct x as [p x|r|now|r now adv]; try (right; intros r' n' a' [Hx|Hx]; [discriminate|apply (Hnp _ _ _ Hx)]).
    left. exists r, now, adv. left; reflexivity. }
  destruct Hdec as [Hex|Hnp]; [assumption|]. exfalso.
  rewrite ghost_after_app in Hnf. cbn [fold_left] in Hnf.
  rewrite (found_kept c l2 _ Hnp) in Hnf; [discriminate|].
  cbn [gstep]. rewrite Hg. cbn [g_A]. rewrite found_snoc. cbn [snd]. rewrite Ht. apply orb_true_r.
Qed.

(* never above the target's distance once it is established on a stable path - across rounds.
   [stable c D g l]: every genuine answer of the log comes from the target iff the probe had ttl >= D *)
Fixpoint stable (c : scfg) (D : Z) (g : ghost) (l : list obs) : Prop :=
  match l with
  | [] => True
  | o :: t =>
    match o with
    | ORecv r =>
      match genuine c (g_S g) (g_A g) r with
      | Some (p, sr) => sr_is_target sr = (D <=? p_ttl p)
      | None => True
      end
    | _ => True
    end /\ stable c D (gstep c g o) t
  end.

Lemma stable_app c D l1 : forall g l2, stable c D g (l1 ++ l2) <-> stable c D g l1 /\ stable c D (fold_left (gstep c) l1 g) l2.
Proof.
  induction l1 as [|o l1 IH]; intros g l2; cbn [app stable fold_left]; [tauto|]. rewrite IH. tauto.
Qed.

(* an established distance is never below D ... *)
Lemma stable_dist_lower c D l : forall g, stable c D g l ->
  (forall x, g_dist g = Some x -> D <= x) -> forall x, g_dist (fold_left (gstep c) l g) = Some x -> D <= x.
Proof.
  induction l as [|o l IH]; intros g Hs Hlo; cbn [fold_left]; [assumption|].
  cbn [stable] in Hs. destruct Hs as [Ho Hs]. apply IH; [assumption|].
  destruct o as [p x|r|now|r now adv]; cbn [gstep g_dist]; try assumption.
  destruct (genuine c (g_S g) (g_A g) r) as [[p sr]|]; cbn [g_dist]; [|assumption].
  intros x Hx. unfold dist_update in Hx. rewrite Ho in Hx.
  destruct (D <=? p_ttl p) eqn:Ed, (g_dist g) as [y|] eqn:Eg; try discriminate.
  - inversion Hx; subst x. specialize (Hlo y eq_refl). lia.
  - inversion Hx; subst x. lia.
  - destruct (y <=? p_ttl p); [discriminate|]. inversion Hx; subst x. apply Hlo; reflexivity.
Qed.

(* ... and once established at or below T it stays established at or below T *)
Lemma stable_dist_upper c D T l : forall g, stable c D g l ->
  (exists x, g_dist g = Some x /\ D <= x <= T) -> exists x, g_dist (fold_left (gstep c) l g) = Some x /\ D <= x <= T.
Proof.
  induction l as [|o l IH]; intros g Hs Hx; cbn [fold_left]; [assumption|].
  cbn [stable] in Hs. destruct Hs as [Ho Hs]. apply IH; [assumption|].
  destruct o as [p x|r|now|r now adv]; cbn [gstep g_dist]; try assumption.
  destruct (genuine c (g_S g) (g_A g) r) as [[p sr]|]; cbn [g_dist]; [|assumption].
  destruct Hx as (x & Ex & Hx). unfold dist_update. rewrite Ho, Ex.
  destruct (D <=? p_ttl p) eqn:Ed.
  - exists (Z.min x (p_ttl p)). split; [reflexivity|lia].
  - destruct (x <=? p_ttl p) eqn:E; [lia|]. exists x. split; [reflexivity|assumption].
Qed.

Lemma c06_stable_path_lemma c t0 is D l1 r p sr l2 q o l3 : Accept c ->
  stable c D (g_init t0) (run_log c t0 is) ->
  run_log c t0 is = l1 ++ ORecv r :: l2 ++ OSend q o :: l3 ->
  genuine c (g_S (ghost_after c t0 l1)) (g_A (ghost_after c t0 l1)) r = Some (p, sr) -> sr_is_target sr = true ->
  p_ttl q <= p_ttl p.
Proof.
  intros HA Hst E Hg Ht.
  assert (E' : run_log c t0 is = (l1 ++ ORecv r :: l2) ++ OSend q o :: l3) by (rewrite E, <- app_assoc; reflexivity).
  pose proof (c06_run_send_lemma c t0 is _ q o l3 HA E') as (_ & _ & _ & _ & Hd).
  rewrite E in Hst. apply stable_app in Hst. destruct Hst as [Hs1 Hs2]. fold (ghost_after c t0 l1) in Hs2.
  cbn [stable] in Hs2. destruct Hs2 as [Hr Hs2]. rewrite Hg in Hr.
  apply stable_app in Hs2. destruct Hs2 as [Hs2 _].
  pose proof (stable_dist_lower c D l1 (g_init t0) Hs1 ltac:(intros x Hx; discriminate)) as Hlo. fold (ghost_after c t0 l1) in Hlo.
  assert (Hup : exists x, g_dist (gstep c (ghost_after c t0 l1) (ORecv r)) = Some x /\ D <= x <= p_ttl p).
  { cbn [gstep]. rewrite Hg. cbn [g_dist]. unfold dist_update. rewrite Ht.
    destruct (g_dist (ghost_after c t0 l1)) as [y|] eqn:Ey.
    - specialize (Hlo y eq_refl). exists (Z.min y (p_ttl p)). split; [reflexivity|lia].
    - exists (p_ttl p). split; [reflexivity|lia]. }
  destruct (stable_dist_upper c D (p_ttl p) l2 _ Hs2 Hup) as (x & Ex & Hx).
  rewrite ghost_after_app in Hd. cbn [fold_left] in Hd. rewrite Ex in Hd. lia.
Qed.

(* ======================= C08 ======================= *)
(* exactly when: a publish satisfies the policy and states the reason, an update reading that does not publish
   violates the policy - for every round of every run, against the ghost of that round *)
Lemma c08_run_publish_lemma c t0 is l1 r now adv l2 : Accept c ->
  run_log c t0 is = l1 ++ OPublish r now adv :: l2 ->
  let g := ghost_after c t0 l1 in
  policy_g c g now /\
  (rr_reason r = TargetFound <-> found (g_A g) = true) /\
  (rr_reason r = RoundTimeLimitExceeded -> found (g_A g) = false /\ max_round_duration c < Z.max 0 (now - g_start g)).
Proof.
  intros HA E g. pose proof (run_log_at c t0 is l1 _ l2 HA E) as Hok. cbn [obs_ok] in Hok. fold g in Hok.
  destruct Hok as (Hpol & _ & Hreason & _). split; [assumption|]. rewrite Hreason.
  destruct (found (g_A g)) eqn:Ef.
  - split; [split; reflexivity|discriminate].
  - split; [split; discriminate|]. intros _. split; [reflexivity|].
    destruct Hpol as [H|(_ & H & _)]; [assumption|congruence].
Qed.

Lemma c08_run_no_publish_lemma c t0 is l1 now l2 : Accept c ->
  run_log c t0 is = l1 ++ OUpdate now :: l2 -> ~ policy_g c (ghost_after c t0 l1) now.
Proof. intros HA E. pose proof (run_log_at c t0 is l1 _ l2 HA E) as Hok. cbn [obs_ok] in Hok. tauto. Qed.

(* the next round starts at the instant the previous one is published: the clock reading taken by advance_round
   right after the publish callback is the start against which the next round is judged (the first: t0) *)
Lemma g_start_kept c l : forall g, no_publish l -> g_start (fold_left (gstep c) l g) = g_start g.
Proof.
  induction l as [|o l IH]; intros g Hnp; cbn [fold_left]; [reflexivity|].
  rewrite IH by (intros r now adv Hin; apply (Hnp r now adv); right; assumption).
  destruct o as [p x|r|now|r now adv]; cbn [gstep g_start]; try reflexivity.
  - destruct (genuine c (g_S g) (g_A g) r) as [[p sr]|]; reflexivity.
  - exfalso. apply (Hnp r now adv). left; reflexivity.
Qed.

Lemma c08_round_start_lemma c t0 :
  (forall mid, no_publish mid -> g_start (ghost_after c t0 mid) = t0) /\
  (forall l1 r now adv mid, no_publish mid -> g_start (ghost_after c t0 (l1 ++ OPublish r now adv :: mid)) = adv).
Proof.
  split.
  - intros mid Hnp. unfold ghost_after. rewrite g_start_kept by assumption. reflexivity.
  - intros l1 r now adv mid Hnp. rewrite ghost_after_app. cbn [fold_left]. rewrite g_start_kept by assumption. reflexivity.
Qed.

(* never held open longer than max-round-duration plus one read timeout.
   Environment assumption [paced D]: each update_round reading is at most D after the previous reading of the
   update / advance clock (t0 for the first) - one pass of the loop: a send and one bounded wait for a response. *)
Fixpoint paced (D last : Z) (l : list obs) : Prop :=
  match l with
  | [] => True
  | OUpdate now :: t => now - last <= D /\ paced D now t
  | OPublish _ now adv :: t => now - last <= D /\ paced D adv t
  | _ :: t => paced D last t
  end.

(* conclusion: a reading that leaves the round open lies at most max after the round start, and the reading that
   publishes it at most max + D *)
Fixpoint held_ok (c : scfg) (D start : Z) (l : list obs) : Prop :=
  match l with
  | [] => True
  | OUpdate now :: t => now - start <= max_round_duration c /\ held_ok c D start t
  | OPublish _ now adv :: t => now - start <= max_round_duration c + D /\ held_ok c D adv t
  | _ :: t => held_ok c D start t
  end.

Lemma held_open_gen c D l : forall g last, log_ok c g l -> paced D last l ->
  last - g_start g <= max_round_duration c -> 0 <= max_round_duration c -> held_ok c D (g_start g) l.
Proof.
  induction l as [|o l IH]; intros g last Hok Hp Hl Hm; [exact I|].
  cbn [log_ok] in Hok. destruct Hok as [Ho Hok].
  destruct o as [p x|r|now|r now adv]; cbn [paced held_ok] in *.
  - apply (IH _ last Hok Hp); assumption.
  - assert (Es : g_start (gstep c g (ORecv r)) = g_start g)
      by (cbn [gstep]; destruct (genuine c (g_S g) (g_A g) r) as [[p sr]|]; reflexivity).
    rewrite <- Es. apply (IH _ last Hok Hp); [rewrite Es; assumption|assumption].
  - destruct Hp as [Hd Hp]. cbn [obs_ok] in Ho. destruct Ho as [Hnp _].
    assert (Hle : now - g_start g <= max_round_duration c).
    { destruct (Z_le_gt_dec (now - g_start g) (max_round_duration c)) as [H|H]; [assumption|].
      exfalso. apply Hnp. left. lia. }
    split; [assumption|]. apply (IH g now Hok Hp); assumption.
  - destruct Hp as [Hd Hp]. split; [lia|].
    apply (IH (gstep c g (OPublish r now adv)) adv Hok Hp); cbn [gstep g_start]; lia.
Qed.

Lemma c08_held_open_lemma c t0 is D : Accept c -> paced D t0 (run_log c t0 is) -> held_ok c D t0 (run_log c t0 is).
Proof.
  intros HA Hp. assert (Hm : 0 <= max_round_duration c) by (destruct HA as [_ Hw]; unfold cfg_wf in Hw; tauto).
  apply (held_open_gen c D _ (g_init t0) t0 (run_obs_ok c t0 is HA) Hp); cbn [g_init g_start]; lia.
Qed.

(* the log is the run *)
Lemma run_log_events c t0 is : Accept c -> events_of (run_log c t0 is) = fst (fst (run c t0 is)).
Proof. intros HA. apply run_obs_events; [assumption|apply inv_new; assumption]. Qed.

Lemma pubs_events_in l : forall r, In r (pubs (events_of l)) -> exists now adv, In (OPublish r now adv) l.
Proof.
  induction l as [|o l IH]; intros r Hin; [destruct Hin|].
  destruct o as [p x|r0|now|r0 now adv]; cbn [events_of flat_map app pubs] in Hin; fold (events_of l) in Hin.
  - destruct (IH r Hin) as (n & a & H). exists n, a. right; assumption.
  - destruct (IH r Hin) as (n & a & H). exists n, a. right; assumption.
  - destruct (IH r Hin) as (n & a & H). exists n, a. right; assumption.
  - destruct Hin as [->|Hin]; [exists now, adv; left; reflexivity|].
    destruct (IH r Hin) as (n & a & H). exists n, a. right; assumption.
Qed.

(* the same about the rounds [run] publishes, without mentioning the log *)
Lemma c06_published_rounds_lemma c t0 is : Accept c ->
  Forall (fun r =>
    ttls (rr_probes r) = zrange (first_ttl c) (length (ttls (rr_probes r))) /\
    (first_ttl c <= max_ttl c -> 1 <= max_inflight c -> exists rest, ttls (rr_probes r) = first_ttl c :: rest))
    (pubs (fst (fst (run c t0 is)))).
Proof.
  intros HA. apply Forall_forall. intros r Hin. rewrite <- (run_log_events c t0 is HA) in Hin.
  destruct (pubs_events_in _ r Hin) as (now & adv & Hin2). apply in_split in Hin2. destruct Hin2 as (l1 & l2 & E).
  exact (c06_published_ttls_lemma c t0 is l1 r now adv l2 HA E).
Qed.

(* the inputs of the send decision and of the completion decision held by the tracer state are the ghost of the
   log, at the end of every run that did not fail (hence at every iteration boundary: take the prefix of the inputs) *)
Lemma ghost_is_state_lemma c t0 is ev o sf : Accept c -> run c t0 is = (ev, o, sf) -> (forall e, o <> Failed_with e) ->
  let g := ghost_after c t0 (run_log c t0 is) in
  (ttl sf = next_ttl c (g_S g) /\ target_found sf = found (g_A g) /\ max_received_ttl sf = farthest (g_A g) /\
   target_ttl sf = g_dist g /\ round sf = g_round g) /\
  (round_start sf = g_start g /\ received_time sf = last_recv (g_A g) /\ target_found sf = found (g_A g)).
Proof.
  intros HA E Hne g. pose proof (run_final_sim c HA is (ts_new c t0) (g_init t0) (sim_new c t0 HA)) as H.
  unfold run in E. rewrite E in H. specialize (H Hne). fold (ghost_after c t0 (run_obs c (ts_new c t0) is)) in H.
  destruct H. repeat split; assumption.
Qed.

(* the ghost of the log is the ghost history of Proofs/RoundHistory.v (C01): the rounds [run_hist] reports with
   their send log and accepted deliveries are the publishes of the log with the ghost before each *)
Fixpoint publishes (c : scfg) (g : ghost) (l : list obs)
  : list (round_rec * list (probe * send_outcome) * list (probe * sresp)) :=
  match l with
  | [] => []
  | o :: t =>
    match o with OPublish r _ _ => [(r, g_S g, g_A g)] | _ => [] end ++ publishes c (gstep c g o) t
  end.

Lemma publishes_app c l1 : forall g l2,
  publishes c g (l1 ++ l2) = publishes c g l1 ++ publishes c (fold_left (gstep c) l1 g) l2.
Proof.
  induction l1 as [|o l1 IH]; intros g l2; cbn [app publishes fold_left]; [reflexivity|].
  rewrite IH, app_assoc. reflexivity.
Qed.

Lemma publishes_sends c ev g : publishes c g (obs_sends ev) = [].
Proof.
  unfold obs_sends. generalize (sends_of ev). intros l. revert g.
  induction l as [|po l IH]; intros g; cbn [map publishes app]; [reflexivity|apply IH].
Qed.

Lemma publishes_recv c i g : publishes c g (obs_recv i) = [].
Proof. unfold obs_recv. destruct (i_recv i); reflexivity. Qed.

Lemma run_hist_is_log c : Accept c -> forall is s g, Sim c s g ->
  run_hist c s (g_S g) (g_A g) is = publishes c g (run_obs c s is).
Proof.
  intros HA. induction is as [|i rest IH]; intros s g HS; cbn [run_hist run_obs].
  - destruct (finished s (max_rounds c)); reflexivity.
  - destruct (finished s (max_rounds c)); [reflexivity|].
    pose proof (sim_inv c s g HS) as HI.
    destruct (send_request_ok c s i HA HI) as (s1 & ev1 & e1 & H1 & HI1 & _). rewrite H1.
    destruct (sim_send c s g i s1 ev1 e1 HA HS H1) as [_ HS1].
    destruct e1 as [e1|]; [rewrite publishes_sends; reflexivity|]. specialize (HS1 eq_refl).
    rewrite publishes_app, publishes_sends. cbn [app].
    set (g1 := fold_left (gstep c) (obs_sends ev1) g) in *.
    assert (E1 : g_S g1 = g_S g ++ sends_of ev1 /\ g_A g1 = g_A g) by (unfold g1, obs_sends; rewrite gfold_sends; split; reflexivity).
    destruct E1 as [ES1 EA1].
    destruct (recv_response_ok c s1 i HA HI1) as (s2 & e2 & H2 & HI2 & _). rewrite H2.
    destruct e2 as [e2|]; [reflexivity|].
    pose proof (sim_recv_phase c s1 g1 i s2 HA HS1 H2) as HS2.
    rewrite publishes_app, publishes_recv. cbn [app].
    set (g2 := fold_left (gstep c) (obs_recv i) g1) in *.
    assert (E2 : g_S g2 = g_S g ++ sends_of ev1 /\ g_A g2 = ghost_accept c s1 i (g_A g)).
    { pose proof (genuine_ghost_pick c s1 i (g_S g1) (g_A g1) HI1 (sim_h c s1 g1 HS1) (sim_set c s1 g1 HS1)) as Hgp.
      unfold g2, obs_recv, ghost_accept. rewrite Hgp. rewrite <- ES1, <- EA1.
      destruct (i_recv i) as [|r|x]; try (split; reflexivity).
      cbn [fold_left gstep]. destruct (genuine c (g_S g1) (g_A g1) r) as [[p sr]|]; split; reflexivity. }
    destruct E2 as [ES2 EA2].
    destruct (update_round_ok c s2 i HA HI2) as (s3 & ev3 & H3 & HI3 & _). rewrite H3.
    destruct (sim_update c s2 g2 i s3 ev3 HA HS2 H3) as [(-> & -> & Hnp)|(r & -> & _ & _ & _ & HS3)].
    + cbn [publishes app gstep]. rewrite <- ES2, <- EA2. apply IH. assumption.
    + cbn [publishes app]. rewrite <- ES2, <- EA2. f_equal. apply (IH s3 _ HS3).
Qed.

Lemma run_hist_is_log_lemma c t0 is : Accept c ->
  run_hist c (ts_new c t0) [] [] is = publishes c (g_init t0) (run_log c t0 is).
Proof. intros HA. exact (run_hist_is_log c HA is (ts_new c t0) (g_init t0) (sim_new c t0 HA)). Qed.

(* ------------------------------------------------------------------ an example run (used by the Examples of Props/C06.v, C08.v)
   a run of two rounds over a stable path of length 3 (hops 1, 2 answer, the target answers ttl 3,
   the ttl 4 probe stays unanswered, a duplicate of the target's answer arrives late); the second round stays silent *)
Definition rl_ex_cfg : scfg :=
  {| target_addr := [1;2;3;4]; proto := Icmp; trace_identifier := 7; max_rounds := Some 3;
     first_ttl := 1; max_ttl := 6; grace_duration := 5; max_inflight := 2;
     initial_sequence := 100; multipath := Classic; port_direction := PdNone;
     min_round_duration := 10; max_round_duration := 50 |}.
Definition rl_ex_te (t q : Z) (a : addr) : response :=
  RTimeExceeded {| r_recv := t; r_addr := a; r_proto := PIcmp 7 q None |} 0 None.
Definition rl_ex_er (t q : Z) : response :=
  REchoReply {| r_recv := t; r_addr := [1;2;3;4]; r_proto := PIcmp 7 q None |} 0.
Definition rl_ex_it (rc : recv_outcome) (u : Z) : iter_in :=
  {| i_clock := [u]; i_sends := [Sent]; i_recv := rc; i_update := u; i_advance := u + 1 |}.
Definition rl_ex_ins : list iter_in :=
  [ rl_ex_it Timeout 1; rl_ex_it (Resp (rl_ex_te 2 100 [9;9;9;1])) 2; rl_ex_it (Resp (rl_ex_te 3 101 [9;9;9;2])) 3;
    rl_ex_it (Resp (rl_ex_er 4 102)) 4; rl_ex_it Timeout 8; rl_ex_it (Resp (rl_ex_er 9 102)) 11;
    rl_ex_it Timeout 16; rl_ex_it Timeout 17; rl_ex_it Timeout 18; rl_ex_it Timeout 40; rl_ex_it Timeout 41;
    rl_ex_it Timeout 70 ].


(* a TCP run with port collisions: ttl 2 is issued three times (two sends report address in use), ttl 3 fails
   transiently, the target answers the ttl 2 probe; the round ends by the time limit *)
Definition rl_ex_tcp_cfg : scfg :=
  {| target_addr := [1;2;3;4]; proto := Tcp; trace_identifier := 0; max_rounds := Some 2;
     first_ttl := 2; max_ttl := 6; grace_duration := 5; max_inflight := 2;
     initial_sequence := 100; multipath := Classic; port_direction := FixedSrc 5000;
     min_round_duration := 10; max_round_duration := 50 |}.
Definition rl_ex_tcp_it (sn : list send_outcome) (rc : recv_outcome) (u : Z) : iter_in :=
  {| i_clock := [u; u; u; u]; i_sends := sn; i_recv := rc; i_update := u; i_advance := u + 1 |}.
Definition rl_ex_tcp_reply (t q : Z) : response :=
  RTcpReply {| r_recv := t; r_addr := [1;2;3;4]; r_proto := PTcp [1;2;3;4] 5000 q None |}.
Definition rl_ex_tcp_ins : list iter_in :=
  [ rl_ex_tcp_it [AddressInUseO; AddressInUseO; Sent] Timeout 1; rl_ex_tcp_it [ProbeFailedO] (Resp (rl_ex_tcp_reply 2 100)) 2;
    rl_ex_tcp_it [Sent] (Resp (rl_ex_tcp_reply 3 102)) 3; rl_ex_tcp_it [Sent] Timeout 60;
    rl_ex_tcp_it [AddressInUseO; Sent] Timeout 61 ].

(* the same path, but the ttl 4 probe is answered by a router AFTER the target answered ttl 3 (the path is not
   stable): the distance is forgotten and round 1 probes ttl 4 again *)
Definition rl_ex_unstable_ins : list iter_in :=
  [ rl_ex_it Timeout 1; rl_ex_it (Resp (rl_ex_te 2 100 [9;9;9;1])) 2; rl_ex_it (Resp (rl_ex_te 3 101 [9;9;9;2])) 3;
    rl_ex_it (Resp (rl_ex_er 4 102)) 4; rl_ex_it (Resp (rl_ex_te 5 103 [9;9;9;4])) 5; rl_ex_it Timeout 11;
    rl_ex_it (Resp (rl_ex_te 16 104 [9;9;9;1])) 16; rl_ex_it (Resp (rl_ex_te 17 105 [9;9;9;2])) 17;
    rl_ex_it Timeout 18; rl_ex_it Timeout 19 ].
