(* C09 over whole runs of the strategy loop (Core/Strategy.v [run]):
   - where an error of the run can come from, and that a failing iteration ends the run with exactly that error
     and no further event, whatever follows in the environment;
   - termination: with max_rounds = Some n, an environment that injects no fatal outcome and whose clock lets n
     rounds expire makes the run publish exactly n rounds numbered 0..n-1 and return success;
   - what the published rounds say about transient failures and address-in-use re-issues, stated on the event
     trace of [run] itself (the sends between two publications and the round published after them). *)
From TV Require Import Base.Result Core.Types Core.TracerState Core.Strategy Core.Builder
  Proofs.ListLemmas Proofs.StrategyInv Proofs.StrategyProps Proofs.RoundHistory.
From Coq Require Import ZifyBool.

(* ================= specification vocabulary (independent of how the loop is written) ================= *)

(* [injected c i e]: the environment of iteration i hands error e to the loop: a fatal receive outcome, a fatal send
   outcome, address-in-use for a protocol that has no re-issue loop (ICMP, UDP); the only error the loop makes up
   itself is the TCP capacity error *)
Definition injected (c : scfg) (i : iter_in) (e : error) : Prop :=
  i_recv i = FatalR e \/
  In (FatalS e) (i_sends i) \/
  (e = EAddressInUse /\ proto c <> Tcp /\ hd_send (i_sends i) = AddressInUseO) \/
  (e = EInsufficientCapacity /\ proto c = Tcp).

(* an iteration whose environment injects nothing fatal: responses may be anything (or withheld), sends may fail
   transiently, TCP sends may hit address-in-use *)
Definition no_fatal (c : scfg) (i : iter_in) : Prop :=
  (forall e, i_recv i <> FatalR e) /\
  Forall (fun o => o = Sent \/ o = ProbeFailedO \/ (o = AddressInUseO /\ proto c = Tcp)) (i_sends i).

(* the same, and no address-in-use either *)
Definition benign (i : iter_in) : Prop :=
  (forall e, i_recv i <> FatalR e) /\ Forall (fun o => o = Sent \/ o = ProbeFailedO) (i_sends i).

(* a lower bound, computed from the clock readings alone, on the number of rounds that must have been published:
   [hi] is an upper bound of the start time of the round in progress (the start time is the advance reading of the
   iteration that published the previous round); an iteration whose update reading is more than max_round_duration
   past [hi] must publish, and the next round then starts at its advance reading; any other iteration may or may
   not publish (the target may have answered), so the bound becomes the later of the two readings *)
Fixpoint count_expired (c : scfg) (hi : Z) (is : list iter_in) : nat :=
  match is with
  | [] => O
  | i :: rest =>
    if max_round_duration c <? i_update i - hi then Datatypes.S (count_expired c (i_advance i) rest)
    else count_expired c (Z.max hi (i_advance i)) rest
  end.

(* the event trace cut into rounds: the sends (probe, outcome) handed to the network since the previous
   publication, paired with the round published after them; sends after the last publication are dropped *)
Fixpoint segs (acc : list (probe * send_outcome)) (ev : list event) : list (list (probe * send_outcome) * round_rec) :=
  match ev with
  | [] => []
  | ESend p o :: t => segs (acc ++ [(p, o)]) t
  | EPublish r :: t => (acc, r) :: segs [] t
  end.

(* what a published round [r] with number [k] must say about the sends [S] of that round *)
Definition round_semantics (c : scfg) (k : Z) (S : list (probe * send_outcome)) (r : round_rec) : Prop :=
  length (rr_probes r) = length S /\
  forall i p o, nth_error S i = Some (p, o) ->
    p_round p = k /\
    (forall e, o <> FatalS e) /\
    match o with
    | ProbeFailedO => nth_error (rr_probes r) i = Some (Failed p)
    | AddressInUseO =>
      proto c = Tcp /\ nth_error (rr_probes r) i = Some Skipped /\
      exists p' o', nth_error S (Datatypes.S i) = Some (p', o') /\
        p_sequence p' = p_sequence p + 1 /\ p_ttl p' = p_ttl p /\ p_round p' = p_round p
    | _ =>
      nth_error (rr_probes r) i = Some (Awaited p) \/
      exists cc, nth_error (rr_probes r) i = Some (Complete cc) /\ c_probe cc = p
    end /\
    (o <> AddressInUseO -> forall p' o', nth_error S (Datatypes.S i) = Some (p', o') ->
       p_sequence p' = p_sequence p + 1 /\ p_ttl p' = p_ttl p + 1).

(* ================= errors of one iteration ================= *)

Lemma tcp_loop_error c : forall sends s p clk last s' ev e,
  tcp_reissue_loop c s p sends clk last = Ok (s', ev, Some e) ->
  In (FatalS e) sends \/ (e = EInsufficientCapacity /\ In AddressInUseO sends).
Proof.
  induction sends as [|o rest IH]; intros s p clk last s' ev e H; cbn [tcp_reissue_loop] in H.
  - inversion H.
  - destruct o as [| | |e0]; cbn [do_send bind] in H.
    + inversion H.
    + destruct (fail_probe s) as [sf|?|?]; cbn [bind] in H; inversion H.
    + destruct (round_has_capacity s) as [cap|?|?]; cbn [bind] in H; try discriminate.
      destruct cap.
      * destruct (reissue_probe c s (hd_clock clk last)) as [[p' s'']|?|?]; cbn [bind] in H; try discriminate.
        destruct (tcp_reissue_loop c s'' p' rest (tl clk) (hd_clock clk last)) as [[[s3 ev3] e3]|?|?] eqn:Hr;
          cbn [bind] in H; try discriminate.
        inversion H; subst. destruct (IH _ _ _ _ _ _ _ Hr) as [Hin|[He Hin]].
        -- left. right. assumption.
        -- right. split; [assumption|left; reflexivity].
      * inversion H; subst. right. split; [reflexivity|left; reflexivity].
    + inversion H; subst. left. left. reflexivity.
Qed.

Lemma hd_send_in sends o : hd_send sends = o -> o <> Sent -> In o sends.
Proof. destruct sends as [|x t]; cbn; intros H Hn; [congruence|left; assumption]. Qed.

(* an error of the send phase: a fatal outcome of one of its sends, address-in-use without a re-issue loop,
   or the TCP sequence budget of the round is used up *)
Lemma send_request_error c s i s1 ev1 e : send_request c s i = Ok (s1, ev1, Some e) ->
  In (FatalS e) (i_sends i) \/
  (e = EAddressInUse /\ proto c <> Tcp /\ hd_send (i_sends i) = AddressInUseO) \/
  (e = EInsufficientCapacity /\ proto c = Tcp /\
   (512 <= sequence s - round_sequence s \/ In AddressInUseO (i_sends i))).
Proof.
  intros H. unfold send_request in H.
  destruct (can_send c s) as [b|?|?]; cbn [bind] in H; try discriminate.
  destruct b; cbn [negb] in H; [|inversion H].
  assert (Hnt : proto c <> Tcp ->
     (let* (p, s1) := next_probe c s (hd_clock (i_clock i) (round_start s)) in
      let o := hd_send (i_sends i) in
      let* r := do_send s1 o in
      match r with
      | SDone s2 => Ok (s2, [ESend p o], None)
      | SInUse s2 => Ok (s2, [ESend p o], Some EAddressInUse)
      | SErr e => Ok (s1, [ESend p o], Some e)
      end) = Ok (s1, ev1, Some e) ->
     In (FatalS e) (i_sends i) \/ (e = EAddressInUse /\ proto c <> Tcp /\ hd_send (i_sends i) = AddressInUseO)).
  { intros Hp H'. destruct (next_probe c s _) as [[p sa]|?|?]; cbn [bind] in H'; try discriminate.
    destruct (hd_send (i_sends i)) as [| | |e0] eqn:Eo; cbn [do_send bind] in H'.
    - inversion H'.
    - destruct (fail_probe sa); cbn [bind] in H'; inversion H'.
    - inversion H'; subst. right. repeat split; assumption.
    - inversion H'; subst. left. apply hd_send_in; [assumption|discriminate]. }
  destruct (proto c) eqn:Ep.
  - destruct (Hnt ltac:(discriminate) H) as [X|X]; [left; exact X|right; left; exact X].
  - destruct (Hnt ltac:(discriminate) H) as [X|X]; [left; exact X|right; left; exact X].
  - clear Hnt. unfold round_has_capacity, sub16, sub_w, BUFFER_SIZE in H.
    destruct (round_sequence s <=? sequence s) eqn:E1; cbn [bind] in H; try discriminate.
    destruct (sequence s - round_sequence s <? 512) eqn:Ec; cbn [negb] in H.
    + destruct (next_probe c s _) as [[p sa]|?|?]; cbn [bind] in H; try discriminate.
      destruct (i_sends i) as [|o rest] eqn:Es; [inversion H|].
      destruct (tcp_loop_error c _ _ _ _ _ _ _ _ H) as [X|[X Y]]; [left; exact X|].
      right. right. repeat split; try assumption. right; assumption.
    + inversion H; subst. right. right. repeat split; try reflexivity. left. lia.
Qed.

Lemma recv_response_error c s i s' e : recv_response c s i = Ok (s', Some e) -> i_recv i = FatalR e.
Proof.
  unfold recv_response. destruct (i_recv i) as [|r|x]; intros H.
  - inversion H.
  - destruct (validate c (resp_data_of r)); [|inversion H].
    destruct (strategy_resp c r) as [sr|?|?]; cbn [bind] in H; try discriminate.
    destruct (check_trace_id c (sr_trace_id sr) && in_round s (sr_sequence sr)); [|inversion H].
    destruct (complete_probe s sr); cbn [bind] in H; inversion H.
  - inversion H; subst. reflexivity.
Qed.

(* decomposition of an iteration that ends with an error: it is the error of the send phase, or the send phase
   went through and it is the fatal outcome of the receive *)
Lemma step_error_cases c s i s' ev e : step c s i = Ok (s', ev, Some e) ->
  send_request c s i = Ok (s', ev, Some e) \/
  (exists s1, send_request c s i = Ok (s1, ev, None) /\ recv_response c s1 i = Ok (s', Some e) /\ i_recv i = FatalR e).
Proof.
  unfold step. intros H.
  destruct (send_request c s i) as [[[s1 ev1] e1]|?|?]; cbn [bind] in H; try discriminate.
  destruct e1 as [e1|]; [inversion H; subst; left; reflexivity|].
  destruct (recv_response c s1 i) as [[s2 e2]|?|?] eqn:Hr; cbn [bind] in H; try discriminate.
  destruct e2 as [e2|].
  - inversion H; subst. right. exists s1. split; [reflexivity|]. split; [assumption|].
    eapply recv_response_error; eassumption.
  - destruct (update_round c s2 i) as [[s3 ev3]|?|?]; cbn [bind] in H; try discriminate.
Qed.

Lemma step_error_injected c s i s' ev e : step c s i = Ok (s', ev, Some e) -> injected c i e.
Proof.
  intros H. unfold injected. destruct (step_error_cases c s i s' ev e H) as [Hs|(s1 & _ & _ & Hr)].
  - destruct (send_request_error c s i s' ev e Hs) as [X|[X|(X & Y & _)]].
    + right; left; exact X.
    + right; right; left; exact X.
    + right; right; right. split; assumption.
  - left; exact Hr.
Qed.

(* the events of an iteration that ends with an error are sends only: nothing is published *)
Lemma step_error_no_publish c s i s' ev e : Accept c -> Inv c s -> step c s i = Ok (s', ev, Some e) -> pubs ev = [].
Proof.
  intros HA HI H. destruct (step_publish_lemma c s i s' ev (Some e) HA HI H) as [[Hp _]|(r & _ & _ & Hn & _)];
    [assumption|discriminate].
Qed.

(* ================= composition of runs ================= *)

Lemma run_from_running c : forall is s ev sf, run_from c s is = (ev, Running, sf) -> finished sf (max_rounds c) = false.
Proof.
  induction is as [|i rest IH]; intros s ev sf H; cbn [run_from] in H.
  - destruct (finished s (max_rounds c)) eqn:Ef; inversion H; subst. assumption.
  - destruct (finished s (max_rounds c)) eqn:Ef; [inversion H|].
    destruct (step c s i) as [[[s' ev1] e]|?|?]; try (inversion H; fail).
    destruct e as [e|]; [inversion H|].
    destruct (run_from c s' rest) as [[evs o] sf'] eqn:Hr. inversion H; subst. eapply IH; eassumption.
Qed.

(* a run that has not ended is continued by the rest of the environment *)
Lemma run_from_app c : forall pre s ev0 s0 rest, run_from c s pre = (ev0, Running, s0) ->
  run_from c s (pre ++ rest) =
    let '(ev, o, sf) := run_from c s0 rest in (ev0 ++ ev, o, sf).
Proof.
  induction pre as [|i pre IH]; intros s ev0 s0 rest H; cbn [run_from app] in *.
  - destruct (finished s (max_rounds c)) eqn:Ef; inversion H; subst.
    destruct (run_from c s0 rest) as [[ev o] sf]. reflexivity.
  - destruct (finished s (max_rounds c)) eqn:Ef; [inversion H|].
    destruct (step c s i) as [[[s' ev1] e]|?|?]; try (inversion H; fail).
    destruct e as [e|]; [inversion H|].
    destruct (run_from c s' pre) as [[evs o] sf'] eqn:Hr. inversion H; subst.
    rewrite (IH s' evs s0 rest Hr). destruct (run_from c s0 rest) as [[ev o] sf]. rewrite app_assoc. reflexivity.
Qed.

(* an iteration that ends with an error ends the run: that error is the result, the events of the run end with
   the sends of that iteration, and the rest of the environment is never consulted *)
Lemma run_error_ends c t0 pre i post ev0 s0 s' ev1 e :
  run c t0 pre = (ev0, Running, s0) -> step c s0 i = Ok (s', ev1, Some e) ->
  run c t0 (pre ++ i :: post) = (ev0 ++ ev1, Failed_with e, s').
Proof.
  unfold run. intros Hpre Hs. rewrite (run_from_app c pre _ ev0 s0 (i :: post) Hpre).
  cbn [run_from]. rewrite (run_from_running c pre _ ev0 s0 Hpre). rewrite Hs. reflexivity.
Qed.

(* every failed run is of that form *)
Lemma run_failed_decompose c : Accept c -> forall is s ev e sf, Inv c s -> run_from c s is = (ev, Failed_with e, sf) ->
  exists pre i post ev0 s0 ev1, is = pre ++ i :: post /\ run_from c s pre = (ev0, Running, s0) /\
    step c s0 i = Ok (sf, ev1, Some e) /\ ev = ev0 ++ ev1.
Proof.
  intros HA. induction is as [|i rest IH]; intros s ev e sf HI H; cbn [run_from] in H.
  - destruct (finished s (max_rounds c)); inversion H.
  - destruct (finished s (max_rounds c)) eqn:Ef; [inversion H|].
    destruct (step_ok c s i HA HI) as (s' & ev1 & e1 & Hs & HI'). rewrite Hs in H.
    destruct e1 as [e1|].
    + inversion H; subst. exists [], i, rest, [], s, ev. cbn [app run_from]. rewrite Ef.
      repeat split; try reflexivity. assumption.
    + destruct (run_from c s' rest) as [[evs o] sf'] eqn:Hr. inversion H; subst.
      destruct (IH s' evs e sf HI' Hr) as (pre & i0 & post & ev0 & s0 & ev2 & -> & Hpre & Hst & ->).
      exists (i :: pre), i0, post, (ev1 ++ ev0), s0, ev2. cbn [app run_from]. rewrite Ef, Hs, Hpre.
      repeat split; try reflexivity; try assumption. rewrite app_assoc. reflexivity.
Qed.

(* the error of a failed run was injected by the environment of the iteration that failed, nothing was published
   in that iteration and nothing happened after it *)
Lemma run_failed_injected c t0 is ev e sf : Accept c -> run c t0 is = (ev, Failed_with e, sf) ->
  exists pre i post ev0 s0 ev1, is = pre ++ i :: post /\ run c t0 pre = (ev0, Running, s0) /\
    ev = ev0 ++ ev1 /\ pubs ev1 = [] /\ injected c i e /\ step c s0 i = Ok (sf, ev1, Some e).
Proof.
  intros HA H. unfold run in *.
  destruct (run_failed_decompose c HA is _ ev e sf (inv_new c t0 HA) H) as (pre & i & post & ev0 & s0 & ev1 & -> & Hpre & Hst & ->).
  exists pre, i, post, ev0, s0, ev1. repeat split; try assumption; try reflexivity.
  - pose proof (run_from_inv c HA pre _ (inv_new c t0 HA)) as HI0. rewrite Hpre in HI0. destruct HI0 as [HI0 _].
    eapply step_error_no_publish; eassumption.
  - eapply step_error_injected; eassumption.
Qed.

(* ---- the two fatal cases, spelled out ---- *)

(* fatal receive outcome: unless the send phase of the same iteration already failed, the run ends with exactly
   that error, after the sends of this iteration, and the state is the one the send phase left *)
Lemma run_fatal_recv c t0 pre i post ev0 s0 x : Accept c ->
  run c t0 pre = (ev0, Running, s0) -> i_recv i = FatalR x ->
  exists s1 ev1 e, send_request c s0 i = Ok (s1, ev1, e) /\ pubs ev1 = [] /\
    run c t0 (pre ++ i :: post) = (ev0 ++ ev1, Failed_with (match e with Some e1 => e1 | None => x end), s1).
Proof.
  intros HA Hpre Hx.
  pose proof (run_from_inv c HA pre _ (inv_new c t0 HA)) as HI0. unfold run in Hpre. rewrite Hpre in HI0. destruct HI0 as [HI0 _].
  destruct (step_decompose c s0 i HA HI0) as (s1 & ev1 & e1 & H1 & HI1 & Hsb & Hsh & Hrest).
  assert (Hp1 : pubs ev1 = []).
  { destruct Hsh as [[-> _]|Hsh]; [reflexivity|]. destruct Hsh as (_ & Hlen & _). apply pubs_sends_nil; assumption. }
  exists s1, ev1, e1. split; [assumption|]. split; [assumption|].
  destruct e1 as [e1|].
  - apply (run_error_ends c t0 pre i post ev0 s0 s1 ev1 e1 Hpre Hrest).
  - destruct Hrest as (s2 & e2 & H2 & HI2 & Hrest).
    unfold recv_response in H2. rewrite Hx in H2. inversion H2; subst s2 e2.
    apply (run_error_ends c t0 pre i post ev0 s0 s1 ev1 x Hpre Hrest).
Qed.

(* fatal send outcome on the first send of an iteration that does send: the run ends with exactly that error and
   its last event is that send *)
Lemma run_fatal_send c t0 pre i post ev0 s0 x rest : Accept c ->
  run c t0 pre = (ev0, Running, s0) -> i_sends i = FatalS x :: rest ->
  can_send c s0 = Ok true -> sequence s0 - round_sequence s0 < 512 ->
  exists p s1, next_probe c s0 (hd_clock (i_clock i) (round_start s0)) = Ok (p, s1) /\
    p_sequence p = sequence s0 /\ p_ttl p = ttl s0 /\
    run c t0 (pre ++ i :: post) = (ev0 ++ [ESend p (FatalS x)], Failed_with x, s1).
Proof.
  intros HA Hpre Hs Hcs Hcap.
  pose proof (run_from_inv c HA pre _ (inv_new c t0 HA)) as HI0. unfold run in Hpre. rewrite Hpre in HI0. destruct HI0 as [HI0 _].
  destruct (can_send_ok c s0 HA HI0) as (b & Hcs' & Hb). rewrite Hcs in Hcs'. inversion Hcs'; subst b.
  destruct (Hb eq_refl) as (_ & Hmax & _). pose proof (accept_facts c HA) as F.
  set (sent := hd_clock (i_clock i) (round_start s0)).
  destruct (next_probe_spec c s0 sent HA HI0 Hcap ltac:(lia)) as (d & bf & Hd & Hbf & Hnp).
  destruct (next_probe_inv c s0 sent _ _ HA HI0 Hcap ltac:(lia) ltac:(auto) Hnp) as (_ & _ & _ & _ & Hpt & Hpq & _).
  eexists _, _. split; [exact Hnp|]. split; [assumption|]. split; [assumption|].
  apply (run_error_ends c t0 pre i post ev0 s0 _ _ x Hpre).
  unfold step, send_request. rewrite Hcs. cbn [bind negb]. fold sent.
  destruct (proto c) eqn:Ep.
  - rewrite Hnp, Hs. cbn [bind hd_send do_send]. reflexivity.
  - rewrite Hnp, Hs. cbn [bind hd_send do_send]. reflexivity.
  - unfold round_has_capacity, sub16, sub_w, BUFFER_SIZE. pose proof (inv_seq c s0 HI0).
    destruct (round_sequence s0 <=? sequence s0) eqn:E1; [|lia]. cbn [bind].
    destruct (sequence s0 - round_sequence s0 <? 512) eqn:E2; [|lia]. cbn [negb].
    rewrite Hnp, Hs. cbn [bind tcp_reissue_loop do_send]. reflexivity.
Qed.

(* ================= the clock of one iteration ================= *)

Lemma step_clock c s i s' ev : Accept c -> Inv c s -> step c s i = Ok (s', ev, None) ->
  ((pubs ev = [] /\ round s' = round s /\ round_start s' = round_start s) \/
   (exists r, pubs ev = [r] /\ round s' = round s + 1 /\ round_start s' = i_advance i)) /\
  (max_round_duration c < i_update i - round_start s -> exists r, pubs ev = [r]).
Proof.
  intros HA HI Hs.
  destruct (step_decompose c s i HA HI) as (s1 & ev1 & e1 & H1 & HI1 & Hsb & Hsh & Hrest).
  assert (Hp1 : pubs ev1 = []).
  { destruct Hsh as [[-> _]|Hsh]; [reflexivity|]. destruct Hsh as (_ & Hlen & _). apply pubs_sends_nil; assumption. }
  destruct Hsb as (Hrd1 & Hst1 & _).
  destruct e1 as [e1|]; [rewrite Hs in Hrest; discriminate|].
  destruct Hrest as (s2 & e2 & H2 & HI2 & Hrest).
  destruct (recv_response_ok c s1 i HA HI1) as (s2' & e2' & H2' & _ & _ & _ & _ & Hrd2 & Hst2 & _).
  rewrite H2 in H2'. inversion H2'; subst s2' e2'. clear H2'.
  destruct e2 as [e2|]; [rewrite Hs in Hrest; discriminate|].
  destruct Hrest as (s3 & ev3 & H3 & HI3 & Hst). rewrite Hs in Hst. inversion Hst; subst s3 ev. clear Hst.
  destruct (update_round_ok c s2 i HA HI2) as (s3' & ev3' & H3' & _ & Hcase). rewrite H3 in H3'. inversion H3'; subst s3' ev3'. clear H3'.
  rewrite pubs_app, Hp1. cbn [app].
  destruct Hcase as [(Hnp & -> & ->)|(Hp & r & Hr & -> & Ha & Hrd & Hsta)].
  - split; [left; repeat split; congruence|].
    intros Hexp. exfalso. rewrite (c08_bounded_lemma c s2 (i_update i)) in Hnp; [discriminate|]. rewrite Hst2, Hst1. assumption.
  - split; [right; exists r; split; [reflexivity|]; split; [lia|assumption]|].
    intros _. exists r. reflexivity.
Qed.

(* ================= termination: exactly n rounds, success ================= *)

Lemma no_fatal_error c i e : no_fatal c i -> injected c i e -> e = EInsufficientCapacity /\ proto c = Tcp.
Proof.
  intros [Hr Hs] [H|[H|[(He & Hp & Hh)|(He & Hp)]]].
  - exfalso. apply (Hr e H).
  - exfalso. rewrite Forall_forall in Hs. destruct (Hs _ H) as [X|[X|[X _]]]; discriminate.
  - exfalso. apply hd_send_in in Hh; [|discriminate]. rewrite Forall_forall in Hs.
    destruct (Hs _ Hh) as [X|[X|[_ X]]]; try discriminate. contradiction.
  - split; assumption.
Qed.

Lemma run_terminates_from c n : Accept c -> max_rounds c = Some n -> forall is s hi, Inv c s ->
  round s <= n -> round_start s <= hi -> n - round s <= Z.of_nat (count_expired c hi is) ->
  Forall (no_fatal c) is ->
  let '(ev, o, sf) := run_from c s is in
  o = Finished \/ (proto c = Tcp /\ o = Failed_with EInsufficientCapacity).
Proof.
  intros HA Hn. induction is as [|i rest IH]; intros s hi HI Hle Hhi Hcnt Hnf; cbn [run_from].
  - cbn [count_expired] in Hcnt. unfold finished. rewrite Hn.
    destruct (n - 1 <? round s) eqn:E; [left; reflexivity|lia].
  - destruct (finished s (max_rounds c)) eqn:Ef; [left; reflexivity|].
    unfold finished in Ef. rewrite Hn in Ef.
    inversion Hnf as [|? ? Hi Hrest]; subst.
    destruct (step_ok c s i HA HI) as (s' & ev & e & Hs & HI'). rewrite Hs.
    destruct e as [e|].
    + right. destruct (no_fatal_error c i e Hi (step_error_injected c s i s' ev e Hs)) as [-> Hp].
      split; [assumption|reflexivity].
    + destruct (step_clock c s i s' ev HA HI Hs) as [Hcase Hexp].
      cbn [count_expired] in Hcnt.
      destruct (max_round_duration c <? i_update i - hi) eqn:Ex.
      * destruct (Hexp ltac:(lia)) as [r Hr].
        destruct Hcase as [(Hp & _)|(r' & _ & Hrd & Hst)]; [rewrite Hr in Hp; discriminate|].
        specialize (IH s' (i_advance i) HI' ltac:(lia) ltac:(lia) ltac:(lia) Hrest).
        destruct (run_from c s' rest) as [[evs o] sf]. exact IH.
      * assert (Hgoal : round s' <= n /\ round_start s' <= Z.max hi (i_advance i) /\ n - round s' <= n - round s)
          by (destruct Hcase as [(_ & Hrd & Hst)|(r' & _ & Hrd & Hst)]; lia).
        destruct Hgoal as (G1 & G2 & G3).
        specialize (IH s' (Z.max hi (i_advance i)) HI' G1 G2 ltac:(lia) Hrest).
        destruct (run_from c s' rest) as [[evs o] sf]. exact IH.
Qed.

(* without address-in-use outcomes every round uses exactly one sequence number per ttl (also for TCP),
   so the sequence budget of a round is never used up *)
Lemma tcp_loop_single c s p sends clk last s' ev e : ~ In AddressInUseO sends ->
  tcp_reissue_loop c s p sends clk last = Ok (s', ev, e) -> length ev = 1%nat.
Proof.
  destruct sends as [|o rest]; intros Hn H; cbn [tcp_reissue_loop] in H.
  - inversion H; reflexivity.
  - destruct o as [| | |e0]; cbn [do_send bind] in H.
    + inversion H; reflexivity.
    + destruct (fail_probe s); cbn [bind] in H; inversion H; reflexivity.
    + exfalso. apply Hn. left; reflexivity.
    + inversion H; reflexivity.
Qed.

Lemma send_request_single c s i s1 ev e : Accept c -> Inv c s -> ~ In AddressInUseO (i_sends i) ->
  send_request c s i = Ok (s1, ev, e) -> ev = [] \/ length ev = 1%nat.
Proof.
  intros HA HI Hn H. destruct (send_request_ok c s i HA HI) as (s1' & ev' & e' & H' & _ & _ & Hsh).
  rewrite H in H'. inversion H'; subst s1' ev' e'. clear H'.
  destruct Hsh as [[-> _]|Hsh]; [left; reflexivity|right].
  destruct (proto c) eqn:Ep.
  - destruct Hsh as (_ & _ & _ & _ & _ & _ & _ & _ & _ & Hone). apply Hone. congruence.
  - destruct Hsh as (_ & _ & _ & _ & _ & _ & _ & _ & _ & Hone). apply Hone. congruence.
  - unfold send_request in H. rewrite Ep in H.
    destruct (can_send c s) as [b|?|?]; cbn [bind] in H; try discriminate.
    destruct b; cbn [negb] in H; [|inversion H; subst; destruct Hsh as [X _]; exfalso; apply X; reflexivity].
    destruct (round_has_capacity s) as [cap|?|?]; cbn [bind] in H; try discriminate.
    destruct cap; cbn [negb] in H; [|inversion H; subst; destruct Hsh as [X _]; exfalso; apply X; reflexivity].
    destruct (next_probe c s _) as [[p sa]|?|?]; cbn [bind] in H; try discriminate.
    destruct (i_sends i) as [|o rest] eqn:Es; [inversion H; reflexivity|].
    eapply tcp_loop_single; eassumption.
Qed.

Definition one_per_ttl (c : scfg) (s : tstate) : Prop := sequence s - round_sequence s = ttl s - first_ttl c.

Lemma step_one_per_ttl c s i s' ev e : Accept c -> Inv c s -> one_per_ttl c s -> ~ In AddressInUseO (i_sends i) ->
  step c s i = Ok (s', ev, e) -> one_per_ttl c s'.
Proof.
  intros HA HI Hc Hn Hs. unfold one_per_ttl in *.
  destruct (step_decompose c s i HA HI) as (s1 & ev1 & e1 & H1 & HI1 & Hsb & Hsh & Hrest).
  assert (Hc1 : sequence s1 - round_sequence s1 = ttl s1 - first_ttl c).
  { destruct Hsb as (_ & _ & _ & _ & _ & _ & Hrs).
    destruct Hsh as [[_ ->]|Hsh]; [assumption|].
    destruct (send_request_single c s i s1 ev1 e1 HA HI Hn H1) as [->|Hlen].
    - destruct Hsh as [X _]. exfalso. apply X. reflexivity.
    - destruct Hsh as (_ & Hl & _ & _ & _ & Ht & Hq & _). rewrite Hl, Hlen in Hq. lia. }
  destruct e1 as [e1|]; [rewrite Hs in Hrest; inversion Hrest; subst; assumption|].
  destruct Hrest as (s2 & e2 & H2 & HI2 & Hrest).
  destruct (recv_response_ok c s1 i HA HI1) as (s2' & e2' & H2' & _ & Hq2 & Hrs2 & Ht2 & _).
  rewrite H2 in H2'. inversion H2'; subst s2' e2'. clear H2'.
  destruct e2 as [e2|]; [rewrite Hs in Hrest; inversion Hrest; subst; lia|].
  destruct Hrest as (s3 & ev3 & H3 & HI3 & Hst). rewrite Hs in Hst. inversion Hst; subst s3 ev e. clear Hst.
  destruct (update_round_ok c s2 i HA HI2) as (s3' & ev3' & H3' & _ & Hcase). rewrite H3 in H3'. inversion H3'; subst s3' ev3'. clear H3'.
  destruct Hcase as [(_ & -> & _)|(_ & r & _ & _ & Ha & _)]; [lia|].
  destruct (advance_round_spec c s2 (i_advance i) HA HI2) as (sx & Hax & _ & _ & _ & Htx & Hqx & _).
  rewrite Ha in Hax. inversion Hax; subst sx. lia.
Qed.

Lemma benign_no_fatal c i : benign i -> no_fatal c i /\ ~ In AddressInUseO (i_sends i).
Proof.
  intros [Hr Hs]. split; [split; [assumption|]|].
  - eapply Forall_impl; [|exact Hs]. cbn. intros o [X|X]; auto.
  - intros Hin. rewrite Forall_forall in Hs. destruct (Hs _ Hin); discriminate.
Qed.

Lemma run_benign_no_error c : Accept c -> forall is s, Inv c s -> one_per_ttl c s -> Forall benign is ->
  let '(ev, o, sf) := run_from c s is in forall e, o <> Failed_with e.
Proof.
  intros HA. induction is as [|i rest IH]; intros s HI Hc Hb; cbn [run_from].
  - destruct (finished s (max_rounds c)); intros e; discriminate.
  - destruct (finished s (max_rounds c)); [intros e; discriminate|].
    inversion Hb as [|? ? Hi Hrest]; subst. destruct (benign_no_fatal c i Hi) as [Hnf Hni].
    destruct (step_ok c s i HA HI) as (s' & ev & e & Hs & HI'). rewrite Hs.
    pose proof (step_one_per_ttl c s i s' ev e HA HI Hc Hni Hs) as Hc'.
    destruct e as [e|].
    + exfalso. destruct (step_error_cases c s i s' ev e Hs) as [H1|(s1 & _ & _ & Hr)].
      * destruct (send_request_error c s i s' ev e H1) as [X|[X|(_ & _ & [X|X])]].
        -- destruct Hi as [_ Hf]. rewrite Forall_forall in Hf. destruct (Hf _ X); discriminate.
        -- destruct X as (_ & _ & X). apply hd_send_in in X; [|discriminate]. contradiction.
        -- unfold one_per_ttl in Hc. pose proof (inv_ttl c s HI). pose proof (accept_facts c HA). lia.
        -- contradiction.
      * destruct Hi as [Hf _]. apply (Hf e Hr).
    + specialize (IH s' HI' Hc' Hrest). destruct (run_from c s' rest) as [[evs o] sf]. exact IH.
Qed.

(* ================= the trace cut into rounds ================= *)

Lemma segs_sends_app acc ev rest : length (ev_probes ev) = length ev ->
  segs acc (ev ++ rest) = segs (acc ++ sends_of ev) rest.
Proof.
  revert acc. induction ev as [|[p o|r] ev IH]; intros acc H; cbn [app segs sends_of flat_map].
  - rewrite app_nil_r. reflexivity.
  - cbn [ev_probes length] in H. fold (sends_of ev). rewrite IH by lia. rewrite <- app_assoc. reflexivity.
  - cbn [ev_probes length] in H. pose proof (ev_probes_le ev). lia.
Qed.

Lemma segs_sends_only acc ev : length (ev_probes ev) = length ev -> segs acc ev = [].
Proof. intros H. rewrite <- (app_nil_r ev). rewrite segs_sends_app by assumption. reflexivity. Qed.

(* ---- shape of the sends of one iteration: address-in-use for all but the last; the last one went through
        (or failed transiently) when the iteration has no error ---- *)
Fixpoint iter_sends (l : list (probe * send_outcome)) (ok : bool) : Prop :=
  match l with
  | [] => False
  | [(p, o)] => ok = true -> o = Sent \/ o = ProbeFailedO
  | (p, o) :: t => o = AddressInUseO /\ iter_sends t ok
  end.

Lemma tcp_loop_shape c : forall sends s p clk last s' ev e,
  tcp_reissue_loop c s p sends clk last = Ok (s', ev, e) ->
  iter_sends (sends_of ev) (match e with None => true | Some _ => false end).
Proof.
  induction sends as [|o rest IH]; intros s p clk last s' ev e H; cbn [tcp_reissue_loop] in H.
  - inversion H; subst. cbn. intros _. left; reflexivity.
  - destruct o as [| | |e0]; cbn [do_send bind] in H.
    + inversion H; subst. cbn. intros _. left; reflexivity.
    + destruct (fail_probe s); cbn [bind] in H; inversion H; subst. cbn. intros _. right; reflexivity.
    + destruct (round_has_capacity s) as [cap|?|?]; cbn [bind] in H; try discriminate.
      destruct cap.
      * destruct (reissue_probe c s (hd_clock clk last)) as [[p' s'']|?|?]; cbn [bind] in H; try discriminate.
        destruct (tcp_reissue_loop c s'' p' rest (tl clk) (hd_clock clk last)) as [[[s3 ev3] e3]|?|?] eqn:Hr;
          cbn [bind] in H; try discriminate.
        inversion H; subst. specialize (IH _ _ _ _ _ _ _ Hr).
        cbn [sends_of flat_map app]. fold (sends_of ev3).
        destruct (sends_of ev3) as [|x t] eqn:E; [destruct IH|]. cbn [iter_sends]. split; [reflexivity|exact IH].
      * inversion H; subst. cbn. discriminate.
    + inversion H; subst. cbn. discriminate.
Qed.

Lemma send_request_shape c s i s1 ev e : send_request c s i = Ok (s1, ev, e) ->
  ev = [] \/ iter_sends (sends_of ev) (match e with None => true | Some _ => false end).
Proof.
  intros H. unfold send_request in H.
  destruct (can_send c s) as [b|?|?]; cbn [bind] in H; try discriminate.
  destruct b; cbn [negb] in H; [|inversion H; left; reflexivity].
  assert (Hnt : (let* (p, s1) := next_probe c s (hd_clock (i_clock i) (round_start s)) in
      let o := hd_send (i_sends i) in
      let* r := do_send s1 o in
      match r with
      | SDone s2 => Ok (s2, [ESend p o], None)
      | SInUse s2 => Ok (s2, [ESend p o], Some EAddressInUse)
      | SErr e => Ok (s1, [ESend p o], Some e)
      end) = Ok (s1, ev, e) -> iter_sends (sends_of ev) (match e with None => true | Some _ => false end)).
  { intros H'. destruct (next_probe c s _) as [[p sa]|?|?]; cbn [bind] in H'; try discriminate.
    destruct (hd_send (i_sends i)) as [| | |e0] eqn:Eo; cbn [do_send bind] in H'.
    - inversion H'; subst. cbn. intros _. left; reflexivity.
    - destruct (fail_probe sa); cbn [bind] in H'; inversion H'; subst. cbn. intros _. right; reflexivity.
    - inversion H'; subst. cbn. discriminate.
    - inversion H'; subst. cbn. discriminate. }
  destruct (proto c); [right; auto|right; auto|]. clear Hnt.
  destruct (round_has_capacity s) as [cap|?|?]; cbn [bind] in H; try discriminate.
  destruct cap; cbn [negb] in H; [|inversion H; left; reflexivity].
  destruct (next_probe c s _) as [[p sa]|?|?]; cbn [bind] in H; try discriminate.
  destruct (i_sends i) as [|o rest] eqn:Es.
  - inversion H; subst. right. cbn. intros _. left; reflexivity.
  - right. eapply tcp_loop_shape; eassumption.
Qed.

(* ---- the ttl chain of the sends of a round: a re-issue keeps the ttl, any other send is followed by ttl + 1 ---- *)
Fixpoint chain (t : Z) (S : list (probe * send_outcome)) : option Z :=
  match S with
  | [] => Some t
  | (p, o) :: r =>
    if p_ttl p =? t then chain (match o with AddressInUseO => t | _ => t + 1 end) r else None
  end.

Lemma chain_app t S1 S2 : chain t (S1 ++ S2) = match chain t S1 with Some t' => chain t' S2 | None => None end.
Proof.
  revert t. induction S1 as [|[p o] S1 IH]; intros t; cbn [app chain]; [reflexivity|].
  destruct (p_ttl p =? t); [apply IH|reflexivity].
Qed.

Lemma chain_iter t l : iter_sends l true -> Forall (fun po => p_ttl (fst po) = t) l -> chain t l = Some (t + 1).
Proof.
  induction l as [|[p o] l IH]; intros Hs Hf; [destruct Hs|].
  pose proof (Forall_inv Hf) as Hp. pose proof (Forall_inv_tail Hf) as Hf'. cbn [fst] in Hp. cbn [chain]. rewrite Hp, Z.eqb_refl.
  destruct l as [|x l'].
  - cbn [iter_sends] in Hs. destruct (Hs eq_refl) as [->| ->]; reflexivity.
  - cbn [iter_sends] in Hs. destruct Hs as [-> Hs]. apply IH; assumption.
Qed.

Lemma chain_nth : forall S t t' k p o p' o', chain t S = Some t' ->
  nth_error S k = Some (p, o) -> nth_error S (Datatypes.S k) = Some (p', o') ->
  p_ttl p' = match o with AddressInUseO => p_ttl p | _ => p_ttl p + 1 end.
Proof.
  induction S as [|[q oq] S IH]; intros t t' k p o p' o' Hc Hk Hk'; [destruct k; discriminate|].
  cbn [chain] in Hc. destruct (p_ttl q =? t) eqn:E; [|discriminate].
  destruct k as [|k].
  - cbn in Hk. inversion Hk; subst q oq. cbn in Hk'. destruct S as [|[q2 o2] S2]; [discriminate|].
    cbn in Hk'. inversion Hk'; subst q2 o2. cbn [chain] in Hc.
    destruct (p_ttl p' =? _) eqn:E2; [|discriminate]. destruct o; lia.
  - cbn in Hk, Hk'. eapply IH; eassumption.
Qed.

(* the part of the ghost invariant that RoundHistory.HInv does not carry: ttls, round ids, outcomes *)
Record TInv (c : scfg) (s : tstate) (S : list (probe * send_outcome)) : Prop := {
  ti_chain : chain (first_ttl c) S = Some (ttl s);
  ti_round : Forall (fun po => p_round (fst po) = round s) S;
  ti_out : Forall (fun po => snd po = Sent \/ snd po = ProbeFailedO \/ (snd po = AddressInUseO /\ proto c = Tcp)) S;
}.

Lemma iter_sends_outcomes c l : iter_sends l true -> (proto c <> Tcp -> length l = 1%nat) ->
  Forall (fun po => snd po = Sent \/ snd po = ProbeFailedO \/ (snd po = AddressInUseO /\ proto c = Tcp)) l.
Proof.
  induction l as [|[p o] l IH]; intros Hs Hone; [constructor|].
  destruct l as [|x l'].
  - cbn [iter_sends] in Hs. constructor; [|constructor]. cbn [snd]. destruct (Hs eq_refl); auto.
  - cbn [iter_sends] in Hs. destruct Hs as [-> Hs].
    assert (Hp : proto c = Tcp). { destruct (proto c); try reflexivity; specialize (Hone ltac:(discriminate)); discriminate. }
    constructor; [cbn [snd]; auto|]. apply IH; [assumption|]. intros Hn. contradiction.
Qed.

Lemma sends_of_probes ev : map fst (sends_of ev) = ev_probes ev.
Proof. induction ev as [|[p o|r] ev IH]; cbn; [reflexivity|f_equal; exact IH|exact IH]. Qed.

Lemma sends_of_length ev : length (sends_of ev) = length (ev_probes ev).
Proof. rewrite <- sends_of_probes, map_length. reflexivity. Qed.

Lemma forall_fst {A B} (P : A -> Prop) (l : list (A * B)) : Forall P (map fst l) -> Forall (fun x => P (fst x)) l.
Proof. induction l as [|x l IH]; cbn; intros H; [constructor|]. inversion H; subst. constructor; auto. Qed.

Lemma tinv_send c s i s1 ev S : Accept c -> Inv c s -> TInv c s S ->
  send_request c s i = Ok (s1, ev, None) -> TInv c s1 (S ++ sends_of ev).
Proof.
  intros HA HI [Hc Hr Ho] H.
  destruct (send_request_ok c s i HA HI) as (s1' & ev' & e' & H' & _ & Hsb & Hsh).
  rewrite H in H'. inversion H'; subst s1' ev' e'. clear H'.
  destruct Hsh as [[-> ->]|Hsh].
  { cbn [sends_of flat_map]. rewrite app_nil_r. constructor; assumption. }
  destruct (send_request_shape c s i s1 ev None H) as [->|Hshape].
  { destruct Hsh as [X _]. exfalso. apply X. reflexivity. }
  destruct Hsh as (_ & Hlen & _ & _ & _ & Httl & _ & _ & Hall & Hone).
  destruct Hsb as (Hrd & _).
  assert (Hall' : Forall (fun po => p_ttl (fst po) = ttl s /\ p_round (fst po) = round s) (sends_of ev)).
  { apply (forall_fst (fun q => p_ttl q = ttl s /\ p_round q = round s)). rewrite sends_of_probes. assumption. }
  constructor.
  - rewrite chain_app, Hc, Httl. apply chain_iter; [assumption|].
    eapply Forall_impl; [|exact Hall']. cbn. intros po [X _]. exact X.
  - apply Forall_app. split.
    + eapply Forall_impl; [|exact Hr]. cbn. intros po X. congruence.
    + eapply Forall_impl; [|exact Hall']. cbn. intros po [_ X]. congruence.
  - apply Forall_app. split; [assumption|]. apply iter_sends_outcomes; [assumption|].
    intros Hp. rewrite sends_of_length, Hlen. apply Hone. assumption.
Qed.

(* ---- what the published round says, from the invariants ---- *)
Lemma round_semantics_of c s S A r : Inv c s -> HInv c s S A -> settled S -> TInv c s S ->
  rr_probes r = firstn (Z.to_nat (sequence s - round_sequence s)) (buffer s) ->
  round_semantics c (round s) S r.
Proof.
  intros HI HH Hset [Hc Hr Ho] Hp.
  rewrite (published_probes_match c s S A HI HH Hset) in Hp.
  destruct HH as [Hl Hs Hsl Ha Hn].
  split; [rewrite Hp, map_length; reflexivity|].
  intros i p o Hi.
  assert (Hst : nth_error (rr_probes r) i = Some (status_of A (p, o))) by (rewrite Hp, nth_error_map, Hi; reflexivity).
  rewrite Forall_forall in Hr, Ho.
  pose proof (Hr _ (nth_error_In _ _ Hi)) as Hrd. cbn [fst] in Hrd.
  pose proof (Ho _ (nth_error_In _ _ Hi)) as Hout. cbn [snd] in Hout.
  split; [assumption|]. split; [intros e ->; destruct Hout as [X|[X|[X _]]]; discriminate|].
  split.
  - destruct o as [| | |e0].
    + cbn [status_of] in Hst. destruct (find_accept A (p_sequence p)) as [sr|]; [right; eexists; split; [exact Hst|reflexivity]|left; exact Hst].
    + exact Hst.
    + destruct Hout as [X|[X|[_ Hp']]]; try discriminate. split; [assumption|]. split; [exact Hst|].
      specialize (Hset i p Hi).
      destruct (nth_error S (Datatypes.S i)) as [[p' o']|] eqn:En; [|congruence].
      exists p', o'. split; [reflexivity|].
      pose proof (Hs i _ Hi) as H1. pose proof (Hs _ _ En) as H2. cbn [fst] in H1, H2.
      pose proof (chain_nth S _ _ i p AddressInUseO p' o' Hc Hi En) as H3. cbn in H3.
      pose proof (Hr _ (nth_error_In _ _ En)) as H4. cbn [fst] in H4.
      repeat split; [lia|assumption|congruence].
    + destruct Hout as [X|[X|[X _]]]; discriminate.
  - intros Hne p' o' En.
    pose proof (Hs i _ Hi) as H1. pose proof (Hs _ _ En) as H2. cbn [fst] in H1, H2.
    pose proof (chain_nth S _ _ i p o p' o' Hc Hi En) as H3.
    split; [lia|]. destruct o; try assumption. congruence.
Qed.

(* ---- the whole run ---- *)
Lemma hinv_empty c s : sequence s = round_sequence s -> HInv c s [] [].
Proof.
  intros H. constructor; cbn [length nth_error map]; try lia; try (intros [|?] ? Hx; discriminate); try (intros ? ? []). constructor.
Qed.

Lemma settled_nil : settled [].
Proof. intros j q Hj. destruct j; discriminate. Qed.

Lemma run_segs_lemma c : Accept c -> forall is s S A, Inv c s -> HInv c s S A -> settled S -> TInv c s S ->
  let '(ev, o, sf) := run_from c s is in
  forall j Sj r, nth_error (segs S ev) j = Some (Sj, r) -> round_semantics c (round s + Z.of_nat j) Sj r.
Proof.
  intros HA. induction is as [|i rest IH]; intros s S A HI HH Hset HT; cbn [run_from].
  - destruct (finished s (max_rounds c)); cbn [segs]; intros [|j] Sj r Hj; discriminate.
  - destruct (finished s (max_rounds c)); [cbn [segs]; intros [|j] Sj r Hj; discriminate|].
    destruct (step_decompose c s i HA HI) as (s1 & ev1 & e1 & H1 & HI1 & Hsb & Hsh & Hrest).
    assert (Hlen1 : length (ev_probes ev1) = length ev1).
    { destruct Hsh as [[-> _]|Hsh]; [reflexivity|]. destruct Hsh as (_ & Hlen & _). assumption. }
    destruct e1 as [e1|].
    { rewrite Hrest. rewrite segs_sends_only by assumption. intros [|j] Sj r Hj; discriminate. }
    destruct Hrest as (s2 & e2 & H2 & HI2 & Hrest).
    destruct e2 as [e2|].
    { rewrite Hrest. rewrite segs_sends_only by assumption. intros [|j] Sj r Hj; discriminate. }
    destruct Hrest as (s3 & ev3 & H3 & HI3 & Hst). rewrite Hst.
    destruct (hinv_send_any c s i s1 ev1 None S A HA HI HH Hset H1) as [HH1 Hset1]. specialize (Hset1 eq_refl).
    pose proof (tinv_send c s i s1 ev1 S HA HI HT H1) as HT1.
    pose proof (hinv_recv_ghost c s1 i s2 None _ A HA HI1 HH1 Hset1 H2) as HH2.
    destruct (recv_response_ok c s1 i HA HI1) as (s2' & e2' & H2' & _ & _ & _ & Ht2 & Hrd2 & _).
    rewrite H2 in H2'. inversion H2'; subst s2' e2'. clear H2'.
    assert (HT2 : TInv c s2 (S ++ sends_of ev1)).
    { destruct HT1 as [X Y Z]. constructor; [rewrite Ht2; assumption|rewrite Hrd2; assumption|assumption]. }
    destruct Hsb as (Hrd1 & _).
    destruct (update_round_ok c s2 i HA HI2) as (s3' & ev3' & H3' & _ & Hcase). rewrite H3 in H3'. inversion H3'; subst s3' ev3'. clear H3'.
    destruct Hcase as [(Hnp & -> & ->)|(Hpub & r & Hr & -> & Ha & Hrd3 & _)].
    + specialize (IH s2 _ _ HI2 HH2 Hset1 HT2).
      destruct (run_from c s2 rest) as [[evs o] sf]. rewrite app_nil_r, segs_sends_app by assumption.
      intros j Sj r Hj. replace (round s) with (round s2) by congruence. apply IH. assumption.
    + destruct (advance_round_spec c s2 (i_advance i) HA HI2) as (sx & Hax & _ & _ & _ & Htx & Hqx & _).
      rewrite Ha in Hax. inversion Hax; subst sx. clear Hax.
      assert (HT3 : TInv c s3 []).
      { constructor; [cbn [chain]; congruence|constructor|constructor]. }
      specialize (IH s3 [] [] HI3 (hinv_empty c s3 Hqx) settled_nil HT3).
      destruct (run_from c s3 rest) as [[evs o] sf].
      rewrite <- app_assoc, segs_sends_app by assumption. cbn [app segs].
      intros [|j] Sj r0 Hj.
      * cbn in Hj. inversion Hj; subst Sj r0. rewrite Z.add_0_r. replace (round s) with (round s2) by congruence.
        destruct (publish_trace_ok c s2 HA HI2) as (r' & Hr' & Hprobes & _). rewrite Hr in Hr'. inversion Hr'; subst r'.
        eapply round_semantics_of; eassumption.
      * cbn in Hj. replace (round s + Z.of_nat (Datatypes.S j)) with (round s3 + Z.of_nat j) by lia. apply IH. assumption.
Qed.

(* the trace cut into rounds has exactly the published rounds, in order *)
Lemma segs_pubs : forall ev acc, map snd (segs acc ev) = pubs ev.
Proof. induction ev as [|[p o|r] ev IH]; intros acc; cbn [segs pubs map snd]; [reflexivity|apply IH|f_equal; apply IH]. Qed.

(* ---- converse reading of a published round ---- *)
Lemma round_semantics_converse c k S r : round_semantics c k S r ->
  forall i, (nth_error (rr_probes r) i = Some Skipped -> exists p, nth_error S i = Some (p, AddressInUseO)) /\
            (forall p, nth_error (rr_probes r) i = Some (Failed p) -> nth_error S i = Some (p, ProbeFailedO)).
Proof.
  intros [Hl H] i.
  destruct (nth_error S i) as [[p o]|] eqn:E.
  - destruct (H i p o E) as (_ & _ & Hm & _). split.
    + intros Hs. destruct o; try (exists p; reflexivity).
      * destruct Hm as [X|(cc & X & _)]; congruence.
      * congruence.
      * destruct Hm as [X|(cc & X & _)]; congruence.
    + intros q Hf. destruct o.
      * destruct Hm as [X|(cc & X & _)]; congruence.
      * congruence.
      * destruct Hm as (_ & X & _). congruence.
      * destruct Hm as [X|(cc & X & _)]; congruence.
  - apply nth_error_None in E. rewrite <- Hl in E. apply nth_error_None in E. split; [congruence|intros; congruence].
Qed.

(* ================= assembled statements over [run] ================= *)

Lemma tinv_new c t0 : TInv c (ts_new c t0) [].
Proof. constructor; [reflexivity|constructor|constructor]. Qed.

Lemma run_round_semantics c t0 is : Accept c ->
  let '(ev, o, sf) := run c t0 is in
  map snd (segs [] ev) = pubs ev /\
  forall j Sj r, nth_error (segs [] ev) j = Some (Sj, r) -> round_semantics c (Z.of_nat j) Sj r.
Proof.
  intros HA. unfold run.
  pose proof (run_segs_lemma c HA is (ts_new c t0) [] [] (inv_new c t0 HA) (hinv_new c t0) settled_nil (tinv_new c t0)) as H.
  destruct (run_from c (ts_new c t0) is) as [[ev o] sf]. split; [apply segs_pubs|].
  intros j Sj r Hj. specialize (H j Sj r Hj). cbn [ts_new round] in H. rewrite Z.add_0_l in H. exact H.
Qed.

Lemma run_exactly_n c t0 is n : Accept c -> max_rounds c = Some n -> Forall (no_fatal c) is ->
  n <= Z.of_nat (count_expired c t0 is) ->
  let '(ev, o, sf) := run c t0 is in
  (o = Finished /\ Z.of_nat (length (pubs ev)) = n /\
   forall j r, nth_error (pubs ev) j = Some r -> round_probes_ok (Z.of_nat j) r) \/
  (proto c = Tcp /\ o = Failed_with EInsufficientCapacity).
Proof.
  intros HA Hn Hnf Hcnt. unfold run.
  assert (Hn1 : 1 <= n).
  { destruct HA as [_ Hw]. unfold cfg_wf in Hw. destruct Hw as (_ & _ & _ & _ & _ & _ & _ & _ & _ & Hmr). rewrite Hn in Hmr. exact Hmr. }
  pose proof (run_terminates_from c n HA Hn is (ts_new c t0) t0 (inv_new c t0 HA)) as HT.
  cbn [ts_new round round_start] in HT. specialize (HT ltac:(lia) ltac:(lia) ltac:(lia) Hnf).
  pose proof (run_rounds_lemma c HA is (ts_new c t0) (inv_new c t0 HA)) as HR.
  destruct (run_from c (ts_new c t0) is) as [[ev o] sf].
  destruct HT as [->|HT]; [left|right; exact HT].
  destruct HR as (H1 & H2 & H3 & _). cbn [ts_new round] in H1, H2, H3.
  split; [reflexivity|]. split.
  - destruct (H3 n Hn ltac:(lia)) as [_ Hb]. specialize (Hb eq_refl). lia.
  - intros j r Hj. specialize (H2 j r Hj). rewrite Z.add_0_l in H2. exact H2.
Qed.

Lemma one_per_ttl_new c t0 : one_per_ttl c (ts_new c t0).
Proof. unfold one_per_ttl. cbn [ts_new sequence round_sequence ttl]. lia. Qed.

Lemma run_exactly_n_benign c t0 is n : Accept c -> max_rounds c = Some n -> Forall benign is ->
  n <= Z.of_nat (count_expired c t0 is) ->
  let '(ev, o, sf) := run c t0 is in
  o = Finished /\ Z.of_nat (length (pubs ev)) = n /\
  forall j r, nth_error (pubs ev) j = Some r -> round_probes_ok (Z.of_nat j) r.
Proof.
  intros HA Hn Hb Hcnt.
  assert (Hnf : Forall (no_fatal c) is).
  { eapply Forall_impl; [|exact Hb]. intros i Hi. apply (benign_no_fatal c i Hi). }
  pose proof (run_exactly_n c t0 is n HA Hn Hnf Hcnt) as H.
  pose proof (run_benign_no_error c HA is (ts_new c t0) (inv_new c t0 HA) (one_per_ttl_new c t0) Hb) as HE.
  unfold run in *. destruct (run_from c (ts_new c t0) is) as [[ev o] sf].
  destruct H as [H|[_ ->]]; [exact H|]. exfalso. apply (HE EInsufficientCapacity). reflexivity.
Qed.

(* a run whose environment injects nothing fatal can only fail with the TCP capacity error *)
Lemma run_no_fatal_error c t0 is ev e sf : Accept c -> Forall (no_fatal c) is ->
  run c t0 is = (ev, Failed_with e, sf) -> e = EInsufficientCapacity /\ proto c = Tcp.
Proof.
  intros HA Hnf H.
  destruct (run_failed_injected c t0 is ev e sf HA H) as (pre & i & post & _ & _ & _ & -> & _ & _ & _ & Hinj & _).
  rewrite Forall_forall in Hnf. apply (no_fatal_error c i e); [|assumption]. apply Hnf. apply in_or_app. right; left; reflexivity.
Qed.

(* ---- a transient failure of the first send of an iteration, at state level: exactly the slot of that probe becomes
        Failed, everything else is as after a successful send, and the iteration goes on to the receive phase ---- *)
Lemma transient_send c s i rest : Accept c -> Inv c s -> can_send c s = Ok true ->
  sequence s - round_sequence s < 512 -> i_sends i = ProbeFailedO :: rest ->
  exists d p s2, probe_data c s = Ok d /\ p = mk_probe s d (ttl s) (hd_clock (i_clock i) (round_start s)) /\
    send_request c s i = Ok (s2, [ESend p ProbeFailedO], None) /\ Inv c s2 /\
    buffer s2 = upd (Z.to_nat (sequence s - round_sequence s)) (Failed p) (buffer s) /\
    sequence s2 = sequence s + 1 /\ ttl s2 = ttl s + 1 /\ same_book s s2.
Proof.
  intros HA HI Hcs Hcap Hs.
  destruct (can_send_ok c s HA HI) as (b & Hcs' & Hb). rewrite Hcs in Hcs'. inversion Hcs'; subst b.
  destruct (Hb eq_refl) as (_ & Hmax & _). pose proof (accept_facts c HA) as F.
  set (sent := hd_clock (i_clock i) (round_start s)).
  destruct (next_probe_spec c s sent HA HI Hcap ltac:(lia)) as (d & bf & Hd & Hbf & Hnp).
  set (p := mk_probe s d (ttl s) sent) in *.
  destruct (next_probe_inv c s sent _ _ HA HI Hcap ltac:(lia) ltac:(auto) Hnp) as (HI1 & _).
  match type of Hnp with _ = Ok (_, ?x) => set (s1 := x) in * end.
  pose proof (inv_seq c s HI) as Hseq. pose proof (inv_len c s HI) as Hlen.
  assert (Hn2 : nth_error (buffer s1) (Z.to_nat (sequence s1 - round_sequence s1 - 1)) = Some (Awaited p)).
  { unfold s1. cbn [buffer sequence round_sequence]. replace (sequence s + 1 - round_sequence s - 1) with (sequence s - round_sequence s) by lia.
    rewrite Hbf. apply nth_error_upd_eq. lia. }
  destruct (fail_probe_spec c s1 p HI1 ltac:(unfold s1; cbn [sequence round_sequence]; lia) Hn2) as [Hf HIf].
  exists d, p. eexists. split; [assumption|]. split; [reflexivity|].
  split.
  { unfold send_request. rewrite Hcs. cbn [bind negb]. fold sent.
    destruct (proto c) eqn:Ep.
    - rewrite Hnp, Hs. cbn [bind hd_send do_send]. fold s1. rewrite Hf. cbn [bind]. reflexivity.
    - rewrite Hnp, Hs. cbn [bind hd_send do_send]. fold s1. rewrite Hf. cbn [bind]. reflexivity.
    - unfold round_has_capacity, sub16, sub_w, BUFFER_SIZE.
      destruct (round_sequence s <=? sequence s) eqn:E1; [|lia]. cbn [bind].
      destruct (sequence s - round_sequence s <? 512) eqn:E2; [|lia]. cbn [negb].
      rewrite Hnp, Hs. cbn [bind tcp_reissue_loop do_send]. fold s1. rewrite Hf. cbn [bind]. reflexivity. }
  split; [exact HIf|].
  unfold s1. cbn [with_buffer buffer sequence round_sequence ttl].
  split.
  { replace (sequence s + 1 - round_sequence s - 1) with (sequence s - round_sequence s) by lia. rewrite Hbf. apply upd_upd. }
  split; [reflexivity|]. split; [reflexivity|]. unfold same_book. cbn. repeat split; reflexivity.
Qed.

Lemma run_error_ends_full c t0 pre i post ev0 s0 s' ev1 e : Accept c ->
  run c t0 pre = (ev0, Running, s0) -> step c s0 i = Ok (s', ev1, Some e) ->
  run c t0 (pre ++ i :: post) = (ev0 ++ ev1, Failed_with e, s') /\ pubs ev1 = [] /\ injected c i e.
Proof.
  intros HA Hpre Hs. split; [eapply run_error_ends; eassumption|].
  pose proof (run_from_inv c HA pre _ (inv_new c t0 HA)) as HI0. unfold run in Hpre. rewrite Hpre in HI0. destruct HI0 as [HI0 _].
  split; [eapply step_error_no_publish; eassumption|eapply step_error_injected; eassumption].
Qed.

Lemma run_benign_never_fails c t0 is : Accept c -> Forall benign is ->
  let '(ev, o, sf) := run c t0 is in forall e, o <> Failed_with e.
Proof.
  intros HA Hb. unfold run. exact (run_benign_no_error c HA is (ts_new c t0) (inv_new c t0 HA) (one_per_ttl_new c t0) Hb).
Qed.

(* a finished run is final: whatever the environment offers afterwards, nothing more happens *)
Lemma run_from_finished_final c : forall is s ev sf more, run_from c s is = (ev, Finished, sf) ->
  run_from c s (is ++ more) = (ev, Finished, sf).
Proof.
  induction is as [|i rest IH]; intros s ev sf more H; cbn [run_from app] in *.
  - destruct (finished s (max_rounds c)) eqn:Ef; [|inversion H].
    destruct more; cbn [run_from]; rewrite Ef; exact H.
  - destruct (finished s (max_rounds c)) eqn:Ef; [exact H|].
    destruct (step c s i) as [[[s' ev1] e]|?|?]; try (inversion H; fail).
    destruct e as [e|]; [inversion H|].
    destruct (run_from c s' rest) as [[evs o] sf'] eqn:Hr. inversion H; subst.
    rewrite (IH s' evs sf more Hr). reflexivity.
Qed.

Lemma run_finished_final c t0 is more ev sf : run c t0 is = (ev, Finished, sf) ->
  run c t0 (is ++ more) = (ev, Finished, sf) /\ finished sf (max_rounds c) = true.
Proof.
  unfold run. intros H. split; [apply run_from_finished_final; exact H|].
  revert ev H. generalize (ts_new c t0). induction is as [|i rest IH]; intros s ev H; cbn [run_from] in H.
  - destruct (finished s (max_rounds c)) eqn:Ef; inversion H; subst. exact Ef.
  - destruct (finished s (max_rounds c)) eqn:Ef; [inversion H; subst; exact Ef|].
    destruct (step c s i) as [[[s' ev1] e]|?|?]; try (inversion H; fail).
    destruct e as [e|]; [inversion H|].
    destruct (run_from c s' rest) as [[evs o] sf'] eqn:Hr. inversion H; subst. eapply IH. exact Hr.
Qed.
