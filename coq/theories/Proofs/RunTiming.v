(* C08 over WHOLE RUNS, second part: the timing policy as a decision FUNCTION of the quantities the property
   names (round start, target answered, last response, clock reading), exactness in one statement, the lower
   bound (never before min), clocks set back, the round counter, bounded traces (max_rounds), the arm of the
   policy a published reason stands for, zero durations.  Everything is about every position of the
   observation log of every run (Proofs/RunLog.v): any number of iterations, any send / receive outcomes,
   any sequence of clock readings. *)
From TV Require Import Base.Result Core.Types Core.TracerState Core.Strategy Core.Builder
  Proofs.ListLemmas Proofs.StrategyInv Proofs.StrategyProps Proofs.RoundHistory Proofs.RunLog Proofs.RunLogProps
  Proofs.RunSemantics.
From Coq Require Import ZifyBool.

(* ------------------------------------------------------------------ the specification *)
(* the policy as a function of: the instant the round started, whether the target answered in it, the receive
   time of the latest genuine answer, and the clock reading *)
Definition policy_b (c : scfg) (start : Z) (fnd : bool) (last : option Z) (now : Z) : bool :=
  let dur := Z.max 0 (now - start) in
  (max_round_duration c <? dur) ||
  ((min_round_duration c <? dur) && fnd &&
   match last with Some t => grace_duration c <? Z.max 0 (now - t) | None => false end).

(* the reason the policy gives *)
Definition reason_b (fnd : bool) : reason := if fnd then TargetFound else RoundTimeLimitExceeded.

(* the clock reading of update_round carried by an observation, and whether it published *)
Definition reading (o : obs) : option Z :=
  match o with OUpdate now => Some now | OPublish _ now _ => Some now | _ => None end.
Definition is_pub (o : obs) : bool := match o with OPublish _ _ _ => true | _ => false end.

Definition npub (l : list obs) : nat := length (filter is_pub l).

(* the start of the round in progress, read off the log: the advance_round reading of the last publication *)
Definition last_start (t0 : Z) (l : list obs) : Z :=
  fold_left (fun st o => match o with OPublish _ _ adv => adv | _ => st end) l t0.

Lemma policy_b_iff c g now :
  policy_b c (g_start g) (found (g_A g)) (last_recv (g_A g)) now = true <-> policy_g c g now.
Proof.
  unfold policy_b, policy_g. cbv zeta. split.
  - intros H. apply orb_true_iff in H. destruct H as [H|H]; [left; lia|].
    apply andb_true_iff in H. destruct H as [H Hg]. apply andb_true_iff in H. destruct H as [Hm Hf].
    right. split; [lia|]. split; [assumption|].
    destruct (last_recv (g_A g)) as [t|]; [|discriminate]. exists t. split; [reflexivity|lia].
  - intros [H|(Hm & Hf & t & Ht & Hg)]; apply orb_true_iff; [left; lia|].
    right. rewrite Hf, Ht. apply andb_true_iff. split; [apply andb_true_iff; split; [lia|reflexivity]|lia].
Qed.

Lemma accept_durations c : Accept c ->
  0 <= grace_duration c /\ 0 <= min_round_duration c /\ 0 <= max_round_duration c.
Proof. intros [_ Hw]. unfold cfg_wf in Hw. tauto. Qed.

(* ------------------------------------------------------------------ (a) exactness, one statement *)
Lemma c08_run_exact_lemma c t0 is l1 o l2 now : Accept c ->
  run_log c t0 is = l1 ++ o :: l2 -> reading o = Some now ->
  let g := ghost_after c t0 l1 in
  is_pub o = policy_b c (g_start g) (found (g_A g)) (last_recv (g_A g)) now.
Proof.
  intros HA E Hr g. pose proof (run_log_at c t0 is l1 o l2 HA E) as Hok. fold g in Hok.
  destruct o as [p x|r|u|r u adv]; cbn [reading] in Hr; try discriminate; inversion Hr; subst u;
    cbn [obs_ok is_pub] in *.
  - destruct Hok as [Hnp _].
    destruct (policy_b c (g_start g) (found (g_A g)) (last_recv (g_A g)) now) eqn:Eb; [|reflexivity].
    exfalso. apply Hnp. apply policy_b_iff. assumption.
  - destruct Hok as [Hp _]. symmetry. apply policy_b_iff. assumption.
Qed.

(* the published reason is the one the policy gives *)
Lemma c08_run_reason_lemma c t0 is l1 r now adv l2 : Accept c ->
  run_log c t0 is = l1 ++ OPublish r now adv :: l2 ->
  rr_reason r = reason_b (found (g_A (ghost_after c t0 l1))).
Proof.
  intros HA E. pose proof (run_log_at c t0 is l1 _ l2 HA E) as Hok. cbn [obs_ok] in Hok.
  destruct Hok as (_ & _ & Hr & _). exact Hr.
Qed.

(* ------------------------------------------------------------------ (b) never before min *)
Lemma c08_never_before_min_lemma c t0 is l1 r now adv l2 : Accept c ->
  min_round_duration c <= max_round_duration c ->
  run_log c t0 is = l1 ++ OPublish r now adv :: l2 ->
  min_round_duration c < now - g_start (ghost_after c t0 l1).
Proof.
  intros HA Hmm E. pose proof (accept_durations c HA) as (Hg & Hmin & Hmax).
  destruct (c08_run_publish_lemma c t0 is l1 r now adv l2 HA E) as [Hp _].
  unfold policy_g in Hp. cbv zeta in Hp. destruct Hp as [H|(H & _)]; lia.
Qed.

(* contrapositive, for any reading (set back or not): a reading at most min after the round start leaves it open *)
Lemma c08_within_min_stays_open_lemma c t0 is l1 o l2 now : Accept c ->
  min_round_duration c <= max_round_duration c ->
  run_log c t0 is = l1 ++ o :: l2 -> reading o = Some now ->
  now - g_start (ghost_after c t0 l1) <= min_round_duration c -> o = OUpdate now.
Proof.
  intros HA Hmm E Hr Hle.
  destruct o as [p x|r|u|r u adv]; cbn [reading] in Hr; try discriminate; inversion Hr; subst u; [reflexivity|].
  pose proof (c08_never_before_min_lemma c t0 is l1 r now adv l2 HA Hmm E). lia.
Qed.

(* ------------------------------------------------------------------ (c) a clock set back *)
(* whatever min and max are: a reading at or before the round start never publishes *)
Lemma c08_clock_set_back_lemma c t0 is l1 o l2 now : Accept c ->
  run_log c t0 is = l1 ++ o :: l2 -> reading o = Some now ->
  now <= g_start (ghost_after c t0 l1) -> o = OUpdate now.
Proof.
  intros HA E Hr Hle. pose proof (accept_durations c HA) as (Hg & Hmin & Hmax).
  destruct o as [p x|r|u|r u adv]; cbn [reading] in Hr; try discriminate; inversion Hr; subst u; [reflexivity|].
  destruct (c08_run_publish_lemma c t0 is l1 r now adv l2 HA E) as [Hp _].
  unfold policy_g in Hp. cbv zeta in Hp. destruct Hp as [H|(H & _)]; lia.
Qed.

Lemma no_publish_app_l (a b : list obs) : no_publish (a ++ b) -> no_publish a.
Proof. intros H r n ad Hin. apply (H r n ad). apply in_or_app. left; assumption. Qed.

Lemma no_publish_app_r (a b : list obs) : no_publish (a ++ b) -> no_publish b.
Proof. intros H r n ad Hin. apply (H r n ad). apply in_or_app. right; assumption. Qed.

(* the round ends at the FIRST reading that satisfies the policy: every earlier reading of the same round (set
   back, repeated, in any order) was judged from the same round start and failed the policy with the answers
   received by then; the publishing reading satisfies it *)
Lemma c08_first_satisfying_lemma c t0 is l1 mid r now adv l2 : Accept c ->
  run_log c t0 is = l1 ++ mid ++ OPublish r now adv :: l2 -> no_publish mid ->
  let st := g_start (ghost_after c t0 l1) in
  (forall m1 u m2, mid = m1 ++ OUpdate u :: m2 ->
     let g := ghost_after c t0 (l1 ++ m1) in
     g_start g = st /\ policy_b c st (found (g_A g)) (last_recv (g_A g)) u = false) /\
  (let g := ghost_after c t0 (l1 ++ mid) in
   g_start g = st /\ policy_b c st (found (g_A g)) (last_recv (g_A g)) now = true).
Proof.
  intros HA E Hnp st. split.
  - intros m1 u m2 Em g.
    assert (Es : g_start g = st).
    { unfold g, st. rewrite ghost_after_app. apply g_start_kept. subst mid. apply (no_publish_app_l _ _ Hnp). }
    split; [assumption|]. rewrite <- Es.
    assert (E' : run_log c t0 is = (l1 ++ m1) ++ OUpdate u :: (m2 ++ OPublish r now adv :: l2)).
    { rewrite E, Em, <- !app_assoc. reflexivity. }
    symmetry. exact (c08_run_exact_lemma c t0 is _ _ _ u HA E' eq_refl).
  - intros g.
    assert (Es : g_start g = st).
    { unfold g, st. rewrite ghost_after_app. apply g_start_kept. assumption. }
    split; [assumption|]. rewrite <- Es.
    assert (E' : run_log c t0 is = (l1 ++ mid) ++ OPublish r now adv :: l2) by (rewrite E, <- app_assoc; reflexivity).
    symmetry. exact (c08_run_exact_lemma c t0 is _ _ _ now HA E' eq_refl).
Qed.

(* ------------------------------------------------------------------ readings that leave the round open *)
Lemma found_last_recv A : found A = true -> exists t, last_recv A = Some t.
Proof.
  destruct A as [|a A] using rev_ind; [discriminate|]. intros _. rewrite last_recv_snoc. eauto.
Qed.

(* no environment assumption: a reading that leaves the round open lies at most max after the round start (so a
   clock that jumps forward ends the round at once), and if the target has answered and min has passed, it lies
   within grace of the last answer *)
Lemma c08_open_reading_lemma c t0 is l1 now l2 : Accept c ->
  run_log c t0 is = l1 ++ OUpdate now :: l2 ->
  let g := ghost_after c t0 l1 in
  now - g_start g <= max_round_duration c /\
  (found (g_A g) = true -> min_round_duration c < now - g_start g ->
   exists t, last_recv (g_A g) = Some t /\ now - t <= grace_duration c).
Proof.
  intros HA E g. pose proof (accept_durations c HA) as (Hg & Hmin & Hmax).
  pose proof (c08_run_no_publish_lemma c t0 is l1 now l2 HA E) as Hnp. fold g in Hnp.
  unfold policy_g in Hnp. cbv zeta in Hnp. split.
  - destruct (Z_le_gt_dec (now - g_start g) (max_round_duration c)) as [H|H]; [assumption|].
    exfalso. apply Hnp. left. lia.
  - intros Hf Hm. destruct (found_last_recv _ Hf) as (t & Ht). exists t. split; [assumption|].
    destruct (Z_le_gt_dec (now - t) (grace_duration c)) as [H|H]; [assumption|].
    exfalso. apply Hnp. right. split; [lia|]. split; [assumption|]. exists t. split; [assumption|lia].
Qed.

(* ------------------------------------------------------------------ (d) the round counter and the round start *)
Lemma g_round_fold c l : forall g, g_round (fold_left (gstep c) l g) = g_round g + Z.of_nat (npub l).
Proof.
  induction l as [|o l IH]; intros g; cbn [fold_left]; [unfold npub; cbn; lia|].
  rewrite IH. unfold npub. cbn [filter].
  destruct o as [p x|r|now|r now adv]; cbn [gstep g_round is_pub length]; try lia.
  destruct (genuine c (g_S g) (g_A g) r) as [[p sr]|]; cbn [g_round]; lia.
Qed.

Lemma g_start_fold c l : forall g, g_start (fold_left (gstep c) l g) = last_start (g_start g) l.
Proof.
  unfold last_start. induction l as [|o l IH]; intros g; cbn [fold_left]; [reflexivity|].
  rewrite IH. f_equal.
  destruct o as [p x|r|now|r now adv]; cbn [gstep g_start]; try reflexivity.
  destruct (genuine c (g_S g) (g_A g) r) as [[p sr]|]; reflexivity.
Qed.

Lemma npub_app a b : npub (a ++ b) = (npub a + npub b)%nat.
Proof. unfold npub. rewrite filter_app, app_length. reflexivity. Qed.

Lemma c08_round_counter_lemma c t0 :
  (forall l, g_round (ghost_after c t0 l) = Z.of_nat (npub l) /\ g_start (ghost_after c t0 l) = last_start t0 l) /\
  (forall l1 r now adv,
     g_round (ghost_after c t0 (l1 ++ [OPublish r now adv])) = g_round (ghost_after c t0 l1) + 1 /\
     g_start (ghost_after c t0 (l1 ++ [OPublish r now adv])) = adv).
Proof.
  split.
  - intros l. unfold ghost_after. rewrite g_round_fold, g_start_fold. cbn [g_init g_round g_start]. split; [lia|reflexivity].
  - intros l1 r now adv. rewrite ghost_after_app. cbn [fold_left gstep g_round g_start]. split; reflexivity.
Qed.

(* observable: every probe handed to the network carries the number of rounds published before it *)
Lemma c08_probe_round_lemma c t0 is l1 p o l2 : Accept c ->
  run_log c t0 is = l1 ++ OSend p o :: l2 -> p_round p = Z.of_nat (npub l1).
Proof.
  intros HA E. pose proof (c06_run_send_lemma c t0 is l1 p o l2 HA E) as (_ & Hr & _).
  rewrite Hr. apply (proj1 (c08_round_counter_lemma c t0)).
Qed.

Lemma npub_pubs l : npub l = length (pubs (events_of l)).
Proof.
  induction l as [|o l IH]; [reflexivity|].
  unfold npub in *. destruct o as [p x|r|now|r now adv]; cbn [filter is_pub events_of flat_map app pubs length];
    fold (events_of l); rewrite <- ?IH; reflexivity.
Qed.

(* the state at the end of a run that did not fail: the round counter is the number of rounds published, the round
   start is the advance_round reading of the last publication (t0 if none) *)
Lemma c08_final_counter_lemma c t0 is ev o sf : Accept c -> run c t0 is = (ev, o, sf) ->
  (forall e, o <> Failed_with e) ->
  round sf = Z.of_nat (length (pubs ev)) /\ round_start sf = last_start t0 (run_log c t0 is).
Proof.
  intros HA E Hne. destruct (ghost_is_state_lemma c t0 is ev o sf HA E Hne) as [(_ & _ & _ & _ & Hr) (Hs & _)].
  destruct (proj1 (c08_round_counter_lemma c t0) (run_log c t0 is)) as [Hgr Hgs].
  rewrite Hr, Hs, Hgr, Hgs, npub_pubs, (run_log_events c t0 is HA), E. split; reflexivity.
Qed.

(* ------------------------------------------------------------------ (e) bounded traces *)
(* every publication happens in a round below max_rounds, and the log ends with the publication of the last round *)
Fixpoint rounds_ok (c : scfg) (n : Z) (g : ghost) (l : list obs) : Prop :=
  match l with
  | [] => True
  | o :: t =>
    (match o with OPublish _ _ _ => g_round g < n /\ (g_round g + 1 = n -> t = []) | _ => True end) /\
    rounds_ok c n (gstep c g o) t
  end.

Lemma rounds_ok_app c n l1 : forall g l2, npub l1 = 0%nat ->
  rounds_ok c n (fold_left (gstep c) l1 g) l2 -> rounds_ok c n g (l1 ++ l2).
Proof.
  induction l1 as [|o l1 IH]; intros g l2 Hn H; cbn [app fold_left] in *; [assumption|].
  unfold npub in Hn. cbn [filter] in Hn. cbn [rounds_ok].
  destruct o as [p x|r|now|r now adv]; cbn [is_pub] in Hn; try (cbn [length] in Hn; discriminate);
    (split; [exact I|apply IH; [exact Hn|exact H]]).
Qed.

Lemma npub_sends ev : npub (obs_sends ev) = 0%nat.
Proof. unfold obs_sends, npub. induction (sends_of ev) as [|po l IH]; [reflexivity|exact IH]. Qed.

Lemma npub_recv i : npub (obs_recv i) = 0%nat.
Proof. unfold obs_recv. destruct (i_recv i); reflexivity. Qed.

Lemma run_obs_finished c s is : finished s (max_rounds c) = true -> run_obs c s is = [].
Proof. intros H. destruct is; cbn [run_obs]; rewrite H; reflexivity. Qed.

Lemma run_obs_rounds c n : Accept c -> max_rounds c = Some n -> forall is s g, Sim c s g ->
  rounds_ok c n g (run_obs c s is).
Proof.
  intros HA Hn. induction is as [|i rest IH]; intros s g HS; cbn [run_obs].
  - destruct (finished s (max_rounds c)); exact I.
  - destruct (finished s (max_rounds c)) eqn:Ef; [exact I|].
    assert (Hlt : g_round g < n).
    { rewrite <- (sim_round c s g HS). unfold finished in Ef. rewrite Hn in Ef. lia. }
    pose proof (sim_inv c s g HS) as HI.
    destruct (send_request_ok c s i HA HI) as (s1 & ev1 & e1 & H1 & HI1 & _). rewrite H1.
    destruct (sim_send c s g i s1 ev1 e1 HA HS H1) as [_ HS1].
    destruct e1 as [e1|].
    { rewrite <- (app_nil_r (obs_sends ev1)). apply rounds_ok_app; [apply npub_sends|exact I]. }
    specialize (HS1 eq_refl).
    apply rounds_ok_app; [apply npub_sends|].
    set (g1 := fold_left (gstep c) (obs_sends ev1) g) in *.
    assert (Hg1 : g_round g1 = g_round g) by (unfold g1; rewrite g_round_fold, npub_sends; lia).
    destruct (recv_response_ok c s1 i HA HI1) as (s2 & e2 & H2 & HI2 & _). rewrite H2.
    destruct e2 as [e2|]; [exact I|].
    pose proof (sim_recv_phase c s1 g1 i s2 HA HS1 H2) as HS2.
    apply rounds_ok_app; [apply npub_recv|].
    set (g2 := fold_left (gstep c) (obs_recv i) g1) in *.
    assert (Hg2 : g_round g2 = g_round g) by (unfold g2; rewrite g_round_fold, npub_recv; lia).
    destruct (update_round_ok c s2 i HA HI2) as (s3 & ev3 & H3 & HI3 & _). rewrite H3.
    destruct (sim_update c s2 g2 i s3 ev3 HA HS2 H3) as [(-> & -> & Hnp)|(r & -> & _ & _ & _ & HS3)].
    + cbn [rounds_ok gstep]. split; [exact I|]. apply IH. assumption.
    + cbn [rounds_ok]. split; [|apply IH; assumption]. split; [lia|].
      intros Hlast. apply run_obs_finished. unfold finished. rewrite Hn.
      rewrite (sim_round c s3 _ HS3). cbn [gstep g_round]. lia.
Qed.

Lemma rounds_ok_at c n l1 : forall g o l2, rounds_ok c n g (l1 ++ o :: l2) ->
  match o with
  | OPublish _ _ _ => g_round (fold_left (gstep c) l1 g) < n /\ (g_round (fold_left (gstep c) l1 g) + 1 = n -> l2 = [])
  | _ => True
  end.
Proof.
  induction l1 as [|x l1 IH]; intros g o l2 H; cbn [app rounds_ok fold_left] in *.
  - destruct H as [H _]. exact H.
  - destruct H as [_ H]. apply IH. exact H.
Qed.

(* every publication of a bounded trace is that of a round below max_rounds; the publication of round
   max_rounds - 1 is the last observation of the run; and (by the theorems for every publication) it obeys the
   same policy, with the same reason *)
Lemma c08_bounded_trace_lemma c t0 is n l1 r now adv l2 : Accept c -> max_rounds c = Some n ->
  run_log c t0 is = l1 ++ OPublish r now adv :: l2 ->
  let g := ghost_after c t0 l1 in
  Z.of_nat (npub l1) < n /\
  (Z.of_nat (npub l1) = n - 1 -> l2 = []) /\
  policy_b c (g_start g) (found (g_A g)) (last_recv (g_A g)) now = true /\
  rr_reason r = reason_b (found (g_A g)).
Proof.
  intros HA Hn E g.
  pose proof (run_obs_rounds c n HA Hn is (ts_new c t0) (g_init t0) (sim_new c t0 HA)) as H.
  fold (run_log c t0 is) in H. rewrite E in H. apply rounds_ok_at in H. fold (ghost_after c t0 l1) in H.
  rewrite (proj1 (proj1 (c08_round_counter_lemma c t0) l1)) in H. destruct H as [Hlt Hlast].
  split; [assumption|]. split; [intros Hx; apply Hlast; lia|].
  split; [symmetry; exact (c08_run_exact_lemma c t0 is l1 _ l2 now HA E eq_refl)|].
  exact (c08_run_reason_lemma c t0 is l1 r now adv l2 HA E).
Qed.

Lemma npub_split l : forall k, (k < npub l)%nat ->
  exists l1 r now adv l2, l = l1 ++ OPublish r now adv :: l2 /\ npub l1 = k.
Proof.
  induction l as [|o l IH]; intros k Hk; [unfold npub in Hk; cbn in Hk; lia|].
  destruct o as [p x|r|now|r now adv].
  1-3: (assert (Hk' : (k < npub l)%nat) by exact Hk;
        destruct (IH k Hk') as (l1 & r' & n' & a' & l2 & E & Hl1);
        eexists (_ :: l1), r', n', a', l2; split; [rewrite E; reflexivity|exact Hl1]).
  destruct k as [|k].
  - exists [], r, now, adv, l. split; reflexivity.
  - assert (Hk' : (k < npub l)%nat) by (unfold npub in *; cbn [filter is_pub length] in Hk; lia).
    destruct (IH k Hk') as (l1 & r' & n' & a' & l2 & E & Hl1).
    exists (OPublish r now adv :: l1), r', n', a', l2. split; [rewrite E; reflexivity|].
    unfold npub in *. cbn [filter is_pub length]. lia.
Qed.

(* a bounded trace publishes at most max_rounds rounds, and exactly max_rounds when it finishes *)
Lemma c08_at_most_max_rounds_lemma c t0 is n ev o sf : Accept c -> max_rounds c = Some n ->
  run c t0 is = (ev, o, sf) ->
  Z.of_nat (length (pubs ev)) <= n /\ (o = Finished -> Z.of_nat (length (pubs ev)) = n).
Proof.
  intros HA Hn E.
  assert (Hlen : length (pubs ev) = npub (run_log c t0 is)).
  { rewrite npub_pubs, (run_log_events c t0 is HA), E. reflexivity. }
  assert (Hle : Z.of_nat (npub (run_log c t0 is)) <= n).
  { destruct (npub (run_log c t0 is)) as [|k] eqn:Ek.
    - destruct HA as [_ Hw]. unfold cfg_wf in Hw. rewrite Hn in Hw. lia.
    - destruct (npub_split (run_log c t0 is) k ltac:(lia)) as (l1 & r & now & adv & l2 & El & Hl1).
      destruct (c08_bounded_trace_lemma c t0 is n l1 r now adv l2 HA Hn El) as (Hlt & _). lia. }
  split; [lia|]. intros ->.
  destruct (run_finished_final c t0 is [] ev sf E) as [_ Hf].
  destruct (c08_final_counter_lemma c t0 is ev Finished sf HA E ltac:(discriminate)) as [Hr _].
  unfold finished in Hf. rewrite Hn in Hf. lia.
Qed.

(* ------------------------------------------------------------------ (f) the arm of the policy behind the reason *)
Lemma c08_reason_arm_lemma c t0 is l1 r now adv l2 : Accept c ->
  run_log c t0 is = l1 ++ OPublish r now adv :: l2 ->
  let g := ghost_after c t0 l1 in
  (rr_reason r = TargetFound ->
     found (g_A g) = true /\
     ((min_round_duration c < now - g_start g /\
       exists t, last_recv (g_A g) = Some t /\ grace_duration c < now - t) \/
      max_round_duration c < now - g_start g)) /\
  (rr_reason r = RoundTimeLimitExceeded ->
     found (g_A g) = false /\ max_round_duration c < now - g_start g).
Proof.
  intros HA E g. pose proof (accept_durations c HA) as (Hg & Hmin & Hmax).
  destruct (c08_run_publish_lemma c t0 is l1 r now adv l2 HA E) as (Hp & Htf & Htl). fold g in Hp, Htf, Htl.
  unfold policy_g in Hp. cbv zeta in Hp. split.
  - intros Hr. split; [apply Htf; assumption|].
    destruct Hp as [H|(Hm & _ & t & Ht & Hgr)]; [right; lia|].
    left. split; [lia|]. exists t. split; [assumption|lia].
  - intros Hr. destruct (Htl Hr) as [Hf Hm]. split; [assumption|lia].
Qed.

(* ------------------------------------------------------------------ (g) zero and equal durations *)
(* max = 0 (hence all-zero durations too): a reading publishes iff it lies strictly after the round start *)
Lemma c08_zero_max_lemma c t0 is l1 o l2 now : Accept c -> max_round_duration c = 0 ->
  run_log c t0 is = l1 ++ o :: l2 -> reading o = Some now ->
  is_pub o = (g_start (ghost_after c t0 l1) <? now).
Proof.
  intros HA Hz E Hr. pose proof (accept_durations c HA) as (Hg & Hmin & Hmax).
  rewrite (c08_run_exact_lemma c t0 is l1 o l2 now HA E Hr). unfold policy_b. cbv zeta. rewrite Hz.
  destruct (g_start (ghost_after c t0 l1) <? now) eqn:Ec.
  - apply orb_true_iff. left. lia.
  - apply orb_false_iff. split; [lia|]. apply andb_false_iff. left. apply andb_false_iff. left. lia.
Qed.

(* min = max: the target-found arm never ends a round earlier than the time limit does *)
Lemma c08_min_eq_max_lemma c t0 is l1 o l2 now : Accept c -> min_round_duration c = max_round_duration c ->
  run_log c t0 is = l1 ++ o :: l2 -> reading o = Some now ->
  is_pub o = (max_round_duration c <? now - g_start (ghost_after c t0 l1)).
Proof.
  intros HA Hz E Hr. pose proof (accept_durations c HA) as (Hg & Hmin & Hmax).
  rewrite (c08_run_exact_lemma c t0 is l1 o l2 now HA E Hr). unfold policy_b. cbv zeta. rewrite Hz.
  destruct (max_round_duration c <? now - g_start (ghost_after c t0 l1)) eqn:Ec.
  - apply orb_true_iff. left. lia.
  - apply orb_false_iff. split; [lia|]. apply andb_false_iff. left. apply andb_false_iff. left. lia.
Qed.

(* ------------------------------------------------------------------ refuted: without min <= max *)
(* trippy-core's Builder does not check min <= max (only the TUI's configuration layer does): with min = 100 and
   max = 5 a silent round is published at the reading 6, long before min has passed *)
Definition rt_badcfg : scfg :=
  {| target_addr := [1;2;3;4]; proto := Icmp; trace_identifier := 7; max_rounds := Some 3;
     first_ttl := 1; max_ttl := 6; grace_duration := 5; max_inflight := 2;
     initial_sequence := 100; multipath := Classic; port_direction := PdNone;
     min_round_duration := 100; max_round_duration := 5 |}.

Lemma rt_badcfg_accept : Accept rt_badcfg.
Proof. split; [reflexivity|unfold cfg_wf; cbn; unfold u8, u16; lia]. Qed.

Lemma c08_before_min_refuted_lemma : exists c t0 is l1 r now adv l2,
  Accept c /\ run_log c t0 is = l1 ++ OPublish r now adv :: l2 /\
  now - g_start (ghost_after c t0 l1) <= min_round_duration c.
Proof.
  exists rt_badcfg, 0, [rl_ex_it Timeout 6].
  exists (firstn 1 (run_log rt_badcfg 0 [rl_ex_it Timeout 6])). eexists _, _, _.
  exists (skipn 2 (run_log rt_badcfg 0 [rl_ex_it Timeout 6])).
  split; [exact rt_badcfg_accept|]. split; [lazy; reflexivity|]. lazy. discriminate.
Qed.

(* ------------------------------------------------------------------ examples *)
(* a run whose clock is set back and jumps: round 0 starts at 0; readings 1, 2, 3, 4 (target answers at 4), then
   the clock is set back to -50 (round stays open), reads 11 (min passed, grace passed: publish, TargetFound);
   round 1 starts at 12; readings 16, 5 (set back before the start), 40, then a jump to 1000 (publish, time limit) *)
Definition rt_ex_ins : list iter_in :=
  [ rl_ex_it Timeout 1; rl_ex_it (Resp (rl_ex_te 2 100 [9;9;9;1])) 2; rl_ex_it (Resp (rl_ex_te 3 101 [9;9;9;2])) 3;
    rl_ex_it (Resp (rl_ex_er 4 102)) 4; rl_ex_it Timeout (-50); rl_ex_it Timeout 11;
    rl_ex_it Timeout 16; rl_ex_it Timeout 5; rl_ex_it Timeout 40; rl_ex_it Timeout 1000 ].

(* the same trace bounded to two rounds: the publication at the reading 1000 is the last observation *)
Definition rt_cfg2 : scfg :=
  {| target_addr := [1;2;3;4]; proto := Icmp; trace_identifier := 7; max_rounds := Some 2;
     first_ttl := 1; max_ttl := 6; grace_duration := 5; max_inflight := 2;
     initial_sequence := 100; multipath := Classic; port_direction := PdNone;
     min_round_duration := 10; max_round_duration := 50 |}.

(* all durations zero *)
Definition rt_zero_cfg : scfg :=
  {| target_addr := [1;2;3;4]; proto := Icmp; trace_identifier := 7; max_rounds := None;
     first_ttl := 1; max_ttl := 6; grace_duration := 0; max_inflight := 2;
     initial_sequence := 100; multipath := Classic; port_direction := PdNone;
     min_round_duration := 0; max_round_duration := 0 |}.
Definition rt_zero_ins : list iter_in :=
  [ rl_ex_it Timeout 0; rl_ex_it Timeout (-3); rl_ex_it Timeout 1; rl_ex_it Timeout 2; rl_ex_it Timeout 3 ].

Lemma rt_cfgs_accept : Accept rl_ex_cfg /\ Accept rt_cfg2 /\ Accept rt_zero_cfg.
Proof. repeat split; try reflexivity; unfold cfg_wf; cbn; unfold u8, u16; lia. Qed.

(* the readings of a log with the decision taken at each *)
Definition decisions (l : list obs) : list (Z * bool) :=
  flat_map (fun o => match reading o with Some now => [(now, is_pub o)] | None => [] end) l.

(* ------------------------------------------------------------------ the log, iteration by iteration *)
Lemma run_obs_app c : forall pre s ev0 s0 rest, run_from c s pre = (ev0, Running, s0) ->
  run_obs c s (pre ++ rest) = run_obs c s pre ++ run_obs c s0 rest.
Proof.
  induction pre as [|i pre IH]; intros s ev0 s0 rest H; cbn [app].
  - cbn [run_from] in H. destruct (finished s (max_rounds c)) eqn:Ef; inversion H; subst.
    cbn [run_obs]. rewrite Ef. reflexivity.
  - cbn [run_from] in H. cbn [run_obs]. destruct (finished s (max_rounds c)) eqn:Ef; [inversion H|].
    unfold step in H.
    destruct (send_request c s i) as [[[s1 ev1] e1]|?|?]; cbn [bind] in H; try (inversion H; fail).
    destruct e1 as [e1|]; [inversion H|].
    destruct (recv_response c s1 i) as [[s2 e2]|?|?]; cbn [bind] in H; try (inversion H; fail).
    destruct e2 as [e2|]; [inversion H|].
    destruct (update_round c s2 i) as [[s3 ev3]|?|?]; cbn [bind] in H; try (inversion H; fail).
    destruct (run_from c s3 pre) as [[evs o] sf] eqn:Hr. inversion H; subst o sf.
    rewrite <- !app_assoc. f_equal. f_equal.
    destruct ev3 as [|[p x|r] [|e3 ev3]]; cbn [app]; rewrite (IH s3 evs s0 rest Hr); reflexivity.
Qed.

Lemma last_start_nopub l : forall st, npub l = 0%nat -> last_start st l = st.
Proof.
  unfold last_start. induction l as [|o l IH]; intros st Hn; cbn [fold_left]; [reflexivity|].
  unfold npub in Hn. cbn [filter] in Hn.
  destruct o as [p x|r|now|r now adv]; cbn [is_pub] in Hn; try (cbn [length] in Hn; discriminate); apply IH; exact Hn.
Qed.

Lemma run_obs_one c s i s' ev : Accept c -> Inv c s -> finished s (max_rounds c) = false ->
  step c s i = Ok (s', ev, None) ->
  exists mid o, run_obs c s [i] = mid ++ [o] /\ npub mid = 0%nat /\
    ((o = OUpdate (i_update i) /\ pubs ev = []) \/
     (exists r, o = OPublish r (i_update i) (i_advance i) /\ pubs ev = [r])).
Proof.
  intros HA HI Hf H. cbn [run_obs]. rewrite Hf. unfold step in H.
  destruct (send_request_ok c s i HA HI) as (s1 & ev1 & e1 & H1 & HI1 & _ & Hsh).
  assert (Hp1 : pubs ev1 = []).
  { destruct Hsh as [[-> _]|Hsh]; [reflexivity|]. destruct Hsh as (_ & Hlen & _). apply pubs_sends_nil; assumption. }
  rewrite H1 in *. cbn [bind] in H.
  destruct e1 as [e1|]; [inversion H|].
  destruct (recv_response c s1 i) as [[s2 e2]|?|?]; cbn [bind] in H; try discriminate.
  destruct e2 as [e2|]; [inversion H|].
  destruct (update_round c s2 i) as [[s3 ev3]|?|?] eqn:H3; cbn [bind] in H; try discriminate.
  inversion H; subst s3 ev. clear H.
  exists (obs_sends ev1 ++ obs_recv i).
  assert (Hn : npub (obs_sends ev1 ++ obs_recv i) = 0%nat) by (rewrite npub_app, npub_sends, npub_recv; reflexivity).
  unfold update_round in H3. destruct (should_publish c s2 (i_update i)).
  - destruct (publish_trace s2) as [r|?|?]; cbn [bind] in H3; try discriminate.
    destruct (advance_round c s2 (first_ttl c) (i_advance i)) as [sa|?|?]; cbn [bind] in H3; try discriminate.
    inversion H3; subst s' ev3.
    exists (OPublish r (i_update i) (i_advance i)).
    split; [destruct (finished sa (max_rounds c)); rewrite <- app_assoc; reflexivity|]. split; [exact Hn|]. right. exists r. split; [reflexivity|].
    rewrite pubs_app, Hp1. reflexivity.
  - inversion H3; subst s' ev3.
    exists (OUpdate (i_update i)).
    split; [destruct (finished s2 (max_rounds c)); rewrite <- app_assoc; reflexivity|]. split; [exact Hn|]. left. split; [reflexivity|].
    rewrite pubs_app, Hp1. reflexivity.
Qed.

(* iteration by iteration: an iteration of a run that has not ended adds to the log its sends, its delivery and
   exactly one reading - the i_update of that iteration; it publishes (and then reads i_advance, which becomes the
   round start, and the round counter moves by one) or leaves round counter and round start alone.  The round
   start the reading is judged against is the round_start of the state before the iteration. *)
Lemma c08_iteration_lemma c t0 pre i ev0 s0 s' ev1 : Accept c ->
  run c t0 pre = (ev0, Running, s0) -> step c s0 i = Ok (s', ev1, None) ->
  exists mid o, run_log c t0 (pre ++ [i]) = run_log c t0 pre ++ mid ++ [o] /\ npub mid = 0%nat /\
    g_start (ghost_after c t0 (run_log c t0 pre ++ mid)) = round_start s0 /\
    ((o = OUpdate (i_update i) /\ pubs ev1 = [] /\ round s' = round s0 /\ round_start s' = round_start s0) \/
     (exists r, o = OPublish r (i_update i) (i_advance i) /\ pubs ev1 = [r] /\
        round s' = round s0 + 1 /\ round_start s' = i_advance i)).
Proof.
  intros HA E Hs.
  pose proof (run_final_sim c HA pre (ts_new c t0) (g_init t0) (sim_new c t0 HA)) as HS.
  unfold run in E. rewrite E in HS. specialize (HS ltac:(discriminate)).
  pose proof (sim_inv c s0 _ HS) as HI.
  pose proof (run_from_running c pre _ ev0 s0 E) as Hf.
  destruct (run_obs_one c s0 i s' ev1 HA HI Hf Hs) as (mid & o & Eo & Hn & Hcase).
  exists mid, o. unfold run_log. rewrite (run_obs_app c pre _ ev0 s0 [i] E), Eo.
  split; [reflexivity|]. split; [exact Hn|]. split.
  - rewrite ghost_after_app, g_start_fold, (last_start_nopub mid _ Hn). symmetry. exact (sim_start c s0 _ HS).
  - destruct (step_clock c s0 i s' ev1 HA HI Hs) as [Hclk _].
    destruct Hcase as [[-> Hp]|(r & -> & Hp)]; [left|right; exists r]; (split; [reflexivity|]); (split; [exact Hp|]);
      destruct Hclk as [(Hq & Hr & Hst)|(r' & Hq & Hr & Hst)]; rewrite Hp in Hq; try discriminate; split; assumption.
Qed.

(* ------------------------------------------------------------------ refuted: TargetFound does not tell which arm *)
(* the target's answer arrives (receive time 1000) in the iteration whose reading 1000 lies beyond max: the round
   is ended by the time limit alone - grace has NOT passed since the last response - yet the reason published is
   TargetFound *)
Definition rt_late_ins : list iter_in :=
  [ rl_ex_it Timeout 1; rl_ex_it (Resp (rl_ex_te 2 100 [9;9;9;1])) 2; rl_ex_it (Resp (rl_ex_te 3 101 [9;9;9;2])) 3;
    rl_ex_it (Resp (rl_ex_er 1000 102)) 1000 ].

Lemma c08_target_found_without_grace_refuted_lemma : exists c t0 is l1 r now adv l2 t,
  Accept c /\ min_round_duration c <= max_round_duration c /\
  run_log c t0 is = l1 ++ OPublish r now adv :: l2 /\ rr_reason r = TargetFound /\
  last_recv (g_A (ghost_after c t0 l1)) = Some t /\ now - t <= grace_duration c.
Proof.
  exists rl_ex_cfg, 0, rt_late_ins.
  exists (firstn 10 (run_log rl_ex_cfg 0 rt_late_ins)). eexists _, _, _.
  exists (skipn 11 (run_log rl_ex_cfg 0 rt_late_ins)). exists 1000.
  split; [exact (proj1 rt_cfgs_accept)|]. split; [cbn; lia|].
  split; [lazy; reflexivity|]. split; [lazy; reflexivity|]. split; [lazy; reflexivity|]. lazy. discriminate.
Qed.
