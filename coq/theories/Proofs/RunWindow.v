(* C06 over whole runs, continued: EXACTNESS of the send rule (a probe goes out in an iteration if and only if the
   rule allows the next ttl), the iteration grammar of the observation log, the restart of every round at first_ttl,
   the round numbers, and the only way a probe beyond the established target distance can go out (the ECMP reset).
   Everything is stated over the log vocabulary of Proofs/RunLog.v; the tracer state appears only in the proofs and
   in the one lemma that ties the log rule [allowed] to the code's [can_send]. *)
From TV Require Import Base.Result Core.Types Core.TracerState Core.Strategy Core.Builder Core.State
  Proofs.ListLemmas Proofs.StrategyInv Proofs.StrategyProps Proofs.RoundHistory Proofs.StateProofs
  Proofs.RunLog Proofs.RunLogProps.
From Coq Require Import ZifyBool.

(* ------------------------------------------------------------------ the send rule, on the ghost of the log *)
(* the hop the in-flight window is measured from: the farthest hop that answered in this round, first_ttl - 1 if none *)
Definition wbase (c : scfg) (A : list (probe * sresp)) : Z :=
  match farthest A with Some m => m | None => first_ttl c - 1 end.

(* the rule: the target has not answered in this round, the next ttl is at most max_ttl, and it is at most the
   established target distance or - while that is unknown - at most max_inflight beyond the window base *)
Definition allowed (c : scfg) (g : ghost) : bool :=
  negb (found (g_A g)) && (next_ttl c (g_S g) <=? max_ttl c) &&
  match g_dist g with
  | Some d => next_ttl c (g_S g) <=? d
  | None => next_ttl c (g_S g) - wbase c (g_A g) <=? max_inflight c
  end.

Lemma can_send_allowed c s g : Accept c -> Sim c s g -> can_send c s = Ok (allowed c g).
Proof.
  intros HA HS. pose proof (accept_facts c HA) as F. pose proof (window_base c s g HA HS) as Hwb.
  destruct HS as [HI HH Hset Hrd Hst Httl Hfd Hrc Hfar Hdist Hfirst].
  unfold can_send, allowed. rewrite <- Hdist, <- Hfd, <- Httl.
  destruct (target_ttl s) as [t|] eqn:Et; cbn [bind]; [reflexivity|].
  unfold sub_w.
  assert (Hb : inflight_base c s <= ttl s).
  { unfold inflight_base. destruct (max_received_ttl s) as [m|] eqn:Em;
      [pose proof (inv_mr c s HI m Em)|pose proof (inv_ttl c s HI)]; lia. }
  destruct (inflight_base c s <=? ttl s) eqn:E; [|lia]. cbn [bind]. unfold wbase. rewrite <- Hwb. reflexivity.
Qed.

(* ------------------------------------------------------------------ what one iteration hands to the network *)
Definition osends (B : list (probe * send_outcome)) : list obs := map (fun po => OSend (fst po) (snd po)) B.

Definition same_ttl (c : scfg) (g : ghost) (B : list (probe * send_outcome)) : Prop :=
  Forall (fun po => p_ttl (fst po) = next_ttl c (g_S g) /\ p_round (fst po) = g_round g) B.

(* a complete iteration: nothing if the rule forbids the next ttl; otherwise one probe of the next ttl, preceded by
   the abandoned attempts (address in use: TCP only) of the same ttl *)
Definition batch_exact (c : scfg) (g : ghost) (B : list (probe * send_outcome)) : Prop :=
  (allowed c g = false -> B = []) /\
  (allowed c g = true -> exists B0 p o, B = B0 ++ [(p, o)] /\ Forall inuse B0 /\ o <> AddressInUseO) /\
  same_ttl c g B /\
  (proto c <> Tcp -> (length B <= 1)%nat).

(* an iteration that was cut short (send error, receive error, the run stopped) *)
Definition batch_partial (c : scfg) (g : ghost) (B : list (probe * send_outcome)) : Prop :=
  (allowed c g = false -> B = []) /\ Forall inuse (removelast B) /\ same_ttl c g B /\
  (proto c <> Tcp -> (length B <= 1)%nat).

Lemma batch_exact_partial c g B : batch_exact c g B -> batch_partial c g B.
Proof.
  intros (Hf & Ht & Hs & Hl). split; [assumption|]. split; [|split; assumption].
  destruct (allowed c g) eqn:Ea.
  - destruct (Ht eq_refl) as (B0 & p & o & -> & Hall & _). rewrite removelast_last. assumption.
  - rewrite (Hf eq_refl). constructor.
Qed.

Lemma sends_of_length ev : length (sends_of ev) = length (ev_probes ev).
Proof. rewrite ev_probes_sends, map_length. reflexivity. Qed.

Lemma send_facts c s g i s1 ev e : Accept c -> Sim c s g -> send_request c s i = Ok (s1, ev, e) ->
  (allowed c g = false -> ev = [] /\ e = None) /\
  (allowed c g = true -> e = None -> sends_of ev <> []) /\
  same_ttl c g (sends_of ev) /\
  (proto c <> Tcp -> (length (sends_of ev) <= 1)%nat).
Proof.
  intros HA HS H. pose proof (can_send_allowed c s g HA HS) as Hcs.
  pose proof (sim_inv c s g HS) as HI.
  destruct (send_request_ok c s i HA HI) as (s1' & ev' & e' & H' & HI1 & Hsb & Hsh).
  rewrite H in H'. inversion H'; subst s1' ev' e'. clear H'.
  split; [|split; [|split]].
  - intros Ea. rewrite Ea in Hcs. unfold send_request in H. rewrite Hcs in H. cbn [bind negb] in H.
    inversion H; subst. split; reflexivity.
  - intros Ea -> Hnil. rewrite Ea in Hcs.
    assert (Hev : ev = []).
    { destruct Hsh as [[-> _]|Hsh]; [reflexivity|]. destruct Hsh as (Hne & _). exfalso. apply Hne.
      rewrite ev_probes_sends, Hnil. reflexivity. }
    subst ev.
    destruct (proto c) eqn:Ep.
    + apply (send_request_nonempty c s i s1 [] None Hcs ltac:(congruence) H). reflexivity.
    + apply (send_request_nonempty c s i s1 [] None Hcs ltac:(congruence) H). reflexivity.
    + destruct (round_has_capacity s) as [cap|?|?] eqn:Ec.
      * destruct cap.
        -- apply (send_request_nonempty c s i s1 [] None Hcs ltac:(intros _; exact Ec) H). reflexivity.
        -- unfold send_request in H. rewrite Hcs, Ep, Ec in H. cbn [bind negb] in H. discriminate.
      * unfold send_request in H. rewrite Hcs, Ep, Ec in H. cbn [bind negb] in H. discriminate.
      * unfold send_request in H. rewrite Hcs, Ep, Ec in H. cbn [bind negb] in H. discriminate.
  - unfold same_ttl. destruct Hsh as [[-> _]|Hsh]; [constructor|].
    destruct Hsh as (_ & _ & _ & _ & _ & _ & _ & _ & Hall & _).
    rewrite ev_probes_sends in Hall. rewrite Forall_forall in *. intros po Hin.
    rewrite <- (sim_ttl c s g HS), <- (sim_round c s g HS). apply (Hall (fst po)). apply in_map. assumption.
  - intros Hp. destruct Hsh as [[-> _]|Hsh]; [cbn; lia|].
    destruct Hsh as (_ & Hlen & _ & _ & _ & _ & _ & _ & _ & Hone).
    rewrite sends_of_length, Hlen, (Hone Hp). lia.
Qed.

(* ------------------------------------------------------------------ the grammar of the log *)
Definition marker (o : obs) : Prop := match o with OUpdate _ | OPublish _ _ _ => True | _ => False end.

Definition recv_part (rcv : list obs) : Prop := rcv = [] \/ exists r, rcv = [ORecv r].

(* the log is a sequence of complete iterations - the sends of the iteration (exact for the ghost at its start), at
   most one delivery, the clock reading of update_round - possibly followed by one iteration cut short *)
Inductive iter_log (c : scfg) : ghost -> list obs -> Prop :=
| il_stop g B : batch_partial c g B -> iter_log c g (osends B)
| il_iter g B rcv m rest :
    batch_exact c g B -> recv_part rcv -> marker m ->
    iter_log c (fold_left (gstep c) (osends B ++ rcv ++ [m]) g) rest ->
    iter_log c g (osends B ++ rcv ++ m :: rest).

Lemma batch_partial_nil c g : batch_partial c g [].
Proof. split; [reflexivity|]. split; [constructor|]. split; [constructor|]. cbn; lia. Qed.

Lemma recv_part_obs i : recv_part (obs_recv i).
Proof. unfold obs_recv, recv_part. destruct (i_recv i) as [|r|x]; [left; reflexivity|right; eauto|left; reflexivity]. Qed.

Theorem run_obs_iter c : Accept c -> forall is s g, Sim c s g -> iter_log c g (run_obs c s is).
Proof.
  intros HA. induction is as [|i rest IH]; intros s g HS; cbn [run_obs].
  - destruct (finished s (max_rounds c)); apply (il_stop c g []); apply batch_partial_nil.
  - destruct (finished s (max_rounds c)); [apply (il_stop c g []); apply batch_partial_nil|].
    pose proof (sim_inv c s g HS) as HI.
    destruct (send_request_ok c s i HA HI) as (s1 & ev1 & e1 & H1 & HI1 & _). rewrite H1.
    destruct (sim_send c s g i s1 ev1 e1 HA HS H1) as [_ HS1].
    destruct (send_facts c s g i s1 ev1 e1 HA HS H1) as (Ff & Ft & Fs & Fl).
    pose proof (send_request_shape c s i s1 ev1 e1 H1) as Hshape.
    destruct e1 as [e1|].
    { apply (il_stop c g (sends_of ev1)). split; [|split; [|split]]; try assumption.
      intros Ea. destruct (Ff Ea) as [-> _]. reflexivity. }
    specialize (HS1 eq_refl).
    assert (HB : batch_exact c g (sends_of ev1)).
    { split; [|split; [|split]]; try assumption.
      - intros Ea. destruct (Ff Ea) as [-> _]. reflexivity.
      - intros Ea. specialize (Ft Ea eq_refl).
        destruct (exists_last Ft) as (B0 & [p o] & El). exists B0, p, o. rewrite El in *.
        rewrite removelast_last in Hshape. split; [reflexivity|]. split; [assumption|].
        pose proof (sim_set c s1 _ HS1) as Hset1. unfold obs_sends in Hset1. rewrite gfold_sends in Hset1.
        cbn [g_S] in Hset1. rewrite El in Hset1.
        apply (settled_last_not_inuse _ _ _ Hset1). }
    set (g1 := fold_left (gstep c) (obs_sends ev1) g) in *.
    destruct (recv_response_ok c s1 i HA HI1) as (s2 & e2 & H2 & HI2 & _). rewrite H2.
    destruct e2 as [e2|].
    { rewrite app_nil_r. apply (il_stop c g (sends_of ev1)). apply batch_exact_partial. assumption. }
    pose proof (sim_recv_phase c s1 g1 i s2 HA HS1 H2) as HS2.
    set (g2 := fold_left (gstep c) (obs_recv i) g1) in *.
    destruct (update_round_ok c s2 i HA HI2) as (s3 & ev3 & H3 & HI3 & _). rewrite H3.
    destruct (sim_update c s2 g2 i s3 ev3 HA HS2 H3) as [(-> & -> & Hnp)|(r & -> & _ & _ & _ & HS3)]; cbv iota.
    + apply (il_iter c g (sends_of ev1) (obs_recv i) (OUpdate (i_update i)) (run_obs c s2 rest));
        [assumption|apply recv_part_obs|exact I|].
      apply IH. rewrite !fold_left_app. cbn [fold_left gstep]. exact HS2.
    + apply (il_iter c g (sends_of ev1) (obs_recv i) (OPublish r (i_update i) (i_advance i)) (run_obs c s3 rest));
        [assumption|apply recv_part_obs|exact I|].
      apply IH. rewrite !fold_left_app. cbn [fold_left]. exact HS3.
Qed.

Lemma run_log_iter_lemma c t0 is : Accept c -> iter_log c (g_init t0) (run_log c t0 is).
Proof. intros HA. apply run_obs_iter; [assumption|apply sim_new; assumption]. Qed.

(* the rule of the log is the decision of the code at every iteration boundary *)
Lemma rule_is_can_send_lemma c t0 is ev o sf : Accept c -> run c t0 is = (ev, o, sf) -> (forall e, o <> Failed_with e) ->
  can_send c sf = Ok (allowed c (ghost_after c t0 (run_log c t0 is))).
Proof.
  intros HA E Hne. pose proof (run_final_sim c HA is (ts_new c t0) (g_init t0) (sim_new c t0 HA)) as H.
  unfold run in E. rewrite E in H. specialize (H Hne). apply can_send_allowed; assumption.
Qed.

(* ------------------------------------------------------------------ any complete iteration of any run *)
Definition no_marker (l : list obs) : Prop := Forall (fun o => ~ marker o) l.

(* a position of the log where an iteration starts: the beginning, or right after a clock reading of update_round *)
Definition boundary (l : list obs) : Prop := l = [] \/ exists l0 m0, l = l0 ++ [m0] /\ marker m0.

Lemma osends_no_marker B : no_marker (osends B).
Proof. unfold no_marker, osends. apply Forall_forall. intros o Hin. apply in_map_iff in Hin. destruct Hin as (po & <- & _). intros []. Qed.

Lemma recv_no_marker rcv : recv_part rcv -> no_marker rcv.
Proof. intros [->|(r & ->)]; [constructor|]. constructor; [intros []|constructor]. Qed.

Lemma split_first_marker : forall (a : list obs) mk rest l1 m0 tail, no_marker a -> marker m0 ->
  a ++ mk :: rest = l1 ++ m0 :: tail ->
  (l1 = a /\ m0 = mk /\ tail = rest) \/ (exists l1', l1 = a ++ mk :: l1' /\ rest = l1' ++ m0 :: tail).
Proof.
  induction a as [|x a IH]; intros mk rest l1 m0 tail Hna Hm0 E; destruct l1 as [|y l1]; cbn [app] in E.
  - inversion E; subst. left. repeat split; reflexivity.
  - inversion E; subst. right. exists l1. split; reflexivity.
  - inversion E; subst. inversion Hna as [|? ? Hx _]; subst. exfalso. apply Hx. assumption.
  - inversion E; subst. inversion Hna as [|? ? _ Hna']; subst.
    destruct (IH mk rest l1 m0 tail Hna' Hm0 H1) as [(-> & -> & ->)|(l1' & -> & ->)].
    + left. repeat split; reflexivity.
    + right. exists l1'. split; reflexivity.
Qed.

Lemma iter_log_at c : forall g L, iter_log c g L -> forall l1 seg m l2,
  L = l1 ++ seg ++ m :: l2 -> boundary l1 -> no_marker seg -> marker m ->
  exists B rcv, seg = osends B ++ rcv /\ batch_exact c (fold_left (gstep c) l1 g) B /\ recv_part rcv.
Proof.
  intros g L HL. induction HL as [g B HB|g B rcv mk rest HB Hr Hmk HL IH]; intros l1 seg m l2 E Hb Hns Hm.
  - exfalso. assert (Hin : In m (osends B)) by (rewrite E; apply in_or_app; right; apply in_or_app; right; left; reflexivity).
    pose proof (osends_no_marker B) as Hno. unfold no_marker in Hno. rewrite Forall_forall in Hno. apply (Hno m Hin Hm).
  - assert (Hna : no_marker (osends B ++ rcv)).
    { unfold no_marker. apply Forall_app. split; [apply osends_no_marker|apply recv_no_marker; assumption]. }
    rewrite app_assoc in E.
    destruct Hb as [->|(l0 & m0 & -> & Hm0)].
    + cbn [app] in E. destruct (split_first_marker _ _ _ _ _ _ Hna Hm E) as [(-> & _ & _)|(l1' & -> & _)].
      * exists B, rcv. cbn [fold_left]. split; [reflexivity|]. split; assumption.
      * exfalso. unfold no_marker in Hns. rewrite Forall_forall in Hns.
        apply (Hns mk); [apply in_or_app; right; left; reflexivity|assumption].
    + rewrite <- (app_assoc l0 [m0]) in E. cbn [app] in E.
      destruct (split_first_marker _ _ _ _ _ _ Hna Hm0 E) as [(-> & -> & Et)|(l1' & -> & Et)].
      * destruct (IH [] seg m l2 (eq_sym Et) (or_introl eq_refl) Hns Hm) as (B' & rcv' & Es & HB' & Hr').
        exists B', rcv'. split; [assumption|]. split; [|assumption].
        cbn [fold_left] in HB'. rewrite <- app_assoc. exact HB'.
      * assert (Et' : rest = (l1' ++ [m0]) ++ seg ++ m :: l2) by (rewrite Et, <- app_assoc; reflexivity).
        destruct (IH (l1' ++ [m0]) seg m l2 Et' (or_intror (ex_intro _ l1' (ex_intro _ m0 (conj eq_refl Hm0)))) Hns Hm)
          as (B' & rcv' & Es & HB' & Hr').
        exists B', rcv'. split; [assumption|]. split; [|assumption].
        replace (((osends B ++ rcv) ++ mk :: l1') ++ [m0]) with ((osends B ++ rcv ++ [mk]) ++ (l1' ++ [m0])).
        2:{ rewrite <- !app_assoc. cbn [app]. reflexivity. }
        rewrite fold_left_app. exact HB'.
Qed.

(* EXACTNESS, for every complete iteration of every run (the part [seg] of the log between two consecutive clock
   readings of update_round, or before the first): [seg] is the sends of the iteration followed by at most one delivery,
   and the sends are exact for the ghost of the log before the iteration *)
Lemma c06_iteration_exact_lemma c t0 is l1 seg m l2 : Accept c ->
  run_log c t0 is = l1 ++ seg ++ m :: l2 -> boundary l1 -> no_marker seg -> marker m ->
  exists B rcv, seg = osends B ++ rcv /\ batch_exact c (ghost_after c t0 l1) B /\ recv_part rcv.
Proof.
  intros HA E Hb Hns Hm. exact (iter_log_at c _ _ (run_log_iter_lemma c t0 is HA) l1 seg m l2 E Hb Hns Hm).
Qed.

(* the two directions in plain terms *)
Lemma c06_liveness_run_lemma c t0 is l1 seg m l2 : Accept c ->
  run_log c t0 is = l1 ++ seg ++ m :: l2 -> boundary l1 -> no_marker seg -> marker m ->
  allowed c (ghost_after c t0 l1) = true ->
  exists B0 p o rcv, seg = osends B0 ++ OSend p o :: rcv /\ Forall inuse B0 /\ o <> AddressInUseO /\
    p_ttl p = next_ttl c (g_S (ghost_after c t0 l1)) /\ recv_part rcv.
Proof.
  intros HA E Hb Hns Hm Ha.
  destruct (c06_iteration_exact_lemma c t0 is l1 seg m l2 HA E Hb Hns Hm) as (B & rcv & -> & (_ & Ht & Hs & _) & Hr).
  destruct (Ht Ha) as (B0 & p & o & -> & Hall & Ho). exists B0, p, o, rcv.
  split; [unfold osends; rewrite map_app, <- app_assoc; reflexivity|]. repeat split; try assumption.
  unfold same_ttl in Hs. apply Forall_app in Hs. destruct Hs as [_ Hs]. inversion Hs as [|? ? [Hp _] _]; subst. exact Hp.
Qed.

Lemma c06_silence_run_lemma c t0 is l1 seg m l2 : Accept c ->
  run_log c t0 is = l1 ++ seg ++ m :: l2 -> boundary l1 -> no_marker seg -> marker m ->
  allowed c (ghost_after c t0 l1) = false -> recv_part seg.
Proof.
  intros HA E Hb Hns Hm Ha.
  destruct (c06_iteration_exact_lemma c t0 is l1 seg m l2 HA E Hb Hns Hm) as (B & rcv & -> & (Hf & _) & Hr).
  rewrite (Hf Ha). exact Hr.
Qed.

(* the next ttl after a complete iteration that leaves the round open: one more iff the rule allowed it *)
Lemma gS_recv_part c rcv g : recv_part rcv -> g_S (fold_left (gstep c) rcv g) = g_S g.
Proof.
  intros [->|(r & ->)]; [reflexivity|]. cbn [fold_left gstep].
  destruct (genuine c (g_S g) (g_A g) r) as [[p sr]|]; reflexivity.
Qed.

Lemma c06_ttl_step_lemma c t0 is l1 seg now l2 : Accept c ->
  run_log c t0 is = l1 ++ seg ++ OUpdate now :: l2 -> boundary l1 -> no_marker seg ->
  next_ttl c (g_S (ghost_after c t0 (l1 ++ seg ++ [OUpdate now]))) =
  next_ttl c (g_S (ghost_after c t0 l1)) + (if allowed c (ghost_after c t0 l1) then 1 else 0).
Proof.
  intros HA E Hb Hns.
  destruct (c06_iteration_exact_lemma c t0 is l1 seg _ l2 HA E Hb Hns I) as (B & rcv & -> & (Hf & Ht & _) & Hr).
  rewrite ghost_after_app, !fold_left_app. cbn [fold_left gstep].
  rewrite (gS_recv_part c rcv _ Hr). unfold osends. rewrite gfold_sends. cbn [g_S].
  destruct (allowed c (ghost_after c t0 l1)) eqn:Ea.
  - destruct (Ht eq_refl) as (B0 & p & o & -> & Hall & Ho). apply next_ttl_batch; assumption.
  - rewrite (Hf eq_refl), app_nil_r. lia.
Qed.

(* ------------------------------------------------------------------ every round starts again at first_ttl *)
Definition no_send (l : list obs) : Prop := forall p o, ~ In (OSend p o) l.

Lemma gS_nil_kept c l : forall g, no_send l -> g_S g = [] -> g_S (fold_left (gstep c) l g) = [].
Proof.
  induction l as [|o l IH]; intros g Hns Hg; cbn [fold_left]; [assumption|].
  apply IH; [intros p x Hin; apply (Hns p x); right; assumption|].
  destruct o as [p x|r|now|r now adv]; cbn [gstep g_S]; try assumption; try reflexivity.
  - exfalso. apply (Hns p x). left; reflexivity.
  - destruct (genuine c (g_S g) (g_A g) r) as [[p sr]|]; assumption.
Qed.

Lemma g_round_kept c l : forall g, no_publish l -> g_round (fold_left (gstep c) l g) = g_round g.
Proof.
  induction l as [|o l IH]; intros g Hnp; cbn [fold_left]; [reflexivity|].
  rewrite IH by (intros r now adv Hin; apply (Hnp r now adv); right; assumption).
  destruct o as [p x|r|now|r now adv]; cbn [gstep g_round]; try reflexivity.
  - destruct (genuine c (g_S g) (g_A g) r) as [[p sr]|]; reflexivity.
  - exfalso. apply (Hnp r now adv). left; reflexivity.
Qed.

Lemma c06_first_probe_lemma c t0 is mid p o l2 : Accept c ->
  run_log c t0 is = mid ++ OSend p o :: l2 -> no_send mid -> p_ttl p = first_ttl c.
Proof.
  intros HA E Hns. destruct (c06_run_send_lemma c t0 is mid p o l2 HA E) as (Ht & _).
  unfold ghost_after in Ht. rewrite (gS_nil_kept c mid (g_init t0) Hns eq_refl) in Ht. exact Ht.
Qed.

Lemma c06_round_restart_lemma c t0 is l1 r now adv mid p o l2 : Accept c ->
  run_log c t0 is = l1 ++ OPublish r now adv :: mid ++ OSend p o :: l2 -> no_send mid -> no_publish mid ->
  p_ttl p = first_ttl c /\ p_round p = g_round (ghost_after c t0 l1) + 1.
Proof.
  intros HA E Hns Hnp.
  assert (E' : run_log c t0 is = (l1 ++ OPublish r now adv :: mid) ++ OSend p o :: l2) by (rewrite E, <- app_assoc; reflexivity).
  destruct (c06_run_send_lemma c t0 is _ p o l2 HA E') as (Ht & Hr & _).
  rewrite ghost_after_app in Ht, Hr. cbn [fold_left] in Ht, Hr.
  rewrite (gS_nil_kept c mid (gstep c (ghost_after c t0 l1) (OPublish r now adv)) Hns eq_refl) in Ht. rewrite (g_round_kept c mid _ Hnp) in Hr. split; assumption.
Qed.

(* the number a probe carries is the number of rounds published before it *)
Fixpoint npub (l : list obs) : nat :=
  match l with [] => O | OPublish _ _ _ :: t => S (npub t) | _ :: t => npub t end.

Lemma g_round_npub c l : forall g, g_round (fold_left (gstep c) l g) = g_round g + Z.of_nat (npub l).
Proof.
  induction l as [|o l IH]; intros g; cbn [fold_left npub]; [lia|].
  rewrite IH. destruct o as [p x|r|now|r now adv]; cbn [gstep g_round]; try lia.
  destruct (genuine c (g_S g) (g_A g) r) as [[p sr]|]; cbn [g_round]; lia.
Qed.

Lemma c06_round_number_lemma c t0 is l1 p o l2 : Accept c ->
  run_log c t0 is = l1 ++ OSend p o :: l2 -> p_round p = Z.of_nat (npub l1).
Proof.
  intros HA E. destruct (c06_run_send_lemma c t0 is l1 p o l2 HA E) as (_ & Hr & _).
  unfold ghost_after in Hr. rewrite g_round_npub in Hr. cbn [g_init g_round] in Hr. lia.
Qed.

(* ------------------------------------------------------------------ the ECMP rule: the only way beyond the distance *)
(* [reset_in c T g l]: somewhere in [l] a host that is NOT the target genuinely answers a probe whose ttl is at or
   beyond the distance established at that moment, that distance being at most T *)
Definition reset_in (c : scfg) (T : Z) (g : ghost) (l : list obs) : Prop :=
  exists a r b p sr d, l = a ++ ORecv r :: b /\
    let g' := fold_left (gstep c) a g in
    genuine c (g_S g') (g_A g') r = Some (p, sr) /\ sr_is_target sr = false /\
    g_dist g' = Some d /\ d <= T /\ d <= p_ttl p.

Lemma dist_kept_or_reset c T l : forall g, (exists x, g_dist g = Some x /\ x <= T) ->
  (exists x, g_dist (fold_left (gstep c) l g) = Some x /\ x <= T) \/ reset_in c T g l.
Proof.
  induction l as [|o l IH]; intros g Hx; cbn [fold_left]; [left; assumption|].
  assert (Hcons : reset_in c T (gstep c g o) l -> reset_in c T g (o :: l)).
  { intros (a & r & b & p & sr & d & -> & H). exists (o :: a), r, b, p, sr, d. split; [reflexivity|]. exact H. }
  assert (Hsame : g_dist (gstep c g o) = g_dist g ->
                  (exists x, g_dist (fold_left (gstep c) l (gstep c g o)) = Some x /\ x <= T) \/ reset_in c T g (o :: l)).
  { intros Es. destruct (IH (gstep c g o)) as [H|H]; [rewrite Es; assumption|left; assumption|right; apply Hcons; assumption]. }
  destruct o as [p x|r|now|r now adv]; try (apply Hsame; reflexivity).
  destruct (genuine c (g_S g) (g_A g) r) as [[p sr]|] eqn:Eg.
  2:{ apply Hsame. cbn [gstep]. rewrite Eg. reflexivity. }
  destruct Hx as (x & Ex & Hx).
  destruct (sr_is_target sr) eqn:Et.
  - destruct (IH (gstep c g (ORecv r))) as [H|H]; [|left; assumption|right; apply Hcons; assumption].
    cbn [gstep]. rewrite Eg. cbn [g_dist]. unfold dist_update. rewrite Et, Ex. exists (Z.min x (p_ttl p)). split; [reflexivity|lia].
  - destruct (x <=? p_ttl p) eqn:El.
    + right. exists [], r, l, p, sr, x. split; [reflexivity|]. cbn [fold_left]. repeat split; try assumption. lia.
    + destruct (IH (gstep c g (ORecv r))) as [H|H]; [|left; assumption|right; apply Hcons; assumption].
      cbn [gstep]. rewrite Eg. cbn [g_dist]. unfold dist_update. rewrite Et, Ex, El. exists x. split; [reflexivity|assumption].
Qed.

(* after the target has answered a probe p, a probe of a larger ttl is sent - in that round or any later one - only
   if in between the reset has happened *)
Lemma c06_beyond_distance_lemma c t0 is l1 r p sr l2 q o l3 : Accept c ->
  run_log c t0 is = l1 ++ ORecv r :: l2 ++ OSend q o :: l3 ->
  genuine c (g_S (ghost_after c t0 l1)) (g_A (ghost_after c t0 l1)) r = Some (p, sr) -> sr_is_target sr = true ->
  p_ttl q <= p_ttl p \/ reset_in c (p_ttl p) (ghost_after c t0 (l1 ++ [ORecv r])) l2.
Proof.
  intros HA E Hg Ht.
  assert (E' : run_log c t0 is = (l1 ++ ORecv r :: l2) ++ OSend q o :: l3) by (rewrite E, <- app_assoc; reflexivity).
  pose proof (c06_run_send_lemma c t0 is _ q o l3 HA E') as (_ & _ & _ & _ & Hd).
  assert (Hup : exists x, g_dist (ghost_after c t0 (l1 ++ [ORecv r])) = Some x /\ x <= p_ttl p).
  { rewrite ghost_after_app. cbn [fold_left gstep]. rewrite Hg. cbn [g_dist]. unfold dist_update. rewrite Ht.
    destruct (g_dist (ghost_after c t0 l1)) as [y|]; [exists (Z.min y (p_ttl p))|exists (p_ttl p)]; split; try reflexivity; lia. }
  destruct (dist_kept_or_reset c (p_ttl p) l2 _ Hup) as [(x & Ex & Hx)|Hres]; [left|right; assumption].
  replace (l1 ++ ORecv r :: l2) with ((l1 ++ [ORecv r]) ++ l2) in Hd by (rewrite <- app_assoc; reflexivity).
  rewrite ghost_after_app in Hd. rewrite Ex in Hd. lia.
Qed.

(* a known distance carried into a round bounds every probe of that round until a reset: in particular a round that
   starts with the distance d known and sees no answer sends exactly first_ttl..d (upper half: no probe above d) *)
Lemma c06_known_distance_bounds_lemma c t0 is l1 d mid q o l3 : Accept c ->
  run_log c t0 is = l1 ++ mid ++ OSend q o :: l3 ->
  g_dist (ghost_after c t0 l1) = Some d ->
  p_ttl q <= d \/ reset_in c d (ghost_after c t0 l1) mid.
Proof.
  intros HA E Hd0.
  assert (E' : run_log c t0 is = (l1 ++ mid) ++ OSend q o :: l3) by (rewrite E, <- app_assoc; reflexivity).
  pose proof (c06_run_send_lemma c t0 is _ q o l3 HA E') as (_ & _ & _ & _ & Hd).
  destruct (dist_kept_or_reset c d mid (ghost_after c t0 l1)) as [(x & Ex & Hx)|Hres]; [exists d; split; [assumption|lia]|left|right; assumption].
  rewrite ghost_after_app in Hd. rewrite Ex in Hd. lia.
Qed.

(* the rule, read as a proposition *)
Lemma allowed_reads_lemma c g :
  allowed c g = true <->
  (found (g_A g) = false /\ next_ttl c (g_S g) <= max_ttl c /\
   match g_dist g with
   | Some d => next_ttl c (g_S g) <= d
   | None => next_ttl c (g_S g) - (match farthest (g_A g) with Some m => m | None => first_ttl c - 1 end) <= max_inflight c
   end).
Proof.
  unfold allowed, wbase. destruct (found (g_A g)), (g_dist g) as [d|]; cbn [negb andb];
    rewrite ?andb_true_iff, ?Z.leb_le; intuition (try discriminate; try lia).
Qed.

(* ------------------------------------------------------------------ a quiet stretch, in closed form *)
(* the log from an iteration start on is again a log of iterations *)
Lemma iter_log_suffix c : forall g L, iter_log c g L -> forall l1 L', L = l1 ++ L' -> boundary l1 ->
  iter_log c (fold_left (gstep c) l1 g) L'.
Proof.
  intros g L HL. induction HL as [g B HB|g B rcv mk rest HB Hr Hmk HL IH]; intros l1 L' E Hb.
  - destruct Hb as [->|(l0 & m0 & -> & Hm0)].
    + cbn [app fold_left] in *. subst L'. apply il_stop. assumption.
    + exfalso. assert (Hin : In m0 (osends B)) by (rewrite E; apply in_or_app; left; apply in_or_app; right; left; reflexivity).
      pose proof (osends_no_marker B) as Hno. unfold no_marker in Hno. rewrite Forall_forall in Hno. apply (Hno m0 Hin Hm0).
  - assert (Hna : no_marker (osends B ++ rcv)).
    { unfold no_marker. apply Forall_app. split; [apply osends_no_marker|apply recv_no_marker; assumption]. }
    destruct Hb as [->|(l0 & m0 & -> & Hm0)].
    + cbn [app fold_left] in *. subst L'. apply il_iter; assumption.
    + rewrite app_assoc in E. rewrite <- (app_assoc l0 [m0]) in E. cbn [app] in E.
      destruct (split_first_marker _ _ _ _ _ _ Hna Hm0 E) as [(-> & -> & Et)|(l1' & -> & Et)].
      * subst L'. rewrite <- app_assoc. exact HL.
      * assert (Et' : rest = (l1' ++ [m0]) ++ L') by (rewrite Et, <- app_assoc; reflexivity).
        pose proof (IH (l1' ++ [m0]) L' Et' (or_intror (ex_intro _ l1' (ex_intro _ m0 (conj eq_refl Hm0))))) as H.
        replace (((osends B ++ rcv) ++ mk :: l1') ++ [m0]) with ((osends B ++ rcv ++ [mk]) ++ (l1' ++ [m0])).
        2:{ rewrite <- !app_assoc. cbn [app]. reflexivity. }
        rewrite fold_left_app. exact H.
Qed.

(* the rule as a function of the candidate ttl *)
Definition rule_at (c : scfg) (g : ghost) (t : Z) : bool :=
  negb (found (g_A g)) && (t <=? max_ttl c) &&
  match g_dist g with Some d => t <=? d | None => t - wbase c (g_A g) <=? max_inflight c end.

(* n iterations without a delivery: each sends the next ttl iff the rule allows it *)
Fixpoint quiet_ttl (c : scfg) (g : ghost) (n : nat) (t : Z) : Z :=
  match n with O => t | S n' => quiet_ttl c g n' (if rule_at c g t then t + 1 else t) end.

Lemma quiet_ttl_ext c g1 g : g_A g1 = g_A g -> g_dist g1 = g_dist g -> forall n t, quiet_ttl c g1 n t = quiet_ttl c g n t.
Proof.
  intros EA Ed. induction n as [|n IH]; intros t; cbn [quiet_ttl]; [reflexivity|].
  unfold rule_at. rewrite EA, Ed. apply IH.
Qed.

Definition no_recv (l : list obs) : Prop := forall r, ~ In (ORecv r) l.

Fixpoint nupd (l : list obs) : nat :=
  match l with [] => O | OUpdate _ :: t => S (nupd t) | _ :: t => nupd t end.

Lemma nupd_app a b : nupd (a ++ b) = (nupd a + nupd b)%nat.
Proof. induction a as [|o a IH]; [reflexivity|]. destruct o; cbn [app nupd]; rewrite IH; reflexivity. Qed.

Lemma nupd_osends B : nupd (osends B) = O.
Proof. induction B as [|po B IH]; [reflexivity|exact IH]. Qed.

Lemma quiet_one c g B rcv mk : batch_exact c g B -> recv_part rcv -> marker mk ->
  no_recv (osends B ++ rcv ++ [mk]) -> no_publish (osends B ++ rcv ++ [mk]) ->
  let g1 := fold_left (gstep c) (osends B ++ rcv ++ [mk]) g in
  g_A g1 = g_A g /\ g_dist g1 = g_dist g /\
  next_ttl c (g_S g1) = (if rule_at c g (next_ttl c (g_S g)) then next_ttl c (g_S g) + 1 else next_ttl c (g_S g)) /\
  nupd (osends B ++ rcv ++ [mk]) = 1%nat.
Proof.
  intros (Hf & Ht & _) Hr Hmk Hnr Hnp.
  assert (Er : rcv = []).
  { destruct Hr as [->|(r & ->)]; [reflexivity|]. exfalso. apply (Hnr r). apply in_or_app; right. left; reflexivity. }
  subst rcv. cbn [app] in *.
  destruct mk as [p x|r|now|r now adv]; try destruct Hmk.
  2:{ exfalso. apply (Hnp r now adv). apply in_or_app; right. left; reflexivity. }
  cbv zeta. rewrite fold_left_app. cbn [fold_left gstep]. unfold osends at 1 2 3. rewrite gfold_sends. cbn [g_A g_dist g_S].
  split; [reflexivity|]. split; [reflexivity|]. split.
  - change (rule_at c g (next_ttl c (g_S g))) with (allowed c g).
    destruct (allowed c g) eqn:Ea.
    + destruct (Ht eq_refl) as (B0 & p & o & -> & Hall & Ho). apply next_ttl_batch; assumption.
    + rewrite (Hf eq_refl), app_nil_r. reflexivity.
  - rewrite nupd_app, nupd_osends. reflexivity.
Qed.

Lemma no_recv_app a b : no_recv (a ++ b) -> no_recv a /\ no_recv b.
Proof. intros H. split; intros r Hin; apply (H r); apply in_or_app; [left|right]; assumption. Qed.

Lemma no_publish_app a b : no_publish (a ++ b) -> no_publish a /\ no_publish b.
Proof. intros H. split; intros r n x Hin; apply (H r n x); apply in_or_app; [left|right]; assumption. Qed.

Lemma quiet_prefix c : forall g L, iter_log c g L -> forall mid l2, L = mid ++ l2 -> boundary mid ->
  no_recv mid -> no_publish mid ->
  g_A (fold_left (gstep c) mid g) = g_A g /\ g_dist (fold_left (gstep c) mid g) = g_dist g /\
  next_ttl c (g_S (fold_left (gstep c) mid g)) = quiet_ttl c g (nupd mid) (next_ttl c (g_S g)).
Proof.
  intros g L HL. induction HL as [g B HB|g B rcv mk rest HB Hr Hmk HL IH]; intros mid l2 E Hb Hnr Hnp.
  - destruct Hb as [->|(l0 & m0 & -> & Hm0)]; [repeat split; reflexivity|].
    exfalso. assert (Hin : In m0 (osends B)) by (rewrite E; apply in_or_app; left; apply in_or_app; right; left; reflexivity).
    pose proof (osends_no_marker B) as Hno. unfold no_marker in Hno. rewrite Forall_forall in Hno. apply (Hno m0 Hin Hm0).
  - assert (Hna : no_marker (osends B ++ rcv)).
    { unfold no_marker. apply Forall_app. split; [apply osends_no_marker|apply recv_no_marker; assumption]. }
    destruct Hb as [->|(l0 & m0 & -> & Hm0)]; [repeat split; reflexivity|].
    rewrite app_assoc in E. rewrite <- (app_assoc l0 [m0]) in E. cbn [app] in E.
    destruct (split_first_marker _ _ _ _ _ _ Hna Hm0 E) as [(-> & -> & Et)|(l1' & -> & Et)].
    + rewrite <- app_assoc in Hnr, Hnp |- *.
      destruct (quiet_one c g B rcv mk HB Hr Hmk Hnr Hnp) as (EA & Ed & En & Eu).
      rewrite Eu. cbn [quiet_ttl]. repeat split; assumption.
    + replace (((osends B ++ rcv) ++ mk :: l1') ++ [m0]) with ((osends B ++ rcv ++ [mk]) ++ (l1' ++ [m0])) in *.
      2:{ rewrite <- !app_assoc. cbn [app]. reflexivity. }
      apply no_recv_app in Hnr. destruct Hnr as [Hnr1 Hnr2]. apply no_publish_app in Hnp. destruct Hnp as [Hnp1 Hnp2].
      destruct (quiet_one c g B rcv mk HB Hr Hmk Hnr1 Hnp1) as (EA & Ed & En & Eu).
      assert (Et' : rest = (l1' ++ [m0]) ++ l2) by (rewrite Et, <- app_assoc; reflexivity).
      destruct (IH (l1' ++ [m0]) l2 Et' (or_intror (ex_intro _ l1' (ex_intro _ m0 (conj eq_refl Hm0)))) Hnr2 Hnp2)
        as (EA2 & Ed2 & En2).
      rewrite fold_left_app, nupd_app, Eu. cbn [Nat.add quiet_ttl].
      split; [congruence|]. split; [congruence|].
      rewrite En2, En. apply quiet_ttl_ext; assumption.
Qed.

(* the closed form: the stretch sends one probe per iteration up to the limit of the rule, then stalls *)
Definition ttl_limit (c : scfg) (g : ghost) : Z :=
  Z.min (max_ttl c) (match g_dist g with Some d => d | None => wbase c (g_A g) + max_inflight c end).

Lemma quiet_ttl_closed c g : forall n t,
  quiet_ttl c g n t =
  if found (g_A g) then t else Z.max t (Z.min (t + Z.of_nat n) (ttl_limit c g + 1)).
Proof.
  assert (Hr : forall t, rule_at c g t = negb (found (g_A g)) && (t <=? ttl_limit c g)).
  { intros t. unfold rule_at, ttl_limit. destruct (found (g_A g)), (g_dist g) as [d|]; cbn [negb andb]; lia. }
  induction n as [|n IH]; intros t; cbn [quiet_ttl].
  - destruct (found (g_A g)); lia.
  - rewrite IH, Hr. destruct (found (g_A g)); cbn [negb andb]; [reflexivity|].
    destruct (t <=? ttl_limit c g) eqn:E; lia.
Qed.

Lemma c06_quiet_stretch_lemma c t0 is l1 mid l2 : Accept c ->
  run_log c t0 is = l1 ++ mid ++ l2 -> boundary l1 -> boundary mid -> no_recv mid -> no_publish mid ->
  let g := ghost_after c t0 l1 in
  next_ttl c (g_S (ghost_after c t0 (l1 ++ mid))) =
  if found (g_A g) then next_ttl c (g_S g)
  else Z.max (next_ttl c (g_S g)) (Z.min (next_ttl c (g_S g) + Z.of_nat (nupd mid)) (ttl_limit c g + 1)).
Proof.
  intros HA E Hb1 Hb2 Hnr Hnp g.
  pose proof (iter_log_suffix c _ _ (run_log_iter_lemma c t0 is HA) l1 (mid ++ l2) E Hb1) as HL.
  destruct (quiet_prefix c _ _ HL mid l2 eq_refl Hb2 Hnr Hnp) as (_ & _ & En).
  rewrite ghost_after_app. fold (ghost_after c t0 l1) in En. rewrite En. apply quiet_ttl_closed.
Qed.
