(* C11, the send path under socket errors: for EVERY list of injected socket errors, what `connect` followed by
   `send_probe` logs and returns is the error-free list of socket calls replayed as a script - each call with the
   `ErrorMapper` table the code applies to it - stopped at the first call whose error the table does not turn into
   success.  The specification vocabulary ([injected], the error tables, [run_script], [replay]) is defined here and
   shares nothing with the model except the types of Net/Sock.v. *)
From TV Require Import Base.Result Base.Bytes Core.Types Packet.Checksum Proofs.ChecksumProofs
  Net.Wire Net.Rfc Net.Sock Net.Dispatch4 Net.Dispatch6 Net.ChannelSend Net.SendSpec
  Proofs.WireProofs Proofs.Dispatch4Proofs Proofs.Dispatch6Proofs Proofs.ChannelSendProofs.
From Coq Require Import ZifyBool.
Ltac Zify.zify_post_hook ::= Z.div_mod_to_equations.

(* ================= specification vocabulary ================= *)

(* which kind of `Socket` call an operation is *)
Definition call_of (op : sockop) : call :=
  match op with
  | NewSocket _ _ => CNew | Bind _ _ => CBind | SetTtl _ => CSetTtl | SetTos _ => CSetTos
  | SetUnicastHopsV6 _ => CHops | Connect _ _ => CConnect | SendTo _ _ _ => CSendTo
  end.

Definition same_call (a b : call) : bool :=
  match a, b with
  | CNew, CNew => true | CBind, CBind => true | CConnect, CConnect => true | CSendTo, CSendTo => true
  | CSetTtl, CSetTtl => true | CSetTos, CSetTos => true | CHops, CHops => true
  | _, _ => false
  end.

(* the error the environment injects into the (only) call of kind [c]: the first entry of that kind *)
Fixpoint injected (c : call) (inj : list (call * Z)) : option Z :=
  match inj with
  | [] => None
  | (c', k) :: t => if same_call c c' then Some k else injected c t
  end.

(* ---- the ErrorMapper tables (net/common.rs as used by net/ipv4.rs and net/ipv6.rs) ---- *)
(* no mapping: Error::IoError *)
Definition io_error (k : Z) : result unit := Err (EIo k).

(* bind of a fresh datagram / stream socket: EINPROGRESS is success, AddrInUse -> AddressInUse,
   AddrNotAvailable -> ProbeFailed (IPv4 only) *)
Definition bind_outcome (v6 : bool) (k : Z) : result unit :=
  if k =? K_IN_PROGRESS then Ok tt
  else if k =? K_ADDR_IN_USE then Err EAddressInUse
  else if negb v6 && (k =? K_ADDR_NOT_AVAILABLE) then Err EProbeFailed
  else Err (EIo k).

(* connect of a TCP probe: EINPROGRESS is success (the connect is non-blocking), AddrInUse -> AddressInUse,
   ENETUNREACH -> ProbeFailed (IPv4 only) *)
Definition connect_outcome (v6 : bool) (k : Z) : result unit :=
  if k =? K_IN_PROGRESS then Ok tt
  else if k =? K_ADDR_IN_USE then Err EAddressInUse
  else if negb v6 && (k =? K_NET_UNREACHABLE) then Err EProbeFailed
  else Err (EIo k).

(* send_to on the raw IPv4 sockets *)
Definition icmp4_send_outcome (k : Z) : result unit :=
  if (k =? K_HOST_UNREACHABLE) || (k =? K_NET_UNREACHABLE) || (k =? K_INVALID_INPUT) then Err EProbeFailed else Err (EIo k).
Definition udp4_send_outcome (k : Z) : result unit :=
  if (k =? K_HOST_UNREACHABLE) || (k =? K_NET_UNREACHABLE) then Err EProbeFailed else Err (EIo k).

(* the table for send_to depends on the cell: only the two raw IPv4 paths map anything *)
Definition send_outcome (cfg : chan_cfg) : Z -> result unit :=
  if is_v6 (cc_source cfg) then io_error
  else match cc_protocol cfg, cc_privilege cfg with
       | Icmp, _ => icmp4_send_outcome
       | Udp, Privileged => udp4_send_outcome
       | _, _ => io_error
       end.

(* the table the code applies to the error of each socket call *)
Definition outcome_table (cfg : chan_cfg) (op : sockop) : Z -> result unit :=
  match op with
  | Bind _ _ => bind_outcome (is_v6 (cc_source cfg))
  | Connect _ _ => connect_outcome (is_v6 (cc_source cfg))
  | SendTo _ _ _ => send_outcome cfg
  | NewSocket _ _ | SetTtl _ | SetTos _ | SetUnicastHopsV6 _ => io_error
  end.

(* ---- a dispatch as a script ---- *)
Record step := { st_op : sockop; st_map : Z -> result unit }.

(* the calls are made in order; a call without an injected error succeeds; an injected error goes through
   the step's table; the run stops at the first error the table leaves an error.  A constructor that fails
   leaves no socket and therefore no log entry; every other call is logged even when it fails. *)
Fixpoint run_script (steps : list step) (inj : list (call * Z)) : list sockop * result unit :=
  match steps with
  | [] => ([], Ok tt)
  | s :: rest =>
    match injected (call_of (st_op s)) inj with
    | None => let (ops, r) := run_script rest inj in (st_op s :: ops, r)
    | Some k =>
      let logged := match st_op s with NewSocket _ _ => [] | op => [op] end in
      match st_map s k with
      | Ok _ => let (ops, r) := run_script rest inj in (logged ++ ops, r)
      | Err e => (logged, Err e)
      | Fault f => (logged, Fault f)
      end
    end
  end.

Definition step_of (cfg : chan_cfg) (op : sockop) : step := {| st_op := op; st_map := outcome_table cfg op |}.

(* the error-free operation list [ops] of a probe, replayed under the injected errors *)
Definition replay (cfg : chan_cfg) (ops : list sockop) (inj : list (call * Z)) : list sockop * result unit :=
  run_script (map (step_of cfg) ops) inj.

(* ================= lemmas ================= *)
Lemma same_call_eqb a b : same_call a b = call_eqb a b.
Proof. destruct a, b; reflexivity. Qed.

Lemma same_call_true a b : same_call a b = true <-> a = b.
Proof. destruct a, b; cbn; split; intro H; try reflexivity; try discriminate. Qed.

Fixpoint remove_first (c : call) (inj : list (call * Z)) : list (call * Z) :=
  match inj with
  | [] => []
  | (c', k) :: t => if same_call c c' then t else (c', k) :: remove_first c t
  end.

Lemma take_injected_spec c inj : take_injected c inj = (injected c inj, remove_first c inj).
Proof.
  induction inj as [|[c' k] t IH]; [reflexivity|].
  cbn [take_injected injected remove_first]. rewrite <- same_call_eqb.
  destruct (same_call c c'); [reflexivity|]. rewrite IH. reflexivity.
Qed.

Lemma injected_remove_other c c' inj : c <> c' -> injected c (remove_first c' inj) = injected c inj.
Proof.
  intro Hne. induction inj as [|[c2 k] t IH]; [reflexivity|].
  cbn [remove_first injected].
  destruct (same_call c' c2) eqn:E1.
  - apply same_call_true in E1. subst c2.
    destruct (same_call c c') eqn:E2; [apply same_call_true in E2; congruence|reflexivity].
  - cbn [injected]. rewrite IH. reflexivity.
Qed.

Lemma run_script_remove_other steps c inj :
  (forall s, In s steps -> call_of (st_op s) <> c) ->
  run_script steps (remove_first c inj) = run_script steps inj.
Proof.
  induction steps as [|s rest IH]; intro Hne; [reflexivity|].
  cbn [run_script]. rewrite injected_remove_other by (apply Hne; left; reflexivity).
  rewrite IH by (intros s' Hs'; apply Hne; right; exact Hs'). reflexivity.
Qed.

Lemma run_script_clean steps : run_script steps [] = (map st_op steps, Ok tt).
Proof. induction steps as [|s rest IH]; [reflexivity|]. cbn [run_script injected map]. rewrite IH. reflexivity. Qed.

(* ---- the model's primitives as steps ---- *)
Definition step_sem (s : step) : M unit := fun w =>
  let (r, rest) := take_injected (call_of (st_op s)) (w_inject w) in
  ({| w_ops := w_ops w ++ match r, st_op s with Some _, NewSocket _ _ => [] | _, op => [op] end; w_inject := rest |},
   match r with Some k => st_map s k | None => Ok tt end).

Definition implements (m : M unit) (steps : list step) : Prop :=
  forall w, w_ops (fst (m w)) = w_ops w ++ fst (run_script steps (w_inject w)) /\
            snd (m w) = snd (run_script steps (w_inject w)).

Lemma implements_ext (m m' : M unit) steps : (forall w, m w = m' w) -> implements m' steps -> implements m steps.
Proof. intros E H w. rewrite E. apply H. Qed.

Lemma implements_single (m : M unit) s : (forall w, m w = step_sem s w) -> implements m [s].
Proof.
  intros H w. rewrite H. unfold step_sem. rewrite take_injected_spec. cbn [run_script].
  destruct (injected (call_of (st_op s)) (w_inject w)) as [k|]; cbn [fst snd w_ops].
  - destruct (st_map s k) as [[]|e|f]; cbn [fst snd]; rewrite ?app_nil_r; split; reflexivity.
  - split; reflexivity.
Qed.

Lemma implements_cons (m1 : M unit) (m2 : M unit) s rest :
  (forall w, m1 w = step_sem s w) -> implements m2 rest ->
  (forall s', In s' rest -> call_of (st_op s') <> call_of (st_op s)) ->
  implements (let^ _ := m1 in m2) (s :: rest).
Proof.
  intros H1 H2 Hne w. unfold mbind. rewrite H1. unfold step_sem. rewrite take_injected_spec.
  cbn [run_script].
  destruct (injected (call_of (st_op s)) (w_inject w)) as [k|].
  - destruct (st_map s k) as [[]|e|f]; cbn [fst snd w_ops]; try (split; reflexivity).
    match goal with |- context [m2 ?w1] => destruct (H2 w1) as [Ha Hb] end.
    cbn [w_ops w_inject] in Ha, Hb. rewrite run_script_remove_other in Ha, Hb by exact Hne.
    rewrite Ha, Hb. destruct (run_script rest (w_inject w)) as [ops r]. cbn [fst snd].
    rewrite <- app_assoc. split; reflexivity.
  - match goal with |- context [m2 ?w1] => destruct (H2 w1) as [Ha Hb] end.
    cbn [w_ops w_inject] in Ha, Hb. rewrite run_script_remove_other in Ha, Hb by exact Hne.
    rewrite Ha, Hb. destruct (run_script rest (w_inject w)) as [ops r]. cbn [fst snd].
    rewrite <- app_assoc. split; reflexivity.
Qed.

(* the pure part of a raw path *)
Lemma implements_lift_ok {A} (b : A) (k : A -> M unit) steps :
  implements (k b) steps -> implements (let^ x := lift (Ok b) in k x) steps.
Proof. intros H w. exact (H w). Qed.

Lemma sock_new_step k raw w : sock_new k raw w = step_sem {| st_op := NewSocket k raw; st_map := io_error |} w.
Proof.
  unfold sock_new, step_sem. cbn [st_op st_map call_of].
  destruct (take_injected CNew (w_inject w)) as [[e|] rest]; [rewrite app_nil_r|]; reflexivity.
Qed.

Lemma sock_call_step op w : (forall k raw, op <> NewSocket k raw) ->
  sock_call (call_of op) op w = step_sem {| st_op := op; st_map := io_error |} w.
Proof.
  intro Hn. unfold sock_call, step_sem. cbn [st_op st_map].
  destruct (take_injected (call_of op) (w_inject w)) as [[e|] rest]; [|reflexivity].
  destruct op; try reflexivity. exfalso. eapply Hn. reflexivity.
Qed.

Lemma bind4_step a port w :
  map_err (map_err (or_else (bind_sock a port) in_progress) addr_in_use) (probe_failed K_ADDR_NOT_AVAILABLE) w
  = step_sem {| st_op := Bind a port; st_map := bind_outcome false |} w.
Proof.
  unfold map_err, or_else, bind_sock, sock_call, step_sem. cbn [st_op st_map call_of].
  destruct (take_injected CBind (w_inject w)) as [[k|] rest]; [|reflexivity].
  f_equal. unfold in_progress, bind_outcome, addr_in_use, probe_failed,
    K_IN_PROGRESS, K_ADDR_IN_USE, K_ADDR_NOT_AVAILABLE. cbn [negb andb].
  destruct (k =? 1) eqn:E1; [reflexivity|]. destruct (k =? 10) eqn:E2; [reflexivity|].
  destruct (k =? 11) eqn:E3; reflexivity.
Qed.

Lemma bind6_step a port w :
  map_err (or_else (bind_sock a port) in_progress) addr_in_use w
  = step_sem {| st_op := Bind a port; st_map := bind_outcome true |} w.
Proof.
  unfold map_err, or_else, bind_sock, sock_call, step_sem. cbn [st_op st_map call_of].
  destruct (take_injected CBind (w_inject w)) as [[k|] rest]; [|reflexivity].
  f_equal. unfold in_progress, bind_outcome, addr_in_use, K_IN_PROGRESS, K_ADDR_IN_USE. cbn [negb andb].
  destruct (k =? 1) eqn:E1; [reflexivity|]. destruct (k =? 10) eqn:E2; reflexivity.
Qed.

Lemma connect4_step a port w :
  map_err (map_err (or_else (connect_sock a port) in_progress) addr_in_use) (probe_failed K_NET_UNREACHABLE) w
  = step_sem {| st_op := Connect a port; st_map := connect_outcome false |} w.
Proof.
  unfold map_err, or_else, connect_sock, sock_call, step_sem. cbn [st_op st_map call_of].
  destruct (take_injected CConnect (w_inject w)) as [[k|] rest]; [|reflexivity].
  f_equal. unfold in_progress, connect_outcome, addr_in_use, probe_failed,
    K_IN_PROGRESS, K_ADDR_IN_USE, K_NET_UNREACHABLE. cbn [negb andb].
  destruct (k =? 1) eqn:E1; [reflexivity|]. destruct (k =? 10) eqn:E2; [reflexivity|].
  destruct (k =? 3) eqn:E3; reflexivity.
Qed.

Lemma connect6_step a port w :
  map_err (or_else (connect_sock a port) in_progress) addr_in_use w
  = step_sem {| st_op := Connect a port; st_map := connect_outcome true |} w.
Proof.
  unfold map_err, or_else, connect_sock, sock_call, step_sem. cbn [st_op st_map call_of].
  destruct (take_injected CConnect (w_inject w)) as [[k|] rest]; [|reflexivity].
  f_equal. unfold in_progress, connect_outcome, addr_in_use, K_IN_PROGRESS, K_ADDR_IN_USE. cbn [negb andb].
  destruct (k =? 1) eqn:E1; [reflexivity|]. destruct (k =? 10) eqn:E2; reflexivity.
Qed.

Definition send_icmp4 (c : ipv4) (b : list Z) : M unit :=
  map_err (map_err (map_err (send_to b (v4_dest c) 0)
    (probe_failed K_HOST_UNREACHABLE)) (probe_failed K_NET_UNREACHABLE)) (probe_failed K_INVALID_INPUT).
Definition send_udp4 (c : ipv4) (p : probe) (b : list Z) : M unit :=
  map_err (map_err (send_to b (v4_dest c) (p_dest_port p))
    (probe_failed K_HOST_UNREACHABLE)) (probe_failed K_NET_UNREACHABLE).

Lemma send_icmp4_step c b w :
  send_icmp4 c b w = step_sem {| st_op := SendTo b (v4_dest c) 0; st_map := icmp4_send_outcome |} w.
Proof.
  unfold send_icmp4, map_err, send_to, sock_call, step_sem. cbn [st_op st_map call_of].
  destruct (take_injected CSendTo (w_inject w)) as [[k|] rest]; [|reflexivity].
  f_equal. unfold icmp4_send_outcome, probe_failed, K_HOST_UNREACHABLE, K_NET_UNREACHABLE, K_INVALID_INPUT.
  destruct (k =? 2) eqn:E1; [reflexivity|]. destruct (k =? 3) eqn:E2; [reflexivity|].
  destruct (k =? 12) eqn:E3; reflexivity.
Qed.

Lemma send_udp4_step c p b w :
  send_udp4 c p b w = step_sem {| st_op := SendTo b (v4_dest c) (p_dest_port p); st_map := udp4_send_outcome |} w.
Proof.
  unfold send_udp4, map_err, send_to, sock_call, step_sem. cbn [st_op st_map call_of].
  destruct (take_injected CSendTo (w_inject w)) as [[k|] rest]; [|reflexivity].
  f_equal. unfold udp4_send_outcome, probe_failed, K_HOST_UNREACHABLE, K_NET_UNREACHABLE.
  destruct (k =? 2) eqn:E1; [reflexivity|]. destruct (k =? 3) eqn:E2; reflexivity.
Qed.

(* ---- the eight cells as scripts ---- *)
Ltac distinct_calls :=
  let s := fresh "s" in let Hs := fresh "Hs" in
  intros s Hs; cbn [In] in Hs;
  repeat (destruct Hs as [Hs|Hs]; [subst s; cbn [st_op call_of]; discriminate|]); destruct Hs.

Definition io_step (op : sockop) : step := {| st_op := op; st_map := io_error |}.

Definition tcp4_steps (c : ipv4) (p : probe) : list step :=
  [ io_step (NewSocket SkTcp4 false);
    {| st_op := Bind (v4_src c) (p_src_port p); st_map := bind_outcome false |};
    io_step (SetTtl (p_ttl p)); io_step (SetTos (v4_tos c));
    {| st_op := Connect (v4_dest c) (p_dest_port p); st_map := connect_outcome false |} ].

Definition tcp6_steps (c : ipv6) (p : probe) : list step :=
  [ io_step (NewSocket SkTcp6 false);
    {| st_op := Bind (v6_src c) (p_src_port p); st_map := bind_outcome true |};
    io_step (SetUnicastHopsV6 (p_ttl p));
    {| st_op := Connect (v6_dest c) (p_dest_port p); st_map := connect_outcome true |} ].

Definition udp_non_raw4_steps (c : ipv4) (p : probe) (payload : list Z) : list step :=
  [ io_step (NewSocket SkUdp4 false);
    {| st_op := Bind (v4_src c) (p_src_port p); st_map := bind_outcome false |};
    io_step (SetTtl (p_ttl p)); io_step (SetTos (v4_tos c));
    io_step (SendTo payload (v4_dest c) (p_dest_port p)) ].

Definition udp_non_raw6_steps (c : ipv6) (p : probe) (payload : list Z) : list step :=
  [ io_step (NewSocket SkUdp6 false);
    {| st_op := Bind (v6_src c) (p_src_port p); st_map := bind_outcome true |};
    io_step (SetUnicastHopsV6 (p_ttl p));
    io_step (SendTo payload (v6_dest c) (p_dest_port p)) ].

Definition raw6_steps (c : ipv6) (p : probe) (b : list Z) : list step :=
  [ io_step (SetUnicastHopsV6 (p_ttl p)); io_step (SendTo b (v6_dest c) 0) ].

Lemma io_call_step op w : (forall k raw, op <> NewSocket k raw) ->
  sock_call (call_of op) op w = step_sem (io_step op) w.
Proof. apply sock_call_step. Qed.

Lemma tcp4_implements c p : implements (dispatch_tcp_probe4 c p) (tcp4_steps c p).
Proof.
  unfold dispatch_tcp_probe4, tcp4_steps, set_ttl, set_tos.
  apply implements_cons; [intro w; apply sock_new_step| |distinct_calls].
  apply implements_cons; [intro w; apply bind4_step| |distinct_calls].
  apply implements_cons; [intro w; apply (io_call_step (SetTtl (p_ttl p))); discriminate| |distinct_calls].
  apply implements_cons; [intro w; apply (io_call_step (SetTos (v4_tos c))); discriminate| |distinct_calls].
  apply implements_single. intro w. apply connect4_step.
Qed.

Lemma tcp6_implements c p : implements (dispatch_tcp_probe6 c p) (tcp6_steps c p).
Proof.
  unfold dispatch_tcp_probe6, tcp6_steps, set_unicast_hops_v6.
  apply implements_cons; [intro w; apply sock_new_step| |distinct_calls].
  apply implements_cons; [intro w; apply bind6_step| |distinct_calls].
  apply implements_cons; [intro w; apply (io_call_step (SetUnicastHopsV6 (p_ttl p))); discriminate| |distinct_calls].
  apply implements_single. intro w. apply connect6_step.
Qed.

Lemma udp_non_raw4_implements c p payload :
  implements (dispatch_udp_probe_non_raw4 c p payload) (udp_non_raw4_steps c p payload).
Proof.
  unfold dispatch_udp_probe_non_raw4, udp_non_raw4_steps, set_ttl, set_tos, send_to.
  apply implements_cons; [intro w; apply sock_new_step| |distinct_calls].
  apply implements_cons; [intro w; apply bind4_step| |distinct_calls].
  apply implements_cons; [intro w; apply (io_call_step (SetTtl (p_ttl p))); discriminate| |distinct_calls].
  apply implements_cons; [intro w; apply (io_call_step (SetTos (v4_tos c))); discriminate| |distinct_calls].
  apply implements_single. intro w. apply (io_call_step (SendTo payload (v4_dest c) (p_dest_port p))). discriminate.
Qed.

Lemma udp_non_raw6_implements c p payload :
  implements (dispatch_udp_probe_non_raw6 c p payload) (udp_non_raw6_steps c p payload).
Proof.
  unfold dispatch_udp_probe_non_raw6, udp_non_raw6_steps, set_unicast_hops_v6, send_to.
  apply implements_cons; [intro w; apply sock_new_step| |distinct_calls].
  apply implements_cons; [intro w; apply bind6_step| |distinct_calls].
  apply implements_cons; [intro w; apply (io_call_step (SetUnicastHopsV6 (p_ttl p))); discriminate| |distinct_calls].
  apply implements_single. intro w. apply (io_call_step (SendTo payload (v6_dest c) (p_dest_port p))). discriminate.
Qed.

Lemma raw6_implements c p b : implements (hops_then_send c p b) (raw6_steps c p b).
Proof.
  unfold hops_then_send, raw6_steps, set_unicast_hops_v6, send_to.
  apply implements_cons; [intro w; apply (io_call_step (SetUnicastHopsV6 (p_ttl p))); discriminate| |distinct_calls].
  apply implements_single. intro w. apply (io_call_step (SendTo b (v6_dest c) 0)). discriminate.
Qed.

(* ---- the shape of the paths with a pure (packet building) part: whatever it computes, it is computed
   before the first socket call and does not depend on the socket ---- *)
Lemma icmp4_shape c p : exists r, forall w,
  dispatch_icmp_probe4 c p w = (let^ b := lift r in send_icmp4 c b) w.
Proof.
  unfold dispatch_icmp_probe4. destruct (negb _).
  - exists (Err EInvalidPacketSize). reflexivity.
  - eexists. intro w. reflexivity.
Qed.

Lemma udp4_shape c p : exists r, forall w,
  dispatch_udp_probe4 c p w =
  (let^ payload := lift r in
   match v4_privilege c with
   | Privileged => dispatch_udp_probe_raw4 c p payload
   | Unprivileged => dispatch_udp_probe_non_raw4 c p payload
   end) w.
Proof.
  unfold dispatch_udp_probe4. destruct (negb _).
  - exists (Err EInvalidPacketSize). reflexivity.
  - eexists. intro w. reflexivity.
Qed.

Lemma udp_raw4_shape c p payload : exists r, forall w,
  dispatch_udp_probe_raw4 c p payload w = (let^ b := lift r in send_udp4 c p b) w.
Proof. eexists. intro w. reflexivity. Qed.

Lemma icmp6_shape c p : exists r, forall w,
  dispatch_icmp_probe6 c p w = (let^ b := lift r in hops_then_send c p b) w.
Proof.
  unfold dispatch_icmp_probe6. destruct (negb _).
  - exists (Err EInvalidPacketSize). reflexivity.
  - eexists. intro w. reflexivity.
Qed.

Lemma udp6_shape c p : exists r, forall w,
  dispatch_udp_probe6 c p w =
  (let^ payload := lift r in
   match v6_privilege c with
   | Privileged => dispatch_udp_probe_raw6 c p payload
   | Unprivileged => dispatch_udp_probe_non_raw6 c p payload
   end) w.
Proof.
  unfold dispatch_udp_probe6. destruct (negb _).
  - exists (Err EInvalidPacketSize). reflexivity.
  - eexists. intro w. reflexivity.
Qed.

Lemma udp_raw6_shape c p payload : exists r, forall w,
  dispatch_udp_probe_raw6 c p payload w = (let^ b := lift r in hops_then_send c p b) w.
Proof. eexists. intro w. reflexivity. Qed.

(* ---- from a script to the statement about run_send ---- *)
Lemma ops_res_implements (m : M unit) steps ops0 inj : implements m steps ->
  ops_res (m {| w_ops := ops0; w_inject := inj |}) =
  (ops0 ++ fst (run_script steps inj), snd (run_script steps inj)).
Proof.
  intro H. rewrite ops_res_unit. destruct (H {| w_ops := ops0; w_inject := inj |}) as [Ha Hb].
  cbn [w_ops w_inject] in Ha, Hb. rewrite Ha, Hb. reflexivity.
Qed.

Lemma any_errors_from_script cfg (m : M unit) steps ops0 ops inj :
  implements m steps -> map (step_of cfg) (map st_op steps) = steps ->
  ops_res (m {| w_ops := ops0; w_inject := [] |}) = (ops0 ++ ops, Ok tt) ->
  ops_res (m {| w_ops := ops0; w_inject := inj |}) = (ops0 ++ fst (replay cfg ops inj), snd (replay cfg ops inj)).
Proof.
  intros Hi Hs H0. rewrite (ops_res_implements _ _ _ _ Hi), run_script_clean in H0. cbn [fst snd] in H0.
  inversion H0 as [H1]. apply app_inv_head in H1. subst ops.
  rewrite (ops_res_implements _ _ _ _ Hi). unfold replay. rewrite Hs. reflexivity.
Qed.

Lemma ops_res_lift_not_ok {A} (r : result A) (k : A -> M unit) w x :
  (forall b, r <> Ok b) -> ops_res ((let^ b := lift r in k b) w) <> (x, Ok tt).
Proof.
  intros Hr. unfold mbind, lift, ops_res. destruct r as [b|e|f]; cbn [fst snd]; try (intro H; discriminate).
  exfalso. apply (Hr b). reflexivity.
Qed.

(* ================= the statement: every cell, every list of injected errors ================= *)
Lemma c11_any_errors_lemma bo cfg inj p ops :
  cfg_v4 cfg \/ cfg_v6 cfg ->
  run_send bo cfg [] p = (connect_ops (is_v6 (cc_source cfg)) cfg ++ ops, Ok tt) ->
  run_send bo cfg inj p =
    (connect_ops (is_v6 (cc_source cfg)) cfg ++ fst (replay cfg ops inj), snd (replay cfg ops inj)).
Proof.
  intros Hfam H0.
  assert (Hsz : cc_packet_size cfg <= 1024).
  { destruct (Z_le_dec (cc_packet_size cfg) 1024) as [H|H]; [exact H|].
    rewrite run_send_oversize in H0 by lia. discriminate. }
  destruct Hfam as [(Hs & Hd & _)|(Hs & Hd & _)].
  - (* IPv4 *)
    assert (Ev6 : is_v6 (cc_source cfg) = false) by (apply is_v6_4; exact Hs).
    rewrite Ev6 in *. rewrite run_send_v4 in H0 |- * by assumption. cbv zeta in H0 |- *.
    set (c := ipv4_of bo cfg) in *.
    destruct (cc_protocol cfg) eqn:Ep.
    + destruct (icmp4_shape c p) as [r Hr]. rewrite Hr in H0 |- *.
      destruct r as [b|e|f]; try (exfalso; revert H0; apply ops_res_lift_not_ok; intros b; discriminate).
      apply (any_errors_from_script cfg _ [{| st_op := SendTo b (v4_dest c) 0; st_map := icmp4_send_outcome |}]);
        [apply implements_lift_ok, implements_single; intro w; apply send_icmp4_step | | exact H0].
      cbn [map st_op]. unfold step_of, outcome_table, send_outcome. rewrite Ev6, Ep. reflexivity.
    + destruct (udp4_shape c p) as [r Hr]. rewrite Hr in H0 |- *.
      destruct r as [payload|e|f]; try (exfalso; revert H0; apply ops_res_lift_not_ok; intros b; discriminate).
      change (v4_privilege c) with (cc_privilege cfg) in H0 |- *.
      destruct (cc_privilege cfg) eqn:Epriv.
      * change ((let^ pl := lift (Ok payload) in dispatch_udp_probe_raw4 c p pl) ?w)
          with (dispatch_udp_probe_raw4 c p payload w) in H0 |- *.
        destruct (udp_raw4_shape c p payload) as [r Hr2]. rewrite Hr2 in H0 |- *.
        destruct r as [b|e|f]; try (exfalso; revert H0; apply ops_res_lift_not_ok; intros b; discriminate).
        apply (any_errors_from_script cfg _
                 [{| st_op := SendTo b (v4_dest c) (p_dest_port p); st_map := udp4_send_outcome |}]);
          [apply implements_lift_ok, implements_single; intro w; apply send_udp4_step | | exact H0].
        cbn [map st_op]. unfold step_of, outcome_table, send_outcome. rewrite Ev6, Ep, Epriv. reflexivity.
      * apply (any_errors_from_script cfg _ (udp_non_raw4_steps c p payload));
          [apply implements_lift_ok, udp_non_raw4_implements | | exact H0].
        unfold udp_non_raw4_steps, io_step. cbn [map st_op].
        unfold step_of, outcome_table, send_outcome. rewrite Ev6, Ep, Epriv. reflexivity.
    + apply (any_errors_from_script cfg _ (tcp4_steps c p)); [apply tcp4_implements | | exact H0].
      unfold tcp4_steps, io_step. cbn [map st_op]. unfold step_of, outcome_table. rewrite Ev6. reflexivity.
  - (* IPv6 *)
    assert (Ev6 : is_v6 (cc_source cfg) = true) by (apply is_v6_16; exact Hs).
    rewrite Ev6 in *. rewrite run_send_v6 in H0 |- * by assumption. cbv zeta in H0 |- *.
    set (c := ipv6_of cfg) in *.
    destruct (cc_protocol cfg) eqn:Ep.
    + destruct (icmp6_shape c p) as [r Hr]. rewrite Hr in H0 |- *.
      destruct r as [b|e|f]; try (exfalso; revert H0; apply ops_res_lift_not_ok; intros b; discriminate).
      apply (any_errors_from_script cfg _ (raw6_steps c p b));
        [apply implements_lift_ok, raw6_implements | | exact H0].
      unfold raw6_steps, io_step. cbn [map st_op]. unfold step_of, outcome_table, send_outcome. rewrite Ev6. reflexivity.
    + destruct (udp6_shape c p) as [r Hr]. rewrite Hr in H0 |- *.
      destruct r as [payload|e|f]; try (exfalso; revert H0; apply ops_res_lift_not_ok; intros b; discriminate).
      change (v6_privilege c) with (cc_privilege cfg) in H0 |- *.
      destruct (cc_privilege cfg) eqn:Epriv.
      * unfold mbind at 1, lift at 1 in H0. unfold mbind at 1, lift at 1.
        destruct (udp_raw6_shape c p payload) as [r Hr2]. rewrite Hr2 in H0 |- *.
        destruct r as [b|e|f]; try (exfalso; revert H0; apply ops_res_lift_not_ok; intros b; discriminate).
        apply (any_errors_from_script cfg _ (raw6_steps c p b));
          [apply implements_lift_ok, raw6_implements | | exact H0].
        unfold raw6_steps, io_step. cbn [map st_op]. unfold step_of, outcome_table, send_outcome. rewrite Ev6. reflexivity.
      * apply (any_errors_from_script cfg _ (udp_non_raw6_steps c p payload));
          [apply implements_lift_ok, udp_non_raw6_implements | | exact H0].
        unfold udp_non_raw6_steps, io_step. cbn [map st_op].
        unfold step_of, outcome_table, send_outcome. rewrite Ev6. reflexivity.
    + apply (any_errors_from_script cfg _ (tcp6_steps c p)); [apply tcp6_implements | | exact H0].
      unfold tcp6_steps, io_step. cbn [map st_op]. unfold step_of, outcome_table. rewrite Ev6. reflexivity.
Qed.

(* ---- consequences: errors only truncate the list of calls; success means every call was made ---- *)
Lemma replay_cons cfg op ops inj :
  replay cfg (op :: ops) inj =
  match injected (call_of op) inj with
  | None => let (o, r) := replay cfg ops inj in (op :: o, r)
  | Some k =>
    let logged := match op with NewSocket _ _ => [] | op => [op] end in
    match outcome_table cfg op k with
    | Ok _ => let (o, r) := replay cfg ops inj in (logged ++ o, r)
    | Err e => (logged, Err e)
    | Fault f => (logged, Fault f)
    end
  end.
Proof. destruct op; reflexivity. Qed.

Lemma logged_when_ok cfg op k u : outcome_table cfg op k = Ok u ->
  match op with NewSocket _ _ => [] | op => [op] end = [op].
Proof. destruct op; try reflexivity. cbn. unfold io_error. discriminate. Qed.

Lemma logged_prefix (op : sockop) l :
  exists n, match op with NewSocket _ _ => [] | op => [op] end = firstn n (op :: l).
Proof. destruct op; first [ exists 0%nat; reflexivity | exists 1%nat; reflexivity ]. Qed.

Lemma replay_prefix cfg ops inj : exists n, fst (replay cfg ops inj) = firstn n ops.
Proof.
  induction ops as [|op ops [n IH]]; [exists 0%nat; reflexivity|].
  rewrite replay_cons. destruct (injected (call_of op) inj) as [k|].
  - cbv zeta. destruct (outcome_table cfg op k) as [u|e|f] eqn:E.
    + rewrite (logged_when_ok cfg op k u E).
      destruct (replay cfg ops inj) as [o r]. cbn [fst] in *. exists (S n). cbn [app firstn]. rewrite IH. reflexivity.
    + cbn [fst]. apply logged_prefix.
    + cbn [fst]. apply logged_prefix.
  - destruct (replay cfg ops inj) as [o r]. cbn [fst] in *. exists (S n). cbn [firstn]. rewrite IH. reflexivity.
Qed.

Lemma replay_ok_complete cfg ops inj : snd (replay cfg ops inj) = Ok tt -> fst (replay cfg ops inj) = ops.
Proof.
  induction ops as [|op ops IH]; [reflexivity|].
  rewrite replay_cons. destruct (injected (call_of op) inj) as [k|].
  - cbv zeta. destruct (outcome_table cfg op k) as [u|e|f] eqn:E; try (cbn [snd]; discriminate).
    rewrite (logged_when_ok cfg op k u E).
    destruct (replay cfg ops inj) as [o r]. cbn [fst snd] in *. intro Hr. rewrite (IH Hr). reflexivity.
  - destruct (replay cfg ops inj) as [o r]. cbn [fst snd] in *. intro Hr. rewrite (IH Hr). reflexivity.
Qed.

Lemma in_firstn {A} (x : A) n : forall l, In x (firstn n l) -> In x l.
Proof.
  induction n as [|n IH]; intros [|y l] Hin; cbn [firstn In] in *; try contradiction.
  destruct Hin as [Hin|Hin]; [left; exact Hin|right; apply IH; exact Hin].
Qed.

Lemma c11_errors_only_truncate_lemma bo cfg inj p ops :
  cfg_v4 cfg \/ cfg_v6 cfg ->
  run_send bo cfg [] p = (connect_ops (is_v6 (cc_source cfg)) cfg ++ ops, Ok tt) ->
  (exists n, fst (run_send bo cfg inj p) = connect_ops (is_v6 (cc_source cfg)) cfg ++ firstn n ops) /\
  (snd (run_send bo cfg inj p) = Ok tt ->
   fst (run_send bo cfg inj p) = connect_ops (is_v6 (cc_source cfg)) cfg ++ ops).
Proof.
  intros Hfam H0. rewrite (c11_any_errors_lemma bo cfg inj p ops Hfam H0). cbn [fst snd]. split.
  - destruct (replay_prefix cfg ops inj) as [n Hn]. exists n. rewrite Hn. reflexivity.
  - intro Hr. rewrite (replay_ok_complete cfg ops inj Hr). reflexivity.
Qed.

(* a datagram handed to send_to under any errors is the datagram of the error-free run *)
Lemma c11_same_datagram_lemma bo cfg inj p ops b a port :
  cfg_v4 cfg \/ cfg_v6 cfg ->
  run_send bo cfg [] p = (connect_ops (is_v6 (cc_source cfg)) cfg ++ ops, Ok tt) ->
  In (SendTo b a port) (fst (run_send bo cfg inj p)) -> In (SendTo b a port) ops.
Proof.
  intros Hfam H0 Hin.
  destruct (proj1 (c11_errors_only_truncate_lemma bo cfg inj p ops Hfam H0)) as [n Hn].
  rewrite Hn in Hin. apply in_app_or in Hin. destruct Hin as [Hin|Hin].
  - exfalso. revert Hin. apply connect_ops_no_send.
  - exact (in_firstn _ n ops Hin).
Qed.

(* ---- TCP: whenever connect is called - whatever errors are injected - the socket is fresh, bound to
   source:src_port, the time-to-live / hop limit and (IPv4) the type of service have been set, and the
   connect goes to target:dest_port ---- *)
Lemma in_firstn_last {A} (x : A) l0 n :
  ~ In x l0 -> In x (firstn n (l0 ++ [x])) -> firstn n (l0 ++ [x]) = l0 ++ [x].
Proof.
  intros Hn Hin. destruct (Nat.le_gt_cases n (length l0)) as [Hle|Hgt].
  - exfalso. apply Hn. rewrite firstn_app in Hin.
    replace (n - length l0)%nat with 0%nat in Hin by lia. cbn [firstn] in Hin. rewrite app_nil_r in Hin.
    exact (in_firstn x n l0 Hin).
  - apply firstn_all2. rewrite app_length. cbn [length]. lia.
Qed.

Lemma connect_ops_no_connect v6 cfg a port : ~ In (Connect a port) (connect_ops v6 cfg).
Proof.
  unfold connect_ops. destruct (cc_protocol cfg); cbn; intros H; repeat (destruct H as [H|H]; [discriminate|]); exact H.
Qed.

Lemma c11_tcp_ipv4_order_lemma cfg inj p a port :
  cfg_v4 cfg -> cc_protocol cfg = Tcp -> cc_packet_size cfg <= 1024 ->
  In (Connect a port) (fst (run_send BoNetwork cfg inj p)) ->
  fst (run_send BoNetwork cfg inj p) =
    connect_ops false cfg ++
      [NewSocket SkTcp4 false; Bind (cc_source cfg) (p_src_port p); SetTtl (p_ttl p); SetTos (cc_tos cfg);
       Connect (cc_target cfg) (p_dest_port p)].
Proof.
  intros Hcfg Hproto Hsz Hin.
  pose proof (c11_tcp_ipv4_lemma cfg p Hcfg Hproto Hsz) as H0.
  assert (Ev6 : is_v6 (cc_source cfg) = false) by (apply is_v6_4; apply Hcfg).
  rewrite <- Ev6 in H0.
  destruct (proj1 (c11_errors_only_truncate_lemma BoNetwork cfg inj p _ (or_introl Hcfg) H0)) as [n Hn].
  rewrite Hn in Hin |- *. rewrite Ev6 in *. f_equal.
  apply in_app_or in Hin. destruct Hin as [Hin|Hin]; [exfalso; revert Hin; apply connect_ops_no_connect|].
  assert (Hx : Connect a port = Connect (cc_target cfg) (p_dest_port p)).
  { pose proof (in_firstn _ n _ Hin) as Hin'.
    cbn [In] in Hin'. repeat (destruct Hin' as [Hin'|Hin']; [try discriminate|]); [symmetry; exact Hin'|contradiction]. }
  rewrite Hx in Hin.
  apply (in_firstn_last (Connect (cc_target cfg) (p_dest_port p))
           [NewSocket SkTcp4 false; Bind (cc_source cfg) (p_src_port p); SetTtl (p_ttl p); SetTos (cc_tos cfg)] n);
    [|exact Hin].
  cbn [In]. intros H. repeat (destruct H as [H|H]; [discriminate|]). exact H.
Qed.

Lemma c11_tcp_ipv6_order_lemma cfg inj p a port :
  cfg_v6 cfg -> cc_protocol cfg = Tcp -> cc_packet_size cfg <= 1024 ->
  In (Connect a port) (fst (run_send BoNetwork cfg inj p)) ->
  fst (run_send BoNetwork cfg inj p) =
    connect_ops true cfg ++
      [NewSocket SkTcp6 false; Bind (cc_source cfg) (p_src_port p); SetUnicastHopsV6 (p_ttl p);
       Connect (cc_target cfg) (p_dest_port p)].
Proof.
  intros Hcfg Hproto Hsz Hin.
  pose proof (c11_tcp_ipv6_lemma cfg p Hcfg Hproto Hsz) as H0.
  assert (Ev6 : is_v6 (cc_source cfg) = true) by (apply is_v6_16; apply Hcfg).
  rewrite <- Ev6 in H0.
  destruct (proj1 (c11_errors_only_truncate_lemma BoNetwork cfg inj p _ (or_intror Hcfg) H0)) as [n Hn].
  rewrite Hn in Hin |- *. rewrite Ev6 in *. f_equal.
  apply in_app_or in Hin. destruct Hin as [Hin|Hin]; [exfalso; revert Hin; apply connect_ops_no_connect|].
  assert (Hx : Connect a port = Connect (cc_target cfg) (p_dest_port p)).
  { pose proof (in_firstn _ n _ Hin) as Hin'.
    cbn [In] in Hin'. repeat (destruct Hin' as [Hin'|Hin']; [try discriminate|]); [symmetry; exact Hin'|contradiction]. }
  rewrite Hx in Hin.
  apply (in_firstn_last (Connect (cc_target cfg) (p_dest_port p))
           [NewSocket SkTcp6 false; Bind (cc_source cfg) (p_src_port p); SetUnicastHopsV6 (p_ttl p)] n);
    [|exact Hin].
  cbn [In]. intros H. repeat (destruct H as [H|H]; [discriminate|]). exact H.
Qed.

(* ---- the tables at work: a single injected connect error ---- *)
Lemma c11_tcp_ipv4_connect_error_lemma cfg p k :
  cfg_v4 cfg -> cc_protocol cfg = Tcp -> cc_packet_size cfg <= 1024 ->
  run_send BoNetwork cfg [(CConnect, k)] p =
    (connect_ops false cfg ++
       [NewSocket SkTcp4 false; Bind (cc_source cfg) (p_src_port p); SetTtl (p_ttl p); SetTos (cc_tos cfg);
        Connect (cc_target cfg) (p_dest_port p)],
     connect_outcome false k).
Proof.
  intros Hcfg Hproto Hsz.
  pose proof (c11_tcp_ipv4_lemma cfg p Hcfg Hproto Hsz) as H0.
  assert (Ev6 : is_v6 (cc_source cfg) = false) by (apply is_v6_4; apply Hcfg).
  rewrite <- Ev6 in H0.
  rewrite (c11_any_errors_lemma BoNetwork cfg [(CConnect, k)] p _ (or_introl Hcfg) H0).
  unfold replay. cbn [map step_of run_script st_op st_map call_of injected same_call outcome_table].
  rewrite Ev6. destruct (connect_outcome false k) as [[]|e|f]; reflexivity.
Qed.

Lemma c11_tcp_ipv6_connect_error_lemma cfg p k :
  cfg_v6 cfg -> cc_protocol cfg = Tcp -> cc_packet_size cfg <= 1024 ->
  run_send BoNetwork cfg [(CConnect, k)] p =
    (connect_ops true cfg ++
       [NewSocket SkTcp6 false; Bind (cc_source cfg) (p_src_port p); SetUnicastHopsV6 (p_ttl p);
        Connect (cc_target cfg) (p_dest_port p)],
     connect_outcome true k).
Proof.
  intros Hcfg Hproto Hsz.
  pose proof (c11_tcp_ipv6_lemma cfg p Hcfg Hproto Hsz) as H0.
  assert (Ev6 : is_v6 (cc_source cfg) = true) by (apply is_v6_16; apply Hcfg).
  rewrite <- Ev6 in H0.
  rewrite (c11_any_errors_lemma BoNetwork cfg [(CConnect, k)] p _ (or_intror Hcfg) H0).
  unfold replay. cbn [map step_of run_script st_op st_map call_of injected same_call outcome_table].
  rewrite Ev6. destruct (connect_outcome true k) as [[]|e|f]; reflexivity.
Qed.

(* a failing setsockopt (ttl, tos, hop limit) is an IoError and the connect is never attempted *)
Lemma c11_tcp_ipv4_sockopt_error_lemma cfg p k inj :
  cfg_v4 cfg -> cc_protocol cfg = Tcp -> cc_packet_size cfg <= 1024 ->
  inj = [(CSetTtl, k)] \/ inj = [(CSetTos, k)] ->
  snd (run_send BoNetwork cfg inj p) = Err (EIo k) /\
  forall a port, ~ In (Connect a port) (fst (run_send BoNetwork cfg inj p)).
Proof.
  intros Hcfg Hproto Hsz Hinj.
  pose proof (c11_tcp_ipv4_lemma cfg p Hcfg Hproto Hsz) as H0.
  assert (Ev6 : is_v6 (cc_source cfg) = false) by (apply is_v6_4; apply Hcfg).
  rewrite <- Ev6 in H0.
  rewrite (c11_any_errors_lemma BoNetwork cfg inj p _ (or_introl Hcfg) H0). rewrite Ev6.
  destruct Hinj as [-> | ->]; unfold replay;
    cbn [map step_of run_script st_op st_map call_of injected same_call outcome_table io_error fst snd app];
    (split; [reflexivity|]); intros a port Hin; apply in_app_or in Hin;
    (destruct Hin as [Hin|Hin]; [revert Hin; apply connect_ops_no_connect|]);
    cbn [In] in Hin; repeat (destruct Hin as [Hin|Hin]; [discriminate|]); exact Hin.
Qed.

(* ---- the last call of a probe is made only after every other call of the probe ---- *)
Lemma c11_last_call_lemma bo cfg inj p l0 x :
  cfg_v4 cfg \/ cfg_v6 cfg ->
  run_send bo cfg [] p = (connect_ops (is_v6 (cc_source cfg)) cfg ++ l0 ++ [x], Ok tt) ->
  ~ In x (connect_ops (is_v6 (cc_source cfg)) cfg ++ l0) ->
  In x (fst (run_send bo cfg inj p)) ->
  fst (run_send bo cfg inj p) = connect_ops (is_v6 (cc_source cfg)) cfg ++ l0 ++ [x].
Proof.
  intros Hfam H0 Hnot Hin.
  destruct (proj1 (c11_errors_only_truncate_lemma bo cfg inj p _ Hfam H0)) as [n Hn].
  rewrite Hn in Hin |- *. f_equal.
  apply in_app_or in Hin. destruct Hin as [Hin|Hin].
  - exfalso. apply Hnot. apply in_or_app. left. exact Hin.
  - apply in_firstn_last; [|exact Hin]. intro H. apply Hnot. apply in_or_app. right. exact H.
Qed.

(* unprivileged UDP: a datagram is sent only from a fresh datagram socket bound to source:src_port with the
   time-to-live / hop limit (and the type of service over IPv4) set, and it is the pattern payload to target:dest_port *)
Lemma c11_udp_ipv4_unprivileged_order_lemma cfg inj p b a port :
  cfg_v4 cfg -> cc_protocol cfg = Udp -> cc_privilege cfg = Unprivileged -> 28 <= cc_packet_size cfg <= 1024 ->
  In (SendTo b a port) (fst (run_send BoNetwork cfg inj p)) ->
  fst (run_send BoNetwork cfg inj p) =
    connect_ops false cfg ++
      [NewSocket SkUdp4 false; Bind (cc_source cfg) (p_src_port p); SetTtl (p_ttl p); SetTos (cc_tos cfg);
       SendTo (repeat (cc_payload_pattern cfg) (Z.to_nat (cc_packet_size cfg - 28))) (cc_target cfg) (p_dest_port p)].
Proof.
  intros Hcfg Hproto Hpriv Hsz Hin.
  pose proof (c11_udp_ipv4_unprivileged_lemma cfg p Hcfg Hproto Hpriv Hsz) as H0.
  assert (Ev6 : is_v6 (cc_source cfg) = false) by (apply is_v6_4; apply Hcfg).
  replace (connect_ops false cfg) with (connect_ops (is_v6 (cc_source cfg)) cfg) in H0 |- * by (rewrite Ev6; reflexivity).
  pose proof (c11_same_datagram_lemma BoNetwork cfg inj p _ b a port (or_introl Hcfg) H0 Hin) as Hx.
  cbn [In] in Hx. repeat (destruct Hx as [Hx|Hx]; [try discriminate|]); [|contradiction].
  rewrite <- Hx in Hin.
  apply (c11_last_call_lemma BoNetwork cfg inj p
           [NewSocket SkUdp4 false; Bind (cc_source cfg) (p_src_port p); SetTtl (p_ttl p); SetTos (cc_tos cfg)]
           _ (or_introl Hcfg) H0); [|exact Hin].
  intro H. apply in_app_or in H. destruct H as [H|H]; [revert H; apply connect_ops_no_send|].
  cbn [In] in H. repeat (destruct H as [H|H]; [discriminate|]). exact H.
Qed.

Lemma c11_udp_ipv6_unprivileged_order_lemma cfg inj p b a port :
  cfg_v6 cfg -> cc_protocol cfg = Udp -> cc_privilege cfg = Unprivileged -> 48 <= cc_packet_size cfg <= 1024 ->
  In (SendTo b a port) (fst (run_send BoNetwork cfg inj p)) ->
  fst (run_send BoNetwork cfg inj p) =
    connect_ops true cfg ++
      [NewSocket SkUdp6 false; Bind (cc_source cfg) (p_src_port p); SetUnicastHopsV6 (p_ttl p);
       SendTo (repeat (cc_payload_pattern cfg) (Z.to_nat (cc_packet_size cfg - 48))) (cc_target cfg) (p_dest_port p)].
Proof.
  intros Hcfg Hproto Hpriv Hsz Hin.
  pose proof (c11_udp_ipv6_unprivileged_lemma cfg p Hcfg Hproto Hpriv Hsz) as H0.
  assert (Ev6 : is_v6 (cc_source cfg) = true) by (apply is_v6_16; apply Hcfg).
  replace (connect_ops true cfg) with (connect_ops (is_v6 (cc_source cfg)) cfg) in H0 |- * by (rewrite Ev6; reflexivity).
  pose proof (c11_same_datagram_lemma BoNetwork cfg inj p _ b a port (or_intror Hcfg) H0 Hin) as Hx.
  cbn [In] in Hx. repeat (destruct Hx as [Hx|Hx]; [try discriminate|]); [|contradiction].
  rewrite <- Hx in Hin.
  apply (c11_last_call_lemma BoNetwork cfg inj p
           [NewSocket SkUdp6 false; Bind (cc_source cfg) (p_src_port p); SetUnicastHopsV6 (p_ttl p)]
           _ (or_intror Hcfg) H0); [|exact Hin].
  intro H. apply in_app_or in H. destruct H as [H|H]; [revert H; apply connect_ops_no_send|].
  cbn [In] in H. repeat (destruct H as [H|H]; [discriminate|]). exact H.
Qed.

(* the tables differ by family: ENETUNREACH on the connect of a TCP probe *)
Lemma c11_family_asymmetry_lemma cfg4 cfg6 p :
  cfg_v4 cfg4 -> cc_protocol cfg4 = Tcp -> cc_packet_size cfg4 <= 1024 ->
  cfg_v6 cfg6 -> cc_protocol cfg6 = Tcp -> cc_packet_size cfg6 <= 1024 ->
  snd (run_send BoNetwork cfg4 [(CConnect, K_NET_UNREACHABLE)] p) = Err EProbeFailed /\
  snd (run_send BoNetwork cfg6 [(CConnect, K_NET_UNREACHABLE)] p) = Err (EIo K_NET_UNREACHABLE).
Proof.
  intros H1 H2 H3 H4 H5 H6.
  rewrite (c11_tcp_ipv4_connect_error_lemma cfg4 p _ H1 H2 H3), (c11_tcp_ipv6_connect_error_lemma cfg6 p _ H4 H5 H6).
  split; reflexivity.
Qed.
