(* C07 over whole runs, third part: the walks read as plain lists of rounds, and the sequence budget of a round at the
   level of whole runs (what exhausting it does to the run). *)
From TV Require Import Base.Result Core.Types Core.TracerState Core.Strategy Core.Builder
  Proofs.ListLemmas Proofs.StrategyInv Proofs.StrategyProps Proofs.RoundHistory Proofs.RunSemantics Proofs.SeqWalk Proofs.SeqRuns.
From Coq Require Import ZifyBool.
Lemma run_inv_running c t0 pre ev0 s0 : Accept c -> run c t0 pre = (ev0, Running, s0) -> Inv c s0.
Proof.
  intros HA H. pose proof (run_from_inv c HA pre _ (inv_new c t0 HA)) as X. unfold run in H. rewrite H in X. exact (proj1 X).
Qed.

(* the budget is used up and the loop wants to send: the run ends there with the capacity error, whatever follows *)
Lemma run_budget_exhausted c t0 pre i post ev0 s0 : Accept c -> proto c = Tcp ->
  run c t0 pre = (ev0, Running, s0) -> can_send c s0 = Ok true -> sequence s0 - round_sequence s0 = 512 ->
  run c t0 (pre ++ i :: post) = (ev0, Failed_with EInsufficientCapacity, s0) /\
  tail_sends [] ev0 = zrange (round_sequence s0) 512.
Proof.
  intros HA Hp Hpre Hcs Hn. pose proof (run_inv_running c t0 pre ev0 s0 HA Hpre) as HI.
  pose proof (capacity_error_at_start c s0 i HI Hp Hcs Hn) as Hs.
  pose proof (run_error_ends c t0 pre i post ev0 s0 s0 [] _ Hpre Hs) as R. rewrite app_nil_r in R.
  split; [exact R|]. pose proof (run_tail c t0 pre HA) as T. rewrite Hpre in T. destruct T as (T & _). rewrite T, Hn. reflexivity.
Qed.

(* the last number of the budget meets address-in-use: it went out once, the run ends with the capacity error *)
Lemma run_budget_last_collides c t0 pre i post ev0 s0 rest : Accept c -> proto c = Tcp ->
  run c t0 pre = (ev0, Running, s0) -> can_send c s0 = Ok true -> sequence s0 - round_sequence s0 = 511 ->
  i_sends i = AddressInUseO :: rest ->
  exists p s1, p_sequence p = round_sequence s0 + 511 /\ sequence s1 - round_sequence s1 = 512 /\
    run c t0 (pre ++ i :: post) = (ev0 ++ [ESend p AddressInUseO], Failed_with EInsufficientCapacity, s1).
Proof.
  intros HA Hp Hpre Hcs Hn Hs. pose proof (run_inv_running c t0 pre ev0 s0 HA Hpre) as HI.
  destruct (capacity_error_after_send c s0 i rest HA HI Hp Hcs Hn Hs) as (p & s1 & Hnp & Hn1 & Hst).
  exists p, s1. split; [|split; [exact Hn1|exact (run_error_ends c t0 pre i post ev0 s0 s1 _ _ Hpre Hst)]].
  unfold next_probe in Hnp. destruct (probe_data c s0) as [d|?|?]; cbn [bind] in Hnp; try discriminate.
  destruct (sub16 (sequence s0) (round_sequence s0)) as [k|?|?]; cbn [bind] in Hnp; try discriminate.
  destruct (buf_set s0 k _) as [b|?|?]; cbn [bind] in Hnp; try discriminate.
  destruct (add8 (ttl s0) 1) as [t'|?|?]; cbn [bind] in Hnp; try discriminate.
  destruct (add16 (sequence s0) 1) as [q'|?|?]; cbn [bind] in Hnp; try discriminate.
  inversion Hnp; subst. destruct d as [[[sp dp] id] fl]. cbn [mk_probe p_sequence]. lia.
Qed.

(* ================= the walks read as lists of rounds ================= *)

(* the sequence numbers of every round of the trace, in order of sending; the last list is the unfinished round *)
Fixpoint round_lists (acc : list Z) (ev : list event) : list (list Z) :=
  match ev with
  | [] => [acc]
  | ESend p _ :: t => round_lists (acc ++ [p_sequence p]) t
  | EPublish _ :: t => acc :: round_lists [] t
  end.

Fixpoint adjacent_disjoint (l : list (list Z)) : Prop :=
  match l with
  | [] => True
  | a :: t => match t with b :: _ => (forall x, In x a -> ~ In x b) | [] => True end /\ adjacent_disjoint t
  end.

Lemma adjacent_disjoint_ext a a' l : (forall x, In x a <-> In x a') -> adjacent_disjoint (a :: l) -> adjacent_disjoint (a' :: l).
Proof.
  intros He [H1 H2]. split; [|exact H2]. destruct l as [|b l]; [exact I|]. intros x Hx. apply H1. apply He. exact Hx.
Qed.

Lemma sep_walk_lists : forall ev prev cur acc, sep_walk prev cur ev -> (forall x, In x cur <-> In x acc) ->
  (forall x, In x prev -> ~ In x acc) -> adjacent_disjoint (prev :: round_lists acc ev).
Proof.
  induction ev as [|[p o|r] ev IH]; intros prev cur acc Hw He Hd; cbn [round_lists sep_walk] in *.
  - split; [exact Hd|]. split; exact I.
  - destruct Hw as (H1 & H2 & H3). apply (IH prev (p_sequence p :: cur)); [exact H3| |].
    + intros x. cbn [In]. rewrite in_app_iff, He. cbn [In]. tauto.
    + intros x Hx Hin. apply in_app_iff in Hin. destruct Hin as [Hin|[<-|[]]]; [exact (Hd x Hx Hin)|exact (H1 Hx)].
  - split; [exact Hd|]. apply (adjacent_disjoint_ext cur acc _ He).
    apply (IH cur [] [] Hw); [tauto|intros x _ []].
Qed.

Lemma sep_walk_reading ev : sep_walk [] [] ev -> adjacent_disjoint (round_lists [] ev).
Proof.
  intros H. apply (sep_walk_lists ev [] [] [] H); [tauto|intros x []].
Qed.

Lemma nodup_snoc (l : list Z) x : NoDup l -> ~ In x l -> NoDup (l ++ [x]).
Proof.
  induction l as [|a l IH]; intros Hn Hx; cbn [app].
  - constructor; [intros []|constructor].
  - inversion Hn as [|? ? Ha Hl]; subst. constructor.
    + rewrite in_app_iff. cbn [In]. intros [X|[X|[]]]; [exact (Ha X)|apply Hx; left; symmetry; exact X].
    + apply IH; [exact Hl|]. intros X. apply Hx. right. exact X.
Qed.

Lemma distinct_walk_lists : forall ev cur acc, distinct_walk cur ev -> (forall x, In x cur <-> In x acc) -> NoDup acc ->
  Forall (@NoDup Z) (round_lists acc ev).
Proof.
  induction ev as [|[p o|r] ev IH]; intros cur acc Hw He Hn; cbn [round_lists distinct_walk] in *.
  - constructor; [exact Hn|constructor].
  - destruct Hw as [H1 H2]. apply (IH (p_sequence p :: cur)); [exact H2| |].
    + intros x. cbn [In]. rewrite in_app_iff, He. cbn [In]. tauto.
    + apply nodup_snoc; [exact Hn|]. rewrite <- He. exact H1.
  - constructor; [exact Hn|]. apply (IH [] [] Hw); [tauto|constructor].
Qed.

Lemma run_rounds_nodup c t0 is : Accept c -> let '(ev, o, sf) := run c t0 is in Forall (@NoDup Z) (round_lists [] ev).
Proof.
  intros HA. pose proof (run_distinct c t0 is HA) as H. destruct (run c t0 is) as [[ev o] sf].
  apply (distinct_walk_lists ev [] [] H); [tauto|constructor].
Qed.

Lemma run_rounds_disjoint c t0 is : Accept c -> proto c <> Tcp ->
  let '(ev, o, sf) := run c t0 is in adjacent_disjoint (round_lists [] ev).
Proof.
  intros HA Hp. pose proof (run_sep_walk c t0 is HA Hp) as H. destruct (run c t0 is) as [[ev o] sf].
  apply sep_walk_reading. exact H.
Qed.

Lemma run_rounds_disjoint_63999 c t0 is : Accept c -> ~ (multipath c = Dublin /\ is_v6 (target_addr c) = true) ->
  initial_sequence c <= 63999 -> let '(ev, o, sf) := run c t0 is in adjacent_disjoint (round_lists [] ev).
Proof.
  intros HA Hn Hi. pose proof (run_sep_general_63999 c t0 is HA Hn Hi) as H. destruct (run c t0 is) as [[ev o] sf].
  apply sep_walk_reading. exact H.
Qed.

(* the reading is not vacuous *)
Definition sr_probe (q : Z) : probe :=
  {| p_sequence := q; p_identifier := 0; p_src_port := 0; p_dest_port := 80; p_ttl := 1; p_round := 0; p_sent := 0; p_flags := 0 |}.
Definition sr_rec : round_rec := {| rr_probes := []; rr_largest_ttl := 0; rr_reason := RoundTimeLimitExceeded |}.
Lemma round_lists_example :
  round_lists [] [ESend (sr_probe 7) Sent; ESend (sr_probe 8) Sent; EPublish sr_rec; ESend (sr_probe 9) Sent] = [[7; 8]; [9]] /\
  adjacent_disjoint [[7; 8]; [9]; [7]] /\ ~ adjacent_disjoint [[7; 8]; [8]] /\ ~ Forall (@NoDup Z) [[7; 7]].
Proof.
  split; [reflexivity|]. split; [|split].
  - cbn. repeat split; intros x H; cbn in *; lia.
  - intros [H _]. apply (H 8); cbn; tauto.
  - intros H. inversion H as [|? ? H1 _]; subst. inversion H1 as [|? ? H2 _]; subst. apply H2. left; reflexivity.
Qed.
