(* C07 over whole runs, second part: consequences of the sequence walk (Proofs/SeqWalk.v) that read the event trace
   only - range of every number issued, distinctness within a round for every protocol, the exact condition under
   which consecutive rounds are disjoint (all protocols, so TCP included), the wrap rule with its two explicit limits -
   and the link between the trace and the final state of the run (capacity error). *)
From TV Require Import Base.Result Core.Types Core.TracerState Core.Strategy Core.Builder
  Proofs.ListLemmas Proofs.StrategyInv Proofs.StrategyProps Proofs.RoundHistory Proofs.RunSemantics Proofs.SeqWalk.
From Coq Require Import ZifyBool.

(* ================= specification vocabulary (reads the trace only) ================= *)

(* within a round no number is used twice ([cur] = numbers used so far in the round in progress) *)
Fixpoint distinct_walk (cur : list Z) (ev : list event) : Prop :=
  match ev with
  | [] => True
  | ESend p _ :: t => ~ In (p_sequence p) cur /\ distinct_walk (p_sequence p :: cur) t
  | EPublish _ :: t => distinct_walk [] t
  end.

(* [clear_walk c wr prs q ev]: wr = the round in progress began by restarting at the initial sequence, prs = the first
   number of the round published last, q = the next number.  The only demand: in a round that began with a restart no
   send reaches the first number of the round before. *)
Fixpoint clear_walk (c : scfg) (wr : bool) (prs rs q : Z) (ev : list event) : Prop :=
  match ev with
  | [] => True
  | ESend p _ :: t => (wr = true -> p_sequence p < prs) /\ clear_walk c wr prs rs (q + 1) t
  | EPublish _ :: t =>
    let w := max_seq c <=? q in let q' := if w then initial_sequence c else q in clear_walk c w rs q' q' t
  end.

(* no round hands more than k numbers to the network (n = numbers of the round in progress so far) *)
Fixpoint rounds_within (k n : Z) (ev : list event) : Prop :=
  match ev with
  | [] => True
  | ESend _ _ :: t => n + 1 <= k /\ rounds_within k (n + 1) t
  | EPublish _ :: t => rounds_within k 0 t
  end.

(* the wrap rule with an explicit limit: the n-th send of a round that started at rs carries rs + n; the round after
   a publication starts at rs + n, unless lim <= rs + n: then, and only then, it starts at init *)
Fixpoint starts_walk (lim init rs n : Z) (ev : list event) : Prop :=
  match ev with
  | [] => True
  | ESend p _ :: t => p_sequence p = rs + n /\ 0 <= n < 512 /\ starts_walk lim init rs (n + 1) t
  | EPublish r :: t =>
    Z.of_nat (length (rr_probes r)) = n /\ init <= rs < lim /\
    (lim <= rs + n -> starts_walk lim init init 0 t) /\ (rs + n < lim -> starts_walk lim init (rs + n) 0 t)
  end.

(* the numbers handed to the network since the last publication *)
Fixpoint tail_sends (acc : list Z) (ev : list event) : list Z :=
  match ev with
  | [] => acc
  | ESend p _ :: t => tail_sends (acc ++ [p_sequence p]) t
  | EPublish _ :: t => tail_sends [] t
  end.

(* where the walk stands at the end of the trace: (first number of the round in progress, next number) *)
Fixpoint walk_end (c : scfg) (rs q : Z) (ev : list event) : Z * Z :=
  match ev with
  | [] => (rs, q)
  | ESend _ _ :: t => walk_end c rs (q + 1) t
  | EPublish _ :: t => let q' := if max_seq c <=? q then initial_sequence c else q in walk_end c q' q' t
  end.

(* ================= consequences of the sequence walk ================= *)

Lemma seq_walk_range c : initial_sequence c < max_seq c -> forall ev rs q, seq_walk c rs q ev ->
  initial_sequence c <= rs < max_seq c ->
  Forall (fun p => initial_sequence c <= p_sequence p < max_seq c + 512) (ev_probes ev).
Proof.
  intros Hm. induction ev as [|[p o|r] ev IH]; intros rs q Hw Hrs; cbn [ev_probes].
  - constructor.
  - cbn [seq_walk] in Hw. destruct Hw as (Hp & Hlo & Hhi & _ & Hw). constructor; [lia|]. apply (IH rs (q + 1) Hw Hrs).
  - cbn [seq_walk] in Hw. destruct Hw as (Hlen & _ & _ & Hw). cbn zeta in Hw.
    destruct (max_seq c <=? q) eqn:E; apply (IH _ _ Hw); lia.
Qed.

Lemma seq_walk_distinct c : forall ev rs q cur, seq_walk c rs q ev -> Forall (fun x => x < q) cur -> distinct_walk cur ev.
Proof.
  induction ev as [|[p o|r] ev IH]; intros rs q cur Hw Hc; cbn [distinct_walk].
  - exact I.
  - cbn [seq_walk] in Hw. destruct Hw as (Hp & _ & _ & _ & Hw). split.
    + intros Hin. rewrite Forall_forall in Hc. specialize (Hc _ Hin). lia.
    + apply (IH rs (q + 1)); [exact Hw|]. constructor; [lia|]. eapply Forall_impl; [|exact Hc]. cbn. intros; lia.
  - cbn [seq_walk] in Hw. destruct Hw as (_ & _ & _ & Hw). cbn zeta in Hw. apply (IH _ _ [] Hw). constructor.
Qed.

(* the exact condition: given the sequence walk, consecutive rounds are disjoint (and rounds are repetition-free) if and
   only if no round that began with a restart reaches the first number of the round before it *)
Lemma seq_walk_sep_iff c : initial_sequence c + 512 <= max_seq c -> forall ev prev cur (wr : bool) prs pq rs q,
  seq_walk c rs q ev ->
  (forall x, In x cur <-> rs <= x < q) ->
  (forall x, In x prev <-> prs <= x < pq) ->
  (if wr then rs = initial_sequence c /\ max_seq c <= pq /\ initial_sequence c <= prs else pq <= rs) ->
  initial_sequence c <= rs < max_seq c ->
  (sep_walk prev cur ev <-> clear_walk c wr prs rs q ev).
Proof.
  intros Hm. induction ev as [|[p o|r] ev IH]; intros prev cur wr prs pq rs q Hw Hcur Hprev Hwr Hrs;
    cbn [sep_walk clear_walk].
  - tauto.
  - cbn [seq_walk] in Hw. destruct Hw as (Hp & Hlo & Hhi & _ & Hw).
    assert (Hnc : ~ In (p_sequence p) cur) by (rewrite Hcur; lia).
    assert (Hnp : ~ In (p_sequence p) prev <-> (wr = true -> p_sequence p < prs)).
    { rewrite Hprev, Hp. destruct wr; [destruct Hwr as (H1 & H2 & H3); split; [intros; lia|intros H; specialize (H eq_refl); lia]|].
      split; [intros _ X; discriminate|intros _; lia]. }
    assert (Hrec : sep_walk prev (p_sequence p :: cur) ev <-> clear_walk c wr prs rs (q + 1) ev).
    { apply (IH prev (p_sequence p :: cur) wr prs pq rs (q + 1) Hw); try assumption.
      intros x. cbn [In]. rewrite Hcur, Hp. lia. }
    tauto.
  - cbn [seq_walk] in Hw. destruct Hw as (Hlen & Hle & _ & Hw). cbn zeta in *.
    destruct (max_seq c <=? q) eqn:E.
    + apply (IH cur [] true rs q _ _ Hw); try assumption; try lia.
      * intros x. cbn [In]. lia.
    + apply (IH cur [] false rs q _ _ Hw); try assumption; try lia.
      * intros x. cbn [In]. lia.
Qed.

Lemma seq_walk_within c : forall ev rs q, seq_walk c rs q ev -> rs <= q -> rounds_within 512 (q - rs) ev.
Proof.
  induction ev as [|[p o|r] ev IH]; intros rs q Hw Hq; cbn [rounds_within].
  - exact I.
  - cbn [seq_walk] in Hw. destruct Hw as (_ & _ & Hhi & _ & Hw). split; [lia|].
    replace (q - rs + 1) with (q + 1 - rs) by lia. apply IH; [exact Hw|lia].
  - cbn [seq_walk] in Hw. destruct Hw as (_ & _ & _ & Hw). cbn zeta in Hw.
    destruct (max_seq c <=? q).
    + replace 0 with (initial_sequence c - initial_sequence c) by lia. apply (IH _ _ Hw). lia.
    + replace 0 with (q - q) by lia. apply (IH _ _ Hw). lia.
Qed.

(* sufficient: twice the largest round fits between the initial and the maximum sequence *)
Lemma seq_walk_clear c k : 0 <= k -> initial_sequence c + 2 * k <= max_seq c -> forall ev wr prs rs q n,
  seq_walk c rs q ev -> rounds_within k n ev -> q = rs + n -> 0 <= n <= k ->
  (wr = true -> rs = initial_sequence c /\ initial_sequence c + k <= prs) ->
  clear_walk c wr prs rs q ev.
Proof.
  intros Hk Hm. induction ev as [|[p o|r] ev IH]; intros wr prs rs q n Hw Hr Hq Hn Hwr; cbn [clear_walk].
  - exact I.
  - cbn [seq_walk] in Hw. destruct Hw as (Hp & _ & _ & _ & Hw). cbn [rounds_within] in Hr. destruct Hr as [Hn1 Hr].
    split; [intros X; destruct (Hwr X); lia|].
    apply (IH wr prs rs (q + 1) (n + 1) Hw Hr); first [exact Hwr|lia].
  - cbn [seq_walk] in Hw. destruct Hw as (_ & _ & _ & Hw). cbn [rounds_within] in Hr. cbn zeta in *.
    destruct (max_seq c <=? q) eqn:E.
    + apply (IH true rs _ _ 0 Hw Hr); lia.
    + apply (IH false rs _ _ 0 Hw Hr); lia.
Qed.

Lemma seq_walk_starts c lim : max_seq c = lim -> forall ev rs q, seq_walk c rs q ev -> rs <= q ->
  starts_walk lim (initial_sequence c) rs (q - rs) ev.
Proof.
  intros Hl. induction ev as [|[p o|r] ev IH]; intros rs q Hw Hq; cbn [starts_walk].
  - exact I.
  - cbn [seq_walk] in Hw. destruct Hw as (Hp & _ & Hhi & _ & Hw). split; [lia|]. split; [lia|].
    replace (q - rs + 1) with (q + 1 - rs) by lia. apply IH; [exact Hw|lia].
  - cbn [seq_walk] in Hw. destruct Hw as (Hlen & _ & Hrs & Hw). cbn zeta in Hw. rewrite Hl in *.
    split; [exact Hlen|]. split; [exact Hrs|].
    replace (rs + (q - rs)) with q by lia. split; intros Hc.
    + destruct (lim <=? q) eqn:E; [|lia].
      replace 0 with (initial_sequence c - initial_sequence c) by lia. apply (IH _ _ Hw). lia.
    + destruct (lim <=? q) eqn:E; [lia|]. replace 0 with (q - q) by lia. apply (IH _ _ Hw). lia.
Qed.

(* the sends since the last publication are exactly the numbers between the two counters the walk ends with *)
Lemma seq_walk_tail c : forall ev rs q acc, seq_walk c rs q ev -> rs <= q -> acc = zrange rs (Z.to_nat (q - rs)) ->
  let '(rs', q') := walk_end c rs q ev in rs' <= q' /\ tail_sends acc ev = zrange rs' (Z.to_nat (q' - rs')).
Proof.
  induction ev as [|[p o|r] ev IH]; intros rs q acc Hw Hq Hacc; cbn [walk_end tail_sends].
  - split; assumption.
  - cbn [seq_walk] in Hw. destruct Hw as (Hp & _ & _ & _ & Hw). apply (IH rs (q + 1)); [exact Hw|lia|].
    replace (Z.to_nat (q + 1 - rs)) with (Datatypes.S (Z.to_nat (q - rs))) by lia.
    rewrite zrange_snoc, Hacc, Hp. f_equal. f_equal. lia.
  - cbn [seq_walk] in Hw. destruct Hw as (_ & _ & _ & Hw). cbn zeta in *.
    destruct (max_seq c <=? q); apply (IH _ _ [] Hw); try lia; rewrite Z.sub_diag; reflexivity.
Qed.

(* ================= the walk ends where the final state of the run stands ================= *)

Lemma walk_end_app c : forall a rs q b,
  walk_end c rs q (a ++ b) = let '(rs', q') := walk_end c rs q a in walk_end c rs' q' b.
Proof.
  induction a as [|[p o|r] a IH]; intros rs q b; cbn [app walk_end].
  - reflexivity.
  - apply IH.
  - cbn zeta. apply IH.
Qed.

Lemma walk_end_sends c : forall ev rs q, length (ev_probes ev) = length ev ->
  walk_end c rs q ev = (rs, q + Z.of_nat (length ev)).
Proof.
  induction ev as [|[p o|r] ev IH]; intros rs q Hl; cbn [walk_end length ev_probes] in *.
  - rewrite Z.add_0_r. reflexivity.
  - rewrite IH by lia. f_equal. lia.
  - pose proof (ev_probes_le ev). lia.
Qed.

Lemma run_walk_end_from c : Accept c -> forall is s, Inv c s ->
  let '(ev, o, sf) := run_from c s is in
  walk_end c (round_sequence s) (sequence s) ev = (round_sequence sf, sequence sf).
Proof.
  intros HA. induction is as [|i rest IH]; intros s HI; cbn [run_from].
  - destruct (finished s (max_rounds c)); reflexivity.
  - destruct (finished s (max_rounds c)); [reflexivity|].
    destruct (step_decompose c s i HA HI) as (s1 & ev1 & e1 & H1 & HI1 & Hsb & Hsh & Hrest).
    assert (Hrs1 : round_sequence s1 = round_sequence s) by (destruct Hsb as (_ & _ & _ & _ & _ & _ & X); exact X).
    assert (Hsends : walk_end c (round_sequence s) (sequence s) ev1 = (round_sequence s1, sequence s1)).
    { destruct Hsh as [[-> ->]|Hsh]; [reflexivity|].
      destruct Hsh as (_ & Hlen & _ & _ & _ & _ & Hq & _). rewrite walk_end_sends by assumption.
      rewrite Hrs1, Hq, Hlen. reflexivity. }
    destruct e1 as [e1|].
    { rewrite Hrest. exact Hsends. }
    destruct Hrest as (s2 & e2 & H2 & HI2 & Hrest).
    destruct (recv_response_ok c s1 i HA HI1) as (s2' & e2' & H2' & _ & Hq2 & Hrs2 & _).
    rewrite H2 in H2'. inversion H2'; subst s2' e2'. clear H2'.
    destruct e2 as [e2|].
    { rewrite Hrest. rewrite Hsends, Hq2, Hrs2. reflexivity. }
    destruct Hrest as (s3 & ev3 & H3 & HI3 & Hst). rewrite Hst.
    specialize (IH s3 HI3). destruct (run_from c s3 rest) as [[evs o] sf].
    rewrite <- app_assoc, walk_end_app, Hsends.
    destruct (update_round_ok c s2 i HA HI2) as (s3' & ev3' & H3' & _ & Hcase). rewrite H3 in H3'. inversion H3'; subst s3' ev3'. clear H3'.
    destruct Hcase as [(_ & -> & ->)|(_ & r & Hr & -> & Ha & _)].
    + cbn [app]. rewrite <- Hq2, <- Hrs2. exact IH.
    + cbn [app walk_end]. cbn zeta.
      destruct (advance_round_exact c s2 _ _ s3 HA Ha) as [Hq3 Hrs3].
      rewrite <- Hq2, <- Hq3. rewrite Hrs3 in IH. exact IH.
Qed.

(* ================= whole runs ================= *)

Lemma run_walk c t0 is : Accept c ->
  seq_walk c (initial_sequence c) (initial_sequence c) (fst (fst (run c t0 is))).
Proof.
  intros HA. pose proof (run_seq_walk c t0 is HA) as H. destruct (run c t0 is) as [[ev o] sf]. exact (proj1 H).
Qed.

(* the two regimes of the maximum sequence, as the code decides them (multipath strategy, family of the target) *)
Lemma max_seq_general c : Accept c -> ~ (multipath c = Dublin /\ is_v6 (target_addr c) = true) ->
  max_sequence c = Ok 65023 /\ max_seq c = 65023.
Proof.
  intros HA Hn. rewrite (max_sequence_ok c HA). unfold max_seq, MAX_SEQUENCE, BUFFER_SIZE.
  destruct (multipath c), (is_v6 (target_addr c)); try (split; reflexivity). exfalso. apply Hn. split; reflexivity.
Qed.

Lemma max_seq_dublin6 c : Accept c -> multipath c = Dublin -> is_v6 (target_addr c) = true ->
  max_sequence c = Ok (initial_sequence c + 512) /\ max_seq c = initial_sequence c + 512.
Proof.
  intros HA Hm Hv. rewrite (max_sequence_ok c HA). unfold max_seq, BUFFER_SIZE. rewrite Hm, Hv. split; reflexivity.
Qed.

Lemma run_all_in_range c t0 is : Accept c ->
  let '(ev, o, sf) := run c t0 is in
  Forall (fun p => initial_sequence c <= p_sequence p < max_seq c + 512 /\ p_sequence p <= 65534) (ev_probes ev).
Proof.
  intros HA. pose proof (run_walk c t0 is HA) as H. destruct (run c t0 is) as [[ev o] sf]. cbn [fst] in H.
  pose proof (max_seq_bounds c HA) as M.
  pose proof (seq_walk_range c ltac:(lia) ev _ _ H ltac:(lia)) as R.
  eapply Forall_impl; [|exact R]. cbn. intros p Hp. lia.
Qed.

Lemma run_distinct c t0 is : Accept c -> let '(ev, o, sf) := run c t0 is in distinct_walk [] ev.
Proof.
  intros HA. pose proof (run_walk c t0 is HA) as H. destruct (run c t0 is) as [[ev o] sf]. cbn [fst] in H.
  apply (seq_walk_distinct c ev _ _ [] H). constructor.
Qed.

Lemma run_sep_exact c t0 is : Accept c ->
  let '(ev, o, sf) := run c t0 is in
  sep_walk [] [] ev <-> clear_walk c false (initial_sequence c) (initial_sequence c) (initial_sequence c) ev.
Proof.
  intros HA. pose proof (run_walk c t0 is HA) as H. destruct (run c t0 is) as [[ev o] sf]. cbn [fst] in H.
  pose proof (max_seq_bounds c HA) as M.
  apply (seq_walk_sep_iff c ltac:(lia) ev [] [] false (initial_sequence c) (initial_sequence c) _ _ H).
  - intros x. cbn [In]. lia.
  - intros x. cbn [In]. lia.
  - lia.
  - lia.
Qed.

Lemma run_sep_small_rounds c k t0 is : Accept c -> 0 <= k -> initial_sequence c + 2 * k <= max_seq c ->
  let '(ev, o, sf) := run c t0 is in rounds_within k 0 ev -> sep_walk [] [] ev.
Proof.
  intros HA Hk Hm. pose proof (run_walk c t0 is HA) as H. pose proof (run_sep_exact c t0 is HA) as X.
  destruct (run c t0 is) as [[ev o] sf]. cbn [fst] in H. intros Hr. apply X.
  apply (seq_walk_clear c k Hk Hm ev false _ _ _ 0 H Hr); first [lia|intros Y; discriminate].
Qed.

Lemma run_sep_low_initial c t0 is : Accept c -> initial_sequence c + 1024 <= max_seq c ->
  let '(ev, o, sf) := run c t0 is in sep_walk [] [] ev.
Proof.
  intros HA Hm. pose proof (run_walk c t0 is HA) as H. pose proof (run_sep_small_rounds c 512 t0 is HA ltac:(lia) ltac:(lia)) as X.
  destruct (run c t0 is) as [[ev o] sf]. cbn [fst] in H. apply X.
  pose proof (seq_walk_within c ev _ _ H ltac:(lia)) as W. rewrite Z.sub_diag in W. exact W.
Qed.

(* in terms of the configuration: general limit, initial sequence at most 63999 - every protocol, TCP included *)
Lemma run_sep_general_63999 c t0 is : Accept c -> ~ (multipath c = Dublin /\ is_v6 (target_addr c) = true) ->
  initial_sequence c <= 63999 -> let '(ev, o, sf) := run c t0 is in sep_walk [] [] ev.
Proof.
  intros HA Hn Hi. destruct (max_seq_general c HA Hn) as [_ Hm]. apply (run_sep_low_initial c t0 is HA). lia.
Qed.

(* general limit: rounds of at most (65023 - initial) / 2 numbers; for the largest initial sequence 64511 that is 256 *)
Lemma run_sep_general_rounds c k t0 is : Accept c -> ~ (multipath c = Dublin /\ is_v6 (target_addr c) = true) ->
  0 <= k -> initial_sequence c + 2 * k <= 65023 ->
  let '(ev, o, sf) := run c t0 is in rounds_within k 0 ev -> sep_walk [] [] ev.
Proof.
  intros HA Hn Hk Hi. destruct (max_seq_general c HA Hn) as [_ Hm]. apply (run_sep_small_rounds c k t0 is HA Hk). lia.
Qed.

Lemma run_starts_general c t0 is : Accept c -> ~ (multipath c = Dublin /\ is_v6 (target_addr c) = true) ->
  let '(ev, o, sf) := run c t0 is in starts_walk 65023 (initial_sequence c) (initial_sequence c) 0 ev.
Proof.
  intros HA Hn. destruct (max_seq_general c HA Hn) as [_ Hm].
  pose proof (run_walk c t0 is HA) as H. destruct (run c t0 is) as [[ev o] sf]. cbn [fst] in H.
  pose proof (seq_walk_starts c 65023 Hm ev _ _ H ltac:(lia)) as W. rewrite Z.sub_diag in W. exact W.
Qed.

Lemma run_starts_dublin6 c t0 is : Accept c -> multipath c = Dublin -> is_v6 (target_addr c) = true ->
  let '(ev, o, sf) := run c t0 is in
  starts_walk (initial_sequence c + 512) (initial_sequence c) (initial_sequence c) 0 ev.
Proof.
  intros HA Hd Hv. destruct (max_seq_dublin6 c HA Hd Hv) as [_ Hm].
  pose proof (run_walk c t0 is HA) as H. destruct (run c t0 is) as [[ev o] sf]. cbn [fst] in H.
  pose proof (seq_walk_starts c _ Hm ev _ _ H ltac:(lia)) as W. rewrite Z.sub_diag in W. exact W.
Qed.

(* the counters of the final state are the trace's: the sends since the last publication are exactly the numbers
   round_sequence .. sequence - 1 of the final state, at most 512 of them, one per slot *)
Lemma run_tail c t0 is : Accept c ->
  let '(ev, o, sf) := run c t0 is in
  tail_sends [] ev = zrange (round_sequence sf) (Z.to_nat (sequence sf - round_sequence sf)) /\
  0 <= sequence sf - round_sequence sf <= 512 /\ length (buffer sf) = 512%nat.
Proof.
  intros HA. pose proof (run_walk c t0 is HA) as H. unfold run in *.
  pose proof (run_walk_end_from c HA is _ (inv_new c t0 HA)) as E.
  pose proof (run_from_inv c HA is _ (inv_new c t0 HA)) as I.
  destruct (run_from c (ts_new c t0) is) as [[ev o] sf]. cbn [fst] in H. cbn [ts_new round_sequence sequence] in E.
  destruct I as [I _].
  pose proof (seq_walk_tail c ev _ _ [] H ltac:(lia)) as T. rewrite E in T.
  destruct T as [T1 T2]; [rewrite Z.sub_diag; reflexivity|].
  split; [exact T2|]. pose proof (inv_seq c sf I). split; [lia|apply (inv_len c sf I)].
Qed.

(* a run that ends with the capacity error although the environment injected no fatal error: TCP, and the round in
   progress has handed exactly its 512 numbers round_sequence .. round_sequence + 511 to the network, not one more *)
Lemma run_capacity_error c t0 is ev sf : Accept c -> Forall (no_fatal c) is ->
  run c t0 is = (ev, Failed_with EInsufficientCapacity, sf) ->
  proto c = Tcp /\ sequence sf - round_sequence sf = 512 /\
  tail_sends [] ev = zrange (round_sequence sf) 512 /\ length (buffer sf) = 512%nat.
Proof.
  intros HA Hnf H. pose proof (run_tail c t0 is HA) as T. rewrite H in T. destruct T as (T1 & T2 & T3).
  destruct (run_failed_injected c t0 is ev _ sf HA H) as (pre & i & post & ev0 & s0 & ev1 & -> & Hpre & _ & _ & _ & Hst).
  assert (HI0 : Inv c s0).
  { pose proof (run_from_inv c HA pre _ (inv_new c t0 HA)) as X. unfold run in Hpre. rewrite Hpre in X. exact (proj1 X). }
  rewrite Forall_forall in Hnf. assert (Hi : no_fatal c i) by (apply Hnf; apply in_or_app; right; left; reflexivity).
  destruct Hi as [Hr Hs].
  assert (Hns : ~ In (FatalS EInsufficientCapacity) (i_sends i)).
  { intros X. rewrite Forall_forall in Hs. destruct (Hs _ X) as [Y|[Y|[Y _]]]; discriminate. }
  destruct (step_capacity_error c s0 i sf ev1 HA HI0 Hst Hns (Hr _)) as (Hp & Hn & _ & _).
  split; [exact Hp|]. split; [exact Hn|]. split; [|exact T3]. rewrite T1, Hn. reflexivity.
Qed.

(* ================= boolean readings of the walks, for the refutations ================= *)
Fixpoint sep_walkb (prev cur : list Z) (ev : list event) : bool :=
  match ev with
  | [] => true
  | ESend p _ :: t =>
    negb (existsb (Z.eqb (p_sequence p)) prev) && negb (existsb (Z.eqb (p_sequence p)) cur) && sep_walkb prev (p_sequence p :: cur) t
  | EPublish _ :: t => sep_walkb cur [] t
  end.

Lemma existsb_in x l : existsb (Z.eqb x) l = true <-> In x l.
Proof.
  rewrite existsb_exists. split.
  - intros (y & Hy & E). apply Z.eqb_eq in E. subst. exact Hy.
  - intros H. exists x. split; [exact H|apply Z.eqb_refl].
Qed.

Lemma sep_walkb_false : forall ev prev cur, sep_walkb prev cur ev = false -> ~ sep_walk prev cur ev.
Proof.
  induction ev as [|[p o|r] ev IH]; intros prev cur Hb Hw; cbn [sep_walkb sep_walk] in *.
  - discriminate.
  - destruct Hw as (H1 & H2 & H3).
    destruct (existsb (Z.eqb (p_sequence p)) prev) eqn:E1; [apply H1, existsb_in, E1|].
    destruct (existsb (Z.eqb (p_sequence p)) cur) eqn:E2; [apply H2, existsb_in, E2|].
    cbn [negb andb] in Hb. exact (IH _ _ Hb H3).
  - exact (IH _ _ Hb Hw).
Qed.

Fixpoint rounds_withinb (k n : Z) (ev : list event) : bool :=
  match ev with
  | [] => true
  | ESend _ _ :: t => (n + 1 <=? k) && rounds_withinb k (n + 1) t
  | EPublish _ :: t => rounds_withinb k 0 t
  end.

Lemma rounds_withinb_true k : forall ev n, rounds_withinb k n ev = true -> rounds_within k n ev.
Proof.
  induction ev as [|[p o|r] ev IH]; intros n Hb; cbn [rounds_withinb rounds_within] in *.
  - exact I.
  - apply andb_true_iff in Hb. destruct Hb as [H1 H2]. split; [lia|apply IH; exact H2].
  - apply IH; exact Hb.
Qed.

(* ================= witnesses: tightness of the TCP conditions, satisfiable hypotheses ================= *)

(* TCP, one time-to-live per round: a round is one probe plus the re-issues forced by address-in-use *)
Definition sr_tcp (init : Z) : scfg :=
  {| target_addr := [10;0;0;1]; proto := Tcp; trace_identifier := 0; max_rounds := None;
     first_ttl := 1; max_ttl := 1; grace_duration := 100; max_inflight := 24; initial_sequence := init;
     multipath := Classic; port_direction := FixedSrc 5000; min_round_duration := 1000; max_round_duration := 1000 |}.
Definition sr_it (sends : list send_outcome) (u : Z) : iter_in :=
  {| i_clock := [u]; i_sends := sends; i_recv := Timeout; i_update := u; i_advance := u |}.
(* a round that uses n numbers: n - 1 collisions, then the probe goes out; the next iteration sees the round expire *)
Definition sr_round (n : nat) (t : Z) : list iter_in :=
  [sr_it (repeat AddressInUseO (n - 1) ++ [Sent]) (t + 10); sr_it [] (t + 5000)].

Lemma sr_tcp_accept init : 0 <= init <= 64511 -> Accept (sr_tcp init).
Proof.
  intros H. split.
  - unfold builder_accepts, sr_tcp, MAX_TTL, MAX_INITIAL_SEQUENCE, BUFFER_SIZE; cbn.
    destruct (init <=? 64511) eqn:E; [reflexivity|lia].
  - unfold cfg_wf, sr_tcp; cbn; unfold u8, u16; lia.
Qed.

Lemma sr_no_fatal init n t : Forall (no_fatal (sr_tcp init)) (sr_round n t).
Proof.
  repeat constructor; cbn; try discriminate.
  apply Forall_app. split; [|repeat constructor].
  apply Forall_forall. intros o Ho. apply repeat_spec in Ho. subst. right; right. split; reflexivity.
Qed.

(* rounds of 256 numbers from the largest initial sequence: the third round restarts at 64511 and ends just below the
   start 64767 of the second (so the fourth starts at 64511 + 256) - the hypotheses of [run_sep_general_rounds] with k = 256 are met by a run that wraps *)
Definition sr_run_256 := run (sr_tcp 64511) 0 (sr_round 256 0 ++ sr_round 256 5000 ++ sr_round 256 10000).

Lemma sr_run_256_ok :
  Accept (sr_tcp 64511) /\ initial_sequence (sr_tcp 64511) + 2 * 256 <= 65023 /\
  let '(ev, o, sf) := sr_run_256 in
  rounds_within 256 0 ev /\ length (pubs ev) = 3%nat /\ round_sequence sf = 64511 + 256 /\ sep_walk [] [] ev.
Proof.
  split; [apply sr_tcp_accept; lia|]. split; [cbn; lia|].
  pose proof (run_sep_general_rounds (sr_tcp 64511) 256 0 (sr_round 256 0 ++ sr_round 256 5000 ++ sr_round 256 10000)
                (sr_tcp_accept 64511 ltac:(lia)) ltac:(intros [X _]; discriminate) ltac:(lia) ltac:(cbn; lia)) as S.
  assert (H : (let '(ev, o, sf) := sr_run_256 in
               rounds_withinb 256 0 ev && (length (pubs ev) =? 3)%nat && (round_sequence sf =? 64767)) = true)
    by (vm_compute; reflexivity).
  unfold sr_run_256 in *. destruct (run _ _ _) as [[ev o] sf].
  repeat (apply andb_true_iff in H; destruct H as [H ?]).
  pose proof (rounds_withinb_true 256 ev 0 H) as R.
  split; [exact R|]. split; [apply Nat.eqb_eq; assumption|]. split; [lia|exact (S R)].
Qed.

(* 257 is too many: rounds of 256 / 257 / 257 numbers - the third round re-issues 64767, the first number of the second *)
Lemma sr_sep_257_refuted :
  Accept (sr_tcp 64511) /\
  exists is, Forall (no_fatal (sr_tcp 64511)) is /\
    let '(ev, o, sf) := run (sr_tcp 64511) 0 is in rounds_within 257 0 ev /\ ~ sep_walk [] [] ev.
Proof.
  split; [apply sr_tcp_accept; lia|].
  exists (sr_round 256 0 ++ sr_round 257 5000 ++ sr_round 257 10000).
  split; [repeat (apply Forall_app; split); apply sr_no_fatal|].
  assert (H : (let '(ev, o, sf) := run (sr_tcp 64511) 0 (sr_round 256 0 ++ sr_round 257 5000 ++ sr_round 257 10000) in
               rounds_withinb 257 0 ev && negb (sep_walkb [] [] ev)) = true) by (vm_compute; reflexivity).
  destruct (run _ _ _) as [[ev o] sf]. apply andb_true_iff in H. destruct H as [H1 H2].
  split; [apply rounds_withinb_true; exact H1|]. apply sep_walkb_false. destruct (sep_walkb [] [] ev); [discriminate|reflexivity].
Qed.

(* 63999 is the largest initial sequence for which TCP needs no condition: from 64000, rounds of 511 / 512 / 512 numbers
   (no capacity error: the 512th number is the one that is sent) make the third round re-issue 64511, the first number
   of the second *)
Lemma sr_sep_64000_refuted :
  Accept (sr_tcp 64000) /\
  exists is, Forall (no_fatal (sr_tcp 64000)) is /\
    let '(ev, o, sf) := run (sr_tcp 64000) 0 is in o = Running /\ ~ sep_walk [] [] ev.
Proof.
  split; [apply sr_tcp_accept; lia|].
  exists (sr_round 511 0 ++ sr_round 512 5000 ++ sr_round 512 10000).
  split; [repeat (apply Forall_app; split); apply sr_no_fatal|].
  assert (H : (let '(ev, o, sf) := run (sr_tcp 64000) 0 (sr_round 511 0 ++ sr_round 512 5000 ++ sr_round 512 10000) in
               match o with Running => true | _ => false end && negb (sep_walkb [] [] ev)) = true) by (vm_compute; reflexivity).
  destruct (run _ _ _) as [[ev o] sf]. apply andb_true_iff in H. destruct H as [H1 H2].
  split; [destruct o; try discriminate; reflexivity|]. apply sep_walkb_false. destruct (sep_walkb [] [] ev); [discriminate|reflexivity].
Qed.

(* the hypotheses of [run_capacity_error] are met: 512 collisions in the first iteration *)
Lemma sr_capacity_ok :
  Accept (sr_tcp 33434) /\ Forall (no_fatal (sr_tcp 33434)) (sr_round 513 0) /\
  exists ev sf, run (sr_tcp 33434) 0 (sr_round 513 0) = (ev, Failed_with EInsufficientCapacity, sf) /\
    tail_sends [] ev = zrange 33434 512.
Proof.
  split; [apply sr_tcp_accept; lia|]. split; [apply sr_no_fatal|].
  assert (H : (let '(ev, o, sf) := run (sr_tcp 33434) 0 (sr_round 513 0) in
               match o with Failed_with EInsufficientCapacity => true | _ => false end && (round_sequence sf =? 33434)) = true)
    by (vm_compute; reflexivity).
  pose proof (run_capacity_error (sr_tcp 33434) 0 (sr_round 513 0)) as C.
  destruct (run _ _ _) as [[ev o] sf]. apply andb_true_iff in H. destruct H as [H1 H2].
  destruct o as [| |e|]; try discriminate. destruct e; try discriminate.
  exists ev, sf. split; [reflexivity|].
  destruct (C ev sf (sr_tcp_accept 33434 ltac:(lia)) (sr_no_fatal 33434 513 0) eq_refl) as (_ & _ & T & _).
  rewrite T. f_equal. lia.
Qed.

(* Dublin over IPv6 (16-octet target): accepted, the limit is initial + 512; three rounds of 200 probes: the third
   ends at initial + 600 >= the limit, so the fourth starts at the initial sequence again *)
Definition sr_dublin6 : scfg :=
  {| target_addr := [32;1;13;184;0;0;0;0;0;0;0;0;0;0;0;1]; proto := Udp; trace_identifier := 0; max_rounds := None;
     first_ttl := 1; max_ttl := 200; grace_duration := 100; max_inflight := 250; initial_sequence := 33434;
     multipath := Dublin; port_direction := FixedSrc 5000; min_round_duration := 1000; max_round_duration := 1000 |}.
Definition sr_udp_round (n : nat) (t : Z) : list iter_in :=
  map (fun k => sr_it [Sent] (t + 1 + Z.of_nat k)) (seq 0 n) ++ [sr_it [] (t + 5000)].

Lemma sr_dublin6_ok :
  Accept sr_dublin6 /\ multipath sr_dublin6 = Dublin /\ is_v6 (target_addr sr_dublin6) = true /\ proto sr_dublin6 = Udp /\
  (let '(ev, o, sf) := run sr_dublin6 0 (sr_udp_round 200 0 ++ sr_udp_round 200 5000) in
   length (ev_probes ev) = 400%nat /\ round_sequence sf = 33434 + 400) /\
  (let '(ev, o, sf) := run sr_dublin6 0 (sr_udp_round 200 0 ++ sr_udp_round 200 5000 ++ sr_udp_round 200 10000) in
   length (ev_probes ev) = 600%nat /\ round_sequence sf = 33434).
Proof.
  split; [split; [reflexivity|unfold cfg_wf, sr_dublin6; cbn; unfold u8, u16; lia]|].
  do 3 (split; [reflexivity|]).
  split; vm_compute; split; reflexivity.
Qed.
