(* C07 over whole runs of the strategy loop (Core/Strategy.v [run]) and the TCP capacity error path of [step].
   The specification is a walk over the event trace of the run that knows nothing of the tracer state:
   it only carries the first sequence number of the round in progress and the next number to be issued. *)
From TV Require Import Base.Result Core.Types Core.TracerState Core.Strategy Core.Builder
  Proofs.ListLemmas Proofs.StrategyInv Proofs.StrategyProps Proofs.RoundHistory Proofs.RunSemantics.
From Coq Require Import ZifyBool.

(* ================= specification vocabulary ================= *)

(* [seq_walk c rs q ev]: rs = first sequence number of the round in progress, q = the number the next probe must carry.
   A send carries exactly q, lies in the round's window of 512 numbers, is below 65535 (no wrap), and the next number
   is q + 1.  A publication reports exactly q - rs probes; the next round starts at q, or at the initial sequence when
   q has reached the maximum sequence of the configuration. *)
Fixpoint seq_walk (c : scfg) (rs q : Z) (ev : list event) : Prop :=
  match ev with
  | [] => True
  | ESend p _ :: t =>
    p_sequence p = q /\ rs <= q /\ q - rs < 512 /\ q < 65535 /\ seq_walk c rs (q + 1) t
  | EPublish r :: t =>
    Z.of_nat (length (rr_probes r)) = q - rs /\ q - rs <= 512 /\ initial_sequence c <= rs < max_seq c /\
    let q' := if max_seq c <=? q then initial_sequence c else q in seq_walk c q' q' t
  end.

(* [sep_walk prev cur ev]: prev = the sequence numbers used in the round published last, cur = those used so far in the
   round in progress.  No send uses a number of the immediately preceding round, nor one already used in its own round. *)
Fixpoint sep_walk (prev cur : list Z) (ev : list event) : Prop :=
  match ev with
  | [] => True
  | ESend p _ :: t => ~ In (p_sequence p) prev /\ ~ In (p_sequence p) cur /\ sep_walk prev (p_sequence p :: cur) t
  | EPublish _ :: t => sep_walk cur [] t
  end.

(* what the sequence walk means for one published round: at most 512 sends, numbered consecutively without a wrap,
   and the round reports one slot per send *)
Definition round_numbering (S : list (probe * send_outcome)) (r : round_rec) : Prop :=
  (length S <= 512)%nat /\ length (rr_probes r) = length S /\
  exists q0, 0 <= q0 /\ map (fun po => p_sequence (fst po)) S = zrange q0 (length S) /\ q0 + Z.of_nat (length S) <= 65535.

(* ================= the sequence walk ================= *)

Lemma advance_round_exact c s ft now s' : Accept c -> advance_round c s ft now = Ok s' ->
  sequence s' = (if max_seq c <=? sequence s then initial_sequence c else sequence s) /\
  round_sequence s' = sequence s'.
Proof.
  intros HA H. unfold advance_round in H. rewrite (max_sequence_ok c HA) in H. cbn [bind] in H.
  inversion H; subst. cbn [sequence round_sequence]. split; reflexivity.
Qed.

Lemma seq_walk_sends c rs : forall ev1 q rest, length (ev_probes ev1) = length ev1 ->
  map p_sequence (ev_probes ev1) = zrange q (length (ev_probes ev1)) ->
  rs <= q -> q + Z.of_nat (length ev1) <= rs + 512 -> rs < 65023 ->
  seq_walk c rs (q + Z.of_nat (length ev1)) rest -> seq_walk c rs q (ev1 ++ rest).
Proof.
  induction ev1 as [|[p o|r] ev1 IH]; intros q rest Hl Hm Hlo Hhi Hrs Hw; cbn [app length ev_probes] in *.
  - rewrite Z.add_0_r in Hw. exact Hw.
  - cbn [map zrange] in Hm. inversion Hm as [[Hp Hm']]. cbn [seq_walk].
    split; [reflexivity|]. split; [lia|]. split; [lia|]. split; [lia|].
    rewrite Hp in *. apply IH; try lia; [exact Hm'|].
    replace (q + 1 + Z.of_nat (length ev1)) with (q + Z.of_nat (Datatypes.S (length ev1))) by lia. exact Hw.
  - pose proof (ev_probes_le ev1). lia.
Qed.

Lemma run_seq_walk_from c : Accept c -> forall is s, Inv c s ->
  let '(ev, o, sf) := run_from c s is in seq_walk c (round_sequence s) (sequence s) ev.
Proof.
  intros HA. pose proof (max_seq_bounds c HA) as M.
  induction is as [|i rest IH]; intros s HI; cbn [run_from].
  - destruct (finished s (max_rounds c)); exact I.
  - destruct (finished s (max_rounds c)); [exact I|].
    destruct (step_decompose c s i HA HI) as (s1 & ev1 & e1 & H1 & HI1 & Hsb & Hsh & Hrest).
    assert (Hrs1 : round_sequence s1 = round_sequence s) by (destruct Hsb as (_ & _ & _ & _ & _ & _ & X); exact X).
    pose proof (inv_seq c s HI) as Hseq. pose proof (inv_rs c s HI) as Hrsb. pose proof (inv_seq c s1 HI1) as Hseq1.
    assert (Hsends : forall rest', seq_walk c (round_sequence s1) (sequence s1) rest' ->
                                   seq_walk c (round_sequence s) (sequence s) (ev1 ++ rest')).
    { intros rest' Hw. destruct Hsh as [[-> ->]|Hsh]; [exact Hw|].
      destruct Hsh as (_ & Hlen & _ & _ & _ & _ & Hq & Hmap & _).
      apply seq_walk_sends; try assumption; try lia.
      rewrite <- Hlen, <- Hq, <- Hrs1. exact Hw. }
    destruct e1 as [e1|].
    { rewrite Hrest. rewrite <- (app_nil_r ev1). apply Hsends. exact I. }
    destruct Hrest as (s2 & e2 & H2 & HI2 & Hrest).
    destruct (recv_response_ok c s1 i HA HI1) as (s2' & e2' & H2' & _ & Hq2 & Hrs2 & _).
    rewrite H2 in H2'. inversion H2'; subst s2' e2'. clear H2'.
    destruct e2 as [e2|].
    { rewrite Hrest. rewrite <- (app_nil_r ev1). apply Hsends. exact I. }
    destruct Hrest as (s3 & ev3 & H3 & HI3 & Hst). rewrite Hst.
    specialize (IH s3 HI3). destruct (run_from c s3 rest) as [[evs o] sf].
    rewrite <- app_assoc. apply Hsends.
    destruct (update_round_ok c s2 i HA HI2) as (s3' & ev3' & H3' & _ & Hcase). rewrite H3 in H3'. inversion H3'; subst s3' ev3'. clear H3'.
    destruct Hcase as [(_ & -> & ->)|(_ & r & Hr & -> & Ha & _)].
    + cbn [app]. rewrite <- Hq2, <- Hrs2. exact IH.
    + cbn [app seq_walk].
      destruct (publish_trace_ok c s2 HA HI2) as (r' & Hr' & Hprobes & _). rewrite Hr in Hr'. inversion Hr'; subst r'.
      destruct (advance_round_exact c s2 _ _ s3 HA Ha) as [Hq3 Hrs3].
      pose proof (inv_len c s2 HI2) as Hlen2. pose proof (inv_seq c s2 HI2) as Hseq2. pose proof (inv_lo c s2 HI2) as Hlo2.
      split; [rewrite Hprobes, firstn_length, Hlen2; lia|]. split; [lia|]. split; [lia|].
      cbn zeta. rewrite <- Hq2, <- Hq3. rewrite Hrs3 in IH. exact IH.
Qed.

(* ---- from the walk to the per-round reading ---- *)
Lemma zrange_snoc : forall n a, zrange a (Datatypes.S n) = zrange a n ++ [a + Z.of_nat n].
Proof.
  induction n as [|n IH]; intros a.
  - cbn. rewrite Z.add_0_r. reflexivity.
  - change (zrange a (Datatypes.S (Datatypes.S n))) with (a :: zrange (a + 1) (Datatypes.S n)). rewrite IH.
    cbn [zrange app]. replace (a + 1 + Z.of_nat n) with (a + Z.of_nat (Datatypes.S n)) by lia. reflexivity.
Qed.

Lemma seq_walk_rounds c : 0 <= initial_sequence c -> max_seq c <= 65023 -> forall ev rs q acc, seq_walk c rs q ev -> 0 <= rs ->
  map (fun po => p_sequence (fst po)) acc = zrange rs (length acc) -> q = rs + Z.of_nat (length acc) ->
  Forall (fun x => round_numbering (fst x) (snd x)) (segs acc ev).
Proof.
  intros Hi0 Hm. induction ev as [|[p o|r] ev IH]; intros rs q acc Hw Hrs Hacc Hq; cbn [segs].
  - constructor.
  - cbn [seq_walk] in Hw. destruct Hw as (Hp & _ & _ & _ & Hw).
    apply (IH rs (q + 1)); [exact Hw|exact Hrs| |rewrite app_length; cbn [length]; lia].
    rewrite map_app, app_length. cbn [map length fst]. rewrite Nat.add_1_r, zrange_snoc, Hacc, Hp, Hq. reflexivity.
  - cbn [seq_walk] in Hw. destruct Hw as (Hlen & Hle & Hinit & Hw). constructor.
    + cbn [fst snd]. unfold round_numbering. split; [lia|]. split; [lia|].
      exists rs. split; [exact Hrs|]. split; [exact Hacc|].
      lia.
    + cbn zeta in Hw. destruct (max_seq c <=? q) eqn:E.
      * apply (IH _ _ [] Hw); [lia|reflexivity|cbn; lia].
      * apply (IH _ _ [] Hw); [lia|reflexivity|cbn; lia].
Qed.

Lemma run_seq_walk c t0 is : Accept c ->
  let '(ev, o, sf) := run c t0 is in
  seq_walk c (initial_sequence c) (initial_sequence c) ev /\
  Forall (fun x => round_numbering (fst x) (snd x)) (segs [] ev).
Proof.
  intros HA. unfold run. pose proof (run_seq_walk_from c HA is (ts_new c t0) (inv_new c t0 HA)) as H.
  destruct (run_from c (ts_new c t0) is) as [[ev o] sf]. cbn [ts_new round_sequence sequence] in H.
  split; [exact H|]. pose proof (accept_facts c HA) as F. pose proof (max_seq_bounds c HA) as M.
  apply (seq_walk_rounds c ltac:(lia) ltac:(lia) ev (initial_sequence c) (initial_sequence c) [] H); [lia|reflexivity|cbn; lia].
Qed.

(* ================= separation of consecutive rounds over whole runs (ICMP, UDP) ================= *)

Lemma zrange_in : forall n a x, In x (zrange a n) <-> a <= x < a + Z.of_nat n.
Proof.
  induction n as [|n IH]; intros a x; cbn [zrange In].
  - split; [intros []|lia].
  - rewrite IH. lia.
Qed.

Lemma sep_walk_sends prev : forall ev1 q cur rest, length (ev_probes ev1) = length ev1 ->
  map p_sequence (ev_probes ev1) = zrange q (length (ev_probes ev1)) ->
  Forall (fun x => x < q) cur ->
  (forall x, q <= x < q + Z.of_nat (length ev1) -> ~ In x prev) ->
  sep_walk prev (rev (zrange q (length ev1)) ++ cur) rest -> sep_walk prev cur (ev1 ++ rest).
Proof.
  induction ev1 as [|[p o|r] ev1 IH]; intros q cur rest Hl Hm Hc Hp Hw; cbn [app length ev_probes] in *.
  - exact Hw.
  - cbn [map zrange] in Hm. inversion Hm as [[Hq Hm']]. cbn [sep_walk]. rewrite Hq in *.
    split; [apply Hp; lia|]. split.
    + intros Hin. rewrite Forall_forall in Hc. specialize (Hc _ Hin). lia.
    + apply (IH (q + 1)); [lia|exact Hm'| |intros x Hx; apply Hp; lia|].
      * constructor; [lia|]. eapply Forall_impl; [|exact Hc]. cbn. intros; lia.
      * cbn [zrange rev] in Hw. rewrite <- app_assoc in Hw. exact Hw.
  - pose proof (ev_probes_le ev1). lia.
Qed.

(* invariant of the separation walk: the numbers of the round in progress lie in its window; those of the round
   before lie below the window or at least 254 above its start (no round of ICMP / UDP uses more than 254 numbers) *)
Lemma run_sep_walk_from c : Accept c -> proto c <> Tcp -> forall is s prev cur, Inv c s ->
  Forall (fun x => round_sequence s <= x < sequence s) cur ->
  Forall (fun x => x < round_sequence s \/ round_sequence s + 254 <= x) prev ->
  let '(ev, o, sf) := run_from c s is in sep_walk prev cur ev.
Proof.
  intros HA Hp. pose proof (max_seq_bounds c HA) as M. pose proof (accept_facts c HA) as F.
  induction is as [|i rest IH]; intros s prev cur HI Hcur Hprev; cbn [run_from].
  - destruct (finished s (max_rounds c)); exact I.
  - destruct (finished s (max_rounds c)); [exact I|].
    destruct (step_decompose c s i HA HI) as (s1 & ev1 & e1 & H1 & HI1 & Hsb & Hsh & Hrest).
    assert (Hrs1 : round_sequence s1 = round_sequence s) by (destruct Hsb as (_ & _ & _ & _ & _ & _ & X); exact X).
    pose proof (inv_seq c s HI) as Hseq. pose proof (inv_seq c s1 HI1) as Hseq1.
    pose proof (inv_cnt_eq c s1 HI1 Hp) as Hce1. pose proof (inv_ttl c s1 HI1) as Httl1.
    set (cur1 := rev (zrange (sequence s) (length ev1)) ++ cur).
    assert (Hq1 : sequence s1 = sequence s + Z.of_nat (length ev1)).
    { destruct Hsh as [[-> ->]|Hsh]; [cbn; lia|]. destruct Hsh as (_ & Hlen & _ & _ & _ & _ & Hq & _). lia. }
    assert (Hcur1 : Forall (fun x => round_sequence s1 <= x < sequence s1) cur1).
    { unfold cur1. apply Forall_app. split.
      - apply Forall_forall. intros x Hx. apply in_rev in Hx. apply zrange_in in Hx. lia.
      - eapply Forall_impl; [|exact Hcur]. cbn. intros; lia. }
    assert (Hsends : forall rest', sep_walk prev cur1 rest' -> sep_walk prev cur (ev1 ++ rest')).
    { intros rest' Hw. destruct Hsh as [[-> ->]|Hsh]; [exact Hw|].
      destruct Hsh as (_ & Hlen & _ & _ & _ & _ & Hq & Hmap & _).
      apply (sep_walk_sends prev ev1 (sequence s)); try assumption.
      - eapply Forall_impl; [|exact Hcur]. cbn. intros; lia.
      - intros x Hx Hin. rewrite Forall_forall in Hprev. specialize (Hprev _ Hin). lia. }
    destruct e1 as [e1|].
    { rewrite Hrest. rewrite <- (app_nil_r ev1). apply Hsends. exact I. }
    destruct Hrest as (s2 & e2 & H2 & HI2 & Hrest).
    destruct (recv_response_ok c s1 i HA HI1) as (s2' & e2' & H2' & _ & Hq2 & Hrs2 & _).
    rewrite H2 in H2'. inversion H2'; subst s2' e2'. clear H2'.
    destruct e2 as [e2|].
    { rewrite Hrest. rewrite <- (app_nil_r ev1). apply Hsends. exact I. }
    destruct Hrest as (s3 & ev3 & H3 & HI3 & Hst). rewrite Hst.
    destruct (update_round_ok c s2 i HA HI2) as (s3' & ev3' & H3' & _ & Hcase). rewrite H3 in H3'. inversion H3'; subst s3' ev3'. clear H3'.
    destruct Hcase as [(_ & -> & ->)|(_ & r & Hr & -> & Ha & _)].
    + specialize (IH s2 prev cur1 HI2).
      destruct (run_from c s2 rest) as [[evs o] sf]. rewrite app_nil_r. apply Hsends. apply IH.
      * eapply Forall_impl; [|exact Hcur1]. cbn. intros; lia.
      * eapply Forall_impl; [|exact Hprev]. cbn. intros; lia.
    + destruct (advance_round_exact c s2 _ _ s3 HA Ha) as [Hq3 Hrs3].
      specialize (IH s3 cur1 [] HI3).
      destruct (run_from c s3 rest) as [[evs o] sf]. rewrite <- app_assoc. apply Hsends. cbn [app sep_walk].
      apply IH; [constructor|].
      eapply Forall_impl; [|exact Hcur1]. cbn. intros x Hx. rewrite Hrs3, Hq3.
      destruct (max_seq c <=? sequence s2) eqn:E; lia.
Qed.

Lemma run_sep_walk c t0 is : Accept c -> proto c <> Tcp -> let '(ev, o, sf) := run c t0 is in sep_walk [] [] ev.
Proof.
  intros HA Hp. unfold run. apply (run_sep_walk_from c HA Hp is (ts_new c t0) [] [] (inv_new c t0 HA)); constructor.
Qed.

(* ================= the TCP capacity error path of one iteration ================= *)

(* the sequence budget of the round (512 numbers) is used up when the iteration starts: the iteration is the
   capacity error, nothing is sent, the state - and so every slot - is untouched *)
Lemma capacity_error_at_start c s i : Inv c s -> proto c = Tcp -> can_send c s = Ok true ->
  sequence s - round_sequence s = 512 -> step c s i = Ok (s, [], Some EInsufficientCapacity).
Proof.
  intros HI Hp Hcs Hn. unfold step, send_request. rewrite Hcs, Hp. cbn [bind negb].
  unfold round_has_capacity, sub16, sub_w, BUFFER_SIZE.
  destruct (round_sequence s <=? sequence s) eqn:E1; [|lia]. cbn [bind].
  destruct (sequence s - round_sequence s <? 512) eqn:E2; [lia|]. reflexivity.
Qed.

(* address-in-use for the probe that took the last number of the budget: no re-issue, the capacity error *)
Lemma capacity_error_in_loop c s p rest clk last : round_sequence s <= sequence s ->
  512 <= sequence s - round_sequence s ->
  tcp_reissue_loop c s p (AddressInUseO :: rest) clk last = Ok (s, [ESend p AddressInUseO], Some EInsufficientCapacity).
Proof.
  intros Hle Hn. cbn [tcp_reissue_loop do_send bind]. unfold round_has_capacity, sub16, sub_w, BUFFER_SIZE.
  destruct (round_sequence s <=? sequence s) eqn:E1; [|lia]. cbn [bind].
  destruct (sequence s - round_sequence s <? 512) eqn:E2; [lia|]. reflexivity.
Qed.

(* conversely: the loop reports an error only if the environment injected it or the budget is really used up *)
Lemma tcp_loop_capacity_only c : forall sends s p clk last s' ev e,
  tcp_reissue_loop c s p sends clk last = Ok (s', ev, Some e) ->
  In (FatalS e) sends \/ (e = EInsufficientCapacity /\ 512 <= sequence s' - round_sequence s').
Proof.
  induction sends as [|o rest IH]; intros s p clk last s' ev e H; cbn [tcp_reissue_loop] in H.
  - inversion H.
  - destruct o as [| | |e0]; cbn [do_send bind] in H.
    + inversion H.
    + destruct (fail_probe s) as [sf|?|?]; cbn [bind] in H; inversion H.
    + unfold round_has_capacity, sub16, sub_w, BUFFER_SIZE in H.
      destruct (round_sequence s <=? sequence s) eqn:E1; cbn [bind] in H; try discriminate.
      destruct (sequence s - round_sequence s <? 512) eqn:E2.
      * destruct (reissue_probe c s (hd_clock clk last)) as [[p' s'']|?|?]; cbn [bind] in H; try discriminate.
        destruct (tcp_reissue_loop c s'' p' rest (tl clk) (hd_clock clk last)) as [[[s3 ev3] e3]|?|?] eqn:Hr;
          cbn [bind] in H; try discriminate.
        inversion H; subst. destruct (IH _ _ _ _ _ _ _ Hr) as [Hin|Hc]; [left; right; exact Hin|right; exact Hc].
      * inversion H; subst. right. split; [reflexivity|lia].
    + inversion H; subst. left. left. reflexivity.
Qed.

Lemma step_capacity_error c s i s' ev : Accept c -> Inv c s ->
  step c s i = Ok (s', ev, Some EInsufficientCapacity) ->
  ~ In (FatalS EInsufficientCapacity) (i_sends i) -> i_recv i <> FatalR EInsufficientCapacity ->
  proto c = Tcp /\ sequence s' - round_sequence s' = 512 /\ length (buffer s') = 512%nat /\ pubs ev = [].
Proof.
  intros HA HI Hs Hns Hnr.
  destruct (step_ok c s i HA HI) as (s2 & ev2 & e2 & Hs2 & HI'). rewrite Hs in Hs2. inversion Hs2; subst s2 ev2 e2. clear Hs2.
  pose proof (step_error_no_publish c s i s' ev _ HA HI Hs) as Hpub.
  destruct (step_error_cases c s i s' ev _ Hs) as [H1|(s1 & _ & _ & Hr)]; [|contradiction].
  destruct (send_request_error c s i s' ev _ H1) as [X|[(X & _)|(_ & Hp & _)]]; [contradiction|discriminate|].
  split; [exact Hp|]. split; [|split; [apply (inv_len c s' HI')|exact Hpub]].
  pose proof (inv_seq c s' HI') as Hseq'. cut (512 <= sequence s' - round_sequence s'); [lia|].
  unfold send_request in H1. rewrite Hp in H1.
  destruct (can_send c s) as [b|?|?]; cbn [bind] in H1; try discriminate.
  destruct b; cbn [negb] in H1; [|inversion H1].
  unfold round_has_capacity, sub16, sub_w, BUFFER_SIZE in H1.
  destruct (round_sequence s <=? sequence s) eqn:E1; cbn [bind] in H1; try discriminate.
  destruct (sequence s - round_sequence s <? 512) eqn:E2; cbn [negb] in H1.
  - destruct (next_probe c s _) as [[p sa]|?|?]; cbn [bind] in H1; try discriminate.
    destruct (i_sends i) as [|o rest] eqn:Es; [inversion H1|].
    destruct (tcp_loop_capacity_only c _ _ _ _ _ _ _ _ H1) as [X|[_ X]]; [contradiction|exact X].
  - inversion H1; subst. lia.
Qed.

(* the probe that takes the last number of the budget meets address-in-use: it is handed to the network once, and
   the iteration ends with the capacity error instead of indexing slot 512 *)
Lemma capacity_error_after_send c s i rest : Accept c -> Inv c s -> proto c = Tcp -> can_send c s = Ok true ->
  sequence s - round_sequence s = 511 -> i_sends i = AddressInUseO :: rest ->
  exists p s1, next_probe c s (hd_clock (i_clock i) (round_start s)) = Ok (p, s1) /\
    sequence s1 - round_sequence s1 = 512 /\
    step c s i = Ok (s1, [ESend p AddressInUseO], Some EInsufficientCapacity).
Proof.
  intros HA HI Hp Hcs Hn Hs.
  destruct (can_send_ok c s HA HI) as (b & Hcs' & Hb). rewrite Hcs in Hcs'. inversion Hcs'; subst b.
  destruct (Hb eq_refl) as (_ & Hmax & _). pose proof (accept_facts c HA) as F.
  set (sent := hd_clock (i_clock i) (round_start s)).
  destruct (next_probe_spec c s sent HA HI ltac:(lia) ltac:(lia)) as (d & bf & Hd & Hbf & Hnp).
  destruct (next_probe_inv c s sent _ _ HA HI ltac:(lia) ltac:(lia) ltac:(auto) Hnp) as (HI1 & Hq1 & _ & Hrs1 & _).
  eexists _, _. split; [exact Hnp|]. split; [lia|].
  unfold step, send_request. rewrite Hcs, Hp. cbn [bind negb]. fold sent.
  unfold round_has_capacity at 1. unfold sub16, sub_w, BUFFER_SIZE.
  destruct (round_sequence s <=? sequence s) eqn:E1; [|lia]. cbn [bind].
  destruct (sequence s - round_sequence s <? 512) eqn:E2; [|lia]. cbn [negb].
  rewrite Hnp, Hs. cbn [bind].
  rewrite capacity_error_in_loop; [reflexivity|lia|lia].
Qed.

(* ================= lifting a per-iteration fact about the probes sent to whole runs ================= *)
Lemma ev_probes_app a b : ev_probes (a ++ b) = ev_probes a ++ ev_probes b.
Proof. induction a as [|[p o|r] a IH]; cbn; congruence. Qed.

Lemma run_probes_forall c (P : probe -> Prop) : Accept c ->
  (forall s i s' ev e, reach c s -> step c s i = Ok (s', ev, e) -> Forall P (ev_probes ev)) ->
  forall t0 is, let '(ev, o, sf) := run c t0 is in Forall P (ev_probes ev).
Proof.
  intros HA HP t0 is. unfold run.
  assert (H : forall is s, reach c s -> let '(ev, o, sf) := run_from c s is in Forall P (ev_probes ev)).
  { clear is. induction is as [|i rest IH]; intros s HR; cbn [run_from].
    - destruct (finished s (max_rounds c)); constructor.
    - destruct (finished s (max_rounds c)) eqn:Ef; [constructor|].
      destruct (step_ok c s i HA (reach_inv c s HA HR)) as (s' & ev & e & Hs & _). rewrite Hs.
      pose proof (HP s i s' ev e HR Hs) as H1.
      destruct e as [e|]; [exact H1|].
      specialize (IH s' (reach_step c s i s' ev None HR Ef Hs)).
      destruct (run_from c s' rest) as [[evs o] sf]. rewrite ev_probes_app. apply Forall_app. split; assumption. }
  apply H. apply reach_init.
Qed.

(* Dublin/IPv6 over whole runs: the payload length derived from the sequence of every probe handed to the network
   (sequence - initial sequence, plus 6 magic octets) fits the 976-octet payload buffer *)
Lemma run_dublin_payload c t0 is : Accept c -> proto c = Udp -> multipath c = Dublin -> is_v6 (target_addr c) = true ->
  let '(ev, o, sf) := run c t0 is in
  Forall (fun p => 0 <= p_sequence p - initial_sequence c /\ p_sequence p - initial_sequence c + 6 <= 976) (ev_probes ev).
Proof.
  intros HA Hp Hm Hv.
  apply (run_probes_forall c (fun p => 0 <= p_sequence p - initial_sequence c /\ p_sequence p - initial_sequence c + 6 <= 976) HA).
  intros s i s' ev e HR Hs. pose proof (c07_dublin_payload_lemma c s i s' ev e HA HR Hp Hm Hv Hs) as H.
  rewrite Forall_map in H. exact H.
Qed.
