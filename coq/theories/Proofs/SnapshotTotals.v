(* C01, the last step: the snapshot a reader sees.

   For EVERY run of the strategy model (every accepted configuration, every behaviour of the environment) the
   published rounds are fed to a fresh State (State::update_from_round, one call per published round - the
   publish callback of Tracer::run).  The per-hop totals of the resulting state are then read off the
   network-level history alone:

     total_sent   of hop t = number of probes with ttl t handed to the network in published rounds whose send was
                             not abandoned (address in use: the slot is Skipped and the probe re-issued);
     total_failed of hop t = number of those whose send reported a transient failure;
     total_recv   of hop t = number of genuine responses (the first one per probe, [RunLog.genuine]) delivered
                             for a probe of ttl t before its round was published;
     the addresses of hop t = the hosts of exactly those responses, with multiplicities;
     total_time   of hop t = the sum of max 0 (receive time - send time) over those responses;

   summed over the hops nothing is invented, dropped or counted twice, and the probes of the round still in
   progress (the part of the log after the last publish) are not visible.

   The chain: RoundHistory.run_hist (ghost history, now exporting the invariant at each publish) ->
   RoundFold.round_events (what a hop receives from a round) -> HopHistory.HopHist (hop = recomputation from its
   events) -> FlowAttr (per flow). *)
From Coq Require Import QArith Permutation.
From TV Require Import Base.Result Core.Types Core.TracerState Core.Strategy Core.Builder Core.Flows Core.State
  Proofs.ListLemmas Proofs.StrategyInv Proofs.StrategyProps Proofs.RoundHistory Proofs.RunLog Proofs.RunLogProps
  Proofs.HopProofs Proofs.HopHistory Proofs.FlowsProofs Proofs.StateProofs Proofs.FlowAttr Proofs.RoundFold
  Proofs.PublishWf.
From Coq Require Import ZifyBool.
Open Scope Z_scope.

(* ====================================================================== list facts *)
Lemma flat_map_flat_map {A B C} (f : B -> list C) (g : A -> list B) l :
  flat_map f (flat_map g l) = flat_map (fun x => flat_map f (g x)) l.
Proof. induction l as [|x l IH]; cbn [flat_map]; [reflexivity|]. rewrite flat_map_app, IH. reflexivity. Qed.

Lemma flat_map_map {A B C} (f : B -> list C) (g : A -> B) l : flat_map f (map g l) = flat_map (fun x => f (g x)) l.
Proof. induction l as [|x l IH]; cbn [map flat_map]; [reflexivity|]. rewrite IH. reflexivity. Qed.

Lemma flat_map_nth {A B} (H : A -> list B) : forall l,
  flat_map (fun k => match nth_error l k with Some s => H s | None => [] end) (seq 0 (length l)) = flat_map H l.
Proof.
  induction l as [|x l IH]; [reflexivity|]. cbn [length seq flat_map nth_error]. f_equal.
  rewrite <- seq_shift, flat_map_map. exact IH.
Qed.

Definition tick {A} (f : A -> bool) (x : A) : list unit := if f x then [tt] else [].

Lemma length_filter_tick {A} (f : A -> bool) l : length (filter f l) = length (flat_map (tick f) l).
Proof.
  induction l as [|x l IH]; [reflexivity|]. cbn [filter flat_map]. rewrite app_length, <- IH. unfold tick.
  destruct (f x); reflexivity.
Qed.

Lemma filter_flat_map {A B} (f : B -> bool) (g : A -> list B) l : filter f (flat_map g l) = flat_map (fun x => filter f (g x)) l.
Proof. induction l as [|x l IH]; [reflexivity|]. cbn [flat_map]. rewrite filter_app, IH. reflexivity. Qed.

Lemma perm_filter_length {A} (f : A -> bool) l l' : Permutation l l' -> length (filter f l) = length (filter f l').
Proof.
  induction 1 as [|x l l' _ IH|x y l|l l' l'' _ IH1 _ IH2]; cbn [filter].
  - reflexivity.
  - destruct (f x); cbn [length]; congruence.
  - destruct (f x), (f y); reflexivity.
  - congruence.
Qed.

Lemma perm_zsum l l' : Permutation l l' -> zsum l = zsum l'.
Proof.
  induction 1 as [|x l l' _ IH|x y l|l l' l'' _ IH1 _ IH2]; unfold zsum in *; cbn [fold_right]; lia.
Qed.

Lemma perm_flat_map {A B} (f : A -> list B) l l' : Permutation l l' -> Permutation (flat_map f l) (flat_map f l').
Proof.
  induction 1 as [|x l l' _ IH|x y l|l l' l'' _ IH1 _ IH2]; cbn [flat_map].
  - constructor.
  - apply Permutation_app_head. exact IH.
  - rewrite !app_assoc. apply Permutation_app_tail. apply Permutation_app_comm.
  - eapply Permutation_trans; eassumption.
Qed.

(* ====================================================================== what a hop receives from a round, measured *)
(* any additive measure of the events of hop t that looks at each status on its own *)
Lemma round_events_measure {X} (phi : hev -> list X) (G : pstatus -> list X) :
  (forall all pre s, flat_map phi (status_events all pre s) = G s) ->
  forall ps t, flat_map phi (round_events ps t) = flat_map (fun s => if ttl_is t s then G s else []) ps.
Proof.
  intros HG ps t. unfold round_events. rewrite flat_map_flat_map.
  rewrite <- (flat_map_nth (fun s => if ttl_is t s then G s else []) ps).
  apply flat_map_ext. intros k. unfold events_at. destruct (nth_error ps k) as [s|]; [|reflexivity].
  destruct (ttl_is t s); [apply HG|reflexivity].
Qed.

Lemma rounds_events_measure {X} (phi : hev -> list X) (G : pstatus -> list X) :
  (forall all pre s, flat_map phi (status_events all pre s) = G s) ->
  forall rs t, flat_map phi (rounds_events rs t) =
               flat_map (fun r => flat_map (fun s => if ttl_is t s then G s else []) (rr_probes r)) rs.
Proof.
  intros HG rs t. unfold rounds_events. rewrite flat_map_flat_map. apply flat_map_ext. intros r.
  apply round_events_measure. exact HG.
Qed.

Definition g_probe (s : pstatus) : list unit := match s with Complete _ | Awaited _ | Failed _ => [tt] | _ => [] end.
Definition g_failed (s : pstatus) : list unit := match s with Failed _ => [tt] | _ => [] end.
Definition g_complete {X} (Gc : pcomplete -> list X) (s : pstatus) : list X := match s with Complete cc => Gc cc | _ => [] end.

Lemma status_events_probe all pre s : flat_map (tick is_probe) (status_events all pre s) = g_probe s.
Proof.
  destruct s as [| |p|p|cc]; cbn [status_events flat_map tick is_probe app g_probe]; try reflexivity.
  destruct (cks_of (Complete cc)); reflexivity.
Qed.

Lemma status_events_failed all pre s : flat_map (tick is_failed) (status_events all pre s) = g_failed s.
Proof.
  destruct s as [| |p|p|cc]; cbn [status_events flat_map tick is_failed app g_failed]; try reflexivity.
  destruct (cks_of (Complete cc)); reflexivity.
Qed.

Lemma status_events_complete {X} (Gc : pcomplete -> list X) all pre s :
  flat_map (fun e => match e with HC cc => Gc cc | _ => [] end) (status_events all pre s) = g_complete Gc s.
Proof.
  destruct s as [| |p|p|cc]; cbn [status_events flat_map app g_complete]; try reflexivity.
  destruct (cks_of (Complete cc)); cbn [flat_map app]; rewrite ?app_nil_r; reflexivity.
Qed.

(* ====================================================================== the network-level reading of a round *)
Definition abandoned (o : send_outcome) : bool := match o with AddressInUseO => true | _ => false end.
Definition send_failed (o : send_outcome) : bool := match o with ProbeFailedO => true | _ => false end.
(* a probe of ttl t handed to the network and not abandoned / whose send failed transiently *)
Definition kept_at (t : Z) (po : probe * send_outcome) : bool := (p_ttl (fst po) =? t) && negb (abandoned (snd po)).
Definition failed_at (t : Z) (po : probe * send_outcome) : bool := (p_ttl (fst po) =? t) && send_failed (snd po).
(* a genuine response to a probe of ttl t *)
Definition answer_at (t : Z) (a : probe * sresp) : bool := p_ttl (fst a) =? t.
Definition answer_rtt (a : probe * sresp) : Z := Z.max 0 (sr_received (snd a) - p_sent (fst a)).
Definition answer_host (a : probe * sresp) : addr := sr_addr (snd a).

(* a measure of the completed probes of a round, through the send log (round order) and through the answers
   (arrival order) *)
Definition viaS {X} (Q : probe -> sresp -> list X) (A : list (probe * sresp)) (S : list (probe * send_outcome)) : list X :=
  flat_map (fun po => if answerable (snd po)
                      then match find_accept A (p_sequence (fst po)) with Some sr => Q (fst po) sr | None => [] end
                      else []) S.
Definition viaA {X} (Q : probe -> sresp -> list X) (A : list (probe * sresp)) : list X :=
  flat_map (fun a => Q (fst a) (snd a)) A.

Lemma ttl_is_status_of A t po : ttl_is t (status_of A po) = kept_at t po.
Proof.
  destruct po as [p o]. unfold ttl_is, kept_at. rewrite status_of_ttl. cbn [fst snd].
  destruct o; cbn [abandoned negb]; rewrite ?andb_true_r, ?andb_false_r; reflexivity.
Qed.

Lemma round_probe_ticks A S t :
  flat_map (fun s => if ttl_is t s then g_probe s else []) (map (status_of A) S) = flat_map (tick (kept_at t)) S.
Proof.
  rewrite flat_map_map. apply flat_map_ext. intros po. rewrite ttl_is_status_of. unfold tick.
  destruct (kept_at t po) eqn:E; [|reflexivity].
  destruct po as [p o]. unfold kept_at in E. cbn [fst snd] in E. unfold status_of.
  destruct o; cbn [abandoned negb] in E; try lia; try reflexivity;
    destruct (find_accept A (p_sequence p)); reflexivity.
Qed.

Lemma round_failed_ticks A S t :
  flat_map (fun s => if ttl_is t s then g_failed s else []) (map (status_of A) S) = flat_map (tick (failed_at t)) S.
Proof.
  rewrite flat_map_map. apply flat_map_ext. intros po. rewrite ttl_is_status_of. unfold tick.
  destruct po as [p o]. unfold kept_at, failed_at. cbn [fst snd]. unfold status_of.
  destruct (p_ttl p =? t); cbn [andb];
    destruct o; cbn [abandoned send_failed negb g_failed]; try reflexivity;
    destruct (find_accept A (p_sequence p)); reflexivity.
Qed.

Lemma round_complete_viaS {X} (Gc : pcomplete -> list X) A S t :
  flat_map (fun s => if ttl_is t s then g_complete Gc s else []) (map (status_of A) S) =
  viaS (fun p sr => if p_ttl p =? t then Gc (complete p sr) else []) A S.
Proof.
  rewrite flat_map_map. unfold viaS. apply flat_map_ext. intros po. rewrite ttl_is_status_of.
  destruct po as [p o]. unfold kept_at. cbn [fst snd]. unfold status_of.
  destruct (p_ttl p =? t); cbn [andb];
    destruct o; cbn [abandoned answerable negb g_complete]; try reflexivity;
    destruct (find_accept A (p_sequence p)); reflexivity.
Qed.

(* ====================================================================== answers <-> completed slots *)
(* what the ghost history of a round guarantees, without the tracer state *)
Record round_ok (S : list (probe * send_outcome)) (A : list (probe * sresp)) : Prop := {
  ro_seqs : NoDup (map (fun po => p_sequence (fst po)) S);
  ro_acc : forall p sr, In (p, sr) A -> exists o, In (p, o) S /\ answerable o = true;
  ro_nodup : NoDup (map (fun a => p_sequence (fst a)) A);
  ro_ttl : forall p o, In (p, o) S -> 1 <= p_ttl p <= 254;
}.

Lemma find_accept_cons p0 sr0 A q :
  find_accept ((p0, sr0) :: A) q = if p_sequence p0 =? q then Some sr0 else find_accept A q.
Proof. unfold find_accept. cbn [find fst]. destruct (p_sequence p0 =? q); reflexivity. Qed.

Lemma viaS_app {X} (Q : probe -> sresp -> list X) A S1 S2 : viaS Q A (S1 ++ S2) = viaS Q A S1 ++ viaS Q A S2.
Proof. unfold viaS. apply flat_map_app. Qed.

Lemma viaS_other {X} (Q : probe -> sresp -> list X) p0 sr0 A S :
  (forall po, In po S -> p_sequence (fst po) <> p_sequence p0) -> viaS Q ((p0, sr0) :: A) S = viaS Q A S.
Proof.
  intros H. induction S as [|po S IH]; [reflexivity|]. unfold viaS in *. cbn [flat_map]. rewrite IH.
  2:{ intros x Hx. apply H. right. exact Hx. }
  f_equal. rewrite find_accept_cons. pose proof (H po (or_introl eq_refl)) as Hne.
  destruct (p_sequence p0 =? p_sequence (fst po)) eqn:E; [lia|reflexivity].
Qed.

Lemma viaS_none {X} (Q : probe -> sresp -> list X) A S :
  (forall po, In po S -> forall p sr, In (p, sr) A -> p_sequence p <> p_sequence (fst po)) -> viaS Q A S = [].
Proof.
  intros H. induction S as [|po S IH]; [reflexivity|]. unfold viaS in *. cbn [flat_map]. rewrite IH.
  2:{ intros x Hx. apply H. right. exact Hx. }
  rewrite app_nil_r. rewrite find_accept_none; [destruct (answerable (snd po)); reflexivity|].
  intros p sr Hin. apply (H po (or_introl eq_refl) p sr Hin).
Qed.

(* every answer completes exactly one slot and every completed slot has its answer: the two readings of a
   round agree up to order *)
Lemma viaS_viaA {X} (Q : probe -> sresp -> list X) S : NoDup (map (fun po => p_sequence (fst po)) S) ->
  forall A, (forall p sr, In (p, sr) A -> exists o, In (p, o) S /\ answerable o = true) ->
  NoDup (map (fun a => p_sequence (fst a)) A) ->
  Permutation (viaS Q A S) (viaA Q A).
Proof.
  intros HS. induction A as [|[p0 sr0] A IH]; intros Hacc Hnd.
  - cbn [viaA flat_map]. rewrite viaS_none; [constructor|]. intros po _ p sr [].
  - cbn [map fst] in Hnd. inversion Hnd as [|? ? Hnotin Hnd']; subst.
    destruct (Hacc p0 sr0 (or_introl eq_refl)) as (o0 & Hin0 & Hans0).
    apply in_split in Hin0. destruct Hin0 as (S1 & S2 & ES). subst S.
    rewrite map_app in HS. cbn [map fst] in HS.
    pose proof (NoDup_remove_2 _ _ _ HS) as Hfresh.
    assert (H1 : forall po, In po S1 -> p_sequence (fst po) <> p_sequence p0).
    { intros po Hpo E. apply Hfresh. apply in_or_app. left. rewrite <- E. apply (in_map (fun po => p_sequence (fst po))). exact Hpo. }
    assert (H2 : forall po, In po S2 -> p_sequence (fst po) <> p_sequence p0).
    { intros po Hpo E. apply Hfresh. apply in_or_app. right. rewrite <- E. apply (in_map (fun po => p_sequence (fst po))). exact Hpo. }
    assert (Hmid : forall A', viaS Q A' [(p0, o0)] =
                   match find_accept A' (p_sequence p0) with Some sr => Q p0 sr | None => [] end).
    { intros A'. unfold viaS. cbn [flat_map fst snd]. rewrite Hans0, app_nil_r. reflexivity. }
    assert (Hnone : find_accept A (p_sequence p0) = None).
    { apply find_accept_none. intros p sr Hin E. apply Hnotin. rewrite <- E.
      apply (in_map (fun a => p_sequence (fst a)) A (p, sr)). exact Hin. }
    assert (IH' : Permutation (viaS Q A (S1 ++ (p0, o0) :: S2)) (viaA Q A)).
    { apply IH; [|exact Hnd']. intros p sr Hin. apply (Hacc p sr). right. exact Hin. }
    change ((p0, o0) :: S2) with ([(p0, o0)] ++ S2) in *.
    rewrite !viaS_app in *. rewrite (viaS_other Q p0 sr0 A S1 H1), (viaS_other Q p0 sr0 A S2 H2).
    rewrite Hmid in *. rewrite Hnone in IH'. rewrite find_accept_cons, Z.eqb_refl. cbn [app] in IH'.
    cbn [viaA flat_map fst snd]. fold (viaA Q A).
    eapply Permutation_trans; [|apply Permutation_app_head; exact IH'].
    rewrite app_assoc. eapply Permutation_trans; [apply Permutation_app_tail; apply Permutation_app_comm|].
    rewrite <- app_assoc. apply Permutation_refl.
Qed.

Lemma nodup_by_index {A} (f : A -> Z) : forall (l : list A) base,
  (forall i x, nth_error l i = Some x -> f x = base + Z.of_nat i) -> NoDup (map f l).
Proof.
  induction l as [|x l IH]; intros base H; cbn [map]; constructor.
  - intros Hin. apply in_map_iff in Hin. destruct Hin as (y & Hy & Hyin).
    apply In_nth_error in Hyin. destruct Hyin as [j Hj].
    pose proof (H 0%nat x eq_refl) as H0. pose proof (H (Datatypes.S j) y Hj) as H1. lia.
  - apply (IH (base + 1)). intros i y Hi. rewrite (H (Datatypes.S i) y Hi). lia.
Qed.

(* ====================================================================== the ghost history at every publish *)
(* RoundHistory.run_hist with the invariants that hold at the moment of each publish *)
Theorem run_hist_inv c : Accept c -> forall is s S A,
  Inv c s -> HInv c s S A -> settled S -> GInv c s S ->
  Forall (fun x => let '(r, S', A') := x in
            exists s', Inv c s' /\ HInv c s' S' A' /\ settled S' /\ GInv c s' S' /\ publish_trace s' = Ok r)
         (run_hist c s S A is).
Proof.
  intros HA. induction is as [|i rest IH]; intros s S A HI HH Hni HG; cbn [run_hist].
  - destruct (finished s (max_rounds c)); constructor.
  - destruct (finished s (max_rounds c)); [constructor|].
    destruct (send_request_ok c s i HA HI) as (s1 & ev1 & e1 & H1 & HI1 & _). rewrite H1.
    destruct e1 as [e1|]; [constructor|].
    destruct (hinv_send_any c s i s1 ev1 None S A HA HI HH Hni H1) as [HH1 Hni1]. specialize (Hni1 eq_refl).
    pose proof (ginv_send c s i s1 ev1 S A HA HI HH Hni HG H1) as HG1.
    destruct (recv_response_ok c s1 i HA HI1) as (s2 & e2 & H2 & HI2 & _). rewrite H2.
    destruct e2 as [e2|]; [constructor|].
    pose proof (hinv_recv_ghost c s1 i s2 None _ A HA HI1 HH1 Hni1 H2) as HH2.
    pose proof (ginv_recv c s1 i s2 _ A HA HI1 HH1 HG1 H2) as HG2.
    destruct (update_round_ok c s2 i HA HI2) as (s3 & ev3 & H3 & HI3 & Hcase). rewrite H3.
    destruct Hcase as [(Hnp & -> & ->)|(Hpub & r & Hr & -> & Ha & _)].
    + apply IH; assumption.
    + constructor.
      * exists s2. split; [exact HI2|]. split; [exact HH2|]. split; [exact Hni1|]. split; [exact HG2|exact Hr].
      * destruct (advance_round_spec c s2 (i_advance i) HA HI2)
          as (sx & Hax & _ & _ & _ & _ & Hq & Htf & Hmr & _ & Htt & Hb & _).
        rewrite Ha in Hax. inversion Hax; subst sx.
        apply IH; [assumption| |intros j q Hj; destruct j; discriminate|].
        -- constructor; cbn [length nth_error]; try lia; try (intros [|?] ? Hx; discriminate); try (intros ? ? []). constructor.
        -- destruct HG2 as [_ _ _ Gtt2 _]. constructor.
           ++ intros p o [].
           ++ intros Hx; congruence.
           ++ intros Hx. rewrite Hmr in Hx. congruence.
           ++ intros [Hx|Hx]; [|congruence]. apply Gtt2. left. rewrite <- Htt. exact Hx.
           ++ intros _. exact Htf.
Qed.

Lemma hist_round_ok c s S A : Accept c -> Inv c s -> HInv c s S A -> GInv c s S -> round_ok S A.
Proof.
  intros HA HI [Hl Hs Hsl Ha Hn] [Gt _ _ _ _]. pose proof (accept_facts c HA) as F. pose proof (inv_ttl c s HI) as Ht.
  constructor.
  - apply (nodup_by_index (fun po => p_sequence (fst po)) S (round_sequence s)). exact Hs.
  - intros p sr Hin. destruct (Ha p sr Hin) as (i & o & Hi & Ho). exists o. split; [eapply nth_error_In; exact Hi|].
    destruct Ho as [->|(e & ->)]; reflexivity.
  - exact Hn.
  - intros p o Hin. specialize (Gt p o Hin). lia.
Qed.

(* a published round with the network-level history of that round *)
Definition hist := (round_rec * list (probe * send_outcome) * list (probe * sresp))%type.
Definition h_round (x : hist) : round_rec := fst (fst x).
Definition h_sends (x : hist) : list (probe * send_outcome) := snd (fst x).
Definition h_answers (x : hist) : list (probe * sresp) := snd x.

Definition hist_ok (x : hist) : Prop :=
  rr_probes (h_round x) = map (status_of (h_answers x)) (h_sends x) /\ round_ok (h_sends x) (h_answers x).

Theorem run_hist_ok c t0 is : Accept c -> Forall hist_ok (run_hist c (ts_new c t0) [] [] is).
Proof.
  intros HA.
  pose proof (run_hist_inv c HA is (ts_new c t0) [] [] (inv_new c t0 HA) (hinv_new c t0)
                ltac:(intros j q Hj; destruct j; discriminate) (ginv_new c t0)) as W.
  eapply Forall_impl; [|exact W]. intros [[r S] A] (s & HI & HH & Hset & HG & Hr).
  unfold hist_ok, h_round, h_sends, h_answers. cbn [fst snd]. split.
  - destruct (publish_trace_ok c s HA HI) as (r' & Hr' & Hprobes & _). rewrite Hr in Hr'. inversion Hr'; subst r'.
    rewrite Hprobes. apply (published_probes_match c s S A HI HH Hset).
  - exact (hist_round_ok c s S A HA HI HH HG).
Qed.

(* everything handed to the network / every genuine answer in the published rounds, in order *)
Definition pub_sends (hs : list hist) : list (probe * send_outcome) := flat_map h_sends hs.
Definition pub_answers (hs : list hist) : list (probe * sresp) := flat_map h_answers hs.

Lemma flat_map_ext_forall {A B} (P : A -> Prop) (f g : A -> list B) l :
  Forall P l -> (forall x, P x -> f x = g x) -> flat_map f l = flat_map g l.
Proof. intros HF H. induction HF as [|x l Hx _ IH]; [reflexivity|]. cbn [flat_map]. rewrite IH, (H x Hx). reflexivity. Qed.

Lemma flat_map_perm_forall {A B} (P : A -> Prop) (f g : A -> list B) l :
  Forall P l -> (forall x, P x -> Permutation (f x) (g x)) -> Permutation (flat_map f l) (flat_map g l).
Proof.
  intros HF H. induction HF as [|x l Hx _ IH]; [constructor|]. cbn [flat_map]. apply Permutation_app; [apply H; exact Hx|exact IH].
Qed.

Lemma flat_map_if_filter {A B} (f : A -> bool) (g : A -> list B) l :
  flat_map (fun a => if f a then g a else []) l = flat_map g (filter f l).
Proof. induction l as [|x l IH]; [reflexivity|]. cbn [flat_map filter]. rewrite IH. destruct (f x); reflexivity. Qed.

Lemma flat_map_single {A B} (g : A -> B) l : flat_map (fun a => [g a]) l = map g l.
Proof. induction l as [|x l IH]; [reflexivity|]. cbn [flat_map map app]. rewrite IH. reflexivity. Qed.

Lemma hists_probe_ticks hs t : Forall hist_ok hs ->
  flat_map (tick is_probe) (rounds_events (map h_round hs) t) = flat_map (tick (kept_at t)) (pub_sends hs).
Proof.
  intros HF. rewrite (rounds_events_measure _ _ status_events_probe), flat_map_map.
  unfold pub_sends. rewrite flat_map_flat_map. apply (flat_map_ext_forall hist_ok); [exact HF|].
  intros x [Hp _]. rewrite Hp. apply round_probe_ticks.
Qed.

Lemma hists_failed_ticks hs t : Forall hist_ok hs ->
  flat_map (tick is_failed) (rounds_events (map h_round hs) t) = flat_map (tick (failed_at t)) (pub_sends hs).
Proof.
  intros HF. rewrite (rounds_events_measure _ _ status_events_failed), flat_map_map.
  unfold pub_sends. rewrite flat_map_flat_map. apply (flat_map_ext_forall hist_ok); [exact HF|].
  intros x [Hp _]. rewrite Hp. apply round_failed_ticks.
Qed.

Lemma hists_complete_perm {X} (Gc : pcomplete -> list X) hs t : Forall hist_ok hs ->
  Permutation (flat_map (fun e => match e with HC cc => Gc cc | _ => [] end) (rounds_events (map h_round hs) t))
              (flat_map (fun a => Gc (complete (fst a) (snd a))) (filter (answer_at t) (pub_answers hs))).
Proof.
  intros HF. rewrite (rounds_events_measure _ _ (status_events_complete Gc)), flat_map_map.
  rewrite <- (flat_map_if_filter (answer_at t)). unfold pub_answers. rewrite flat_map_flat_map.
  apply (flat_map_perm_forall hist_ok); [exact HF|].
  intros x [Hp [Hs Hacc Hnd _]]. rewrite Hp, round_complete_viaS.
  exact (viaS_viaA (fun p sr => if p_ttl p =? t then Gc (complete p sr) else []) (h_sends x) Hs (h_answers x) Hacc Hnd).
Qed.

Lemma total_time_run ms es : forall h, h_total_time (hop_run_from ms h es) = h_total_time h + zsum (ev_rtts es).
Proof.
  unfold hop_run_from. induction es as [|e es IH]; intros h; cbn [fold_left]; [cbn; lia|].
  rewrite IH. destruct e as [cc|p f fw bw|n]; cbn [hop_step hop_complete hop_unanswered hop_set_nat h_total_time ev_rtts flat_map app];
    fold (ev_rtts es); unfold zsum; cbn [fold_right app]; unfold rtt_of; lia.
Qed.

(* the ground truth of one hop: everything is a count / sum over the sends and genuine answers of ttl t *)
Record hop_truth (h : hop) (t : Z) (sends : list (probe * send_outcome)) (answers : list (probe * sresp)) : Prop := {
  ht_sent : h_sent h = Z.of_nat (length (filter (kept_at t) sends));
  ht_failed : h_failed h = Z.of_nat (length (filter (failed_at t) sends));
  ht_recv : h_recv h = Z.of_nat (length (filter (answer_at t) answers));
  ht_time : h_total_time h = zsum (map answer_rtt (filter (answer_at t) answers));
  ht_addrs : forall a, acount (h_addrs h) a =
                       Z.of_nat (length (filter (addr_eqb a) (map answer_host (filter (answer_at t) answers))));
  ht_keys : NoDup (map fst (h_addrs h));
}.

Theorem hop_run_truth ms hs t : Forall hist_ok hs ->
  hop_truth (hop_run ms (rounds_events (map h_round hs) t)) t (pub_sends hs) (pub_answers hs).
Proof.
  intros HF. set (es := rounds_events (map h_round hs) t).
  pose proof (hop_run_is_recomputation ms es) as HH.
  assert (Prtt : Permutation (ev_rtts es) (map answer_rtt (filter (answer_at t) (pub_answers hs)))).
  { unfold ev_rtts. rewrite <- flat_map_single. exact (hists_complete_perm (fun cc => [rtt_of cc]) hs t HF). }
  assert (Phost : Permutation (ev_hosts es) (map answer_host (filter (answer_at t) (pub_answers hs)))).
  { unfold ev_hosts. rewrite <- flat_map_single. exact (hists_complete_perm (fun cc => [c_host cc]) hs t HF). }
  constructor.
  - rewrite (hh_sent ms _ es HH). unfold count. f_equal.
    rewrite !length_filter_tick. unfold es. rewrite (hists_probe_ticks hs t HF). reflexivity.
  - rewrite (hh_failed ms _ es HH). unfold count. f_equal.
    rewrite !length_filter_tick. unfold es. rewrite (hists_failed_ticks hs t HF). reflexivity.
  - rewrite (hh_recv ms _ es HH). f_equal. rewrite (Permutation_length Prtt), map_length. reflexivity.
  - unfold hop_run. rewrite total_time_run. cbn [hop_default h_total_time]. rewrite (perm_zsum _ _ Prtt). lia.
  - intros a. rewrite (hh_addrs ms _ es HH a). f_equal. apply perm_filter_length. exact Phost.
  - exact (hh_nodup ms _ es HH).
Qed.

(* ====================================================================== State: never a fault on published rounds *)
Definition AllW (s : state) : Prop := forall id f, flows_get (st_flows s) id = Some f -> WInv f.

Lemma allw_new ms mf : AllW (state_new ms mf).
Proof.
  intros id f H. unfold state_new in H. cbn [st_flows flows_get] in H.
  destruct (0 =? id); [|discriminate]. inversion H; subst f. apply WInv_new.
Qed.

Lemma update_trace_flow_total s id r : AllW s -> wf_round r ->
  exists s', update_trace_flow s id r = Ok s' /\ AllW s'.
Proof.
  intros HW Hwf. unfold update_trace_flow.
  set (f := match flows_get (st_flows s) id with Some f => f | None => flow_state_new (st_max_samples s) end).
  assert (HWf : WInv f).
  { unfold f. destruct (flows_get (st_flows s) id) as [f0|] eqn:E; [exact (HW id f0 E)|apply WInv_new]. }
  destruct (fs_apply_window f r HWf Hwf) as (f' & Hf' & HW' & _). rewrite Hf'. cbn [bind].
  eexists. split; [reflexivity|]. intros j fj. cbn [st_flows].
  destruct (Z.eq_dec j id) as [->|Hne].
  - rewrite flows_get_set_eq. intros E. inversion E; subst fj. exact HW'.
  - rewrite flows_get_set_neq by exact Hne. apply HW.
Qed.

Lemma update_from_round_total s r : AllW s -> wf_round r -> exists s', update_from_round s r = Ok s' /\ AllW s'.
Proof.
  intros HW Hwf. unfold update_from_round.
  destruct (update_trace_flow_total s 0 r HW Hwf) as (s1 & H1 & HW1). rewrite H1. cbn [bind].
  destruct (Z.of_nat (length (reg_flows (st_registry s1))) <? st_max_flows s1).
  - destruct (register (st_registry s1) (round_flow r)) as [reg id].
    apply update_trace_flow_total; [|exact Hwf]. intros j fj. unfold with_registry. cbn [st_flows]. apply HW1.
  - destruct (register_existing (st_registry s1) (round_flow r)) as [reg [id|]].
    + apply update_trace_flow_total; [|exact Hwf]. intros j fj. unfold with_registry. cbn [st_flows]. apply HW1.
    + exists s1. split; [reflexivity|exact HW1].
Qed.

Lemma st_run_total : forall rs s, AllW s -> Forall wf_round rs -> exists s', st_run s rs = Ok s' /\ AllW s'.
Proof.
  induction rs as [|r rs IH]; intros s HW Hwf; cbn [st_run].
  - exists s. split; [reflexivity|exact HW].
  - destruct (update_from_round_total s r HW (Forall_inv Hwf)) as (s1 & H1 & HW1). rewrite H1. cbn [bind].
    apply IH; [exact HW1|exact (Forall_inv_tail Hwf)].
Qed.

(* ====================================================================== the hops of a flow, in closed form *)
Lemma nth_error_seq0 n i : (i < n)%nat -> nth_error (seq 0 n) i = Some i.
Proof. intros H. rewrite (nth_error_nth' _ 0%nat) by (rewrite seq_length; exact H). rewrite seq_nth by exact H. reflexivity. Qed.

Lemma fresh_hops ms rs f' : fs_run (flow_state_new ms) rs = Ok f' ->
  fs_hops f' = map (fun i => hop_run ms (rounds_events rs (Z.of_nat i + 1))) (seq 0 MAX_TTL_N).
Proof.
  intros H. destruct (fs_run_events rs _ f' H) as [_ N]. apply nth_error_ext. intros i. rewrite N, nth_error_map.
  cbn [flow_state_new fs_hops fs_max_samples].
  destruct (Nat.lt_ge_cases i MAX_TTL_N) as [Hlt|Hge].
  - rewrite nth_error_repeat by exact Hlt. rewrite nth_error_seq0 by exact Hlt. reflexivity.
  - assert (E1 : nth_error (repeat hop_default MAX_TTL_N) i = None) by (apply nth_error_None; rewrite repeat_length; exact Hge).
    assert (E2 : nth_error (seq 0 MAX_TTL_N) i = None) by (apply nth_error_None; rewrite seq_length; exact Hge).
    rewrite E1, E2. reflexivity.
Qed.

(* the published rounds (with their histories) that go into flow id *)
Fixpoint flow_hists (id : Z) (s : state) (hs : list hist) : list hist :=
  match hs with
  | [] => []
  | x :: t =>
    (if selects id s (h_round x) then [x] else []) ++
    match update_from_round s (h_round x) with Ok s' => flow_hists id s' t | _ => [] end
  end.

Lemma flow_hists_rounds id : forall hs s, map h_round (flow_hists id s hs) = flow_rounds id s (map h_round hs).
Proof.
  induction hs as [|x t IH]; intros s; cbn [flow_hists flow_rounds map]; [reflexivity|].
  rewrite map_app. f_equal.
  - destruct (selects id s (h_round x)); reflexivity.
  - destruct (update_from_round s (h_round x)); [apply IH|reflexivity|reflexivity].
Qed.

Lemma flow_hists_forall (P : hist -> Prop) id : forall hs s, Forall P hs -> Forall P (flow_hists id s hs).
Proof.
  induction hs as [|x t IH]; intros s HF; cbn [flow_hists]; [constructor|].
  apply Forall_app. split.
  - destruct (selects id s (h_round x)); [constructor; [exact (Forall_inv HF)|constructor]|constructor].
  - destruct (update_from_round s (h_round x)); [apply IH; exact (Forall_inv_tail HF)|constructor|constructor].
Qed.

Lemma flow_hists_default : forall hs s s', st_run s (map h_round hs) = Ok s' -> flow_hists 0 s hs = hs.
Proof.
  induction hs as [|x t IH]; intros s s' H; cbn [st_run flow_hists map] in *; [reflexivity|].
  destruct (update_from_round s (h_round x)) as [s1|?|?] eqn:Eu; cbn [bind] in H; try discriminate.
  unfold selects. cbn [Z.eqb orb app]. f_equal. exact (IH s1 s' H).
Qed.

(* every hop of every flow of the state built from the published rounds tells the ground truth of its ttl *)
Theorem snapshot_flow_truth ms mf hs s' id : Forall hist_ok hs ->
  st_run (state_new ms mf) (map h_round hs) = Ok s' ->
  let fh := flow_hists id (state_new ms mf) hs in
  fs_hops (flow_or_new s' id) =
    map (fun i => hop_run ms (rounds_events (map h_round fh) (Z.of_nat i + 1))) (seq 0 MAX_TTL_N) /\
  forall i h, nth_error (fs_hops (flow_or_new s' id)) i = Some h ->
    hop_truth h (Z.of_nat i + 1) (pub_sends fh) (pub_answers fh).
Proof.
  intros HF H fh.
  assert (Hcap : Z.of_nat (length (reg_flows (st_registry (state_new ms mf)))) <= Z.max 0 (st_max_flows (state_new ms mf)))
    by (cbn; lia).
  pose proof (flows_are_their_rounds _ (state_new ms mf) s' id dense_new Hcap H) as R.
  rewrite flow_or_new_state_new in R. rewrite <- (flow_hists_rounds id hs) in R. fold fh in R.
  pose proof (fresh_hops ms _ _ R) as E. split; [exact E|].
  intros i h Hi. rewrite E, nth_error_map in Hi.
  destruct (nth_error (seq 0 MAX_TTL_N) i) as [j|] eqn:Ej; [|discriminate].
  assert (j = i).
  { assert (Hlt : (i < MAX_TTL_N)%nat) by (rewrite <- (seq_length MAX_TTL_N 0); apply nth_error_Some; congruence).
    rewrite nth_error_seq0 in Ej by exact Hlt. congruence. }
  subst j. cbn [option_map] in Hi. inversion Hi; subst h.
  apply hop_run_truth. apply flow_hists_forall. exact HF.
Qed.

(* ====================================================================== summed over the hops *)
Lemma zsum_map_add {A} (f g : A -> Z) l : zsum (map (fun x => f x + g x) l) = zsum (map f l) + zsum (map g l).
Proof. unfold zsum. induction l as [|x l IH]; cbn [map fold_right]; lia. Qed.

Lemma zsum_map_zero {A} (l : list A) : zsum (map (fun _ => 0) l) = 0.
Proof. unfold zsum. induction l as [|x l IH]; cbn [map fold_right]; lia. Qed.

Lemma one_hit x : forall n a,
  zsum (map (fun i => if x =? Z.of_nat i + 1 then 1 else 0) (seq a n)) =
  if (Z.of_nat a + 1 <=? x) && (x <=? Z.of_nat a + Z.of_nat n) then 1 else 0.
Proof.
  unfold zsum. induction n as [|n IH]; intros a; cbn [seq map fold_right].
  - destruct ((Z.of_nat a + 1 <=? x) && (x <=? Z.of_nat a + Z.of_nat 0)) eqn:E; [lia|reflexivity].
  - rewrite IH. destruct (x =? Z.of_nat a + 1) eqn:E1;
      destruct ((Z.of_nat (Datatypes.S a) + 1 <=? x) && (x <=? Z.of_nat (Datatypes.S a) + Z.of_nat n)) eqn:E2;
      destruct ((Z.of_nat a + 1 <=? x) && (x <=? Z.of_nat a + Z.of_nat (Datatypes.S n))) eqn:E3; lia.
Qed.

(* items keyed by a ttl within 1..n: counting per ttl and adding up counts every item once *)
Lemma sum_over_ttls {A} (k : A -> Z) (q : A -> bool) n : forall l, Forall (fun x => 1 <= k x <= Z.of_nat n) l ->
  zsum (map (fun i => Z.of_nat (length (filter (fun x => (k x =? Z.of_nat i + 1) && q x) l))) (seq 0 n)) =
  Z.of_nat (length (filter q l)).
Proof.
  induction l as [|x l IH]; intros HF; cbn [filter length].
  - apply zsum_map_zero.
  - specialize (IH (Forall_inv_tail HF)). pose proof (Forall_inv HF) as Hx. cbn beta in Hx.
    rewrite (map_ext _ (fun i => (if (k x =? Z.of_nat i + 1) && q x then 1 else 0) +
                                  Z.of_nat (length (filter (fun y => (k y =? Z.of_nat i + 1) && q y) l)))).
    2:{ intros i. destruct ((k x =? Z.of_nat i + 1) && q x); cbn [length]; lia. }
    rewrite zsum_map_add, IH. destruct (q x).
    + rewrite (map_ext _ (fun i => if k x =? Z.of_nat i + 1 then 1 else 0)) by (intros i; rewrite andb_true_r; reflexivity).
      rewrite one_hit. cbn [length]. destruct ((Z.of_nat 0 + 1 <=? k x) && (k x <=? Z.of_nat 0 + Z.of_nat n)) eqn:E; lia.
    + rewrite (map_ext _ (fun _ => 0)) by (intros i; rewrite andb_false_r; reflexivity).
      rewrite zsum_map_zero. lia.
Qed.

Definition not_abandoned (po : probe * send_outcome) : bool := negb (abandoned (snd po)).
Definition failed_send (po : probe * send_outcome) : bool := send_failed (snd po).

Lemma pub_sends_ttl hs : Forall hist_ok hs -> Forall (fun po => 1 <= p_ttl (fst po) <= Z.of_nat MAX_TTL_N) (pub_sends hs).
Proof.
  intros HF. apply Forall_forall. intros [p o] Hin. unfold pub_sends in Hin. apply in_flat_map in Hin.
  destruct Hin as (x & Hx & Hin). rewrite Forall_forall in HF. destruct (HF x Hx) as [_ [_ _ _ Ht]].
  cbn [fst]. unfold MAX_TTL_N. specialize (Ht p o Hin). lia.
Qed.

Lemma pub_answers_ttl hs : Forall hist_ok hs -> Forall (fun a => 1 <= p_ttl (fst a) <= Z.of_nat MAX_TTL_N) (pub_answers hs).
Proof.
  intros HF. apply Forall_forall. intros [p sr] Hin. unfold pub_answers in Hin. apply in_flat_map in Hin.
  destruct Hin as (x & Hx & Hin). rewrite Forall_forall in HF. destruct (HF x Hx) as [_ [_ Hacc _ Ht]].
  destruct (Hacc p sr Hin) as (o & Ho & _). cbn [fst]. unfold MAX_TTL_N. specialize (Ht p o Ho). lia.
Qed.

(* nothing invented, dropped or counted twice: the hop totals add up to the totals of the history *)
Theorem snapshot_sums ms mf hs s' id : Forall hist_ok hs ->
  st_run (state_new ms mf) (map h_round hs) = Ok s' ->
  let fh := flow_hists id (state_new ms mf) hs in
  let hops := fs_hops (flow_or_new s' id) in
  zsum (map h_sent hops) = Z.of_nat (length (filter not_abandoned (pub_sends fh))) /\
  zsum (map h_failed hops) = Z.of_nat (length (filter failed_send (pub_sends fh))) /\
  zsum (map h_recv hops) = Z.of_nat (length (pub_answers fh)).
Proof.
  intros HF H fh hops. destruct (snapshot_flow_truth ms mf hs s' id HF H) as [E _]. fold fh in E.
  assert (HFf : Forall hist_ok fh) by (apply flow_hists_forall; exact HF).
  unfold hops. rewrite E, !map_map.
  assert (T : forall i, hop_truth (hop_run ms (rounds_events (map h_round fh) (Z.of_nat i + 1))) (Z.of_nat i + 1)
                                  (pub_sends fh) (pub_answers fh)) by (intros i; apply hop_run_truth; exact HFf).
  repeat split.
  - rewrite (map_ext _ (fun i => Z.of_nat (length (filter (kept_at (Z.of_nat i + 1)) (pub_sends fh)))))
      by (intros i; apply (ht_sent _ _ _ _ (T i))).
    exact (sum_over_ttls (fun po => p_ttl (fst po)) not_abandoned MAX_TTL_N _ (pub_sends_ttl fh HFf)).
  - rewrite (map_ext _ (fun i => Z.of_nat (length (filter (failed_at (Z.of_nat i + 1)) (pub_sends fh)))))
      by (intros i; apply (ht_failed _ _ _ _ (T i))).
    exact (sum_over_ttls (fun po => p_ttl (fst po)) failed_send MAX_TTL_N _ (pub_sends_ttl fh HFf)).
  - rewrite (map_ext _ (fun i => Z.of_nat (length (filter (fun a => (p_ttl (fst a) =? Z.of_nat i + 1) && true) (pub_answers fh))))).
    2:{ intros i. rewrite (ht_recv _ _ _ _ (T i)). f_equal. f_equal. apply filter_ext. intros a. unfold answer_at. rewrite andb_true_r. reflexivity. }
    rewrite (sum_over_ttls (fun a => p_ttl (fst a)) (fun _ => true) MAX_TTL_N _ (pub_answers_ttl fh HFf)).
    f_equal. f_equal. clear. induction (pub_answers fh) as [|a l IH]; cbn [filter]; [reflexivity|]. rewrite IH. reflexivity.
Qed.

(* ====================================================================== on the observation log of the run *)
(* the log up to and including the last publish / the round still in progress *)
Definition is_publish (o : obs) : bool := match o with OPublish _ _ _ => true | _ => false end.
Fixpoint closed_part (l : list obs) : list obs :=
  match l with
  | [] => []
  | o :: t => match closed_part t with
              | [] => if is_publish o then [o] else []
              | cp => o :: cp
              end
  end.
Definition open_part (l : list obs) : list obs := skipn (length (closed_part l)) l.

Definition log_sends (l : list obs) : list (probe * send_outcome) :=
  flat_map (fun o => match o with OSend p x => [(p, x)] | _ => [] end) l.
(* the genuine answers of a log: decided by [genuine] against the ghost of the log before each delivery *)
Fixpoint log_answers (c : scfg) (g : ghost) (l : list obs) : list (probe * sresp) :=
  match l with
  | [] => []
  | o :: t =>
    match o with
    | ORecv r => match genuine c (g_S g) (g_A g) r with Some a => [a] | None => [] end
    | _ => []
    end ++ log_answers c (gstep c g o) t
  end.

Lemma closed_open l : l = closed_part l ++ open_part l.
Proof.
  unfold open_part. induction l as [|o t IH]; [reflexivity|]. cbn [closed_part].
  destruct (closed_part t) as [|c0 cp] eqn:E.
  - destruct (is_publish o); cbn [length skipn app]; reflexivity.
  - cbn [length skipn app] in *. f_equal. exact IH.
Qed.

Lemma closed_nil_no_publish l : closed_part l = [] -> no_publish l.
Proof.
  induction l as [|o t IH]; intros E r now adv Hin; [destruct Hin|]. cbn [closed_part] in E.
  destruct (closed_part t) as [|c0 cp] eqn:Et; [|discriminate].
  destruct Hin as [->|Hin]; [cbn in E; discriminate|]. exact (IH eq_refl r now adv Hin).
Qed.

(* no round is published in the open part: its probes are the probes of the round in progress *)
Lemma open_no_publish l : no_publish (open_part l).
Proof.
  unfold open_part. induction l as [|o t IH]; [intros r now adv []|]. cbn [closed_part].
  destruct (closed_part t) as [|c0 cp] eqn:E.
  - cbn [length skipn] in IH. destruct (is_publish o) eqn:Ep; cbn [length skipn]; [exact IH|].
    intros r now adv [->|Hin]; [discriminate|]. exact (IH r now adv Hin).
  - cbn [length skipn] in *. exact IH.
Qed.

Lemma gstep_recv_S c g r : g_S (gstep c g (ORecv r)) = g_S g.
Proof. cbn [gstep]. destruct (genuine c (g_S g) (g_A g) r) as [[p sr]|]; reflexivity. Qed.

Lemma pub_sends_app a b : pub_sends (a ++ b) = pub_sends a ++ pub_sends b.
Proof. apply flat_map_app. Qed.
Lemma pub_answers_app a b : pub_answers (a ++ b) = pub_answers a ++ pub_answers b.
Proof. apply flat_map_app. Qed.

(* the sends of the published rounds are the sends of the closed part of the log *)
Lemma pub_sends_log c : forall l g,
  pub_sends (publishes c g l) = match closed_part l with [] => [] | _ => g_S g end ++ log_sends (closed_part l).
Proof.
  induction l as [|o t IH]; intros g; [reflexivity|]. cbn [publishes closed_part]. rewrite pub_sends_app, IH.
  destruct o as [p x|r|now|r now adv]; cbn [is_publish].
  - cbn [gstep g_S pub_sends flat_map app]. destruct (closed_part t) as [|c0 cp]; [reflexivity|].
    cbn [log_sends flat_map]. fold (log_sends (c0 :: cp)). rewrite <- !app_assoc. reflexivity.
  - rewrite gstep_recv_S. cbn [pub_sends flat_map app]. destruct (closed_part t) as [|c0 cp]; reflexivity.
  - cbn [gstep pub_sends flat_map app]. destruct (closed_part t) as [|c0 cp]; reflexivity.
  - cbn [gstep g_S pub_sends flat_map app h_sends fst snd]. rewrite app_nil_r.
    destruct (closed_part t) as [|c0 cp]; reflexivity.
Qed.

Lemma pub_answers_log c : forall l g,
  pub_answers (publishes c g l) = match closed_part l with [] => [] | _ => g_A g end ++ log_answers c g (closed_part l).
Proof.
  induction l as [|o t IH]; intros g; [reflexivity|]. cbn [publishes closed_part]. rewrite pub_answers_app, IH.
  destruct o as [p x|r|now|r now adv]; cbn [is_publish].
  - cbn [gstep g_A pub_answers flat_map app]. destruct (closed_part t) as [|c0 cp]; reflexivity.
  - cbn [pub_answers flat_map app]. destruct (closed_part t) as [|c0 cp]; [reflexivity|].
    cbn [log_answers gstep]. destruct (genuine c (g_S g) (g_A g) r) as [[p sr]|]; cbn [g_A app]; [|reflexivity].
    rewrite <- app_assoc. reflexivity.
  - cbn [gstep pub_answers flat_map app]. destruct (closed_part t) as [|c0 cp]; reflexivity.
  - cbn [gstep g_A pub_answers flat_map app h_answers snd]. rewrite app_nil_r.
    destruct (closed_part t) as [|c0 cp]; reflexivity.
Qed.

Lemma publishes_rounds c : forall l g, map h_round (publishes c g l) = pubs (events_of l).
Proof.
  induction l as [|o t IH]; intros g; [reflexivity|]. cbn [publishes events_of flat_map]. fold (events_of t).
  rewrite map_app, pubs_app, IH. destruct o; reflexivity.
Qed.

(* the published rounds of a log are those of its closed part: the open part contributes nothing *)
Lemma closed_part_rounds l : pubs (events_of l) = pubs (events_of (closed_part l)).
Proof.
  rewrite (closed_open l) at 1. rewrite events_of_app, pubs_app.
  assert (E : pubs (events_of (open_part l)) = []).
  { pose proof (open_no_publish l) as Hn. induction (open_part l) as [|o t IH]; [reflexivity|].
    cbn [events_of flat_map]. fold (events_of t). rewrite pubs_app, IH.
    2:{ intros r now adv Hin. apply (Hn r now adv). right. exact Hin. }
    destruct o as [p x|r|now|r now adv]; try reflexivity. exfalso. apply (Hn r now adv). left. reflexivity. }
  rewrite E, app_nil_r. reflexivity.
Qed.

(* ====================================================================== every run *)
Definition run_hists (c : scfg) (t0 : Z) (is : list iter_in) : list hist := run_hist c (ts_new c t0) [] [] is.

Lemma run_hists_rounds c t0 is : Accept c -> map h_round (run_hists c t0 is) = pubs (fst (fst (run c t0 is))).
Proof. intros HA. exact (run_hist_rounds c HA is (ts_new c t0) [] [] (inv_new c t0 HA)). Qed.

Lemma run_hists_log c t0 is : Accept c ->
  pub_sends (run_hists c t0 is) = log_sends (closed_part (run_log c t0 is)) /\
  pub_answers (run_hists c t0 is) = log_answers c (g_init t0) (closed_part (run_log c t0 is)).
Proof.
  intros HA. unfold run_hists. rewrite (run_hist_is_log_lemma c t0 is HA), pub_sends_log, pub_answers_log.
  cbn [g_init g_S g_A]. split; destruct (closed_part (run_log c t0 is)); reflexivity.
Qed.

(* the State built from the published rounds of any run exists (no fault), and each hop of the default flow
   tells the ground truth of the closed part of the log *)
Theorem run_snapshot_truth c t0 is ms mf : Accept c ->
  let L := run_log c t0 is in
  exists s', st_run (state_new ms mf) (pubs (fst (fst (run c t0 is)))) = Ok s' /\
    forall i h, nth_error (fs_hops (flow_or_new s' 0)) i = Some h ->
      hop_truth h (Z.of_nat i + 1) (log_sends (closed_part L)) (log_answers c (g_init t0) (closed_part L)).
Proof.
  intros HA L.
  destruct (st_run_total _ (state_new ms mf) (allw_new ms mf) (strategy_rounds_wf c t0 is HA)) as (s' & H & _).
  exists s'. split; [exact H|]. intros i h Hi.
  rewrite <- (run_hists_rounds c t0 is HA) in H.
  destruct (snapshot_flow_truth ms mf (run_hists c t0 is) s' 0 (run_hist_ok c t0 is HA) H) as [_ T].
  rewrite (flow_hists_default _ _ _ H) in T. destruct (run_hists_log c t0 is HA) as [E1 E2].
  unfold L. rewrite <- E1, <- E2. exact (T i h Hi).
Qed.

Theorem run_snapshot_sums c t0 is ms mf s' : Accept c ->
  st_run (state_new ms mf) (pubs (fst (fst (run c t0 is)))) = Ok s' ->
  let L := run_log c t0 is in
  let hops := fs_hops (flow_or_new s' 0) in
  zsum (map h_sent hops) = Z.of_nat (length (filter not_abandoned (log_sends (closed_part L)))) /\
  zsum (map h_failed hops) = Z.of_nat (length (filter failed_send (log_sends (closed_part L)))) /\
  zsum (map h_recv hops) = Z.of_nat (length (log_answers c (g_init t0) (closed_part L))).
Proof.
  intros HA H L hops. rewrite <- (run_hists_rounds c t0 is HA) in H.
  pose proof (snapshot_sums ms mf (run_hists c t0 is) s' 0 (run_hist_ok c t0 is HA) H) as T. cbv zeta in T.
  rewrite (flow_hists_default _ _ _ H) in T. destruct (run_hists_log c t0 is HA) as [E1 E2].
  unfold L, hops. rewrite <- E1, <- E2. exact T.
Qed.

(* per flow: the registered flow id aggregates exactly the published rounds attributed to it *)
Theorem run_snapshot_flow_truth c t0 is ms mf s' id : Accept c ->
  st_run (state_new ms mf) (pubs (fst (fst (run c t0 is)))) = Ok s' ->
  let fh := flow_hists id (state_new ms mf) (run_hists c t0 is) in
  forall i h, nth_error (fs_hops (flow_or_new s' id)) i = Some h ->
    hop_truth h (Z.of_nat i + 1) (pub_sends fh) (pub_answers fh).
Proof.
  intros HA H fh. rewrite <- (run_hists_rounds c t0 is HA) in H.
  exact (proj2 (snapshot_flow_truth ms mf (run_hists c t0 is) s' id (run_hist_ok c t0 is HA) H)).
Qed.

(* a probe of the round still in progress is never visible: the log splits into the closed part, which alone
   determines the published rounds (hence every snapshot), and the open part, in which nothing is published *)
Theorem open_round_invisible c t0 is : Accept c ->
  let L := run_log c t0 is in
  L = closed_part L ++ open_part L /\ no_publish (open_part L) /\
  pubs (fst (fst (run c t0 is))) = pubs (events_of (closed_part L)).
Proof.
  intros HA L. split; [apply closed_open|]. split; [apply open_no_publish|].
  unfold L. rewrite <- (run_log_events c t0 is HA). apply closed_part_rounds.
Qed.

(* ====================================================================== one published round, status by status *)
Lemma find_accept_some A q sr : find_accept A q = Some sr -> exists p, In (p, sr) A /\ p_sequence p = q.
Proof.
  unfold find_accept. destruct (find (fun a => p_sequence (fst a) =? q) A) as [[p s0]|] eqn:E; [|discriminate].
  intros H. inversion H; subst s0. apply find_some in E. destruct E as [Hin Hq]. cbn [fst] in Hq.
  exists p. split; [exact Hin|lia].
Qed.

Lemma same_seq_same_entry (S : list (probe * send_outcome)) : NoDup (map (fun po => p_sequence (fst po)) S) ->
  forall x y, In x S -> In y S -> p_sequence (fst x) = p_sequence (fst y) -> x = y.
Proof.
  induction S as [|z S IH]; intros Hnd x y Hx Hy E; [destruct Hx|].
  cbn [map] in Hnd. inversion Hnd as [|? ? Hnot Hnd']; subst.
  destruct Hx as [->|Hx], Hy as [->|Hy].
  - reflexivity.
  - exfalso. apply Hnot. rewrite E. apply (in_map (fun po => p_sequence (fst po)) S y). exact Hy.
  - exfalso. apply Hnot. rewrite <- E. apply (in_map (fun po => p_sequence (fst po)) S x). exact Hx.
  - exact (IH Hnd' x y Hx Hy E).
Qed.

(* a probe is reported complete exactly when a genuine response to it was delivered, failed exactly when its send
   failed, awaited exactly when it went out and no genuine response came; one slot per probe handed to the network *)
Theorem status_exactly x : hist_ok x ->
  (forall cc, In (Complete cc) (rr_probes (h_round x)) <-> exists p sr, In (p, sr) (h_answers x) /\ cc = complete p sr) /\
  (forall p, In (Failed p) (rr_probes (h_round x)) <-> In (p, ProbeFailedO) (h_sends x)) /\
  (forall p, In (Awaited p) (rr_probes (h_round x)) <->
             exists o, In (p, o) (h_sends x) /\ answerable o = true /\ forall sr, ~ In (p, sr) (h_answers x)) /\
  length (rr_probes (h_round x)) = length (h_sends x) /\
  ~ In NotSent (rr_probes (h_round x)).
Proof.
  intros [Hp [Hs Hacc Hnd Ht]]. rewrite Hp. set (S := h_sends x) in *. set (A := h_answers x) in *.
  assert (Hnone : forall p o, In (p, o) S -> (forall sr, ~ In (p, sr) A) -> find_accept A (p_sequence p) = None).
  { intros p o Hin Hno. apply find_accept_none. intros p' sr Hin' E.
    destruct (Hacc p' sr Hin') as (o' & Ho' & _).
    pose proof (same_seq_same_entry S Hs (p', o') (p, o) Ho' Hin E) as Eq. inversion Eq; subst. exact (Hno sr Hin'). }
  split; [|split; [|split; [|split]]].
  - intros cc. split.
    + intros Hin. apply in_map_iff in Hin. destruct Hin as ([p o] & Hst & Hin). unfold status_of in Hst.
      destruct o; try discriminate;
        (destruct (find_accept A (p_sequence p)) as [sr|] eqn:Ef; [|discriminate]; inversion Hst; subst cc;
         destruct (find_accept_some A _ sr Ef) as (p' & Hin' & E); destruct (Hacc p' sr Hin') as (o' & Ho' & _);
         match goal with
         | H : In (p, ?oo) S |- _ =>
           pose proof (same_seq_same_entry S Hs (p', o') (p, oo) Ho' H E) as Eq; inversion Eq; subst;
           exists p, sr; split; [exact Hin'|reflexivity]
         end).
    + intros (p & sr & Hin & ->). destruct (Hacc p sr Hin) as (o & Ho & Hans).
      apply in_map_iff. exists (p, o). split; [|exact Ho]. unfold status_of.
      rewrite (find_accept_in A Hnd p sr Hin). destruct o; try discriminate; reflexivity.
  - intros p. split.
    + intros Hin. apply in_map_iff in Hin. destruct Hin as ([p0 o] & Hst & Hin). unfold status_of in Hst.
      destruct o; try discriminate; try (destruct (find_accept A (p_sequence p0)); discriminate).
      inversion Hst; subst. exact Hin.
    + intros Hin. apply in_map_iff. exists (p, ProbeFailedO). split; [reflexivity|exact Hin].
  - intros p. split.
    + intros Hin. apply in_map_iff in Hin. destruct Hin as ([p0 o] & Hst & Hin). unfold status_of in Hst.
      destruct o; try discriminate;
        (destruct (find_accept A (p_sequence p0)) as [sr|] eqn:Ef; [discriminate|]; inversion Hst; subst p0;
         eexists; split; [exact Hin|]; split; [reflexivity|];
         intros sr Hsr; rewrite (find_accept_in A Hnd p sr Hsr) in Ef; discriminate).
    + intros (o & Hin & Hans & Hno). apply in_map_iff. exists (p, o). split; [|exact Hin]. unfold status_of.
      rewrite (Hnone p o Hin Hno). destruct o; try discriminate; reflexivity.
  - apply map_length.
  - intros Hin. apply in_map_iff in Hin. destruct Hin as ([p o] & Hst & _). unfold status_of in Hst.
    destruct o; try discriminate; destruct (find_accept A (p_sequence p)); discriminate.
Qed.

(* the number of completed slots of a round is the number of its genuine answers *)
Definition is_complete (s : pstatus) : bool := match s with Complete _ => true | _ => false end.
Theorem complete_count x : hist_ok x ->
  length (filter is_complete (rr_probes (h_round x))) = length (h_answers x).
Proof.
  intros [Hp [Hs Hacc Hnd _]]. rewrite Hp.
  pose proof (viaS_viaA (fun _ _ => [tt]) (h_sends x) Hs (h_answers x) Hacc Hnd) as P.
  apply Permutation_length in P. unfold viaA in P. rewrite flat_map_single, map_length in P. rewrite <- P.
  rewrite length_filter_tick, flat_map_map. unfold viaS. f_equal. apply flat_map_ext. intros [p o].
  unfold tick, status_of. cbn [fst snd].
  destruct o; cbn [answerable is_complete]; try reflexivity; destruct (find_accept (h_answers x) (p_sequence p)); reflexivity.
Qed.

(* ====================================================================== every publish position of the log *)
(* the round published at any position of the log of any run, judged against the ghost of the log before it:
   its slots are the statuses computed from that ghost, and the ghost history is well-formed *)
Theorem round_is_log_history c t0 is l1 r now adv l2 : Accept c ->
  run_log c t0 is = l1 ++ OPublish r now adv :: l2 ->
  let g := ghost_after c t0 l1 in
  hist_ok (r, g_S g, g_A g) /\ In (r, g_S g, g_A g) (run_hists c t0 is).
Proof.
  intros HA E g.
  assert (Hin : In (r, g_S g, g_A g) (run_hists c t0 is)).
  { unfold run_hists. rewrite (run_hist_is_log_lemma c t0 is HA), E, publishes_app. apply in_or_app. right.
    cbn [publishes]. left. reflexivity. }
  split; [|exact Hin].
  pose proof (run_hist_ok c t0 is HA) as HF. rewrite Forall_forall in HF. exact (HF _ Hin).
Qed.

Lemma run_history_wellformed c t0 is : Accept c ->
  Forall hist_ok (run_hists c t0 is) /\ map h_round (run_hists c t0 is) = pubs (fst (fst (run c t0 is))).
Proof. intros HA. split; [apply run_hist_ok; assumption|apply run_hists_rounds; assumption]. Qed.
