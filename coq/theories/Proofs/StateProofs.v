(* State aggregation: C19 (NAT), C15 (attribution, bound), C10 (hop window). *)
From Coq Require Import QArith.
From TV Require Import Base.Result Core.Types Core.Flows Core.State Core.TracerState Core.Strategy
  Proofs.ListLemmas Proofs.FlowsProofs.
From Coq Require Import ZifyBool.
Open Scope Z_scope.

(* ======================= C19 ======================= *)
(* the reference a responding hop is compared with: the checksum quoted by the previous responding hop,
   or - for the first responding hop - the checksum of the probe as sent (expected) *)
Definition nat_reference (expected : Z) (prev : option Z) : Z := match prev with Some p => p | None => expected end.

Lemma nat_status_of_spec e a prev :
  nat_status_of e a prev = ((if a =? nat_reference e prev then NatNotDetected else NatDetected), a).
Proof.
  unfold nat_status_of, nat_reference. destruct prev as [p|].
  - destruct (p =? a) eqn:E1; destruct (a =? p) eqn:E2; try lia; try reflexivity. f_equal. lia.
  - destruct (e =? a) eqn:E1; destruct (a =? e) eqn:E2; try lia; reflexivity.
Qed.

(* the statuses of the responding hops of one round, in TTL order; input: (expected, actual) per hop *)
Fixpoint nat_fold (prev : option Z) (l : list (Z * Z)) : list nat_status :=
  match l with
  | [] => []
  | (e, a) :: rest => let '(st, ck) := nat_status_of e a prev in st :: nat_fold (Some ck) rest
  end.

Fixpoint nat_spec (prev : option Z) (l : list (Z * Z)) : list nat_status :=
  match l with
  | [] => []
  | (e, a) :: rest => (if a =? nat_reference e prev then NatNotDetected else NatDetected) :: nat_spec (Some a) rest
  end.

Lemma nat_fold_is_spec l : forall prev, nat_fold prev l = nat_spec prev l.
Proof.
  induction l as [|[e a] l IH]; intros prev; cbn [nat_fold nat_spec]; [reflexivity|].
  rewrite nat_status_of_spec. rewrite IH. reflexivity.
Qed.

(* no rewriting: every hop quotes the checksum that was sent *)
Lemma nat_no_rewrite l : forall prev e0, Forall (fun ea => fst ea = e0 /\ snd ea = e0) l ->
  (prev = None \/ prev = Some e0) -> Forall (fun s => s = NatNotDetected) (nat_spec prev l).
Proof.
  induction l as [|[e a] l IH]; intros prev e0 H Hp; cbn [nat_spec]; [constructor|].
  pose proof (Forall_inv H) as [He Ha]. pose proof (Forall_inv_tail H) as Hr. cbn in He, Ha. subst e a.
  constructor.
  - unfold nat_reference. destruct Hp as [->| ->]; rewrite Z.eqb_refl; reflexivity.
  - apply (IH (Some e0) e0 Hr). right; reflexivity.
Qed.

(* one rewriting device: hops before it quote e0, hops at or beyond it quote a1 <> e0:
   Detected exactly at the first hop that quotes a1 *)
Lemma nat_single_rewrite before after e0 a1 : a1 <> e0 ->
  Forall (fun ea => fst ea = e0 /\ snd ea = e0) before ->
  Forall (fun ea => fst ea = e0 /\ snd ea = a1) after ->
  nat_spec None (before ++ after) =
    repeat NatNotDetected (length before) ++
    match after with [] => [] | _ :: r => NatDetected :: repeat NatNotDetected (length r) end.
Proof.
  intros Hne Hb Ha.
  assert (Hgen : forall prev, (prev = None \/ prev = Some e0) ->
    nat_spec prev (before ++ after) = repeat NatNotDetected (length before) ++
      match after with [] => [] | _ :: r => NatDetected :: repeat NatNotDetected (length r) end).
  { induction before as [|[e a] b IH]; intros prev Hp.
    - cbn [app length repeat]. destruct after as [|[e a] r]; [reflexivity|].
      pose proof (Forall_inv Ha) as [He Hq]. pose proof (Forall_inv_tail Ha) as Hr. cbn in He, Hq. subst e a. cbn [nat_spec].
      replace (a1 =? nat_reference e0 prev) with false by (unfold nat_reference; destruct Hp as [->| ->]; lia).
      f_equal. clear -Hr. revert Hr. generalize r as l. clear r.
      induction l as [|[e a] l IHl]; intros Hl; [reflexivity|].
      pose proof (Forall_inv Hl) as [He Hq]. pose proof (Forall_inv_tail Hl) as Hr'. cbn in He, Hq. subst e a.
      cbn [nat_spec length repeat nat_reference]. rewrite Z.eqb_refl. f_equal. apply IHl. assumption.
    - pose proof (Forall_inv Hb) as [He Hq]. pose proof (Forall_inv_tail Hb) as Hr. cbn in He, Hq. subst e a.
      cbn [app nat_spec length repeat]. 
      replace (e0 =? nat_reference e0 prev) with true by (unfold nat_reference; destruct Hp as [->| ->]; lia).
      f_equal. apply IH; [assumption|right; reflexivity]. }
  apply Hgen. left; reflexivity.
Qed.

(* the updater step for a completed probe carrying both checksums *)
Lemma update_for_probe_nat all u c e a i : hop_index (p_ttl (c_probe c)) = Ok i ->
  c_expected c = Some e -> c_actual c = Some a ->
  exists u', update_for_probe all u (Complete c) = Ok u' /\
    u_prev_cksum u' = Some a /\ u_fwd_loss u' = u_fwd_loss u /\
    (forall h, nth_error (fs_hops (u_fs u)) i = Some h ->
       exists h', nth_error (fs_hops (u_fs u')) i = Some h' /\
         h_last_nat h' = (if a =? nat_reference e (u_prev_cksum u) then NatNotDetected else NatDetected)).
Proof.
  intros Hi He Ha. unfold update_for_probe. rewrite Hi. cbn [bind]. rewrite He, Ha.
  rewrite nat_status_of_spec. eexists. split; [reflexivity|]. cbn [u_prev_cksum u_fwd_loss u_fs fs_touch fs_hops].
  split; [reflexivity|]. split; [reflexivity|]. intros h Hn.
  assert (Hup : forall (l : list hop) f k x, nth_error l k = Some x -> nth_error (upd_hop k f l) k = Some (f x)).
  { induction l as [|y l IHl]; intros f [|k] x Hx; cbn in *; try discriminate; [inversion Hx; reflexivity|apply IHl; assumption]. }
  eexists. split; [apply Hup; apply Hup; exact Hn|]. reflexivity.
Qed.

(* without both checksums the status and the carried checksum are untouched *)
Lemma update_for_probe_no_nat all u c i : hop_index (p_ttl (c_probe c)) = Ok i ->
  (c_expected c = None \/ c_actual c = None) ->
  exists u', update_for_probe all u (Complete c) = Ok u' /\ u_prev_cksum u' = u_prev_cksum u /\
    (forall h, nth_error (fs_hops (u_fs u)) i = Some h ->
       exists h', nth_error (fs_hops (u_fs u')) i = Some h' /\ h_last_nat h' = h_last_nat h).
Proof.
  intros Hi Hn. unfold update_for_probe. rewrite Hi. cbn [bind].
  assert (Hup : forall (l : list hop) f k x, nth_error l k = Some x -> nth_error (upd_hop k f l) k = Some (f x)).
  { induction l as [|y l IHl]; intros f [|k] x Hx; cbn in *; try discriminate; [inversion Hx; reflexivity|apply IHl; assumption]. }
  destruct (c_expected c) as [e|], (c_actual c) as [a|]; try (destruct Hn; discriminate);
    (eexists; split; [reflexivity|]; split; [reflexivity|]; intros h Hh; eexists; split; [apply Hup; exact Hh|reflexivity]).
Qed.

(* only IPv4 / UDP / Dublin responses carry the two checksums (strategy.rs) *)
Lemma only_dublin_v4_has_checksums c p tid q tos ex ac :
  proto_sresp c p = Ok (tid, q, tos, ex, ac) ->
  (ex <> None \/ ac <> None) ->
  multipath c = Dublin /\ is_v6 (target_addr c) = false /\ exists id da sp dp t e a pl m, p = PUdp id da sp dp t e a pl m.
Proof.
  intros H Hne. destruct p as [id sq t|id da sp dp t e a pl m|da sp dp t]; cbn in H.
  - inversion H; subst. destruct Hne; congruence.
  - destruct (multipath c) eqn:Em, (port_direction c), (is_v6 (target_addr c)) eqn:Ev; cbn [bind] in H; inversion H; subst;
      try (destruct Hne; congruence); (split; [reflexivity|split; [reflexivity|eauto 12]]).
  - inversion H; subst. destruct Hne; congruence.
Qed.

(* ======================= C15 (state level) ======================= *)
Lemma update_trace_flow_registry s id r s' : update_trace_flow s id r = Ok s' ->
  st_registry s' = st_registry s /\ st_round_flow_id s' = st_round_flow_id s /\
  st_max_flows s' = st_max_flows s /\ st_max_samples s' = st_max_samples s.
Proof.
  unfold update_trace_flow. intros H. destruct (fs_apply _ r); cbn [bind] in H; try discriminate.
  inversion H; subst. cbn. auto.
Qed.

(* dense ids, bounded by max_flows, entries only ever extended, and the round is attributed to a flow
   that covers it - also when the registry is saturated *)
Lemma update_from_round_flows s r s' : dense (st_registry s) ->
  Z.of_nat (length (reg_flows (st_registry s))) <= Z.max 0 (st_max_flows s) ->
  update_from_round s r = Ok s' ->
  dense (st_registry s') /\ st_max_flows s' = st_max_flows s /\
  Z.of_nat (length (reg_flows (st_registry s'))) <= Z.max 0 (st_max_flows s') /\
  Forall2 (fun old new => snd old = snd new /\ extends (fst old) (fst new))
          (reg_flows (st_registry s)) (firstn (length (reg_flows (st_registry s))) (reg_flows (st_registry s'))) /\
  ((exists e', In (e', st_round_flow_id s') (reg_flows (st_registry s')) /\ covers e' (round_flow r))
   \/ (st_round_flow_id s' = st_round_flow_id s /\ st_registry s' = st_registry s /\
       st_max_flows s <= Z.of_nat (length (reg_flows (st_registry s))) /\
       find_merge (reg_flows (st_registry s)) (round_flow r) = None)).
Proof.
  intros Hd Hb H. unfold update_from_round in H.
  destruct (update_trace_flow s 0 r) as [s1|?|?] eqn:H1; cbn [bind] in H; try discriminate.
  destruct (update_trace_flow_registry _ _ _ _ H1) as (R1 & F1 & M1 & _).
  rewrite R1, M1 in H.
  destruct (Z.of_nat (length (reg_flows (st_registry s))) <? st_max_flows s) eqn:El.
  - destruct (register (st_registry s) (round_flow r)) as [reg id] eqn:Er.
    destruct (register_spec _ _ _ _ Hd Er) as (Hd' & Hcov & Hlen & Hext).
    destruct (update_trace_flow_registry _ _ _ _ H) as (R2 & F2 & M2 & _). cbn [with_registry st_registry st_round_flow_id st_max_flows] in *.
    rewrite R2, F2, M2. split; [assumption|]. split; [assumption|]. split; [lia|]. split; [assumption|]. left. assumption.
  - destruct (register_existing (st_registry s) (round_flow r)) as [reg o] eqn:Er.
    destruct (register_existing_spec _ _ _ _ Hd Er) as (Hd' & Hlen & Hext & Ho).
    destruct o as [id|].
    + destruct (update_trace_flow_registry _ _ _ _ H) as (R2 & F2 & M2 & _). cbn [with_registry st_registry st_round_flow_id st_max_flows] in *.
      rewrite R2, F2, M2. split; [assumption|]. split; [assumption|]. split; [lia|].
      split; [rewrite <- Hlen, firstn_all; assumption|]. left. assumption.
    + inversion H; subst s'. destruct Ho as [-> Hn]. rewrite R1, F1, M1.
      split; [assumption|]. split; [reflexivity|]. split; [assumption|].
      split; [rewrite firstn_all; assumption|]. right. repeat split; try reflexivity; [lia|assumption].
Qed.

(* ======================= C10 ======================= *)
Definition ttls (ps : list pstatus) : list Z :=
  flat_map (fun st => match status_ttl st with Some t => [t] | None => [] end) ps.

(* hops are tagged with their own ttl once probed *)
Definition FHops (f : flow_state) : Prop :=
  length (fs_hops f) = MAX_TTL_N /\
  forall i h, nth_error (fs_hops f) i = Some h -> h_ttl h = 0 \/ h_ttl h = Z.of_nat i + 1.

Lemma upd_hop_length f l : forall i, length (upd_hop i f l) = length l.
Proof. induction l as [|x l IH]; intros [|i]; cbn; auto. Qed.
Lemma upd_hop_eq f l : forall i x, nth_error l i = Some x -> nth_error (upd_hop i f l) i = Some (f x).
Proof. induction l as [|y l IH]; intros [|i] x H; cbn in *; try discriminate; [inversion H; reflexivity|auto]. Qed.
Lemma upd_hop_neq f l : forall i j, i <> j -> nth_error (upd_hop i f l) j = nth_error l j.
Proof. induction l as [|y l IH]; intros [|i] [|j] H; cbn; auto; congruence. Qed.

Lemma FHops_new ms : FHops (flow_state_new ms).
Proof.
  split; [apply repeat_length|]. intros i h H. cbn [flow_state_new fs_hops] in H.
  destruct (Nat.lt_ge_cases i MAX_TTL_N) as [Hl|Hl].
  - rewrite nth_error_repeat in H by assumption. inversion H. left; reflexivity.
  - assert (nth_error (repeat hop_default MAX_TTL_N) i = None) by (apply nth_error_None; rewrite repeat_length; assumption). congruence.
Qed.

(* one probe: lowest is updated with the probe's ttl (if it has one), the hop is tagged, nothing else in the window fields moves *)
Lemma update_for_probe_window all u st : FHops (u_fs u) ->
  (forall t, status_ttl st = Some t -> 1 <= t <= 254) ->
  exists u', update_for_probe all u st = Ok u' /\ FHops (u_fs u') /\
    fs_lowest_ttl (u_fs u') = match status_ttl st with Some t => update_lowest (fs_lowest_ttl (u_fs u)) t | None => fs_lowest_ttl (u_fs u) end /\
    fs_highest_ttl (u_fs u') = fs_highest_ttl (u_fs u) /\
    fs_highest_ttl_for_round (u_fs u') = fs_highest_ttl_for_round (u_fs u) /\
    fs_round_count (u_fs u') = fs_round_count (u_fs u) /\
    (forall t, status_ttl st = Some t -> exists h, nth_error (fs_hops (u_fs u')) (Z.to_nat (t - 1)) = Some h /\ h_ttl h = t) /\
    (forall i h, nth_error (fs_hops (u_fs u)) i = Some h -> h_ttl h <> 0 ->
       exists h', nth_error (fs_hops (u_fs u')) i = Some h' /\ h_ttl h' = h_ttl h).
Proof.
  intros [Hl Ht] Hr.
  assert (Hgen : forall (p : probe) (g : hop -> hop), 1 <= p_ttl p <= 254 -> (forall h, h_ttl (g h) = p_ttl p) ->
     FHops (fs_touch (u_fs u) (p_ttl p) (p_round p) (upd_hop (Z.to_nat (p_ttl p - 1)) g (fs_hops (u_fs u)))) /\
     (exists h, nth_error (upd_hop (Z.to_nat (p_ttl p - 1)) g (fs_hops (u_fs u))) (Z.to_nat (p_ttl p - 1)) = Some h /\ h_ttl h = p_ttl p) /\
     (forall i h, nth_error (fs_hops (u_fs u)) i = Some h -> h_ttl h <> 0 ->
        exists h', nth_error (upd_hop (Z.to_nat (p_ttl p - 1)) g (fs_hops (u_fs u))) i = Some h' /\ h_ttl h' = h_ttl h)).
  { intros p g Hp Hg.
    assert (Hidx : (Z.to_nat (p_ttl p - 1) < length (fs_hops (u_fs u)))%nat) by (rewrite Hl; unfold MAX_TTL_N; lia).
    destruct (nth_error (fs_hops (u_fs u)) (Z.to_nat (p_ttl p - 1))) as [h0|] eqn:E0; [|apply nth_error_None in E0; lia].
    split; [|split].
    - split; cbn [fs_touch fs_hops]; [rewrite upd_hop_length; assumption|].
      intros i h Hn. destruct (Nat.eq_dec (Z.to_nat (p_ttl p - 1)) i) as [<-|Hne].
      + rewrite (upd_hop_eq g _ _ h0 E0) in Hn. inversion Hn; subst. right. rewrite Hg. lia.
      + rewrite upd_hop_neq in Hn by assumption. apply Ht; assumption.
    - exists (g h0). split; [apply upd_hop_eq; assumption|apply Hg].
    - intros i h Hn Hnz. destruct (Nat.eq_dec (Z.to_nat (p_ttl p - 1)) i) as [<-|Hne].
      + rewrite E0 in Hn. inversion Hn; subst h0. exists (g h). split; [apply upd_hop_eq; assumption|].
        rewrite Hg. destruct (Ht _ _ E0) as [Hz|Hz]; [contradiction|]. lia.
      + exists h. split; [rewrite upd_hop_neq by assumption; assumption|reflexivity]. }
  assert (Hidx : forall t, 1 <= t <= 254 -> hop_index t = Ok (Z.to_nat (t - 1))).
  { intros t H. unfold hop_index. destruct ((1 <=? t) && (t <=? 254)) eqn:E; [reflexivity|lia]. }
  destruct st as [| |p|p|c]; cbn [status_ttl] in *.
  - exists u. split; [reflexivity|]. split; [split; assumption|]. repeat split; try reflexivity; try discriminate. eauto.
  - exists u. split; [reflexivity|]. split; [split; assumption|]. repeat split; try reflexivity; try discriminate. eauto.
  - specialize (Hr _ eq_refl). destruct (Hgen p (hop_unanswered (fs_max_samples (u_fs u)) p true false false) Hr ltac:(reflexivity)) as (G1 & G2 & G3).
    unfold update_for_probe. rewrite (Hidx _ Hr). cbn [bind]. eexists. split; [reflexivity|]. cbn [u_fs].
    split; [exact G1|]. cbn [fs_touch fs_lowest_ttl fs_highest_ttl fs_highest_ttl_for_round fs_round_count fs_hops].
    repeat split; try reflexivity. { intros t Ht'. inversion Ht'; subst. exact G2. } exact G3.
  - specialize (Hr _ eq_refl).
    destruct (Hgen p (hop_unanswered (fs_max_samples (u_fs u)) p false (negb (u_fwd_loss u) && is_forward_loss all (p_ttl p)) (u_fwd_loss u)) Hr ltac:(reflexivity)) as (G1 & G2 & G3).
    unfold update_for_probe. rewrite (Hidx _ Hr). cbn [bind]. eexists. split; [reflexivity|]. cbn [u_fs].
    split; [exact G1|]. cbn [fs_touch fs_lowest_ttl fs_highest_ttl fs_highest_ttl_for_round fs_round_count fs_hops].
    repeat split; try reflexivity. { intros t Ht'. inversion Ht'; subst. exact G2. } exact G3.
  - specialize (Hr _ eq_refl). set (p := c_probe c) in *.
    unfold update_for_probe. fold p. rewrite (Hidx _ Hr). cbn [bind].
    destruct (Hgen p (hop_complete (fs_max_samples (u_fs u)) c) Hr ltac:(reflexivity)) as (G1 & G2 & G3).
    destruct (c_expected c) as [e|], (c_actual c) as [a|];
      try (eexists; split; [reflexivity|]; cbn [u_fs]; split; [exact G1|];
           cbn [fs_touch fs_lowest_ttl fs_highest_ttl fs_highest_ttl_for_round fs_round_count fs_hops];
           repeat split; try reflexivity; [intros t Ht'; inversion Ht'; subst; exact G2|exact G3]).
    (* both checksums: a second update of the same hop that only sets the NAT status *)
    destruct (nat_status_of e a (u_prev_cksum u)) as [ns ck].
    set (hops1 := upd_hop (Z.to_nat (p_ttl p - 1)) (hop_complete (fs_max_samples (u_fs u)) c) (fs_hops (u_fs u))) in *.
    destruct G1 as [G1l G1t]. cbn [fs_touch fs_hops] in G1l, G1t.
    eexists. split; [reflexivity|]. cbn [u_fs].
    assert (Hsame : forall i h, nth_error hops1 i = Some h ->
              exists h', nth_error (upd_hop (Z.to_nat (p_ttl p - 1)) (hop_set_nat ns) hops1) i = Some h' /\ h_ttl h' = h_ttl h).
    { intros i h Hn. destruct (Nat.eq_dec (Z.to_nat (p_ttl p - 1)) i) as [<-|Hne].
      - exists (hop_set_nat ns h). split; [apply upd_hop_eq; assumption|reflexivity].
      - exists h. split; [rewrite upd_hop_neq by assumption; assumption|reflexivity]. }
    split.
    { split; cbn [fs_touch fs_hops]; [rewrite upd_hop_length; assumption|].
      intros i h Hn. destruct (Nat.eq_dec (Z.to_nat (p_ttl p - 1)) i) as [<-|Hne].
      - destruct G2 as (h1 & Hh1 & Hh1t). rewrite (upd_hop_eq _ _ _ h1 Hh1) in Hn. inversion Hn; subst. right. cbn. lia.
      - rewrite upd_hop_neq in Hn by assumption. apply G1t; assumption. }
    cbn [fs_touch fs_lowest_ttl fs_highest_ttl fs_highest_ttl_for_round fs_round_count fs_hops].
    repeat split; try reflexivity.
    + intros t Ht'. inversion Ht'; subst. destruct G2 as (h1 & Hh1 & Hh1t). destruct (Hsame _ _ Hh1) as (h' & Hh' & Ht2). exists h'. split; [assumption|lia].
    + intros i h Hn Hnz. destruct (G3 i h Hn Hnz) as (h1 & Hh1 & Ht1). destruct (Hsame _ _ Hh1) as (h' & Hh' & Ht2). exists h'. split; [assumption|lia].
Qed.

Definition ttls_ok (ps : list pstatus) : Prop := Forall (fun t => 1 <= t <= 254) (ttls ps).

Lemma ttls_cons st ps : ttls (st :: ps) = match status_ttl st with Some t => t :: ttls ps | None => ttls ps end.
Proof. unfold ttls. cbn [flat_map]. destruct (status_ttl st); reflexivity. Qed.

Lemma fold_probes_window all : forall ps u, FHops (u_fs u) -> ttls_ok ps ->
  exists u', fold_probes all u ps = Ok u' /\ FHops (u_fs u') /\
    fs_lowest_ttl (u_fs u') = fold_left update_lowest (ttls ps) (fs_lowest_ttl (u_fs u)) /\
    fs_highest_ttl (u_fs u') = fs_highest_ttl (u_fs u) /\
    fs_highest_ttl_for_round (u_fs u') = fs_highest_ttl_for_round (u_fs u) /\
    fs_round_count (u_fs u') = fs_round_count (u_fs u) /\
    (forall t, In t (ttls ps) -> exists h, nth_error (fs_hops (u_fs u')) (Z.to_nat (t - 1)) = Some h /\ h_ttl h = t) /\
    (forall i h, nth_error (fs_hops (u_fs u)) i = Some h -> h_ttl h <> 0 ->
       exists h', nth_error (fs_hops (u_fs u')) i = Some h' /\ h_ttl h' = h_ttl h).
Proof.
  induction ps as [|st ps IH]; intros u HF Hok.
  - exists u. split; [reflexivity|]. split; [assumption|]. repeat split; try reflexivity; [intros t []|eauto].
  - cbn [fold_probes]. unfold ttls_ok in Hok. rewrite ttls_cons in Hok.
    assert (Hst : forall t, status_ttl st = Some t -> 1 <= t <= 254).
    { intros t E. rewrite E in Hok. apply (Forall_inv Hok). }
    assert (Hrest : ttls_ok ps) by (unfold ttls_ok; destruct (status_ttl st); [apply (Forall_inv_tail Hok)|assumption]).
    destruct (update_for_probe_window all u st HF Hst) as (u1 & H1 & HF1 & L1 & Hi1 & Hr1 & C1 & T1 & K1).
    rewrite H1. cbn [bind].
    destruct (IH u1 HF1 Hrest) as (u2 & H2 & HF2 & L2 & Hi2 & Hr2 & C2 & T2 & K2).
    exists u2. split; [assumption|]. split; [assumption|]. rewrite ttls_cons.
    split. { rewrite L2, L1. destruct (status_ttl st); reflexivity. }
    split; [congruence|]. split; [congruence|]. split; [congruence|]. split.
    + intros t Hin. destruct (status_ttl st) as [t0|] eqn:E.
      * destruct Hin as [<-|Hin]; [|apply T2; assumption].
        destruct (T1 t0 eq_refl) as (h & Hh & Hht). destruct (K2 _ _ Hh ltac:(specialize (Hst t0 eq_refl); lia)) as (h' & Hh' & Ht'). exists h'. split; [assumption|lia].
      * apply T2; assumption.
    + intros i h Hn Hnz. destruct (K1 i h Hn Hnz) as (h1 & Hh1 & Ht1). destruct (K2 i h1 Hh1 ltac:(lia)) as (h2 & Hh2 & Ht2). exists h2. split; [assumption|lia].
Qed.

(* the window invariant *)
Definition WInv (f : flow_state) : Prop :=
  FHops f /\ 0 <= fs_highest_ttl f <= 254 /\
  ((fs_lowest_ttl f = 0 /\ fs_highest_ttl f = 0) \/
   (1 <= fs_lowest_ttl f <= 254 /\ (fs_highest_ttl f = 0 \/ fs_lowest_ttl f <= fs_highest_ttl f))) /\
  (forall t, fs_lowest_ttl f <> 0 -> fs_lowest_ttl f = t ->
     exists h, nth_error (fs_hops f) (Z.to_nat (t - 1)) = Some h /\ h_ttl h = t).

(* the side condition under which the strategy publishes rounds *)
Definition wf_round (r : round_rec) : Prop :=
  ttls_ok (rr_probes r) /\ 0 <= rr_largest_ttl r <= 254 /\
  (rr_largest_ttl r = 0 \/ exists t, In t (ttls (rr_probes r)) /\ t <= rr_largest_ttl r).

Lemma fold_lowest_spec l : forall lo, 0 <= lo -> Forall (fun t => 1 <= t <= 254) l ->
  let lo' := fold_left update_lowest l lo in
  (l = [] -> lo' = lo) /\
  (lo = 0 -> l <> [] -> In lo' l /\ forall t, In t l -> lo' <= t) /\
  (lo <> 0 -> lo' <> 0 /\ lo' <= lo /\ (lo' = lo \/ In lo' l) /\ forall t, In t l -> lo' <= t).
Proof.
  induction l as [|x l IH]; intros lo Hlo Hl; cbn [fold_left].
  - repeat split; try reflexivity; try congruence; try lia; try (intros ? []); try (left; reflexivity).
  - pose proof (Forall_inv Hl) as Hx. cbn beta in Hx. pose proof (Forall_inv_tail Hl) as Hr.
    assert (Hu : update_lowest lo x <> 0 /\ 0 <= update_lowest lo x /\ (lo = 0 -> update_lowest lo x = x) /\ (lo <> 0 -> update_lowest lo x = Z.min lo x))
      by (unfold update_lowest; destruct (lo =? 0) eqn:E; lia).
    destruct Hu as (U1 & U2 & U3 & U4).
    destruct (IH (update_lowest lo x) U2 Hr) as (_ & _ & I3). specialize (I3 U1). destruct I3 as (J1 & J2 & J3 & J4).
    split; [discriminate|]. split.
    + intros H0 _. rewrite (U3 H0) in *. split.
      * destruct J3 as [->|J3]; [left; reflexivity|right; assumption].
      * intros t [<-|Ht]; [lia|apply J4; assumption].
    + intros Hn. rewrite (U4 Hn) in *. split; [assumption|]. split; [lia|]. split.
      * destruct J3 as [J3|J3]; [|right; right; assumption]. destruct (Z.min_spec lo x) as [[? Hm]|[? Hm]]; rewrite Hm in J3; [left|right; left]; congruence.
      * intros t [<-|Ht]; [lia|apply J4; assumption].
Qed.

Lemma range_in l x : Forall (fun t => 1 <= t <= 254) l -> In x l -> 1 <= x <= 254.
Proof. intros H Hin. apply (proj1 (Forall_forall _ _) H x Hin). Qed.

Lemma fs_apply_window f r : WInv f -> wf_round r ->
  exists f', fs_apply f r = Ok f' /\ WInv f' /\
    fs_highest_ttl f' = Z.max (fs_highest_ttl f) (rr_largest_ttl r) /\
    fs_highest_ttl_for_round f' = rr_largest_ttl r /\
    fs_round_count f' = fs_round_count f + 1 /\
    fs_lowest_ttl f' = fold_left update_lowest (ttls (rr_probes r)) (fs_lowest_ttl f) /\
    (forall t, In t (ttls (rr_probes r)) -> exists h, nth_error (fs_hops f') (Z.to_nat (t - 1)) = Some h /\ h_ttl h = t).
Proof.
  intros (HF & Hhi & HJ & Hlo) (Hok & Hl & Hwf). unfold fs_apply. unfold ttls_ok in Hok.
  set (f1 := {| fs_max_samples := fs_max_samples f; fs_lowest_ttl := fs_lowest_ttl f;
                fs_highest_ttl := Z.max (fs_highest_ttl f) (rr_largest_ttl r);
                fs_highest_ttl_for_round := rr_largest_ttl r; fs_round := fs_round f;
                fs_round_count := fs_round_count f + 1; fs_hops := fs_hops f |}).
  destruct (fold_probes_window (rr_probes r) (rr_probes r) {| u_fs := f1; u_prev_cksum := None; u_fwd_loss := false |} HF Hok)
    as (u' & H1 & HF' & L & Hi & Hr & C & T & K).
  rewrite H1. cbn [bind]. exists (u_fs u'). split; [reflexivity|]. cbn [u_fs f1 fs_lowest_ttl fs_highest_ttl fs_highest_ttl_for_round fs_round_count fs_hops] in *.
  assert (Hlo0 : 0 <= fs_lowest_ttl f) by (destruct HJ as [[-> _]|[? _]]; lia).
  pose proof (fold_lowest_spec (ttls (rr_probes r)) (fs_lowest_ttl f) Hlo0 Hok) as (S1 & S2 & S3). cbn zeta in S1, S2, S3.
  rewrite <- L in S1, S2, S3.
  split; [|repeat split; assumption].
  split; [assumption|]. split; [lia|]. split.
  - rewrite Hi. destruct (ttls (rr_probes r)) as [|t0 tl] eqn:Et.
    + rewrite (S1 eq_refl). destruct Hwf as [Hz|(t & [] & _)]. rewrite Hz, Z.max_l by lia. exact HJ.
    + destruct (Z.eq_dec (fs_lowest_ttl f) 0) as [H0|Hn].
      * destruct (S2 H0 ltac:(discriminate)) as [Hin Hmin]. right.
        pose proof (range_in _ _ Hok Hin) as Hb. split; [lia|].
        destruct Hwf as [Hz|(t & Ht & Hle)].
        -- destruct HJ as [[_ Hh]|[? _]]; [|lia]. left. lia.
        -- right. specialize (Hmin t Ht). lia.
      * destruct (S3 Hn) as (Hne & Hle & _ & Hmin). right.
        destruct HJ as [[? _]|[Hb Hh]]; [contradiction|]. split; [|].
        -- assert (1 <= fs_lowest_ttl (u_fs u')).
           { destruct (S3 Hn) as (_ & _ & [He|Hin] & _); [lia|]. pose proof (range_in _ _ Hok Hin). lia. }
           lia.
        -- destruct Hwf as [Hz|(t & Ht & Hle2)].
           ++ destruct Hh as [Hh|Hh]; [left; lia|right; lia].
           ++ right. specialize (Hmin t Ht). lia.
  - intros t Hnz Ht. destruct (Z.eq_dec (fs_lowest_ttl f) 0) as [H0|Hn].
    + destruct (ttls (rr_probes r)) as [|t0 tl] eqn:Et; [rewrite (S1 eq_refl) in Hnz; contradiction|].
      destruct (S2 H0 ltac:(discriminate)) as [Hin _]. apply T. rewrite <- Ht. assumption.
    + destruct (S3 Hn) as (_ & _ & [He|Hin] & _).
      * destruct (Hlo (fs_lowest_ttl f) Hn eq_refl) as (h & Hh & Hht).
        destruct (K _ _ Hh ltac:(lia)) as (h' & Hh' & Ht'). exists h'. rewrite <- Ht, He. split; [assumption|lia].
      * apply T. rewrite <- Ht. assumption.
Qed.

(* the hop list is the gap-free ascending window lowest..highest, querying never faults *)
Lemma hops_view_window f : WInv f ->
  exists hs, fs_hops_view f = Ok hs /\
    ((fs_lowest_ttl f = 0 \/ fs_highest_ttl f = 0) -> hs = []) /\
    (fs_lowest_ttl f <> 0 -> fs_highest_ttl f <> 0 ->
       hs = firstn (Z.to_nat (fs_highest_ttl f - fs_lowest_ttl f + 1)) (skipn (Z.to_nat (fs_lowest_ttl f - 1)) (fs_hops f)) /\
       Z.of_nat (length hs) = fs_highest_ttl f - fs_lowest_ttl f + 1 /\
       forall k h, nth_error hs k = Some h -> h_ttl h = 0 \/ h_ttl h = fs_lowest_ttl f + Z.of_nat k) /\
    exists th, fs_target_hop f = Ok th \/ fs_highest_ttl_for_round f > 254.
Proof.
  intros ((Hlen & Htag) & Hhi & HJ & _). unfold fs_hops_view, MAX_TTL_N in *.
  destruct ((fs_lowest_ttl f =? 0) || (fs_highest_ttl f =? 0)) eqn:E.
  - exists []. split; [reflexivity|]. split; [reflexivity|]. split; [intros; lia|].
    unfold fs_target_hop, index. destruct (0 <? fs_highest_ttl_for_round f) eqn:Eh.
    + destruct (nth_error (fs_hops f) (Z.to_nat (fs_highest_ttl_for_round f - 1))) as [h|] eqn:En; [exists h; left; reflexivity|].
      exists hop_default. right. apply nth_error_None in En. lia.
    + destruct (nth_error (fs_hops f) 0) as [h|] eqn:En; [exists h; left; reflexivity|]. apply nth_error_None in En. lia.
  - destruct HJ as [[? ?]|[Hb [?|Hle]]]; try lia.
    unfold slice. rewrite Hlen.
    destruct ((Z.to_nat (fs_lowest_ttl f - 1) <=? Z.to_nat (fs_highest_ttl f))%nat && (Z.to_nat (fs_highest_ttl f) <=? 254)%nat) eqn:Es.
    2:{ apply andb_false_iff in Es. destruct Es as [Es|Es]; [apply Nat.leb_gt in Es|apply Nat.leb_gt in Es]; lia. }
    eexists. split; [reflexivity|]. split; [intros; lia|]. split.
    + intros _ _. replace (Z.to_nat (fs_highest_ttl f) - Z.to_nat (fs_lowest_ttl f - 1))%nat with (Z.to_nat (fs_highest_ttl f - fs_lowest_ttl f + 1)) by lia.
      split; [reflexivity|]. split.
      * rewrite firstn_length, skipn_length, Hlen. lia.
      * intros k h Hk.
        assert (Hkl : (k < Z.to_nat (fs_highest_ttl f - fs_lowest_ttl f + 1))%nat).
        { assert (Hx : nth_error (firstn (Z.to_nat (fs_highest_ttl f - fs_lowest_ttl f + 1)) (skipn (Z.to_nat (fs_lowest_ttl f - 1)) (fs_hops f))) k <> None) by congruence.
          apply nth_error_Some in Hx. rewrite firstn_length in Hx. lia. }
        rewrite nth_error_firstn in Hk by assumption. rewrite nth_error_skipn' in Hk.
        destruct (Htag _ _ Hk) as [Hz|Hz]; [left; assumption|right; lia].
    + unfold fs_target_hop, index. destruct (0 <? fs_highest_ttl_for_round f) eqn:Eh.
      * destruct (nth_error (fs_hops f) (Z.to_nat (fs_highest_ttl_for_round f - 1))) as [h|] eqn:En; [exists h; left; reflexivity|].
        exists hop_default. right. apply nth_error_None in En. lia.
      * destruct (nth_error (fs_hops f) 0) as [h|] eqn:En; [exists h; left; reflexivity|]. apply nth_error_None in En. lia.
Qed.

Lemma WInv_new ms : WInv (flow_state_new ms).
Proof.
  split; [apply FHops_new|]. cbn. split; [lia|]. split; [left; split; reflexivity|]. intros t H; contradiction.
Qed.

Fixpoint fs_run (f : flow_state) (rs : list round_rec) : result flow_state :=
  match rs with [] => Ok f | r :: rest => let* f' := fs_apply f r in fs_run f' rest end.

Lemma fs_run_window : forall rs f, WInv f -> Forall wf_round rs ->
  exists f', fs_run f rs = Ok f' /\ WInv f' /\
    fs_highest_ttl f' = fold_left (fun h r => Z.max h (rr_largest_ttl r)) rs (fs_highest_ttl f) /\
    fs_lowest_ttl f' = fold_left (fun lo r => fold_left update_lowest (ttls (rr_probes r)) lo) rs (fs_lowest_ttl f) /\
    fs_round_count f' = fs_round_count f + Z.of_nat (length rs) /\
    (rs <> [] -> fs_highest_ttl_for_round f' = rr_largest_ttl (last rs {| rr_probes := []; rr_largest_ttl := 0; rr_reason := TargetFound |})).
Proof.
  induction rs as [|r rs IH]; intros f HW Hwf.
  - exists f. split; [reflexivity|]. split; [assumption|]. cbn. repeat split; try lia. congruence.
  - cbn [fs_run]. destruct (fs_apply_window f r HW (Forall_inv Hwf)) as (f1 & H1 & HW1 & Hh & Hr & Hc & Hl & _).
    rewrite H1. cbn [bind]. destruct (IH f1 HW1 (Forall_inv_tail Hwf)) as (f2 & H2 & HW2 & Hh2 & Hl2 & Hc2 & Hlast).
    exists f2. split; [assumption|]. split; [assumption|]. cbn [fold_left length].
    rewrite Hh2, Hl2, Hc2, Hh, Hl, Hc. repeat split; try lia.
    intros _. destruct rs as [|r2 rs2]; [inversion H2; subst; assumption|].
    rewrite (Hlast ltac:(discriminate)). reflexivity.
Qed.
