(* The state invariant of the strategy model (C07 core), its preservation by every operation,
   and fault-freedom of one loop iteration under builder-accepted configurations. *)
From TV Require Import Base.Result Core.Types Core.TracerState Core.Strategy Core.Builder Proofs.ListLemmas.
From Coq Require Import ZifyBool.
Ltac Zify.zify_post_hook ::= Z.div_mod_to_equations.

Definition max_seq (c : scfg) : Z :=
  match multipath c, is_v6 (target_addr c) with
  | Dublin, true => initial_sequence c + BUFFER_SIZE
  | _, _ => MAX_SEQUENCE
  end.

Definition probe_of (st : pstatus) : option probe :=
  match st with
  | Failed p | Awaited p => Some p
  | Complete cc => Some (c_probe cc)
  | _ => None
  end.

Definition slot_ok (c : scfg) (s : tstate) (i : nat) (st : pstatus) : Prop :=
  st <> NotSent /\
  forall p, probe_of st = Some p ->
    p_sequence p = round_sequence s + Z.of_nat i /\ p_round p = round s /\
    first_ttl c <= p_ttl p < ttl s.

Record Inv (c : scfg) (s : tstate) : Prop := {
  inv_len : length (buffer s) = 512%nat;
  inv_lo : initial_sequence c <= round_sequence s;
  inv_seq : round_sequence s <= sequence s <= round_sequence s + 512;
  inv_rs : round_sequence s < max_seq c;
  inv_ttl : first_ttl c <= ttl s <= 255;
  inv_cnt : ttl s - first_ttl c <= sequence s - round_sequence s;
  inv_cnt_eq : proto c <> Tcp -> sequence s - round_sequence s = ttl s - first_ttl c;
  inv_slots : forall i st, nth_error (buffer s) i = Some st ->
              Z.of_nat i < sequence s - round_sequence s -> slot_ok c s i st;
  inv_mr : forall m, max_received_ttl s = Some m -> first_ttl c <= m < ttl s;
  inv_tt : forall t, target_ttl s = Some t -> first_ttl c <= t <= 254;
  inv_round : 0 <= round s;
}.

Definition Accept (c : scfg) : Prop := builder_accepts c = true /\ cfg_wf c.

Lemma accept_facts c : Accept c ->
  1 <= first_ttl c <= 254 /\ 0 <= max_ttl c <= 254 /\ 0 <= initial_sequence c <= 64511 /\ portdir_ok c = true.
Proof.
  intros [Hb Hw]. unfold builder_accepts in Hb.
  repeat (apply andb_true_iff in Hb; destruct Hb as [Hb ?]).
  unfold MAX_TTL, MAX_INITIAL_SEQUENCE, BUFFER_SIZE in *.
  destruct Hw as (? & ? & ? & ? & ? & _). unfold u8, u16 in *.
  repeat split; try assumption; lia.
Qed.

Lemma max_seq_bounds c : Accept c -> initial_sequence c + 512 <= max_seq c <= 65023.
Proof.
  intros H. apply accept_facts in H. unfold max_seq, MAX_SEQUENCE, BUFFER_SIZE.
  destruct (multipath c), (is_v6 (target_addr c)); lia.
Qed.

Lemma max_sequence_ok c : Accept c -> max_sequence c = Ok (max_seq c).
Proof.
  intros H. pose proof (accept_facts c H) as F. unfold max_sequence, max_seq, add16, add_w, BUFFER_SIZE.
  destruct (multipath c), (is_v6 (target_addr c)); try reflexivity.
  destruct (initial_sequence c + 512 <? 65536) eqn:E; [reflexivity|lia].
Qed.

Lemma inv_new c t0 : Accept c -> Inv c (ts_new c t0).
Proof.
  intros H. pose proof (accept_facts c H) as F. pose proof (max_seq_bounds c H) as M.
  constructor; cbn [ts_new buffer sequence round_sequence ttl round max_received_ttl target_ttl];
    try lia; try discriminate; try (intros; lia).
  rewrite repeat_length. reflexivity.
Qed.

(* ---- probe_data never hits unimplemented!() for accepted configurations ---- *)
Lemma probe_data_ok c s : Accept c -> exists d, probe_data c s = Ok d.
Proof.
  intros H. apply accept_facts in H. destruct H as (_ & _ & _ & Hp).
  unfold probe_data, portdir_ok in *.
  destruct (proto c), (multipath c), (port_direction c); try discriminate; eauto.
Qed.

(* ---- next_probe ---- *)
Lemma next_probe_spec c s sent : Accept c -> Inv c s ->
  sequence s - round_sequence s < 512 -> ttl s <= 254 ->
  exists d b,
    probe_data c s = Ok d /\
    b = upd (Z.to_nat (sequence s - round_sequence s)) (Awaited (mk_probe s d (ttl s) sent)) (buffer s) /\
    next_probe c s sent = Ok (mk_probe s d (ttl s) sent,
      {| buffer := b; sequence := sequence s + 1; round_sequence := round_sequence s; ttl := ttl s + 1;
         round := round s; round_start := round_start s; target_found := target_found s;
         max_received_ttl := max_received_ttl s; target_ttl := target_ttl s; received_time := received_time s |}).
Proof.
  intros HA HI Hc Ht. destruct (probe_data_ok c s HA) as [d Hd].
  pose proof (accept_facts c HA) as F. pose proof (max_seq_bounds c HA) as M. destruct HI.
  exists d, (upd (Z.to_nat (sequence s - round_sequence s)) (Awaited (mk_probe s d (ttl s) sent)) (buffer s)).
  split; [assumption|]. split; [reflexivity|].
  unfold next_probe. rewrite Hd. cbn [bind].
  unfold sub16, sub_w. destruct (round_sequence s <=? sequence s) eqn:E1; [|lia]. cbn [bind].
  unfold buf_set. rewrite inv_len0.
  destruct ((0 <=? sequence s - round_sequence s) && (sequence s - round_sequence s <? Z.of_nat 512)) eqn:E2; [|lia].
  cbn [bind]. unfold add8, add16, add_w.
  destruct (ttl s + 1 <? 256) eqn:E3; [|lia]. cbn [bind].
  destruct (sequence s + 1 <? 65536) eqn:E4; [|lia]. cbn [bind]. reflexivity.
Qed.

Lemma mk_probe_fields s d t sent :
  p_sequence (mk_probe s d t sent) = sequence s /\ p_round (mk_probe s d t sent) = round s /\
  p_ttl (mk_probe s d t sent) = t /\ p_sent (mk_probe s d t sent) = sent.
Proof. destruct d as [[[a b] e] f]. cbn. auto. Qed.

Lemma slot_ok_mono c s s' i st :
  round_sequence s' = round_sequence s -> round s' = round s -> ttl s <= ttl s' ->
  slot_ok c s i st -> slot_ok c s' i st.
Proof.
  intros Hr Hd Ht [Hn H]. split; [assumption|]. intros p Hp. specialize (H p Hp). rewrite Hr, Hd. lia.
Qed.

Lemma next_probe_inv c s sent p s' : Accept c -> Inv c s ->
  sequence s - round_sequence s < 512 -> ttl s <= 254 ->
  (proto c <> Tcp -> True) ->
  next_probe c s sent = Ok (p, s') ->
  Inv c s' /\ sequence s' = sequence s + 1 /\ ttl s' = ttl s + 1 /\ round_sequence s' = round_sequence s /\
  p_ttl p = ttl s /\ p_sequence p = sequence s /\ p_round p = round s /\ p_sent p = sent /\
  nth_error (buffer s') (Z.to_nat (sequence s - round_sequence s)) = Some (Awaited p) /\
  round s' = round s /\ round_start s' = round_start s /\ target_found s' = target_found s /\
  max_received_ttl s' = max_received_ttl s /\ target_ttl s' = target_ttl s /\ received_time s' = received_time s.
Proof.
  intros HA HI Hc Ht _ Hn.
  destruct (next_probe_spec c s sent HA HI Hc Ht) as (d & b & Hd & Hb & Hs). rewrite Hs in Hn.
  inversion Hn; subst p s'; clear Hn Hs. subst b.
  pose proof (mk_probe_fields s d (ttl s) sent) as (Fq & Fr & Ft & Fs).
  pose proof (accept_facts c HA) as F. destruct HI.
  assert (Hidx : (Z.to_nat (sequence s - round_sequence s) < length (buffer s))%nat) by lia.
  split.
  - constructor; cbn [buffer sequence round_sequence ttl round max_received_ttl target_ttl].
    + rewrite upd_length. assumption.
    + lia.
    + lia.
    + lia.
    + lia.
    + lia.
    + intros Hp. specialize (inv_cnt_eq0 Hp). lia.
    + intros i st Hnth Hi.
      destruct (Nat.eq_dec i (Z.to_nat (sequence s - round_sequence s))) as [->|Hne].
      * rewrite nth_error_upd_eq in Hnth by assumption. inversion Hnth; subst st.
        split; [discriminate|]. intros p Hp. cbn in Hp. inversion Hp; subst p.
        cbn [round_sequence round ttl]. rewrite Fq, Fr, Ft. lia.
      * rewrite nth_error_upd_neq in Hnth by auto.
        assert (Hlt : Z.of_nat i < sequence s - round_sequence s) by lia.
        specialize (inv_slots0 i st Hnth Hlt). destruct inv_slots0 as [Hns Hsl].
        split; [assumption|]. intros p Hp. specialize (Hsl p Hp).
        cbn [round_sequence round ttl]. lia.
    + intros m Hm. specialize (inv_mr0 m Hm). lia.
    + assumption.
    + assumption.
  - cbn [buffer sequence round_sequence ttl round round_start target_found max_received_ttl target_ttl received_time].
    repeat split; try assumption; try lia.
    apply nth_error_upd_eq. assumption.
Qed.

(* ---- a generic constructor for invariants of states that differ from [s] only in the buffer ---- *)
Lemma probe_data_with_buffer c s b : probe_data c (with_buffer s b) = probe_data c s.
Proof. reflexivity. Qed.

Lemma inv_with_buffer c s b :
  Inv c s -> length b = 512%nat ->
  (forall i st, nth_error b i = Some st -> Z.of_nat i < sequence s - round_sequence s -> slot_ok c s i st) ->
  Inv c (with_buffer s b).
Proof.
  intros HI Hl Hs. destruct HI. constructor; cbn [with_buffer buffer sequence round_sequence ttl round max_received_ttl target_ttl]; try assumption.
Qed.

(* ---- fail_probe ---- *)
Lemma fail_probe_spec c s p : Inv c s -> round_sequence s < sequence s ->
  nth_error (buffer s) (Z.to_nat (sequence s - round_sequence s - 1)) = Some (Awaited p) ->
  fail_probe s = Ok (with_buffer s (upd (Z.to_nat (sequence s - round_sequence s - 1)) (Failed p) (buffer s))) /\
  Inv c (with_buffer s (upd (Z.to_nat (sequence s - round_sequence s - 1)) (Failed p) (buffer s))).
Proof.
  intros HI Hlt Hn. pose proof HI as HI'. destruct HI.
  assert (Hidx : (Z.to_nat (sequence s - round_sequence s - 1) < length (buffer s))%nat) by lia.
  split.
  - unfold fail_probe, sub16, sub_w.
    destruct (round_sequence s <=? sequence s) eqn:E1; [|lia]. cbn [bind].
    destruct (1 <=? sequence s - round_sequence s) eqn:E2; [|lia]. cbn [bind].
    unfold buf_get. destruct (0 <=? sequence s - round_sequence s - 1) eqn:E3; [|lia].
    rewrite Hn. cbn [bind]. unfold buf_set. rewrite inv_len0.
    destruct ((0 <=? sequence s - round_sequence s - 1) && (sequence s - round_sequence s - 1 <? Z.of_nat 512)) eqn:E4; [|lia].
    cbn [bind]. reflexivity.
  - apply inv_with_buffer; [assumption|rewrite upd_length; assumption|].
    intros i st Hnth Hi.
    destruct (Nat.eq_dec i (Z.to_nat (sequence s - round_sequence s - 1))) as [->|Hne].
    + rewrite nth_error_upd_eq in Hnth by assumption. inversion Hnth; subst st.
      specialize (inv_slots0 _ _ Hn ltac:(lia)). destruct inv_slots0 as [_ Hs].
      split; [discriminate|]. intros q Hq. cbn in Hq. inversion Hq; subst q. apply Hs. reflexivity.
    + rewrite nth_error_upd_neq in Hnth by auto. apply inv_slots0; assumption.
Qed.

(* ---- reissue_probe ---- *)
Lemma reissue_probe_spec c s sent : Accept c -> Inv c s -> proto c = Tcp ->
  round_sequence s < sequence s -> sequence s - round_sequence s < 512 -> first_ttl c < ttl s ->
  exists d p s',
    probe_data c s = Ok d /\ p = mk_probe s d (ttl s - 1) sent /\
    reissue_probe c s sent = Ok (p, s') /\
    buffer s' = upd (Z.to_nat (sequence s - round_sequence s)) (Awaited p)
                    (upd (Z.to_nat (sequence s - round_sequence s - 1)) Skipped (buffer s)) /\
    sequence s' = sequence s + 1 /\ round_sequence s' = round_sequence s /\ ttl s' = ttl s /\
    round s' = round s /\ round_start s' = round_start s /\ target_found s' = target_found s /\
    max_received_ttl s' = max_received_ttl s /\ target_ttl s' = target_ttl s /\ received_time s' = received_time s /\
    Inv c s'.
Proof.
  intros HA HI Hp Hlt Hc Ht. destruct (probe_data_ok c s HA) as [d Hd].
  pose proof (accept_facts c HA) as F. pose proof HI as HI'. destruct HI.
  set (n := sequence s - round_sequence s) in *.
  set (p := mk_probe s d (ttl s - 1) sent).
  set (b1 := upd (Z.to_nat (n - 1)) Skipped (buffer s)).
  set (b2 := upd (Z.to_nat n) (Awaited p) b1).
  exists d, p.
  eexists {| buffer := b2; sequence := sequence s + 1; round_sequence := round_sequence s; ttl := ttl s;
            round := round s; round_start := round_start s; target_found := target_found s;
            max_received_ttl := max_received_ttl s; target_ttl := target_ttl s; received_time := received_time s |}.
  cbn [buffer sequence round_sequence ttl round round_start target_found max_received_ttl target_ttl received_time].
  split; [assumption|]. split; [reflexivity|]. split.
  { unfold reissue_probe, sub16, sub_w. fold n.
    destruct (round_sequence s <=? sequence s) eqn:E1; [|lia]. cbn [bind].
    destruct (1 <=? n) eqn:E2; [|lia]. cbn [bind].
    unfold buf_set at 1. rewrite inv_len0.
    destruct ((0 <=? n - 1) && (n - 1 <? Z.of_nat 512)) eqn:E3; [|lia]. cbn [bind].
    rewrite probe_data_with_buffer, Hd. cbn [bind].
    destruct (1 <=? ttl s) eqn:E4; [|lia]. cbn [bind].
    unfold buf_set. cbn [with_buffer buffer]. rewrite upd_length, inv_len0.
    destruct ((0 <=? n) && (n <? Z.of_nat 512)) eqn:E5; [|lia]. cbn [bind].
    unfold add16, add_w. destruct (sequence s + 1 <? 65536) eqn:E6.
    - cbn [bind]. reflexivity.
    - pose proof (max_seq_bounds c HA). lia. }
  repeat (split; [reflexivity|]).
  pose proof (mk_probe_fields s d (ttl s - 1) sent) as (Fq & Fr & Ft & Fs). fold p in Fq, Fr, Ft, Fs.
  assert (Hi1 : (Z.to_nat (n - 1) < length (buffer s))%nat) by lia.
  assert (Hi2 : (Z.to_nat n < length b1)%nat) by (unfold b1; rewrite upd_length; lia).
  constructor; cbn [buffer sequence round_sequence ttl round max_received_ttl target_ttl].
  - unfold b2, b1. rewrite !upd_length. assumption.
  - lia.
  - lia.
  - lia.
  - lia.
  - lia.
  - intros Hp'. congruence.
  - intros i st Hnth Hi.
    destruct (Nat.eq_dec i (Z.to_nat n)) as [->|Hne].
    + unfold b2 in Hnth. rewrite nth_error_upd_eq in Hnth by assumption. inversion Hnth; subst st.
      split; [discriminate|]. intros q Hq. cbn in Hq. inversion Hq; subst q.
      cbn [round_sequence round ttl]. rewrite Fq, Fr, Ft. lia.
    + unfold b2 in Hnth. rewrite nth_error_upd_neq in Hnth by auto.
      destruct (Nat.eq_dec i (Z.to_nat (n - 1))) as [->|Hne2].
      * unfold b1 in Hnth. rewrite nth_error_upd_eq in Hnth by assumption. inversion Hnth; subst st.
        split; [discriminate|]. intros q Hq. cbn in Hq. discriminate.
      * unfold b1 in Hnth. rewrite nth_error_upd_neq in Hnth by auto.
        assert (Hlt' : Z.of_nat i < n) by lia.
        specialize (inv_slots0 i st Hnth Hlt'). destruct inv_slots0 as [Hns Hsl].
        split; [assumption|]. intros q Hq. specialize (Hsl q Hq). cbn [round_sequence round ttl]. lia.
  - assumption.
  - assumption.
  - assumption.
Qed.

(* ---- advance_round ---- *)
Lemma advance_round_spec c s now : Accept c -> Inv c s ->
  exists s', advance_round c s (first_ttl c) now = Ok s' /\ Inv c s' /\
    round s' = round s + 1 /\ round_start s' = now /\ ttl s' = first_ttl c /\
    sequence s' = round_sequence s' /\ target_found s' = false /\ max_received_ttl s' = None /\
    received_time s' = None /\ target_ttl s' = target_ttl s /\ buffer s' = buffer s /\
    (round_sequence s' = sequence s \/ (round_sequence s' = initial_sequence c /\ max_seq c <= sequence s)).
Proof.
  intros HA HI. pose proof (accept_facts c HA) as F. pose proof (max_seq_bounds c HA) as M. destruct HI.
  unfold advance_round. rewrite (max_sequence_ok c HA). cbn [bind].
  eexists. split; [reflexivity|].
  cbn [buffer sequence round_sequence ttl round round_start target_found max_received_ttl target_ttl received_time].
  destruct (max_seq c <=? sequence s) eqn:E.
  - split; [|repeat split; try reflexivity; right; split; [reflexivity|lia]].
    constructor; cbn [buffer sequence round_sequence ttl round max_received_ttl target_ttl]; try lia; try assumption; try discriminate; try (intros; lia).
  - split; [|repeat split; try reflexivity; left; reflexivity].
    constructor; cbn [buffer sequence round_sequence ttl round max_received_ttl target_ttl]; try lia; try assumption; try discriminate; try (intros; lia).
Qed.

(* ---- complete_probe ---- *)
Lemma strategy_resp_ok c r : exists sr, strategy_resp c r = Ok sr.
Proof.
  unfold strategy_resp.
  assert (H : forall p, exists x, proto_sresp c p = Ok x).
  { intros p. unfold proto_sresp. destruct p as [id q tos|id da sp dp tos ex ac plen mg|da sp dp tos]; eauto.
    destruct (multipath c), (port_direction c), (is_v6 (target_addr c)); cbn [bind]; eauto. }
  destruct r as [d code e|d code e|d code|d|d]; destruct (H (r_proto d)) as [[[[[tid q] tos] ex] ac] Hx];
    rewrite Hx; cbn [bind]; eauto.
Qed.

Lemma complete_probe_spec c s sr : Accept c -> Inv c s -> in_round s (sr_sequence sr) = true ->
  exists s', complete_probe s sr = Ok s' /\ Inv c s' /\
    sequence s' = sequence s /\ round_sequence s' = round_sequence s /\ ttl s' = ttl s /\ round s' = round s /\
    round_start s' = round_start s /\
    (s' = s \/
     exists p, sr_sequence sr < sequence s /\
       nth_error (buffer s) (Z.to_nat (sr_sequence sr - round_sequence s)) = Some (Awaited p) /\
       buffer s' = upd (Z.to_nat (sr_sequence sr - round_sequence s)) (Complete (complete p sr)) (buffer s) /\
       target_found s' = (target_found s || sr_is_target sr) /\
       received_time s' = Some (sr_received sr) /\
       max_received_ttl s' = Some (match max_received_ttl s with None => p_ttl p | Some m => Z.max m (p_ttl p) end)).
Proof.
  intros HA HI Hin. pose proof (accept_facts c HA) as F. pose proof HI as HI'. destruct HI.
  unfold in_round, BUFFER_SIZE in Hin. unfold complete_probe.
  destruct (sequence s <=? sr_sequence sr) eqn:Eg.
  { exists s. split; [reflexivity|]. split; [exact HI'|]. repeat split; try reflexivity. left; reflexivity. }
  set (q := sr_sequence sr) in *.
  assert (Hq : round_sequence s <= q < sequence s) by lia.
  unfold probe_at, sub16, sub_w. destruct (round_sequence s <=? q) eqn:E1; [|lia]. cbn [bind].
  unfold buf_get. destruct (0 <=? q - round_sequence s) eqn:E2; [|lia].
  assert (Hidx : (Z.to_nat (q - round_sequence s) < length (buffer s))%nat) by lia.
  destruct (nth_error (buffer s) (Z.to_nat (q - round_sequence s))) as [st|] eqn:En.
  2:{ apply nth_error_None in En. lia. }
  cbn [bind].
  destruct st as [| |pf|p|cc]; try (exists s; split; [reflexivity|]; split; [exact HI'|]; repeat split; try reflexivity; left; reflexivity).
  unfold buf_set. rewrite inv_len0.
  destruct ((0 <=? q - round_sequence s) && (q - round_sequence s <? Z.of_nat 512)) eqn:E3; [|lia].
  cbn [bind].
  pose proof (inv_slots0 _ _ En ltac:(lia)) as [_ Hsl]. specialize (Hsl p eq_refl).
  eexists. split; [reflexivity|].
  cbn [buffer sequence round_sequence ttl round round_start target_found max_received_ttl target_ttl received_time].
  split.
  - constructor; cbn [buffer sequence round_sequence ttl round max_received_ttl target_ttl]; try assumption.
    + rewrite upd_length. assumption.
    + intros i st Hnth Hi.
      destruct (Nat.eq_dec i (Z.to_nat (q - round_sequence s))) as [->|Hne].
      * rewrite nth_error_upd_eq in Hnth by assumption. inversion Hnth; subst st.
        split; [discriminate|]. intros p' Hp'. cbn in Hp'. inversion Hp'; subst p'. exact Hsl.
      * rewrite nth_error_upd_neq in Hnth by auto. apply inv_slots0; assumption.
    + intros m Hm. destruct (max_received_ttl s) as [m0|] eqn:Em.
      * inversion Hm; subst m. specialize (inv_mr0 m0 eq_refl). lia.
      * inversion Hm; subst m. lia.
    + intros t Ht. destruct (sr_is_target sr), (target_ttl s) as [x|] eqn:Et.
      * destruct (p_ttl p <? x); inversion Ht; subst t; [lia|apply inv_tt0; reflexivity].
      * inversion Ht; subst t. lia.
      * destruct (x <=? p_ttl p); [discriminate|]. inversion Ht; subst t. apply inv_tt0; reflexivity.
      * discriminate.
  - repeat split; try reflexivity. right. exists p. repeat split; try reflexivity; try lia.
    destruct (max_received_ttl s); reflexivity.
Qed.

(* ---- send_request ---- *)
Definition same_book (s s' : tstate) : Prop :=
  round s' = round s /\ round_start s' = round_start s /\ target_found s' = target_found s /\
  max_received_ttl s' = max_received_ttl s /\ target_ttl s' = target_ttl s /\
  received_time s' = received_time s /\ round_sequence s' = round_sequence s.

Lemma same_book_refl s : same_book s s.
Proof. unfold same_book; repeat split; reflexivity. Qed.
Lemma same_book_trans a b d : same_book a b -> same_book b d -> same_book a d.
Proof. unfold same_book; intros (?&?&?&?&?&?&?) (?&?&?&?&?&?&?); repeat split; congruence. Qed.

Fixpoint ev_probes (ev : list event) : list probe :=
  match ev with
  | ESend p _ :: r => p :: ev_probes r
  | _ :: r => ev_probes r
  | [] => []
  end.

Fixpoint zrange (a : Z) (n : nat) : list Z :=
  match n with O => [] | S n' => a :: zrange (a + 1) n' end.

Lemma can_send_ok c s : Accept c -> Inv c s -> exists b, can_send c s = Ok b /\
  (b = true -> target_found s = false /\ ttl s <= max_ttl c /\
     match target_ttl s with
     | Some t => ttl s <= t
     | None => ttl s - inflight_base c s <= max_inflight c
     end).
Proof.
  intros HA HI. pose proof (accept_facts c HA) as F. destruct HI.
  unfold can_send. destruct (target_ttl s) as [t|] eqn:Et; cbn [bind].
  - eexists; split; [reflexivity|]. intros H. destruct (target_found s); cbn in H; [discriminate|].
    split; [reflexivity|]. lia.
  - unfold sub_w, inflight_base.
    assert (Hb : match max_received_ttl s with Some m => m | None => Z.max 0 (first_ttl c - 1) end <= ttl s).
    { destruct (max_received_ttl s) as [m|] eqn:Em; [specialize (inv_mr0 m eq_refl)|]; lia. }
    destruct (_ <=? ttl s) eqn:E; [|lia]. cbn [bind].
    eexists; split; [reflexivity|]. intros H. destruct (target_found s); cbn in H; [discriminate|].
    split; [reflexivity|]. lia.
Qed.

(* the TCP re-issue loop *)
Lemma tcp_loop_ok c : Accept c -> proto c = Tcp -> forall sends s p clk last,
  Inv c s -> round_sequence s < sequence s -> first_ttl c < ttl s ->
  nth_error (buffer s) (Z.to_nat (sequence s - round_sequence s - 1)) = Some (Awaited p) ->
  p_ttl p = ttl s - 1 -> p_sequence p = sequence s - 1 ->
  exists s' ev e, tcp_reissue_loop c s p sends clk last = Ok (s', ev, e) /\ Inv c s' /\ same_book s s' /\
    ttl s' = ttl s /\ ev <> [] /\
    sequence s' = sequence s + Z.of_nat (length (ev_probes ev)) - 1 /\
    map p_sequence (ev_probes ev) = zrange (sequence s - 1) (length (ev_probes ev)) /\
    Forall (fun q => p_ttl q = ttl s - 1 /\ p_round q = round s) (ev_probes ev).
Proof.
  intros HA HT. induction sends as [|o rest IH]; intros s p clk last HI Hlt Hft Hn Hpt Hps.
  - cbn [tcp_reissue_loop]. exists s, [ESend p Sent], None. split; [reflexivity|]. split; [assumption|].
    split; [apply same_book_refl|]. cbn [ev_probes length map zrange]. repeat split; try lia; try discriminate.
    + rewrite Hps. reflexivity.
    + constructor; [|constructor]. split; [assumption|].
      destruct HI. specialize (inv_slots0 _ _ Hn ltac:(lia)). destruct inv_slots0 as [_ H]. apply (H p eq_refl).
  - cbn [tcp_reissue_loop]. pose proof HI as HI'. 
    assert (Hpr : p_round p = round s).
    { destruct HI. specialize (inv_slots0 _ _ Hn ltac:(lia)). destruct inv_slots0 as [_ H]. apply (H p eq_refl). }
    destruct o as [| | |e]; cbn [do_send bind].
    + (* Sent *)
      exists s, [ESend p Sent], None. split; [reflexivity|]. split; [assumption|]. split; [apply same_book_refl|].
      cbn [ev_probes length map zrange]. repeat split; try lia; try discriminate.
      * rewrite Hps; reflexivity.
      * constructor; [|constructor]. split; assumption.
    + (* ProbeFailed *)
      destruct (fail_probe_spec c s p HI Hlt Hn) as [Hf HIf]. rewrite Hf. cbn [bind].
      eexists _, [ESend p ProbeFailedO], None. split; [reflexivity|]. split; [assumption|].
      split; [unfold same_book; cbn; repeat split; reflexivity|].
      cbn [ev_probes length map zrange with_buffer ttl sequence round_sequence]. repeat split; try lia; try discriminate.
      * rewrite Hps; reflexivity.
      * constructor; [|constructor]. split; assumption.
    + (* AddressInUse *)
      unfold round_has_capacity, sub16, sub_w, BUFFER_SIZE.
      destruct (round_sequence s <=? sequence s) eqn:E1; [|lia]. cbn [bind].
      destruct (sequence s - round_sequence s <? 512) eqn:Ecap.
      * destruct (reissue_probe_spec c s (hd_clock clk last) HA HI HT Hlt ltac:(lia) Hft)
          as (d & p' & s' & Hd & Hp' & Hr & Hb & Hsq & Hrs & Httl & Hrd & Hst & Htf & Hmr & Htt & Hrt & HI2).
        rewrite Hr. cbn [bind].
        pose proof (mk_probe_fields s d (ttl s - 1) (hd_clock clk last)) as (Fq & Fr & Ft & Fs). rewrite <- Hp' in Fq, Fr, Ft, Fs.
        assert (Hn' : nth_error (buffer s') (Z.to_nat (sequence s' - round_sequence s' - 1)) = Some (Awaited p')).
        { rewrite Hb, Hsq, Hrs. replace (sequence s + 1 - round_sequence s - 1) with (sequence s - round_sequence s) by lia.
          apply nth_error_upd_eq. rewrite upd_length. destruct HI. lia. }
        destruct (IH s' p' (tl clk) (hd_clock clk last) HI2 ltac:(lia) ltac:(lia) Hn' ltac:(lia) ltac:(lia))
          as (s3 & ev & e3 & Hl & HI3 & Hsb & Ht3 & Hne & Hs3 & Hmap & Hall).
        rewrite Hl. cbn [bind].
        exists s3, (ESend p AddressInUseO :: ev), e3. split; [reflexivity|]. split; [assumption|].
        split. { eapply same_book_trans; [|exact Hsb]. unfold same_book. repeat split; assumption. }
        cbn [ev_probes length map zrange]. repeat split; try lia; try discriminate.
        -- rewrite Hps. f_equal. rewrite Hmap. f_equal. lia.
        -- constructor; [split; assumption|]. eapply Forall_impl; [|exact Hall]. cbn. intros q [? ?]. split; lia.
      * exists s, [ESend p AddressInUseO], (Some EInsufficientCapacity). split; [reflexivity|]. split; [assumption|].
        split; [apply same_book_refl|]. cbn [ev_probes length map zrange]. repeat split; try lia; try discriminate.
        -- rewrite Hps; reflexivity.
        -- constructor; [|constructor]. split; assumption.
    + (* Fatal *)
      exists s, [ESend p (FatalS e)], (Some e). split; [reflexivity|]. split; [assumption|]. split; [apply same_book_refl|].
      cbn [ev_probes length map zrange]. repeat split; try lia; try discriminate.
      * rewrite Hps; reflexivity.
      * constructor; [|constructor]. split; assumption.
Qed.

Lemma ev_probes_le ev : (length (ev_probes ev) <= length ev)%nat.
Proof. induction ev as [|[p o|r] ev IH]; cbn; lia. Qed.

Definition sends_shape (c : scfg) (s s' : tstate) (ev : list event) : Prop :=
  ev_probes ev <> [] /\ length (ev_probes ev) = length ev /\
  target_found s = false /\ ttl s <= max_ttl c /\
  match target_ttl s with
  | Some t => ttl s <= t
  | None => ttl s - inflight_base c s <= max_inflight c
  end /\
  ttl s' = ttl s + 1 /\ sequence s' = sequence s + Z.of_nat (length (ev_probes ev)) /\
  map p_sequence (ev_probes ev) = zrange (sequence s) (length (ev_probes ev)) /\
  Forall (fun q => p_ttl q = ttl s /\ p_round q = round s) (ev_probes ev) /\
  (proto c <> Tcp -> length ev = 1%nat).

Lemma send_request_ok c s i : Accept c -> Inv c s ->
  exists s' ev e, send_request c s i = Ok (s', ev, e) /\ Inv c s' /\ same_book s s' /\
    ((ev = [] /\ s' = s) \/ sends_shape c s s' ev).
Proof.
  intros HA HI. pose proof (accept_facts c HA) as F. pose proof HI as HI'.
  destruct (can_send_ok c s HA HI) as (b & Hcs & Hb). unfold send_request. rewrite Hcs. cbn [bind].
  destruct b; cbn [negb].
  2:{ exists s, [], None. split; [reflexivity|]. split; [assumption|]. split; [apply same_book_refl|]. left; split; reflexivity. }
  destruct (Hb eq_refl) as (Htf & Hmax & Htt). clear Hb.
  set (sent := hd_clock (i_clock i) (round_start s)).
  destruct (proto c) eqn:Hp.
  1,2: (
    assert (Hcap : sequence s - round_sequence s < 512) by (destruct HI; specialize (inv_cnt_eq0 ltac:(congruence)); lia);
    destruct (next_probe c s sent) as [[p s1]|e|f] eqn:Hn;
      [| destruct (next_probe_spec c s sent HA HI Hcap ltac:(lia)) as (?&?&?&?&Hx); congruence
       | destruct (next_probe_spec c s sent HA HI Hcap ltac:(lia)) as (?&?&?&?&Hx); congruence ];
    destruct (next_probe_inv c s sent p s1 HA HI Hcap ltac:(lia) ltac:(auto) Hn)
      as (HI1 & Hsq & Httl & Hrs & Hpt & Hps & Hpr & Hpst & Hnth & Hrd & Hst & Htf1 & Hmr & Htt1 & Hrt);
    cbn [bind];
    assert (Hsb : same_book s s1) by (unfold same_book; repeat split; assumption);
    assert (Hshape : forall s2 o, ttl s2 = ttl s1 -> sequence s2 = sequence s1 -> sends_shape c s s2 [ESend p o]) by
      (intros s2 o H1 H2; unfold sends_shape; cbn [ev_probes length map zrange]; rewrite Hp;
       repeat split; try assumption; try discriminate; try lia;
       [ rewrite Hps; reflexivity | constructor; [split; assumption|constructor] ]);
    destruct (hd_send (i_sends i)) as [| | |e]; cbn [do_send bind];
    [ exists s1, [ESend p Sent], None; split; [reflexivity|]; split; [assumption|]; split; [assumption|]; right; apply Hshape; reflexivity
    | assert (Hn2 : nth_error (buffer s1) (Z.to_nat (sequence s1 - round_sequence s1 - 1)) = Some (Awaited p))
        by (rewrite Hsq, Hrs; replace (sequence s + 1 - round_sequence s - 1) with (sequence s - round_sequence s) by lia; assumption);
      destruct (fail_probe_spec c s1 p HI1 ltac:(destruct HI; lia) Hn2) as [Hf HIf]; rewrite Hf; cbn [bind];
      eexists _, [ESend p ProbeFailedO], None; split; [reflexivity|]; split; [assumption|];
      split; [eapply same_book_trans; [exact Hsb|]; unfold same_book; cbn; repeat split; reflexivity|];
      right; apply Hshape; reflexivity
    | exists s1, [ESend p AddressInUseO], (Some EAddressInUse); split; [reflexivity|]; split; [assumption|]; split; [assumption|]; right; apply Hshape; reflexivity
    | exists s1, [ESend p (FatalS e)], (Some e); split; [reflexivity|]; split; [assumption|]; split; [assumption|]; right; apply Hshape; reflexivity ]).
  (* TCP *)
  unfold round_has_capacity, sub16, sub_w, BUFFER_SIZE.
  destruct (round_sequence s <=? sequence s) eqn:E1; [|destruct HI; lia]. cbn [bind].
  destruct (sequence s - round_sequence s <? 512) eqn:Ecap; cbn [negb].
  2:{ exists s, [], (Some EInsufficientCapacity). split; [reflexivity|]. split; [assumption|]. split; [apply same_book_refl|]. left; split; reflexivity. }
  assert (Hcap : sequence s - round_sequence s < 512) by lia.
  destruct (next_probe c s sent) as [[p s1]|e|f] eqn:Hn;
    [| destruct (next_probe_spec c s sent HA HI Hcap ltac:(lia)) as (?&?&?&?&Hx); congruence
     | destruct (next_probe_spec c s sent HA HI Hcap ltac:(lia)) as (?&?&?&?&Hx); congruence ].
  destruct (next_probe_inv c s sent p s1 HA HI Hcap ltac:(lia) ltac:(auto) Hn)
    as (HI1 & Hsq & Httl & Hrs & Hpt & Hps & Hpr & Hpst & Hnth & Hrd & Hst & Htf1 & Hmr & Htt1 & Hrt).
  cbn [bind].
  assert (Hsb : same_book s s1) by (unfold same_book; repeat split; assumption).
  assert (Hn2 : nth_error (buffer s1) (Z.to_nat (sequence s1 - round_sequence s1 - 1)) = Some (Awaited p))
    by (rewrite Hsq, Hrs; replace (sequence s + 1 - round_sequence s - 1) with (sequence s - round_sequence s) by lia; assumption).
  assert (Hgen : forall sends clk last, exists s' ev e, tcp_reissue_loop c s1 p sends clk last = Ok (s', ev, e) /\ Inv c s' /\ same_book s s' /\ sends_shape c s s' ev).
  { intros sends clk last.
    destruct (tcp_loop_ok c HA Hp sends s1 p clk last HI1 ltac:(destruct HI; lia) ltac:(destruct HI; lia) Hn2 ltac:(lia) ltac:(lia))
      as (s' & ev & e & Hl & HI2 & Hsb2 & Ht2 & Hne & Hs2 & Hmap & Hall).
    exists s', ev, e. split; [assumption|]. split; [assumption|]. split; [eapply same_book_trans; eassumption|].
    assert (Hlen : length (ev_probes ev) = length ev).
    { clear -Hl. revert s1 p clk last s' ev e Hl. induction sends as [|o rest IH]; intros s1 p clk last s' ev e Hl.
      - cbn in Hl. inversion Hl; subst. reflexivity.
      - cbn [tcp_reissue_loop] in Hl. destruct (do_send s1 o) as [r|?|?]; cbn [bind] in Hl; try discriminate.
        destruct r as [sa|sa|ee].
        + inversion Hl; subst. reflexivity.
        + destruct (round_has_capacity sa) as [cap|?|?]; cbn [bind] in Hl; try discriminate.
          destruct cap.
          * destruct (reissue_probe c sa (hd_clock clk last)) as [[p' s'']|?|?]; cbn [bind] in Hl; try discriminate.
            destruct (tcp_reissue_loop c s'' p' rest (tl clk) (hd_clock clk last)) as [[[s3 ev3] e3]|?|?] eqn:Hr; cbn [bind] in Hl; try discriminate.
            inversion Hl; subst. cbn [ev_probes length]. f_equal. eapply IH. eassumption.
          * inversion Hl; subst. reflexivity.
        + inversion Hl; subst. reflexivity. }
    unfold sends_shape. rewrite Hp.
    assert (Hpe : ev_probes ev <> []).
    { destruct ev as [|[p0 o0|r0] ev0]; [congruence|cbn; discriminate|]. cbn in Hlen. pose proof (ev_probes_le ev0). lia. }
    repeat split; try assumption; try lia; try congruence.
    - rewrite Hmap. f_equal. lia.
    - eapply Forall_impl; [|exact Hall]. cbn. intros q [? ?]. split; lia. }
  destruct (i_sends i) as [|o rest] eqn:Es.
  - exists s1, [ESend p Sent], None. split; [reflexivity|]. split; [assumption|]. split; [assumption|]. right.
    unfold sends_shape. cbn [ev_probes length map zrange]. rewrite Hp.
    repeat split; try assumption; try discriminate; try lia; try congruence.
    all: try (rewrite Hps; reflexivity).
    all: try (constructor; [split; assumption|constructor]).
  - destruct (Hgen (o :: rest) (tl (i_clock i)) sent) as (s' & ev & e & Hl & HI2 & Hsb2 & Hsh).
    exists s', ev, e. split; [exact Hl|]. split; [assumption|]. split; [assumption|]. right; assumption.
Qed.

(* ---- recv_response ---- *)
Definition accepted (c : scfg) (s : tstate) (r : response) (sr : sresp) (p : probe) : Prop :=
  validate c (resp_data_of r) = true /\ strategy_resp c r = Ok sr /\
  check_trace_id c (sr_trace_id sr) = true /\
  round_sequence s <= sr_sequence sr < sequence s /\
  nth_error (buffer s) (Z.to_nat (sr_sequence sr - round_sequence s)) = Some (Awaited p).

Lemma recv_response_ok c s i : Accept c -> Inv c s ->
  exists s' e, recv_response c s i = Ok (s', e) /\ Inv c s' /\
    sequence s' = sequence s /\ round_sequence s' = round_sequence s /\ ttl s' = ttl s /\
    round s' = round s /\ round_start s' = round_start s /\
    (e = match i_recv i with FatalR x => Some x | _ => None end) /\
    (s' = s \/
     exists r sr p, i_recv i = Resp r /\ accepted c s r sr p /\
       buffer s' = upd (Z.to_nat (sr_sequence sr - round_sequence s)) (Complete (complete p sr)) (buffer s) /\
       target_found s' = (target_found s || sr_is_target sr) /\
       received_time s' = Some (sr_received sr) /\
       max_received_ttl s' = Some (match max_received_ttl s with None => p_ttl p | Some m => Z.max m (p_ttl p) end)).
Proof.
  intros HA HI. unfold recv_response.
  destruct (i_recv i) as [|r|x].
  - exists s, None. split; [reflexivity|]. split; [assumption|]. repeat split; try reflexivity. left; reflexivity.
  - destruct (validate c (resp_data_of r)) eqn:Ev.
    2:{ exists s, None. split; [reflexivity|]. split; [assumption|]. repeat split; try reflexivity. left; reflexivity. }
    destruct (strategy_resp_ok c r) as [sr Hsr]. rewrite Hsr. cbn [bind].
    destruct (check_trace_id c (sr_trace_id sr)) eqn:Et; cbn [andb].
    2:{ exists s, None. split; [reflexivity|]. split; [assumption|]. repeat split; try reflexivity. left; reflexivity. }
    destruct (in_round s (sr_sequence sr)) eqn:Ei.
    2:{ exists s, None. split; [reflexivity|]. split; [assumption|]. repeat split; try reflexivity. left; reflexivity. }
    destruct (complete_probe_spec c s sr HA HI Ei) as (s' & Hc & HI' & H1 & H2 & H3 & H4 & H5 & Hd).
    rewrite Hc. cbn [bind]. exists s', None. split; [reflexivity|]. split; [assumption|].
    repeat (split; [assumption|]). split; [reflexivity|].
    destruct Hd as [->|(p & Hlt & Hn & Hb & Htf & Hrt & Hmr)]; [left; reflexivity|].
    right. exists r, sr, p. split; [reflexivity|]. split.
    { unfold accepted. repeat split; try assumption. unfold in_round in Ei. lia. }
    repeat split; assumption.
  - exists s, (Some x). split; [reflexivity|]. split; [assumption|]. repeat split; try reflexivity. left; reflexivity.
Qed.

(* ---- update_round ---- *)
Lemma publish_trace_ok c s : Accept c -> Inv c s ->
  exists r, publish_trace s = Ok r /\
    rr_probes r = firstn (Z.to_nat (sequence s - round_sequence s)) (buffer s) /\
    rr_reason r = (if target_found s then TargetFound else RoundTimeLimitExceeded) /\
    (rr_largest_ttl r = 0 \/ first_ttl c <= rr_largest_ttl r <= 254) /\
    rr_largest_ttl r =
      match target_ttl s with
      | Some t => t
      | None => match max_received_ttl s with None => 0 | Some m => Z.min (ttl s - 1) (m + 1) end
      end.
Proof.
  intros HA HI. pose proof (accept_facts c HA) as F. destruct HI.
  unfold publish_trace.
  assert (Hp : probes s = Ok (firstn (Z.to_nat (sequence s - round_sequence s)) (buffer s))).
  { unfold probes, sub16, sub_w. destruct (round_sequence s <=? sequence s) eqn:E; [|lia]. cbn [bind].
    unfold slice. cbn [Nat.leb]. rewrite inv_len0.
    destruct (Z.to_nat (sequence s - round_sequence s) <=? 512)%nat eqn:E2.
    - cbn [andb]. rewrite Nat.sub_0_r. reflexivity.
    - apply Nat.leb_gt in E2. lia. }
  destruct (target_ttl s) as [t|] eqn:Et; cbn [bind].
  - rewrite Hp. cbn [bind]. eexists. split; [reflexivity|]. cbn. repeat split; try reflexivity.
    right. apply inv_tt0. reflexivity.
  - destruct (max_received_ttl s) as [m|] eqn:Em; cbn [bind].
    + specialize (inv_mr0 m eq_refl). unfold sub_w, add8, add_w.
      destruct (1 <=? ttl s) eqn:E1; [|lia]. cbn [bind].
      destruct (m + 1 <? 256) eqn:E2; [|lia]. cbn [bind]. rewrite Hp. cbn [bind].
      eexists. split; [reflexivity|]. cbn. repeat split; try reflexivity. right. lia.
    + rewrite Hp. cbn [bind]. eexists. split; [reflexivity|]. cbn. repeat split; try reflexivity. left; reflexivity.
Qed.

Lemma update_round_ok c s i : Accept c -> Inv c s ->
  exists s' ev, update_round c s i = Ok (s', ev) /\ Inv c s' /\
    ((should_publish c s (i_update i) = false /\ s' = s /\ ev = []) \/
     (should_publish c s (i_update i) = true /\
      exists r, publish_trace s = Ok r /\ ev = [EPublish r] /\
        advance_round c s (first_ttl c) (i_advance i) = Ok s' /\
        round s' = round s + 1 /\ round_start s' = i_advance i)).
Proof.
  intros HA HI. unfold update_round. destruct (should_publish c s (i_update i)) eqn:Es.
  - destruct (publish_trace_ok c s HA HI) as (r & Hr & _). rewrite Hr. cbn [bind].
    destruct (advance_round_spec c s (i_advance i) HA HI) as (s' & Ha & HI' & Hrd & Hst & _).
    rewrite Ha. cbn [bind]. exists s', [EPublish r]. split; [reflexivity|]. split; [assumption|].
    right. split; [reflexivity|]. exists r. repeat split; try reflexivity; assumption.
  - exists s, []. split; [reflexivity|]. split; [assumption|]. left. repeat split; reflexivity.
Qed.

(* ---- one iteration: never a fault, invariant preserved ---- *)
Theorem step_ok c s i : Accept c -> Inv c s ->
  exists s' ev e, step c s i = Ok (s', ev, e) /\ Inv c s'.
Proof.
  intros HA HI. unfold step.
  destruct (send_request_ok c s i HA HI) as (s1 & ev1 & e1 & H1 & HI1 & _). rewrite H1. cbn [bind].
  destruct e1 as [e|]; [eexists _, _, _; split; [reflexivity|assumption]|].
  destruct (recv_response_ok c s1 i HA HI1) as (s2 & e2 & H2 & HI2 & _). rewrite H2. cbn [bind].
  destruct e2 as [e|]; [eexists _, _, _; split; [reflexivity|assumption]|].
  destruct (update_round_ok c s2 i HA HI2) as (s3 & ev3 & H3 & HI3 & _). rewrite H3. cbn [bind].
  eexists _, _, _; split; [reflexivity|assumption].
Qed.

(* ---- the whole run ---- *)
Theorem run_from_inv c : Accept c -> forall is s, Inv c s ->
  let '(ev, o, sf) := run_from c s is in Inv c sf /\ (forall f, o <> Faulted f).
Proof.
  intros HA. induction is as [|i rest IH]; intros s HI; cbn [run_from].
  - destruct (finished s (max_rounds c)); split; try assumption; intros f; discriminate.
  - destruct (finished s (max_rounds c)); [split; [assumption|intros f; discriminate]|].
    destruct (step_ok c s i HA HI) as (s' & ev & e & Hs & HI'). rewrite Hs.
    destruct e as [e|]; [split; [assumption|intros f; discriminate]|].
    specialize (IH s' HI'). destruct (run_from c s' rest) as [[evs o] sf]. exact IH.
Qed.
