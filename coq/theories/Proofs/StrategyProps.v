(* Property-level lemmas about the strategy model, derived from StrategyInv. *)
From TV Require Import Base.Result Core.Types Core.TracerState Core.Strategy Core.Builder Proofs.ListLemmas Proofs.StrategyInv.
From Coq Require Import ZifyBool.
Ltac Zify.zify_post_hook ::= Z.div_mod_to_equations.

(* states reachable by the loop *)
Inductive reach (c : scfg) : tstate -> Prop :=
| reach_init t0 : reach c (ts_new c t0)
| reach_step s i s' ev e : reach c s -> finished s (max_rounds c) = false ->
                           step c s i = Ok (s', ev, e) -> reach c s'.

Lemma reach_inv c s : Accept c -> reach c s -> Inv c s.
Proof.
  intros HA H. induction H as [t0|s i s' ev e Hr IH Hf Hs].
  - apply inv_new; assumption.
  - destruct (step_ok c s i HA IH) as (s2 & ev2 & e2 & H2 & HI2). rewrite Hs in H2. inversion H2; subst. assumption.
Qed.

(* ---- decomposition of a step ---- *)
Lemma step_decompose c s i : Accept c -> Inv c s ->
  exists s1 ev1 e1, send_request c s i = Ok (s1, ev1, e1) /\ Inv c s1 /\ same_book s s1 /\
    ((ev1 = [] /\ s1 = s) \/ sends_shape c s s1 ev1) /\
    match e1 with
    | Some e => step c s i = Ok (s1, ev1, Some e)
    | None =>
      exists s2 e2, recv_response c s1 i = Ok (s2, e2) /\ Inv c s2 /\
        match e2 with
        | Some e => step c s i = Ok (s2, ev1, Some e)
        | None => exists s3 ev3, update_round c s2 i = Ok (s3, ev3) /\ Inv c s3 /\
                  step c s i = Ok (s3, ev1 ++ ev3, None)
        end
    end.
Proof.
  intros HA HI. destruct (send_request_ok c s i HA HI) as (s1 & ev1 & e1 & H1 & HI1 & Hsb & Hsh).
  exists s1, ev1, e1. repeat (split; [assumption|]). unfold step. rewrite H1. cbn [bind].
  destruct e1 as [e|]; [reflexivity|].
  destruct (recv_response_ok c s1 i HA HI1) as (s2 & e2 & H2 & HI2 & _).
  exists s2, e2. split; [assumption|]. split; [assumption|]. rewrite H2. cbn [bind].
  destruct e2 as [e|]; [reflexivity|].
  destruct (update_round_ok c s2 i HA HI2) as (s3 & ev3 & H3 & HI3 & _).
  exists s3, ev3. split; [assumption|]. split; [assumption|]. rewrite H3. reflexivity.
Qed.

Lemma ev_probes_app_nopub ev1 ev3 : (forall p o, ~ In (ESend p o) ev3) -> ev_probes (ev1 ++ ev3) = ev_probes ev1.
Proof.
  intros H. induction ev1 as [|[p o|r] ev1 IH]; cbn; try congruence.
  induction ev3 as [|[p o|r] ev3 IH3]; cbn; auto.
  - exfalso. apply (H p o). left; reflexivity.
  - apply IH3. intros p o Hin. apply (H p o). right; assumption.
Qed.

Lemma step_send_part c s i s' ev e : Accept c -> Inv c s -> step c s i = Ok (s', ev, e) ->
  exists s1 ev1 e1, send_request c s i = Ok (s1, ev1, e1) /\ Inv c s1 /\ same_book s s1 /\
    ((ev1 = [] /\ s1 = s) \/ sends_shape c s s1 ev1) /\ ev_probes ev = ev_probes ev1.
Proof.
  intros HA HI Hs.
  destruct (step_decompose c s i HA HI) as (s1 & ev1 & e1 & H1 & HI1 & Hsb & Hsh & Hrest).
  exists s1, ev1, e1. repeat (split; [assumption|]).
  destruct e1 as [e1|].
  - rewrite Hs in Hrest. inversion Hrest; subst. reflexivity.
  - destruct Hrest as (s2 & e2 & H2 & HI2 & Hrest). destruct e2 as [e2|].
    + rewrite Hs in Hrest. inversion Hrest; subst. reflexivity.
    + destruct Hrest as (s3 & ev3 & H3 & HI3 & Hst). rewrite Hs in Hst. inversion Hst; subst.
      apply ev_probes_app_nopub. intros p o Hin.
      unfold update_round in H3. destruct (should_publish c s2 (i_update i)).
      * destruct (publish_trace s2); cbn [bind] in H3; try discriminate.
        destruct (advance_round c s2 (first_ttl c) (i_advance i)); cbn [bind] in H3; try discriminate.
        inversion H3; subst. destruct Hin as [Hin|[]]. discriminate.
      * inversion H3; subst. destruct Hin.
Qed.

(* ======================= C07 ======================= *)
Lemma c07_invariant_lemma c s : Accept c -> reach c s ->
  length (buffer s) = 512%nat /\
  initial_sequence c <= round_sequence s <= sequence s /\
  sequence s - round_sequence s <= 512 /\
  round_sequence s < max_seq c /\ max_seq c <= 65023 /\
  sequence s < 65535.
Proof.
  intros HA HR. pose proof (reach_inv c s HA HR) as HI. pose proof (max_seq_bounds c HA). destruct HI.
  repeat split; try assumption; lia.
Qed.

(* sequences handed to the network in one iteration are consecutive from the state's sequence,
   each written to the buffer slot (sequence - round_sequence) < 512 *)
Lemma c07_consecutive_lemma c s i s' ev e : Accept c -> reach c s -> step c s i = Ok (s', ev, e) ->
  map p_sequence (ev_probes ev) = zrange (sequence s) (length (ev_probes ev)) /\
  Forall (fun q => round_sequence s <= q < round_sequence s + 512 /\ q < 65535) (map p_sequence (ev_probes ev)).
Proof.
  intros HA HR Hs. pose proof (reach_inv c s HA HR) as HI.
  destruct (step_send_part c s i s' ev e HA HI Hs) as (s1 & ev1 & e1 & H1 & HI1 & Hsb & Hsh & Hev).
  rewrite Hev. destruct Hsh as [[-> ->]|Hsh].
  - cbn. split; [reflexivity|constructor].
  - destruct Hsh as (Hne & Hlen & _ & _ & _ & Httl & Hsq & Hmap & _).
    split; [assumption|]. rewrite Hmap.
    pose proof (max_seq_bounds c HA) as M. destruct HI1 as [? ? Hseq1 Hrs1 ? ? ? ? ? ? ?].
    destruct Hsb as (_ & _ & _ & _ & _ & _ & Hrs).
    assert (Hb : sequence s + Z.of_nat (length (ev_probes ev1)) <= round_sequence s + 512) by lia.
    assert (Hlo : round_sequence s <= sequence s) by (destruct HI; lia).
    assert (Hrsb : round_sequence s < max_seq c) by (destruct HI; lia).
    clear -Hb Hlo M Hrsb. revert Hb Hlo. generalize (sequence s) as a. induction (length (ev_probes ev1)) as [|n IH]; intros a Hb Hlo.
    + constructor.
    + cbn [zrange]. constructor; [lia|]. apply IH; lia.
Qed.

(* between rounds the sequence either moves on or restarts at the initial sequence *)
Lemma c07_between_rounds_lemma c s now : Accept c -> reach c s ->
  exists s', advance_round c s (first_ttl c) now = Ok s' /\
    sequence s' = round_sequence s' /\
    (round_sequence s' = sequence s \/ (round_sequence s' = initial_sequence c /\ max_seq c <= sequence s)).
Proof.
  intros HA HR. pose proof (reach_inv c s HA HR) as HI.
  destruct (advance_round_spec c s now HA HI) as (s' & Ha & _ & _ & _ & _ & Hq & _ & _ & _ & _ & _ & Hd).
  exists s'. repeat split; assumption.
Qed.

(* separation: for ICMP and UDP, no sequence of the round just ended can be accepted in the next round *)
Lemma c07_separation_lemma c s now s' s'' : Accept c -> proto c <> Tcp -> Inv c s ->
  advance_round c s (first_ttl c) now = Ok s' ->
  Inv c s'' -> round_sequence s'' = round_sequence s' ->
  forall q, round_sequence s <= q < sequence s -> ~ (round_sequence s'' <= q < sequence s'').
Proof.
  intros HA Hp HI Ha HI2 Hrs q Hq [H1 H2].
  pose proof (accept_facts c HA) as F. pose proof (max_seq_bounds c HA) as M.
  destruct (advance_round_spec c s now HA HI) as (s0 & Ha0 & _ & _ & _ & _ & _ & _ & _ & _ & _ & _ & Hd).
  rewrite Ha in Ha0. inversion Ha0; subst s0. clear Ha0.
  destruct HI as [? ? ? Hrsb Httl Hcnt Hcq ? ? ? ?]. specialize (Hcq Hp).
  destruct HI2 as [? ? ? ? Httl2 ? Hcq2 ? ? ? ?]. specialize (Hcq2 Hp).
  destruct Hd as [Hd|[Hd Hw]]; [lia|].
  unfold max_seq, MAX_SEQUENCE, BUFFER_SIZE in *.
  destruct (multipath c), (is_v6 (target_addr c)); lia.
Qed.

(* Dublin/IPv6: the payload length derived from the sequence fits MAX_UDP_PAYLOAD_BUF (976) *)
Lemma c07_dublin_payload_lemma c s i s' ev e : Accept c -> reach c s -> proto c = Udp ->
  multipath c = Dublin -> is_v6 (target_addr c) = true ->
  step c s i = Ok (s', ev, e) ->
  Forall (fun q => 0 <= q - initial_sequence c /\ q - initial_sequence c + 6 <= 976) (map p_sequence (ev_probes ev)).
Proof.
  intros HA HR Hp Hm Hv Hs. pose proof (reach_inv c s HA HR) as HI.
  destruct (c07_consecutive_lemma c s i s' ev e HA HR Hs) as [Hmap _].
  rewrite Hmap.
  destruct (step_send_part c s i s' ev e HA HI Hs) as (s1 & ev1 & e1 & H1 & HI1 & Hsb & Hsh & Hev).
  assert (Hn : Z.of_nat (length (ev_probes ev)) <= 1).
  {
    rewrite Hev. destruct Hsh as [[-> _]|Hsh]; [cbn; lia|].
    destruct Hsh as (_ & Hlen & _ & _ & _ & _ & _ & _ & _ & Hone). rewrite Hlen, Hone by congruence. lia. }
  pose proof (accept_facts c HA) as F. destruct HI as [? ? ? Hrsb Httl ? Hcq ? ? ? ?]. specialize (Hcq ltac:(congruence)).
  unfold max_seq in Hrsb. rewrite Hm, Hv in Hrsb. unfold BUFFER_SIZE in Hrsb.
  destruct (length (ev_probes ev)) as [|[|n]]; cbn [zrange]; [constructor| |lia].
  constructor; [|constructor]. lia.
Qed.

(* Paris over IPv6: the builder refuses initial_sequence = 0 (fix for F14), so no issued sequence is zero *)
Lemma zrange_lower a n : Forall (fun q => a <= q) (zrange a n).
Proof.
  revert a; induction n as [|n IH]; intros a; cbn [zrange]; constructor; [lia|].
  eapply Forall_impl; [|apply IH]. cbn. intros; lia.
Qed.
Lemma accept_paris6_nonzero c : Accept c -> proto c = Udp -> multipath c = Paris -> is_v6 (target_addr c) = true ->
  1 <= initial_sequence c.
Proof.
  intros [Hb Hw] Hp Hm Hv. unfold builder_accepts in Hb. apply andb_true_iff in Hb. destruct Hb as [_ Hz].
  unfold paris6_zero in Hz. rewrite Hp, Hm, Hv in Hz. cbn [andb negb] in Hz.
  destruct Hw as (_ & _ & _ & _ & Hu & _). unfold u16 in Hu.
  destruct (initial_sequence c =? 0) eqn:E; [discriminate|]. apply Z.eqb_neq in E. lia.
Qed.
Lemma paris6_sequence_nonzero_lemma c s i s' ev e : Accept c -> reach c s -> proto c = Udp -> multipath c = Paris ->
  is_v6 (target_addr c) = true -> step c s i = Ok (s', ev, e) ->
  Forall (fun q => 1 <= q) (map p_sequence (ev_probes ev)).
Proof.
  intros HA HR Hp Hm Hv Hs.
  destruct (c07_consecutive_lemma c s i s' ev e HA HR Hs) as [Hmap _]. rewrite Hmap.
  pose proof (accept_paris6_nonzero c HA Hp Hm Hv) as H1.
  destruct (c07_invariant_lemma c s HA HR) as (_ & Hlo & _).
  eapply Forall_impl; [|apply zrange_lower]. cbn. intros; lia.
Qed.

Ltac crunch H :=
  unfold bind in H;
  repeat match type of H with
         | context [match ?x with _ => _ end] => destruct x eqn:?; cbn [negb] in H; try discriminate
         end.

Lemma tcp_loop_nonempty c sends : forall s p clk last s' ev e,
  tcp_reissue_loop c s p sends clk last = Ok (s', ev, e) -> ev <> [].
Proof.
  destruct sends as [|o rest]; intros s p clk last s' ev e H; cbn [tcp_reissue_loop] in H.
  - inversion H; discriminate.
  - crunch H; inversion H; discriminate.
Qed.

Lemma send_request_nonempty c s i s1 ev1 e1 : can_send c s = Ok true ->
  (proto c = Tcp -> round_has_capacity s = Ok true) ->
  send_request c s i = Ok (s1, ev1, e1) -> ev1 <> [].
Proof.
  intros Hcs Hcap H. unfold send_request in H. rewrite Hcs in H. cbn [bind negb] in H.
  destruct (proto c) eqn:Hp.
  - crunch H; inversion H; discriminate.
  - crunch H; inversion H; discriminate.
  - rewrite (Hcap eq_refl) in H. cbn [bind negb] in H.
    destruct (next_probe c s _) as [[p s0]|?|?]; cbn [bind] in H; try discriminate.
    destruct (i_sends i) as [|o rest]; [inversion H; discriminate|].
    eapply tcp_loop_nonempty. eassumption.
Qed.

(* ======================= C06 ======================= *)
(* Whenever an iteration hands probes to the network: the target has not answered in this round,
   the TTL is the state's next TTL (<= max_ttl), it respects the target distance or the in-flight window,
   every re-issue keeps that TTL, and the next TTL is exactly one higher (no gap, no repeat). *)
Lemma c06_send_discipline_lemma c s i s' ev e : Accept c -> reach c s -> step c s i = Ok (s', ev, e) ->
  ev_probes ev <> [] ->
  target_found s = false /\ first_ttl c <= ttl s <= max_ttl c /\
  match target_ttl s with
  | Some t => ttl s <= t
  | None => ttl s - inflight_base c s <= max_inflight c
  end /\
  Forall (fun q => p_ttl q = ttl s /\ p_round q = round s) (ev_probes ev) /\
  (proto c <> Tcp -> length (ev_probes ev) = 1%nat).
Proof.
  intros HA HR Hs Hne. pose proof (reach_inv c s HA HR) as HI.
  destruct (step_send_part c s i s' ev e HA HI Hs) as (s1 & ev1 & e1 & H1 & HI1 & Hsb & Hsh & Hev).
  rewrite Hev in *. destruct Hsh as [[-> _]|Hsh]; [cbn in Hne; congruence|].
  destruct Hsh as (_ & Hlen & Htf & Hmax & Htt & _ & _ & _ & Hall & Hone).
  destruct HI. repeat split; try assumption; try lia.
  all: try (intros Hp; rewrite Hlen; apply Hone; assumption).
Qed.

(* the next TTL moves only by +1 together with a send, or is reset to first_ttl when a round is published *)
Lemma c06_ttl_evolution_lemma c s i s' ev : Accept c -> reach c s -> step c s i = Ok (s', ev, None) ->
  (exists r, In (EPublish r) ev /\ ttl s' = first_ttl c /\ round s' = round s + 1) \/
  ((forall r, ~ In (EPublish r) ev) /\ round s' = round s /\
   ((ev_probes ev = [] /\ ttl s' = ttl s) \/ (ev_probes ev <> [] /\ ttl s' = ttl s + 1))).
Proof.
  intros HA HR Hs. pose proof (reach_inv c s HA HR) as HI.
  destruct (step_decompose c s i HA HI) as (s1 & ev1 & e1 & H1 & HI1 & Hsb & Hsh & Hrest).
  destruct e1 as [e1|]; [rewrite Hs in Hrest; discriminate|].
  destruct Hrest as (s2 & e2 & H2 & HI2 & Hrest).
  destruct e2 as [e2|]; [rewrite Hs in Hrest; discriminate|].
  destruct Hrest as (s3 & ev3 & H3 & HI3 & Hst). rewrite Hs in Hst. inversion Hst; subst s3 ev. clear Hst.
  destruct (recv_response_ok c s1 i HA HI1) as (s2' & e2' & H2' & _ & Hq2 & Hrs2 & Ht2 & Hrd2 & _).
  rewrite H2 in H2'. inversion H2'; subst s2' e2'. clear H2'.
  destruct Hsb as (Hrd1 & _).
  assert (Hsend : (ev_probes ev1 = [] /\ ttl s1 = ttl s) \/ (ev_probes ev1 <> [] /\ ttl s1 = ttl s + 1)).
  { destruct Hsh as [[-> ->]|Hsh]; [left; split; reflexivity|]. right. destruct Hsh as (Hne & _ & _ & _ & _ & Ht & _). split; assumption. }
  destruct (update_round_ok c s2 i HA HI2) as (s3' & ev3' & H3' & _ & Hcase). rewrite H3 in H3'. inversion H3'; subst s3' ev3'. clear H3'.
  destruct Hcase as [(Hnp & -> & ->)|(Hp & r & Hr & -> & Ha & Hrd & Hst)].
  - right. rewrite app_nil_r. split.
    { intros r Hin. destruct Hsh as [[-> _]|Hsh]; [destruct Hin|].
      destruct Hsh as (_ & Hlen & _). clear -Hlen Hin.
      induction ev1 as [|[p o|r'] ev1 IH]; cbn in *; [destruct Hin| |].
      - destruct Hin as [Hin|Hin]; [discriminate|]. apply IH; [lia|assumption].
      - pose proof (ev_probes_le ev1). lia. }
    split; [congruence|]. rewrite Ht2. exact Hsend.
  - left. exists r. split; [apply in_or_app; right; left; reflexivity|].
    destruct (advance_round_spec c s2 (i_advance i) HA HI2) as (sx & Hax & _ & Hrdx & _ & Htx & _).
    rewrite Ha in Hax. inversion Hax; subst sx. split; [assumption|]. lia.
Qed.

(* liveness: at the start of every round the first_ttl probe can be sent *)
Lemma c06_liveness_lemma c s i : Accept c -> Inv c s -> first_ttl c <= max_ttl c -> 1 <= max_inflight c ->
  ttl s = first_ttl c -> target_found s = false -> max_received_ttl s = None -> sequence s = round_sequence s ->
  exists s1 ev1 e1 p o, send_request c s i = Ok (s1, ev1, e1) /\ ev1 = ESend p o :: tl ev1 /\ p_ttl p = first_ttl c.
Proof.
  intros HA HI Hfm Hmi Ht Htf Hmr Hsq. pose proof (accept_facts c HA) as F.
  destruct (send_request_ok c s i HA HI) as (s1 & ev1 & e1 & H1 & HI1 & Hsb & Hsh).
  assert (Hcs : can_send c s = Ok true).
  { unfold can_send. destruct (target_ttl s) as [t|] eqn:Et; cbn [bind].
    - pose proof (inv_tt c s HI t Et) as Htt'. rewrite Htf. cbn.
      replace (ttl s <=? max_ttl c) with true by lia. replace (ttl s <=? t) with true by lia. reflexivity.
    - unfold sub_w, inflight_base. rewrite Hmr.
      destruct (Z.max 0 (first_ttl c - 1) <=? ttl s) eqn:E; [|lia]. cbn [bind]. rewrite Htf. cbn.
      replace (ttl s <=? max_ttl c) with true by lia.
      replace (ttl s - Z.max 0 (first_ttl c - 1) <=? max_inflight c) with true by lia. reflexivity. }
  destruct Hsh as [[-> ->]|Hsh].
  - exfalso. eapply (send_request_nonempty c s i s [] e1); try eassumption; [|reflexivity].
    intros _. unfold round_has_capacity, sub16, sub_w, BUFFER_SIZE. rewrite Hsq, Z.leb_refl, Z.sub_diag. reflexivity.
  - destruct Hsh as (Hne & Hlen & _ & _ & _ & _ & _ & _ & Hall & _).
    destruct ev1 as [|[p o|r] ev1]; [cbn in Hne; congruence| |].
    + exists s1, (ESend p o :: ev1), e1, p, o. split; [assumption|]. split; [reflexivity|].
      cbn [ev_probes] in Hall. inversion Hall as [|? ? [Hp _] _]; subst. lia.
    + cbn in Hlen. pose proof (ev_probes_le ev1). lia.
Qed.

(* ======================= C08 ======================= *)
Definition policy (c : scfg) (s : tstate) (now : Z) : Prop :=
  let dur := Z.max 0 (now - round_start s) in
  max_round_duration c < dur \/
  (min_round_duration c < dur /\ target_found s = true /\
   exists t, received_time s = Some t /\ grace_duration c < Z.max 0 (now - t)).

Lemma should_publish_iff c s now : should_publish c s now = true <-> policy c s now.
Proof.
  unfold should_publish, policy, exceeds, dur_since. split.
  - intros H. destruct (received_time s) as [t|].
    + destruct (target_found s); [|left; lia].
      destruct (max_round_duration c <? Z.max 0 (now - round_start s)) eqn:E; [left; lia|].
      right. repeat split; try lia. exists t. split; [reflexivity|lia].
    + left. destruct (target_found s); lia.
  - intros [H|(H1 & H2 & t & H3 & H4)].
    + apply orb_true_iff. right. lia.
    + rewrite H2, H3. apply orb_true_iff. left. lia.
Qed.

Lemma c08_publish_iff_lemma c s i : Accept c -> Inv c s ->
  exists s' ev, update_round c s i = Ok (s', ev) /\
    ((exists r, ev = [EPublish r] /\ policy c s (i_update i) /\
        rr_reason r = (if target_found s then TargetFound else RoundTimeLimitExceeded) /\
        round_start s' = i_advance i /\ round s' = round s + 1)
     \/ (ev = [] /\ s' = s /\ ~ policy c s (i_update i))).
Proof.
  intros HA HI. destruct (update_round_ok c s i HA HI) as (s' & ev & Hu & _ & Hcase).
  exists s', ev. split; [assumption|].
  destruct Hcase as [(Hnp & -> & ->)|(Hp & r & Hr & -> & Ha & Hrd & Hst)].
  - right. repeat split; try reflexivity. intros Hpol. apply should_publish_iff in Hpol. congruence.
  - left. exists r. split; [reflexivity|]. split; [apply should_publish_iff; assumption|].
    destruct (publish_trace_ok c s HA HI) as (r' & Hr' & _ & Hreason & _). rewrite Hr in Hr'. inversion Hr'; subst r'.
    repeat split; assumption.
Qed.

Lemma c08_bounded_lemma c s now : max_round_duration c < now - round_start s -> should_publish c s now = true.
Proof. intros H. apply should_publish_iff. left. lia. Qed.

(* ======================= C03 ======================= *)
(* A delivery changes the state only if it is accepted: it passes validate, carries this tracer's
   trace id (or 0), names a sequence issued in the round in progress, and that probe is still Awaited.
   In every other case the whole tracer state is unchanged. *)
Lemma c03_only_genuine_lemma c s i s' e : Accept c -> Inv c s -> recv_response c s i = Ok (s', e) ->
  s' = s \/
  exists r sr p, i_recv i = Resp r /\ accepted c s r sr p /\
    buffer s' = upd (Z.to_nat (sr_sequence sr - round_sequence s)) (Complete (complete p sr)) (buffer s) /\
    sequence s' = sequence s /\ round_sequence s' = round_sequence s /\ ttl s' = ttl s /\ round s' = round s /\
    round_start s' = round_start s.
Proof.
  intros HA HI Hr. destruct (recv_response_ok c s i HA HI) as (s2 & e2 & H2 & _ & Hq & Hrs & Ht & Hrd & Hst & _ & Hd).
  rewrite Hr in H2. inversion H2; subst s2 e2.
  destruct Hd as [->|(r & sr & p & Hi & Hacc & Hb & _)]; [left; reflexivity|].
  right. exists r, sr, p. split; [assumption|]. split; [assumption|]. repeat split; assumption.
Qed.

(* foreign trace identifiers are rejected *)
Lemma c03_foreign_trace_id_lemma c tid : tid <> 0 -> tid <> trace_identifier c -> check_trace_id c tid = false.
Proof. intros. unfold check_trace_id. lia. Qed.

(* a duplicate (the slot is already Complete) leaves everything unchanged *)
Lemma c03_duplicate_lemma c s sr cc : Inv c s -> round_sequence s <= sr_sequence sr < sequence s ->
  nth_error (buffer s) (Z.to_nat (sr_sequence sr - round_sequence s)) = Some (Complete cc) ->
  complete_probe s sr = Ok s.
Proof.
  intros HI Hq Hn. unfold complete_probe.
  destruct (sequence s <=? sr_sequence sr) eqn:E; [reflexivity|].
  unfold probe_at, sub16, sub_w. destruct (round_sequence s <=? sr_sequence sr) eqn:E1; [|lia]. cbn [bind].
  unfold buf_get. destruct (0 <=? sr_sequence sr - round_sequence s) eqn:E2; [|lia]. rewrite Hn. reflexivity.
Qed.

(* a sequence that has not been issued in this round is never accepted *)
Lemma c03_never_sent_lemma s sr : sequence s <= sr_sequence sr -> complete_probe s sr = Ok s.
Proof. intros H. unfold complete_probe. destruct (sequence s <=? sr_sequence sr) eqn:E; [reflexivity|lia]. Qed.

(* ======================= C09 ======================= *)
Fixpoint pubs (ev : list event) : list round_rec :=
  match ev with
  | EPublish r :: t => r :: pubs t
  | _ :: t => pubs t
  | [] => []
  end.

Lemma pubs_app a b : pubs (a ++ b) = pubs a ++ pubs b.
Proof. induction a as [|[p o|r] a IH]; cbn; congruence. Qed.

Lemma pubs_sends_nil ev : length (ev_probes ev) = length ev -> pubs ev = [].
Proof.
  induction ev as [|[p o|r] ev IH]; cbn; intros H; auto.
  pose proof (ev_probes_le ev). lia.
Qed.

Definition round_probes_ok (k : Z) (r : round_rec) : Prop :=
  Forall (fun st => st <> NotSent /\ forall p, probe_of st = Some p -> p_round p = k) (rr_probes r).

(* what one iteration publishes, and how the round counter moves *)
Lemma step_publish_lemma c s i s' ev e : Accept c -> Inv c s -> step c s i = Ok (s', ev, e) ->
  (pubs ev = [] /\ round s' = round s) \/
  (exists r, pubs ev = [r] /\ round s' = round s + 1 /\ e = None /\ round_probes_ok (round s) r /\
     (rr_largest_ttl r = 0 \/ first_ttl c <= rr_largest_ttl r <= 254)).
Proof.
  intros HA HI Hs.
  destruct (step_decompose c s i HA HI) as (s1 & ev1 & e1 & H1 & HI1 & Hsb & Hsh & Hrest).
  assert (Hp1 : pubs ev1 = []).
  { destruct Hsh as [[-> _]|Hsh]; [reflexivity|]. destruct Hsh as (_ & Hlen & _). apply pubs_sends_nil; assumption. }
  destruct Hsb as (Hrd1 & _).
  destruct e1 as [e1|].
  { rewrite Hs in Hrest. inversion Hrest; subst. left. split; assumption. }
  destruct Hrest as (s2 & e2 & H2 & HI2 & Hrest).
  destruct (recv_response_ok c s1 i HA HI1) as (s2' & e2' & H2' & _ & _ & _ & _ & Hrd2 & _).
  rewrite H2 in H2'. inversion H2'; subst s2' e2'. clear H2'.
  destruct e2 as [e2|].
  { rewrite Hs in Hrest. inversion Hrest; subst. left. split; [assumption|congruence]. }
  destruct Hrest as (s3 & ev3 & H3 & HI3 & Hst). rewrite Hs in Hst. inversion Hst; subst s3 ev e. clear Hst.
  destruct (update_round_ok c s2 i HA HI2) as (s3' & ev3' & H3' & _ & Hcase). rewrite H3 in H3'. inversion H3'; subst s3' ev3'. clear H3'.
  rewrite pubs_app, Hp1. cbn [app].
  destruct Hcase as [(Hnp & -> & ->)|(Hp & r & Hr & -> & Ha & Hrd & Hst)].
  - left. split; [reflexivity|congruence].
  - right. exists r. split; [reflexivity|]. split; [lia|]. split; [reflexivity|].
    destruct (publish_trace_ok c s2 HA HI2) as (r' & Hr' & Hprobes & _ & Hl & _). rewrite Hr in Hr'. inversion Hr'; subst r'.
    split; [|assumption].
    unfold round_probes_ok. rewrite Hprobes. apply Forall_forall. intros st Hin.
    apply In_nth_error in Hin. destruct Hin as [j Hj].
    assert (Hjlt : (j < Z.to_nat (sequence s2 - round_sequence s2))%nat).
    { assert (Hx : nth_error (firstn (Z.to_nat (sequence s2 - round_sequence s2)) (buffer s2)) j <> None) by congruence.
      apply nth_error_Some in Hx. rewrite firstn_length in Hx. lia. }
    rewrite nth_error_firstn in Hj by assumption.
    pose proof (inv_slots c s2 HI2 j st Hj ltac:(lia)) as [Hns Hsl].
    split; [assumption|]. intros p Hp'. specialize (Hsl p Hp'). lia.
Qed.

(* the whole run: round numbering, count, and failure semantics *)
Lemma run_rounds_lemma c : Accept c -> forall is s, Inv c s ->
  let '(ev, o, sf) := run_from c s is in
  round sf = round s + Z.of_nat (length (pubs ev)) /\
  (forall j r, nth_error (pubs ev) j = Some r -> round_probes_ok (round s + Z.of_nat j) r) /\
  (forall n, max_rounds c = Some n -> round s <= n -> round sf <= n /\ (o = Finished -> round sf = n)) /\
  (max_rounds c = None -> o <> Finished).
Proof.
  intros HA. induction is as [|i rest IH]; intros s HI; cbn [run_from].
  - destruct (finished s (max_rounds c)) eqn:Ef; cbn [pubs length]; rewrite Z.add_0_r.
    + split; [reflexivity|]. split; [intros [|j] r H; discriminate|].
      split. { intros n Hn Hle. unfold finished in Ef. rewrite Hn in Ef. split; [lia|intros _; lia]. }
      intros Hn. unfold finished in Ef. rewrite Hn in Ef. discriminate.
    + split; [reflexivity|]. split; [intros [|j] r H; discriminate|].
      split; [intros n Hn Hle; split; [lia|discriminate]|discriminate].
  - destruct (finished s (max_rounds c)) eqn:Ef.
    + cbn [pubs length]. rewrite Z.add_0_r. split; [reflexivity|]. split; [intros [|j] r H; discriminate|].
      split. { intros n Hn Hle. unfold finished in Ef. rewrite Hn in Ef. split; [lia|intros _; lia]. }
      intros Hn. unfold finished in Ef. rewrite Hn in Ef. discriminate.
    + destruct (step_ok c s i HA HI) as (s' & ev & e & Hs & HI'). rewrite Hs.
      pose proof (step_publish_lemma c s i s' ev e HA HI Hs) as Hpub.
      destruct e as [e|].
      * destruct Hpub as [[Hp Hr]|(r & _ & _ & Hne & _)]; [|discriminate].
        rewrite Hp. cbn [length]. rewrite Z.add_0_r. split; [assumption|]. split; [intros [|j] r H; discriminate|].
        split; [intros n Hn Hle; split; [lia|discriminate]|discriminate].
      * specialize (IH s' HI'). destruct (run_from c s' rest) as [[evs o] sf].
        destruct IH as (IH1 & IH2 & IH3 & IH4). rewrite pubs_app, app_length.
        destruct Hpub as [[Hp Hr]|(r & Hp & Hr & _ & Hok & _)]; rewrite Hp; cbn [length app].
        -- split; [lia|]. split. { intros j r Hj. rewrite <- Hr. apply IH2. assumption. }
           split; [|assumption]. intros n Hn Hle. apply IH3; [assumption|lia].
        -- split; [lia|]. split.
           { intros [|j] r0 Hj; cbn in Hj.
             - inversion Hj; subst r0. rewrite Z.add_0_r. assumption.
             - replace (round s + Z.of_nat (S j)) with (round s' + Z.of_nat j) by lia. apply IH2. assumption. }
           split; [|assumption]. intros n Hn Hle. unfold finished in Ef. rewrite Hn in Ef. apply IH3; [assumption|lia].
Qed.

(* a fatal receive error ends the iteration with that error *)
Lemma c09_fatal_recv_lemma c s i x : Accept c -> Inv c s -> i_recv i = FatalR x ->
  exists s' ev e, step c s i = Ok (s', ev, Some e) /\ pubs ev = [] /\
    ((exists s1 ev1, send_request c s i = Ok (s1, ev1, None) /\ e = x) \/
     (exists s1 ev1, send_request c s i = Ok (s1, ev1, Some e))).
Proof.
  intros HA HI Hx.
  destruct (step_decompose c s i HA HI) as (s1 & ev1 & e1 & H1 & HI1 & Hsb & Hsh & Hrest).
  assert (Hp1 : pubs ev1 = []).
  { destruct Hsh as [[-> _]|Hsh]; [reflexivity|]. destruct Hsh as (_ & Hlen & _). apply pubs_sends_nil; assumption. }
  destruct e1 as [e1|].
  - exists s1, ev1, e1. split; [assumption|]. split; [assumption|]. right. exists s1, ev1. assumption.
  - destruct Hrest as (s2 & e2 & H2 & HI2 & Hrest).
    destruct (recv_response_ok c s1 i HA HI1) as (s2' & e2' & H2' & _ & _ & _ & _ & _ & _ & He & _).
    rewrite Hx in He. rewrite H2 in H2'. inversion H2' as [[Ha Hb]]. rewrite <- Hb in He. subst e2.
    exists s2, ev1, x. split; [assumption|]. split; [assumption|]. left. exists s1, ev1. split; [assumption|reflexivity].
Qed.

(* a transient send failure marks exactly the slot just issued as Failed and is not an error *)
Lemma c09_transient_lemma c s p s1 sent : Accept c -> Inv c s ->
  sequence s - round_sequence s < 512 -> ttl s <= 254 ->
  next_probe c s sent = Ok (p, s1) ->
  exists s2, do_send s1 ProbeFailedO = Ok (SDone s2) /\ Inv c s2 /\
    nth_error (buffer s2) (Z.to_nat (sequence s - round_sequence s)) = Some (Failed p) /\
    sequence s2 = sequence s + 1 /\ ttl s2 = ttl s + 1.
Proof.
  intros HA HI Hc Ht Hn.
  destruct (next_probe_inv c s sent p s1 HA HI Hc Ht ltac:(auto) Hn)
    as (HI1 & Hsq & Httl & Hrs & _ & _ & _ & _ & Hnth & _).
  assert (Hn2 : nth_error (buffer s1) (Z.to_nat (sequence s1 - round_sequence s1 - 1)) = Some (Awaited p))
    by (rewrite Hsq, Hrs; replace (sequence s + 1 - round_sequence s - 1) with (sequence s - round_sequence s) by lia; assumption).
  pose proof (inv_seq c s HI) as Hseq.
  destruct (fail_probe_spec c s1 p HI1 ltac:(lia) Hn2) as [Hf HIf].
  cbn [do_send]. rewrite Hf. cbn [bind]. eexists. split; [reflexivity|]. split; [assumption|].
  cbn [with_buffer buffer sequence ttl]. split; [|split; assumption].
  rewrite Hsq, Hrs. replace (sequence s + 1 - round_sequence s - 1) with (sequence s - round_sequence s) by lia.
  apply nth_error_upd_eq. rewrite (inv_len c s1 HI1). lia.
Qed.
