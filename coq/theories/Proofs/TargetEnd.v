(* C10, strategy side over WHOLE RUNS: what path length (largest_ttl) every published round reports, in the
   vocabulary of the observation log of Proofs/RunLog.v alone, and what the hop table built from the published
   rounds of a run looks like.

   * the reported length is exactly [largest_of] of the ghost of the log before the publish: the established target
     distance if there is one, else min(last ttl sent, farthest answered ttl + 1), else 0;
   * the established distance is the fold [dist_fold] of the round's genuine answers over the distance carried in
     from the previous round; when no other host answered at or beyond a ttl the target answered at (and beyond the
     carried distance), it is the SMALLEST ttl the target answered at, or the carried distance if that is smaller;
   * on a stable path of true length D: once the target has answered a ttl-D probe, every later round reports D;
   * a silent network: every round reports 0 and the hop table stays empty;
   * every run publishes rounds of the shape HopWindow.strategy_shaped_table needs (ttls first_ttl, first_ttl+1, ...;
     reported length never beyond the farthest ttl probed so far) - so in the table built from any run every hop
     carries its own ttl, starting at first_ttl, and the target hop is the hop at the latest reported length. *)
From TV Require Import Base.Result Core.Types Core.TracerState Core.Strategy Core.Builder Core.Flows Core.State
  Proofs.ListLemmas Proofs.StrategyInv Proofs.StrategyProps Proofs.RoundHistory Proofs.StateProofs Proofs.PublishWf
  Proofs.FlowsProofs Proofs.FlowAttr Proofs.RunLog Proofs.RunLogProps Proofs.HopWindow.
From Coq Require Import ZifyBool.


(* ====================================================================== 1. the reported length, on the log *)
Definition largest_of (c : scfg) (g : ghost) : Z :=
  match g_dist g with
  | Some d => d
  | None => match farthest (g_A g) with None => 0 | Some m => Z.min (next_ttl c (g_S g) - 1) (m + 1) end
  end.

Definition pub_ok (c : scfg) (g : ghost) (o : obs) : Prop :=
  match o with OPublish r _ _ => rr_largest_ttl r = largest_of c g | _ => True end.

Fixpoint log_pub (c : scfg) (g : ghost) (l : list obs) : Prop :=
  match l with [] => True | o :: t => pub_ok c g o /\ log_pub c (gstep c g o) t end.

Lemma log_pub_app c l1 : forall g l2,
  log_pub c g (l1 ++ l2) <-> log_pub c g l1 /\ log_pub c (fold_left (gstep c) l1 g) l2.
Proof.
  induction l1 as [|o l1 IH]; intros g l2; cbn [app log_pub fold_left]; [tauto|]. rewrite IH. tauto.
Qed.

Lemma log_pub_at c l1 : forall g o l2, log_pub c g (l1 ++ o :: l2) -> pub_ok c (fold_left (gstep c) l1 g) o.
Proof. intros g o l2 H. apply log_pub_app in H. destruct H as [_ H]. cbn [log_pub] in H. tauto. Qed.

Lemma log_pub_sends c ev g : log_pub c g (obs_sends ev).
Proof.
  unfold obs_sends. generalize (sends_of ev). intros l. revert g.
  induction l as [|po l IH]; intros g; cbn [map log_pub pub_ok]; [exact I|]. split; [exact I|apply IH].
Qed.

Lemma log_pub_recv c i g : log_pub c g (obs_recv i).
Proof. unfold obs_recv. destruct (i_recv i); cbn [log_pub pub_ok]; auto. Qed.

Theorem run_obs_pub c : Accept c -> forall is s g, Sim c s g -> log_pub c g (run_obs c s is).
Proof.
  intros HA. induction is as [|i rest IH]; intros s g HS; cbn [run_obs].
  - destruct (finished s (max_rounds c)); exact I.
  - destruct (finished s (max_rounds c)); [exact I|].
    pose proof (sim_inv c s g HS) as HI.
    destruct (send_request_ok c s i HA HI) as (s1 & ev1 & e1 & H1 & HI1 & _). rewrite H1.
    destruct (sim_send c s g i s1 ev1 e1 HA HS H1) as [_ HS1].
    destruct e1 as [e1|]; [apply log_pub_sends|]. specialize (HS1 eq_refl).
    apply log_pub_app. split; [apply log_pub_sends|].
    set (g1 := fold_left (gstep c) (obs_sends ev1) g) in *.
    destruct (recv_response_ok c s1 i HA HI1) as (s2 & e2 & H2 & HI2 & _). rewrite H2.
    destruct e2 as [e2|]; [exact I|].
    pose proof (sim_recv_phase c s1 g1 i s2 HA HS1 H2) as HS2.
    apply log_pub_app. split; [apply log_pub_recv|].
    set (g2 := fold_left (gstep c) (obs_recv i) g1) in *.
    destruct (update_round_ok c s2 i HA HI2) as (s3 & ev3 & H3 & HI3 & Hcase). rewrite H3.
    destruct (sim_update c s2 g2 i s3 ev3 HA HS2 H3) as [(-> & -> & _)|(r & -> & _ & _ & _ & HS3)].
    + cbn [log_pub pub_ok gstep]. split; [exact I|]. apply IH. assumption.
    + cbn [log_pub pub_ok]. split; [|apply IH; assumption].
      destruct Hcase as [(_ & _ & Hx)|(_ & r' & Hr & Hev & _)]; [discriminate|]. inversion Hev; subst r'.
      destruct (publish_trace_ok c s2 HA HI2) as (r'' & Hr'' & _ & _ & _ & Hl). rewrite Hr in Hr''. inversion Hr''; subst r''.
      rewrite Hl. unfold largest_of.
      rewrite (sim_dist c s2 g2 HS2), (sim_far c s2 g2 HS2), (sim_ttl c s2 g2 HS2). reflexivity.
Qed.

Lemma run_log_pub c t0 is : Accept c -> log_pub c (g_init t0) (run_log c t0 is).
Proof. intros HA. apply run_obs_pub; [assumption|apply sim_new; assumption]. Qed.

(* every round of every run reports exactly [largest_of] of the log that precedes its publication *)
Theorem run_publish_largest c t0 is l1 r now adv l2 : Accept c ->
  run_log c t0 is = l1 ++ OPublish r now adv :: l2 -> rr_largest_ttl r = largest_of c (ghost_after c t0 l1).
Proof.
  intros HA E. pose proof (run_log_pub c t0 is HA) as H. rewrite E in H.
  exact (log_pub_at c l1 _ _ l2 H).
Qed.

(* ====================================================================== 2. the established distance of a round *)
Definition dist_fold (d0 : option Z) (A : list (probe * sresp)) : option Z :=
  fold_left (fun d a => dist_update d (p_ttl (fst a)) (sr_is_target (snd a))) A d0.

Lemma round_dist_fold c l : forall g, no_publish l ->
  exists A', g_A (fold_left (gstep c) l g) = g_A g ++ A' /\
             g_dist (fold_left (gstep c) l g) = dist_fold (g_dist g) A'.
Proof.
  induction l as [|o l IH]; intros g Hnp; cbn [fold_left].
  - exists []. rewrite app_nil_r. split; reflexivity.
  - assert (Hnp' : no_publish l) by (intros r n a Hin; apply (Hnp r n a); right; assumption).
    destruct o as [p x|r|now|r now adv].
    + destruct (IH (gstep c g (OSend p x)) Hnp') as (A' & E1 & E2). exists A'. split; assumption.
    + cbn [gstep]. destruct (genuine c (g_S g) (g_A g) r) as [[p sr]|].
      * match goal with |- context [fold_left (gstep c) l ?g0] => destruct (IH g0 Hnp') as (A' & E1 & E2) end.
        cbn [g_A g_dist] in E1, E2. exists ((p, sr) :: A'). rewrite E1, E2, <- app_assoc. split; reflexivity.
      * apply IH; assumption.
    + apply (IH g Hnp').
    + exfalso. apply (Hnp r now adv). left; reflexivity.
Qed.

(* a round starts with no answers: at the beginning of the log and after every publish *)
Definition round_start_log (l0 : list obs) : Prop := l0 = [] \/ exists l r n a, l0 = l ++ [OPublish r n a].

Lemma round_start_no_answers c t0 l0 : round_start_log l0 -> g_A (ghost_after c t0 l0) = [] /\ g_S (ghost_after c t0 l0) = [].
Proof.
  intros [->|(l & r & n & a & ->)]; [split; reflexivity|].
  rewrite ghost_after_app. cbn [fold_left gstep g_A g_S]. split; reflexivity.
Qed.

(* the reported length of a round, from the distance carried into the round and the round's genuine answers alone *)
Theorem round_largest_from_answers c t0 is l0 seg r now adv l2 : Accept c ->
  run_log c t0 is = l0 ++ seg ++ OPublish r now adv :: l2 -> no_publish seg -> round_start_log l0 ->
  let g := ghost_after c t0 (l0 ++ seg) in
  rr_largest_ttl r =
    match dist_fold (g_dist (ghost_after c t0 l0)) (g_A g) with
    | Some d => d
    | None => match farthest (g_A g) with None => 0 | Some m => Z.min (next_ttl c (g_S g) - 1) (m + 1) end
    end.
Proof.
  intros HA E Hnp Hst g. rewrite app_assoc in E. rewrite (run_publish_largest c t0 is _ r now adv l2 HA E). fold g.
  destruct (round_dist_fold c seg (ghost_after c t0 l0) Hnp) as (A' & E1 & E2).
  destruct (round_start_no_answers c t0 l0 Hst) as [EA _]. rewrite EA in E1. cbn [app] in E1.
  rewrite <- ghost_after_app in E1, E2. fold g in E1, E2.
  unfold largest_of. rewrite E2, E1. reflexivity.
Qed.

(* ---- dist_fold on a round without contradicting answers ---- *)
Definition target_ttls (A : list (probe * sresp)) : list Z :=
  flat_map (fun a => if sr_is_target (snd a) then [p_ttl (fst a)] else []) A.
Definition other_ttls (A : list (probe * sresp)) : list Z :=
  flat_map (fun a => if sr_is_target (snd a) then [] else [p_ttl (fst a)]) A.
(* the smallest of the carried distance and a list of ttls *)
Definition dmin (d0 : option Z) (l : list Z) : option Z :=
  fold_left (fun d t => Some (match d with None => t | Some x => Z.min x t end)) l d0.

Lemma dmin_spec l : forall d0,
  match dmin d0 l with
  | Some m => (In m l \/ d0 = Some m) /\ (forall t, In t l -> m <= t) /\ (forall x, d0 = Some x -> m <= x)
  | None => l = [] /\ d0 = None
  end.
Proof.
  induction l as [|t l IH]; intros d0; cbn [dmin fold_left].
  - destruct d0 as [x|]; [|split; reflexivity]. split; [right; reflexivity|]. split; [intros t []|]. intros y Hy. inversion Hy. lia.
  - fold (dmin (Some (match d0 with None => t | Some x => Z.min x t end)) l).
    specialize (IH (Some (match d0 with None => t | Some x => Z.min x t end))).
    destruct (dmin (Some (match d0 with None => t | Some x => Z.min x t end)) l) as [m|]; [|destruct IH; discriminate].
    destruct IH as (I1 & I2 & I3). specialize (I3 _ eq_refl). split; [|split].
    + destruct I1 as [I1|I1]; [left; right; assumption|]. inversion I1 as [I1'].
      destruct d0 as [x|]; [|left; left; reflexivity].
      destruct (Z.min_spec x t) as [[_ E]|[_ E]]; rewrite E; [right; reflexivity|left; left; reflexivity].
    + intros u [<-|Hu]; [destruct d0; lia|apply I2; assumption].
    + intros x ->. lia.
Qed.

(* when no OTHER host answered a probe at or beyond a ttl the target answered at, nor at or beyond the carried
   distance, the distance after the round is the smallest ttl the target answered at, or the carried distance *)
Theorem dist_fold_stable : forall A d0,
  (forall u, In u (other_ttls A) -> (forall t, In t (target_ttls A) -> u < t) /\ (forall x, d0 = Some x -> u < x)) ->
  dist_fold d0 A = dmin d0 (target_ttls A).
Proof.
  induction A as [|[p sr] A IH]; intros d0 H; [reflexivity|].
  unfold dist_fold, target_ttls. cbn [fold_left flat_map fst snd]. fold (dist_fold (dist_update d0 (p_ttl p) (sr_is_target sr)) A). fold (target_ttls A).
  unfold other_ttls, target_ttls in H. cbn [flat_map fst snd] in H. fold (other_ttls A) in H. fold (target_ttls A) in H.
  destruct (sr_is_target sr) eqn:Et; cbn [app] in *.
  - unfold dmin. cbn [fold_left]. fold (dmin (Some (match d0 with None => p_ttl p | Some x => Z.min x (p_ttl p) end)) (target_ttls A)).
    unfold dist_update. rewrite <- IH.
    + destruct d0; reflexivity.
    + intros u Hu. destruct (H u Hu) as [H1 H2]. split; [intros t Ht; apply H1; right; assumption|].
      intros x Hx. specialize (H1 (p_ttl p) (or_introl eq_refl)).
      destruct d0 as [y|]; inversion Hx; [specialize (H2 y eq_refl); lia|lia].
  - assert (Ed : dist_update d0 (p_ttl p) false = d0).
    { unfold dist_update. destruct d0 as [x|]; [|reflexivity].
      destruct (H (p_ttl p) (or_introl eq_refl)) as [_ H2]. specialize (H2 x eq_refl).
      destruct (x <=? p_ttl p) eqn:E; [lia|reflexivity]. }
    rewrite Ed. apply IH. intros u Hu. apply H. right; assumption.
Qed.

(* ENDS AT THE TARGET, per published round: under the no-contradiction condition, a round in which the target
   answered (or that inherited a distance) reports the smallest ttl the target answered at in that round, or the
   inherited distance if that is smaller *)
Theorem stable_round_ends_at_target c t0 is l0 seg r now adv l2 : Accept c ->
  run_log c t0 is = l0 ++ seg ++ OPublish r now adv :: l2 -> no_publish seg -> round_start_log l0 ->
  let A := g_A (ghost_after c t0 (l0 ++ seg)) in
  let d0 := g_dist (ghost_after c t0 l0) in
  (forall u, In u (other_ttls A) -> (forall t, In t (target_ttls A) -> u < t) /\ (forall x, d0 = Some x -> u < x)) ->
  (target_ttls A <> [] \/ d0 <> None) ->
  (In (rr_largest_ttl r) (target_ttls A) \/ d0 = Some (rr_largest_ttl r)) /\
  (forall t, In t (target_ttls A) -> rr_largest_ttl r <= t) /\ (forall x, d0 = Some x -> rr_largest_ttl r <= x).
Proof.
  intros HA E Hnp Hst A d0 Hstab Hne.
  pose proof (round_largest_from_answers c t0 is l0 seg r now adv l2 HA E Hnp Hst) as HL. cbn zeta in HL.
  fold A in HL. fold d0 in HL. rewrite (dist_fold_stable A d0 Hstab) in HL.
  pose proof (dmin_spec (target_ttls A) d0) as HS.
  destruct (dmin d0 (target_ttls A)) as [m|].
  - rewrite HL. exact HS.
  - destruct HS as [E1 E2]. destruct Hne; contradiction.
Qed.

(* ---- a stable path of true length D ---- *)
Theorem stable_path_true_distance c t0 is D l1 r p sr l2 rr now adv l3 : Accept c ->
  stable c D (g_init t0) (run_log c t0 is) ->
  run_log c t0 is = l1 ++ ORecv r :: l2 ++ OPublish rr now adv :: l3 ->
  genuine c (g_S (ghost_after c t0 l1)) (g_A (ghost_after c t0 l1)) r = Some (p, sr) ->
  sr_is_target sr = true -> p_ttl p = D ->
  rr_largest_ttl rr = D.
Proof.
  intros HA Hst E Hg Ht HD.
  assert (E' : run_log c t0 is = (l1 ++ ORecv r :: l2) ++ OPublish rr now adv :: l3) by (rewrite E, <- app_assoc; reflexivity).
  rewrite (run_publish_largest c t0 is _ rr now adv l3 HA E').
  rewrite E in Hst. apply stable_app in Hst. destruct Hst as [Hs1 Hs2]. fold (ghost_after c t0 l1) in Hs2.
  cbn [stable] in Hs2. destruct Hs2 as [Hr Hs2]. rewrite Hg in Hr.
  apply stable_app in Hs2. destruct Hs2 as [Hs2 _].
  pose proof (stable_dist_lower c D l1 (g_init t0) Hs1 ltac:(intros x Hx; discriminate)) as Hlo. fold (ghost_after c t0 l1) in Hlo.
  assert (Hup : exists x, g_dist (gstep c (ghost_after c t0 l1) (ORecv r)) = Some x /\ D <= x <= D).
  { cbn [gstep]. rewrite Hg. cbn [g_dist]. unfold dist_update. rewrite Ht.
    destruct (g_dist (ghost_after c t0 l1)) as [y|] eqn:Ey.
    - specialize (Hlo y eq_refl). exists (Z.min y (p_ttl p)). split; [reflexivity|lia].
    - exists (p_ttl p). split; [reflexivity|lia]. }
  destruct (stable_dist_upper c D D l2 _ Hs2 Hup) as (x & Ex & Hx).
  unfold largest_of. rewrite ghost_after_app. cbn [fold_left]. rewrite Ex. lia.
Qed.

(* ---- a silent network ---- *)
Lemma log_silent c : forall l g, (forall r, ~ In (ORecv r) l) -> g_A g = [] -> g_dist g = None -> log_pub c g l ->
  Forall (fun r => rr_largest_ttl r = 0) (pubs (events_of l)).
Proof.
  induction l as [|o l IH]; intros g Hn EA Ed Hp; [constructor|].
  cbn [log_pub] in Hp. destruct Hp as [Ho Hp].
  assert (Hn' : forall r, ~ In (ORecv r) l) by (intros r Hin; apply (Hn r); right; assumption).
  destruct o as [p x|r|now|r now adv]; cbn [events_of flat_map app pubs]; fold (events_of l).
  - refine (IH _ Hn' _ _ Hp); cbn [gstep g_A g_dist]; assumption.
  - exfalso. apply (Hn r). left; reflexivity.
  - refine (IH _ Hn' _ _ Hp); cbn [gstep]; assumption.
  - constructor.
    + cbn [pub_ok] in Ho. rewrite Ho. unfold largest_of. rewrite Ed, EA. reflexivity.
    + refine (IH _ Hn' _ _ Hp); cbn [gstep g_A g_dist]; [reflexivity|assumption].
Qed.

Lemma fold_max_zero rs : Forall (fun r => rr_largest_ttl r = 0) rs ->
  fold_left (fun h r => Z.max h (rr_largest_ttl r)) rs 0 = 0.
Proof.
  induction 1 as [|r rs Hr _ IH]; [reflexivity|]. cbn [fold_left]. rewrite Hr. exact IH.
Qed.

(* when nothing ever answers, every round reports length 0 and the hop list is empty after every history *)
Theorem silent_network_empty_table c t0 is ms : Accept c -> (forall r, ~ In (ORecv r) (run_log c t0 is)) ->
  let rs := pubs (fst (fst (run c t0 is))) in
  Forall (fun r => rr_largest_ttl r = 0) rs /\
  exists f, fs_run (flow_state_new ms) rs = Ok f /\ fs_highest_ttl f = 0 /\ fs_hops_view f = Ok [] /\
            fs_highest_ttl_for_round f = 0.
Proof.
  intros HA Hn rs.
  assert (Hz : Forall (fun r => rr_largest_ttl r = 0) rs).
  { unfold rs. rewrite <- (run_log_events c t0 is HA).
    apply (log_silent c _ (g_init t0) Hn eq_refl eq_refl (run_log_pub c t0 is HA)). }
  split; [assumption|].
  destruct (fs_run_window rs _ (WInv_new ms) (strategy_rounds_wf c t0 is HA)) as (f & Hrun & HW & Hh & _ & _ & Hlast).
  exists f. split; [assumption|]. cbn [flow_state_new fs_highest_ttl] in Hh. rewrite (fold_max_zero rs Hz) in Hh.
  split; [assumption|]. split.
  - destruct (hops_view_window f HW) as (hs & Hv & Hemp & _). rewrite (Hemp (or_intror Hh)) in Hv. assumption.
  - destruct (fs_run_rinv rs _ f (WInv_new ms) (RInv_new ms) (strategy_rounds_wf c t0 is HA) Hrun) as [_ [Hr _]]. lia.
Qed.

(* ====================================================================== 3. the shape of the rounds of a run *)
Lemma zr_zrange : forall n a, zr a n = zrange a n.
Proof. induction n as [|n IH]; intros a; cbn [zr zrange]; [reflexivity|]. rewrite IH. reflexivity. Qed.

Definition smax (P : Z) (S : list (probe * send_outcome)) : Z := fold_left Z.max (map p_ttl (kept S)) P.

Lemma kept_app a b : kept (a ++ b) = kept a ++ kept b.
Proof. apply flat_map_app. Qed.

Lemma smax_snoc P S p x : smax P S <= smax P (S ++ [(p, x)]).
Proof.
  unfold smax. rewrite kept_app, map_app, fold_left_app.
  unfold kept at 2. cbn [flat_map snd fst app]. destruct x; cbn [map fold_left app]; lia.
Qed.

Lemma smax_in P S p : In p (kept S) -> p_ttl p <= smax P S.
Proof. intros H. unfold smax. apply (proj1 (fold_max_spec (map p_ttl (kept S)) P)). apply in_map. assumption. Qed.

Lemma next_ttl_kept c S : next_ttl c S = first_ttl c + Z.of_nat (length (kept S)).
Proof.
  unfold next_ttl. generalize (first_ttl c) as t. induction S as [|[p o] S IH]; intros t; cbn [fold_left snd]; [cbn; lia|].
  rewrite IH. unfold kept. cbn [flat_map snd fst]. destruct o; cbn [app length]; lia.
Qed.

Lemma genuine_in c S A r p sr : genuine c S A r = Some (p, sr) -> In p (kept S).
Proof.
  unfold genuine. destruct (validate c (resp_data_of r)); [|discriminate].
  destruct (strategy_resp c r) as [sr0|?|?]; try discriminate.
  destruct (check_trace_id c (sr_trace_id sr0)); [|discriminate].
  destruct (find (fun po => p_sequence (fst po) =? sr_sequence sr0) S) as [[p0 o]|] eqn:Ef; [|discriminate].
  destruct (answerable o && negb (existsb (fun a => p_sequence (fst a) =? sr_sequence sr0) A)) eqn:Ea; [|discriminate].
  intros H. inversion H; subst. apply find_some in Ef. destruct Ef as [Hin _].
  apply andb_true_iff in Ea. destruct Ea as [Ea _].
  apply (kept_in S p o Hin). intros ->. discriminate.
Qed.

Lemma log_covered c : forall l g P, log_ok c g l -> log_pub c g l -> ttl_chain (first_ttl c) (g_S g) ->
  (forall d, g_dist g = Some d -> d <= smax P (g_S g)) ->
  (forall a, In a (g_A g) -> In (fst a) (kept (g_S g))) -> 0 <= P ->
  covered P (pubs (events_of l)).
Proof.
  induction l as [|o l IH]; intros g P Hok Hpub Hch HJ HJ2 HP; [exact I|].
  cbn [log_ok] in Hok. destruct Hok as [Ho Hok]. cbn [log_pub] in Hpub. destruct Hpub as [Hp Hpub].
  destruct o as [p x|r|now|r now adv]; cbn [events_of flat_map app pubs]; fold (events_of l).
  - apply (IH _ P Hok Hpub); cbn [gstep g_S g_A g_dist].
    + apply ttl_chain_snoc; [assumption|]. cbn [obs_ok] in Ho. destruct Ho as [Ht _]. exact Ht.
    + intros d Hd. pose proof (HJ d Hd). pose proof (smax_snoc P (g_S g) p x). lia.
    + intros a Ha. rewrite kept_app. apply in_or_app. left. apply HJ2. assumption.
    + assumption.
  - cbn [gstep] in *. destruct (genuine c (g_S g) (g_A g) r) as [[p sr]|] eqn:Eg.
    + pose proof (genuine_in c _ _ r p sr Eg) as Hin. pose proof (smax_in P _ p Hin) as Hle.
      apply (IH _ P Hok Hpub); cbn [g_S g_A g_dist]; try assumption.
      * intros d Hd. unfold dist_update in Hd. destruct (sr_is_target sr), (g_dist g) as [y|] eqn:Ey.
        -- inversion Hd; subst d. lia.
        -- inversion Hd; subst d. lia.
        -- destruct (y <=? p_ttl p); [discriminate|]. inversion Hd; subst d. apply HJ; reflexivity.
        -- discriminate.
      * intros a Ha. apply in_app_or in Ha. destruct Ha as [Ha|[<-|[]]]; [apply HJ2; assumption|assumption].
    + apply (IH _ P Hok Hpub); assumption.
  - apply (IH _ P Hok Hpub); assumption.
  - cbn [covered]. cbn [obs_ok] in Ho. destruct Ho as (_ & _ & _ & Hprobes). cbn [pub_ok] in Hp.
    assert (Erm : round_max P r = smax P (g_S g)).
    { unfold round_max, smax. rewrite Hprobes, ttls_status_kept. reflexivity. }
    rewrite Erm. split.
    + rewrite Hp. unfold largest_of. destruct (g_dist g) as [d|] eqn:Ed; [apply HJ; reflexivity|].
      destruct (farthest (g_A g)) as [m|] eqn:Ef.
      * destruct (g_A g) as [|a A'] eqn:EA; [discriminate|].
        pose proof (HJ2 a (or_introl eq_refl)) as Hin.
        pose proof (ttl_chain_kept _ _ Hch) as Hk. rewrite next_ttl_kept.
        assert (Hlen : (0 < length (kept (g_S g)))%nat) by (destruct (kept (g_S g)); [destruct Hin|cbn; lia]).
        assert (Hlast : In (first_ttl c + Z.of_nat (length (kept (g_S g))) - 1) (map p_ttl (kept (g_S g)))).
        { rewrite Hk, <- zr_zrange. apply in_zr. lia. }
        pose proof (proj1 (fold_max_spec (map p_ttl (kept (g_S g))) P) _ Hlast). unfold smax. lia.
      * pose proof (proj1 (proj2 (fold_max_spec (map p_ttl (kept (g_S g))) P))). unfold smax. lia.
    + apply (IH _ _ Hok Hpub); cbn [gstep g_S g_A g_dist].
      * exact I.
      * intros d Hd. unfold smax at 1. cbn [kept flat_map map fold_left]. apply HJ. assumption.
      * intros a [].
      * pose proof (proj1 (proj2 (fold_max_spec (map p_ttl (kept (g_S g))) P))). unfold smax. lia.
Qed.

(* every run publishes rounds of the strategy's shape *)
Theorem run_rounds_shaped c t0 is : Accept c ->
  let rs := pubs (fst (fst (run c t0 is))) in
  Forall wf_round rs /\ Forall (contig (first_ttl c)) rs /\ covered 0 rs.
Proof.
  intros HA rs. split; [apply strategy_rounds_wf; assumption|]. split.
  - pose proof (c06_published_rounds_lemma c t0 is HA) as H. unfold rs.
    eapply Forall_impl; [|exact H]. cbn beta. intros r [Hr _]. exists (length (ttls (rr_probes r))).
    rewrite zr_zrange. exact Hr.
  - unfold rs. rewrite <- (run_log_events c t0 is HA).
    apply (log_covered c _ (g_init t0) 0 (run_obs_ok c t0 is HA) (run_log_pub c t0 is HA)); cbn [g_init g_S g_A g_dist].
    + exact I.
    + intros d Hd; discriminate.
    + intros a [].
    + lia.
Qed.

(* END TO END: the hop table built from the rounds of ANY run.  hops() never fails; every hop carries its own ttl,
   the first hop is first_ttl (nothing below first_ttl, nothing above the greatest length reported); when the latest
   round reported a length L > 0 the target hop is the hop tagged L, it is in hops(), and is_target / is_in_round
   single out exactly that hop / the hops up to it *)
Theorem run_table c t0 is ms : Accept c ->
  let rs := pubs (fst (fst (run c t0 is))) in
  exists f hs, fs_run (flow_state_new ms) rs = Ok f /\ fs_hops_view f = Ok hs /\
    fs_highest_ttl f = fold_left (fun h r => Z.max h (rr_largest_ttl r)) rs 0 /\
    Z.of_nat (length hs) = (if fs_highest_ttl f =? 0 then 0 else fs_highest_ttl f - first_ttl c + 1) /\
    (forall k h, nth_error hs k = Some h -> h_ttl h = first_ttl c + Z.of_nat k /\ h_ttl h <= fs_highest_ttl f) /\
    (rs <> [] -> fs_highest_ttl_for_round f = rr_largest_ttl (last rs {| rr_probes := []; rr_largest_ttl := 0; rr_reason := TargetFound |})) /\
    (0 < fs_highest_ttl_for_round f ->
       exists h, fs_target_hop f = Ok h /\ h_ttl h = fs_highest_ttl_for_round f /\
         nth_error hs (Z.to_nat (fs_highest_ttl_for_round f - first_ttl c)) = Some h /\
         forall k h', nth_error hs k = Some h' ->
           (fs_is_target f h' = true <-> Z.of_nat k = fs_highest_ttl_for_round f - first_ttl c) /\
           (fs_is_in_round f h' = true <-> Z.of_nat k <= fs_highest_ttl_for_round f - first_ttl c)).
Proof.
  intros HA rs. destruct (run_rounds_shaped c t0 is HA) as (Hwf & Hct & Hcov). fold rs in Hwf, Hct, Hcov.
  pose proof (accept_facts c HA) as (Hft & _).
  destruct (fs_run_window rs _ (WInv_new ms) Hwf) as (f & Hrun & HW & Hh & _ & _ & Hlast).
  destruct (hops_view_window f HW) as (hs & Hv & Hemp & Hfull & _).
  exists f, hs. split; [assumption|]. split; [assumption|]. split; [exact Hh|].
  destruct (strategy_shaped_table (first_ttl c) rs ms f hs ltac:(lia) Hwf Hct Hcov Hrun Hv) as [Hown Htgt].
  split; [|split; [|split; [exact Hlast|exact Htgt]]].
  - destruct (fs_highest_ttl f =? 0) eqn:E0.
    + assert (Hz0 : fs_highest_ttl f = 0) by lia. rewrite (Hemp (or_intror Hz0)). reflexivity.
    + destruct HW as (_ & Hhi & HJ & _).
      assert (N0 : fs_lowest_ttl f <> 0) by (destruct HJ as [[? ?]|[? _]]; lia).
      assert (N1 : fs_highest_ttl f <> 0) by lia. destruct (Hfull N0 N1) as (_ & Hlen & _). rewrite Hlen.
      destruct hs as [|h0 hs']; [cbn [length] in Hlen; destruct HJ as [[? ?]|[? [?|?]]]; lia|].
      destruct (Hown 0%nat h0 eq_refl) as [_ Hlo]. lia.
  - intros k h Hk. destruct (Hown k h Hk) as [Ht Hlo]. split; [assumption|].
    apply (view_nth f hs HW Hv) in Hk. destruct Hk as (_ & Hle & _). lia.
Qed.

(* ====================================================================== 4. a refuted reading, examples *)
(* "whenever the target answered a probe of ttl t in a published round, the round reports a length that is a ttl the
   target answered at" is FALSE without the no-contradiction condition: in the example run of RunLogProps
   (rl_ex_unstable_ins) the target answers the ttl 3 probe, then another host answers the ttl 4 probe; the distance is
   forgotten and the round reports length 4 - the hop table then ends at hop 4, a hop beyond the target *)
Theorem ends_at_target_unconditional_refuted :
  exists c t0 is l1 r now adv l2, Accept c /\ run_log c t0 is = l1 ++ OPublish r now adv :: l2 /\
    target_ttls (g_A (ghost_after c t0 l1)) = [3] /\ rr_largest_ttl r = 4.
Proof.
  exists rl_ex_cfg, 0, rl_ex_unstable_ins.
  exists (firstn 13 (run_log rl_ex_cfg 0 rl_ex_unstable_ins)). eexists _, _, _.
  exists (skipn 14 (run_log rl_ex_cfg 0 rl_ex_unstable_ins)).
  split; [split; [reflexivity|unfold cfg_wf, u8, u16; cbn; lia]|].
  split; [vm_compute; reflexivity|]. split; vm_compute; reflexivity.
Qed.

(* the stable example run: round 0 reports 3 (the target answered ttl 3; the ttl 4 probe stayed unanswered),
   round 1 inherits 3 and reports 3 without any answer *)
Example te_stable_example :
  map rr_largest_ttl (pubs (fst (fst (run rl_ex_cfg 0 rl_ex_ins)))) = [3; 3] /\
  (let L := run_log rl_ex_cfg 0 rl_ex_ins in
   round_start_log [] /\ no_publish (firstn 13 L) /\
   target_ttls (g_A (ghost_after rl_ex_cfg 0 (firstn 13 L))) = [3] /\
   other_ttls (g_A (ghost_after rl_ex_cfg 0 (firstn 13 L))) = [1; 2]).
Proof.
  split; [vm_compute; reflexivity|]. cbn zeta. split; [left; reflexivity|]. split.
  - intros r n a Hin. vm_compute in Hin. repeat (destruct Hin as [Hin|Hin]; [discriminate|]). destruct Hin.
  - split; vm_compute; reflexivity.
Qed.

(* the hypotheses of stable_path_true_distance are met by the LAST round of the stable example run: the target answered
   the ttl 3 probe in round 0 and round 1, which got no answer at all, still reports 3 *)
Example te_stable_path_instance :
  let L := run_log rl_ex_cfg 0 rl_ex_ins in
  exists l1 r p sr l2 rr now adv l3, stable rl_ex_cfg 3 (g_init 0) L /\
    L = l1 ++ ORecv r :: l2 ++ OPublish rr now adv :: l3 /\
    genuine rl_ex_cfg (g_S (ghost_after rl_ex_cfg 0 l1)) (g_A (ghost_after rl_ex_cfg 0 l1)) r = Some (p, sr) /\
    sr_is_target sr = true /\ p_ttl p = 3 /\ l3 = [] /\ rr_largest_ttl rr = 3.
Proof.
  intros L. exists (firstn 9 L), (rl_ex_er 4 102). eexists _, _. exists (firstn 12 (skipn 10 L)). eexists _, _, _. exists (skipn 23 L).
  split; [vm_compute; repeat split|]. split; [lazy; reflexivity|]. split; [lazy; reflexivity|]. lazy. repeat split.
Qed.

(* a silent network: two probes go out, nothing answers, the round is published by the time limit with length 0 *)
Definition te_silent_ins : list iter_in := [rl_ex_it Timeout 1; rl_ex_it Timeout 2; rl_ex_it Timeout 60].
Example te_silent_example :
  (forall r, ~ In (ORecv r) (run_log rl_ex_cfg 0 te_silent_ins)) /\
  map (fun r => (rr_largest_ttl r, ttls (rr_probes r))) (pubs (fst (fst (run rl_ex_cfg 0 te_silent_ins)))) = [(0, [1; 2])].
Proof.
  split; [|vm_compute; reflexivity].
  intros r Hin. vm_compute in Hin. repeat (destruct Hin as [Hin|Hin]; [discriminate|]). destruct Hin.
Qed.

(* PER-FLOW tables do not inherit run_table.  The distance established in one round is carried into the next; a round
   that is cut short (the clock jumps past max_round_duration after two probes - a suspended process, say) and that goes
   over a different path is published with the carried length 3 although it probed ttl 1 and 2 only.  The default flow
   has seen ttl 3 in the earlier round; the NEW flow this round is attributed to has not: its table is hops 1..3 with
   hop 3 never probed, its target hop is that never-probed default hop, and is_target holds for no hop of its hops() *)
Definition te_pf_ins : list iter_in :=
  [ rl_ex_it Timeout 1; rl_ex_it (Resp (rl_ex_te 2 100 [9;9;9;1])) 2; rl_ex_it (Resp (rl_ex_te 3 101 [9;9;9;2])) 3;
    rl_ex_it (Resp (rl_ex_er 4 102)) 4; rl_ex_it Timeout 8; rl_ex_it Timeout 11;
    rl_ex_it (Resp (rl_ex_te 13 104 [8;8;8;1])) 13; rl_ex_it Timeout 70 ].
Definition te_get (r : result state) : state := match r with Ok s => s | _ => state_new 0 0 end.

Theorem per_flow_target_unprobed :
  exists c t0 is s', Accept c /\ st_run (state_new 10 4) (pubs (fst (fst (run c t0 is)))) = Ok s' /\
    map (fun r => (rr_largest_ttl r, ttls (rr_probes r))) (pubs (fst (fst (run c t0 is)))) = [(3, [1; 2; 3; 4]); (3, [1; 2])] /\
    st_round_flow_id s' = 2 /\
    let f := flow_or_new s' 2 in
    fs_highest_ttl_for_round f = 3 /\ fs_target_hop f = Ok hop_default /\
    map (fun h => (h_ttl h, h_sent h, fs_is_target f h)) (hw_hops (fs_hops_view f)) = [(1, 1, false); (2, 1, false); (0, 0, false)].
Proof.
  exists rl_ex_cfg, 0, te_pf_ins, (te_get (st_run (state_new 10 4) (pubs (fst (fst (run rl_ex_cfg 0 te_pf_ins)))))).
  split; [split; [reflexivity|unfold cfg_wf, u8, u16; cbn; lia]|].
  split; [vm_compute; reflexivity|]. split; [vm_compute; reflexivity|]. split; [vm_compute; reflexivity|].
  cbn zeta. split; [vm_compute; reflexivity|]. split; vm_compute; reflexivity.
Qed.
