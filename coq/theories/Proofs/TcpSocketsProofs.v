From TV Require Import Base.Result Core.Types Net.RecvCommon Net.Recv Net.TcpSockets Proofs.RecvProofs.

Lemma take_first_ready_spec l : 
  match take_first_ready l with
  | Some (e, rest) => exists a b, l = a ++ e :: b /\ rest = a ++ b /\ is_ready e = true /\ Forall (fun x => is_ready x = false) a
  | None => Forall (fun x => is_ready x = false) l
  end.
Proof.
  induction l as [|x t IH]; cbn [take_first_ready]; [constructor|].
  destruct (is_ready x) eqn:Ex.
  - exists [], t. repeat split; [assumption|constructor].
  - destruct (take_first_ready t) as [[e rest]|].
    + destruct IH as (a & b & -> & -> & He & Ha). exists (x :: a), b. repeat split; [assumption|constructor; assumption].
    + constructor; assumption.
Qed.

(* the array never grows beyond its capacity and a full array is an error value, never a fault *)
Lemma tcp_push_spec l e : (length l <= MAX_TCP_PROBES)%nat ->
  match tcp_push l e with
  | Ok l' => l' = l ++ [e] /\ (length l' <= MAX_TCP_PROBES)%nat
  | Err x => x = EInsufficientCapacity /\ length l = MAX_TCP_PROBES
  | Fault _ => False
  end.
Proof.
  intros H. unfold tcp_push. destruct (MAX_TCP_PROBES <=? length l)%nat eqn:E.
  - apply Nat.leb_le in E. split; [reflexivity|lia].
  - apply Nat.leb_gt in E. split; [reflexivity|]. rewrite app_length. cbn [length]. lia.
Qed.

(* recv_tcp_sockets: the response (if any) is the one of the FIRST ready entry among the entries that have not timed
   out, carries that entry's ports, and exactly that entry leaves the array; timed-out entries are dropped; the
   order of the others is kept; a pending socket is never reported *)
Lemma recv_tcp_sockets_list_spec c now timeout l :
  let alive := filter (tcp_alive now timeout) l in
  let '(l', res) := recv_tcp_sockets_list c now timeout l in
  (exists a e b o, alive = a ++ e :: b /\ l' = a ++ b /\ te_state e = SockReady o /\
      Forall (fun x => te_state x = SockPending) a /\ res = recv_tcp_socket c now o (te_sp e) (te_dp e))
  \/ (l' = alive /\ res = Ok None /\ Forall (fun x => te_state x = SockPending) alive).
Proof.
  intros alive. unfold recv_tcp_sockets_list. fold alive.
  pose proof (take_first_ready_spec alive) as H.
  destruct (take_first_ready alive) as [[e rest]|].
  - destruct H as (a & b & Ha & -> & He & Hp). left.
    unfold is_ready in He. destruct (te_state e) as [|o] eqn:Es; [discriminate|].
    exists a, e, b, o. repeat split; try assumption.
    eapply Forall_impl; [|exact Hp]. intros x Hx. unfold is_ready in Hx. destruct (te_state x); [reflexivity|discriminate].
  - right. repeat split.
    eapply Forall_impl; [|exact H]. intros x Hx. unfold is_ready in Hx. destruct (te_state x); [reflexivity|discriminate].
Qed.

Lemma recv_tcp_sockets_list_no_fault c now timeout l f : snd (recv_tcp_sockets_list c now timeout l) <> Fault f.
Proof.
  unfold recv_tcp_sockets_list. destruct (take_first_ready _) as [[e rest]|]; cbn [snd]; [|discriminate].
  destruct (te_state e) as [|o]; [discriminate|]. unfold recv_tcp_socket.
  destruct o as [[a|]| |[a|]| |k]; discriminate.
Qed.

Lemma filter_len {A} (f : A -> bool) l : (length (filter f l) <= length l)%nat.
Proof. induction l as [|x t IH]; cbn [filter length]; [lia|]. destruct (f x); cbn [length]; lia. Qed.

Lemma recv_tcp_sockets_list_length c now timeout l :
  (length (fst (recv_tcp_sockets_list c now timeout l)) <= length l)%nat.
Proof.
  pose proof (recv_tcp_sockets_list_spec c now timeout l) as H. cbv zeta in H.
  destruct (recv_tcp_sockets_list c now timeout l) as [l' res]. cbn [fst].
  pose proof (filter_len (tcp_alive now timeout) l) as Hf.
  destruct H as [(a & e & b & o & Ha & -> & _)|(-> & _)]; [|assumption].
  rewrite Ha in Hf. rewrite app_length in *. cbn [length] in Hf. lia.
Qed.
