From TV Require Import Base.Result Core.Types Core.TracerState Core.Strategy Tui.TraceId Proofs.StrategyProps.

Lemma tid_range pid i : 1 <= trace_identifier_for pid i <= 65535.
Proof.
  unfold trace_identifier_for, U16_MAX. destruct (_ =? 0) eqn:E; [lia|]. apply Z.eqb_neq in E.
  pose proof (Z.mod_pos_bound (pid mod 65535 + i mod 65535) 65535 ltac:(lia)). lia.
Qed.

Lemma tid_distinct pid i j : 0 <= i < j -> j < 65535 -> trace_identifier_for pid i <> trace_identifier_for pid j.
Proof.
  intros Hi Hj. unfold trace_identifier_for, U16_MAX.
  rewrite (Z.mod_small i 65535), (Z.mod_small j 65535) by lia.
  set (a := pid mod 65535). assert (Ha : 0 <= a < 65535) by (apply Z.mod_pos_bound; lia).
  assert (Hne : (a + i) mod 65535 <> (a + j) mod 65535).
  { intro E.
    assert (Hi' : (a + i) mod 65535 = if a + i <? 65535 then a + i else a + i - 65535).
    { destruct (a + i <? 65535) eqn:L; [apply Z.mod_small; lia|].
      apply Z.ltb_ge in L. symmetry. apply (Z.mod_unique _ _ 1); lia. }
    assert (Hj' : (a + j) mod 65535 = if a + j <? 65535 then a + j else a + j - 65535).
    { destruct (a + j <? 65535) eqn:L; [apply Z.mod_small; lia|].
      apply Z.ltb_ge in L. symmetry. apply (Z.mod_unique _ _ 1); lia. }
    rewrite Hi', Hj' in E. destruct (a + i <? 65535) eqn:Li, (a + j <? 65535) eqn:Lj; lia. }
  pose proof (Z.mod_pos_bound (a + i) 65535 ltac:(lia)) as Bx. pose proof (Z.mod_pos_bound (a + j) 65535 ltac:(lia)) as By.
  set (x := (a + i) mod 65535) in *. set (y := (a + j) mod 65535) in *. clearbody x y. clear Ha. clearbody a.
  destruct (Z.eqb_spec x 0), (Z.eqb_spec y 0); lia.
Qed.

Lemma tid_unchanged pid i : 0 <= pid -> 0 <= i -> 0 < pid + i <= 65535 -> pid < 65535 -> i < 65535 ->
  trace_identifier_for pid i = pid + i.
Proof.
  intros Hp Hi Hs Hp' Hi'. unfold trace_identifier_for, U16_MAX.
  rewrite (Z.mod_small pid 65535), (Z.mod_small i 65535) by lia.
  destruct (Z.eq_dec (pid + i) 65535) as [E|E].
  - rewrite E, Z.mod_same by lia. reflexivity.
  - rewrite Z.mod_small by lia. destruct (pid + i =? 0) eqn:Z0; [apply Z.eqb_eq in Z0; lia|reflexivity].
Qed.

(* each tracer of a multi-target run rejects the ICMP responses that carry another tracer's identifier *)
Lemma tid_isolation c pid i j : trace_identifier c = trace_identifier_for pid i ->
  0 <= i -> 0 <= j -> i < 65535 -> j < 65535 -> i <> j -> check_trace_id c (trace_identifier_for pid j) = false.
Proof.
  intros Hc Hi Hj Hi' Hj' Hne. apply c03_foreign_trace_id_lemma.
  - pose proof (tid_range pid j). lia.
  - rewrite Hc. destruct (Z.lt_total i j) as [L|[L|L]]; [|contradiction|].
    + intro E. exact (tid_distinct pid i j ltac:(lia) ltac:(lia) (eq_sym E)).
    + intro E. exact (tid_distinct pid j i ltac:(lia) ltac:(lia) E).
Qed.
