(* C20: the concrete schedules used by the examples of Props/C20.v. *)
From Coq Require Import List Arith Lia Bool.
Import ListNotations.
From TV Require Import Conc.Tracer Conc.TracerRich.

(* one round, the run fails; a clear() BEFORE the round, reader 1 snapshots before handle_error, a clear() right
   AFTER handle_error, reader 0 snapshots, another clearer clears again, reader 0 snapshots again *)
Definition err_clear_sched : list rtid :=
  [XC 0; XC 0; XC 0; XH; XH; XH; XR 1 false; XR 1 true; XR 1 true; XR 1 true; XH; XH; XH;
   XC 0; XC 0; XC 0; XR 0 true; XR 0 true; XR 0 true; XR 0 true; XC 1; XC 1; XC 1;
   XR 0 true; XR 0 true; XR 0 true; XR 0 true].

Definition sysE : rsys := rexec 1 (fun _ => 1) true [2; 1] [2; 1] err_clear_sched.

Lemma logE : log sysE =
  [EClr 0; EPub 0; EStart 1; ESnap 1 [(0, 0)] false; EErr; EClr 0; EStart 0; ESnap 0 [] true; EClr 1;
   EStart 0; ESnap 0 [] true].
Proof. vm_compute. reflexivity. Qed.

(* two rounds of two sub-updates, the run then fails; reader 0 takes three snapshots, reader 1 two, one clear().
   The readers overlap each other and the handler: both hold the read lock while the tracer thread parks; a clearer
   parks behind a reader. *)
Definition schedS : list rtid :=
  [XR 0 false; XH; XR 0 true; XH; XR 1 false; XH; XH;
   XR 0 true; XR 1 false; XH; XR 1 true; XR 0 true; XR 1 true;
   XR 0 true; XR 1 false;
   XH; XH; XH; XH;
   XR 0 false; XR 0 true; XR 0 true; XR 0 true;
   XH; XH; XH;
   XR 1 false; XC 0; XR 1 true; XC 0; XR 1 true; XR 1 true;
   XC 0; XC 0; XC 0;
   XR 0 false; XR 0 true; XR 0 true; XR 0 true].

Definition sysS : rsys := rexec 2 (fun _ => 2) true [3; 2] [1] schedS.

Definition r0 : list atom := [(0, 0); (0, 1)].
Definition r01 : list atom := [(0, 0); (0, 1); (1, 0); (1, 1)].

Lemma logS : log sysS =
  [EStart 0; EStart 1; EPub 0; ESnap 1 r0 false; ESnap 0 r0 false; EStart 1; EPub 1; EStart 0; ESnap 0 r01 false; EErr;
   ESnap 1 r01 true; EClr 0; EStart 0; ESnap 0 [] true].
Proof. vm_compute. reflexivity. Qed.

(* decide no_clear on a concrete list *)
Ltac no_clear_tac := intros ? Hj; cbn in Hj; repeat (destruct Hj as [Hj|Hj]; [discriminate|]); exact Hj.
