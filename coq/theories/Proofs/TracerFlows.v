(* C20: the per-flow sub-updates of State::update_from_round, and the two NEGATIVE variants of the handler
   (lock released between the sub-updates; clone-modify-store) with schedules that tear a snapshot. *)
From Coq Require Import List Arith Lia Bool.
Import ListNotations.
From TV Require Import Conc.Tracer Conc.TracerRich Proofs.TracerProofs Proofs.TracerOrder Proofs.TracerRichProofs.


Lemma in_flow_view tgt f v q : In q (flow_view tgt f v) <-> exists k, In (q, k) v /\ tgt q k = Some f.
Proof.
  unfold flow_view. rewrite in_map_iff. split.
  - intros ([q' k] & E & Hin). cbn in E. subst q'. apply filter_In in Hin. destruct Hin as [Hin Ht]. cbn [fst snd] in Ht.
    exists k. split; [assumption|]. destruct (tgt q k) as [g|]; [|discriminate]. apply Nat.eqb_eq in Ht. subst. reflexivity.
  - intros (k & Hin & Ht). exists (q, k). split; [reflexivity|]. apply filter_In. split; [assumption|].
    cbn [fst snd]. rewrite Ht. apply Nat.eqb_refl.
Qed.

Section Flows.
  Context (nrounds : nat) (m : nat -> nat).

  (* in a whole-rounds state every flow entry written by some sub-update of round q has seen round q exactly
     when any other such entry has *)
  Lemma whole_flows_agree tgt b p q k1 k2 f g :
    k1 < m q -> k2 < m q -> tgt q k1 = Some f -> tgt q k2 = Some g ->
    In q (flow_view tgt f (rounds_state m b p)) -> In q (flow_view tgt g (rounds_state m b p)).
  Proof.
    intros H1 H2 T1 T2 Hin. apply in_flow_view in Hin. destruct Hin as (k & Hin & _).
    apply in_flow_view. exists k2. split; [|assumption].
    apply in_rounds_state in Hin. apply in_rounds_state. cbn [fst snd] in *. lia.
  Qed.

  (* Conc/Tracer.v: no snapshot shows flow f (e.g. flow 0) updated with round q while flow g (e.g. the round's own
     flow) has not seen it, and vice versa; for any assignment tgt of sub-updates to flows *)
  Theorem obs_flows_agree tgt nr nc sched v b r q k1 k2 f g :
    In (v, b, r) (obs (texec nrounds m nr nc sched)) ->
    k1 < m q -> k2 < m q -> tgt q k1 = Some f -> tgt q k2 = Some g ->
    (In q (flow_view tgt f v) <-> In q (flow_view tgt g v)).
  Proof.
    intros Hin H1 H2 T1 T2. destruct (exec_inv nrounds m nr nc sched) as (_ & _ & Ho).
    rewrite Forall_forall in Ho. specialize (Ho _ Hin). cbn in Ho. destruct Ho as [-> _].
    split; intros H; [exact (whole_flows_agree tgt b r q k1 k2 f g H1 H2 T1 T2 H)|exact (whole_flows_agree tgt b r q k2 k1 g f H2 H1 T2 T1 H)].
  Qed.

  (* the richer model (error hand-off, parked writers): the same for the round data of every snapshot of the history *)
  Theorem rich_all_or_none fails rb cb sched l1 i v e l2 q k1 k2 :
    log (rexec nrounds m fails rb cb sched) = l1 ++ ESnap i v e :: l2 ->
    k1 < m q -> k2 < m q -> (In (q, k1) v <-> In (q, k2) v).
  Proof.
    intros E H1 H2. destruct (rich_whole nrounds m fails rb cb sched _ _ _ _ _ E) as (b & p & Hb & Hp & -> & _).
    rewrite !in_rounds_state. cbn [fst snd]. lia.
  Qed.

  Theorem rich_flows_agree tgt fails rb cb sched l1 i v e l2 q k1 k2 f g :
    log (rexec nrounds m fails rb cb sched) = l1 ++ ESnap i v e :: l2 ->
    k1 < m q -> k2 < m q -> tgt q k1 = Some f -> tgt q k2 = Some g ->
    (forall k, m q <= k -> tgt q k = None) ->
    (In q (flow_view tgt f v) <-> In q (flow_view tgt g v)).
  Proof.
    intros E H1 H2 T1 T2 Tn. rewrite !in_flow_view.
    assert (Hkk : forall k k', k' < m q -> (exists f', tgt q k = Some f') -> In (q, k) v -> In (q, k') v).
    { intros k k' Hk' (f' & Hf') Hin. destruct (Nat.lt_ge_cases k (m q)) as [Hlt|Hge].
      - apply (rich_all_or_none fails rb cb sched _ _ _ _ _ q k k' E Hlt Hk'). assumption.
      - rewrite (Tn k Hge) in Hf'. discriminate. }
    split; intros (k & Hin & Ht).
    - exists k2. split; [|assumption]. apply (Hkk k); eauto.
    - exists k1. split; [|assumption]. apply (Hkk k); eauto.
  Qed.
End Flows.

(* ---------- NEGATIVE: the handler releases the lock between the two sub-updates ---------- *)
(* one round of two sub-updates (0: flow 0, 1: the round's own flow 1), one reader.  Schedule: the handler takes the
   lock, applies sub-update 0 and releases; the reader acquires and clones: flow 0 has seen round 0, flow 1 has not,
   and the value is no whole-rounds state whatever the marker *)
Definition torn_sched : list tid := [TH; TH; TR 0; TR 0; TR 0; TH; TH; TR 0; TR 0; TR 0].

Theorem torn_refuted :
  exists v b r, In (v, b, r) (obs (fst (torn_exec 1 (fun _ => 2) 1 0 torn_sched))) /\
    (forall b' r', v <> rounds_state (fun _ => 2) b' r') /\
    In 0 (flow_view (fun _ k => Some k) 0 v) /\ ~ In 0 (flow_view (fun _ k => Some k) 1 v).
Proof.
  exists [(0, 0)], 0, 0. split; [vm_compute; auto|]. split; [|split].
  - intros b' r'. unfold rounds_state. destruct (r' - b') as [|n]; cbn; discriminate.
  - vm_compute. auto.
  - vm_compute. intros [].
Qed.

(* the same schedule under the real discipline (Conc/Tracer.v): the reader stays blocked until the round is whole *)
Example torn_sched_ok :
  map (fun o => fst (fst o)) (obs (texec 1 (fun _ => 2) 1 0 torn_sched)) = [[(0, 0); (0, 1)]].
Proof. reflexivity. Qed.

(* ---------- NEGATIVE: clone-modify-store handler ---------- *)
(* two rounds of one sub-update, one reader, one clearer.  Round 0 is published; the handler clones for round 1 and
   releases the read lock; a clear() runs to completion (marker 1); the handler stores its copy: the snapshot taken
   afterwards shows round 0, published BEFORE the completed clear *)
Definition cms_sched : list tid := [TH; TH; TH; TH; TH; TH; TC 0; TC 0; TC 0; TH; TH; TR 0; TR 0; TR 0].

Theorem cms_refuted :
  exists v b r, In (v, b, r) (obs (fst (cms_exec 2 (fun _ => 1) 1 1 cms_sched))) /\
    0 < b /\ In (0, 0) v /\ v <> rounds_state (fun _ => 1) b r.
Proof.
  exists [(0, 0); (1, 0)], 1, 2. split; [vm_compute; auto|]. split; [lia|]. split; [cbn; auto|]. vm_compute. discriminate.
Qed.

(* the same schedule under the real discipline: the handler's six steps are the two whole rounds, the clear comes
   after both (marker 2) and the snapshot taken afterwards is empty *)
Example cms_sched_ok :
  obs (texec 2 (fun _ => 1) 1 1 cms_sched) = [([], 2, 2)].
Proof. reflexivity. Qed.
