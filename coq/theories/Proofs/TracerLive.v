(* C20: deadlock freedom of the lock discipline (Conc/Tracer.v and the richer model with parked writers),
   the reader-holds / writer-waits situation, and the remaining-work measure. *)
From Coq Require Import List Arith Lia Bool.
Import ListNotations.
From TV Require Import Conc.Tracer Conc.TracerRich Proofs.TracerProofs Proofs.TracerOrder Proofs.TracerRichProofs.


Lemma forallb_false_ex {A} (f : A -> bool) (l : list A) : forallb f l = false -> exists x, In x l /\ f x = false.
Proof.
  induction l as [|y l IH]; cbn; intros H; [discriminate|].
  destruct (f y) eqn:Ey.
  - destruct (IH H) as (x & Hx & Hf). exists x. auto.
  - exists y. auto.
Qed.

Lemma nth_error_lt {A} (l : list A) i : i < length l -> exists x, nth_error l i = Some x.
Proof.
  intros H. destruct (nth_error l i) eqn:E; [eauto|]. apply nth_error_None in E. lia.
Qed.

(* ---------- Conc/Tracer.v ---------- *)
Section CoreLive.
  Context (nrounds : nat) (m : nat -> nat).
  Notation tstep := (tstep nrounds m).

  Lemma set_nth_changes {A} (l : list A) i old v : nth_error l i = Some old -> old <> v -> set_nth i v l <> l.
  Proof.
    intros Hn Hne E. pose proof (nth_error_set_nth_eq l i old v Hn) as H. rewrite E in H. congruence.
  Qed.

  (* in every reachable state some thread can take a step that changes the state, unless the tracer has
     published all its rounds and there is no reader and no clearer thread *)
  Theorem core_deadlock_free nr nc sched : let s := texec nrounds m nr nc sched in
    (exists t, tstep s t <> s) \/ (exists r, hd s = HIdle r /\ nrounds <= r /\ lk s = Free /\ nr = 0 /\ nc = 0).
  Proof.
    intros s. pose proof (exec_inv nrounds m nr nc sched) as HI. fold s in HI.
    destruct (run_mono nrounds m sched _ (init_inv m nr nc)) as (_ & _ & Lr & Lc & _).
    rewrite <- texec_run in Lr, Lc. fold s in Lr, Lc. cbn [tinit rds cls] in Lr, Lc. rewrite repeat_length in Lr, Lc.
    destruct (lk s) eqn:El.
    - destruct (inv_free m _ HI El) as ((r & Eh) & Hcr & Hcc).
      destruct (r <? nrounds) eqn:Er.
      + left. exists TH. unfold Tracer.tstep. rewrite Eh, Er, El. intros E. apply (f_equal lk) in E. cbn in E. congruence.
      + apply Nat.ltb_ge in Er. destruct nr as [|nr].
        * destruct nc as [|nc]; [right; exists r; auto|].
          destruct (nth_error_lt (cls s) 0) as (x & En); [lia|].
          pose proof (count_zero_none _ _ _ _ Hcc En) as Hx. destruct x; try discriminate.
          left. exists (TC 0). unfold Tracer.tstep. rewrite En, El. intros E. apply (f_equal lk) in E. cbn in E. congruence.
        * destruct (nth_error_lt (rds s) 0) as (x & En); [lia|].
          pose proof (count_zero_none _ _ _ _ Hcr En) as Hx. destruct x; try discriminate.
          left. exists (TR 0). unfold Tracer.tstep. rewrite En, El. intros E. apply (f_equal lk) in E. cbn in E. congruence.
    - destruct (inv_readers m _ _ HI El) as (_ & Hcr & Hn & _).
      destruct (count_pos_ex is_rhold (rds s)) as (i & x & En & Hx); [lia|].
      left. exists (TR i). unfold Tracer.tstep. rewrite En.
      destruct x; [discriminate| |]; intros E; apply (f_equal rds) in E; cbn [rds] in E;
        revert E; eapply set_nth_changes; try eassumption; discriminate.
    - left. destruct (hd s) as [r|r k] eqn:Eh.
      + destruct (inv_writer_idle m _ _ HI El Eh) as (_ & Hcc).
        destruct (count_pos_ex is_chold (cls s)) as (j & x & En & Hx); [lia|].
        exists (TC j). unfold Tracer.tstep. rewrite En.
        destruct x; [discriminate| |]; intros E; apply (f_equal cls) in E; cbn [cls] in E;
          revert E; eapply set_nth_changes; try eassumption; discriminate.
      + exists TH. unfold Tracer.tstep. rewrite Eh. destruct (k <? m r); intros E; apply (f_equal hd) in E; cbn in E; rewrite Eh in E.
        * inversion E. lia.
        * discriminate.
  Qed.

  (* a reader holds the read lock: the handler and every clearer are blocked (their step changes nothing),
     a further reader is admitted, and a holder can always go on *)
  Theorem core_writer_waits nr nc sched n : let s := texec nrounds m nr nc sched in
    lk s = Readers n ->
    tstep s TH = s /\
    (forall j, nth_error (cls s) j = Some CIdle -> tstep s (TC j) = s) /\
    (forall i, nth_error (rds s) i = Some RIdle -> lk (tstep s (TR i)) = Readers (S n)) /\
    (exists i, tstep s (TR i) <> s).
  Proof.
    intros s El. pose proof (exec_inv nrounds m nr nc sched) as HI. fold s in HI.
    destruct (inv_readers m _ _ HI El) as ((r & Eh) & Hcr & Hn & _).
    split; [|split; [|split]].
    - unfold Tracer.tstep. rewrite Eh, El. destruct (r <? nrounds); reflexivity.
    - intros j En. unfold Tracer.tstep. rewrite En, El. reflexivity.
    - intros i En. unfold Tracer.tstep. rewrite En, El. reflexivity.
    - destruct (count_pos_ex is_rhold (rds s)) as (i & x & En & Hx); [lia|].
      exists i. unfold Tracer.tstep. rewrite En.
      destruct x; [discriminate| |]; intros E; apply (f_equal rds) in E; cbn [rds] in E;
        revert E; eapply set_nth_changes; try eassumption; discriminate.
  Qed.
End CoreLive.

(* ---------- the richer model: parked writers, polite and barging readers, budgets ---------- *)
Section RichLive.
  Context (nrounds : nat) (m : nat -> nat) (fails : bool).
  Notation N := (nsec nrounds fails).
  Notation M := (msec nrounds m).
  Notation rstep := (rstep nrounds m fails).
  Notation rexec := (rexec nrounds m fails).
  Notation renabled := (renabled nrounds fails).
  Notation all_done := (all_done nrounds fails).

  (* who is parked is really waiting *)
  Definition Park (s : rsys) : Prop :=
    (hpark s = true -> exists r, hd (co s) = HIdle r /\ r < N) /\
    (forall j bud, nth_error (cx s) j = Some (true, bud) -> nth_error (cls (co s)) j = Some CIdle /\ 0 < bud).

  Lemma nth_error_set_nth_cases {A} (l : list A) i j v x :
    nth_error (set_nth i v l) j = Some x -> (i = j /\ x = v) \/ (i <> j /\ nth_error l j = Some x).
  Proof.
    intros H. destruct (Nat.eq_dec i j) as [<-|Hne].
    - left. split; [reflexivity|]. destruct (nth_error l i) eqn:E.
      + rewrite (nth_error_set_nth_eq _ _ _ _ E) in H. congruence.
      + exfalso. apply nth_error_None in E. assert (Hs : nth_error (set_nth i v l) i <> None) by congruence.
        apply nth_error_Some in Hs. rewrite set_nth_length in Hs. lia.
    - right. rewrite nth_error_set_nth_neq in H by assumption. auto.
  Qed.

  Lemma rstep_park s t : Park s -> Park (rstep s t).
  Proof.
    intros HP. destruct t as [|i p|j]; unfold TracerRich.rstep, cstep.
    - destruct (hd (co s)) as [r|r k] eqn:Eh.
      + destruct (r <? N) eqn:Er; [|exact HP].
        destruct (lk (co s)) eqn:El; cbn [is_free]; pose proof HP as (P1 & P2); split; cbn [hpark cx co].
        * discriminate.
        * unfold tstep. rewrite Eh, Er, El. cbn [cls]. assumption.
        * intros _. exists r. split; [assumption|]. apply Nat.ltb_lt. assumption.
        * assumption.
        * intros _. exists r. split; [assumption|]. apply Nat.ltb_lt. assumption.
        * assumption.
      + pose proof HP as (P1 & P2). destruct ((r =? nrounds) && negb (err s)); split; cbn [hpark cx co].
        * intros Hp. destruct (P1 Hp) as (r0 & Hr0 & _). congruence.
        * assumption.
        * intros Hp. destruct (P1 Hp) as (r0 & Hr0 & _). congruence.
        * unfold tstep. rewrite Eh. destruct (k <? M r); cbn [cls]; assumption.
    - destruct (nth_error (rds (co s)) i) as [[| |]|] eqn:En; [| | |exact HP].
      + destruct (nth i (rx s) (false, 0)) as [incall bud]. destruct incall.
        * destruct ((p && writer_parked s) || is_writer (lk (co s))); [exact HP|].
          pose proof HP as (P1 & P2).
          split; cbn [hpark cx co]; unfold tstep; rewrite En; destruct (lk (co s)); cbn [hd cls]; assumption.
        * destruct bud; exact HP.
      + pose proof HP as (P1 & P2). split; cbn [hpark cx co]; unfold tstep; rewrite En; cbn [hd cls]; assumption.
      + pose proof HP as (P1 & P2). split; cbn [hpark cx co]; unfold tstep; rewrite En; cbn [hd cls]; assumption.
    - destruct (nth_error (cls (co s)) j) as [[| |]|] eqn:En; [| | |exact HP].
      + destruct (nth j (cx s) (false, 0)) as [pk bud]. destruct bud as [|b]; [exact HP|].
        pose proof HP as (P1 & P2).
        destruct (lk (co s)) eqn:El; cbn [is_free]; split; cbn [hpark cx co]; unfold tstep; rewrite ?En, ?El; cbn [hd cls]; try assumption.
        * intros j' bud' H. apply nth_error_set_nth_cases in H. destruct H as [[_ H]|[Hne H]]; [discriminate|].
          rewrite nth_error_set_nth_neq by assumption. exact (P2 _ _ H).
        * intros j' bud' H. apply nth_error_set_nth_cases in H. destruct H as [[<- H]|[Hne H]]; [|exact (P2 _ _ H)].
          inversion H; subst. split; [assumption|lia].
        * intros j' bud' H. apply nth_error_set_nth_cases in H. destruct H as [[<- H]|[Hne H]]; [|exact (P2 _ _ H)].
          inversion H; subst. split; [assumption|lia].
      + pose proof HP as (P1 & P2). split; cbn [hpark cx co]; unfold tstep; rewrite En; cbn [hd cls]; [assumption|].
        intros j' bud' H. destruct (Nat.eq_dec j j') as [<-|Hne].
        * destruct (P2 _ _ H) as [H' _]. congruence.
        * rewrite nth_error_set_nth_neq by assumption. exact (P2 _ _ H).
      + pose proof HP as (P1 & P2). split; cbn [hpark cx co]; unfold tstep; rewrite En; cbn [hd cls]; [assumption|].
        intros j' bud' H. destruct (Nat.eq_dec j j') as [<-|Hne].
        * destruct (P2 _ _ H) as [H' _]. congruence.
        * rewrite nth_error_set_nth_neq by assumption. exact (P2 _ _ H).
  Qed.

  Lemma rinit_park rb cb : Park (rinit rb cb).
  Proof.
    split; cbn [rinit hpark cx co]; [discriminate|].
    intros j bud H. exfalso. apply nth_error_In in H. apply in_map_iff in H. destruct H as (x & Hx & _). discriminate.
  Qed.

  Lemma rexec_park rb cb sched : Park (rexec rb cb sched).
  Proof.
    unfold TracerRich.rexec. generalize (rinit_park rb cb). generalize (rinit rb cb).
    induction sched as [|t l IH]; intros s H; cbn [fold_left]; [assumption|]. apply IH. apply rstep_park. assumption.
  Qed.

  Definition polite_only (t : rtid) : Prop := match t with XR _ p => p = true | _ => True end.

  (* deadlock freedom: in every reachable state, unless every thread is done, some thread has an enabled step -
     even when all reader acquisitions defer to parked writers *)
  Theorem rich_deadlock_free rb cb sched : let s := rexec rb cb sched in
    all_done s = true \/ exists t, polite_only t /\ renabled s t = true.
  Proof.
    intros s. destruct (rexec_inv nrounds m fails rb cb sched) as (HI & _). fold s in HI.
    destruct (rexec_park rb cb sched) as (P1 & P2). fold s in P1, P2.
    destruct (lk (co s)) eqn:El.
    - destruct (inv_free M _ HI El) as ((r & Eh) & Hcr & Hcc).
      destruct (r <? N) eqn:Er.
      { right. exists XH. split; [exact I|]. unfold TracerRich.renabled. rewrite Eh, Er, El. reflexivity. }
      destruct (writer_parked s) eqn:Ew.
      { unfold writer_parked in Ew. apply orb_true_iff in Ew. destruct Ew as [Ew|Ew].
        - destruct (P1 Ew) as (r0 & Hr0 & Hlt). rewrite Eh in Hr0. inversion Hr0; subst. apply Nat.ltb_lt in Hlt. congruence.
        - apply existsb_exists in Ew. destruct Ew as ([pk bud] & Hin & Hpk). cbn in Hpk. subst pk.
          apply In_nth_error in Hin. destruct Hin as (j & Hj). destruct (P2 _ _ Hj) as (Hc & Hb).
          right. exists (XC j). split; [exact I|]. unfold TracerRich.renabled. rewrite Hc, (nth_error_nth _ _ _ Hj), El.
          destruct bud; [lia|reflexivity]. }
      destruct (forallb (rdone s) (seq 0 (length (rds (co s))))) eqn:Fr.
      + destruct (forallb (cdone s) (seq 0 (length (cls (co s))))) eqn:Fc.
        * left. unfold TracerRich.all_done, hdone. rewrite Eh, Fr, Fc. apply Nat.ltb_ge in Er. apply Nat.leb_le in Er. rewrite Er. reflexivity.
        * apply forallb_false_ex in Fc. destruct Fc as (j & Hj & Hd). apply in_seq in Hj.
          destruct (nth_error_lt (cls (co s)) j) as (x & En); [lia|].
          pose proof (count_zero_none _ _ _ _ Hcc En) as Hx. destruct x; try discriminate.
          right. exists (XC j). split; [exact I|]. unfold TracerRich.renabled. unfold cdone in Hd. rewrite En in *.
          destruct (nth j (cx s) (false, 0)) as [pk bud]. rewrite Hd, El. reflexivity.
      + apply forallb_false_ex in Fr. destruct Fr as (i & Hi & Hd). apply in_seq in Hi.
        destruct (nth_error_lt (rds (co s)) i) as (x & En); [lia|].
        pose proof (count_zero_none _ _ _ _ Hcr En) as Hx. destruct x; try discriminate.
        right. exists (XR i true). split; [reflexivity|]. unfold TracerRich.renabled. unfold rdone in Hd. rewrite En in *.
        destruct (nth i (rx s) (false, 0)) as [incall bud]. destruct incall.
        * rewrite Ew, El. reflexivity.
        * cbn in Hd. rewrite Hd. reflexivity.
    - destruct (inv_readers M _ _ HI El) as (_ & Hcr & Hn & _).
      destruct (count_pos_ex is_rhold (rds (co s))) as (i & x & En & Hx); [lia|].
      right. exists (XR i true). split; [reflexivity|]. unfold TracerRich.renabled. rewrite En. destruct x; [discriminate|reflexivity|reflexivity].
    - right. destruct (hd (co s)) as [r|r k] eqn:Eh.
      + destruct (inv_writer_idle M _ _ HI El Eh) as (_ & Hcc).
        destruct (count_pos_ex is_chold (cls (co s))) as (j & x & En & Hx); [lia|].
        exists (XC j). split; [exact I|]. unfold TracerRich.renabled. rewrite En. destruct x; [discriminate|reflexivity|reflexivity].
      + exists XH. split; [exact I|]. unfold TracerRich.renabled. rewrite Eh. reflexivity.
  Qed.

  (* a step that is not enabled is a blocked acquisition (or a finished thread): it changes neither the
     Conc/Tracer.v component nor the history - at most the thread parks *)
  Theorem rich_blocked_is_parking s t : renabled s t = false -> co (rstep s t) = co s /\ log (rstep s t) = log s.
  Proof.
    destruct t as [|i p|j]; unfold TracerRich.renabled, TracerRich.rstep.
    - destruct (hd (co s)) as [r|r k]; [|discriminate].
      destruct (r <? N); [|auto]. cbn [andb]. intros ->. auto.
    - destruct (nth_error (rds (co s)) i) as [[| |]|]; [|discriminate|discriminate|auto].
      destruct (nth i (rx s) (false, 0)) as [incall bud]. destruct incall.
      + intros H. apply negb_false_iff in H. rewrite H. auto.
      + intros H. apply negb_false_iff in H. apply Nat.eqb_eq in H. subst. auto.
    - destruct (nth_error (cls (co s)) j) as [[| |]|]; [|discriminate|discriminate|auto].
      destruct (nth j (cx s) (false, 0)) as [pk bud]. destruct bud; [auto|]. cbn [Nat.eqb negb andb]. intros ->. auto.
  Qed.

  (* the reader-holds / writer-waits situation: the tracer thread finds the lock read-held and parks; from then on
     a deferring reader acquisition is refused while a non-deferring one is admitted (both behaviours of
     parking_lot are schedules of the model); the Conc/Tracer.v component is unchanged by the refused attempts *)
  Theorem rich_parked_writer s n r i bud :
    lk (co s) = Readers n -> hd (co s) = HIdle r -> r < N ->
    nth_error (rds (co s)) i = Some RIdle -> nth i (rx s) (false, 0) = (true, bud) ->
    let s' := rstep s XH in
    co s' = co s /\ hpark s' = true /\ renabled s' XH = false /\
    rstep s' (XR i true) = s' /\ renabled s' (XR i true) = false /\
    lk (co (rstep s' (XR i false))) = Readers (S n) /\ renabled s' (XR i false) = true.
  Proof.
    intros El Eh Hr En Ex. apply Nat.ltb_lt in Hr.
    assert (Es : rstep s XH = {| co := co s; err := err s; hpark := true; rx := rx s; cx := cx s; log := log s |}).
    { unfold TracerRich.rstep. rewrite Eh, Hr, El. reflexivity. }
    cbv zeta. rewrite Es. cbn [co hpark].
    split; [reflexivity|]. split; [reflexivity|].
    unfold TracerRich.renabled, TracerRich.rstep, writer_parked. cbn [co err hpark rx cx log].
    rewrite Eh, Hr, El, En, Ex. cbn [is_free is_writer andb orb negb].
    split; [reflexivity|]. split; [reflexivity|]. split; [reflexivity|]. split; [|reflexivity].
    unfold cstep, tstep. rewrite En, El. reflexivity.
  Qed.
End RichLive.

(* ---------- remaining work: every enabled step consumes exactly one unit ---------- *)
Lemma nth_set_nth_eq {A} (l : list A) i v d : i < length l -> nth i (set_nth i v l) d = v.
Proof. revert i. induction l as [|x l IH]; intros [|i] H; cbn in *; try lia; auto. apply IH. lia. Qed.

Lemma nth_set_nth_neq {A} (l : list A) i j v d : i <> j -> nth j (set_nth i v l) d = nth j l d.
Proof. revert i j. induction l as [|x l IH]; intros [|i] [|j] H; cbn; auto; try lia. Qed.

Lemma nth_not_default {A} (l : list A) i d : nth i l d <> d -> i < length l.
Proof. intros H. destruct (Nat.lt_ge_cases i (length l)) as [Hl|Hl]; [assumption|]. exfalso. apply H. apply nth_overflow. assumption. Qed.

Lemma sumf_ext f g n : (forall i, i < n -> g i = f i) -> sumf g n = sumf f n.
Proof. induction n as [|n IH]; intros H; cbn; [reflexivity|]. rewrite IH, H by (intros; try apply H; lia). reflexivity. Qed.

Lemma sumf_one f g n i : i < n -> (forall i', i' < n -> i' <> i -> g i' = f i') -> g i + 1 = f i -> sumf g n + 1 = sumf f n.
Proof.
  induction n as [|n IH]; intros Hi Hne Hg; [lia|]. cbn [sumf].
  destruct (Nat.eq_dec i n) as [->|Hin].
  - rewrite (sumf_ext f g n) by (intros i' Hi'; apply Hne; lia). lia.
  - rewrite (Hne n) by lia. assert (sumf g n + 1 = sumf f n); [|lia]. apply IH; [lia| |assumption]. intros i' H1 H2. apply Hne; lia.
Qed.

Section Work.
  Context (nrounds : nat) (m : nat -> nat) (fails : bool).
  Notation N := (nsec nrounds fails).
  Notation M := (msec nrounds m).
  Notation rstep := (rstep nrounds m fails).
  Notation rexec := (rexec nrounds m fails).
  Notation renabled := (renabled nrounds fails).
  Notation work := (work nrounds m fails).
  Notation hrest := (hrest nrounds m fails).

  Lemma tstep_TH_frame c : rds (tstep N M c TH) = rds c /\ cls (tstep N M c TH) = cls c.
  Proof.
    unfold tstep. destruct (hd c) as [r|r k].
    - destruct (r <? N); [destruct (lk c)|]; auto.
    - destruct (k <? M r); auto.
  Qed.
  Lemma tstep_TR_frame c i : hd (tstep N M c (TR i)) = hd c /\ cls (tstep N M c (TR i)) = cls c.
  Proof. unfold tstep. destruct (nth_error (rds c) i) as [[| |]|]; [destruct (lk c)| | |]; auto. Qed.
  Lemma tstep_TC_frame c j : hd (tstep N M c (TC j)) = hd c /\ rds (tstep N M c (TC j)) = rds c.
  Proof. unfold tstep. destruct (nth_error (cls c) j) as [[| |]|]; [destruct (lk c)| | |]; auto. Qed.

  (* a reader that holds the lock is no longer "calling" *)
  Definition InCall (s : rsys) : Prop :=
    forall i x, nth_error (rds (co s)) i = Some x -> is_rhold x = true -> fst (nth i (rx s) (false, 0)) = false.

  Lemma rstep_incall s t : InCall s -> InCall (rstep s t).
  Proof.
    intros H. destruct t as [|i p|j]; unfold TracerRich.rstep, cstep.
    - destruct (hd (co s)) as [r|r k].
      + destruct (r <? N); [|exact H]. destruct (is_free (lk (co s))); [|exact H].
        unfold InCall. cbn [co rx]. rewrite (proj1 (tstep_TH_frame _)). exact H.
      + destruct ((r =? nrounds) && negb (err s)); [exact H|].
        unfold InCall. cbn [co rx]. rewrite (proj1 (tstep_TH_frame _)). exact H.
    - destruct (nth_error (rds (co s)) i) as [[| |]|] eqn:En; [| | |exact H].
      + destruct (nth i (rx s) (false, 0)) as [incall bud] eqn:Ex. destruct incall.
        * destruct ((p && writer_parked s) || is_writer (lk (co s))) eqn:Eb; [exact H|].
          apply orb_false_iff in Eb. destruct Eb as [_ Eb].
          assert (Hlen : i < length (rx s)) by (apply (nth_not_default _ _ (false, 0)); rewrite Ex; discriminate).
          assert (Er : rds (tstep N M (co s) (TR i)) = set_nth i RHold (rds (co s))).
          { unfold tstep. rewrite En. destruct (lk (co s)); [reflexivity|reflexivity|discriminate]. }
          unfold InCall. cbn [co rx]. rewrite Er. intros i' x Hn Hx. destruct (Nat.eq_dec i i') as [<-|Hne].
          -- rewrite nth_set_nth_eq by assumption. reflexivity.
          -- rewrite nth_set_nth_neq by assumption. rewrite nth_error_set_nth_neq in Hn by assumption. exact (H _ _ Hn Hx).
        * destruct bud as [|b]; [exact H|]. unfold InCall. cbn [co rx]. intros i' x Hn Hx. destruct (Nat.eq_dec i i') as [<-|Hne].
          -- rewrite En in Hn. inversion Hn; subst. discriminate.
          -- rewrite nth_set_nth_neq by assumption. exact (H _ _ Hn Hx).
      + unfold InCall. cbn [co rx]. unfold tstep. rewrite En. cbn [rds]. intros i' x Hn Hx. destruct (Nat.eq_dec i i') as [<-|Hne].
        * exact (H _ _ En eq_refl).
        * rewrite nth_error_set_nth_neq in Hn by assumption. exact (H _ _ Hn Hx).
      + unfold InCall. cbn [co rx]. unfold tstep. rewrite En. cbn [rds]. intros i' x Hn Hx. destruct (Nat.eq_dec i i') as [<-|Hne].
        * rewrite (nth_error_set_nth_eq _ _ _ _ En) in Hn. inversion Hn; subst. discriminate.
        * rewrite nth_error_set_nth_neq in Hn by assumption. exact (H _ _ Hn Hx).
    - destruct (nth_error (cls (co s)) j) as [[| |]|]; [| | |exact H].
      + destruct (nth j (cx s) (false, 0)) as [pk bud]. destruct bud; [exact H|]. destruct (is_free (lk (co s))); [|exact H].
        unfold InCall. cbn [co rx]. rewrite (proj2 (tstep_TC_frame _ _)). exact H.
      + unfold InCall. cbn [co rx]. rewrite (proj2 (tstep_TC_frame _ _)). exact H.
      + unfold InCall. cbn [co rx]. rewrite (proj2 (tstep_TC_frame _ _)). exact H.
  Qed.

  Lemma rexec_incall rb cb sched : InCall (rexec rb cb sched).
  Proof.
    unfold TracerRich.rexec. assert (H0 : InCall (rinit rb cb)).
    { intros i x Hn Hx. cbn [rinit co tinit rds] in Hn. apply nth_error_In in Hn. apply repeat_spec in Hn. subst. discriminate. }
    revert H0. generalize (rinit rb cb).
    induction sched as [|t l IH]; intros s H; cbn [fold_left]; [assumption|]. apply IH. apply rstep_incall. assumption.
  Qed.

  Lemma hwork_unfold e r : r < N ->
    hwork nrounds m e r (N - r) = M r + 2 + estore nrounds r e + hwork nrounds m e (S r) (N - S r).
  Proof. intros H. replace (N - r) with (S (N - S r)) by lia. reflexivity. Qed.

  Lemma estore_other r e : r <> nrounds -> estore nrounds r e = 0.
  Proof. intros H. unfold estore. apply Nat.eqb_neq in H. rewrite H. reflexivity. Qed.

  (* beyond the error section the cost does not depend on the error flag *)
  Lemma hwork_err_indep e e' n : forall r, nrounds < r -> hwork nrounds m e r n = hwork nrounds m e' r n.
  Proof.
    induction n as [|n IH]; intros r Hr; cbn [hwork]; [reflexivity|].
    rewrite !estore_other by lia. rewrite (IH (S r)) by lia. reflexivity.
  Qed.

  Theorem rich_work_step s t : InCall s -> renabled s t = true -> work (rstep s t) + 1 = work s.
  Proof.
    intros HC. destruct t as [|i p|j]; unfold TracerRich.renabled, TracerRich.rstep, cstep.
    - (* tracer thread: readers' and clearers' shares are untouched *)
      assert (Hfr : forall c' e', rds c' = rds (co s) -> cls c' = cls (co s) -> forall hp lg,
                TracerRich.hrest nrounds m fails {| co := c'; err := e'; hpark := hp; rx := rx s; cx := cx s; log := lg |} + 1 = hrest s ->
                work {| co := c'; err := e'; hpark := hp; rx := rx s; cx := cx s; log := lg |} + 1 = work s).
      { intros c' e' E1 E2 hp lg Hh. unfold TracerRich.work. cbn [co]. rewrite E1, E2.
        rewrite (sumf_ext (rrest s) (rrest _)), (sumf_ext (crest s) (crest _)); [lia| |].
        - intros j _. unfold crest. cbn [co cx]. rewrite E2. reflexivity.
        - intros i _. unfold rrest. cbn [co rx]. rewrite E1. reflexivity. }
      destruct (hd (co s)) as [r|r k] eqn:Eh.
      + destruct (r <? N) eqn:Er; [|discriminate]. cbn [andb]. intros Hf. rewrite Hf.
        destruct (tstep_TH_frame (co s)) as (F1 & F2). apply Hfr; [assumption|assumption|].
        unfold TracerRich.hrest. cbn [co err]. unfold tstep. rewrite Eh, Er. destruct (lk (co s)); try discriminate. cbn [hd].
        apply Nat.ltb_lt in Er. rewrite (hwork_unfold (err s) r Er). lia.
      + intros _. destruct ((r =? nrounds) && negb (err s)) eqn:Est.
        * (* set_error *)
          apply Hfr; [reflexivity|reflexivity|]. unfold TracerRich.hrest. cbn [co err]. rewrite Eh.
          assert (Er : r = nrounds) by (apply andb_true_iff in Est; destruct Est as [Est _]; apply Nat.eqb_eq; exact Est).
          rewrite (hwork_err_indep true (err s)) by lia.
          unfold estore at 2. rewrite Est. unfold estore. rewrite andb_false_r. lia.
        * destruct (tstep_TH_frame (co s)) as (F1 & F2). apply Hfr; [assumption|assumption|].
          unfold TracerRich.hrest. cbn [co err]. unfold tstep. rewrite Eh. unfold estore. rewrite Est.
          destruct (k <? M r) eqn:Ek; cbn [hd].
          -- apply Nat.ltb_lt in Ek. unfold estore. rewrite Est. lia.
          -- apply Nat.ltb_ge in Ek. lia.
    - (* reader i *)
      assert (Hfr : forall c' rx' lg, hd c' = hd (co s) -> cls c' = cls (co s) -> length (rds c') = length (rds (co s)) ->
                i < length (rds (co s)) ->
                (forall i', i' <> i -> nth_error (rds c') i' = nth_error (rds (co s)) i' /\ nth i' rx' (false, 0) = nth i' (rx s) (false, 0)) ->
                rrest {| co := c'; err := err s; hpark := hpark s; rx := rx'; cx := cx s; log := lg |} i + 1 = rrest s i ->
                work {| co := c'; err := err s; hpark := hpark s; rx := rx'; cx := cx s; log := lg |} + 1 = work s).
      { intros c' rx' lg E1 E2 E3 Hi Hne Hr. unfold TracerRich.work. cbn [co]. rewrite E2, E3.
        assert (Hh : TracerRich.hrest nrounds m fails {| co := c'; err := err s; hpark := hpark s; rx := rx'; cx := cx s; log := lg |} = hrest s)
          by (unfold TracerRich.hrest; cbn [co]; rewrite E1; reflexivity).
        rewrite Hh. rewrite (sumf_ext (crest s) (crest _)) by (intros j _; unfold crest; cbn [co cx]; rewrite E2; reflexivity).
        pose proof (sumf_one (rrest s) (rrest {| co := c'; err := err s; hpark := hpark s; rx := rx'; cx := cx s; log := lg |}) _ i Hi) as Hs.
        rewrite <- Hs; [lia| |assumption].
        intros i' _ Hi'. unfold rrest. cbn [co rx]. destruct (Hne i' Hi') as [-> ->]. reflexivity. }
      destruct (nth_error (rds (co s)) i) as [x|] eqn:En; [|discriminate].
      assert (Hi : i < length (rds (co s))) by (apply nth_error_Some; congruence).
      destruct (tstep_TR_frame (co s) i) as (F1 & F2).
      assert (Hrds : forall v, rds (tstep N M (co s) (TR i)) = set_nth i v (rds (co s)) ->
                forall i', i' <> i -> nth_error (rds (tstep N M (co s) (TR i))) i' = nth_error (rds (co s)) i').
      { intros v -> i' Hi'. apply nth_error_set_nth_neq. auto. }
      destruct x.
      + destruct (nth i (rx s) (false, 0)) as [incall bud] eqn:Ex. destruct incall.
        * intros Hb. apply negb_true_iff in Hb. rewrite Hb. apply orb_false_iff in Hb. destruct Hb as [_ Hb].
          assert (Hlen : i < length (rx s)) by (apply (nth_not_default _ _ (false, 0)); rewrite Ex; discriminate).
          assert (Er : rds (tstep N M (co s) (TR i)) = set_nth i RHold (rds (co s))).
          { unfold tstep. rewrite En. destruct (lk (co s)); [reflexivity|reflexivity|discriminate]. }
          apply Hfr; try assumption.
          -- rewrite Er. apply set_nth_length.
          -- intros i' Hi'. split; [exact (Hrds _ Er i' Hi')|apply nth_set_nth_neq; auto].
          -- unfold rrest. cbn [co rx]. rewrite nth_set_nth_eq by assumption. rewrite Ex, Er, En.
             rewrite (nth_error_set_nth_eq _ _ _ _ En). lia.
        * intros Hb. apply negb_true_iff in Hb. apply Nat.eqb_neq in Hb. destruct bud as [|b]; [lia|].
          assert (Hlen : i < length (rx s)) by (apply (nth_not_default _ _ (false, 0)); rewrite Ex; discriminate).
          apply Hfr; try reflexivity; try assumption.
          -- intros i' Hi'. split; [reflexivity|apply nth_set_nth_neq; auto].
          -- unfold rrest. cbn [co rx]. rewrite nth_set_nth_eq by assumption. rewrite Ex, En. lia.
      + intros _.
        assert (Er : rds (tstep N M (co s) (TR i)) = set_nth i RGot (rds (co s))) by (unfold tstep; rewrite En; reflexivity).
        apply Hfr; try assumption.
        * rewrite Er. apply set_nth_length.
        * intros i' Hi'. split; [exact (Hrds _ Er i' Hi')|reflexivity].
        * unfold rrest. cbn [co rx]. rewrite Er, En, (nth_error_set_nth_eq _ _ _ _ En).
          destruct (nth i (rx s) (false, 0)) as [incall bud]. lia.
      + intros _.
        assert (Er : rds (tstep N M (co s) (TR i)) = set_nth i RIdle (rds (co s))) by (unfold tstep; rewrite En; reflexivity).
        apply Hfr; try assumption.
        * rewrite Er. apply set_nth_length.
        * intros i' Hi'. split; [exact (Hrds _ Er i' Hi')|reflexivity].
        * unfold rrest. cbn [co rx]. rewrite Er, En, (nth_error_set_nth_eq _ _ _ _ En).
          pose proof (HC _ _ En eq_refl) as Hic.
          destruct (nth i (rx s) (false, 0)) as [incall bud]. cbn in Hic. subst incall. lia.
    - (* clearer j *)
      assert (Hfr : forall c' cx' lg, hd c' = hd (co s) -> rds c' = rds (co s) -> length (cls c') = length (cls (co s)) ->
                j < length (cls (co s)) ->
                (forall j', j' <> j -> nth_error (cls c') j' = nth_error (cls (co s)) j' /\ nth j' cx' (false, 0) = nth j' (cx s) (false, 0)) ->
                crest {| co := c'; err := err s; hpark := hpark s; rx := rx s; cx := cx'; log := lg |} j + 1 = crest s j ->
                work {| co := c'; err := err s; hpark := hpark s; rx := rx s; cx := cx'; log := lg |} + 1 = work s).
      { intros c' cx' lg E1 E2 E3 Hj Hne Hr. unfold TracerRich.work. cbn [co]. rewrite E2, E3.
        assert (Hh : TracerRich.hrest nrounds m fails {| co := c'; err := err s; hpark := hpark s; rx := rx s; cx := cx'; log := lg |} = hrest s)
          by (unfold TracerRich.hrest; cbn [co]; rewrite E1; reflexivity).
        rewrite Hh. rewrite (sumf_ext (rrest s) (rrest _)) by (intros i _; unfold rrest; cbn [co rx]; rewrite E2; reflexivity).
        pose proof (sumf_one (crest s) (crest {| co := c'; err := err s; hpark := hpark s; rx := rx s; cx := cx'; log := lg |}) _ j Hj) as Hs.
        rewrite <- Hs; [lia| |assumption].
        intros j' _ Hj'. unfold crest. cbn [co cx]. destruct (Hne j' Hj') as [-> ->]. reflexivity. }
      destruct (nth_error (cls (co s)) j) as [x|] eqn:En; [|discriminate].
      assert (Hj : j < length (cls (co s))) by (apply nth_error_Some; congruence).
      destruct (tstep_TC_frame (co s) j) as (F1 & F2).
      assert (Hcls : forall v, cls (tstep N M (co s) (TC j)) = set_nth j v (cls (co s)) ->
                forall j', j' <> j -> nth_error (cls (tstep N M (co s) (TC j))) j' = nth_error (cls (co s)) j').
      { intros v -> j' Hj'. apply nth_error_set_nth_neq. auto. }
      destruct x.
      + destruct (nth j (cx s) (false, 0)) as [pk bud] eqn:Ex. intros Hb. apply andb_true_iff in Hb. destruct Hb as [Hb Hf].
        apply negb_true_iff in Hb. apply Nat.eqb_neq in Hb. destruct bud as [|b]; [lia|]. rewrite Hf.
        assert (Hlen : j < length (cx s)) by (apply (nth_not_default _ _ (false, 0)); rewrite Ex; discriminate).
        assert (Er : cls (tstep N M (co s) (TC j)) = set_nth j CHold (cls (co s))).
        { unfold tstep. rewrite En. destruct (lk (co s)); [reflexivity|discriminate|discriminate]. }
        apply Hfr; try assumption.
        * rewrite Er. apply set_nth_length.
        * intros j' Hj'. split; [exact (Hcls _ Er j' Hj')|apply nth_set_nth_neq; auto].
        * unfold crest. cbn [co cx]. rewrite nth_set_nth_eq by assumption. rewrite Ex, Er, En.
          rewrite (nth_error_set_nth_eq _ _ _ _ En). lia.
      + intros _.
        assert (Er : cls (tstep N M (co s) (TC j)) = set_nth j CDone (cls (co s))) by (unfold tstep; rewrite En; reflexivity).
        apply Hfr; try assumption.
        * rewrite Er. apply set_nth_length.
        * intros j' Hj'. split; [exact (Hcls _ Er j' Hj')|reflexivity].
        * unfold crest. cbn [co cx]. rewrite Er, En, (nth_error_set_nth_eq _ _ _ _ En).
          destruct (nth j (cx s) (false, 0)) as [pk bud]. lia.
      + intros _.
        assert (Er : cls (tstep N M (co s) (TC j)) = set_nth j CIdle (cls (co s))) by (unfold tstep; rewrite En; reflexivity).
        apply Hfr; try assumption.
        * rewrite Er. apply set_nth_length.
        * intros j' Hj'. split; [exact (Hcls _ Er j' Hj')|reflexivity].
        * unfold crest. cbn [co cx]. rewrite Er, En, (nth_error_set_nth_eq _ _ _ _ En).
          destruct (nth j (cx s) (false, 0)) as [pk bud]. lia.
  Qed.

  (* for executions: every enabled step of a reachable state consumes one unit of the finite remaining work *)
  Theorem rich_work_decreases rb cb sched t : let s := rexec rb cb sched in
    renabled s t = true -> work (rstep s t) + 1 = work s.
  Proof. intros s. apply rich_work_step. apply rexec_incall. Qed.
End Work.

(* ---------- termination: runs of enabled steps are bounded by the work, and exhausted work means all done ---------- *)
Section Terminate.
  Context (nrounds : nat) (m : nat -> nat) (fails : bool).
  Notation rstep := (rstep nrounds m fails).
  Notation rexec := (rexec nrounds m fails).
  Notation renabled := (renabled nrounds fails).
  Notation work := (work nrounds m fails).

  Fixpoint enabled_run (s : rsys) (l : list rtid) : Prop :=
    match l with [] => True | t :: l' => renabled s t = true /\ enabled_run (rstep s t) l' end.

  Lemma rexec_snoc rb cb sched t : rexec rb cb (sched ++ [t]) = rstep (rexec rb cb sched) t.
  Proof. unfold TracerRich.rexec. rewrite fold_left_app. reflexivity. Qed.

  Theorem rich_enabled_run_bound rb cb l : forall sched, enabled_run (rexec rb cb sched) l ->
    work (rexec rb cb (sched ++ l)) + length l = work (rexec rb cb sched).
  Proof.
    induction l as [|t l IH]; intros sched H.
    - rewrite app_nil_r. cbn. lia.
    - destruct H as [He Hl]. rewrite <- rexec_snoc in Hl. specialize (IH (sched ++ [t]) Hl).
      rewrite <- app_assoc in IH. cbn [app] in IH. rewrite rexec_snoc in IH.
      pose proof (rich_work_decreases nrounds m fails rb cb sched t He) as Hw. cbn [length]. cbv zeta in Hw. lia.
  Qed.

  Theorem rich_no_work_all_done rb cb sched : work (rexec rb cb sched) = 0 -> all_done nrounds fails (rexec rb cb sched) = true.
  Proof.
    intros Hw. destruct (rich_deadlock_free nrounds m fails rb cb sched) as [H|(t & _ & He)]; [exact H|].
    pose proof (rich_work_decreases nrounds m fails rb cb sched t He) as Hd. cbv zeta in Hd. lia.
  Qed.
End Terminate.
