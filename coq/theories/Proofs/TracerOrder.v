(* C20, order / freshness / per-round facts proved directly about the interleaving model Conc/Tracer.v
   (every schedule, any number of readers and clearers). *)
From Coq Require Import List Arith Lia Bool.
Import ListNotations.
From TV Require Import Conc.Tracer Proofs.TracerProofs.


(* ---------- list helpers ---------- *)

Lemma snoc_split {A} (l : list A) (z : A) (p : list A) (y : A) (q : list A) :
  l ++ [z] = p ++ y :: q ->
  (q = [] /\ l = p /\ z = y) \/ (exists q', q = q' ++ [z] /\ l = p ++ y :: q').
Proof.
  intros H. induction q as [|q0 q _] using rev_ind.
  - left. apply app_inj_tail in H. destruct H as [H1 H2]. auto.
  - right. exists q.
    assert (E : p ++ y :: q ++ [q0] = (p ++ y :: q) ++ [q0]) by (rewrite <- app_assoc; reflexivity).
    rewrite E in H. apply app_inj_tail in H. destruct H as [H1 H2]. subst. auto.
Qed.

Lemma set_nth_length {A} (i : nat) (v : A) (l : list A) : length (set_nth i v l) = length l.
Proof. revert i. induction l as [|x l IH]; intros [|i]; cbn; auto. Qed.

Lemma nth_error_set_nth_neq {A} (l : list A) (i j : nat) (v : A) :
  i <> j -> nth_error (set_nth i v l) j = nth_error l j.
Proof.
  revert i j. induction l as [|x l IH]; intros [|i] [|j] H; cbn; auto; try lia.
Qed.

Lemma count_pos_ex {A} (p : A -> bool) (l : list A) :
  0 < count p l -> exists i x, nth_error l i = Some x /\ p x = true.
Proof.
  unfold count. induction l as [|y l IH]; cbn [filter]; intros H.
  - cbn in H. lia.
  - destruct (p y) eqn:Ey.
    + exists 0, y. auto.
    + destruct (IH H) as (i & x & Hi & Hx). exists (S i), x. auto.
Qed.

(* ---------- the specification value: which atoms are in a whole-rounds state ---------- *)

Section Spec.
  Context (m : nat -> nat).
  Notation whole := (whole m).
  Notation rounds_state := (rounds_state m).

  Lemma in_subs r k a : In a (subs r k) <-> fst a = r /\ snd a < k.
  Proof.
    induction k as [|k IH]; cbn [subs].
    - split; [intros []|lia].
    - rewrite in_app_iff, IH. cbn [In]. destruct a as [r' k']. cbn [fst snd]. split.
      + intros [[H1 H2]|[H|[]]]; [lia|]. inversion H; subst. lia.
      + intros [H1 H2]. destruct (Nat.eq_dec k' k) as [->|Hne]; [right; left; subst; reflexivity|left; lia].
  Qed.

  Lemma in_whole n : forall i a, In a (whole i n) <-> i <= fst a < i + n /\ snd a < m (fst a).
  Proof.
    induction n as [|n IH]; intros i a; cbn [Tracer.whole].
    - split; [intros []|lia].
    - rewrite in_app_iff, in_subs, IH. split.
      + intros [[H1 H2]|[H1 H2]]; [subst; lia|lia].
      + intros [H1 H2]. destruct (Nat.eq_dec (fst a) i) as [E|E]; [left; subst; auto|right; lia].
  Qed.

  (* a whole-rounds state contains sub-update k of round r exactly when r is one of its rounds *)
  Lemma in_rounds_state b p a : In a (rounds_state b p) <-> b <= fst a < p /\ snd a < m (fst a).
  Proof. unfold Tracer.rounds_state. rewrite in_whole. lia. Qed.

  Lemma whole_app n1 : forall n2 i, whole i (n1 + n2) = whole i n1 ++ whole (i + n1) n2.
  Proof.
    induction n1 as [|n1 IH]; intros n2 i.
    - cbn. rewrite Nat.add_0_r. reflexivity.
    - cbn [Nat.add Tracer.whole]. rewrite IH, <- app_assoc. replace (S i + n1) with (i + S n1) by lia. reflexivity.
  Qed.

  (* the rounds b..p-1 are the rounds b..q-1 followed by the rounds q..p-1 *)
  Lemma rounds_state_split b q p : b <= q -> q <= p -> rounds_state b p = rounds_state b q ++ rounds_state q p.
  Proof.
    intros H1 H2. unfold Tracer.rounds_state. replace (p - b) with ((q - b) + (p - q)) by lia.
    rewrite whole_app. replace (b + (q - b)) with q by lia. reflexivity.
  Qed.

  Lemma whole_ext (m2 : nat -> nat) n : forall i, (forall j, i <= j < i + n -> m j = m2 j) -> whole i n = Tracer.whole m2 i n.
  Proof.
    induction n as [|n IH]; intros i H; cbn [Tracer.whole]; [reflexivity|].
    rewrite (H i) by lia. rewrite IH; [reflexivity|]. intros j Hj. apply H. lia.
  Qed.

  Lemma rounds_state_ext (m2 : nat -> nat) b p : (forall j, b <= j < p -> m j = m2 j) -> rounds_state b p = Tracer.rounds_state m2 b p.
  Proof. intros H. unfold Tracer.rounds_state. apply whole_ext. intros j Hj. apply H. lia. Qed.

  Lemma subs_length r k : length (subs r k) = k.
  Proof. induction k as [|k IH]; cbn [subs]; [reflexivity|]. rewrite app_length, IH. cbn. lia. Qed.
End Spec.

(* ---------- executions ---------- *)

Section Order.
  Context (nrounds : nat) (m : nat -> nat).
  Notation tstep := (tstep nrounds m).
  Notation rounds_state := (rounds_state m).
  Notation Inv := (Inv m).

  Definition run (s : sys) (l : list tid) : sys := fold_left tstep l s.

  Lemma texec_run nr nc l : texec nrounds m nr nc l = run (tinit nr nc) l.
  Proof. reflexivity. Qed.

  Lemma run_app s l1 l2 : run s (l1 ++ l2) = run (run s l1) l2.
  Proof. unfold run. apply fold_left_app. Qed.

  Lemma texec_app nr nc l1 l2 : texec nrounds m nr nc (l1 ++ l2) = run (texec nrounds m nr nc l1) l2.
  Proof. unfold texec, run. apply fold_left_app. Qed.

  Lemma run_inv s l : Inv s -> Inv (run s l).
  Proof. revert s. induction l as [|t l IH]; intros s H; cbn; [assumption|]. apply IH. apply step_inv. assumption. Qed.

  Definition ole (o1 o2 : list atom * nat * nat) : Prop :=
    let '(_, b1, r1) := o1 in let '(_, b2, r2) := o2 in b1 <= b2 /\ r1 <= r2.

  (* one step: the clear marker and the handler's round index never go back; at most one snapshot is appended,
     and it is stamped with the marker / index of the moment *)
  Lemma step_mono s t : Inv s ->
    base s <= base (tstep s t) /\ hround (hd s) <= hround (hd (tstep s t)) /\
    (obs (tstep s t) = obs s \/ obs (tstep s t) = obs s ++ [(cell s, base s, hround (hd s))]) /\
    length (rds (tstep s t)) = length (rds s) /\ length (cls (tstep s t)) = length (cls s).
  Proof.
    intros (Hb & _). destruct t as [|i|i]; unfold Tracer.tstep.
    - destruct (hd s) as [r|r k] eqn:Eh.
      + destruct (r <? nrounds); [|rewrite Eh; auto 6].
        destruct (lk s); cbn [base hd obs hround rds cls]; rewrite ?Eh; cbn [hround]; auto 6.
      + destruct (k <? m r); cbn [base hd obs hround rds cls]; auto 6.
    - destruct (nth_error (rds s) i) as [[| |]|]; [| | |auto 6].
      + destruct (lk s); cbn [base hd obs hround rds cls]; rewrite ?set_nth_length; auto 6.
      + cbn [base hd obs hround rds cls]. rewrite ?set_nth_length; auto 6.
      + cbn [base hd obs hround rds cls]. rewrite ?set_nth_length; auto 6.
    - destruct (nth_error (cls s) i) as [[| |]|]; [| | |auto 6].
      + destruct (lk s); cbn [base hd obs hround rds cls]; rewrite ?set_nth_length; auto 6.
      + cbn [base hd obs hround rds cls]. rewrite ?set_nth_length; auto 6.
      + cbn [base hd obs hround rds cls]. rewrite ?set_nth_length; auto 6.
  Qed.

  (* running on from any reachable state: the old snapshots stay, and every snapshot taken from now on is
     stamped between the present and the final marker / index *)
  Lemma run_mono l : forall s, Inv s ->
    base s <= base (run s l) /\ hround (hd s) <= hround (hd (run s l)) /\
    length (rds (run s l)) = length (rds s) /\ length (cls (run s l)) = length (cls s) /\
    exists ext, obs (run s l) = obs s ++ ext /\
      Forall (fun o => let '(_, b, r) := o in
                base s <= b <= base (run s l) /\ hround (hd s) <= r <= hround (hd (run s l))) ext.
  Proof.
    induction l as [|t l IH]; intros s HI.
    - cbn. repeat split; auto. exists []. rewrite app_nil_r. auto.
    - cbn [run fold_left]. fold (run (tstep s t) l).
      destruct (step_mono s t HI) as (H1 & H2 & H3 & H4 & H5).
      destruct (IH (tstep s t) (step_inv nrounds m s t HI)) as (I1 & I2 & I3 & I4 & ext & I5 & I6).
      repeat split; try lia.
      destruct H3 as [H3|H3].
      + exists ext. rewrite I5, H3. split; [reflexivity|].
        eapply Forall_impl; [|exact I6]. intros [[v b] r]. lia.
      + exists ((cell s, base s, hround (hd s)) :: ext). rewrite I5, H3, <- app_assoc. split; [reflexivity|].
        constructor; [lia|]. eapply Forall_impl; [|exact I6]. intros [[v b] r]. lia.
  Qed.

  Definition ordered (l : list (list atom * nat * nat)) : Prop :=
    forall l1 x l2 y l3, l = l1 ++ x :: l2 ++ y :: l3 -> ole x y.

  Definition Inv2 (s : sys) : Prop :=
    Inv s /\ ordered (obs s) /\
    Forall (fun o => let '(_, b, r) := o in b <= base s /\ r <= hround (hd s)) (obs s).

  Lemma step_inv2 s t : Inv2 s -> Inv2 (tstep s t).
  Proof.
    intros (HI & Ho & Hf). split; [apply step_inv; assumption|].
    destruct (step_mono s t HI) as (H1 & H2 & H3 & _).
    destruct H3 as [H3|H3]; rewrite H3.
    - split; [assumption|]. eapply Forall_impl; [|exact Hf]. intros [[v b] r]. lia.
    - split.
      + intros l1 x l2 y l3 E.
        replace (l1 ++ x :: l2 ++ y :: l3) with ((l1 ++ x :: l2) ++ y :: l3) in E by (rewrite <- app_assoc; reflexivity).
        apply snoc_split in E. destruct E as [(E1 & E2 & E3)|(q' & E1 & E2)].
        * subst y. rewrite Forall_forall in Hf.
          assert (Hx : In x (obs s)) by (rewrite E2; apply in_or_app; right; left; reflexivity).
          specialize (Hf x Hx). destruct x as [[v b] r]. unfold ole. lia.
        * apply (Ho l1 x l2 y q'). rewrite E2, <- app_assoc. reflexivity.
      + apply Forall_app. split.
        * eapply Forall_impl; [|exact Hf]. intros [[v b] r]. lia.
        * constructor; [lia|constructor].
  Qed.

  Lemma init_inv2 nr nc : Inv2 (tinit nr nc).
  Proof.
    split; [apply init_inv|]. cbn [tinit obs]. split; [|constructor].
    intros l1 x l2 y l3 E. destruct l1; discriminate.
  Qed.

  Lemma exec_inv2 nr nc sched : Inv2 (texec nrounds m nr nc sched).
  Proof.
    unfold texec. generalize (init_inv2 nr nc). generalize (tinit nr nc).
    induction sched as [|t sched IH]; intros s Hs; cbn [fold_left]; [assumption|].
    apply IH. apply step_inv2. assumption.
  Qed.

  (* ---- monotonicity: snapshots in the order in which they were taken ---- *)
  Theorem obs_monotone nr nc sched o1 v1 b1 r1 o2 v2 b2 r2 o3 :
    obs (texec nrounds m nr nc sched) = o1 ++ (v1, b1, r1) :: o2 ++ (v2, b2, r2) :: o3 ->
    b1 <= b2 /\ r1 <= r2 /\ b1 <= r1 /\ b2 <= r2 /\
    v1 = rounds_state b1 r1 /\ v2 = rounds_state b2 r2.
  Proof.
    intros E. destruct (exec_inv2 nr nc sched) as ((_ & _ & Hf) & Ho & _).
    pose proof (Ho _ _ _ _ _ E) as Hle. cbn in Hle.
    rewrite Forall_forall in Hf.
    assert (H1 : In (v1, b1, r1) (obs (texec nrounds m nr nc sched))) by (rewrite E; apply in_or_app; right; left; reflexivity).
    assert (H2 : In (v2, b2, r2) (obs (texec nrounds m nr nc sched))).
    { rewrite E. apply in_or_app; right; right. apply in_or_app; right; left; reflexivity. }
    pose proof (Hf _ H1) as F1. pose proof (Hf _ H2) as F2. cbn in F1, F2. intuition.
  Qed.

  (* no clear completed between the two snapshots (same marker): the later value extends the earlier one by
     whole rounds *)
  Theorem obs_prefix nr nc sched o1 v1 b r1 o2 v2 r2 o3 :
    obs (texec nrounds m nr nc sched) = o1 ++ (v1, b, r1) :: o2 ++ (v2, b, r2) :: o3 ->
    r1 - b <= r2 - b /\ v2 = v1 ++ rounds_state r1 r2.
  Proof.
    intros E. destruct (obs_monotone _ _ _ _ _ _ _ _ _ _ _ _ E) as (_ & H2 & H3 & H4 & -> & ->).
    split; [lia|]. apply rounds_state_split; assumption.
  Qed.

  (* in general a later snapshot differs from an earlier one only by whole rounds: the cleared rounds b1..b2-1
     are dropped from the front and the new rounds r1..r2-1 are appended (when the clear did not overtake r1) *)
  Theorem obs_cut_extend nr nc sched o1 v1 b1 r1 o2 v2 b2 r2 o3 :
    obs (texec nrounds m nr nc sched) = o1 ++ (v1, b1, r1) :: o2 ++ (v2, b2, r2) :: o3 ->
    b2 <= r1 ->
    v1 = rounds_state b1 b2 ++ rounds_state b2 r1 /\ v2 = rounds_state b2 r1 ++ rounds_state r1 r2.
  Proof.
    intros E Hb. destruct (obs_monotone _ _ _ _ _ _ _ _ _ _ _ _ E) as (H1 & H2 & H3 & H4 & -> & ->).
    split; apply rounds_state_split; assumption.
  Qed.

  (* ---- freshness and clear: snapshots cloned after a given moment of the run ---- *)
  Theorem obs_after nr nc s1 s2 :
    exists ext, obs (texec nrounds m nr nc (s1 ++ s2)) = obs (texec nrounds m nr nc s1) ++ ext /\
      Forall (fun o => let '(v, b, r) := o in
                base (texec nrounds m nr nc s1) <= b /\ hround (hd (texec nrounds m nr nc s1)) <= r /\
                b <= r /\ v = rounds_state b r) ext.
  Proof.
    rewrite texec_app.
    destruct (run_mono s2 _ (exec_inv nrounds m nr nc s1)) as (_ & _ & _ & _ & ext & E & F).
    exists ext. split; [assumption|].
    pose proof (run_inv _ s2 (exec_inv nrounds m nr nc s1)) as (_ & _ & Ho). rewrite E in Ho.
    apply Forall_app in Ho. destruct Ho as [_ Ho].
    rewrite Forall_forall in *. intros [[v b] r] Hin. specialize (F _ Hin). specialize (Ho _ Hin). cbn in F, Ho. intuition.
  Qed.

  (* freshness: once the handler has released the lock after round q-1 (its index is q or more), every snapshot
     cloned from then on contains the whole round q-1, unless a clear completed at or after that round *)
  Theorem obs_fresh nr nc s1 s2 q v b r :
    q < hround (hd (texec nrounds m nr nc s1)) ->
    In (v, b, r) (obs (texec nrounds m nr nc (s1 ++ s2))) ->
    In (v, b, r) (obs (texec nrounds m nr nc s1)) \/
    (q < r /\ (b <= q -> forall k, k < m q -> In (q, k) v)).
  Proof.
    intros Hq Hin. destruct (obs_after nr nc s1 s2) as (ext & E & F). rewrite E in Hin.
    apply in_app_or in Hin. destruct Hin as [Hin|Hin]; [left; assumption|right].
    rewrite Forall_forall in F. specialize (F _ Hin). cbn in F. destruct F as (F1 & F2 & F3 & ->).
    split; [lia|]. intros Hb k Hk. apply in_rounds_state. cbn [fst snd]. lia.
  Qed.

  (* clear: after a clear completed when the handler's index was c (the marker is c or more), no snapshot cloned
     from then on shows any sub-update of a round below c *)
  Theorem obs_cleared nr nc s1 s2 v b r q k :
    q < base (texec nrounds m nr nc s1) ->
    In (v, b, r) (obs (texec nrounds m nr nc (s1 ++ s2))) ->
    In (v, b, r) (obs (texec nrounds m nr nc s1)) \/ ~ In (q, k) v.
  Proof.
    intros Hq Hin. destruct (obs_after nr nc s1 s2) as (ext & E & F). rewrite E in Hin.
    apply in_app_or in Hin. destruct Hin as [Hin|Hin]; [left; assumption|right].
    rewrite Forall_forall in F. specialize (F _ Hin). cbn in F. destruct F as (F1 & F2 & F3 & ->).
    rewrite in_rounds_state. cbn [fst snd]. lia.
  Qed.

  (* ---- per-round / per-flow: all sub-updates of a round or none ---- *)
  Theorem obs_all_or_none nr nc sched v b r q k1 k2 :
    In (v, b, r) (obs (texec nrounds m nr nc sched)) -> k1 < m q -> k2 < m q ->
    (In (q, k1) v <-> In (q, k2) v).
  Proof.
    intros Hin H1 H2. destruct (exec_inv nrounds m nr nc sched) as (_ & _ & Ho).
    rewrite Forall_forall in Ho. specialize (Ho _ Hin). cbn in Ho. destruct Ho as [-> _].
    rewrite !in_rounds_state. cbn [fst snd]. lia.
  Qed.
End Order.
