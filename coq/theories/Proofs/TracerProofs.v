From Coq Require Import List Arith Lia Bool.
Import ListNotations.
From TV Require Import Conc.Tracer.

Section Proofs.
  Context (nrounds : nat) (m : nat -> nat).
  Notation tstep := (tstep nrounds m).
  Notation whole := (whole m).
  Notation rounds_state := (rounds_state m).

  Definition count {A} (p : A -> bool) (l : list A) : nat := length (filter p l).
  Definition is_rhold (r : rstate) : bool := match r with RIdle => false | _ => true end.
  Definition is_chold (c : cstate) : bool := match c with CIdle => false | _ => true end.

  Lemma whole_snoc : forall n i, whole i (S n) = whole i n ++ subs (i + n) (m (i + n)).
  Proof.
    induction n as [|n IH]; intros i.
    - cbn. rewrite Nat.add_0_r, app_nil_r. reflexivity.
    - change (whole i (S (S n))) with (subs i (m i) ++ whole (S i) (S n)). rewrite IH.
      change (whole i (S n)) with (subs i (m i) ++ whole (S i) n). rewrite app_assoc.
      replace (S i + n) with (i + S n) by lia. reflexivity.
  Qed.

  (* the lock invariant *)
  Definition Inv (s : sys) : Prop :=
    base s <= hround (hd s) /\
    match lk s with
    | Free =>
      (exists r, hd s = HIdle r) /\ count is_rhold (rds s) = 0 /\ count is_chold (cls s) = 0 /\
      cell s = rounds_state (base s) (hround (hd s))
    | Readers n =>
      (exists r, hd s = HIdle r) /\ count is_rhold (rds s) = n /\ 0 < n /\ count is_chold (cls s) = 0 /\
      cell s = rounds_state (base s) (hround (hd s))
    | Writer =>
      count is_rhold (rds s) = 0 /\
      ((exists r k, hd s = HHold r k /\ k <= m r /\ count is_chold (cls s) = 0 /\
                    cell s = rounds_state (base s) r ++ subs r k)
       \/ (exists r, hd s = HIdle r /\ count is_chold (cls s) = 1 /\
             ((exists i, nth_error (cls s) i = Some CHold /\ cell s = rounds_state (base s) r)
              \/ (exists i, nth_error (cls s) i = Some CDone /\ cell s = [] /\ base s = r))))
    end /\
    Forall (fun o => let '(v, b, r) := o in v = rounds_state b r /\ b <= r) (obs s).

  Lemma count_set_nth {A} (p : A -> bool) : forall (l : list A) i old v, nth_error l i = Some old ->
    count p (set_nth i v l) + (if p old then 1 else 0) = count p l + (if p v then 1 else 0).
  Proof.
    unfold count. induction l as [|x l IH]; intros [|i] old v H; cbn in H; try discriminate.
    - inversion H; subst. cbn [set_nth filter]. destruct (p old), (p v); cbn [length]; lia.
    - cbn [set_nth filter]. specialize (IH i old v H). destruct (p x); cbn [length]; lia.
  Qed.

  Lemma nth_error_set_nth_eq {A} : forall (l : list A) i old v, nth_error l i = Some old -> nth_error (set_nth i v l) i = Some v.
  Proof. induction l as [|x l IH]; intros [|i] old v H; cbn in *; try discriminate; eauto. Qed.

  Lemma count_zero_none {A} (p : A -> bool) (l : list A) i x : count p l = 0 -> nth_error l i = Some x -> p x = false.
  Proof.
    unfold count. revert i. induction l as [|y l IH]; intros [|i] Hc Hn; cbn in *; try discriminate.
    - inversion Hn; subst. destruct (p x); [cbn in Hc; discriminate|reflexivity].
    - destruct (p y); [cbn in Hc; discriminate|]. eapply IH; eassumption.
  Qed.

  Lemma rounds_state_refl i : rounds_state i i = [].
  Proof. unfold rounds_state. rewrite Nat.sub_diag. reflexivity. Qed.

  Lemma rounds_state_succ b r : b <= r -> rounds_state b (S r) = rounds_state b r ++ subs r (m r).
  Proof.
    intros H. unfold rounds_state. replace (S r - b) with (S (r - b)) by lia. rewrite whole_snoc.
    replace (b + (r - b)) with r by lia. reflexivity.
  Qed.

  Lemma init_inv nr nc : Inv (tinit nr nc).
  Proof.
    unfold Inv, tinit. cbn [base hd hround lk rds cls cell obs]. split; [lia|]. split; [|constructor].
    split; [eauto|]. split; [|split].
    - unfold count. induction nr; cbn; auto.
    - unfold count. induction nc; cbn; auto.
    - rewrite rounds_state_refl. reflexivity.
  Qed.

  Lemma step_inv s t : Inv s -> Inv (tstep s t).
  Proof.
    intros HI. pose proof HI as (Hb & Hl & Ho). destruct t as [|i|i]; unfold tstep.
    - (* handler *)
      destruct (hd s) as [r|r k] eqn:Eh.
      + destruct (r <? nrounds); [|exact HI].
        destruct (lk s) eqn:El; try exact HI.
        destruct Hl as ((r0 & Hr0) & Hc1 & Hc2 & Hcell). cbn [hround] in *.
        split; [cbn; assumption|]. split; [|assumption]. cbn [lk rds cls hd cell base].
        split; [assumption|]. left. exists r, 0. repeat split; auto; try lia. cbn [subs]. rewrite app_nil_r. assumption.
      + destruct (lk s) eqn:El.
        * destruct Hl as ((r0 & Hr0) & _). discriminate.
        * destruct Hl as ((r0 & Hr0) & _). discriminate.
        * destruct Hl as (Hc1 & [(r1 & k1 & Hh & Hk & Hc2 & Hcell)|(r1 & Hh & _)]); [|discriminate].
          inversion Hh; subst r1 k1. cbn [hround] in *.
          destruct (k <? m r) eqn:Ek.
          -- apply Nat.ltb_lt in Ek. split; [cbn; assumption|]. split; [|assumption]. cbn [lk rds cls hd cell base].
             split; [assumption|]. left. exists r, (S k). repeat split; auto. cbn [subs]. rewrite Hcell, app_assoc. reflexivity.
          -- apply Nat.ltb_ge in Ek. assert (k = m r) by lia. subst k.
             split; [cbn; lia|]. split; [|assumption]. cbn [lk rds cls hd cell base hround].
             split; [eauto|]. split; [assumption|]. split; [assumption|]. rewrite rounds_state_succ by assumption. assumption.
    - (* reader *)
      destruct (nth_error (rds s) i) as [[| |]|] eqn:En; [| | |exact HI].
      + (* RIdle: acquire R *)
        pose proof (count_set_nth is_rhold (rds s) i RIdle RHold En) as Hcnt. cbn [is_rhold] in Hcnt.
        destruct (lk s) eqn:El.
        * destruct Hl as (Hh & Hc1 & Hc2 & Hcell). split; [assumption|]. split; [|assumption]. cbn [lk rds cls hd cell base].
          split; [assumption|]. split; [lia|]. split; [lia|]. split; assumption.
        * destruct Hl as (Hh & Hc1 & Hn & Hc2 & Hcell). split; [assumption|]. split; [|assumption]. cbn [lk rds cls hd cell base].
          split; [assumption|]. split; [lia|]. split; [lia|]. split; assumption.
        * exact HI.
      + (* RHold: clone *)
        pose proof (count_set_nth is_rhold (rds s) i RHold RGot En) as Hcnt. cbn [is_rhold] in Hcnt.
        destruct (lk s) eqn:El.
        * destruct Hl as (_ & Hc1 & _). pose proof (count_zero_none is_rhold (rds s) i RHold Hc1 En). discriminate.
        * destruct Hl as (Hh & Hc1 & Hn & Hc2 & Hcell). split; [assumption|]. cbn [lk rds cls hd cell base obs]. split.
          -- split; [assumption|]. split; [lia|]. split; [assumption|]. split; assumption.
          -- apply Forall_app. split; [assumption|]. constructor; [|constructor]. split; assumption.
        * destruct Hl as (Hc1 & _). pose proof (count_zero_none is_rhold (rds s) i RHold Hc1 En). discriminate.
      + (* RGot: release *)
        pose proof (count_set_nth is_rhold (rds s) i RGot RIdle En) as Hcnt. cbn [is_rhold] in Hcnt.
        destruct (lk s) eqn:El.
        * destruct Hl as (_ & Hc1 & _). pose proof (count_zero_none is_rhold (rds s) i RGot Hc1 En). discriminate.
        * destruct Hl as (Hh & Hc1 & Hn & Hc2 & Hcell). split; [assumption|]. split; [|assumption]. cbn [lk rds cls hd cell base].
          destruct n as [|[|n]]; [lia| |].
          -- split; [assumption|]. split; [lia|]. split; assumption.
          -- split; [assumption|]. split; [lia|]. split; [lia|]. split; assumption.
        * destruct Hl as (Hc1 & _). pose proof (count_zero_none is_rhold (rds s) i RGot Hc1 En). discriminate.
    - (* clearer *)
      destruct (nth_error (cls s) i) as [[| |]|] eqn:En; [| | |exact HI].
      + (* CIdle: acquire W *)
        pose proof (count_set_nth is_chold (cls s) i CIdle CHold En) as Hcnt. cbn [is_chold] in Hcnt.
        destruct (lk s) eqn:El; try exact HI.
        destruct Hl as ((r & Hr) & Hc1 & Hc2 & Hcell). split; [assumption|]. split; [|assumption]. cbn [lk rds cls hd cell base].
        split; [assumption|]. right. exists r. split; [assumption|]. split; [lia|]. left. exists i.
        split; [eapply nth_error_set_nth_eq; eassumption|]. rewrite Hr in Hcell. assumption.
      + (* CHold: store empty *)
        pose proof (count_set_nth is_chold (cls s) i CHold CDone En) as Hcnt. cbn [is_chold] in Hcnt.
        destruct (lk s) eqn:El.
        * destruct Hl as (_ & _ & Hc2 & _). pose proof (count_zero_none is_chold (cls s) i CHold Hc2 En). discriminate.
        * destruct Hl as (_ & _ & _ & Hc2 & _). pose proof (count_zero_none is_chold (cls s) i CHold Hc2 En). discriminate.
        * destruct Hl as (Hc1 & [(r & k & Hh & Hk & Hc2 & Hcell)|(r & Hh & Hc2 & Hd)]).
          -- pose proof (count_zero_none is_chold (cls s) i CHold Hc2 En). discriminate.
          -- split; [cbn; lia|]. split; [|assumption]. cbn [lk rds cls hd cell base].
             split; [assumption|]. right. exists r. split; [assumption|]. split; [lia|]. right. exists i.
             split; [eapply nth_error_set_nth_eq; eassumption|]. split; [reflexivity|]. rewrite Hh. reflexivity.
      + (* CDone: release *)
        pose proof (count_set_nth is_chold (cls s) i CDone CIdle En) as Hcnt. cbn [is_chold] in Hcnt.
        destruct (lk s) eqn:El.
        * destruct Hl as (_ & _ & Hc2 & _). pose proof (count_zero_none is_chold (cls s) i CDone Hc2 En). discriminate.
        * destruct Hl as (_ & _ & _ & Hc2 & _). pose proof (count_zero_none is_chold (cls s) i CDone Hc2 En). discriminate.
        * destruct Hl as (Hc1 & [(r & k & Hh & Hk & Hc2 & Hcell)|(r & Hh & Hc2 & Hd)]).
          -- pose proof (count_zero_none is_chold (cls s) i CDone Hc2 En). discriminate.
          -- (* exactly one clearer holds the lock, and it is this one *)
             assert (Hthis : cell s = [] /\ base s = r \/ cell s = rounds_state (base s) r).
             { destruct Hd as [(j & Hj & Hcell)|(j & Hj & Hcell & Hbase)]; [right; assumption|left; split; assumption]. }
             split; [assumption|]. split; [|assumption]. cbn [lk rds cls hd cell base].
             split; [eauto|]. split; [assumption|]. split; [lia|]. rewrite Hh. cbn [hround].
             destruct Hd as [(j & Hj & Hcell)|(j & Hj & Hcell & Hbase)].
             ++ assumption.
             ++ rewrite Hcell, Hbase, rounds_state_refl. reflexivity.
  Qed.

  Theorem exec_inv nr nc sched : Inv (texec nrounds m nr nc sched).
  Proof.
    unfold texec. generalize (init_inv nr nc). generalize (tinit nr nc).
    induction sched as [|t sched IH]; intros s Hs; cbn [fold_left]; [assumption|].
    apply IH. apply step_inv. assumption.
  Qed.
End Proofs.
