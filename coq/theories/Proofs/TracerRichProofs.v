(* C20: the richer model Conc/TracerRich.v: simulation by Conc/Tracer.v, linearizability of the history
   (every snapshot = sequential replay of the history before it), consequences. *)
From Coq Require Import List Arith Lia Bool.
Import ListNotations.
From TV Require Import Conc.Tracer Conc.TracerRich Proofs.TracerProofs Proofs.TracerOrder.


(* ---------- facts read off the lock invariant of Conc/Tracer.v ---------- *)
Section CoreFacts.
  Context (m : nat -> nat).
  Notation Inv := (Inv m).

  Lemma inv_hhold c r k : Inv c -> hd c = HHold r k ->
    lk c = Writer /\ k <= m r /\ count is_chold (cls c) = 0 /\ count is_rhold (rds c) = 0.
  Proof.
    intros (_ & Hl & _) Eh. destruct (lk c) eqn:El.
    - destruct Hl as ((r0 & Hr0) & _). congruence.
    - destruct Hl as ((r0 & Hr0) & _). congruence.
    - destruct Hl as (Hc1 & [(r1 & k1 & Hh & Hk & Hc2 & _)|(r1 & Hh & _)]); [|congruence].
      rewrite Eh in Hh. inversion Hh; subst. auto.
  Qed.

  Lemma inv_free c : Inv c -> lk c = Free ->
    (exists r, hd c = HIdle r) /\ count is_rhold (rds c) = 0 /\ count is_chold (cls c) = 0.
  Proof. intros (_ & Hl & _) El. rewrite El in Hl. tauto. Qed.

  Lemma inv_readers c n : Inv c -> lk c = Readers n ->
    (exists r, hd c = HIdle r) /\ count is_rhold (rds c) = n /\ 0 < n /\ count is_chold (cls c) = 0.
  Proof. intros (_ & Hl & _) El. rewrite El in Hl. tauto. Qed.

  Lemma inv_writer_idle c r : Inv c -> lk c = Writer -> hd c = HIdle r ->
    count is_rhold (rds c) = 0 /\ count is_chold (cls c) = 1.
  Proof.
    intros (_ & Hl & _) El Eh. rewrite El in Hl.
    destruct Hl as (Hc1 & [(r1 & k1 & Hh & _)|(r1 & Hh & Hc2 & _)]); [congruence|auto].
  Qed.

  Lemma inv_rhold c i x : Inv c -> nth_error (rds c) i = Some x -> is_rhold x = true -> exists n, lk c = Readers n.
  Proof.
    intros (_ & Hl & _) En Hx. destruct (lk c) eqn:El.
    - destruct Hl as (_ & Hc & _). rewrite (count_zero_none _ _ _ _ Hc En) in Hx. discriminate.
    - eauto.
    - destruct Hl as (Hc & _). rewrite (count_zero_none _ _ _ _ Hc En) in Hx. discriminate.
  Qed.

  Lemma inv_chold c j x : Inv c -> nth_error (cls c) j = Some x -> is_chold x = true ->
    lk c = Writer /\ exists r, hd c = HIdle r.
  Proof.
    intros (_ & Hl & _) En Hx. destruct (lk c) eqn:El.
    - destruct Hl as (_ & _ & Hc & _). rewrite (count_zero_none _ _ _ _ Hc En) in Hx. discriminate.
    - destruct Hl as (_ & _ & _ & Hc & _). rewrite (count_zero_none _ _ _ _ Hc En) in Hx. discriminate.
    - split; [reflexivity|].
      destruct Hl as (_ & [(r1 & k1 & _ & _ & Hc & _)|(r1 & Hh & _)]); [|eauto].
      rewrite (count_zero_none _ _ _ _ Hc En) in Hx. discriminate.
  Qed.
End CoreFacts.

(* ---------- histories ---------- *)
Section Logs.
  Context (nrounds : nat) (m : nat -> nat).
  Notation M := (msec nrounds m).
  Notation apply_ev := (apply_ev m).
  Notation replay_from := (replay_from m).
  Notation replay := (replay m).

  (* index of the tracer thread's critical section an event closes *)
  Definition sec_of (e : event) : list nat := match e with EPub r => [r] | EErr => [nrounds] | _ => [] end.
  Definition secs (l : list event) : list nat := flat_map sec_of l.
  Definition snap_vals (l : list event) : list (list atom) := flat_map (fun e => match e with ESnap _ v _ => [v] | _ => [] end) l.
  Definition ev_atoms (e : event) : list atom := match e with EPub r => subs r (m r) | _ => [] end.
  Definition has_err (l : list event) : bool := existsb is_err l.

  (* every snapshot in the history returned the sequential replay of the history before it *)
  Definition snaps_ok (l : list event) : Prop := forall l1 i v e l2, l = l1 ++ ESnap i v e :: l2 -> (v, e) = replay l1.

  Lemma secs_app l1 l2 : secs (l1 ++ l2) = secs l1 ++ secs l2.
  Proof. unfold secs. apply flat_map_app. Qed.
  Lemma snap_vals_app l1 l2 : snap_vals (l1 ++ l2) = snap_vals l1 ++ snap_vals l2.
  Proof. unfold snap_vals. apply flat_map_app. Qed.

  Lemma replay_from_app ce l1 l2 : replay_from ce (l1 ++ l2) = replay_from (replay_from ce l1) l2.
  Proof. unfold TracerRich.replay_from. apply fold_left_app. Qed.
  Lemma replay_snoc l e : replay (l ++ [e]) = apply_ev (replay l) e.
  Proof. unfold TracerRich.replay. rewrite replay_from_app. reflexivity. Qed.
  Lemma replay_app l1 l2 : replay (l1 ++ l2) = replay_from (replay l1) l2.
  Proof. unfold TracerRich.replay. apply replay_from_app. Qed.
  Lemma replay_from_cons ce e l : replay_from ce (e :: l) = replay_from (apply_ev ce e) l.
  Proof. reflexivity. Qed.

  Lemma apply_ev_noclr c e ev : is_clr ev = false -> fst (apply_ev (c, e) ev) = c ++ ev_atoms ev.
  Proof. destruct ev; cbn; intros H; try discriminate; rewrite ?app_nil_r; reflexivity. Qed.

  Lemma apply_ev_err c e ev : snd (apply_ev (c, e) ev) = e || is_err ev.
  Proof. destruct ev; cbn; rewrite ?orb_false_r, ?orb_true_r; reflexivity. Qed.

  Lemma no_clear_cons e l : no_clear (e :: l) -> is_clr e = false /\ no_clear l.
  Proof.
    intros H. split.
    - destruct e; try reflexivity. exfalso. apply (H j). left. reflexivity.
    - intros j Hj. apply (H j). right. assumption.
  Qed.

  (* without a clear the replay only appends whole rounds to the round data *)
  Lemma replay_from_noclr l : forall c e, no_clear l -> fst (replay_from (c, e) l) = c ++ flat_map ev_atoms l.
  Proof.
    induction l as [|ev l IH]; intros c e H.
    - cbn. rewrite app_nil_r. reflexivity.
    - apply no_clear_cons in H. destruct H as [He Hl]. rewrite replay_from_cons.
      pose proof (apply_ev_noclr c e ev He) as Ha. destruct (apply_ev (c, e) ev) as [c' e']. cbn [fst] in Ha. subst c'.
      rewrite IH by assumption. cbn [flat_map]. rewrite app_assoc. reflexivity.
  Qed.

  (* the error, once set, is never reset by the replay: clears or not *)
  Lemma replay_from_err l : forall c e, snd (replay_from (c, e) l) = e || has_err l.
  Proof.
    induction l as [|ev l IH]; intros c e.
    - cbn. rewrite orb_false_r. reflexivity.
    - rewrite replay_from_cons. pose proof (apply_ev_err c e ev) as Ha.
      destruct (apply_ev (c, e) ev) as [c' e']. cbn [snd] in Ha. subst e'.
      rewrite IH. cbn [has_err existsb]. rewrite orb_assoc. reflexivity.
  Qed.

  Lemma replay_err l : snd (replay l) = has_err l.
  Proof. unfold TracerRich.replay. rewrite replay_from_err. reflexivity. Qed.

  Lemma has_err_in l : has_err l = true <-> In EErr l.
  Proof.
    unfold has_err. rewrite existsb_exists. split.
    - intros (x & Hx & He). destruct x; try discriminate. exact Hx.
    - intros H. exists EErr. auto.
  Qed.

  Lemma has_err_app l1 l2 : has_err (l1 ++ l2) = has_err l1 || has_err l2.
  Proof. unfold has_err. apply existsb_app. Qed.

  Lemma in_replay_from l : forall c e a, In a (fst (replay_from (c, e) l)) -> In a c \/ In (fst a) (secs l).
  Proof.
    induction l as [|ev l IH]; intros c e a H.
    - left. exact H.
    - rewrite replay_from_cons in H.
      assert (Hs : forall a, In a (fst (apply_ev (c, e) ev)) -> In a c \/ In (fst a) (sec_of ev)).
      { intros a0 H0. destruct ev; cbn in H0; auto.
        apply in_app_or in H0. destruct H0 as [H0|H0]; [auto|]. apply in_subs in H0. right. cbn. left. symmetry. tauto. }
      destruct (apply_ev (c, e) ev) as [c' e']. apply IH in H. cbn [fst] in Hs.
      change (secs (ev :: l)) with (sec_of ev ++ secs l). destruct H as [H|H].
      + destruct (Hs _ H) as [H'|H']; [auto|]. right. apply in_or_app. auto.
      + right. apply in_or_app. auto.
  Qed.

  Lemma snaps_ok_nil : snaps_ok [].
  Proof. intros l1 i v e l2 E. destruct l1; discriminate. Qed.

  Lemma snaps_ok_snoc_other l ev : snaps_ok l -> (forall i v e, ev <> ESnap i v e) -> snaps_ok (l ++ [ev]).
  Proof.
    intros H He l1 i v e l2 E. apply snoc_split in E. destruct E as [(_ & _ & E)|(q & _ & E)].
    - exfalso. exact (He i v e E).
    - exact (H _ _ _ _ _ E).
  Qed.

  Lemma snaps_ok_snoc_snap l i v e : snaps_ok l -> (v, e) = replay l -> snaps_ok (l ++ [ESnap i v e]).
  Proof.
    intros H Hv l1 i' v' e' l2 E. apply snoc_split in E. destruct E as [(_ & E1 & E2)|(q & _ & E)].
    - inversion E2; subst. assumption.
    - exact (H _ _ _ _ _ E).
  Qed.

  (* ---- the summary of a history: (marker of the last clear, sections closed) ---- *)
  Definition mark_step (bp : nat * nat) (e : event) : nat * nat :=
    let '(b, p) := bp in
    match e with EPub _ | EErr => (b, S p) | EClr _ => (p, p) | _ => (b, p) end.
  Definition summ (l : list event) : nat * nat := fold_left mark_step l (0, 0).

  Lemma summ_snoc l e : summ (l ++ [e]) = mark_step (summ l) e.
  Proof. unfold summ. rewrite fold_left_app. reflexivity. Qed.

  Lemma seq_snoc_inv (l : list nat) (r p : nat) : l ++ [r] = seq 0 p -> exists p0, p = S p0 /\ l = seq 0 p0 /\ r = p0.
  Proof.
    intros H. destruct p as [|p0].
    - destruct l; discriminate.
    - exists p0. rewrite seq_S in H. apply app_inj_tail in H. cbn in H. tauto.
  Qed.

  Lemma M_lt r : r <> nrounds -> M r = m r.
  Proof. intros H. unfold msec. destruct (r =? nrounds) eqn:E; [apply Nat.eqb_eq in E; contradiction|reflexivity]. Qed.
  Lemma M_err : M nrounds = 0.
  Proof. unfold msec. rewrite Nat.eqb_refl. reflexivity. Qed.

  (* a history whose closed sections are 0,1,..,p-1 in this order replays to the whole sections b..p-1 *)
  Lemma replay_summ l : forall p, secs l = seq 0 p -> (forall r, In (EPub r) l -> r <> nrounds) ->
    exists b, summ l = (b, p) /\ b <= p /\ fst (replay l) = rounds_state M b p.
  Proof.
    induction l as [|e l IH] using rev_ind; intros p Hs Hp.
    - cbn in Hs. destruct p; [|discriminate]. exists 0. repeat split; auto.
    - rewrite secs_app in Hs. rewrite summ_snoc, replay_snoc.
      assert (Hp' : forall r, In (EPub r) l -> r <> nrounds) by (intros r Hr; apply Hp; apply in_or_app; auto).
      destruct (replay l) as [c0 e0] eqn:Er. cbn [fst] in IH.
      destruct e as [i|i v ee|r| |j]; cbn [secs flat_map sec_of] in Hs; rewrite ?app_nil_r in Hs.
      + destruct (IH p Hs Hp') as (b & E1 & E2 & E3). exists b. rewrite E1. cbn. auto.
      + destruct (IH p Hs Hp') as (b & E1 & E2 & E3). exists b. rewrite E1. cbn. auto.
      + apply seq_snoc_inv in Hs. destruct Hs as (p0 & -> & Hs & ->).
        destruct (IH p0 Hs Hp') as (b & E1 & E2 & E3). exists b. rewrite E1. cbn [mark_step TracerRich.apply_ev fst].
        split; [reflexivity|]. split; [lia|]. rewrite rounds_state_succ by assumption. rewrite E3.
        rewrite M_lt; [reflexivity|]. apply Hp. apply in_or_app. right. left. reflexivity.
      + apply seq_snoc_inv in Hs. destruct Hs as (p0 & -> & Hs & <-).
        destruct (IH nrounds Hs Hp') as (b & E1 & E2 & E3). exists b. rewrite E1. cbn [mark_step TracerRich.apply_ev fst].
        split; [reflexivity|]. split; [lia|]. rewrite rounds_state_succ by assumption. rewrite E3, M_err. cbn [subs].
        rewrite app_nil_r. reflexivity.
      + destruct (IH p Hs Hp') as (b & E1 & E2 & E3). exists p. rewrite E1. cbn [mark_step TracerRich.apply_ev fst].
        split; [reflexivity|]. split; [lia|]. rewrite rounds_state_refl. reflexivity.
  Qed.

  Lemma rounds_state_M_lt b p : p <= nrounds -> rounds_state M b p = rounds_state m b p.
  Proof. intros H. apply rounds_state_ext. intros j Hj. apply M_lt. lia. Qed.

  Lemma rounds_state_M_err b : b <= nrounds -> rounds_state M b (S nrounds) = rounds_state m b nrounds.
  Proof.
    intros H. rewrite rounds_state_succ by assumption. rewrite M_err, rounds_state_M_lt by lia. cbn [subs].
    apply app_nil_r.
  Qed.

  Lemma seq_app_inv (a b : list nat) : forall s p, a ++ b = seq s p -> a = seq s (length a) /\ b = seq (s + length a) (length b) /\ length a + length b = p.
  Proof.
    induction a as [|x a IH]; intros s p H.
    - cbn in *. rewrite Nat.add_0_r. subst b. rewrite seq_length. auto.
    - destruct p as [|p]; [discriminate|]. cbn in H. inversion H; subst x.
      destruct (IH _ _ H2) as (I1 & I2 & I3). cbn [length]. split; [cbn; rewrite <- I1; reflexivity|].
      split; [rewrite I2 at 1; f_equal; lia|lia].
  Qed.

  Lemma in_seq_parts (a b : list nat) p x y : a ++ b = seq 0 p -> In x a -> In y b -> x < y.
  Proof.
    intros H Hx Hy. destruct (seq_app_inv _ _ _ _ H) as (I1 & I2 & _).
    rewrite I1 in Hx. rewrite I2 in Hy. apply in_seq in Hx. apply in_seq in Hy. lia.
  Qed.

  Lemma in_err_secs l : In EErr l -> In nrounds (secs l).
  Proof. intros H. apply in_flat_map. exists EErr. split; [assumption|left; reflexivity]. Qed.
End Logs.

(* ---------- executions of the rich model ---------- *)
Section RichExec.
  Context (nrounds : nat) (m : nat -> nat) (fails : bool).
  Notation N := (nsec nrounds fails).
  Notation M := (msec nrounds m).
  Notation rstep := (rstep nrounds m fails).
  Notation rexec := (rexec nrounds m fails).
  Notation replay := (replay m).
  Notation secs := (secs nrounds).
  Notation snaps_ok := (snaps_ok m).

  Definition rrun (s : rsys) (l : list rtid) : rsys := fold_left rstep l s.

  (* ---- simulation: every step is a step of Conc/Tracer.v on the component [co], or leaves it alone ---- *)
  Lemma rstep_co s t : co (rstep s t) = co s \/ co (rstep s t) = tstep N M (co s) (ptid t).
  Proof.
    destruct t as [|i p|j]; unfold TracerRich.rstep, cstep; cbn [ptid].
    - destruct (hd (co s)) as [r|r k].
      + destruct (r <? N); [|left; reflexivity]. destruct (is_free (lk (co s))); [right|left]; reflexivity.
      + destruct ((r =? nrounds) && negb (err s)); [left|right]; reflexivity.
    - destruct (nth_error (rds (co s)) i) as [[| |]|]; [|right; reflexivity|right; reflexivity|left; reflexivity].
      destruct (nth i (rx s) (false, 0)) as [incall bud]. destruct incall.
      + destruct ((p && writer_parked s) || is_writer (lk (co s))); [left|right]; reflexivity.
      + destruct bud; left; reflexivity.
    - destruct (nth_error (cls (co s)) j) as [[| |]|]; [|right; reflexivity|right; reflexivity|left; reflexivity].
      destruct (nth j (cx s) (false, 0)) as [pk bud]. destruct bud; [left; reflexivity|].
      destruct (is_free (lk (co s))); [right|left]; reflexivity.
  Qed.

  Lemma rrun_simulates l : forall s, exists sched', length sched' <= length l /\ co (rrun s l) = run N M (co s) sched'.
  Proof.
    induction l as [|t l IH]; intros s.
    - exists []. split; [auto|reflexivity].
    - cbn [rrun fold_left]. fold (rrun (rstep s t) l). destruct (IH (rstep s t)) as (sc & Hl & Hc).
      destruct (rstep_co s t) as [E|E]; rewrite E in Hc.
      + exists sc. split; [cbn; lia|assumption].
      + exists (ptid t :: sc). split; [cbn; lia|assumption].
  Qed.

  Theorem rexec_simulates rb cb sched : exists sched', length sched' <= length sched /\
    co (rexec rb cb sched) = texec N M (length rb) (length cb) sched'.
  Proof. exact (rrun_simulates sched (rinit rb cb)). Qed.

  (* ---- the invariant ---- *)
  Definition cell_rel (s : rsys) : Prop :=
    match lk (co s) with
    | Writer =>
      match hd (co s) with
      | HHold r k => cell (co s) = fst (replay (log s)) ++ subs r k /\ (r <> nrounds -> err s = snd (replay (log s)))
      | HIdle _ => (forall j, nth_error (cls (co s)) j = Some CDone -> cell (co s) = []) /\
                   ((forall j, nth_error (cls (co s)) j <> Some CDone) -> cell (co s) = fst (replay (log s))) /\
                   err s = snd (replay (log s))
      end
    | _ => cell (co s) = fst (replay (log s)) /\ err s = snd (replay (log s))
    end.

  Definition RInv (s : rsys) : Prop :=
    Inv M (co s) /\
    match hd (co s) with HIdle r => r <= N | HHold r k => r < N end /\
    secs (log s) = seq 0 (hround (hd (co s))) /\
    (forall r, In (EPub r) (log s) -> r <> nrounds) /\
    cell_rel s /\
    snaps_ok (log s) /\
    snap_vals (log s) = map (fun o => fst (fst o)) (obs (co s)).

  Lemma rinit_inv rb cb : RInv (rinit rb cb).
  Proof.
    unfold RInv, rinit, cell_rel. cbn [co log err]. split; [apply init_inv|].
    cbn [tinit hd lk cell obs hround]. split; [lia|]. split; [reflexivity|]. split; [intros r []|].
    split; [split; reflexivity|]. split; [apply snaps_ok_nil|reflexivity].
  Qed.

  Lemma replay_snoc_start l i : replay (l ++ [EStart i]) = replay l.
  Proof. rewrite replay_snoc. destruct (replay l). reflexivity. Qed.
  Lemma replay_snoc_snap l i v e : replay (l ++ [ESnap i v e]) = replay l.
  Proof. rewrite replay_snoc. destruct (replay l). reflexivity. Qed.

  Lemma in_snoc_pub l e r : In (EPub r) (l ++ [e]) -> In (EPub r) l \/ e = EPub r.
  Proof. intros H. apply in_app_or in H. destruct H as [H|[H|[]]]; auto. Qed.

  Lemma rstep_inv s t : RInv s -> RInv (rstep s t).
  Proof.
    intros HR. pose proof HR as (HI & Hh & Hs & Hp & Hc & Hk & Hv).
    pose proof (step_inv N M (co s)) as HSI.
    destruct t as [|i p|j]; unfold TracerRich.rstep.
    - (* tracer thread *)
      destruct (hd (co s)) as [r|r k] eqn:Eh.
      + destruct (r <? N) eqn:Er; [|exact HR]. apply Nat.ltb_lt in Er.
        destruct (lk (co s)) eqn:El; cbn [is_free].
        * (* acquires *)
          unfold RInv, cell_rel, cstep. cbn [co log err]. split; [apply HSI; exact HI|].
          unfold tstep. rewrite Eh, El. apply Nat.ltb_lt in Er. rewrite Er. cbn [hd lk cell obs hround].
          unfold cell_rel in Hc. rewrite El in Hc. cbn [hround] in Hs. destruct Hc as [Hc He].
          split; [apply Nat.ltb_lt; exact Er|]. split; [exact Hs|]. split; [exact Hp|].
          split; [cbn [subs]; rewrite app_nil_r; split; [exact Hc|intros _; exact He]|]. split; assumption.
        * (* parks *) exact HR.
        * exact HR.
      + destruct (inv_hhold M _ _ _ HI Eh) as (El & Hkm & Hcc & Hcr).
        unfold cell_rel in Hc. rewrite El, Eh in Hc. destruct Hc as [Hc He]. cbn [hround] in Hs.
        destruct ((r =? nrounds) && negb (err s)) eqn:Est.
        * (* set_error: inside the error section *)
          apply andb_true_iff in Est. destruct Est as [Er _]. apply Nat.eqb_eq in Er.
          unfold RInv, cell_rel. cbn [co log err]. rewrite Eh, El.
          split; [exact HI|]. split; [exact Hh|]. split; [exact Hs|]. split; [exact Hp|].
          split; [split; [exact Hc|intros Hne; contradiction]|]. split; assumption.
        * unfold RInv, cell_rel, cstep. cbn [co log err]. split; [apply HSI; exact HI|].
          unfold tstep. rewrite Eh. destruct (k <? M r) eqn:Ek.
          -- cbn [hd lk cell obs hround]. rewrite El.
             split; [exact Hh|]. split; [exact Hs|]. split; [exact Hp|].
             split; [split; [rewrite Hc; cbn [subs]; rewrite app_assoc; reflexivity|exact He]|]. split; assumption.
          -- apply Nat.ltb_ge in Ek. assert (k = M r) by lia. subst k.
             cbn [hd lk cell obs hround].
             split; [lia|]. split; [rewrite secs_app, Hs, seq_S; f_equal; destruct (r =? nrounds) eqn:E; [apply Nat.eqb_eq in E; subst; reflexivity|reflexivity]|].
             split.
             { intros r0 Hr0. apply in_snoc_pub in Hr0. destruct Hr0 as [Hr0|Hr0]; [auto|].
               destruct (r =? nrounds) eqn:E; [discriminate|]. inversion Hr0; subst r0. apply Nat.eqb_neq. exact E. }
             split.
             { rewrite replay_snoc. destruct (replay (log s)) as [c0 e0] eqn:Erp. cbn [fst snd] in Hc, He.
               destruct (r =? nrounds) eqn:E; cbn [TracerRich.apply_ev fst snd].
               - apply Nat.eqb_eq in E. subst r. rewrite M_err in Hc. cbn [subs] in Hc. rewrite app_nil_r in Hc.
                 split; [exact Hc|]. cbn [andb] in Est. apply negb_false_iff in Est. exact Est.
               - apply Nat.eqb_neq in E. rewrite M_lt in Hc by exact E. split; [exact Hc|exact (He E)]. }
             split.
             { apply snaps_ok_snoc_other; [assumption|]. intros i v e. destruct (r =? nrounds); discriminate. }
             rewrite snap_vals_app, Hv. destruct (r =? nrounds); cbn; rewrite app_nil_r; reflexivity.
    - (* reader i *)
      destruct (nth_error (rds (co s)) i) as [[| |]|] eqn:En; [| | |exact HR].
      + destruct (nth i (rx s) (false, 0)) as [incall bud]. destruct incall.
        * destruct ((p && writer_parked s) || is_writer (lk (co s))) eqn:Eb; [exact HR|].
          apply orb_false_iff in Eb. destruct Eb as [_ Eb].
          unfold RInv, cell_rel, cstep. cbn [co log err]. split; [apply HSI; exact HI|].
          unfold tstep. rewrite En. unfold cell_rel in Hc.
          destruct (lk (co s)) eqn:El; [| |discriminate]; cbn [hd lk cell obs hround]; repeat split; try assumption; apply Hc.
        * destruct bud as [|b]; [exact HR|].
          unfold RInv, cell_rel. cbn [co log err]. unfold cell_rel in Hc. rewrite replay_snoc_start.
          split; [exact HI|]. split; [exact Hh|]. split; [rewrite secs_app; cbn; rewrite app_nil_r; exact Hs|].
          split; [intros r Hr; apply in_snoc_pub in Hr; destruct Hr as [Hr|Hr]; [auto|discriminate]|].
          split; [exact Hc|]. split; [apply snaps_ok_snoc_other; [assumption|discriminate]|].
          rewrite snap_vals_app. cbn. rewrite app_nil_r. exact Hv.
      + (* clone *)
        destruct (inv_rhold M _ _ _ HI En eq_refl) as (n & El).
        unfold cell_rel in Hc. rewrite El in Hc. destruct Hc as [Hc He].
        unfold RInv, cell_rel, cstep. cbn [co log err]. split; [apply HSI; exact HI|].
        unfold tstep. rewrite En. cbn [hd lk cell obs hround]. rewrite El, replay_snoc_snap.
        split; [exact Hh|]. split; [rewrite secs_app; cbn; rewrite app_nil_r; exact Hs|].
        split; [intros r Hr; apply in_snoc_pub in Hr; destruct Hr as [Hr|Hr]; [auto|discriminate]|].
        split; [split; assumption|]. split.
        { apply snaps_ok_snoc_snap; [assumption|]. rewrite Hc, He. destruct (replay (log s)); reflexivity. }
        rewrite snap_vals_app, map_app, Hv. reflexivity.
      + (* release *)
        destruct (inv_rhold M _ _ _ HI En eq_refl) as (n & El).
        unfold cell_rel in Hc. rewrite El in Hc.
        unfold RInv, cell_rel, cstep. cbn [co log err]. split; [apply HSI; exact HI|].
        unfold tstep. rewrite En. cbn [hd lk cell obs hround]. rewrite El.
        destruct n as [|[|n]]; repeat split; try assumption; apply Hc.
    - (* clearer j *)
      destruct (nth_error (cls (co s)) j) as [[| |]|] eqn:En; [| | |exact HR].
      + destruct (nth j (cx s) (false, 0)) as [pk bud]. destruct bud as [|b]; [exact HR|].
        destruct (lk (co s)) eqn:El; cbn [is_free].
        * destruct (inv_free M _ HI El) as ((r & Eh) & Hcr & Hcc).
          unfold cell_rel in Hc. rewrite El in Hc. destruct Hc as [Hc He].
          unfold RInv, cell_rel, cstep. cbn [co log err]. split; [apply HSI; exact HI|].
          unfold tstep. rewrite En, El. cbn [hd lk cell obs hround cls]. rewrite Eh. rewrite Eh in Hh, Hs.
          split; [exact Hh|]. split; [exact Hs|]. split; [exact Hp|]. split; [|split; assumption].
          split; [|split; [intros _; exact Hc|exact He]].
          intros j' Hj'. exfalso. destruct (Nat.eq_dec j j') as [<-|Hne].
          -- rewrite (nth_error_set_nth_eq _ _ _ _ En) in Hj'. discriminate.
          -- rewrite nth_error_set_nth_neq in Hj' by assumption.
             pose proof (count_zero_none _ _ _ _ Hcc Hj') as Hx. discriminate.
        * exact HR.
        * exact HR.
      + (* store empty round data, keep the error *)
        destruct (inv_chold M _ _ _ HI En eq_refl) as (El & r & Eh).
        unfold cell_rel in Hc. rewrite El, Eh in Hc. destruct Hc as (_ & _ & He).
        unfold RInv, cell_rel, cstep. cbn [co log err]. split; [apply HSI; exact HI|].
        unfold tstep. rewrite En. cbn [hd lk cell obs hround cls]. rewrite El, Eh. rewrite Eh in Hh, Hs.
        split; [exact Hh|]. split; [exact Hs|]. split; [exact Hp|]. split; [|split; assumption].
        split; [reflexivity|]. split; [|exact He]. intros Hno. exfalso. apply (Hno j). eapply nth_error_set_nth_eq. exact En.
      + (* release *)
        destruct (inv_chold M _ _ _ HI En eq_refl) as (El & r & Eh).
        unfold cell_rel in Hc. rewrite El, Eh in Hc. destruct Hc as (Hc & _ & He).
        unfold RInv, cell_rel, cstep. cbn [co log err]. split; [apply HSI; exact HI|].
        unfold tstep. rewrite En. cbn [hd lk cell obs hround cls]. rewrite Eh in Hh, Hs. rewrite Eh.
        split; [exact Hh|]. split; [rewrite secs_app; cbn; rewrite app_nil_r; exact Hs|].
        split; [intros r0 Hr; apply in_snoc_pub in Hr; destruct Hr as [Hr|Hr]; [auto|discriminate]|].
        split.
        { rewrite replay_snoc. destruct (replay (log s)) as [c0 e0]. cbn [TracerRich.apply_ev fst snd] in *.
          split; [exact (Hc j En)|exact He]. }
        split; [apply snaps_ok_snoc_other; [assumption|discriminate]|].
        rewrite snap_vals_app. cbn. rewrite app_nil_r. exact Hv.
  Qed.

  Lemma rrun_inv l : forall s, RInv s -> RInv (rrun s l).
  Proof. induction l as [|t l IH]; intros s H; cbn; [assumption|]. apply IH. apply rstep_inv. assumption. Qed.

  Theorem rexec_inv rb cb sched : RInv (rexec rb cb sched).
  Proof. apply rrun_inv. apply rinit_inv. Qed.
End RichExec.

(* ---------- consequences for the history of any execution ---------- *)
Section RichTheorems.
  Context (nrounds : nat) (m : nat -> nat) (fails : bool).
  Notation N := (nsec nrounds fails).
  Notation M := (msec nrounds m).
  Notation rstep := (rstep nrounds m fails).
  Notation rexec := (rexec nrounds m fails).
  Notation replay := (replay m).
  Notation replay_from := (replay_from m).
  Notation secs := (secs nrounds).
  Notation ev_atoms := (ev_atoms m).

  Lemma N_le : N <= S nrounds.
  Proof. unfold nsec. destruct fails; lia. Qed.

  (* what the invariant says about the history alone *)
  Lemma log_facts rb cb sched : let L := log (rexec rb cb sched) in
    (exists h, secs L = seq 0 h /\ h <= N) /\ (forall r, In (EPub r) L -> r <> nrounds) /\ snaps_ok m L.
  Proof.
    intros L. destruct (rexec_inv nrounds m fails rb cb sched) as (_ & Hh & Hs & Hp & _ & Hk & _).
    split; [|split; assumption]. exists (hround (hd (co (rexec rb cb sched)))). split; [exact Hs|].
    destruct (hd (co (rexec rb cb sched))); cbn [hround]; lia.
  Qed.

  (* linearizability: the pair a snapshot returns is the sequential replay (whole rounds appended, clears
     emptying the round data and keeping the error, handle_error setting the error) of the history up to its clone *)
  Theorem rich_linearizable rb cb sched l1 i v e l2 :
    log (rexec rb cb sched) = l1 ++ ESnap i v e :: l2 -> (v, e) = replay l1.
  Proof. intros E. destruct (log_facts rb cb sched) as (_ & _ & Hk). exact (Hk _ _ _ _ _ E). Qed.

  Lemma prefix_secs L l1 l2 h : secs L = seq 0 h -> L = l1 ++ l2 ->
    secs l1 = seq 0 (length (secs l1)) /\ length (secs l1) <= h /\
    (forall x y, In x (secs l1) -> In y (secs l2) -> x < y) /\ (forall y, In y (secs l2) -> y < h).
  Proof.
    intros Hs ->. rewrite secs_app in Hs. destruct (seq_app_inv _ _ _ _ Hs) as (I1 & I2 & I3).
    split; [exact I1|]. split; [lia|]. split.
    - intros x y Hx Hy. exact (in_seq_parts _ _ _ _ _ Hs Hx Hy).
    - intros y Hy. assert (Hin : In y (seq 0 h)) by (rewrite <- Hs; apply in_or_app; auto). apply in_seq in Hin. lia.
  Qed.

  (* the error flag of a snapshot: set exactly when handle_error released the lock before the clone - whatever
     clears happened.  So a snapshot cloned before handle_error never shows the error, one cloned after always does *)
  Theorem rich_error_iff rb cb sched l1 i v e l2 :
    log (rexec rb cb sched) = l1 ++ ESnap i v e :: l2 -> (e = true <-> In EErr l1).
  Proof.
    intros E. pose proof (rich_linearizable _ _ _ _ _ _ _ _ E) as Hr.
    apply (f_equal snd) in Hr. cbn [snd] in Hr. rewrite replay_err in Hr. rewrite Hr. apply has_err_in.
  Qed.

  (* whole rounds: the round data of a snapshot are the whole rounds b..p-1 for some b <= p <= nrounds; if it shows
     the error then the run failed and p = nrounds: the error comes with ALL rounds of the run (since the last clear),
     never with a half round, never without the last round *)
  Theorem rich_whole rb cb sched l1 i v e l2 :
    log (rexec rb cb sched) = l1 ++ ESnap i v e :: l2 ->
    exists b p, b <= p /\ p <= nrounds /\ v = rounds_state m b p /\ (e = true -> fails = true /\ p = nrounds).
  Proof.
    intros E. destruct (log_facts rb cb sched) as ((h & Hs & Hh) & Hp & Hk).
    pose proof (Hk _ _ _ _ _ E) as Hve.
    destruct (prefix_secs _ _ _ _ Hs E) as (P1 & P2 & _).
    assert (Hp1 : forall r, In (EPub r) l1 -> r <> nrounds) by (intros r Hr; apply Hp; rewrite E; apply in_or_app; auto).
    destruct (replay_summ nrounds m l1 _ P1 Hp1) as (b & _ & Hb & Hr).
    assert (Hv : v = rounds_state M b (length (secs l1))) by (rewrite <- Hr, <- Hve; reflexivity).
    assert (He : e = true -> In nrounds (secs l1)).
    { intros He. apply in_err_secs. apply (rich_error_iff _ _ _ _ _ _ _ _ E). exact He. }
    set (p := length (secs l1)) in *. pose proof N_le as HN.
    destruct (Nat.le_gt_cases p nrounds) as [Hle|Hgt].
    - exists b, p. split; [assumption|]. split; [assumption|]. split; [rewrite Hv; apply rounds_state_M_lt; assumption|].
      intros Het. specialize (He Het). rewrite P1 in He. apply in_seq in He. lia.
    - assert (Hpe : p = S nrounds) by lia. assert (Hf : fails = true).
      { unfold nsec in Hh. destruct fails; [reflexivity|lia]. }
      destruct (Nat.eq_dec b (S nrounds)) as [Eb|Eb].
      + exists nrounds, nrounds. split; [lia|]. split; [lia|]. split; [|auto]. rewrite Hv, Hpe, Eb, !rounds_state_refl. reflexivity.
      + exists b, nrounds. split; [lia|]. split; [lia|]. split; [|auto]. rewrite Hv, Hpe. apply rounds_state_M_err. lia.
  Qed.

  (* monotonicity: of two snapshots (of the same reader or of different ones) with no clear returning between
     their clones, the later extends the earlier by exactly the whole rounds published in between; and an error
     once shown stays shown *)
  Theorem rich_monotone rb cb sched l1 i1 v1 e1 l2 i2 v2 e2 l3 :
    log (rexec rb cb sched) = l1 ++ ESnap i1 v1 e1 :: l2 ++ ESnap i2 v2 e2 :: l3 -> no_clear l2 ->
    v2 = v1 ++ flat_map ev_atoms l2 /\ length v1 <= length v2 /\ (e1 = true -> e2 = true).
  Proof.
    intros E Hn. destruct (log_facts rb cb sched) as (_ & _ & Hk).
    assert (E1 : (v1, e1) = replay l1) by exact (Hk _ _ _ _ _ E).
    assert (E2 : (v2, e2) = replay (l1 ++ ESnap i1 v1 e1 :: l2)).
    { apply (Hk _ i2 _ _ l3). rewrite E, <- app_assoc. reflexivity. }
    rewrite replay_app, <- E1, replay_from_cons in E2. cbn [TracerRich.apply_ev] in E2.
    assert (E3 : v2 = v1 ++ flat_map ev_atoms l2).
    { apply (f_equal fst) in E2. cbn [fst] in E2. rewrite E2. apply replay_from_noclr. assumption. }
    split; [exact E3|]. split; [rewrite E3, app_length; lia|].
    intros He. apply (f_equal snd) in E2. cbn [snd] in E2. rewrite E2, replay_from_err, He. reflexivity.
  Qed.

  (* the error is stable whatever clears happen between two snapshots *)
  Theorem rich_error_stable rb cb sched l1 i1 v1 e1 l2 i2 v2 e2 l3 :
    log (rexec rb cb sched) = l1 ++ ESnap i1 v1 e1 :: l2 ++ ESnap i2 v2 e2 :: l3 -> e1 = true -> e2 = true.
  Proof.
    intros E He. apply (rich_error_iff _ _ _ _ _ _ _ _ E) in He.
    assert (E' : log (rexec rb cb sched) = (l1 ++ ESnap i1 v1 e1 :: l2) ++ ESnap i2 v2 e2 :: l3) by (rewrite E, <- app_assoc; reflexivity).
    apply (rich_error_iff _ _ _ _ _ _ _ _ E'). apply in_or_app. left. exact He.
  Qed.

  (* freshness: a snapshot cloned after the handler released the lock for round r, with no clear returning in
     between, contains all sub-updates of round r *)
  Theorem rich_fresh rb cb sched l1 r l2 i v e l3 :
    log (rexec rb cb sched) = l1 ++ EPub r :: l2 ++ ESnap i v e :: l3 -> no_clear l2 ->
    forall k, k < m r -> In (r, k) v.
  Proof.
    intros E Hn k Hkm. destruct (log_facts rb cb sched) as (_ & _ & Hk).
    assert (E2 : (v, e) = replay (l1 ++ EPub r :: l2)).
    { apply (Hk _ i _ _ l3). rewrite E, <- app_assoc. reflexivity. }
    rewrite replay_app, replay_from_cons in E2. destruct (replay l1) as [c0 e0]. cbn [TracerRich.apply_ev] in E2.
    apply (f_equal fst) in E2. cbn [fst] in E2. rewrite E2, replay_from_noclr by assumption.
    apply in_or_app. left. apply in_or_app. right. apply in_subs. cbn. auto.
  Qed.

  (* the same, literally: the snapshot() CALL of reader i comes after the release *)
  Theorem rich_fresh_started rb cb sched l1 r l2 i l3 v e l4 :
    log (rexec rb cb sched) = l1 ++ EPub r :: l2 ++ EStart i :: l3 ++ ESnap i v e :: l4 ->
    no_clear l2 -> no_clear l3 -> forall k, k < m r -> In (r, k) v.
  Proof.
    intros E H2 H3. apply (rich_fresh rb cb sched l1 r (l2 ++ EStart i :: l3) i v e l4).
    - rewrite E, <- app_assoc. reflexivity.
    - intros j Hj. apply in_app_or in Hj. destruct Hj as [Hj|[Hj|Hj]]; [exact (H2 j Hj)|discriminate|exact (H3 j Hj)].
  Qed.

  Lemma replay_after_clear l1 j l2 : fst (replay (l1 ++ EClr j :: l2)) = fst (replay_from ([], snd (replay l1)) l2).
  Proof. rewrite replay_app, replay_from_cons. destruct (replay l1) as [c0 e0]. reflexivity. Qed.

  (* clear: a snapshot cloned after a clear() returned shows no sub-update of any round published before that
     clear; but it does show the error if that was stored before the clear (the repaired clear keeps it) *)
  Theorem rich_clear rb cb sched l1 j l2 i v e l3 :
    log (rexec rb cb sched) = l1 ++ EClr j :: l2 ++ ESnap i v e :: l3 ->
    (forall r k, In (EPub r) l1 -> ~ In (r, k) v) /\ (In EErr l1 -> e = true).
  Proof.
    intros E. destruct (log_facts rb cb sched) as ((h & Hs & Hh) & _ & Hk).
    assert (E' : log (rexec rb cb sched) = (l1 ++ EClr j :: l2) ++ ESnap i v e :: l3) by (rewrite E, <- app_assoc; reflexivity).
    assert (E2 : v = fst (replay_from ([], snd (replay l1)) l2)).
    { rewrite <- (replay_after_clear l1 j l2). rewrite <- (Hk _ _ _ _ _ E'). reflexivity. }
    destruct (prefix_secs _ l1 _ _ Hs E) as (_ & _ & P3 & _).
    split.
    - intros r k Hr Hin. rewrite E2 in Hin. apply (in_replay_from nrounds m) in Hin. destruct Hin as [[]|Ha]. cbn [fst] in Ha.
      assert (r < r); [|lia]. apply (P3 r r).
      + apply in_flat_map. exists (EPub r). split; [assumption|left; reflexivity].
      + change (EClr j :: l2 ++ ESnap i v e :: l3) with ([EClr j] ++ l2 ++ ESnap i v e :: l3).
        rewrite !secs_app. apply in_or_app. right. apply in_or_app. left. exact Ha.
    - intros He. apply (rich_error_iff _ _ _ _ _ _ _ _ E'). apply in_or_app. left. exact He.
  Qed.

  Lemma secs_nil_atoms l : secs l = [] -> flat_map ev_atoms l = [].
  Proof.
    induction l as [|e l IH]; intros H; [reflexivity|].
    change (secs (e :: l)) with (sec_of nrounds e ++ secs l) in H. apply app_eq_nil in H. destruct H as [H1 H2].
    cbn [flat_map]. rewrite (IH H2), app_nil_r. destruct e; try reflexivity; discriminate.
  Qed.

  (* what the history looks like around handle_error: exactly the rounds 0..nrounds-1 were released before it and
     no round is released after it *)
  Lemma around_error rb cb sched l1 l2 :
    log (rexec rb cb sched) = l1 ++ EErr :: l2 ->
    secs l1 = seq 0 nrounds /\ (forall r, In (EPub r) l1 -> r <> nrounds) /\ secs l2 = [].
  Proof.
    intros E. destruct (log_facts rb cb sched) as ((h & Hs & Hh) & Hp & _).
    destruct (prefix_secs _ l1 _ _ Hs E) as (P1 & P2 & P3 & P4).
    assert (Hlen : length (secs l1) = nrounds).
    { change (EErr :: l2) with ([EErr] ++ l2) in E.
      rewrite E, !secs_app in Hs. cbn [TracerRichProofs.secs flat_map sec_of app] in Hs.
      destruct (seq_app_inv _ _ _ _ Hs) as (_ & I2 & _). cbn [length seq] in I2.
      injection I2 as Ha _. lia. }
    rewrite Hlen in P1. split; [exact P1|]. split; [intros r Hr; apply Hp; rewrite E; apply in_or_app; auto|].
    destruct (secs l2) as [|y ys] eqn:Ey; [reflexivity|exfalso].
    assert (Hy : In y (secs (EErr :: l2))).
    { change (EErr :: l2) with ([EErr] ++ l2). rewrite secs_app, Ey. apply in_or_app. right. left. reflexivity. }
    pose proof (P4 y Hy) as H1. pose proof N_le as HN.
    assert (E' : log (rexec rb cb sched) = (l1 ++ [EErr]) ++ l2) by (rewrite E, <- app_assoc; reflexivity).
    destruct (prefix_secs _ _ _ _ Hs E') as (_ & _ & Q3 & _).
    assert (nrounds < y); [|lia]. apply Q3; [|rewrite Ey; left; reflexivity].
    rewrite secs_app. apply in_or_app. right. left. reflexivity.
  Qed.

  (* error hand-off: a snapshot cloned after handle_error released the lock, with no clear returning in between,
     shows the error together with ALL rounds b..nrounds-1 of the run, whole (the state handle_error found) *)
  Theorem rich_error rb cb sched l1 l2 i v e l3 :
    log (rexec rb cb sched) = l1 ++ EErr :: l2 ++ ESnap i v e :: l3 -> no_clear l2 ->
    e = true /\ v = fst (replay l1) /\ exists b, b <= nrounds /\ v = rounds_state m b nrounds.
  Proof.
    intros E Hn. destruct (log_facts rb cb sched) as (_ & _ & Hk).
    assert (E' : log (rexec rb cb sched) = (l1 ++ EErr :: l2) ++ ESnap i v e :: l3) by (rewrite E, <- app_assoc; reflexivity).
    destruct (around_error rb cb sched l1 (l2 ++ ESnap i v e :: l3) E) as (P1 & Hp1 & Hl2).
    rewrite secs_app in Hl2. apply app_eq_nil in Hl2. destruct Hl2 as [Hl2 _].
    split; [apply (rich_error_iff _ _ _ _ _ _ _ _ E'); apply in_or_app; right; left; reflexivity|].
    assert (Hv : v = fst (replay l1)).
    { pose proof (Hk _ _ _ _ _ E') as E2. rewrite replay_app, replay_from_cons in E2.
      destruct (replay l1) as [c0 e0]. cbn [TracerRich.apply_ev fst] in *.
      apply (f_equal fst) in E2. cbn [fst] in E2. rewrite E2, replay_from_noclr by assumption.
      rewrite (secs_nil_atoms _ Hl2). apply app_nil_r. }
    split; [exact Hv|].
    destruct (replay_summ nrounds m l1 _ P1 Hp1) as (b & _ & Hb & Hr).
    exists b. split; [assumption|]. rewrite Hv, Hr. apply rounds_state_M_lt. lia.
  Qed.

  (* the error survives every clear: a snapshot cloned (a fortiori: called) after handle_error released the lock shows
     the error whatever clears happen before, between or after; its round data are exactly the whole rounds published
     since the last completed clear: the rounds handle_error found if no clear returned since, nothing if one did (no
     round is published after the error) *)
  Theorem rich_error_survives_clear rb cb sched l1 l2 i v e l3 :
    log (rexec rb cb sched) = l1 ++ EErr :: l2 ++ ESnap i v e :: l3 ->
    e = true /\
    (no_clear l2 -> v = fst (replay l1)) /\
    ((exists j, In (EClr j) l2) -> v = []) /\
    exists b, b <= nrounds /\ v = rounds_state m b nrounds.
  Proof.
    intros E. destruct (log_facts rb cb sched) as (_ & _ & Hk).
    assert (E' : log (rexec rb cb sched) = (l1 ++ EErr :: l2) ++ ESnap i v e :: l3) by (rewrite E, <- app_assoc; reflexivity).
    destruct (around_error rb cb sched l1 (l2 ++ ESnap i v e :: l3) E) as (P1 & Hp1 & Hl2).
    rewrite secs_app in Hl2. apply app_eq_nil in Hl2. destruct Hl2 as [Hl2 _].
    assert (He : e = true) by (apply (rich_error_iff _ _ _ _ _ _ _ _ E'); apply in_or_app; right; left; reflexivity).
    assert (Hclr : (exists j, In (EClr j) l2) -> v = []).
    { intros (j & Hj). apply in_split in Hj. destruct Hj as (l2a & l2b & ->).
      assert (E2 : log (rexec rb cb sched) = ((l1 ++ EErr :: l2a) ++ EClr j :: l2b) ++ ESnap i v e :: l3).
      { rewrite E, <- !app_assoc. cbn [app]. rewrite <- ?app_assoc. reflexivity. }
      pose proof (Hk _ _ _ _ _ E2) as Hv. apply (f_equal fst) in Hv. cbn [fst] in Hv. rewrite replay_after_clear in Hv.
      destruct v as [|a v']; [reflexivity|exfalso].
      assert (Ha : In a (fst (replay_from ([], snd (replay (l1 ++ EErr :: l2a))) l2b))) by (rewrite <- Hv; left; reflexivity).
      apply (in_replay_from nrounds m) in Ha. destruct Ha as [[]|Ha].
      rewrite secs_app in Hl2. apply app_eq_nil in Hl2. destruct Hl2 as [_ Hl2].
      change (EClr j :: l2b) with ([EClr j] ++ l2b) in Hl2. rewrite secs_app in Hl2. cbn in Hl2. rewrite Hl2 in Ha. destruct Ha. }
    split; [exact He|]. split; [intros Hn; exact (proj1 (proj2 (rich_error rb cb sched l1 l2 i v e l3 E Hn)))|].
    split; [exact Hclr|].
    assert (Hdec : no_clear l2 \/ exists j, In (EClr j) l2).
    { clear. induction l2 as [|x l IH]; [left; intros j []|].
      destruct IH as [IH|(j & Hj)]; [|right; exists j; right; exact Hj].
      destruct x; try (left; intros j [Hj|Hj]; [discriminate|exact (IH j Hj)]).
      right. exists j. left. reflexivity. }
    destruct Hdec as [Hn|Hc].
    - exact (proj2 (proj2 (rich_error rb cb sched l1 l2 i v e l3 E Hn))).
    - exists nrounds. split; [lia|]. rewrite (Hclr Hc), rounds_state_refl. reflexivity.
  Qed.

  (* the snapshots of the history are the observations of the Conc/Tracer.v component, in the same order *)
  Theorem rich_snaps_are_obs rb cb sched :
    snap_vals (log (rexec rb cb sched)) = map (fun o => fst (fst o)) (obs (co (rexec rb cb sched))).
  Proof. destruct (rexec_inv nrounds m fails rb cb sched) as (_ & _ & _ & _ & _ & _ & Hv). exact Hv. Qed.
End RichTheorems.
